package c06

// (a) Aggregator histories, in-process: G reporter goroutines x M reports against the
// real phout aggregator / the real encoder aggregators, context cancelled after the
// last Report returned.

import (
	"bufio"
	"bytes"
	"context"
	"encoding/json"
	"errors"
	"fmt"
	"io"
	"math"
	"strings"
	"sync"
	"sync/atomic"
	"testing"
	"time"

	"verif/harness/internal/pand"
	"verif/harness/internal/vf"

	"github.com/c2h5oh/datasize"
	"github.com/spf13/afero"
	"github.com/yandex/pandora/core"
	"github.com/yandex/pandora/core/aggregator"
	"github.com/yandex/pandora/core/aggregator/netsample"
	"github.com/yandex/pandora/core/coreutil"
	"github.com/yandex/pandora/core/datasink"
	"github.com/yandex/pandora/lib/ioutil2"
	"pgregory.net/rapid"
)

const hangDeadline = 60 * time.Second // normal duration of a case: a few ms

func sleepUs(n int) {
	if n > 0 {
		time.Sleep(time.Duration(n) * time.Microsecond)
	}
}

func isCtxErr(err error) bool {
	for e := err; e != nil; {
		if e == context.Canceled {
			return true
		}
		type causer interface{ Cause() error }
		if c, ok := e.(causer); ok {
			e = c.Cause()
			continue
		}
		e = errors.Unwrap(e)
	}
	return false
}

// ---------------- phout ----------------

type PhoutCase struct {
	IDs           bool         `json:"ids"`
	Queue         int          `json:"sample_queue_size"`
	BufferBytes   int          `json:"buffer_size"`
	Reporters     [][]PhSample `json:"reporters"`
	Rounds        int          `json:"rounds"`               // every reporter goes through its list this many times
	RunDelayUs    int          `json:"run_started_after_us"` // reporters start first (core.Aggregator: "MAY NOT because of goroutine races")
	GapUs         int          `json:"gap_between_reports_us"`
	CancelDelayUs int          `json:"cancel_after_last_report_us"`
}

func genPhoutCase(t *rapid.T) PhoutCase {
	c := PhoutCase{}
	c.IDs = rapid.Bool().Draw(t, "ids")
	c.Queue = rapid.SampledFrom([]int{0, 1, 1, 2, 7, 64, 4096}).Draw(t, "queue")
	c.BufferBytes = rapid.SampledFrom([]int{1, 1, 4096, 5000, 0}).Draw(t, "buf")
	g := rapid.IntRange(1, 8).Draw(t, "reporters")
	maxM := rapid.SampledFrom([]int{3, 12, 40, 120}).Draw(t, "maxM")
	pool := rapid.SliceOfN(rapid.Custom(genPhSample), 1, 4).Draw(t, "pool")
	one := rapid.OneOf(rapid.SampledFrom(pool), rapid.Custom(genPhSample))
	// discarded shoots (discard_overflow: an instance behind its schedule reports
	// netsample.DiscardedShootSample() instead of shooting) among the guns' samples:
	// 0 none, 1 any reporter discards now and then, 2 some reporters only discard (instances that
	// lag behind) while the others shoot
	discard := rapid.SampledFrom([]int{0, 0, 1, 1, 2}).Draw(t, "discardedShoots")
	discarded := rapid.Just(PhSample{Discarded: true})
	if discard == 1 {
		one = rapid.OneOf(rapid.SampledFrom(pool), rapid.Custom(genPhSample), discarded)
	}
	for i := 0; i < g; i++ {
		if discard == 2 && rapid.Bool().Draw(t, "onlyDiscards") {
			c.Reporters = append(c.Reporters, rapid.SliceOfN(discarded, 0, maxM).Draw(t, "discards"))
			continue
		}
		c.Reporters = append(c.Reporters, rapid.SliceOfN(one, 0, maxM).Draw(t, "reports"))
	}
	c.Rounds = rapid.SampledFrom([]int{1, 1, 2, 5, 20}).Draw(t, "rounds")
	c.RunDelayUs = rapid.SampledFrom([]int{0, 0, 0, 200, 2000}).Draw(t, "runDelay")
	c.GapUs = rapid.SampledFrom([]int{0, 0, 0, 20}).Draw(t, "gap")
	c.CancelDelayUs = rapid.SampledFrom([]int{0, 0, 50, 500, 3000}).Draw(t, "cancelDelay")
	return c
}

func checkPhout(c PhoutCase, o *vf.Obs) error {
	rec := &recorder{}
	name := pand.TempName("c06-phout", ".log")
	defer pand.Remove(name)
	conf := netsample.DefaultPhoutConfig()
	conf.Destination = name
	conf.ID = c.IDs
	conf.SampleQueueSize = c.Queue
	conf.Buffer = coreutil.BufferSizeConfig{BufferSize: datasize.ByteSize(c.BufferBytes)}
	ph, err := netsample.NewPhout(recFs{pand.FS(), rec}, conf)
	if err != nil {
		return fmt.Errorf("harness: NewPhout: %v", err)
	}
	aggr := netsample.WrapAggregator(ph) // what core/import registers

	var expected []string
	total := 0
	rounds := max(1, c.Rounds)
	for _, rep := range c.Reporters {
		for _, s := range rep {
			for i := 0; i < rounds; i++ {
				expected = append(expected, s.key(c.IDs))
				total++
			}
		}
	}

	ctx, cancel := context.WithCancel(context.Background())
	defer cancel()
	var sink vf.ErrSink
	var w window
	var runErr error
	w.start = time.Now()
	ok, stacks := vf.Deadline(hangDeadline, func() {
		runDone := make(chan struct{})
		vf.GoErr(nil, &sink, func() {
			defer close(runDone)
			sleepUs(c.RunDelayUs)
			runErr = aggr.Run(ctx, core.AggregatorDeps{Log: pand.NopLog()})
		})
		var wg sync.WaitGroup
		for _, rep := range c.Reporters {
			rep := rep
			vf.GoErr(&wg, &sink, func() {
				for i := 0; i < rounds; i++ {
					for _, s := range rep {
						aggr.Report(s.build())
						sleepUs(c.GapUs)
					}
				}
			})
		}
		wg.Wait() // every Report call returned
		sleepUs(c.CancelDelayUs)
		cancel()
		<-runDone
	})
	w.end = time.Now()
	if !ok {
		return fmt.Errorf("reporters / Run did not finish within %v\n%s", hangDeadline, stacks)
	}
	if e := sink.Get(); e != nil {
		return e
	}
	if runErr != nil && !isCtxErr(runErr) {
		return fmt.Errorf("phout Run returned %v after its context was cancelled", runErr)
	}
	data, err := afero.ReadFile(pand.FS(), name)
	if err != nil {
		return fmt.Errorf("harness: reading back %s: %v", name, err)
	}
	written, _, writes, _, _ := rec.snapshot()
	if !bytes.Equal(written, data) {
		return fmt.Errorf("harness: file content (%d bytes) differs from the recorded writes (%d bytes)", len(data), len(written))
	}
	lines, err := parsePhout(data)
	if err != nil {
		return fmt.Errorf("%d reports, output of %d bytes: %w", total, len(data), err)
	}
	got, want := msOf(lineKeys(lines)), msOf(expected)
	if n, ex := want.minus(got); n > 0 {
		return fmt.Errorf("%d of %d reported samples are missing from the output (%d lines), e.g. %s", n, total, len(lines), strings.Join(ex, "; "))
	}
	if n, ex := got.minus(want); n > 0 {
		return fmt.Errorf("%d output lines (of %d) match no reported sample / appear too often, e.g. %s", n, len(lines), strings.Join(ex, "; "))
	}
	if err := w.checkStamps(lines); err != nil {
		return err
	}
	if err := rec.closedOnceAfterLastWrite("the phout file"); err != nil {
		return err
	}

	if len(c.Reporters) >= 2 || c.Queue < total {
		o.NonTrivial()
	}
	o.ClassIf(len(c.Reporters) >= 2, "reporters_ge_2")
	o.ClassIf(c.Queue < total, "queue_lt_reports")
	o.ClassIf(c.Queue <= 1, "queue_0_or_1")
	o.ClassIf(c.IDs, "ids_on")
	o.ClassIf(!c.IDs, "ids_off")
	o.ClassIf(c.RunDelayUs > 0, "report_before_run")
	o.ClassIf(writes >= 2, "several_writes")
	o.ClassIf(total == 0, "no_reports")
	o.ClassIf(len(want) < total, "duplicate_samples")
	o.ClassIf(total >= 200, "reports_ge_200")
	neg, big, odd, empty := false, false, false, false
	nDisc, nShot := 0, 0
	for _, rep := range c.Reporters {
		d := 0
		for _, s := range rep {
			if s.Discarded {
				d++
			}
		}
		nDisc, nShot = nDisc+d*rounds, nShot+(len(rep)-d)*rounds
	}
	mixed := nDisc > 0 && nShot > 0
	o.ClassIf(nDisc > 0, "discarded_shoots")
	o.ClassIf(mixed, "discarded_among_shots")
	o.ClassIf(mixed && len(c.Reporters) >= 2, "discarded_among_shots_reporters_ge_2")
	o.ClassIf(mixed && c.IDs, "discarded_among_shots_ids_on")
	o.ClassIf(mixed && nDisc >= 20 && nShot >= 20, "discarded_ge_20_among_shots_ge_20")
	o.ClassIf(nDisc > 0 && nShot == 0, "discarded_only")
	o.Note("discarded", nDisc)
	for _, rep := range c.Reporters {
		for _, s := range rep {
			if s.Discarded {
				continue
			}
			neg = neg || s.hasNegative()
			big = big || s.hasBig()
			odd = odd || strings.ContainsAny(s.Tag, " #|") || !isASCII(s.Tag)
			empty = empty || s.Tag == ""
		}
	}
	o.ClassIf(neg, "negative_field")
	o.ClassIf(big, "field_beyond_2^32")
	o.ClassIf(odd, "tag_special_chars")
	o.ClassIf(empty, "tag_empty")
	o.ClassIf(w.stepped(), "clock_stepped")
	o.Note("reports", total)
	o.Note("lines", len(lines))
	o.Note("writes", writes)
	return nil
}

func isASCII(s string) bool {
	for i := 0; i < len(s); i++ {
		if s[i] >= 0x80 {
			return false
		}
	}
	return true
}

func TestPhoutHistory(t *testing.T) {
	r := vf.Start(t, "C06")
	vf.Check(r, genPhoutCase, checkPhout)
}

// ---------------- encoder aggregators ----------------

// JS describes one reported sample of the JSON encoder aggregators.
type JS struct {
	Kind int               `json:"kind"` // 0 *struct, 1 map, 2 string, 3 int, 4 list, 5 struct value
	S    string            `json:"s"`
	N    int64             `json:"n"`
	L    []int64           `json:"l"`
	M    map[string]string `json:"m"`
	B    bool              `json:"b"`
	Pad  int               `json:"pad,omitempty"` // S is followed by this many padding characters

	// Bad > 0: the sample holds, somewhere after its beginning, a value JSON has no notation for
	// (BadVal: 0 NaN, 1 +Inf, 2 -Inf, 3 a channel, 4 a func); Bad is the place (see badValue).
	// Kind is ignored then.
	Bad    int `json:"unencodable_at,omitempty"`
	BadVal int `json:"unencodable_value,omitempty"`
}

const padLetters = "abcdefghijklmnopqrstuvwxyzABCDEFGHIJKLMNOPQRSTUVWXYZ0123456789"

// text is the string the sample carries: S plus Pad characters (a pattern that starts at a
// place depending on Pad, so that lines of different samples differ in more than their length).
func (j JS) text() string {
	if j.Pad <= 0 {
		return j.S
	}
	var b strings.Builder
	b.Grow(len(j.S) + j.Pad)
	b.WriteString(j.S)
	for i := 0; i < j.Pad; i++ {
		b.WriteByte(padLetters[(i+j.Pad)%len(padLetters)])
	}
	return b.String()
}

type recSub struct {
	Name string `json:"name"`
	On   bool   `json:"on"`
}

type recSample struct {
	Tag   string            `json:"tag"`
	Num   int64             `json:"num"`
	Vals  []int64           `json:"vals"`
	Attr  map[string]string `json:"attr,omitempty"`
	Sub   *recSub           `json:"sub,omitempty"`
	Flag  bool              `json:"flag"`
	Inner recSub            `json:"inner"`
}

// latSample is what a gun that measures in float64 reports.
type latSub struct {
	Name string  `json:"name"`
	F    float64 `json:"f"`
	V    any     `json:"v,omitempty"`
}

type latSample struct {
	Tag   string             `json:"tag"`
	Lat   float64            `json:"latency"`
	Num   int64              `json:"num"`
	Extra any                `json:"extra,omitempty"`
	Sub   *latSub            `json:"sub,omitempty"`
	Vals  []float64          `json:"vals,omitempty"`
	Attr  map[string]float64 `json:"attr,omitempty"`
	Flag  bool               `json:"flag"`
}

// places of the unencodable value inside a sample (JS.Bad)
const (
	badNone        = iota
	badStructField // a later field of a struct value
	badPtrStruct   // the same behind a pointer (the sample is a *struct)
	badNestedPtr   // in a struct that a pointer field of the sample points to
	badListLast    // the last element of a list sample
	badSliceField  // a later element of a slice held by a struct field
	badMapValue    // a value of a map sample
	badMapField    // a value of a map held by a struct field
	badWhole       // the sample itself
	badPlaces
)

var badPlaceNames = [badPlaces]string{"", "struct_field", "ptr_struct", "nested_ptr", "list_last", "slice_field", "map_value", "map_field", "whole"}

// badValue builds the sample of a JS with Bad > 0.
func (j JS) badValue() any {
	var f float64
	var v any // the value when it is not a float
	switch j.BadVal {
	case 0:
		f = math.NaN()
	case 1:
		f = math.Inf(1)
	case 2:
		f = math.Inf(-1)
	case 3:
		v = make(chan int)
	default:
		v = func() {}
	}
	isF := v == nil
	bad := v
	if isF {
		bad = f
	}
	ls := latSample{Tag: j.text(), Lat: 0.25, Num: j.N, Flag: j.B}
	switch j.Bad {
	case badStructField, badPtrStruct:
		if isF {
			ls.Lat = f
		} else {
			ls.Extra = v
		}
		if j.Bad == badPtrStruct {
			return &ls
		}
		return ls
	case badNestedPtr:
		ls.Sub = &latSub{Name: j.S, F: 1}
		if isF {
			ls.Sub.F = f
		} else {
			ls.Sub.V = v
		}
		return &ls
	case badListLast:
		if isF && j.B {
			return []float64{1, 0.5, f}
		}
		return []any{j.text(), j.N, j.B, bad}
	case badSliceField:
		if isF {
			ls.Vals = []float64{0.5, f, 2}
		} else {
			ls.Extra = []any{j.N, v, "x"}
		}
		return ls
	case badMapValue:
		return map[string]any{"s": j.text(), "n": j.N, "x": bad}
	case badMapField:
		if isF {
			ls.Attr = map[string]float64{"a": 1, "b": f}
		} else {
			ls.Extra = map[string]any{"a": 1, "b": v}
		}
		return ls
	default:
		return bad
	}
}

func (j JS) value() any {
	if j.Bad > 0 {
		return j.badValue()
	}
	rs := recSample{Tag: j.text(), Num: j.N, Vals: j.L, Attr: j.M, Flag: j.B, Inner: recSub{Name: j.S, On: !j.B}}
	if j.B {
		rs.Sub = &recSub{Name: j.S + "/sub", On: true}
	}
	switch j.Kind {
	case 0:
		return &rs
	case 1:
		m := map[string]any{"s": j.text(), "n": j.N, "b": j.B}
		if j.L != nil {
			m["l"] = j.L
		}
		if j.M != nil {
			m["m"] = j.M
		}
		return m
	case 2:
		return j.text()
	case 3:
		return j.N
	case 4:
		return []any{j.text(), j.N, j.B, nil, j.L}
	default:
		return rs
	}
}

// canon decodes one JSON document (numbers kept as written) and re-encodes it with
// encoding/json (sorted keys): two documents are the same JSON value iff their
// canonical forms are equal.
func canon(doc []byte) (string, error) {
	dec := json.NewDecoder(bytes.NewReader(doc))
	dec.UseNumber()
	var v any
	if err := dec.Decode(&v); err != nil {
		return "", err
	}
	var extra any
	if err := dec.Decode(&extra); err != io.EOF {
		return "", fmt.Errorf("more than one JSON value")
	}
	b, err := json.Marshal(v)
	return string(b), err
}

// refKey is the canonical form of the sample as encoded by the standard library
// (independent of the jsoniter encoder under test).
func (j JS) refKey() (string, error) {
	b, err := json.Marshal(j.value())
	if err != nil {
		return "", err
	}
	return canon(b)
}

var jsRunes = []rune("ab Z09\n\t\r\"\\/#|{}[]:,<>&' \u0001\u007fжé日😀")

func genJS(t *rapid.T) JS {
	str := rapid.OneOf(rapid.StringOfN(rapid.SampledFrom(jsRunes), 0, 12, -1), rapid.StringN(0, 8, -1))
	j := JS{Kind: rapid.IntRange(0, 5).Draw(t, "kind")}
	j.S = strings.ToValidUTF8(str.Draw(t, "s"), "?")
	j.N = rapid.OneOf(rapid.Int64Range(-5, 5), rapid.Int64(), rapid.Just(int64(1<<53+1))).Draw(t, "n")
	j.B = rapid.Bool().Draw(t, "b")
	if rapid.Bool().Draw(t, "hasL") {
		j.L = rapid.SliceOfN(rapid.Int64(), 0, 4).Draw(t, "l")
	}
	if rapid.Bool().Draw(t, "hasM") {
		n := rapid.IntRange(0, 3).Draw(t, "mN")
		j.M = map[string]string{}
		for i := 0; i < n; i++ {
			j.M[strings.ToValidUTF8(str.Draw(t, "mk"), "?")] = strings.ToValidUTF8(str.Draw(t, "mv"), "?")
		}
	}
	return j
}

type EncCase struct {
	Kind          string `json:"kind"` // jsonlines | encoder | closer
	Queue         int    `json:"sample_queue_size"`
	FlushUs       int    `json:"flush_interval_us"` // 0 = no periodic flush
	BufferBytes   int    `json:"buffer_size"`
	SortKeys      bool   `json:"sort_map_keys"`
	Reporters     [][]JS `json:"reporters"`
	Rounds        int    `json:"rounds"` // every reporter goes through its list this many times
	RunDelayUs    int    `json:"run_started_after_us"`
	GapUs         int    `json:"gap_between_reports_us"`
	CancelDelayUs int    `json:"cancel_after_last_report_us"`

	// Sink "" = the recording DataSink; "file" = the real file data sink (datasink.NewFile, what
	// `sink: {type: file, path: ...}` gives) on a recording file system whose Write calls number
	// SlowFrom .. SlowFrom+SlowWrites-1 (all from SlowFrom on when SlowWrites < 0) take WriteDelayUs.
	Sink         string `json:"sink,omitempty"`
	WriteDelayUs int    `json:"write_delay_us,omitempty"`
	SlowFrom     int    `json:"slow_from_write,omitempty"`
	SlowWrites   int    `json:"slow_writes,omitempty"`
	// after every BurstLen reports a reporter pauses for BurstPauseUs (0 = no bursts)
	BurstLen     int `json:"burst_len,omitempty"`
	BurstPauseUs int `json:"burst_pause_us,omitempty"`

	// marshal-float-with-6-digits of the JSON encoder (the ordinary samples hold no floats; it selects
	// the float encoder that meets the NaN / Inf of an unencodable sample)
	Float6 bool `json:"marshal_float_with_6_digits,omitempty"`
}

// genBadJS draws a sample that cannot be marshalled: NaN / +-Inf / a channel / a func at one of the
// places of badValue.
func genBadJS(t *rapid.T) JS {
	j := genJS(t)
	j.L, j.M = nil, nil
	j.Bad = rapid.SampledFrom([]int{badStructField, badStructField, badPtrStruct, badNestedPtr, badListLast, badSliceField, badMapValue, badMapField, badWhole}).Draw(t, "unencodableAt")
	j.BadVal = rapid.SampledFrom([]int{0, 0, 1, 2, 3, 4}).Draw(t, "unencodableValue")
	return j
}

func genEncCase(t *rapid.T) EncCase {
	c := EncCase{}
	c.Kind = rapid.SampledFrom([]string{"jsonlines", "jsonlines", "encoder", "closer"}).Draw(t, "kind")
	c.Queue = rapid.OneOf(rapid.Just(1), rapid.IntRange(1, 64), rapid.IntRange(1, 8)).Draw(t, "queue")
	c.FlushUs = rapid.SampledFrom([]int{1000, 1000, 3000, 50000, 1000000, 0}).Draw(t, "flush")
	c.BufferBytes = rapid.SampledFrom([]int{1, 1, 4096, 6000, 0}).Draw(t, "buf")
	c.SortKeys = rapid.Bool().Draw(t, "sortKeys")
	g := rapid.IntRange(1, 8).Draw(t, "reporters")
	maxM := rapid.SampledFrom([]int{3, 12, 40, 120}).Draw(t, "maxM")
	pool := rapid.SliceOfN(rapid.Custom(genJS), 1, 4).Draw(t, "pool")
	one := rapid.OneOf(rapid.SampledFrom(pool), rapid.Custom(genJS))
	for i := 0; i < g; i++ {
		c.Reporters = append(c.Reporters, rapid.SliceOfN(one, 0, maxM).Draw(t, "reports"))
	}
	c.Rounds = rapid.SampledFrom([]int{1, 1, 2, 5, 20}).Draw(t, "rounds")
	c.RunDelayUs = rapid.SampledFrom([]int{0, 0, 0, 200, 2000}).Draw(t, "runDelay")
	c.GapUs = rapid.SampledFrom([]int{0, 0, 20, 200}).Draw(t, "gap")
	c.CancelDelayUs = rapid.SampledFrom([]int{0, 0, 50, 500, 3000}).Draw(t, "cancelDelay")
	// a quarter of the histories goes to the real file data sink, half of those on a file system
	// that is slow for a few writes
	if rapid.IntRange(0, 3).Draw(t, "fileSink") == 0 {
		c.Sink = "file"
		c.WriteDelayUs = rapid.SampledFrom([]int{0, 0, 500, 2000}).Draw(t, "writeDelay")
		if c.WriteDelayUs > 0 {
			c.SlowFrom = rapid.IntRange(0, 2).Draw(t, "slowFrom")
			c.SlowWrites = rapid.IntRange(1, 4).Draw(t, "slowWrites")
		}
	}
	// 1 history of 5: among the ordinary samples 1-3 that cannot be marshalled (a gun that reports a
	// float64 latency computed as 0/0, a sample struct that carries a channel ...), each at a drawn
	// place of a drawn reporter's list. The aggregator may fail then ('sample encode failed'), but
	// what it has written must still be whole lines of reported samples, and when Run returns nil
	// or only the dropped count, everything must be accounted for (see encRun).
	//
	// Such histories are generated with sort_map_keys off only. With it on, jsoniter's sorted-map
	// encoder (like its json.Marshaler encoder, which no sample here needs) hands the stream's
	// content to the encoder's bufio.Writer in the middle of a value; when a later sample fails,
	// jsonEncoder.Flush on the aggregator's way out leaves the stream alone (its error is sticky)
	// but flushes that bufio.Writer: the unchanged code then ends the output with the unterminated
	// beginning of a line - of the failing sample if it holds a map itself, else of the last ordinary
	// sample with a map (reported as a finding; not asserted here until it is settled).
	if rapid.IntRange(0, 4).Draw(t, "unencodable") == 0 {
		c.SortKeys = false
		c.Float6 = rapid.Bool().Draw(t, "float6")
		n := rapid.IntRange(1, 3).Draw(t, "unencodableN")
		for i := 0; i < n; i++ {
			b := genBadJS(t)
			r := rapid.IntRange(0, len(c.Reporters)-1).Draw(t, "unencodableReporter")
			at := rapid.IntRange(0, len(c.Reporters[r])).Draw(t, "unencodablePos")
			rep := append([]JS(nil), c.Reporters[r][:at]...)
			rep = append(rep, b)
			c.Reporters[r] = append(rep, c.Reporters[r][at:]...)
		}
	}
	return c
}

// lineEncoder is a SampleEncodeCloser ("SampleEncoder that REQUIRE Close call to
// finish encoding"): buffered, one JSON document per line, nothing reaches the sink
// before Flush / Close.
type lineEncoder struct {
	w              *bufio.Writer
	closes         atomic.Int32
	encodeAfterEnd atomic.Bool
}

func (e *lineEncoder) Encode(s core.Sample) error {
	if e.closes.Load() > 0 {
		e.encodeAfterEnd.Store(true)
	}
	b, err := json.Marshal(s)
	if err != nil {
		return err
	}
	e.w.Write(b)
	return e.w.WriteByte('\n')
}
func (e *lineEncoder) Flush() error { return e.w.Flush() }
func (e *lineEncoder) Close() error { e.closes.Add(1); return e.w.Flush() }

// encStats is what one run of an encoder aggregator history showed.
type encStats struct {
	total, lines, distinct int
	dropped                int64
	writes, bytes          int
	maxWrite               int // largest single Write that reached the destination
	escapedNewline         bool
	unencodable            int  // reports of samples that cannot be marshalled
	failed                 bool // Run ended with an error other than the dropped count (only possible with unencodable > 0)
}

func checkEnc(c EncCase, o *vf.Obs) error {
	st, err := encRun(c, nil)
	if err != nil {
		return err
	}
	total, dropped := st.total, st.dropped
	if len(c.Reporters) >= 2 || c.Queue < total {
		o.NonTrivial()
	}
	o.Class("kind_" + c.Kind)
	o.ClassIf(len(c.Reporters) >= 2, "reporters_ge_2")
	o.ClassIf(c.Queue < total, "queue_lt_reports")
	o.ClassIf(c.Queue == 1, "queue_1")
	o.ClassIf(dropped > 0, "drops")
	o.ClassIf(dropped > 0 && st.lines > 0, "drops_and_lines")
	o.ClassIf(dropped == 0 && total > 0 && !st.failed, "no_drops")
	o.ClassIf(c.RunDelayUs > 0, "report_before_run")
	o.ClassIf(st.writes >= 2, "several_writes")
	o.ClassIf(st.distinct < total, "duplicate_samples")
	o.ClassIf(total >= 200, "reports_ge_200")
	o.ClassIf(c.FlushUs > 0 && c.FlushUs <= 3000, "flush_le_3ms")
	o.ClassIf(st.escapedNewline, "escaped_newline")
	o.ClassIf(c.Sink == "file", "sink_file")
	o.ClassIf(c.Sink == "file" && c.WriteDelayUs > 0 && st.writes > c.SlowFrom, "sink_file_slow_write")
	// samples that cannot be marshalled among the ordinary ones
	if st.unencodable > 0 {
		jsoniter := c.Kind != "closer" // the encoder under test (the closer kind marshals with encoding/json in the harness)
		o.Class("unencodable_in_history")
		o.ClassIf(st.failed, "unencodable_run_failed")
		o.ClassIf(st.failed && jsoniter, "unencodable_run_failed_json_encoder")
		o.ClassIf(!st.failed, "unencodable_all_dropped")
		o.ClassIf(st.failed && st.lines > 0, "unencodable_run_failed_after_lines_written")
		o.ClassIf(st.failed && dropped > 0, "unencodable_run_failed_and_drops")
		o.ClassIf(c.Float6, "unencodable_float_6_digits")
		o.ClassIf(c.Sink == "file", "unencodable_sink_file")
		o.ClassIf(st.unencodable < total, "unencodable_among_ordinary")
		seen := map[string]bool{}
		mark := func(cond bool, name string) {
			if cond && !seen[name] {
				seen[name] = true
				o.Class(name)
			}
		}
		for _, rep := range c.Reporters {
			for _, s := range rep {
				if s.Bad > 0 && s.Bad < badPlaces {
					mark(true, "unencodable_at_"+badPlaceNames[s.Bad])
					mark(s.Bad != badWhole, "unencodable_inside_sample")
					mark(s.BadVal <= 2, "unencodable_nan_inf")
					mark(s.BadVal > 2, "unencodable_chan_func")
				}
			}
		}
	}
	o.Note("reports", total)
	o.Note("lines", st.lines)
	o.Note("dropped", dropped)
	o.Note("unencodable", st.unencodable)
	return nil
}

// encRun plays one history against a fresh aggregator and applies the whole oracle. memo (may be
// nil) caches the canonical form of output lines across runs that repeat the same samples.
func encRun(c EncCase, memo map[string]string) (st encStats, err error) {
	rec := &recorder{}
	econf := aggregator.DefaultEncoderAggregatorConfig()
	econf.Sink = recSink{rec}
	fileName := ""
	switch c.Sink {
	case "":
	case "file":
		fileName = pand.TempName("c06-enc", ".jsonl")
		defer pand.Remove(fileName)
		fs := &slowRecFs{Fs: pand.FS(), r: rec, delay: time.Duration(c.WriteDelayUs) * time.Microsecond, from: c.SlowFrom, count: c.SlowWrites}
		econf.Sink = datasink.NewFile(fs, datasink.FileConfig{Path: fileName}) // what core/import registers as sink type `file`
	default:
		return st, fmt.Errorf("harness: unknown sink %q", c.Sink)
	}
	econf.FlushInterval = time.Duration(c.FlushUs) * time.Microsecond
	econf.BufferSize = c.BufferBytes
	econf.ReporterConfig = aggregator.ReporterConfig{SampleQueueSize: c.Queue}
	jconf := aggregator.JSONLineEncoderConfig{
		JSONIterConfig:   aggregator.JSONIterConfig{SortMapKeys: c.SortKeys, MarshalFloatWith6Digits: c.Float6},
		BufferSizeConfig: coreutil.BufferSizeConfig{BufferSize: datasize.ByteSize(c.BufferBytes)},
	}
	var closer *lineEncoder
	var aggr core.Aggregator
	switch c.Kind {
	case "jsonlines":
		aggr = aggregator.NewJSONLinesAggregator(aggregator.JSONLineAggregatorConfig{EncoderAggregatorConfig: econf, JSONLineEncoderConfig: jconf})
	case "encoder":
		aggr = aggregator.NewEncoderAggregator(func(w io.Writer, onFlush func()) aggregator.SampleEncoder {
			return aggregator.NewJSONEncoder(ioutil2.NewCallbackWriter(w, onFlush), jconf)
		}, econf)
	case "closer":
		aggr = aggregator.NewEncoderAggregator(func(w io.Writer, onFlush func()) aggregator.SampleEncoder {
			closer = &lineEncoder{w: bufio.NewWriterSize(ioutil2.NewCallbackWriter(w, onFlush), 4096)}
			return closer
		}, econf)
	default:
		return st, fmt.Errorf("harness: unknown kind %q", c.Kind)
	}

	var expected []string
	rounds := max(1, c.Rounds)
	unencodable := 0 // reports of samples that cannot be marshalled: no line may ever stand for one of them
	for _, rep := range c.Reporters {
		for _, s := range rep {
			if s.Bad > 0 {
				if c.SortKeys {
					return st, fmt.Errorf("harness: unencodable samples together with sort_map_keys are outside the generated region (see genEncCase)")
				}
				unencodable += rounds
				continue
			}
			k, err := s.refKey()
			if err != nil {
				return st, fmt.Errorf("harness: reference encoding of %+v: %v", s, err)
			}
			for i := 0; i < rounds; i++ {
				expected = append(expected, k)
			}
		}
	}
	total := len(expected) + unencodable

	ctx, cancel := context.WithCancel(context.Background())
	defer cancel()
	var sink vf.ErrSink
	var runErr error
	ok, stacks := vf.Deadline(hangDeadline, func() {
		runDone := make(chan struct{})
		vf.GoErr(nil, &sink, func() {
			defer close(runDone)
			sleepUs(c.RunDelayUs)
			runErr = aggr.Run(ctx, core.AggregatorDeps{Log: pand.NopLog()})
		})
		var wg sync.WaitGroup
		for _, rep := range c.Reporters {
			rep := rep
			vf.GoErr(&wg, &sink, func() {
				n := 0
				for i := 0; i < rounds; i++ {
					for _, s := range rep {
						aggr.Report(s.value())
						sleepUs(c.GapUs)
						if n++; c.BurstLen > 0 && n%c.BurstLen == 0 {
							sleepUs(c.BurstPauseUs)
						}
					}
				}
			})
		}
		wg.Wait()
		sleepUs(c.CancelDelayUs)
		cancel()
		<-runDone
	})
	if !ok {
		return st, fmt.Errorf("reporters / Run did not finish within %v\n%s", hangDeadline, stacks)
	}
	if e := sink.Get(); e != nil {
		return st, e
	}

	// the dropped count carried by the Run error
	// A history with samples that cannot be marshalled may end with another error (the aggregator
	// gives up at the first such sample it takes from the queue: 'sample encode failed'); `failed`
	// then. Every other history - and every history whose Run returned nil or nothing but the
	// dropped count - is judged by the full law.
	var dropped int64
	failed := false
	if runErr != nil {
		var sd *aggregator.SomeSamplesDropped
		hasDrop := errors.As(runErr, &sd)
		_, plain := runErr.(*aggregator.SomeSamplesDropped)
		dropOnly := hasDrop && (plain || isCtxErrOrDropOnly(runErr))
		switch {
		case dropOnly:
		case unencodable > 0:
			failed = true
		case !hasDrop:
			return st, fmt.Errorf("Run returned %q: neither nil nor a SomeSamplesDropped error (the sink never fails)", runErr)
		default:
			return st, fmt.Errorf("Run returned %q: an error besides the dropped-samples count although nothing failed", runErr)
		}
		if hasDrop {
			dropped = sd.Dropped
			if dropped <= 0 {
				return st, fmt.Errorf("Run returned a SomeSamplesDropped error with count %d", dropped)
			}
		}
	}

	data, _, writes, _, _ := rec.snapshot()
	if fileName != "" {
		onDisk, err := afero.ReadFile(pand.FS(), fileName)
		if err != nil {
			return st, fmt.Errorf("harness: reading back %s: %v", fileName, err)
		}
		if !bytes.Equal(onDisk, data) {
			// the recorder copies p at the start of the file's Write, the file system takes it over a moment
			// later in the same call: a difference means p was changed while Write had not returned yet
			return st, fmt.Errorf("the result file (%d bytes) does not hold the bytes that were handed to its Write calls (%d bytes): a slice was modified while its Write was in progress",
				len(onDisk), len(data))
		}
	}
	if len(data) > 0 && data[len(data)-1] != '\n' {
		return st, fmt.Errorf("%d reports, %d dropped: output of %d bytes does not end with a newline (last line incomplete)", total, dropped, len(data))
	}
	var keys []string
	if len(data) > 0 {
		for i, ln := range bytes.Split(data[:len(data)-1], []byte("\n")) {
			k, seen := memo[string(ln)]
			var err error
			if !seen {
				if k, err = canon(ln); err == nil && memo != nil {
					memo[string(ln)] = k
				}
			}
			if err != nil {
				return st, fmt.Errorf("output line %d is not one valid JSON value (%v): %q", i+1, err, clip(string(ln)))
			}
			keys = append(keys, k)
		}
	}
	got, want := msOf(keys), msOf(expected)
	if n, ex := got.minus(want); n > 0 {
		return st, fmt.Errorf("%d output lines (of %d) equal no reported sample / appear more often than reported, e.g. %s", n, len(keys), strings.Join(ex, "; "))
	}
	// (got within want also says: no line stands for a sample that cannot be marshalled - those are not in want)
	if !failed && int64(len(keys))+dropped != int64(total) {
		return st, fmt.Errorf("%d lines written + %d counted as dropped = %d, but %d samples were reported (Run error: %v)",
			len(keys), dropped, int64(len(keys))+dropped, total, runErr)
	}
	if failed && int64(len(keys))+dropped >= int64(total) {
		// the sample the aggregator failed at is neither a line nor a counted drop
		return st, fmt.Errorf("Run failed with %q, yet %d lines written + %d counted as dropped >= %d samples reported", runErr, len(keys), dropped, total)
	}
	if err := rec.closedOnceAfterLastWrite("the data sink"); err != nil {
		return st, err
	}
	if closer != nil {
		if n := closer.closes.Load(); n != 1 {
			return st, fmt.Errorf("the SampleEncodeCloser was closed %d times (Close MUST be called)", n)
		}
		if closer.encodeAfterEnd.Load() {
			return st, fmt.Errorf("Encode was called after the encoder had been closed")
		}
	}

	st = encStats{total: total, lines: len(keys), distinct: len(want), dropped: dropped, writes: writes, bytes: len(data), maxWrite: rec.largestWrite(),
		escapedNewline: bytes.Contains(data, []byte(`\n`)), unencodable: unencodable, failed: failed}
	return st, nil
}

// isCtxErrOrDropOnly reports whether a joined Run error consists of nothing but
// the dropped-samples error (plus possibly the context error, which core.Aggregator allows).
func isCtxErrOrDropOnly(err error) bool {
	type wrapped interface{ WrappedErrors() []error }
	if m, ok := err.(wrapped); ok {
		for _, e := range m.WrappedErrors() {
			if _, ok := e.(*aggregator.SomeSamplesDropped); ok {
				continue
			}
			if isCtxErr(e) {
				continue
			}
			return false
		}
		return true
	}
	return false
}

func TestEncoderHistory(t *testing.T) {
	r := vf.Start(t, "C06")
	vf.Check(r, genEncCase, checkEnc)
}
