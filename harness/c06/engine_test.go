package c06

// (b) Engine level: the real engine.Engine with the REAL phout aggregator, a recording
// gun that reports k uniquely tagged samples per shot and a channel provider with a
// fault plan. Normal end (out of tokens / out of ammo), error end (provider fault)
// and caller cancel.

import (
	"context"
	"errors"
	"fmt"
	"strings"
	"sync"
	"sync/atomic"
	"testing"
	"time"

	"verif/harness/internal/pand"
	"verif/harness/internal/vf"

	"github.com/c2h5oh/datasize"
	"github.com/spf13/afero"
	"github.com/yandex/pandora/core"
	"github.com/yandex/pandora/core/aggregator/netsample"
	"github.com/yandex/pandora/core/coreutil"
	"github.com/yandex/pandora/core/engine"
	"github.com/yandex/pandora/core/schedule"
	"pgregory.net/rapid"
)

type EngCase struct {
	Mode      string `json:"mode"`      // normal | error | cancel
	Instances int    `json:"instances"` // started at once
	// gradual startup: after the `once` part the startup schedule goes on with const{ops, duration}
	// (0 = startup is `once` only), so instances are still being started while the pool runs
	StartOps      float64 `json:"startup_then_const_ops"`
	StartDurMs    int     `json:"startup_then_const_duration_ms"`
	PerShot       int     `json:"reports_per_shot"`
	Tokens        int     `json:"tokens"`
	Ammo          int     `json:"ammo"` // <0 unbounded
	Queue         int     `json:"sample_queue_size"`
	IDs           bool    `json:"ids"`
	TagSuffix     string  `json:"tag_suffix"`
	ShotUs        []int   `json:"shot_us"`
	FaultAtItem   int     `json:"provider_fault_at_item"`        // error mode
	CancelAfter   int     `json:"cancel_after_reports"`          // cancel mode: trigger = this many reports completed
	CancelDelayUs int     `json:"cancel_delay_after_trigger_us"` // cancel mode
	Repeat        int     `json:"repeat"`
}

func genEngCase(t *rapid.T) EngCase {
	c := EngCase{}
	c.Mode = rapid.SampledFrom([]string{"normal", "normal", "error", "cancel", "cancel"}).Draw(t, "mode")
	c.Instances = rapid.IntRange(1, 4).Draw(t, "instances")
	c.PerShot = rapid.IntRange(1, 3).Draw(t, "perShot")
	c.Tokens = rapid.IntRange(1, 120).Draw(t, "tokens")
	c.IDs = rapid.Bool().Draw(t, "ids")
	c.TagSuffix = genTag(t, "tagSuffix")
	c.ShotUs = rapid.SliceOfN(rapid.SampledFrom([]int{0, 0, 20, 200}), 1, 3).Draw(t, "shotUs")
	c.Ammo = -1
	maxReports := c.Tokens * c.PerShot
	switch c.Mode {
	case "normal":
		if rapid.Bool().Draw(t, "boundedAmmo") {
			c.Ammo = rapid.IntRange(0, c.Tokens+2).Draw(t, "ammo")
		}
		genGradualStartup(t, &c)
		if c.StartOps > 0 && rapid.Bool().Draw(t, "lateReporter") {
			// the ammo runs out while instances are still being started and other instances are in
			// the middle of a (slow) shot: their samples are reported after the first "out of ammo"
			c.Ammo = rapid.IntRange(0, min(c.Tokens+2, 24)).Draw(t, "ammoShort")
			c.ShotUs = rapid.SliceOfN(rapid.SampledFrom([]int{0, 200, 1000, 2500}), 1, 3).Draw(t, "shotUsSlow")
		}
		// any queue size: the engine cancels the aggregator only after all instances finished
		c.Queue = rapid.SampledFrom([]int{0, 1, 2, 16, 262144}).Draw(t, "queue")
	case "error":
		c.FaultAtItem = rapid.IntRange(0, c.Tokens).Draw(t, "faultAt")
		// Reports made after phout's Run returned stay in its queue; a full queue would block
		// the instance for ever (Report is a plain channel send) — not this property's subject.
		c.Queue = maxReports + c.Instances*c.PerShot + 8
	case "cancel":
		c.CancelAfter = rapid.IntRange(0, maxReports).Draw(t, "cancelAfter")
		c.CancelDelayUs = rapid.SampledFrom([]int{0, 0, 30, 300}).Draw(t, "cancelDelay")
		c.Queue = maxReports + c.Instances*c.PerShot + 8 // maxReports bounds the reports of any number of instances
		genGradualStartup(t, &c)
	}
	c.Repeat = 2
	return c
}

// genGradualStartup: in about half of the cases the startup schedule is not over after the
// `once` part (docs/eng/startup.md: any schedule type may be composed): a slow const that outlives
// the run, or a fast one that adds instances while the others are shooting.
func genGradualStartup(t *rapid.T, c *EngCase) {
	switch rapid.IntRange(0, 3).Draw(t, "startup") {
	case 0:
		c.StartOps, c.StartDurMs = 1, 30000 // one more instance at once, the next ones 1 s apart: never over before the run is
	case 1:
		c.StartOps = rapid.SampledFrom([]float64{200, 2000}).Draw(t, "startOps")
		c.StartDurMs = rapid.SampledFrom([]int{2, 5, 20}).Draw(t, "startDurMs")
	}
}

var errInjected = errors.New("injected provider fault")

// eprov hands out numbered ammo through a channel; it fails when it is about to
// produce item FaultAt, remembering the instant just before it returns the error.
type eprov struct {
	total, faultAt int
	base           time.Time
	ch             chan int
	faultNs        atomic.Int64 // time since base just before the faulty return, 0 = not reached
	outNs          atomic.Int64 // time since base (+1) at which an Acquire first answered "out of ammo", 0 = never
	returned       atomic.Bool
}

func (p *eprov) Run(ctx context.Context, _ core.ProviderDeps) error {
	defer p.returned.Store(true)
	defer close(p.ch)
	for i := 0; p.total < 0 || i < p.total; i++ {
		if i == p.faultAt {
			p.faultNs.Store(int64(time.Since(p.base)) + 1)
			return errInjected
		}
		select {
		case p.ch <- i:
		case <-ctx.Done():
			return nil
		}
	}
	return nil
}
func (p *eprov) Acquire() (core.Ammo, bool) {
	i, ok := <-p.ch
	if !ok {
		p.outNs.CompareAndSwap(0, int64(time.Since(p.base))+1)
	}
	return i, ok
}
func (p *eprov) Release(core.Ammo) {}

type doneRec struct {
	key string
	at  time.Duration // since base, measured after Report returned
}

type eworld struct {
	c    EngCase
	base time.Time

	mu      sync.Mutex
	guns    int
	started []string
	done    []doneRec

	completed atomic.Int64
	trig      chan struct{}
	trigOnce  sync.Once
}

type egun struct {
	w    *eworld
	idx  int
	aggr core.Aggregator
	n    int
}

func (w *eworld) newGun() (core.Gun, error) {
	w.mu.Lock()
	g := &egun{w: w, idx: w.guns}
	w.guns++
	w.mu.Unlock()
	return g, nil
}

func (g *egun) Bind(a core.Aggregator, _ core.GunDeps) error { g.aggr = a; return nil }

func (g *egun) Shoot(ammo core.Ammo) {
	w := g.w
	if n := len(w.c.ShotUs); n > 0 {
		sleepUs(w.c.ShotUs[g.n%n])
	}
	item, _ := ammo.(int)
	for j := 0; j < w.c.PerShot; j++ {
		ps := PhSample{
			Tag: fmt.Sprintf("g%d_%d_%d%s", g.idx, g.n, j, w.c.TagSuffix), ID: uint64(item),
			RTTUs: int64(g.n) + 1, ConnUs: int64(j), SendUs: -int64(g.idx), LatUs: 1<<32 + int64(g.n), RecvUs: 7,
			ReqB: int64(item), RespB: int64(g.n * 1000), NetCode: int64(j * 11), Proto: 200 + int64(j),
		}
		key := ps.key(w.c.IDs)
		s := ps.build()
		w.mu.Lock()
		w.started = append(w.started, key)
		w.mu.Unlock()
		g.aggr.Report(s)
		at := time.Since(w.base)
		w.mu.Lock()
		w.done = append(w.done, doneRec{key, at})
		w.mu.Unlock()
		if int(w.completed.Add(1)) >= w.c.CancelAfter && w.c.Mode == "cancel" {
			w.trigOnce.Do(func() { close(w.trig) })
		}
	}
	g.n++
}

func checkEngine(c EngCase, o *vf.Obs) error {
	rep := max(1, c.Repeat)
	for i := 0; i < rep; i++ {
		if err := engineOnce(c, o, i == 0); err != nil {
			return fmt.Errorf("run %d: %w", i, err)
		}
	}
	return nil
}

func engineOnce(c EngCase, o *vf.Obs, classify bool) error {
	rec := &recorder{}
	name := pand.TempName("c06-eng", ".log")
	defer pand.Remove(name)
	conf := netsample.DefaultPhoutConfig()
	conf.Destination = name
	conf.ID = c.IDs
	conf.SampleQueueSize = c.Queue
	conf.Buffer = coreutil.BufferSizeConfig{BufferSize: datasize.ByteSize(1)}
	ph, err := netsample.NewPhout(recFs{pand.FS(), rec}, conf)
	if err != nil {
		return fmt.Errorf("harness: NewPhout: %v", err)
	}
	base := time.Now()
	w := &eworld{c: c, base: base, trig: make(chan struct{})}
	if c.Mode == "cancel" && c.CancelAfter == 0 {
		w.trigOnce.Do(func() { close(w.trig) })
	}
	prov := &eprov{total: c.Ammo, faultAt: -1, base: base, ch: make(chan int)}
	if c.Mode == "error" {
		prov.faultAt = c.FaultAtItem
	}
	startup := schedule.NewOnce(int64(c.Instances))
	if c.StartOps > 0 && c.StartDurMs > 0 {
		startup = schedule.NewComposite(startup, schedule.NewConst(c.StartOps, time.Duration(c.StartDurMs)*time.Millisecond))
	}
	planned := startup.Left() // instances the startup schedule would start if nothing cut it short
	econf := engine.Config{Pools: []engine.InstancePoolConfig{{
		ID: "p", Provider: prov, Aggregator: netsample.WrapAggregator(ph), NewGun: w.newGun,
		NewRPSSchedule:  func() (core.Schedule, error) { return schedule.NewOnce(int64(c.Tokens)), nil },
		StartupSchedule: startup,
	}}}
	eng := engine.New(pand.NopLog(), pand.Metrics(), econf)

	ctx, cancel := context.WithCancel(context.Background())
	defer cancel()
	var (
		runErr    error
		cancelled bool
		cancelAt  time.Duration
		sink      vf.ErrSink
		win       window
	)
	win.start = base
	ok, stacks := vf.Deadline(hangDeadline, func() {
		runDone := make(chan struct{})
		var cg sync.WaitGroup
		if c.Mode == "cancel" {
			vf.GoErr(&cg, &sink, func() {
				select {
				case <-w.trig:
					sleepUs(c.CancelDelayUs)
					select {
					case <-runDone:
						return // the run was over before the cancel
					default:
					}
					cancelAt = time.Since(base) // measured BEFORE cancel is called
					cancelled = true
					cancel()
				case <-runDone:
				}
			})
		}
		runErr = eng.Run(ctx)
		close(runDone)
		cg.Wait()
		eng.Wait() // provider, aggregator and every instance have returned
	})
	win.end = time.Now()
	if !ok {
		return fmt.Errorf("Engine.Run / Engine.Wait did not return within %v\n%s", hangDeadline, stacks)
	}
	if e := sink.Get(); e != nil {
		return e
	}

	// the end-of-run instant: reports that completed before it must be in the output
	w.mu.Lock()
	started := append([]string(nil), w.started...)
	done := append([]doneRec(nil), w.done...)
	insts := w.guns - 1 // the pool creates one gun for the warm-up, then one per instance
	w.mu.Unlock()
	faultNs := prov.faultNs.Load()
	end := time.Duration(-1) // -1: the pool finished by itself, every report counts
	switch {
	case cancelled:
		end = cancelAt
	case faultNs > 0:
		end = time.Duration(faultNs - 1)
	}
	var must []string
	for _, d := range done {
		if end < 0 || d.at < end {
			must = append(must, d.key)
		}
	}
	if end < 0 {
		if runErr != nil {
			return fmt.Errorf("Engine.Run returned %v although nothing failed and nobody cancelled", runErr)
		}
		if len(done) != len(started) {
			return fmt.Errorf("harness: %d reports started, %d completed after a normal end", len(started), len(done))
		}
	} else if runErr == nil && len(must) < len(done) {
		// a cancel / fault that cut the run short must not look like success — C05's subject; only noted
		o.Note("nil_result_after_cut", true)
	}

	data, err := afero.ReadFile(pand.FS(), name)
	if err != nil {
		return fmt.Errorf("harness: reading back %s: %v", name, err)
	}
	lines, err := parsePhout(data)
	if err != nil {
		return fmt.Errorf("mode %s, %d reports completed: %w", c.Mode, len(done), err)
	}
	got := msOf(lineKeys(lines))
	if n, ex := msOf(must).minus(got); n > 0 {
		what := "the pool finished by itself"
		if end >= 0 {
			what = fmt.Sprintf("the run was ended (%s) at +%v", c.Mode, end)
		}
		return fmt.Errorf("%d of the %d samples whose Report had returned before %s are missing from the output (%d lines, %d reports completed in total), e.g. %s",
			n, len(must), what, len(lines), len(done), strings.Join(ex, "; "))
	}
	if n, ex := got.minus(msOf(started)); n > 0 {
		return fmt.Errorf("%d output lines (of %d) match no reported sample / appear more than once, e.g. %s", n, len(lines), strings.Join(ex, "; "))
	}
	if err := win.checkStamps(lines); err != nil {
		return err
	}
	if err := rec.closedOnceAfterLastWrite("the phout file"); err != nil {
		return err
	}

	if classify {
		o.Class("mode_" + c.Mode)
		o.ClassIf(end < 0, "ended_by_itself")
		o.ClassIf(cancelled, "cancel_in_progress")
		o.ClassIf(faultNs > 0 && !cancelled, "provider_fault_reached")
		o.ClassIf(end >= 0 && len(must) < len(done), "reports_after_end_instant")
		o.ClassIf(end >= 0 && len(lines) > len(must), "lines_beyond_must")
		o.ClassIf(end >= 0 && len(lines) < len(done), "reports_lost_after_end")
		o.ClassIf(c.Ammo >= 0 && c.Ammo < c.Tokens, "out_of_ammo_end")
		o.ClassIf(c.StartOps > 0, "gradual_startup")
		o.ClassIf(insts > c.Instances, "instances_beyond_once")
		// the class of "the pool is not finished yet": samples whose Report returned after an instance
		// had already been told "out of ammo", split by whether the startup schedule was cut short by it
		late := 0
		if out := prov.outNs.Load(); out > 0 {
			for _, d := range done {
				if d.at > time.Duration(out-1) {
					late++
				}
			}
		}
		o.ClassIf(end < 0 && late > 0, "report_after_first_out_of_ammo")
		o.ClassIf(end < 0 && late > 0 && insts < planned, "report_after_out_of_ammo_while_starting")
		o.ClassIf(end < 0 && prov.outNs.Load() > 0 && insts < planned, "out_of_ammo_while_starting")
		o.ClassIf(c.Queue <= 2, "queue_le_2")
		o.ClassIf(c.Instances >= 2, "instances_ge_2")
		o.ClassIf(c.PerShot >= 2, "k_ge_2")
		if len(must) >= 2 && (c.Instances >= 2 || c.Queue < len(done)) {
			o.NonTrivial()
		}
		o.Note("instances_started", insts)
		o.Note("instances_planned", planned)
		o.Note("reports_started", len(started))
		o.Note("reports_completed", len(done))
		o.Note("must", len(must))
		o.Note("lines", len(lines))
	}
	return nil
}

func TestEngineLevel(t *testing.T) {
	r := vf.Start(t, "C06")
	vf.Check(r, genEngCase, checkEngine)
}
