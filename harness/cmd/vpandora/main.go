// vpandora is pandora's own main (same imports, same cli.Run) plus one extra gun,
// `verif`, used by the subprocess checks of the verification harness.
//
// The `verif` gun appends one byte to the file `pre_file` BEFORE it calls
// Aggregator.Report and one byte to `post_file` AFTER Report returned. Both files
// are opened with O_APPEND per gun, so their sizes are exact counters that a parent
// process can read at any moment:
//
//	size(post_file) <= reports that have completed <= reports started <= size(pre_file)
package main

import (
	"fmt"
	"os"
	"time"

	"github.com/spf13/afero"
	"github.com/yandex/pandora/cli"
	grpc "github.com/yandex/pandora/components/grpc/import"
	phttp "github.com/yandex/pandora/components/phttp/import"
	"github.com/yandex/pandora/core"
	"github.com/yandex/pandora/core/aggregator/netsample"
	coreimport "github.com/yandex/pandora/core/import"
	"github.com/yandex/pandora/core/register"
)

type verifGunConfig struct {
	PreFile  string `config:"pre_file" validate:"required"`
	PostFile string `config:"post_file" validate:"required"`
	Tag      string `config:"tag"`
	// ShotUs is an optional sleep per shot (microseconds).
	ShotUs int `config:"shot_us"`
	// PanicAfter > 0: the gun whose own shot counter reaches this number panics INSTEAD of making that shot. Just before, it
	// writes the current sizes of SnapshotFiles (the post files of all pools: reports that have completed by now) to
	// SnapshotOut, one decimal number per line - a lower bound of what every pool's output must hold after the process ended.
	PanicAfter    int      `config:"panic_after"`
	SnapshotFiles []string `config:"snapshot_files"`
	SnapshotOut   string   `config:"snapshot_out"`
}

type verifGun struct {
	conf verifGunConfig
	aggr core.Aggregator
	deps core.GunDeps
	pre  *os.File
	post *os.File
	n    int
}

var one = []byte{'.'}

func (g *verifGun) Bind(aggr core.Aggregator, deps core.GunDeps) error {
	var err error
	if g.pre, err = os.OpenFile(g.conf.PreFile, os.O_APPEND|os.O_CREATE|os.O_WRONLY, 0o644); err != nil {
		return err
	}
	if g.post, err = os.OpenFile(g.conf.PostFile, os.O_APPEND|os.O_CREATE|os.O_WRONLY, 0o644); err != nil {
		return err
	}
	g.aggr, g.deps = aggr, deps
	return nil
}

func (g *verifGun) Shoot(core.Ammo) {
	if g.conf.ShotUs > 0 {
		time.Sleep(time.Duration(g.conf.ShotUs) * time.Microsecond)
	}
	if g.conf.PanicAfter > 0 && g.n+1 >= g.conf.PanicAfter {
		if g.conf.SnapshotOut != "" {
			if _, err := os.Stat(g.conf.SnapshotOut); err != nil { // the first gun to get here
				txt := ""
				for _, f := range g.conf.SnapshotFiles {
					var sz int64
					if st, err := os.Stat(f); err == nil {
						sz = st.Size()
					}
					txt += fmt.Sprintf("%d\n", sz)
				}
				_ = os.WriteFile(g.conf.SnapshotOut+".tmp", []byte(txt), 0o644)
				_ = os.Rename(g.conf.SnapshotOut+".tmp", g.conf.SnapshotOut)
			}
		}
		panic("verif-gun-panic-payload")
	}
	g.n++
	s := netsample.Acquire(fmt.Sprintf("%s_i%d", g.conf.Tag, g.deps.InstanceID))
	s.SetID(uint64(g.n))
	s.SetUserDuration(time.Duration(g.n) * time.Microsecond)
	s.SetRequestBytes(g.deps.InstanceID)
	s.SetResponseBytes(g.n)
	s.SetUserNet(0)
	s.SetUserProto(200)
	if _, err := g.pre.Write(one); err != nil {
		panic(err)
	}
	g.aggr.Report(s)
	if _, err := g.post.Write(one); err != nil {
		panic(err)
	}
}

func (g *verifGun) Close() error {
	_ = g.pre.Close()
	return g.post.Close()
}

func main() {
	fs := afero.NewOsFs()
	coreimport.Import(fs)
	phttp.Import(fs)
	grpc.Import(fs)

	register.Gun("verif", func(conf verifGunConfig) core.Gun {
		return &verifGun{conf: conf}
	}, func() verifGunConfig { return verifGunConfig{Tag: "verif"} })

	cli.Run()
}
