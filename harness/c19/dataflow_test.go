package c19

import (
	"bytes"
	"encoding/base64"
	"encoding/hex"
	"fmt"
	"strconv"
	"strings"
	"sync"
	"testing"
	"time"

	"verif/harness/internal/pand"
	"verif/harness/internal/target"
	"verif/harness/internal/vf"

	"pgregory.net/rapid"
)

// ---------------- http/scenario: response data that later steps and error paths work on ----------------
//
// Two things the plain postprocessor cases of TestScenarioGun do not reach:
//
//   - data flow: a postprocessor stores an ARRAY taken from the response (var/jsonpath on an array field, var/xpath with
//     0 or >= 2 matches) and a later step addresses one element of it - a preprocessor mapping with [last] / [next] /
//     [rand] / [N], or a template with `index` - while the target, after normal answers, sends the array empty, shorter
//     than the index, or not an array at all;
//   - bodies as the error paths see them: assert/response with body patterns (and var/jsonpath, var/xpath) against
//     bodies of every texture and length - minified JSON with long tokens, base64 / hex blobs, one repeated character,
//     binary, multi-byte text, pretty JSON, HTML error pages -, with and without whitespace, failing and satisfying the
//     assertion.
//
// Oracle (on top of TestScenarioGun's): a step whose request never reached the target must be a failure sample and
// must be explained by the data it depends on; an invocation may end early only at a sample that is not a clean 200.

type DStep struct {
	Kind string `json:"kind"` // plain | list_json | list_xpath | use | assert
	// list_json: the var/jsonpath expression stored as `items`; list_xpath always stores //li/@data-id
	Path string `json:"path,omitempty"`
	// use: the element of step From's `items` this step puts into its X-It header
	From  int    `json:"from,omitempty"`
	Index string `json:"index,omitempty"` // last | next | rand | a number
	Field string `json:"field,omitempty"` // "" | id | name (elements of $.items are objects)
	Via   string `json:"via,omitempty"`   // preprocessor | template ({{index ... N}}, numeric Index only)
	// assert: assert/response with these body patterns ...
	Patterns []string `json:"patterns,omitempty"`
	Status   bool     `json:"assert_status,omitempty"`  // ... status_code: 200
	Headers  bool     `json:"assert_headers,omitempty"` // ... headers: Content-Type: json
	Size     bool     `json:"assert_size,omitempty"`    // ... size: > 10
}

// ListDoc: what a list step is answered with (a valid 200 answer; the array is what differs)
type ListDoc struct {
	// objects (N elements {"id","name"}; for list_xpath: N <li> elements) | scalars (N numbers) | null | object | string |
	// missing | mixed | nested_empty
	Shape string `json:"shape"`
	N     int    `json:"n"`
}

// Blob describes a response body by construction (the bytes are a pure function of it, see bytes()).
type Blob struct {
	Texture string `json:"texture"` // filler | hex | base64 | minjson | binary | utf8 | prettyjson | html
	Len     int    `json:"len"`
	Salt    int    `json:"salt"`
	// where the textures that have no whitespace of their own get whitespace: none | first | at255 | at256 | after256 | tail | sparse
	WS string `json:"ws"`
	// where the assert patterns of the step are written into the body: "" (nowhere) | start | end | mid256
	Embed  string `json:"embed,omitempty"`
	Status int    `json:"status"`
	CType  string `json:"content_type"`
}

type DAnswer struct {
	List *ListDoc `json:"list,omitempty"`
	Blob *Blob    `json:"blob,omitempty"`
	Beh  *Beh     `json:"beh,omitempty"`
}

type DShot struct {
	MisStep int     `json:"mis_step"` // -1: every step is answered well
	Ans     DAnswer `json:"answer"`
}

type DataCase struct {
	Steps []DStep `json:"steps"`
	Shots []DShot `json:"shots"`
}

const goodJSON = `{"key":"value","status":"ok","items":[{"id":11,"name":"n0"},{"id":22,"name":"n1"},{"id":33,"name":"n2"}]}`

var assertPatterns = []string{"key", `"status":"ok"`, "value", `"items":[{`, "n2"}

func (s DStep) isList() bool { return s.Kind == "list_json" || s.Kind == "list_xpath" }

func genDStep(t *rapid.T, i int, prev []DStep) DStep {
	var lists []int
	for k, p := range prev {
		if p.isList() {
			lists = append(lists, k)
		}
	}
	kind := ""
	switch {
	case i == 0:
		kind = rapid.SampledFrom([]string{"list_json", "list_json", "list_xpath", "assert", "assert", "plain"}).Draw(t, "kind0")
	case len(lists) > 0 && rapid.IntRange(0, 2).Draw(t, "uses") != 0:
		kind = "use"
	default:
		kind = rapid.SampledFrom([]string{"list_json", "list_xpath", "assert", "assert", "plain"}).Draw(t, "kind")
	}
	s := DStep{Kind: kind}
	switch kind {
	case "list_json":
		s.Path = rapid.SampledFrom([]string{"$.items", "$.items", "$.items[*].id", "$.items[*].name"}).Draw(t, "path")
	case "use":
		s.From = rapid.SampledFrom(lists).Draw(t, "from")
		src := prev[s.From]
		s.Via = "preprocessor"
		if rapid.IntRange(0, 4).Draw(t, "viaTemplate") == 0 {
			s.Via = "template"
		}
		if s.Via == "template" {
			s.Index = strconv.Itoa(rapid.IntRange(0, 2).Draw(t, "tplIndex"))
		} else {
			switch rapid.IntRange(0, 7).Draw(t, "indexKind") {
			case 0, 1:
				s.Index = "last"
			case 2, 3:
				s.Index = "next"
			case 4, 5:
				s.Index = "rand"
			default:
				s.Index = strconv.Itoa(rapid.IntRange(-3, 7).Draw(t, "index"))
			}
		}
		if src.Kind == "list_json" && src.Path == "$.items" && rapid.IntRange(0, 2).Draw(t, "field") != 0 {
			s.Field = rapid.SampledFrom([]string{"id", "name"}).Draw(t, "fieldName")
		}
	case "assert":
		n := rapid.IntRange(1, 2).Draw(t, "patterns")
		for k := 0; k < n; k++ {
			s.Patterns = append(s.Patterns, rapid.SampledFrom(assertPatterns).Draw(t, "pattern"))
		}
		s.Status = rapid.Bool().Draw(t, "assertStatus")
		s.Headers = rapid.IntRange(0, 2).Draw(t, "assertHeaders") == 0
		s.Size = rapid.IntRange(0, 3).Draw(t, "assertSize") == 0
	}
	return s
}

func genListDoc(t *rapid.T) ListDoc {
	d := ListDoc{Shape: "objects"}
	switch rapid.IntRange(0, 9).Draw(t, "shape") {
	case 0, 1, 2, 3, 4, 5:
		d.N = rapid.SampledFrom([]int{0, 0, 0, 0, 1, 1, 2, 5}).Draw(t, "n")
	case 6:
		d.Shape = "scalars"
		d.N = rapid.SampledFrom([]int{0, 1, 2, 5}).Draw(t, "n")
	default:
		d.Shape = rapid.SampledFrom([]string{"null", "object", "string", "missing", "mixed", "nested_empty"}).Draw(t, "notArray")
	}
	return d
}

var blobTextures = []string{"filler", "hex", "base64", "minjson", "binary", "utf8", "prettyjson", "html"}

func genBlobLen(t *rapid.T) int {
	switch rapid.IntRange(0, 9).Draw(t, "lenClass") {
	case 0:
		return rapid.IntRange(0, 254).Draw(t, "len")
	case 1:
		return rapid.IntRange(255, 258).Draw(t, "len")
	case 2, 3, 4:
		return rapid.IntRange(259, 1023).Draw(t, "len")
	case 5, 6:
		return rapid.IntRange(1024, 8191).Draw(t, "len")
	case 7:
		return rapid.SampledFrom([]int{511, 512, 513, 4095, 4096, 4097, 65535, 65536, 65537}).Draw(t, "len")
	case 8:
		return rapid.IntRange(8192, 70000).Draw(t, "len")
	default:
		return rapid.IntRange(100_000, 200_000).Draw(t, "len")
	}
}

func genBlob(t *rapid.T) Blob {
	b := Blob{Texture: rapid.SampledFrom(blobTextures).Draw(t, "texture"), Len: genBlobLen(t), Salt: rapid.IntRange(0, 1<<20).Draw(t, "salt"), WS: "none", Status: 200}
	if rapid.Bool().Draw(t, "ws") {
		b.WS = rapid.SampledFrom([]string{"first", "at255", "at256", "after256", "tail", "sparse"}).Draw(t, "wsWhere")
	}
	if rapid.IntRange(0, 3).Draw(t, "embed") == 0 {
		b.Embed = rapid.SampledFrom([]string{"start", "end", "mid256"}).Draw(t, "embedWhere")
	}
	if rapid.IntRange(0, 3).Draw(t, "errorStatus") == 0 {
		b.Status = rapid.SampledFrom([]int{400, 404, 500, 502, 503}).Draw(t, "blobStatus")
	}
	b.CType = rapid.SampledFrom([]string{"application/json", "application/json", "text/html", "application/octet-stream"}).Draw(t, "ctype")
	return b
}

func genData(t *rapid.T) DataCase {
	c := DataCase{}
	k := rapid.IntRange(2, 5).Draw(t, "steps")
	for i := 0; i < k; i++ {
		c.Steps = append(c.Steps, genDStep(t, i, c.Steps))
	}
	// the steps whose answers this test is about: list steps something depends on, assert steps
	var focus []int
	for i, s := range c.Steps {
		if s.Kind == "assert" {
			focus = append(focus, i)
		}
		if s.Kind == "use" {
			focus = append(focus, s.From)
		}
	}
	n := rapid.IntRange(3, 7).Draw(t, "shots")
	for j := 0; j < n; j++ {
		s := DShot{MisStep: -1}
		if j < n-1 && rapid.IntRange(0, 3).Draw(t, "mis") != 0 {
			if len(focus) > 0 && rapid.IntRange(0, 3).Draw(t, "focus") != 0 {
				s.MisStep = rapid.SampledFrom(focus).Draw(t, "misFocus")
			} else {
				s.MisStep = rapid.IntRange(0, k-1).Draw(t, "misStep")
			}
			st := c.Steps[s.MisStep]
			pick := rapid.IntRange(0, 9).Draw(t, "answerKind")
			switch {
			case st.isList() && pick < 6:
				d := genListDoc(t)
				s.Ans.List = &d
			case st.isList() && pick < 8, st.Kind == "assert" && pick < 7, pick < 4:
				b := genBlob(t)
				s.Ans.Blob = &b
			default:
				b := genScenBeh(t)
				s.Ans.Beh = &b
			}
		}
		c.Shots = append(c.Shots, s)
	}
	return c
}

// ---- bodies ----

type xorshift uint64

func (x *xorshift) next() uint64 {
	v := uint64(*x)
	v ^= v << 13
	v ^= v >> 7
	v ^= v << 17
	*x = xorshift(v)
	return v
}

func noise(salt, n int) []byte {
	x := xorshift(uint64(salt)*2654435761 + 88172645463325252)
	out := make([]byte, 0, n+8)
	for len(out) < n {
		v := x.next()
		for k := 0; k < 8; k++ {
			out = append(out, byte(v>>(8*k)))
		}
	}
	return out[:n]
}

func isWS(b byte) bool { return b == ' ' || b == '\t' || b == '\r' || b == '\n' }

func repeatTo(unit string, n int) []byte {
	if n == 0 {
		return nil
	}
	return bytes.Repeat([]byte(unit), n/len(unit)+1)[:n]
}

// natural: the texture has whitespace of its own
func (b Blob) natural() bool { return b.Texture == "prettyjson" || b.Texture == "html" }

// bytes builds the body: Len bytes of the texture, whitespace where WS says (the textures that have none of their
// own), the patterns where Embed says.
func (b Blob) bytes(patterns []string) []byte {
	n := b.Len
	var out []byte
	switch b.Texture {
	case "filler":
		out = bytes.Repeat([]byte{"A0x{[\"\\%-"[b.Salt%9]}, n)
	case "hex":
		out = []byte(hex.EncodeToString(noise(b.Salt, n/2+1)))[:n]
	case "base64":
		out = []byte(base64.StdEncoding.EncodeToString(noise(b.Salt, n)))[:n]
	case "minjson":
		head := `{"status":"error","code":50012,"trace":"`
		tok := hex.EncodeToString(noise(b.Salt, n/2+1))
		s := head + tok
		if n > len(head)+40 {
			s = head + tok[:n-len(head)-30] + `","ids":[` + "1,2,3,4,5,6,7,8,9" + `]}` + tok
		}
		out = []byte(s)[:n]
	case "binary":
		out = noise(b.Salt, n)
		for i, c := range out {
			if isWS(c) {
				out[i] = 0
			}
		}
	case "utf8":
		out = repeatTo([]string{"ошибка:сервис-недоступен;", "错误：服务不可用。", "\U0001F6AB\U0001F525erroréü"}[b.Salt%3], n)
	case "prettyjson":
		out = repeatTo("{\n  \"status\": \"error\",\n  \"code\": 50012,\n  \"errors\": [\n    {\n      \"field\": \"item_id\",\n      \"message\": \"must be positive\"\n    }\n  ]\n}\n", n)
	default: // html
		out = repeatTo("<!DOCTYPE html>\n<html>\n<head><title>502 Bad Gateway</title></head>\n<body>\n<center><h1>502 Bad Gateway</h1></center>\n<hr><center>nginx</center>\n"+
			"<!-- a padding to disable MSIE and Chrome friendly error page -->\n", n)
	}
	if !b.natural() && n > 0 {
		ws := " \t\r\n"[b.Salt%4]
		put := func(i int) {
			if i >= 0 && i < n {
				out[i] = ws
			}
		}
		switch b.WS {
		case "first":
			put(0)
		case "at255":
			put(255)
		case "at256":
			put(256)
		case "after256":
			put(257 + b.Salt%(max(n-257, 1)))
		case "tail":
			put(n - 1)
		case "sparse":
			for i := 7 + b.Salt%90; i < n; i += 97 {
				put(i)
			}
		}
	}
	if joined := strings.Join(patterns, ""); b.Embed != "" && len(joined) <= n {
		at := 0
		switch b.Embed {
		case "end":
			at = n - len(joined)
		case "mid256":
			at = min(max(256-len(joined)/2, 0), n-len(joined))
		}
		copy(out[at:], joined)
	}
	return out
}

func (d ListDoc) jsonBody() string {
	items := ""
	switch d.Shape {
	case "objects":
		var el []string
		for i := 0; i < d.N; i++ {
			el = append(el, fmt.Sprintf(`{"id":%d,"name":"n%d"}`, 11*(i+1), i))
		}
		items = `,"items":[` + strings.Join(el, ",") + `]`
	case "scalars":
		var el []string
		for i := 0; i < d.N; i++ {
			el = append(el, strconv.Itoa(11*(i+1)))
		}
		items = `,"items":[` + strings.Join(el, ",") + `]`
	case "null":
		items = `,"items":null`
	case "object":
		items = `,"items":{}`
	case "string":
		items = `,"items":"none"`
	case "mixed":
		items = `,"items":[{"id":11},null,5,"x",[],{"name":"n5"}]`
	case "nested_empty":
		items = `,"items":[[]]`
	}
	return `{"key":"value","status":"ok"` + items + `}`
}

// the well-behaved answer to a step
func goodAnswer(st DStep) target.Resp {
	body := goodJSON
	if st.Kind == "list_xpath" {
		body = catalogPage(goodPrices)
	}
	return target.Resp{Status: 200, Header: map[string]string{"Content-Type": "application/json", "X-Token": goodToken}, Body: []byte(body)}
}

func (a DAnswer) resp(st DStep) target.Resp {
	switch {
	case a.List != nil:
		body := a.List.jsonBody()
		if st.Kind == "list_xpath" {
			body = catalogPage(make([]string, a.List.count(st)))
		}
		return target.Resp{Status: 200, Header: map[string]string{"Content-Type": "application/json", "X-Token": goodToken}, Body: []byte(body)}
	case a.Blob != nil:
		return target.Resp{Status: a.Blob.Status, Header: map[string]string{"Content-Type": a.Blob.CType}, Body: a.Blob.bytes(st.Patterns)}
	case a.Beh != nil:
		return a.Beh.resp()
	}
	return goodAnswer(st)
}

// count: the number of elements the list step stores from this document; -1: what it stores is not an array (or the
// extraction itself fails)
func (d ListDoc) count(st DStep) int {
	if st.Kind == "list_xpath" {
		if d.Shape == "objects" || d.Shape == "scalars" {
			return d.N // one match is stored as a string by var/xpath, not as an array: see notArray
		}
		return 0
	}
	switch d.Shape {
	case "objects":
		return d.N
	case "scalars":
		if st.Path == "$.items" {
			return d.N
		}
		return -1
	case "nested_empty":
		if st.Path == "$.items" {
			return 1
		}
		return -1
	}
	return -1
}

// satisfied: the answer meets every condition of the assert step (so it is a well-behaved answer for it)
func (b Blob) satisfied(st DStep) bool {
	if st.Kind != "assert" {
		return false
	}
	body := b.bytes(st.Patterns)
	for _, p := range st.Patterns {
		if !bytes.Contains(body, []byte(p)) {
			return false
		}
	}
	if st.Status && b.Status != 200 {
		return false
	}
	if st.Headers && !strings.Contains(b.CType, "json") {
		return false
	}
	if st.Size && len(body) <= 10 {
		return false
	}
	return b.Status == 200
}

func dataYAML(c DataCase) string {
	var sb strings.Builder
	sb.WriteString("requests:\n")
	for i, s := range c.Steps {
		fmt.Fprintf(&sb, "  - name: s%d\n    method: GET\n    uri: /s%d\n    tag: t%d\n", i, i, i)
		switch s.Kind {
		case "list_json":
			fmt.Fprintf(&sb, "    postprocessors:\n      - type: var/jsonpath\n        mapping:\n          items: %s\n", yamlQuote(s.Path))
		case "list_xpath":
			sb.WriteString("    postprocessors:\n      - type: var/xpath\n        mapping:\n          items: //li/@data-id\n")
		case "use":
			field := ""
			if s.Field != "" {
				field = "." + s.Field
			}
			if s.Via == "template" {
				expr := fmt.Sprintf("index .request.s%d.postprocessor.items %s", s.From, s.Index)
				if field != "" {
					expr = "(" + expr + ")" + field
				}
				fmt.Fprintf(&sb, "    headers:\n      X-It: \"{{%s}}\"\n", expr)
			} else {
				fmt.Fprintf(&sb, "    headers:\n      X-It: \"{{.request.s%d.preprocessor.it}}\"\n", i)
				fmt.Fprintf(&sb, "    preprocessor:\n      mapping:\n        it: request.s%d.postprocessor.items[%s]%s\n", s.From, s.Index, field)
			}
		case "assert":
			sb.WriteString("    postprocessors:\n      - type: assert/response\n        body:\n")
			for _, p := range s.Patterns {
				fmt.Fprintf(&sb, "          - %s\n", yamlQuote(p))
			}
			if s.Headers {
				sb.WriteString("        headers:\n          Content-Type: json\n")
			}
			if s.Status {
				sb.WriteString("        status_code: 200\n")
			}
			if s.Size {
				sb.WriteString("        size:\n          val: 10\n          op: \">\"\n")
			}
		}
	}
	sb.WriteString("scenarios:\n  - name: sc\n    weight: 1\n    min_waiting_time: 0\n    requests:\n")
	for i := range c.Steps {
		fmt.Fprintf(&sb, "      - s%d\n", i)
	}
	return sb.String()
}

func lenClass(n int) string {
	switch {
	case n <= 256:
		return "le_256"
	case n < 1024:
		return "257_1023"
	case n < 65536:
		return "1k_64k"
	}
	return "ge_64k"
}

func checkData(c DataCase, o *vf.Obs) error {
	tg, mu := target.Shared(false)
	mu.Lock()
	defer mu.Unlock()
	// a shot whose answer satisfies the assert step it goes to met only well-behaved answers
	proper := make([]bool, len(c.Shots))
	for j, s := range c.Shots {
		proper[j] = s.MisStep < 0 || (s.Ans.Blob != nil && s.Ans.Blob.satisfied(c.Steps[s.MisStep]))
	}
	// single instance, keep-alives off: requests arrive strictly in order and are never repeated by the transport;
	// every step-0 request opens a new invocation
	var smu sync.Mutex
	shot := -1
	seen := make([][]bool, len(c.Shots))
	for j := range seen {
		seen[j] = make([]bool, len(c.Steps))
	}
	tg.Reset(func(seq int, r *target.Rec) target.Resp {
		step := -1
		fmt.Sscanf(r.RequestURI, "/s%d", &step)
		smu.Lock()
		if step == 0 {
			shot++
		}
		cur := shot
		if cur >= 0 && cur < len(c.Shots) && step >= 0 && step < len(c.Steps) {
			seen[cur][step] = true
		}
		smu.Unlock()
		if step < 0 || step >= len(c.Steps) {
			return target.Resp{Status: 200, Body: []byte(goodJSON)}
		}
		if cur >= 0 && cur < len(c.Shots) && c.Shots[cur].MisStep == step {
			return c.Shots[cur].Ans.resp(c.Steps[step])
		}
		return goodAnswer(c.Steps[step])
	})
	yml := dataYAML(c)
	name := pand.WriteFile("c19d", ".yaml", []byte(yml))
	defer pand.Remove(name)
	out := pand.TempName("c19d", ".phout")
	defer pand.Remove(out)
	pool := map[string]any{
		"id":      "p",
		"gun":     map[string]any{"type": "http/scenario", "target": tg.Addr(), "response-header-timeout": "400ms", "disable-keep-alives": true},
		"ammo":    map[string]any{"type": "http/scenario", "file": name, "limit": len(c.Shots)},
		"result":  map[string]any{"type": "phout", "destination": out},
		"rps":     map[string]any{"type": "once", "times": len(c.Shots) + 5},
		"startup": map[string]any{"type": "once", "times": 1},
	}
	if err := runPool(pool); err != nil {
		return fmt.Errorf("%v\nshots %s\n%s", err, describeShots(c), yml)
	}
	lines, data, err := readPhout(out)
	if err != nil {
		return err
	}
	var groups [][]line
	for _, l := range lines {
		if strings.HasPrefix(l.tag, "sc.s0") || len(groups) == 0 {
			groups = append(groups, nil)
		}
		groups[len(groups)-1] = append(groups[len(groups)-1], l)
	}
	if len(groups) != len(c.Shots) {
		return fmt.Errorf("%d scenario invocations left samples, %d were shot\n%s\nshots %s\n%s", len(groups), len(c.Shots), data, describeShots(c), yml)
	}
	clean := func(l line) bool { return l.proto == 200 && l.net == 0 }
	// classes are counted once per case
	labels := map[string]bool{}
	label := func(names ...string) {
		for _, n := range names {
			labels[n] = true
		}
	}
	defer func() {
		for k := range labels {
			o.Class(k)
		}
	}()
	mis, goodAfter := 0, false
	K := len(c.Steps)
	for j, g := range groups {
		s := c.Shots[j]
		if len(g) < 1 || len(g) > K {
			return fmt.Errorf("invocation %d left %d samples for %d steps\n%s", j, len(g), K, data)
		}
		for i, l := range g {
			wantTag := fmt.Sprintf("sc.s%d", i)
			if !(l.tag == wantTag || strings.HasPrefix(l.tag, wantTag+"|")) {
				return fmt.Errorf("invocation %d sample %d is tagged %q, expected the scenario and step name %q\n%s", j, i, l.tag, wantTag, data)
			}
		}
		if proper[j] {
			if len(g) != K {
				return fmt.Errorf("invocation %d met only well-behaved responses but left %d samples for %d steps\n%s\nshots %s\n%s", j, len(g), K, data, describeShots(c), yml)
			}
			for i, l := range g {
				if !clean(l) {
					return fmt.Errorf("invocation %d step %d got a well-behaved 200 response but its sample says proto=%d net=%d\n%s\nshots %s\n%s", j, i, l.proto, l.net, data, describeShots(c), yml)
				}
			}
			if s.MisStep >= 0 {
				label("assert_satisfied_by_blob_" + lenClass(s.Ans.Blob.Len))
			}
			if mis > 0 {
				goodAfter = true
			}
			continue
		}
		mis++
		a := s.MisStep
		st := c.Steps[a]
		if len(g) < a+1 {
			return fmt.Errorf("invocation %d: steps before the misbehaving step %d all got good responses, but only %d samples were left\n%s\nshots %s\n%s", j, a, len(g), data, describeShots(c), yml)
		}
		for i := 0; i < a; i++ {
			if !clean(g[i]) {
				return fmt.Errorf("invocation %d step %d got a good response but sample says proto=%d net=%d\n%s", j, i, g[i].proto, g[i].net, data)
			}
		}
		for i := a + 1; i < len(g); i++ {
			if seen[j][i] {
				// it was sent, and every step but the a-th is answered well
				if !clean(g[i]) {
					return fmt.Errorf("invocation %d step %d was sent and got a good response but its sample says proto=%d net=%d\n%s\nshots %s\n%s", j, i, g[i].proto, g[i].net, data, describeShots(c), yml)
				}
				continue
			}
			if c.Steps[i].Kind != "use" || c.Steps[i].From != a {
				return fmt.Errorf("invocation %d: step %d never reached the target although it does not depend on the misbehaving answer to step %d\n%s\nshots %s\n%s", j, i, a, data, describeShots(c), yml)
			}
			if g[i].proto != 0 || g[i].net == 0 {
				return fmt.Errorf("invocation %d: step %d was not sent (the data it takes from step %d was not there), but its sample says proto=%d net=%d, not a failure\n%s\nshots %s\n%s",
					j, i, a, g[i].proto, g[i].net, data, describeShots(c), yml)
			}
			label("dependent_step_failed_unsent")
		}
		if len(g) < K && clean(g[len(g)-1]) {
			return fmt.Errorf("invocation %d ended after step %d of %d, whose sample is a clean 200: the step that was affected left no sample\n%s\nshots %s\n%s", j, len(g)-1, K, data, describeShots(c), yml)
		}
		// ---- classes ----
		switch {
		case s.Ans.List != nil:
			n := s.Ans.List.count(st)
			if st.Kind == "list_xpath" && n == 1 {
				n = -1 // var/xpath stores a single match as a string
			}
			for i := a + 1; i < K; i++ {
				u := c.Steps[i]
				if u.Kind != "use" || u.From != a {
					continue
				}
				idx, numErr := strconv.Atoi(u.Index)
				ik := u.Index
				if numErr == nil {
					ik = "num"
				}
				switch {
				case n == 0 && u.Via == "template":
					label("array_empty_indexed_in_template")
				case n == 0:
					label("array_empty_indexed", "array_empty_indexed_"+ik)
				case n < 0:
					label("not_an_array_indexed")
				case numErr == nil && (idx >= n || idx < 0):
					label("array_shorter_than_index")
				default:
					label("array_short_index_within")
				}
				if i < len(g) && seen[j][i] {
					label("dependent_step_ran")
				}
			}
			label("list_" + st.Kind + "_" + s.Ans.List.Shape)
		case s.Ans.Blob != nil:
			b := s.Ans.Blob
			body := b.bytes(st.Patterns)
			label("blob_on_"+st.Kind, "blob_"+b.Texture, "blob_len_"+lenClass(len(body)))
			if st.Kind == "assert" {
				bodyFails := false
				for _, p := range st.Patterns {
					bodyFails = bodyFails || !bytes.Contains(body, []byte(p))
				}
				if bodyFails {
					head := body[:min(len(body), 256)]
					noWS := bytes.IndexAny(head, " \t\r\n") < 0
					switch {
					case len(body) <= 256:
						label("assert_body_fails_short")
					case noWS:
						label("assert_body_fails_long", "assert_body_fails_long_no_ws_in_head", "assert_body_fails_long_no_ws_"+b.Texture)
					default:
						label("assert_body_fails_long", "assert_body_fails_long_with_ws")
					}
					if len(body) > 256 && bytes.IndexAny(head, " \t\r\n") == 0 && bytes.IndexAny(head[1:], " \t\r\n") < 0 {
						label("assert_body_fails_long_ws_first_byte_only")
					}
				} else {
					label("assert_body_ok_other_condition_fails")
				}
			}
		default:
			label("beh_" + s.Ans.Beh.Kind + "_on_" + st.Kind)
		}
	}
	for _, st := range c.Steps {
		label("step_" + st.Kind)
		if st.Kind == "use" {
			label("use_via_" + st.Via)
		}
	}
	if mis > 0 && goodAfter {
		o.NonTrivial()
	}
	return nil
}

func describeShots(c DataCase) string {
	var sb strings.Builder
	for j, s := range c.Shots {
		switch {
		case s.MisStep < 0:
			fmt.Fprintf(&sb, "[%d good]", j)
		case s.Ans.List != nil:
			fmt.Fprintf(&sb, "[%d step %d list %+v]", j, s.MisStep, *s.Ans.List)
		case s.Ans.Blob != nil:
			fmt.Fprintf(&sb, "[%d step %d blob %+v]", j, s.MisStep, *s.Ans.Blob)
		default:
			fmt.Fprintf(&sb, "[%d step %d beh %s]", j, s.MisStep, s.Ans.Beh.Kind)
		}
	}
	return sb.String()
}

func TestScenarioDataFlow(t *testing.T) {
	pand.Init()
	r := vf.Start(t, "C19")
	vf.Check(r, genData, vf.LoadTolerant(25*time.Millisecond, checkData))
}
