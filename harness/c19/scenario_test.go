package c19

import (
	"errors"
	"fmt"
	"reflect"
	"strconv"
	"strings"
	"sync"
	"testing"
	"time"

	"verif/harness/internal/pand"
	"verif/harness/internal/target"
	"verif/harness/internal/vf"

	"pgregory.net/rapid"
)

// ---------------- http/scenario gun with every postprocessor kind ----------------

type Step struct {
	Post string `json:"postprocessor"` // none | jsonpath | xpath | header | header_substr | assert
	// header_substr: the arguments (one or two integers, negative ones count from the end of the value) of the
	// substr() modifier of each extracted variable; empty = the fixed pair substr(6), substr(2,5).
	Substr [][]int `json:"substr,omitempty"`
	// xpath: the expressions of the var/xpath mapping; empty = the fixed //div[@class='data']
	XPath []XExpr `json:"xpath,omitempty"`
	// "" = GET; HEAD only for steps whose postprocessors need no body (none, header, header_substr, assert - which
	// then checks status and headers only): a good HEAD answer has no body to extract from
	Method string `json:"method,omitempty"`
}

func (s Step) method() string {
	if s.Method == "" {
		return "GET"
	}
	return s.Method
}

// headAnnounce: a HEAD step answered with a huge Content-Length got a legal, well-behaved answer
func headAnnounce(st Step, b Beh) bool { return st.Method == "HEAD" && b.Kind == "announce" }

// XExpr is one generated XPath 1.0 expression over catalogue pages (catalogPage) and what kind of thing it is.
type XExpr struct {
	Expr string `json:"expr"`
	// plain: node-set without a comparison; nodeset_numeric: node-set whose predicate compares an attribute with a
	// number (an XPath engine evaluates such a predicate node by node, while the result is being walked);
	// nodeset_string: node-set whose predicate applies string functions to the attribute;
	// scalar: number / boolean / string result (count(), boolean(), top-level comparison, sum(), ...)
	Kind string `json:"kind"`
}

// what a well-behaved target puts into the catalogue: numbers only
var goodPrices = []string{"120", "12.5", "-30", "250"}

// catalogPage is an HTML page with one list item per price: <li class='item' data-id='aK' data-price='...'>.
func catalogPage(prices []string) string {
	var sb strings.Builder
	sb.WriteString("<html><head><title>key</title></head><body><div class='data'>d</div><ul id='u1'>")
	for i, p := range prices {
		if p == "-" {
			fmt.Fprintf(&sb, "<li class='item' data-id='a%d'>item %d</li>", i, i)
		} else {
			fmt.Fprintf(&sb, "<li class='item' data-id='a%d' data-price='%s'>item %d</li>", i, p, i)
		}
	}
	sb.WriteString("</ul></body></html>")
	return sb.String()
}

func numericPrice(p string) bool {
	_, err := strconv.ParseFloat(p, 64)
	return p == "-" || err == nil
}

// genPrices: the data-price values of a page served by a misbehaving target: numbers mixed with what shops really
// print where a number is expected
func genPrices(t *rapid.T) []string {
	n := rapid.IntRange(1, 5).Draw(t, "items")
	ps := make([]string, 0, n)
	for i := 0; i < n; i++ {
		if rapid.IntRange(0, 2).Draw(t, "numeric") != 0 {
			ps = append(ps, rapid.SampledFrom([]string{"120", "99", "7", "12.5", "-30", "250", "0", "1e3"}).Draw(t, "price"))
		} else {
			ps = append(ps, rapid.SampledFrom([]string{"N/A", "", "1 200", "12,5", "abc", "-", " 7", "$5", "â", "12.5.1"}).Draw(t, "price"))
		}
	}
	return ps
}

func genCmp(t *rapid.T) string { return genCmpOf(t, "@data-price") }

func genCmpOf(t *rapid.T, attr string) string {
	n := rapid.SampledFrom([]string{"0", "10", "100", "99.5", "250", "1000"}).Draw(t, "number")
	op := rapid.SampledFrom([]string{">", "<", ">=", "<=", "=", "!="}).Draw(t, "op")
	if rapid.Bool().Draw(t, "numberFirst") {
		return n + " " + op + " " + attr
	}
	return attr + " " + op + " " + n
}

// genXExpr draws an expression of one of the kinds; all of them are valid XPath 1.0 that evaluates without an
// error on a catalogue whose prices are numbers (arithmetic on node-sets and round(), which the engine used by
// pandora does not implement, are left out).
func genXExpr(t *rapid.T) XExpr {
	sel := rapid.SampledFrom([]string{"/@data-id", "", "/@data-price"}).Draw(t, "selected")
	switch rapid.IntRange(0, 7).Draw(t, "xkind") {
	case 0:
		return XExpr{rapid.SampledFrom([]string{"//div[@class='data']", "//li/@data-id", "//li[@class='item']", "//li[position() < 3]/@data-id",
			"(//li)[last()]/@data-id", "//ul/@id", "//title"}).Draw(t, "plain"), "plain"}
	case 1, 2:
		return XExpr{"//li[" + genCmp(t) + "]" + sel, "nodeset_numeric"}
	case 3:
		pos := rapid.SampledFrom([]string{"[1]", "[last()]", "[position() < 3]"}).Draw(t, "position")
		return XExpr{"//li[" + genCmp(t) + "]" + pos + sel, "nodeset_numeric"}
	case 4:
		switch rapid.IntRange(0, 3).Draw(t, "combined") {
		case 0:
			return XExpr{"//li[not(" + genCmp(t) + ")]" + sel, "nodeset_numeric"}
		case 1:
			return XExpr{"//li[" + genCmp(t) + " or " + genCmp(t) + "]" + sel, "nodeset_numeric"}
		case 2:
			return XExpr{"//li[" + genCmp(t) + " and " + genCmp(t) + "]" + sel, "nodeset_numeric"}
		default:
			return XExpr{"//li[@class='item'][" + genCmp(t) + "]" + sel, "nodeset_numeric"}
		}
	case 5:
		if rapid.Bool().Draw(t, "outer") {
			return XExpr{"//ul[" + genCmpOf(t, "li/@data-price") + "]/@id", "nodeset_numeric"}
		}
		return XExpr{"//li[count(../li[" + genCmp(t) + "]) > 0]" + sel, "nodeset_numeric"}
	case 6:
		switch rapid.IntRange(0, 6).Draw(t, "scalar") {
		case 0, 1:
			return XExpr{"count(//li[" + genCmp(t) + "])", "scalar"}
		case 2:
			return XExpr{"boolean(//li[" + genCmp(t) + "])", "scalar"}
		case 3:
			return XExpr{genCmpOf(t, "//li/@data-price"), "scalar"}
		case 4:
			return XExpr{"sum(//li/@data-price)", "scalar"}
		case 5:
			return XExpr{"number(//li[1]/@data-price)", "scalar"}
		default:
			return XExpr{"concat(//li[1]/@data-id, '-', string-length(//li[2]/@data-price))", "scalar"}
		}
	default:
		return XExpr{"//li[" + rapid.SampledFrom([]string{"contains(@data-price, '1')", "starts-with(@data-price, '-')", "string-length(@data-price) > 2",
			"substring(@data-price, 1, 2) = '12'", "normalize-space(@data-price) = '120'", "number(@data-price) > 100", "floor(@data-price) = 120"}).Draw(t, "strPred") + "]" + sel, "nodeset_string"}
	}
}

const goodToken = "abcdefghijklmnop" // X-Token of a well-behaved response (Beh.resp)

// an index for substr(): small / beyond the usual value, from the start / from the end
func genSubstrIdx(t *rapid.T) int {
	switch rapid.IntRange(0, 3).Draw(t, "idxClass") {
	case 0:
		return rapid.IntRange(0, 8).Draw(t, "idx")
	case 1:
		return rapid.IntRange(9, 40).Draw(t, "idx")
	case 2:
		return -rapid.IntRange(1, 8).Draw(t, "idx")
	default:
		return -rapid.IntRange(9, 40).Draw(t, "idx")
	}
}

func genStep(t *rapid.T) Step {
	s := Step{Post: rapid.SampledFrom(postKinds).Draw(t, "post")}
	if s.Post == "header_substr" && rapid.IntRange(0, 3).Draw(t, "substrGen") != 0 {
		for m, k := 0, rapid.IntRange(1, 2).Draw(t, "substrVars"); m < k; m++ {
			args := []int{genSubstrIdx(t)}
			if rapid.Bool().Draw(t, "substrTwoArgs") {
				args = append(args, genSubstrIdx(t))
			}
			s.Substr = append(s.Substr, args)
		}
	}
	if s.Post == "xpath" && rapid.IntRange(0, 3).Draw(t, "xpathGen") != 0 {
		for m, k := 0, rapid.IntRange(1, 2).Draw(t, "xpathVars"); m < k; m++ {
			s.XPath = append(s.XPath, genXExpr(t))
		}
	}
	switch s.Post {
	case "none", "header", "header_substr", "assert":
		if rapid.IntRange(0, 3).Draw(t, "head") == 0 {
			s.Method = "HEAD"
		}
	}
	return s
}

type ScenCase struct {
	Steps []Step `json:"steps"`
	Shots []Shot `json:"shots"`
	// gun option `redirect: true`; a Shot whose behaviour has a Redir answers its step with redirects in either case
	Redirect bool `json:"redirect,omitempty"`
	// gun option `httptrace` (see HTTPTrace)
	HTTPTrace HTTPTrace `json:"httptrace"`
}

// Shot: which step of this invocation misbehaves (-1 none) and how.
type Shot struct {
	MisStep int `json:"mis_step"`
	Beh     Beh `json:"behaviour"`
}

var postKinds = []string{"none", "jsonpath", "xpath", "header", "header_substr", "assert"}

func genScen(t *rapid.T) ScenCase {
	c := ScenCase{}
	k := rapid.IntRange(1, 4).Draw(t, "steps")
	for i := 0; i < k; i++ {
		c.Steps = append(c.Steps, genStep(t))
	}
	n := rapid.IntRange(2, 6).Draw(t, "shots")
	c.Redirect = rapid.IntRange(0, 2).Draw(t, "redirectOption") == 0
	redirOneIn := 8
	if c.Redirect {
		redirOneIn = 2
	}
	for j := 0; j < n; j++ {
		s := Shot{MisStep: -1}
		if j < n-1 && rapid.IntRange(0, 2).Draw(t, "mis") != 0 {
			s.MisStep = rapid.IntRange(0, k-1).Draw(t, "misStep")
			if c.Steps[s.MisStep].Post == "xpath" && rapid.IntRange(0, 2).Draw(t, "page") != 0 {
				s.Beh = Beh{Kind: "ok", Prices: genPrices(t)} // a catalogue page for the step that reads one
			} else if c.Steps[s.MisStep].Method == "HEAD" && rapid.IntRange(0, 2).Draw(t, "headOfHuge") == 0 {
				s.Beh = announceBeh(t) // the HEAD step asks about a huge resource
			} else {
				s.Beh = genScenBeh(t)
			}
			if rapid.IntRange(0, redirOneIn-1).Draw(t, "redirected") == 0 {
				// redirects before that answer, or (half of the time) before the answer of a well-behaved target
				if rapid.Bool().Draw(t, "redirectedToGood") {
					s.Beh = goodBehFor(c.Steps[s.MisStep])
				}
				s.Beh.Redir = genRedir(t)
			}
		}
		c.Shots = append(c.Shots, s)
	}
	c.HTTPTrace = genHTTPTrace(t)
	return c
}

// responses the extractors cannot digest, on top of the transport-level misbehaviour
func genScenBeh(t *rapid.T) Beh {
	switch rapid.IntRange(0, 12).Draw(t, "scenBeh") {
	case 0:
		return Beh{Kind: "ok", Body: "{this is not json"}
	case 1:
		return Beh{Kind: "ok", Body: "<html><div class='data'><unclosed"}
	case 2:
		return Beh{Kind: "ok", Header: map[string]string{"X-Token": "abc"}} // shorter than substr(6)
	case 3:
		return Beh{Kind: "ok", Header: map[string]string{"X-Token": ""}}
	case 4:
		return Beh{Kind: "ok", Body: `{"other": 1}`, Header: map[string]string{"Content-Type": "text/plain"}}
	case 5:
		return Beh{Kind: "ok", Body: "null"}
	case 12:
		return Beh{Kind: "ok", Prices: genPrices(t)}
	case 6, 7:
		// a header value of any length up to a bit more than the usual one
		return Beh{Kind: "ok", Header: map[string]string{"X-Token": rapid.StringOfN(rapid.RuneFrom([]rune("abcXYZ019-_")), 0, 20, -1).Draw(t, "token")}}
	default:
		// transport-level misbehaviour; half of the time: a Content-Length far beyond what arrives before the close
		if rapid.Bool().Draw(t, "announcesFarMore") {
			return announceBeh(t)
		}
		return genBeh(t, false)
	}
}

func scenarioYAML(c ScenCase) string {
	var sb strings.Builder
	sb.WriteString("requests:\n")
	for i, s := range c.Steps {
		fmt.Fprintf(&sb, "  - name: s%d\n    method: %s\n    uri: /s%d\n    tag: t%d\n", i, s.method(), i, i)
		switch s.Post {
		case "jsonpath":
			sb.WriteString("    postprocessors:\n      - type: var/jsonpath\n        mapping:\n          v: $.key\n          w: $.items[1]\n")
		case "xpath":
			if len(s.XPath) == 0 {
				sb.WriteString("    postprocessors:\n      - type: var/xpath\n        mapping:\n          d: //div[@class='data']\n")
				break
			}
			sb.WriteString("    postprocessors:\n      - type: var/xpath\n        mapping:\n")
			for m, x := range s.XPath {
				fmt.Fprintf(&sb, "          x%d: %s\n", m, yamlQuote(x.Expr))
			}
		case "header":
			sb.WriteString("    postprocessors:\n      - type: var/header\n        mapping:\n          ct: Content-Type|upper\n          tok: X-Token\n")
		case "header_substr":
			if len(s.Substr) == 0 {
				sb.WriteString("    postprocessors:\n      - type: var/header\n        mapping:\n          tok: X-Token|lower|substr(6)\n          tok2: X-Token|substr(2,5)\n")
				break
			}
			sb.WriteString("    postprocessors:\n      - type: var/header\n        mapping:\n")
			for m, args := range s.Substr {
				mod := fmt.Sprintf("substr(%d)", args[0])
				if len(args) > 1 {
					mod = fmt.Sprintf("substr(%d,%d)", args[0], args[1])
				}
				if m == 1 {
					mod = "lower|" + mod
				}
				fmt.Fprintf(&sb, "          tok%d: \"X-Token|%s\"\n", m, mod)
			}
		case "assert":
			if s.Method == "HEAD" {
				sb.WriteString("    postprocessors:\n      - type: assert/response\n        headers:\n          Content-Type: json\n        status_code: 200\n")
				break
			}
			sb.WriteString("    postprocessors:\n      - type: assert/response\n        headers:\n          Content-Type: json\n        body:\n          - key\n        status_code: 200\n")
		}
	}
	sb.WriteString("scenarios:\n  - name: sc\n    weight: 1\n    min_waiting_time: 0\n    requests:\n")
	for i := range c.Steps {
		fmt.Fprintf(&sb, "      - s%d\n", i)
	}
	return sb.String()
}

func yamlQuote(s string) string { return `"` + strings.NewReplacer(`\`, `\\`, `"`, `\"`).Replace(s) + `"` }

// the well-behaved answer to step i: for a step that reads a catalogue with generated expressions, a catalogue of numbers
func goodBehFor(st Step) Beh {
	if st.Post == "xpath" && len(st.XPath) > 0 {
		return Beh{Kind: "ok", Prices: goodPrices}
	}
	return Beh{Kind: "ok"}
}

func checkScen(c ScenCase, o *vf.Obs) error {
	tg, mu := target.Shared(false)
	mu.Lock()
	defer mu.Unlock()
	// single instance: requests arrive strictly in order; the shot index is the number of
	// first-step requests seen so far
	var smu sync.Mutex
	shot := -1
	watch := newRedirWatch()
	tg.Reset(func(seq int, r *target.Rec) target.Resp {
		step := -1
		fmt.Sscanf(r.RequestURI, "/s%d", &step)
		smu.Lock()
		// keep-alives are off, so Go's transport never silently retries: every step-0 request opens a new invocation
		// - except the follow-up requests of a redirected step 0, which net/http marks with a Referer
		if step == 0 && r.Header.Get("Referer") == "" {
			shot++
		}
		cur := shot
		smu.Unlock()
		if cur >= 0 && cur < len(c.Shots) && c.Shots[cur].MisStep == step {
			if !watch.seen(cur) {
				return goodBehFor(c.Steps[step]).respFor(r.Method)
			}
			if resp, ok := c.Shots[cur].Beh.Redir.answer(fmt.Sprintf("/s%d", step), r.RequestURI, "http", tg.Addr()); ok {
				return resp
			}
			return c.Shots[cur].Beh.respFor(r.Method)
		}
		if step >= 0 && step < len(c.Steps) {
			return goodBehFor(c.Steps[step]).resp()
		}
		return Beh{Kind: "ok"}.resp()
	})
	name := pand.WriteFile("c19s", ".yaml", []byte(scenarioYAML(c)))
	defer pand.Remove(name)
	out := pand.TempName("c19s", ".phout")
	defer pand.Remove(out)
	// no keep-alive: a reset/close then hits a fresh connection and Go's transport does not silently retry
	gun := map[string]any{"type": "http/scenario", "target": tg.Addr(), "response-header-timeout": "400ms", "disable-keep-alives": true,
		"redirect": c.Redirect}
	c.HTTPTrace.apply(gun)
	pool := map[string]any{
		"id":      "p",
		"gun":     gun,
		"ammo":    map[string]any{"type": "http/scenario", "file": name, "limit": len(c.Shots)},
		"result":  map[string]any{"type": "phout", "destination": out},
		"rps":     map[string]any{"type": "once", "times": len(c.Shots) + 5},
		"startup": map[string]any{"type": "once", "times": 1},
	}
	runErr, err := runPoolWatched(pool, watch)
	var hung *runawayErr
	if errors.As(err, &hung) {
		return &runawayErr{why: fmt.Sprintf("%v (http/scenario gun, redirect %v, shots %+v)\n%s", err, c.Redirect, c.Shots, scenarioYAML(c)), stacks: hung.stacks}
	}
	if err == nil && runErr != nil {
		err = fmt.Errorf("the run was aborted: %v", runErr)
	}
	if err != nil {
		return fmt.Errorf("%v\nhttptrace %+v, shots %+v\n%s", err, c.HTTPTrace, c.Shots, scenarioYAML(c))
	}
	lines, data, err := readPhout(out)
	if err != nil {
		return err
	}
	// group samples into invocations: a new one starts at a step-0 tag
	var groups [][]line
	for _, l := range lines {
		if strings.HasPrefix(l.tag, "sc.s0") || len(groups) == 0 {
			groups = append(groups, nil)
		}
		groups[len(groups)-1] = append(groups[len(groups)-1], l)
	}
	if len(groups) != len(c.Shots) {
		return fmt.Errorf("%d scenario invocations left samples, %d were shot\n%s\n%s", len(groups), len(c.Shots), data, scenarioYAML(c))
	}
	mis, goodAfter := 0, false
	rs := redirSeen{}
	for j, g := range groups {
		s := c.Shots[j]
		// a HEAD step answered with the size of a huge resource got a legal answer: the invocation met only good ones
		legalHead := s.MisStep >= 0 && headAnnounce(c.Steps[s.MisStep], s.Beh) && s.Beh.Redir == nil
		if legalHead {
			o.Class("head_announces_huge_on_" + c.Steps[s.MisStep].Post)
			o.ClassIf(c.Steps[s.MisStep].Post != "none", "head_announces_huge_postprocessed")
		}
		if len(g) < 1 || len(g) > len(c.Steps) {
			return fmt.Errorf("invocation %d left %d samples for %d steps\n%s", j, len(g), len(c.Steps), data)
		}
		for i, l := range g {
			wantTag := fmt.Sprintf("sc.s%d", i)
			if !(l.tag == wantTag || strings.HasPrefix(l.tag, wantTag+"|")) {
				return fmt.Errorf("invocation %d sample %d is tagged %q, expected the scenario and step name %q\n%s", j, i, l.tag, wantTag, data)
			}
		}
		// a step whose redirects a following gun follows to the answer of a well-behaved target met only good ones, too
		followedToGood := false
		if s.MisStep >= 0 && s.Beh.Redir != nil && len(g) > s.MisStep {
			st := c.Steps[s.MisStep]
			done, err := judgeRedirected(s.Beh.Redir, c.Redirect, g[s.MisStep], fmt.Sprintf("invocation %d step %d", j, s.MisStep), st.Post != "none", rs)
			if err != nil {
				return fmt.Errorf("%v (%d requests seen by the target for it)\nshots %+v\n%s\n%s", err, watch.count(j), c.Shots, data, scenarioYAML(c))
			}
			followedToGood = !done && (plainGood(s.Beh, st) || headAnnounce(st, s.Beh))
		}
		if s.MisStep < 0 || legalHead || followedToGood {
			if len(g) != len(c.Steps) {
				return fmt.Errorf("invocation %d met only well-behaved responses but left %d samples for %d steps\n%s\n%s", j, len(g), len(c.Steps), data, scenarioYAML(c))
			}
			for i, l := range g {
				if l.proto != 200 || l.net != 0 {
					return fmt.Errorf("invocation %d step %d got a well-behaved 200 response but its sample says proto=%d net=%d\n%s", j, i, l.proto, l.net, data)
				}
			}
			if mis > 0 {
				goodAfter = true
			}
			continue
		}
		mis++
		if s.Beh.Redir != nil {
			o.Class("mis_redirect_on_" + c.Steps[s.MisStep].Post)
		}
		o.Class("mis_" + s.Beh.Kind + "_on_" + c.Steps[s.MisStep].Post)
		if s.Beh.Kind == "announce" && c.Steps[s.MisStep].Method != "HEAD" {
			buffered := c.Steps[s.MisStep].Post != "none" // the gun reads the body into memory for the postprocessors
			o.ClassIf(buffered, "lying_length_postprocessed")
			o.ClassIf(buffered && unallocatable(s.Beh.Len), "lying_length_unallocatable_postprocessed")
		}
		xpathClasses(c.Steps[s.MisStep], s.Beh, o)
		if len(g) < s.MisStep+1 {
			return fmt.Errorf("invocation %d: steps before the misbehaving step %d all got good responses, but only %d samples were left\n%s", j, s.MisStep, len(g), data)
		}
		for i := 0; i < s.MisStep; i++ {
			if g[i].proto != 200 || g[i].net != 0 {
				return fmt.Errorf("invocation %d step %d got a good response but sample says proto=%d net=%d\n%s", j, i, g[i].proto, g[i].net, data)
			}
		}
	}
	anyNeg, anyBeyond := false, false
	for i, st := range c.Steps {
		o.Class("post_" + st.Post)
		o.ClassIf(st.Method == "HEAD", "head_step")
		for _, x := range st.XPath {
			o.Class("xpath_expr_" + x.Kind)
		}
		neg, beyond := substrClasses(c, i)
		anyNeg, anyBeyond = anyNeg || neg, anyBeyond || beyond
	}
	o.ClassIf(anyNeg, "substr_negative_index")
	o.ClassIf(anyBeyond, "substr_negative_index_beyond_value")
	o.ClassIf(c.Redirect, "redirect_option_on")
	c.HTTPTrace.classes(o, lines)
	rs.classes(o, "scenario_gun")
	if mis > 0 && goodAfter {
		o.NonTrivial()
	}
	return nil
}

// plainGood: b is the answer of a well-behaved target to step st (redirects before it aside)
func plainGood(b Beh, st Step) bool {
	g := goodBehFor(st)
	return b.Kind == "ok" && b.Body == "" && len(b.Header) == 0 && reflect.DeepEqual(b.Prices, g.Prices)
}

// xpathClasses labels what a var/xpath step with generated expressions was given to read.
func xpathClasses(st Step, b Beh, o *vf.Obs) {
	if st.Post != "xpath" || len(st.XPath) == 0 || b.Kind != "ok" || len(b.Prices) == 0 {
		return
	}
	nonNumeric := false
	for _, p := range b.Prices {
		nonNumeric = nonNumeric || !numericPrice(p)
	}
	seen := map[string]bool{}
	for _, x := range st.XPath {
		if seen[x.Kind] {
			continue
		}
		seen[x.Kind] = true
		if nonNumeric {
			o.Class("xpath_" + x.Kind + "_on_non_numeric_page")
		} else {
			o.Class("xpath_" + x.Kind + "_on_numeric_page")
		}
	}
}

// substrClasses: does step i extract with a negative substr() index, and was one of them applied to a (non-empty)
// header value shorter than its magnitude.
func substrClasses(c ScenCase, i int) (neg, beyond bool) {
	vals := []string{goodToken} // the last invocation is always answered well
	for _, sh := range c.Shots {
		if sh.MisStep == i && sh.Beh.Kind == "ok" {
			if v, ok := sh.Beh.Header["X-Token"]; ok && v != "" {
				vals = append(vals, v)
			}
		}
	}
	for _, args := range c.Steps[i].Substr {
		for _, a := range args {
			if a >= 0 {
				continue
			}
			neg = true
			for _, v := range vals {
				if -a > len(v) {
					beyond = true
				}
			}
		}
	}
	return neg, beyond
}

func TestScenarioGun(t *testing.T) {
	pand.Init()
	r := vf.Start(t, "C19")
	vf.Check(r, genScen, vf.LoadTolerant(25*time.Millisecond, hangsMustRepeat(checkScen)))
}
