// Targets written as a host NAME x the dialer option `dns-cache` x a target that is not up when the guns are built.
//
// docs/eng/http-generator.md documents `dial.dns-cache` (default true); components/guns/http/base.go documents what the
// guns do with it: a target given as IP:port needs no cache; a named target that can be reached when the gun is built
// is resolved once and shot at by address; a named target that can NOT be reached then "should not fail shooting, we
// should try to connect on every shoot" - the caching dialer stays installed and remembers the address after the first
// successful connect. So which dialer serves a shot depends on how the target is written, on the option, and on whether
// the target was up at construction and at the earlier shots. The property does not care: every refused connection is a
// sample carrying the failure, the instance goes on with the next ammo, the run ends.
package c19

import (
	"context"
	"crypto/tls"
	"fmt"
	"io"
	"log"
	"net"
	"net/http"
	"net/http/httptest"
	"runtime"
	"strings"
	"sync"
	"syscall"
	"testing"
	"time"

	"verif/harness/internal/pand"
	"verif/harness/internal/target"
	"verif/harness/internal/vf"

	"github.com/yandex/pandora/core/engine"
	"pgregory.net/rapid"
)

// ---------------- a listener that can start (and stop) listening on a reserved port ----------------

// flipListener owns a port of 127.0.0.1 on which it listens only while it is up; while it is down every connection
// attempt is refused. The port is reserved for its whole life (target.GoAway's holder socket: bound, never listening,
// SO_REUSEPORT), so no neighbouring process can be given it meanwhile.
type flipListener struct {
	holder *target.GoAway

	mu     sync.Mutex
	cond   *sync.Cond
	ln     net.Listener
	closed bool
	ups    int
}

func newFlipListener() (*flipListener, error) {
	g, err := target.ListenGoAway(0) // reserves the port, nothing listens
	if err != nil {
		return nil, err
	}
	f := &flipListener{holder: g}
	f.cond = sync.NewCond(&f.mu)
	return f, nil
}

const soReusePortLinux = 0xf

// up starts listening (no-op when already up).
func (f *flipListener) up() error {
	f.mu.Lock()
	defer f.mu.Unlock()
	if f.closed || f.ln != nil {
		return nil
	}
	lc := net.ListenConfig{Control: func(network, address string, c syscall.RawConn) error {
		var serr error
		if cerr := c.Control(func(fd uintptr) {
			serr = syscall.SetsockoptInt(int(fd), syscall.SOL_SOCKET, soReusePortLinux, 1)
		}); cerr != nil {
			return cerr
		}
		return serr
	}}
	ln, err := lc.Listen(context.Background(), "tcp4", f.holder.HostPort())
	if err != nil {
		return err
	}
	f.ln = ln
	f.ups++
	f.cond.Broadcast()
	return nil
}

// down stops listening: connections waiting in the backlog are reset by the kernel, established ones stay served.
func (f *flipListener) down() {
	f.mu.Lock()
	ln := f.ln
	f.ln = nil
	f.mu.Unlock()
	if ln != nil {
		_ = ln.Close()
	}
}

func (f *flipListener) isUp() bool {
	f.mu.Lock()
	defer f.mu.Unlock()
	return f.ln != nil
}

func (f *flipListener) Accept() (net.Conn, error) {
	for {
		f.mu.Lock()
		for f.ln == nil && !f.closed {
			f.cond.Wait()
		}
		if f.closed {
			f.mu.Unlock()
			return nil, net.ErrClosed
		}
		ln := f.ln
		f.mu.Unlock()
		c, err := ln.Accept()
		if err == nil {
			return c, nil
		}
		f.mu.Lock()
		same := f.ln == ln
		f.mu.Unlock()
		if same {
			return nil, err
		}
		// taken down meanwhile: wait for the next up / Close
	}
}

func (f *flipListener) Close() error {
	f.mu.Lock()
	already := f.closed
	f.closed = true
	ln := f.ln
	f.ln = nil
	f.cond.Broadcast()
	f.mu.Unlock()
	if ln != nil {
		_ = ln.Close()
	}
	if !already {
		_ = f.holder.Close()
	}
	return nil
}

func (f *flipListener) Addr() net.Addr { return f.holder.Addr() }

func (f *flipListener) port() string {
	_, p, _ := net.SplitHostPort(f.holder.HostPort())
	return p
}

// ---------------- an HTTP/2 (TLS, ALPN h2) recording target on a listener of the caller's making ----------------

type h2OnTarget struct {
	srv    *httptest.Server
	mu     sync.Mutex
	uris   []string
	script func(uri string) Beh
}

func newH2On(l net.Listener, script func(uri string) Beh) *h2OnTarget {
	h := &h2OnTarget{script: script}
	srv := httptest.NewUnstartedServer(http.HandlerFunc(func(w http.ResponseWriter, r *http.Request) {
		h.mu.Lock()
		h.uris = append(h.uris, r.RequestURI)
		h.mu.Unlock()
		b := h.script(r.RequestURI)
		switch b.Kind {
		case "status":
			w.WriteHeader(b.Status)
			_, _ = io.WriteString(w, b.Body)
		case "empty":
			w.WriteHeader(200)
		default:
			w.Header().Set("Content-Type", "application/json")
			w.Header().Set("X-Token", goodToken)
			_, _ = io.WriteString(w, `{"key": "value", "items": [1, 2, 3]}`)
		}
	}))
	_ = srv.Listener.Close()
	srv.Listener = l
	srv.EnableHTTP2 = true
	srv.Config.ErrorLog = log.New(io.Discard, "", 0)
	srv.TLS = &tls.Config{}
	srv.StartTLS()
	h.srv = srv
	return h
}

func (h *h2OnTarget) requests() []string {
	h.mu.Lock()
	defer h.mu.Unlock()
	return append([]string(nil), h.uris...)
}

// ---------------- the case ----------------

type NamedCase struct {
	Gun string `json:"gun"` // http | connect | http2 | http/scenario | http2/scenario
	// how the host of the target is written in the gun's `target`: a name of the loopback address, or "" = as the IP
	// 127.0.0.1 (the control: what every other test of this package does)
	Host string `json:"host"`
	// gun option dial.dns-cache: "" = not written (documented default: true) | "on" | "off"
	DNSCache string `json:"dns_cache"`
	// whether the target listens when the guns are built (config decoding) ...
	UpAtStart bool `json:"up_at_start"`
	// ... and after how many finished shots (ammo entries / scenario invocations, over all instances) it changes: a
	// target that was down starts listening, one that was up stops (established connections stay served). -1 = never.
	FlipAfter int `json:"flip_after"`
	// uri guns: one behaviour per ammo entry - what the target answers IF the request reaches it
	Behs []Beh `json:"behaviours,omitempty"`
	// scenario guns: steps per invocation (all answered well when they arrive) and invocations
	Steps int `json:"steps,omitempty"`
	Shots int `json:"shots,omitempty"`

	Instances  int       `json:"instances"`
	KeepAlive  bool      `json:"keep_alive"`
	ConnectSSL bool      `json:"connect_ssl,omitempty"`
	Shared     bool      `json:"shared_client,omitempty"` // gun option shared-client (uri guns): one client, i.e. one dialer, for all instances
	HTTPTrace  HTTPTrace `json:"httptrace"`
}

func (c NamedCase) scenario() bool { return strings.HasSuffix(c.Gun, "/scenario") }
func (c NamedCase) h2() bool       { return strings.HasPrefix(c.Gun, "http2") }

// spellings of the loopback name; each is used only if this machine resolves it to 127.0.0.1 and nothing else (see usableName)
var loopbackNames = []string{"localhost", "localhost", "LocalHost", "localhost."}

// behaviours that involve no client-side timeout (this test has hang deadlines of its own)
var namedMisKinds = []string{"status", "empty", "close", "reset", "bad_status_line", "short_body"}

func genNamed(t *rapid.T) NamedCase {
	c := NamedCase{}
	c.Gun = rapid.SampledFrom([]string{"http", "http", "connect", "connect", "http2", "http/scenario", "http/scenario", "http2/scenario"}).Draw(t, "gun")
	if rapid.IntRange(0, 5).Draw(t, "byName") != 0 {
		c.Host = rapid.SampledFrom(loopbackNames).Draw(t, "host")
	}
	c.DNSCache = rapid.SampledFrom([]string{"", "", "on", "off"}).Draw(t, "dnsCache")
	c.UpAtStart = rapid.IntRange(0, 3).Draw(t, "upAtStart") == 0
	c.FlipAfter = -1
	c.Instances = 1
	shots := 0
	if c.scenario() {
		// one instance: the samples of an invocation are then adjacent in the output
		c.Steps = rapid.IntRange(1, 3).Draw(t, "steps")
		c.Shots = rapid.IntRange(3, 7).Draw(t, "shots")
		shots = c.Shots
	} else {
		c.Instances = rapid.IntRange(1, 3).Draw(t, "instances")
		// more entries than instances: some instance shoots again after its first (possibly refused) shot
		n := rapid.IntRange(c.Instances+2, 9).Draw(t, "entries")
		for i := 0; i < n; i++ {
			good := i == n-1 || rapid.IntRange(0, 3).Draw(t, "good") != 0
			b := Beh{Kind: "ok"}
			if !good {
				kinds := namedMisKinds
				if c.h2() {
					kinds = kinds[:2]
				}
				b.Kind = rapid.SampledFrom(kinds).Draw(t, "kind")
				if b.Kind == "status" {
					b.Status = rapid.IntRange(200, 599).Draw(t, "status")
					b.Body = rapid.SampledFrom([]string{"", "x", "{not json"}).Draw(t, "body")
				}
			}
			c.Behs = append(c.Behs, b)
		}
		shots = n
		c.Shared = rapid.IntRange(0, 3).Draw(t, "sharedClient") == 0
		if c.Gun == "connect" {
			c.ConnectSSL = rapid.Bool().Draw(t, "connectSSL")
		}
	}
	if rapid.Bool().Draw(t, "flips") {
		// at least one shot before the change, at least one after it
		c.FlipAfter = rapid.IntRange(1, shots-1).Draw(t, "flipAfter")
	}
	c.KeepAlive = rapid.Bool().Draw(t, "keepAlive")
	c.HTTPTrace = genHTTPTrace(t)
	return c
}

// usableName: the name must mean 127.0.0.1 and only that here (the reserved port is a port of 127.0.0.1; on another
// address of the name somebody else might listen).
var usableNameCache sync.Map

func usableName(name string) bool {
	if v, ok := usableNameCache.Load(name); ok {
		return v.(bool)
	}
	ctx, cancel := context.WithTimeout(context.Background(), 5*time.Second)
	defer cancel()
	addrs, err := net.DefaultResolver.LookupHost(ctx, name)
	ok := err == nil && len(addrs) > 0
	for _, a := range addrs {
		ok = ok && a == "127.0.0.1"
	}
	usableNameCache.Store(name, ok)
	return ok
}

// standstillErr: the run made no progress (no shot started or finished) for namedStandstill although it was not over.
type standstillErr struct{ why, stacks string }

func (e *standstillErr) Error() string { return e.why }

const (
	// a refused connection and an exchange with the in-process target take well under a millisecond, the whole run
	// some tens of milliseconds; no machine load explains this long without a single shot starting or finishing
	namedStandstill = 10 * time.Second
	namedDeadline   = 90 * time.Second
)

// runNamedPool runs the pool with the real engine; once flipAfter shots are finished (the engine's own Response
// counter) it calls flip. The run is given up when neither of the engine's Request / Response counters moved for
// namedStandstill, or at namedDeadline.
func runNamedPool(pool map[string]any, flipAfter int, flip func()) (runErr error, shotsDone int64, err error) {
	var conf engine.Config
	if err := pand.Decode(map[string]any{"pools": []any{pool}}, &conf); err != nil {
		return nil, 0, fmt.Errorf("valid pool config rejected: %v", err)
	}
	m := pand.Metrics()
	eng := engine.New(pand.NopLog(), m, conf)
	ctx, cancel := context.WithCancel(context.Background())
	defer cancel()
	done := make(chan struct{})
	go func() {
		defer close(done)
		defer func() {
			if r := recover(); r != nil {
				runErr = fmt.Errorf("Engine.Run panicked: %v", r)
			}
		}()
		runErr = eng.Run(ctx)
	}()
	t0 := time.Now()
	last, lastAt := int64(-1), t0
	for {
		select {
		case <-done:
			eng.Wait()
			return runErr, m.Response.Get(), nil
		default:
		}
		resp := m.Response.Get()
		if flipAfter >= 0 && resp >= int64(flipAfter) {
			flip()
			flipAfter = -1
		}
		now := time.Now()
		if n := resp + m.Request.Get(); n != last {
			last, lastAt = n, now
		}
		why := ""
		if now.Sub(lastAt) > namedStandstill {
			why = fmt.Sprintf("the run stands still: %d shots started, %d finished, and nothing moved for %v", m.Request.Get(), resp, namedStandstill)
		} else if now.Sub(t0) > namedDeadline {
			why = fmt.Sprintf("the run is not over after %v (%d shots started, %d finished)", namedDeadline, m.Request.Get(), resp)
		}
		if why != "" {
			buf := make([]byte, 1<<20)
			buf = buf[:runtime.Stack(buf, true)]
			cancel()
			select {
			case <-done:
				why += "; it ended only when it was cancelled"
			case <-time.After(5 * time.Second):
				why += "; it did not end within 5 s after it was cancelled either"
			}
			return nil, resp, &standstillErr{why: why, stacks: string(buf)}
		}
		time.Sleep(200 * time.Microsecond)
	}
}

func namedScenarioYAML(steps int) string {
	var sb strings.Builder
	sb.WriteString("requests:\n")
	for i := 0; i < steps; i++ {
		fmt.Fprintf(&sb, "  - name: s%d\n    method: GET\n    uri: /s%d\n", i, i)
	}
	sb.WriteString("scenarios:\n  - name: sc\n    weight: 1\n    min_waiting_time: 0\n    requests:\n")
	for i := 0; i < steps; i++ {
		fmt.Fprintf(&sb, "      - s%d\n", i)
	}
	return sb.String()
}

func checkNamed(c NamedCase, o *vf.Obs) error {
	fl, err := newFlipListener()
	if err != nil {
		return fmt.Errorf("harness: %v", err)
	}
	script := func(uri string) Beh {
		if c.scenario() {
			return Beh{Kind: "ok"}
		}
		if i := entryIndex(uri); i >= 0 && i < len(c.Behs) {
			return c.Behs[i]
		}
		return Beh{Kind: "status", Status: 500}
	}
	var requests func() []string
	if c.h2() {
		tg := newH2On(fl, script)
		defer tg.srv.Close()
		requests = tg.requests
	} else {
		tg := target.NewHTTPOn(fl, c.ConnectSSL)
		defer tg.Close()
		tg.Reset(func(seq int, r *target.Rec) target.Resp { return script(r.RequestURI).resp() })
		requests = func() (uris []string) {
			for _, r := range tg.Records() {
				uris = append(uris, r.RequestURI)
			}
			return
		}
	}
	if c.UpAtStart {
		if err := fl.up(); err != nil {
			return fmt.Errorf("harness: %v", err)
		}
	}
	host := "127.0.0.1"
	if c.Host != "" {
		switch {
		case usableName(c.Host):
			host = c.Host
		case usableName("localhost"):
			host = "localhost"
		default:
			o.Class("no_usable_loopback_name_on_this_machine")
		}
	}
	named := host != "127.0.0.1"
	addr := net.JoinHostPort(host, fl.port())

	shots := len(c.Behs)
	ammo := map[string]any{}
	if c.scenario() {
		shots = c.Shots
		name := pand.WriteFile("c19n", ".yaml", []byte(namedScenarioYAML(c.Steps)))
		defer pand.Remove(name)
		ammo = map[string]any{"type": "http/scenario", "file": name, "limit": c.Shots}
	} else {
		var sb strings.Builder
		for i := range c.Behs {
			fmt.Fprintf(&sb, "/e%d t%d\n", i, i)
		}
		name := pand.WriteFile("c19n", ".ammo", []byte(sb.String()))
		defer pand.Remove(name)
		ammo = map[string]any{"type": "uri", "file": name, "passes": 1}
	}
	out := pand.TempName("c19n", ".phout")
	defer pand.Remove(out)
	// generous client-side timeouts: no behaviour of this test stalls, and a refused connection needs none
	dial := map[string]any{"timeout": "20s"}
	switch c.DNSCache {
	case "on":
		dial["dns-cache"] = true
	case "off":
		dial["dns-cache"] = false
	}
	gun := map[string]any{"type": c.Gun, "target": addr, "response-header-timeout": "20s", "tls-handshake-timeout": "20s",
		"disable-keep-alives": !c.KeepAlive, "dial": dial}
	if c.Gun == "connect" {
		gun["connect-ssl"] = c.ConnectSSL
	}
	if c.Shared {
		gun["shared-client"] = map[string]any{"enabled": true, "client-number": 1}
	}
	c.HTTPTrace.apply(gun)
	// a target that changes is shot at with pauses (one shot per 3 ms), so that shots remain for the time after the change
	rps := map[string]any{"type": "once", "times": shots + 5}
	if c.FlipAfter >= 0 {
		rps = map[string]any{"type": "const", "ops": 333, "duration": "30s"}
	}
	pool := map[string]any{
		"id":      "p",
		"gun":     gun,
		"ammo":    ammo,
		"result":  map[string]any{"type": "phout", "destination": out},
		"rps":     rps,
		"startup": map[string]any{"type": "once", "times": c.Instances},
	}
	var flipErr error
	runErr, _, err := runNamedPool(pool, c.FlipAfter, func() {
		if c.UpAtStart {
			fl.down()
		} else {
			flipErr = fl.up()
		}
	})
	if flipErr != nil {
		return fmt.Errorf("harness: %v", flipErr)
	}
	what := fmt.Sprintf("%s gun, target written as %s, dns-cache %q, target up at construction: %v, changes after %d shots, %d instances, keep-alive %v, shared client %v",
		c.Gun, addr, c.DNSCache, c.UpAtStart, c.FlipAfter, c.Instances, c.KeepAlive, c.Shared)
	if err != nil {
		var st *standstillErr
		if ok := asStandstill(err, &st); ok {
			o.Note("goroutine_stacks", st.stacks)
			data, _ := readPhoutRaw(out)
			return fmt.Errorf("HANG: %v (%s); samples so far:\n%s", err, what, data)
		}
		return fmt.Errorf("%v (%s)", err, what)
	}
	if runErr != nil {
		return fmt.Errorf("the run was aborted: %v (%s)", runErr, what)
	}
	lines, data, err := readPhout(out)
	if err != nil {
		return err
	}
	reqs := requests()
	refused, served, mis := 0, 0, 0
	if c.scenario() {
		refused, served, err = judgeNamedScenario(c, lines, reqs)
	} else {
		refused, served, mis, err = judgeNamedURI(c, lines, reqs)
	}
	if err != nil {
		return fmt.Errorf("%v (%s)\n%s", err, what, data)
	}

	cacheOn := c.DNSCache != "off"
	gunLabel := strings.ReplaceAll(c.Gun, "/", "_")
	o.Class("gun_" + gunLabel)
	o.ClassIf(named, "target_by_name")
	o.ClassIf(!named, "target_by_ip")
	o.ClassIf(named && c.DNSCache == "", "by_name_dns_cache_default")
	o.ClassIf(named && c.DNSCache == "on", "by_name_dns_cache_on")
	o.ClassIf(named && c.DNSCache == "off", "by_name_dns_cache_off")
	o.ClassIf(!c.UpAtStart, "down_at_construction")
	o.ClassIf(named && c.UpAtStart, "by_name_up_at_construction")
	// the caching dialer stays installed: named target, cache on, not reachable when the gun was built
	caching := named && cacheOn && !c.UpAtStart
	o.ClassIf(caching, "by_name_cache_on_down_at_construction")
	o.ClassIf(caching, "by_name_cache_on_down_at_construction_"+gunLabel)
	o.ClassIf(caching && c.FlipAfter < 0, "caching_dialer_target_stays_down")
	o.ClassIf(caching && c.FlipAfter >= 0, "caching_dialer_target_comes_up")
	o.ClassIf(caching && refused >= 2, "caching_dialer_refused_twice_or_more")
	o.ClassIf(caching && refused > 0 && served > 0, "caching_dialer_refused_then_served")
	o.ClassIf(caching && c.Shared, "caching_dialer_shared_client")
	o.ClassIf(named && !cacheOn && !c.UpAtStart, "by_name_cache_off_down_at_construction")
	o.ClassIf(!c.UpAtStart && c.FlipAfter >= 0, "target_comes_up")
	o.ClassIf(c.UpAtStart && c.FlipAfter >= 0, "target_goes_down")
	o.ClassIf(!c.UpAtStart && c.FlipAfter < 0, "target_never_up")
	o.ClassIf(refused > 0, "refused_seen")
	o.ClassIf(refused > 0 && served > 0, "refused_and_served")
	o.ClassIf(c.Instances >= 2, "instances_ge_2")
	o.ClassIf(c.ConnectSSL, "connect_ssl")
	c.HTTPTrace.classes(o, lines)
	// non-trivial: a request that could not be delivered was reported and the run went on to its end with further
	// samples, or a misbehaving answer was
	if (refused > 0 && len(lines) >= 2) || mis > 0 {
		o.NonTrivial()
	}
	return nil
}

func asStandstill(err error, st **standstillErr) bool {
	s, ok := err.(*standstillErr)
	if ok {
		*st = s
	}
	return ok
}

func readPhoutRaw(name string) (string, error) {
	_, data, err := readPhout(name)
	return data, err
}

// judgeNamedURI: one sample per ammo entry; an entry whose request the target has no record of got no answer, so its
// sample must carry a failure (net error, no status); one that arrived is judged by what the target answered.
func judgeNamedURI(c NamedCase, lines []line, reqs []string) (refused, served, mis int, err error) {
	if len(lines) != len(c.Behs) {
		return 0, 0, 0, fmt.Errorf("%d samples for %d requests", len(lines), len(c.Behs))
	}
	byTag := map[string]line{}
	for _, l := range lines {
		byTag[l.tag] = l
	}
	reached := map[int]bool{}
	for _, u := range reqs {
		reached[entryIndex(u)] = true
	}
	for i, b := range c.Behs {
		l, ok := byTag[fmt.Sprintf("t%d", i)]
		if !ok {
			return 0, 0, 0, fmt.Errorf("no sample for request %d (%s)", i, b.Kind)
		}
		if !reached[i] {
			refused++
			if l.proto != 0 || l.net == 0 {
				return 0, 0, 0, fmt.Errorf("request %d never reached the target, but its sample says proto=%d net=%d, not a failure", i, l.proto, l.net)
			}
			continue
		}
		served++
		switch b.Kind {
		case "ok":
			if l.proto != 200 || l.net != 0 {
				return 0, 0, 0, fmt.Errorf("request %d reached the target and got a well-behaved 200 response, but its sample says proto=%d net=%d", i, l.proto, l.net)
			}
		case "status":
			mis++
			if l.proto != b.Status {
				return 0, 0, 0, fmt.Errorf("request %d answered with status %d, sample says %d", i, b.Status, l.proto)
			}
		default:
			mis++
		}
	}
	return refused, served, mis, nil
}

// judgeNamedScenario (one instance, every request that arrives is answered well): the samples form c.Shots invocations,
// each a prefix s0, s1, ... of the steps in which only the last sample may be anything but a clean 200, and must be a
// failure when the invocation ends early; the clean 200 samples of a step are exactly its requests the target received.
func judgeNamedScenario(c NamedCase, lines []line, reqs []string) (refused, served int, err error) {
	var groups [][]line
	for i := range lines {
		// "sc.s0|__EMPTY__": scenario name . step name, then the tags of the request (none)
		lines[i].tag, _, _ = strings.Cut(lines[i].tag, "|")
	}
	for _, l := range lines {
		if l.tag == "sc.s0" || len(groups) == 0 {
			groups = append(groups, nil)
		}
		groups[len(groups)-1] = append(groups[len(groups)-1], l)
	}
	if len(groups) != c.Shots {
		return 0, 0, fmt.Errorf("%d scenario invocations left samples, %d were shot", len(groups), c.Shots)
	}
	clean := make([]int, c.Steps)
	for j, g := range groups {
		if len(g) > c.Steps {
			return 0, 0, fmt.Errorf("invocation %d left %d samples, the scenario has %d steps", j, len(g), c.Steps)
		}
		for k, l := range g {
			if l.tag != fmt.Sprintf("sc.s%d", k) {
				return 0, 0, fmt.Errorf("invocation %d: sample %d is tagged %q, expected step s%d", j, k, l.tag, k)
			}
			ok := l.proto == 200 && l.net == 0
			if ok {
				clean[k]++
				served++
				continue
			}
			if l.proto != 0 || l.net == 0 {
				return 0, 0, fmt.Errorf("invocation %d step %d: every request that arrives is answered with a 200, yet the sample says proto=%d net=%d", j, k, l.proto, l.net)
			}
			refused++
			if k != len(g)-1 {
				return 0, 0, fmt.Errorf("invocation %d went on after its failed step %d", j, k)
			}
		}
		if last := g[len(g)-1]; len(g) < c.Steps && last.proto == 200 && last.net == 0 {
			return 0, 0, fmt.Errorf("invocation %d ended after %d of %d steps although its last step succeeded", j, len(g), c.Steps)
		}
	}
	got := make([]int, c.Steps)
	for _, u := range reqs {
		var k int
		if _, e := fmt.Sscanf(u, "/s%d", &k); e == nil && k >= 0 && k < c.Steps {
			got[k]++
		}
	}
	for k := range clean {
		if clean[k] != got[k] {
			return 0, 0, fmt.Errorf("step s%d: the target received (and answered well) %d requests, %d samples are a clean 200", k, got[k], clean[k])
		}
	}
	return refused, served, nil
}

func TestNamedTarget(t *testing.T) {
	pand.Init()
	r := vf.Start(t, "C19")
	vf.Check(r, genNamed, checkNamed)
}
