package c19

import (
	"bytes"
	"context"
	"errors"
	"fmt"
	"strings"
	"sync"
	"testing"
	"time"

	"verif/harness/internal/pand"
	"verif/harness/internal/target"
	"verif/harness/internal/vf"

	"github.com/yandex/pandora/core/engine"
	"pgregory.net/rapid"
)

// ---------------- http2 and http2/scenario guns against a TLS target that speaks h2 ----------------
//
// The target's script can fail individual TLS handshakes (three kinds of TLS alert, or a dropped connection) and
// answer individual requests badly (any status, empty / 3 MB body, stream reset before or after the headers, the
// whole connection killed, a stall past the response timeout, a body shorter than its Content-Length). None of that
// is the documented fatal condition of the http2 guns ("target doesn't support HTTP/2"), so the run must go on.

// The response timeout of the http2 guns: a TLS handshake per connection makes a well-behaved exchange slower than on
// the plain target, so the client-side timeout is kept further away from it.
const h2TimeoutMs = 400

var h2Timeout = fmt.Sprintf("%dms", h2TimeoutMs)

var h2MisKinds = []string{"status", "empty", "huge", "abort", "abort_mid", "kill_conn", "stall", "short_body"}

func genH2Beh(t *rapid.T, good, connFaults bool) Beh {
	if good {
		return Beh{Kind: "ok"}
	}
	b := Beh{Kind: rapid.SampledFrom(h2MisKinds).Draw(t, "kind")}
	if b.Kind == "kill_conn" && !connFaults {
		b.Kind = "abort"
	}
	if b.Kind == "status" {
		b.Status = rapid.IntRange(200, 599).Draw(t, "status")
		b.Body = rapid.SampledFrom([]string{"", "x", "{not json", "<html><div", "null"}).Draw(t, "body")
	}
	if (b.Kind == "short_body" || b.Kind == "huge") && rapid.IntRange(0, 2).Draw(t, "announcesFarMore") == 0 {
		b = announceBeh(t)
	}
	return b
}

func genHs(t *rapid.T, failOneIn int) string {
	if rapid.IntRange(0, failOneIn-1).Draw(t, "hsFail") != 0 {
		return target.HsOK
	}
	return rapid.SampledFrom([]string{target.HsInternalError, target.HsUnrecognizedName, target.HsProtocolVersion, target.HsClose}).Draw(t, "hsKind")
}

func (b Beh) h2resp() target.H2Resp {
	switch b.Kind {
	case "ok", "status", "empty":
		return target.H2Resp{Resp: b.resp()}
	case "stall":
		return target.H2Resp{Resp: target.Resp{Status: 200, DelayMs: 3 * h2TimeoutMs, Body: []byte("late")}}
	case "huge":
		return target.H2Resp{Resp: target.Resp{Status: 200, Body: bytes.Repeat([]byte("0123456789abcdef"), 200_000)}}
	case "abort":
		return target.H2Resp{AbortStream: true}
	case "abort_mid":
		return target.H2Resp{Resp: target.Resp{Status: 200}, AbortAfterHeaders: true}
	case "kill_conn":
		return target.H2Resp{KillConn: true}
	case "short_body":
		return target.H2Resp{Resp: target.Resp{Status: 200, Body: []byte("short")}, DeclaredLen: 50}
	case "announce":
		// a GET gets the first bytes of the body and the end of the stream, a HEAD (legally) the headers only
		return target.H2Resp{Resp: target.Resp{Status: 200, Body: []byte(`{"key": "va`),
			Header: map[string]string{"Content-Type": "application/json", "X-Token": goodToken}}, DeclaredLen: int(b.Len)}
	}
	return target.H2Resp{Resp: target.Resp{Status: 200, Body: []byte("ok")}}
}

func isAlert(hs string) bool {
	return hs == target.HsInternalError || hs == target.HsUnrecognizedName || hs == target.HsProtocolVersion
}

// runPoolErr is runPool that hands the result of Engine.Run to the caller.
func runPoolErr(pool map[string]any) (runErr error, err error) {
	var conf engine.Config
	if err := pand.Decode(map[string]any{"pools": []any{pool}}, &conf); err != nil {
		return nil, fmt.Errorf("valid pool config rejected: %v", err)
	}
	eng := engine.New(pand.NopLog(), pand.Metrics(), conf)
	ok, stacks := vf.Deadline(90*time.Second, func() { runErr = eng.Run(context.Background()) })
	if !ok {
		return nil, fmt.Errorf("run did not finish in 90s\n%s", stacks)
	}
	eng.Wait()
	return runErr, nil
}

type H2Case struct {
	Behs       []Beh    `json:"behaviours"` // one per ammo entry, in file order
	Handshakes []string `json:"handshakes"` // outcome of the k-th TLS handshake the target sees ("" = succeeds; later ones succeed)
	Instances  int      `json:"instances"`
	KeepAlive  bool     `json:"keep_alive"`
	Shared     bool     `json:"shared_client"`
	NoH2       bool     `json:"target_without_h2"` // the documented fatal condition
	// gun option `redirect: true` (see Redir; every Location stays on the https target: a redirect of an http2 gun to
	// an http:// URL ends in the documented fatal condition)
	Redirect bool `json:"redirect,omitempty"`
	// gun option `httptrace` (see HTTPTrace)
	HTTPTrace HTTPTrace `json:"httptrace"`
}

func genH2(t *rapid.T) H2Case {
	c := H2Case{}
	n := rapid.IntRange(2, 8).Draw(t, "entries")
	c.Instances = rapid.IntRange(1, 3).Draw(t, "instances")
	c.KeepAlive = rapid.Bool().Draw(t, "keepAlive")
	c.Shared = rapid.IntRange(0, 2).Draw(t, "shared") == 0
	c.NoH2 = rapid.IntRange(0, 11).Draw(t, "noH2") == 0
	// a killed connection takes every stream on it along: only when no other instance can have a request on it
	connFaults := c.Instances == 1 || !c.Shared
	for i := 0; i < n; i++ {
		good := i == n-1 || rapid.IntRange(0, 2).Draw(t, "good") == 0
		c.Behs = append(c.Behs, genH2Beh(t, good, connFaults))
	}
	if !c.NoH2 {
		c.Redirect = rapid.IntRange(0, 2).Draw(t, "redirectOption") == 0
		oneIn := 8
		if c.Redirect {
			oneIn = 2
		}
		redirected := false
		for i := 0; i < n-1; i++ {
			if rapid.IntRange(0, oneIn-1).Draw(t, "redirected") == 0 {
				c.Behs[i].Redir = genRedir(t)
				redirected = true
			}
		}
		// a failing handshake could hit a follow-up request in the middle of a followed chain (with keep-alives off
		// each of them needs a connection), which would make a well-answered entry fail: not combined
		for k := 0; k < n-1 && !(c.Redirect && redirected); k++ {
			c.Handshakes = append(c.Handshakes, genHs(t, 3))
		}
	}
	c.HTTPTrace = genHTTPTrace(t)
	return c
}

func clean(l line) bool { return l.proto == 200 && l.net == 0 }

const netTimeout = 110 // phout net code of a client-side timeout

// timeoutSuspect marks a failure whose only symptom is a client-side timeout (400 ms for the response, 1 s for the
// TLS handshake) on an exchange the target handled well. Every connection of these tests costs a TLS handshake, and on
// a busy machine a single goroutine can be kept waiting that long without vf's load probe noticing.
type timeoutSuspect struct{ error }

func (e *timeoutSuspect) Unwrap() error { return e.error }

func suspectIfTimeout(l line, err error) error {
	if l.net == netTimeout {
		return &timeoutSuspect{err}
	}
	return err
}

// timeoutsMustRepeat reports a timeoutSuspect failure only when the case fails three evaluations in a row: a gun that
// is really stuck after a fault times out every time. A case that passed the whole oracle on a repetition is counted
// under class timeout_not_reproduced.
func timeoutsMustRepeat[C any](prop func(C, *vf.Obs) error) func(C, *vf.Obs) error {
	return func(c C, o *vf.Obs) error {
		err := prop(c, o)
		var ts *timeoutSuspect
		for again := 0; again < 2 && errors.As(err, &ts); again++ {
			time.Sleep(100 * time.Millisecond)
			o2 := &vf.Obs{}
			err = prop(c, o2)
			*o = *o2
			if err == nil {
				o.Class("timeout_not_reproduced")
			}
		}
		return err
	}
}

func checkH2(c H2Case, o *vf.Obs) error {
	tg, mu := target.SharedH2(!c.NoH2)
	mu.Lock()
	defer mu.Unlock()
	watch := newRedirWatch()
	var hmu sync.Mutex
	hsAt := map[int]int{} // entry -> index of the handshake of the connection the entry's request arrived on
	tg.Reset(func(k int) string {
		if k < len(c.Handshakes) {
			return c.Handshakes[k]
		}
		return target.HsOK
	}, func(seq int, r *target.Rec, hs int) target.H2Resp {
		i := entryIndex(r.RequestURI)
		if i < 0 || i >= len(c.Behs) {
			return target.H2Resp{Resp: target.Resp{Status: 500}}
		}
		hmu.Lock()
		hsAt[i] = hs
		hmu.Unlock()
		if !watch.seen(i) {
			return Beh{Kind: "ok"}.h2resp()
		}
		if resp, ok := c.Behs[i].Redir.answer(fmt.Sprintf("/e%d", i), r.RequestURI, "https", tg.Addr()); ok {
			return target.H2Resp{Resp: resp}
		}
		return c.Behs[i].h2resp()
	})
	defer tg.Reset(nil, nil)
	var sb strings.Builder
	for i := range c.Behs {
		fmt.Fprintf(&sb, "/e%d t%d\n", i, i)
	}
	name := pand.WriteFile("c19h2", ".ammo", []byte(sb.String()))
	defer pand.Remove(name)
	out := pand.TempName("c19h2", ".phout")
	defer pand.Remove(out)
	gun := map[string]any{"type": "http2", "target": tg.Addr(), "response-header-timeout": h2Timeout, "disable-keep-alives": !c.KeepAlive,
		"redirect": c.Redirect}
	c.HTTPTrace.apply(gun)
	if c.Shared {
		gun["shared-client"] = map[string]any{"enabled": true, "client-number": 1}
	}
	pool := map[string]any{
		"id":      "p",
		"gun":     gun,
		"ammo":    map[string]any{"type": "uri", "file": name, "passes": 1},
		"result":  map[string]any{"type": "phout", "destination": out},
		"rps":     map[string]any{"type": "once", "times": len(c.Behs) + 5},
		"startup": map[string]any{"type": "once", "times": c.Instances},
	}
	runErr, err := runPoolWatched(pool, watch)
	var hung *runawayErr
	if errors.As(err, &hung) {
		return &runawayErr{why: fmt.Sprintf("%v (http2 gun, redirect %v, behaviours %s)", err, c.Redirect, behsString(c.Behs)), stacks: hung.stacks}
	}
	if err != nil {
		return err
	}
	if c.NoH2 {
		// "may stop a run": either the documented stop, or a run that accounts for every request
		o.Class("target_without_h2")
		if runErr != nil {
			if !strings.Contains(runErr.Error(), "HTTP/2") {
				return fmt.Errorf("run against a target without HTTP/2 stopped with something else than the documented condition: %v", runErr)
			}
			o.Class("documented_fatal_stop")
			o.NonTrivial()
			return nil
		}
	} else if runErr != nil {
		return fmt.Errorf("the target speaks HTTP/2, yet the run was aborted: %v (httptrace %+v, handshakes %q, behaviours %+v)", runErr, c.HTTPTrace, tg.Handshakes(), c.Behs)
	}
	lines, data, err := readPhout(out)
	if err != nil {
		return err
	}
	if len(lines) != len(c.Behs) {
		return fmt.Errorf("%d samples for %d requests (handshakes %q)\n%s", len(lines), len(c.Behs), tg.Handshakes(), data)
	}
	byTag := map[string]line{}
	for _, l := range lines {
		byTag[l.tag] = l
	}
	recs := tg.Records()
	hss := tg.Handshakes()
	seen := map[int]bool{}
	for _, r := range recs {
		if r.Proto != "HTTP/2.0" && !c.NoH2 {
			return fmt.Errorf("harness: the h2 target served a %s request", r.Proto)
		}
		seen[entryIndex(r.RequestURI)] = true
	}
	failedHs := 0
	hsKinds := map[string]bool{}
	for _, h := range hss {
		if h != target.HsOK {
			failedHs++
			o.ClassIf(!hsKinds[h], "hs_"+h) // once per case
			hsKinds[h] = true
		}
	}
	notSeen, mis, goodAfterBad, unseenTimeout := 0, 0, false, false
	rs := redirSeen{}
	for i, b := range c.Behs {
		l, ok := byTag[fmt.Sprintf("t%d", i)]
		if !ok {
			return fmt.Errorf("no sample for request %d (%s)\n%s", i, b.Kind, data)
		}
		if !seen[i] {
			notSeen++
			unseenTimeout = unseenTimeout || l.net == netTimeout
			if clean(l) {
				return fmt.Errorf("request %d never reached the target (handshakes %q) but its sample is a clean 200\n%s", i, hss, data)
			}
			continue
		}
		if done, err := judgeRedirected(b.Redir, c.Redirect, l, fmt.Sprintf("request %d", i), false, rs); err != nil {
			return suspectIfTimeout(l, fmt.Errorf("%v (http2 gun, %d requests seen by the target for it; behaviours %s, %d instances, shared client %v, keep-alive %v)\n%s",
				err, watch.count(i), behsString(c.Behs), c.Instances, c.Shared, c.KeepAlive, data))
		} else if done {
			mis++
			continue
		}
		if b.Kind == "ok" {
			if !clean(l) {
				return suspectIfTimeout(l, fmt.Errorf("request %d got a well-behaved 200 response over HTTP/2 but its sample says proto=%d net=%d (handshakes %q, behaviours %+v, %d instances, shared client %v, keep-alive %v)",
					i, l.proto, l.net, hss, c.Behs, c.Instances, c.Shared, c.KeepAlive))
			}
			if mis > 0 || failedHs > 0 {
				goodAfterBad = true
			}
		} else {
			mis++
			o.Class("h2_mis_" + b.Kind)
			if b.Kind == "status" && l.proto != b.Status {
				return fmt.Errorf("request %d answered with status %d, sample says %d", i, b.Status, l.proto)
			}
		}
	}
	if notSeen > failedHs {
		err := fmt.Errorf("%d requests never reached the target although only %d handshakes failed: the instances did not go on with the next ammo (handshakes %q)\n%s", notSeen, failedHs, hss, data)
		if unseenTimeout {
			return &timeoutSuspect{err}
		}
		return err
	}
	goodAfterAlert := false
	hmu.Lock()
	for i, nhs := range hsAt {
		if c.Behs[i].Kind != "ok" {
			continue
		}
		for _, h := range hss[:max(0, min(nhs, len(hss)))] {
			goodAfterAlert = goodAfterAlert || isAlert(h)
		}
	}
	hmu.Unlock()
	o.ClassIf(goodAfterAlert, "h2_good_after_tls_alert")
	o.ClassIf(c.Instances >= 2, "h2_instances_ge_2")
	o.ClassIf(c.Shared, "h2_shared_client")
	o.ClassIf(c.KeepAlive, "h2_keep_alive")
	o.ClassIf(c.Redirect, "redirect_option_on")
	c.HTTPTrace.classes(o, lines)
	rs.classes(o, "http2_gun")
	if goodAfterBad {
		o.NonTrivial()
	}
	return nil
}

func TestHTTP2Gun(t *testing.T) {
	pand.Init()
	r := vf.Start(t, "C19")
	vf.Check(r, genH2, vf.LoadTolerant(25*time.Millisecond, timeoutsMustRepeat(hangsMustRepeat(checkH2))))
}

// ---------------- http2/scenario ----------------

// One instance, keep-alives off: every attempted step opens a connection of its own, so the k-th handshake the
// target sees belongs to the k-th attempted step of the run and (one sample per step) to the k-th sample.
type H2ScenCase struct {
	Steps      []Step   `json:"steps"`
	Shots      int      `json:"shots"`
	Handshakes []string `json:"handshakes"` // outcome of the handshake of the k-th attempted step
	Behs       []Beh    `json:"behaviours"` // answer to the k-th attempted step, if its handshake succeeds
	// gun option `httptrace` (see HTTPTrace)
	HTTPTrace HTTPTrace `json:"httptrace"`
}

func genH2Scen(t *rapid.T) H2ScenCase {
	c := H2ScenCase{}
	k := rapid.IntRange(1, 3).Draw(t, "steps")
	for i := 0; i < k; i++ {
		c.Steps = append(c.Steps, genStep(t))
	}
	c.Shots = rapid.IntRange(2, 5).Draw(t, "shots")
	total := k * c.Shots
	for a := 0; a < total; a++ {
		hs, b := target.HsOK, Beh{Kind: "ok"}
		if a < total-k {
			switch rapid.IntRange(0, 5).Draw(t, "fault") {
			case 0:
				hs = genHs(t, 1)
			case 1:
				b = genH2ScenBeh(t)
				// (as long as no invocation is cut short, attempt a is step a mod k)
				if c.Steps[a%k].Method == "HEAD" && rapid.IntRange(0, 1).Draw(t, "headOfHuge") == 0 {
					b = announceBeh(t) // the HEAD step asks about a huge resource
				}
			case 2:
				if c.Steps[a%k].Method == "HEAD" {
					b = announceBeh(t)
				}
			}
		}
		c.Handshakes = append(c.Handshakes, hs)
		c.Behs = append(c.Behs, b)
	}
	c.HTTPTrace = genHTTPTrace(t)
	return c
}

func genH2ScenBeh(t *rapid.T) Beh {
	switch rapid.IntRange(0, 8).Draw(t, "scenBeh") {
	case 0:
		return Beh{Kind: "ok", Body: "{this is not json"}
	case 1:
		return Beh{Kind: "ok", Body: "<html><div class='data'><unclosed"}
	case 2:
		return Beh{Kind: "ok", Header: map[string]string{"X-Token": rapid.StringOfN(rapid.RuneFrom([]rune("abcXYZ019")), 0, 8, -1).Draw(t, "shortToken")}}
	case 3:
		return Beh{Kind: "ok", Body: `{"other": 1}`, Header: map[string]string{"Content-Type": "text/plain"}}
	case 8:
		return Beh{Kind: "ok", Prices: genPrices(t)} // a catalogue page (for var/xpath steps with generated expressions)
	default:
		if rapid.Bool().Draw(t, "announcesFarMore") {
			return announceBeh(t)
		}
		return genH2Beh(t, false, true)
	}
}

func goodBeh(b Beh) bool { return b.Kind == "ok" && b.Body == "" && len(b.Header) == 0 && len(b.Prices) == 0 }

func checkH2Scen(c H2ScenCase, o *vf.Obs) error {
	tg, mu := target.SharedH2(true)
	mu.Lock()
	defer mu.Unlock()
	tg.Reset(func(k int) string {
		if k < len(c.Handshakes) {
			return c.Handshakes[k]
		}
		return target.HsOK
	}, func(seq int, r *target.Rec, hs int) target.H2Resp {
		a := hs // keep-alives are off: the connection's handshake index is the attempt index
		if a < 0 || a >= len(c.Behs) {
			return Beh{Kind: "ok"}.h2resp()
		}
		return c.Behs[a].h2resp()
	})
	defer tg.Reset(nil, nil)
	yaml := scenarioYAML(ScenCase{Steps: c.Steps})
	name := pand.WriteFile("c19h2s", ".yaml", []byte(yaml))
	defer pand.Remove(name)
	out := pand.TempName("c19h2s", ".phout")
	defer pand.Remove(out)
	gun := map[string]any{"type": "http2/scenario", "target": tg.Addr(), "response-header-timeout": h2Timeout, "disable-keep-alives": true}
	c.HTTPTrace.apply(gun)
	pool := map[string]any{
		"id":      "p",
		"gun":     gun,
		"ammo":    map[string]any{"type": "http/scenario", "file": name, "limit": c.Shots},
		"result":  map[string]any{"type": "phout", "destination": out},
		"rps":     map[string]any{"type": "once", "times": c.Shots + 5},
		"startup": map[string]any{"type": "once", "times": 1},
	}
	runErr, err := runPoolErr(pool)
	if err != nil {
		return err
	}
	hss := tg.Handshakes()
	if runErr != nil {
		return fmt.Errorf("the target speaks HTTP/2, yet the run was aborted: %v (httptrace %+v, handshakes %q, behaviours %+v)\n%s", runErr, c.HTTPTrace, hss, c.Behs, yaml)
	}
	lines, data, err := readPhout(out)
	if err != nil {
		return err
	}
	if len(lines) != len(hss) {
		return fmt.Errorf("the target saw %d connection attempts (one per attempted step, keep-alives are off) but %d samples were reported (handshakes %q)\n%s\n%s",
			len(hss), len(lines), hss, data, yaml)
	}
	good := func(a int) bool {
		return a < len(c.Behs) && c.Handshakes[a] == target.HsOK && goodBeh(c.Behs[a])
	}
	var groups [][]int // sample indices per invocation
	for n, l := range lines {
		if strings.HasPrefix(l.tag, "sc.s0") || len(groups) == 0 {
			groups = append(groups, nil)
		}
		groups[len(groups)-1] = append(groups[len(groups)-1], n)
	}
	if len(groups) != c.Shots {
		return fmt.Errorf("%d scenario invocations left samples, %d were shot\n%s\n%s", len(groups), c.Shots, data, yaml)
	}
	bad, goodAfterBad, goodAfterAlert, alertSeen := 0, false, false, false
	hsKinds := map[string]bool{}
	for j, g := range groups {
		if len(g) > len(c.Steps) {
			return fmt.Errorf("invocation %d left %d samples for %d steps\n%s", j, len(g), len(c.Steps), data)
		}
		allGood := true
		for i, n := range g {
			l := lines[n]
			wantTag := fmt.Sprintf("sc.s%d", i)
			if !(l.tag == wantTag || strings.HasPrefix(l.tag, wantTag+"|")) {
				return fmt.Errorf("invocation %d sample %d is tagged %q, expected the scenario and step name %q\n%s", j, i, l.tag, wantTag, data)
			}
			// a HEAD step answered with the size of a huge resource got a legal, well-behaved answer
			legalHead := n < len(c.Behs) && c.Handshakes[n] == target.HsOK && headAnnounce(c.Steps[i], c.Behs[n])
			if legalHead {
				o.Class("head_announces_huge_on_" + c.Steps[i].Post)
				o.ClassIf(c.Steps[i].Post != "none", "head_announces_huge_postprocessed")
			}
			switch {
			case good(n) || legalHead:
				if !clean(l) {
					return suspectIfTimeout(l, fmt.Errorf("attempted step %d (invocation %d step %d) got a well-behaved 200 response over HTTP/2 but its sample says proto=%d net=%d (handshakes %q)\n%s\n%s",
						n, j, i, l.proto, l.net, hss, data, yaml))
				}
				if bad > 0 {
					goodAfterBad = true
				}
				if alertSeen {
					goodAfterAlert = true
				}
			case n < len(c.Handshakes) && c.Handshakes[n] != target.HsOK:
				allGood = false
				bad++
				o.ClassIf(!hsKinds[c.Handshakes[n]], "hs_"+c.Handshakes[n]) // once per case
				hsKinds[c.Handshakes[n]] = true
				alertSeen = alertSeen || isAlert(c.Handshakes[n])
				if clean(l) {
					return fmt.Errorf("attempted step %d never reached the target (handshake %s) but its sample is a clean 200\n%s", n, c.Handshakes[n], data)
				}
			default:
				allGood = false
				bad++
				if n < len(c.Behs) {
					o.Class("h2_mis_" + c.Behs[n].Kind + "_on_" + c.Steps[i].Post)
					if c.Behs[n].Kind == "announce" {
						o.ClassIf(c.Steps[i].Post != "none", "lying_length_postprocessed")
						o.ClassIf(c.Steps[i].Post != "none" && unallocatable(c.Behs[n].Len), "lying_length_unallocatable_postprocessed")
					}
				}
			}
		}
		if allGood && len(g) != len(c.Steps) {
			return fmt.Errorf("invocation %d met only well-behaved responses but left %d samples for %d steps\n%s\n%s", j, len(g), len(c.Steps), data, yaml)
		}
	}
	for _, st := range c.Steps {
		o.Class("post_" + st.Post)
		o.ClassIf(st.Method == "HEAD", "head_step")
	}
	o.ClassIf(goodAfterAlert, "h2_good_after_tls_alert")
	c.HTTPTrace.classes(o, lines)
	if goodAfterBad {
		o.NonTrivial()
	}
	return nil
}

func TestHTTP2ScenarioGun(t *testing.T) {
	pand.Init()
	r := vf.Start(t, "C19")
	vf.Check(r, genH2Scen, vf.LoadTolerant(25*time.Millisecond, timeoutsMustRepeat(checkH2Scen)))
}
