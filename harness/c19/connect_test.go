package c19

import (
	"bufio"
	"context"
	"errors"
	"fmt"
	"io"
	"net"
	"net/http"
	"strings"
	"sync"
	"testing"
	"time"

	"verif/harness/internal/pand"
	"verif/harness/internal/target"
	"verif/harness/internal/vf"

	"github.com/yandex/pandora/core/engine"
	"pgregory.net/rapid"
)

// ---------------- connect gun behind a proxy that refuses individual CONNECTs ----------------
//
// The connect gun reaches its target through a CONNECT tunnel. The proxy in front of the target is scripted per
// CONNECT request: it opens the tunnel (200, bytes are spliced to the recording target) or answers like a real proxy
// / balancer in trouble: a non-2xx status with an error page that is complete, cut short (less than the announced
// Content-Length, a chunked body without its end) or absent, after which it closes the connection or keeps it open
// (a stuck balancer, a tarpit). A refused CONNECT is a failed dial: the request it was made for must end as a failure
// sample and the instance must go on.

// CAns is the proxy's answer to one CONNECT request.
type CAns struct {
	Status int `json:"status"` // 200 = tunnel
	// none | length | chunked : how the error page is announced. "silent": the proxy accepts the CONNECT and sends
	// Sent (0 = nothing) incomplete header blocks; the dial timeout has to end that wait (finding
	// connect-gun-silent-proxy-blocks-forever, repaired).
	Framing   string `json:"framing"`
	Declared  int    `json:"declared"`        // announced body size (length) / size of the chunks sent (chunked)
	Sent      int    `json:"sent"`            // bytes of the page really delivered (<= Declared)
	EndChunk  bool   `json:"end_chunk"`       // chunked: the terminating 0-chunk is sent
	Hold      bool   `json:"hold_connection"` // the connection stays open after what was sent (until the case ends)
	ConnClose bool   `json:"connection_close_header"`
}

func (a CAns) ok() bool { return a.Status == 200 }

// truncated: the answer announces more body than it delivers
func (a CAns) truncated() bool {
	switch a.Framing {
	case "length":
		return a.Sent < a.Declared
	case "chunked":
		return !a.EndChunk
	}
	return false
}

type ConnectCase struct {
	Entries   int    `json:"entries"`
	Connects  []CAns `json:"connect_answers"` // answer to the k-th CONNECT the proxy sees (later ones: tunnel)
	Instances int    `json:"instances"`
	KeepAlive bool   `json:"keep_alive"`
	// gun option `httptrace` (see HTTPTrace)
	HTTPTrace HTTPTrace `json:"httptrace"`
}

func genCAns(t *rapid.T) CAns {
	a := CAns{Status: rapid.SampledFrom([]int{301, 400, 403, 404, 407, 429, 500, 502, 503, 504, 599}).Draw(t, "status")}
	a.Framing = rapid.SampledFrom([]string{"none", "length", "length", "chunked", "silent"}).Draw(t, "framing")
	switch a.Framing {
	case "silent":
		a.Sent = rapid.IntRange(0, 2).Draw(t, "sent")
	case "length":
		a.Declared = rapid.SampledFrom([]int{0, 1, 33, 512, 4096, 70000}).Draw(t, "declared")
		switch rapid.IntRange(0, 2).Draw(t, "sentClass") {
		case 0:
			a.Sent = a.Declared
		case 1:
			a.Sent = 0
		default:
			a.Sent = rapid.IntRange(0, a.Declared).Draw(t, "sent")
		}
	case "chunked":
		a.Declared = rapid.SampledFrom([]int{1, 33, 4096}).Draw(t, "declared")
		a.Sent = a.Declared
		a.EndChunk = rapid.Bool().Draw(t, "endChunk")
	}
	a.Hold = rapid.IntRange(0, 2).Draw(t, "hold") != 0
	a.ConnClose = rapid.IntRange(0, 3).Draw(t, "connClose") == 0
	return a
}

func genConnect(t *rapid.T) ConnectCase {
	c := ConnectCase{Entries: rapid.IntRange(2, 7).Draw(t, "entries")}
	c.Instances = rapid.IntRange(1, 2).Draw(t, "instances")
	c.KeepAlive = rapid.IntRange(0, 2).Draw(t, "keepAlive") == 0
	// every CONNECT is made for one request; the last request's CONNECT (if it needs one) succeeds
	for k := 0; k < c.Entries-1; k++ {
		if rapid.IntRange(0, 1).Draw(t, "refuse") == 0 {
			c.Connects = append(c.Connects, genCAns(t))
		} else {
			c.Connects = append(c.Connects, CAns{Status: 200})
		}
	}
	c.HTTPTrace = genHTTPTrace(t)
	return c
}

// connectProxy is a scripted CONNECT proxy in front of backend.
type connectProxy struct {
	ln      net.Listener
	backend string
	script  func(k int) CAns

	mu      sync.Mutex
	seen    []CAns // answers given, in order
	release chan struct{}
	once    sync.Once
	wg      sync.WaitGroup
	errs    vf.ErrSink
}

func newConnectProxy(backend string, script func(k int) CAns) (*connectProxy, error) {
	ln, err := net.Listen("tcp", "127.0.0.1:0")
	if err != nil {
		return nil, err
	}
	p := &connectProxy{ln: ln, backend: backend, script: script, release: make(chan struct{})}
	vf.GoErr(&p.wg, &p.errs, func() {
		for {
			c, err := ln.Accept()
			if err != nil {
				return
			}
			vf.GoErr(&p.wg, &p.errs, func() { p.serve(c) })
		}
	})
	return p, nil
}

func (p *connectProxy) Addr() string { return p.ln.Addr().String() }

func (p *connectProxy) Answers() []CAns {
	p.mu.Lock()
	defer p.mu.Unlock()
	return append([]CAns(nil), p.seen...)
}

// Release lets go of every connection that is being held open.
func (p *connectProxy) Release() { p.once.Do(func() { close(p.release) }) }

func (p *connectProxy) Close() {
	p.Release()
	_ = p.ln.Close()
	p.wg.Wait()
}

func (p *connectProxy) serve(c net.Conn) {
	defer c.Close()
	// whatever happens, nothing of this connection outlives the case
	stop := make(chan struct{})
	defer close(stop)
	go func() {
		select {
		case <-p.release:
			_ = c.Close()
		case <-stop:
		}
	}()
	br := bufio.NewReader(c)
	req, err := http.ReadRequest(br)
	if err != nil {
		return
	}
	if req.Method != http.MethodConnect {
		_, _ = io.WriteString(c, "HTTP/1.1 405 Method Not Allowed\r\nContent-Length: 0\r\nConnection: close\r\n\r\n")
		return
	}
	p.mu.Lock()
	k := len(p.seen)
	a := p.script(k)
	p.seen = append(p.seen, a)
	p.mu.Unlock()
	if a.ok() {
		b, err := net.Dial("tcp", p.backend)
		if err != nil {
			_, _ = io.WriteString(c, "HTTP/1.1 502 Bad Gateway\r\nContent-Length: 0\r\nConnection: close\r\n\r\n")
			return
		}
		defer b.Close()
		if _, err = io.WriteString(c, "HTTP/1.1 200 Connection established\r\n\r\n"); err != nil {
			return
		}
		done := make(chan struct{}, 2)
		go func() { _, _ = io.Copy(b, br); _ = b.(*net.TCPConn).CloseWrite(); done <- struct{}{} }()
		go func() { _, _ = io.Copy(c, b); _ = c.(*net.TCPConn).CloseWrite(); done <- struct{}{} }()
		<-done
		<-done
		return
	}
	if a.Framing == "silent" {
		// the proxy accepts the CONNECT and says nothing (or not the whole header block)
		_, _ = io.WriteString(c, strings.Repeat("HTTP/1.1 503 Service Unavailable\r\nContent-Type: text/html\r\n", a.Sent))
		if a.Hold {
			_, _ = io.Copy(io.Discard, br)
		}
		return
	}
	var sb strings.Builder
	fmt.Fprintf(&sb, "HTTP/1.1 %d %s\r\nContent-Type: text/html\r\n", a.Status, http.StatusText(a.Status))
	if a.ConnClose {
		sb.WriteString("Connection: close\r\n")
	}
	page := strings.Repeat("<p>upstream unavailable</p>\n", a.Declared/28+1)
	switch a.Framing {
	case "length":
		fmt.Fprintf(&sb, "Content-Length: %d\r\n\r\n%s", a.Declared, page[:a.Sent])
	case "chunked":
		fmt.Fprintf(&sb, "Transfer-Encoding: chunked\r\n\r\n%x\r\n%s\r\n", a.Sent, page[:a.Sent])
		if a.EndChunk {
			sb.WriteString("0\r\n\r\n")
		}
	default:
		sb.WriteString("\r\n")
	}
	if _, err = io.WriteString(c, sb.String()); err != nil {
		return
	}
	if a.Hold {
		// keep the connection open until the client gives it up (or the case ends)
		_, _ = io.Copy(io.Discard, br)
	}
}

// A run against the proxy normally takes some milliseconds. It is given up as blocked when for 10 s neither the proxy
// saw a new CONNECT nor the target a new request (and at the latest after 90 s).
const connectStandstill = 10 * time.Second

// hangErr: the run stood still. No machine load explains that (the threshold is a thousand times the normal duration
// of a whole run), so vf.LoadTolerant is not asked about it.
type hangErr struct{ error }

func (e *hangErr) Unwrap() error { return e.error }

// hangsAreFinal is vf.LoadTolerant for everything but a hangErr, which is reported as it is.
func hangsAreFinal[C any](prop func(C, *vf.Obs) error) func(C, *vf.Obs) error {
	return func(c C, o *vf.Obs) error {
		var hang error
		err := vf.LoadTolerant(25*time.Millisecond, func(c C, o2 *vf.Obs) error {
			e := prop(c, o2)
			var h *hangErr
			if errors.As(e, &h) {
				hang = e
				return nil
			}
			return e
		})(c, o)
		if hang != nil {
			return hang
		}
		return err
	}
}

func checkConnect(c ConnectCase, o *vf.Obs) error {
	tg, mu := target.Shared(false)
	mu.Lock()
	defer mu.Unlock()
	tg.Reset(func(seq int, r *target.Rec) target.Resp { return Beh{Kind: "ok"}.resp() })
	px, err := newConnectProxy(tg.Addr(), func(k int) CAns {
		if k < len(c.Connects) {
			return c.Connects[k]
		}
		return CAns{Status: 200}
	})
	if err != nil {
		return fmt.Errorf("harness: %v", err)
	}
	defer px.Close()
	var sb strings.Builder
	for i := 0; i < c.Entries; i++ {
		fmt.Fprintf(&sb, "/e%d t%d\n", i, i)
	}
	name := pand.WriteFile("c19c", ".ammo", []byte(sb.String()))
	defer pand.Remove(name)
	out := pand.TempName("c19c", ".phout")
	defer pand.Remove(out)
	gun := map[string]any{"type": "connect", "target": px.Addr(), "response-header-timeout": "400ms",
		"dial": map[string]any{"timeout": "400ms"}, "disable-keep-alives": !c.KeepAlive}
	c.HTTPTrace.apply(gun)
	pool := map[string]any{
		"id":      "p",
		"gun":     gun,
		"ammo":    map[string]any{"type": "uri", "file": name, "passes": 1},
		"result":  map[string]any{"type": "phout", "destination": out},
		"rps":     map[string]any{"type": "once", "times": c.Entries + 5},
		"startup": map[string]any{"type": "once", "times": c.Instances},
	}
	var conf engine.Config
	if err := pand.Decode(map[string]any{"pools": []any{pool}}, &conf); err != nil {
		return fmt.Errorf("valid pool config rejected: %v", err)
	}
	eng := engine.New(pand.NopLog(), pand.Metrics(), conf)
	var runErr error
	finished := make(chan struct{})
	var sink vf.ErrSink
	vf.GoErr(nil, &sink, func() {
		defer close(finished)
		runErr = eng.Run(context.Background())
		eng.Wait()
	})
	started, lastProgress, progress := time.Now(), time.Now(), 0
	tick := time.NewTicker(250 * time.Millisecond)
	defer tick.Stop()
wait:
	for {
		select {
		case <-finished:
			break wait
		case <-tick.C:
		}
		if p := len(px.Answers()) + len(tg.Records()); p != progress {
			progress, lastProgress = p, time.Now()
		}
		if time.Since(lastProgress) < connectStandstill && time.Since(started) < 90*time.Second {
			continue
		}
		answers := px.Answers()
		reached := len(tg.Records())
		// let go of the held connections so that the blocked run can end before the next case
		px.Release()
		select {
		case <-finished:
		case <-time.After(20 * time.Second):
		}
		return &hangErr{fmt.Errorf("the run stands still (nothing new at the proxy or the target for %v): an instance is blocked; the proxy answered %d CONNECTs: %+v; %d of %d requests reached the target",
			connectStandstill, len(answers), answers, reached, c.Entries)}
	}
	if err := sink.Get(); err != nil {
		return err
	}
	if runErr != nil {
		return fmt.Errorf("the run was aborted: %v (httptrace %+v, CONNECT answers %+v)", runErr, c.HTTPTrace, px.Answers())
	}
	lines, data, err := readPhout(out)
	if err != nil {
		return err
	}
	answers := px.Answers()
	if len(lines) != c.Entries {
		return fmt.Errorf("%d samples for %d requests (CONNECT answers %+v)\n%s", len(lines), c.Entries, answers, data)
	}
	byTag := map[string]line{}
	for _, l := range lines {
		byTag[l.tag] = l
	}
	reached := map[int]bool{}
	for _, r := range tg.Records() {
		reached[entryIndex(r.RequestURI)] = true
	}
	refusedConnects := 0
	for _, a := range answers {
		if a.ok() {
			continue
		}
		refusedConnects++
		o.Class("connect_refused_" + a.Framing)
		o.ClassIf(a.truncated(), "connect_refused_body_truncated")
		o.ClassIf(a.truncated() && a.Hold, "connect_refused_body_truncated_conn_open")
		o.ClassIf(a.truncated() && a.Hold && !a.ConnClose, "connect_refused_body_truncated_conn_open_no_close_header")
		o.ClassIf(!a.truncated() && a.Hold, "connect_refused_complete_conn_open")
	}
	notReached, goodAfterRefusal := 0, false
	for i := 0; i < c.Entries; i++ {
		l, ok := byTag[fmt.Sprintf("t%d", i)]
		if !ok {
			return fmt.Errorf("no sample for request %d\n%s", i, data)
		}
		if !reached[i] {
			notReached++
			if l.proto != 0 || l.net == 0 {
				return fmt.Errorf("request %d never reached the target (CONNECT answers %+v), but its sample says proto=%d net=%d, not a failure\n%s",
					i, answers, l.proto, l.net, data)
			}
			continue
		}
		if l.proto != 200 || l.net != 0 {
			return fmt.Errorf("request %d went through a tunnel and got a well-behaved 200 response but its sample says proto=%d net=%d (CONNECT answers %+v)\n%s",
				i, l.proto, l.net, answers, data)
		}
		if refusedConnects > 0 {
			goodAfterRefusal = true
		}
	}
	// a refused CONNECT fails the dial of exactly one request; nothing else keeps a request from the target
	if notReached > refusedConnects {
		return fmt.Errorf("%d requests never reached the target although the proxy refused only %d CONNECTs: %+v\n%s", notReached, refusedConnects, answers, data)
	}
	o.ClassIf(c.KeepAlive, "connect_keep_alive")
	o.ClassIf(c.Instances >= 2, "instances_ge_2")
	c.HTTPTrace.classes(o, lines)
	if refusedConnects > 0 && goodAfterRefusal {
		o.NonTrivial()
	}
	return nil
}

func TestConnectProxy(t *testing.T) {
	pand.Init()
	r := vf.Start(t, "C19")
	vf.Check(r, genConnect, hangsAreFinal(checkConnect))
}
