package c19

import (
	"context"
	"fmt"
	"strconv"
	"sync"
	"testing"
	"time"

	"verif/harness/internal/pand"
	"verif/harness/internal/target"
	"verif/harness/internal/vf"

	"github.com/yandex/pandora/core/engine"
	"google.golang.org/grpc/codes"
	"pgregory.net/rapid"
)

// ---------------- grpc guns with the default request timeout against a call that is never answered ----------------
//
// docs/eng/grpc-generator.md: "timeout: 15s  # Grpc request timeout. Default: 15s"; scenario-grpc-generator.md: the
// grpc/scenario gun takes the settings of the grpc gun. A gun configured without `timeout` (the minimal documented
// configuration: type + target) therefore gives up a call the target never answers after 15 s, reports it as a failed
// sample and goes on. Every case costs those 15 s of wall time, so the cases of a process run concurrently (vf.Batch),
// each run against a gRPC target of its own.

type GDefRun struct {
	Scenario  bool `json:"scenario_gun"`
	Calls     int  `json:"calls"`
	StallAt   int  `json:"never_answered_call"` // index of the call the target accepts and never answers
	Assert    bool `json:"assert_postprocessor,omitempty"`
	Instances int  `json:"instances"`
}

// GDefCase: one run of the grpc gun and one of the grpc/scenario gun, side by side.
type GDefCase struct {
	Runs []GDefRun `json:"runs"`
}

func genGDef(t *rapid.T) GDefCase {
	c := GDefCase{}
	for _, scen := range []bool{false, true} {
		r := GDefRun{Scenario: scen, Instances: 1}
		r.Calls = rapid.IntRange(2, 4).Draw(t, "calls")
		r.StallAt = rapid.IntRange(0, r.Calls-2).Draw(t, "neverAnswered") // at least one call is shot after it
		if scen {
			r.Assert = rapid.Bool().Draw(t, "assert")
		} else {
			r.Instances = rapid.IntRange(1, 2).Draw(t, "instances")
		}
		c.Runs = append(c.Runs, r)
	}
	return c
}

const (
	grpcDefaultTimeout = 15 * time.Second
	// the run must be over (every sample reported) that long after the target received the call it never answers:
	// the documented 15 s and 10 s of slack for a busy machine
	grpcBlockedAfter = 25 * time.Second
)

func (r GDefRun) String() string {
	g := "grpc"
	if r.Scenario {
		g = "grpc/scenario"
	}
	return fmt.Sprintf("%s gun without `timeout`, %d calls, call %d never answered, %d instance(s)", g, r.Calls, r.StallAt, r.Instances)
}

func checkGDefRun(r GDefRun, o *vf.Obs, omu *sync.Mutex) error {
	tg := target.NewGRPC()
	var closeOnce sync.Once
	closeTarget := func() { closeOnce.Do(tg.Close) }
	defer closeTarget()
	var smu sync.Mutex
	var stalledAt time.Time // arrival of the call that is never answered
	tg.ResetScript(func(call *target.GCall) target.GResp {
		resp := target.GResp{Code: codes.OK, Hello: "h", Token: "tok", UserID: 1, Items: []int64{1, 2}, OrderID: 1}
		v := call.MD.Get("x-entry")
		if len(v) == 1 && v[0] == strconv.Itoa(r.StallAt) {
			smu.Lock()
			if stalledAt.IsZero() {
				stalledAt = time.Now()
			}
			smu.Unlock()
			resp.DelayMs = 10 * 60 * 1000 // until the caller gives the call up (or the target is closed)
		}
		return resp
	})
	out := pand.TempName("c19gd", ".phout")
	defer pand.Remove(out)
	ammo, gunType, cleanup := grpcAmmo(r.Calls, r.Scenario, r.Assert)
	defer cleanup()
	pool := map[string]any{
		"id":      "p",
		"gun":     map[string]any{"type": gunType, "target": tg.Addr()}, // no `timeout`: the default applies
		"ammo":    ammo,
		"result":  map[string]any{"type": "phout", "destination": out},
		"rps":     map[string]any{"type": "once", "times": r.Calls + 5},
		"startup": map[string]any{"type": "once", "times": r.Instances},
	}
	var conf engine.Config
	if err := pand.Decode(map[string]any{"pools": []any{pool}}, &conf); err != nil {
		return fmt.Errorf("valid pool config rejected: %v", err)
	}
	eng := engine.New(pand.NopLog(), pand.Metrics(), conf)
	var runErr error
	finished := make(chan struct{})
	var sink vf.ErrSink
	started := time.Now()
	vf.GoErr(nil, &sink, func() {
		defer close(finished)
		runErr = eng.Run(context.Background())
		eng.Wait()
	})
	tick := time.NewTicker(100 * time.Millisecond)
	defer tick.Stop()
wait:
	for {
		select {
		case <-finished:
			break wait
		case <-tick.C:
		}
		smu.Lock()
		at := stalledAt
		smu.Unlock()
		blocked := !at.IsZero() && time.Since(at) > grpcBlockedAfter
		if !blocked && time.Since(started) < 90*time.Second {
			continue
		}
		seen := len(tg.Calls())
		// the target goes away: the pending call fails, the run can end before the process goes on
		closeTarget()
		select {
		case <-finished:
		case <-time.After(30 * time.Second):
		}
		if !blocked {
			return fmt.Errorf("%v: the run did not end within 90 s (the never answered call did not even arrive; the target saw %d calls)", r, seen)
		}
		return fmt.Errorf("%v: %v after the target received the call it never answers the run has not ended - the default request timeout of %v did not end the call, the instance is blocked (the target saw %d calls)",
			r, grpcBlockedAfter, grpcDefaultTimeout, seen)
	}
	ended := time.Now()
	if err := sink.Get(); err != nil {
		return err
	}
	if runErr != nil {
		return fmt.Errorf("%v: the run was aborted: %v", r, runErr)
	}
	lines, data, err := readPhout(out)
	if err != nil {
		return err
	}
	if len(lines) != r.Calls {
		return fmt.Errorf("%v: %d samples for %d calls\n%s", r, len(lines), r.Calls, data)
	}
	for i := 0; i < r.Calls; i++ {
		l := grpcSample(lines, r.Scenario, i)
		if l == nil {
			return fmt.Errorf("%v: no sample for call %d (tag t%d)\n%s", r, i, i, data)
		}
		if i == r.StallAt {
			if l.proto != 504 {
				return fmt.Errorf("%v: the call was given up (deadline exceeded), its sample says %d, expected 504\n%s", r, l.proto, data)
			}
			continue
		}
		if l.proto != 200 {
			return fmt.Errorf("%v: call %d was answered OK but its sample says %d\n%s", r, i, l.proto, data)
		}
	}
	smu.Lock()
	at := stalledAt
	smu.Unlock()
	omu.Lock()
	defer omu.Unlock()
	if r.Scenario {
		o.Class("default_timeout_grpc_scenario_gun")
		o.ClassIf(r.Assert, "default_timeout_grpc_assert_postprocessor")
	} else {
		o.Class("default_timeout_grpc_gun")
		o.ClassIf(r.Instances >= 2, "default_timeout_grpc_instances_ge_2")
	}
	if !at.IsZero() {
		o.Note(fmt.Sprintf("given_up_after_s_%s", gunType), ended.Sub(at).Seconds())
	}
	return nil
}

func checkGDef(c GDefCase, o *vf.Obs) error {
	var wg sync.WaitGroup
	var omu sync.Mutex
	var sink vf.ErrSink
	for _, r := range c.Runs {
		r := r
		vf.GoErr(&wg, &sink, func() { sink.Set(checkGDefRun(r, o, &omu)) })
	}
	wg.Wait()
	if err := sink.Get(); err != nil {
		return err
	}
	o.NonTrivial() // in every run a call is never answered and at least one well-behaved call follows it
	return nil
}

// The case count is fixed here (vf.Batch), all cases of a process run at the same time: quick 3, thorough 12 (6 at a time).
func TestGRPCDefaultTimeout(t *testing.T) {
	pand.Init()
	r := vf.Start(t, "C19")
	vf.Batch(r, r.Pick(3, 12), r.Pick(3, 6), genGDef, checkGDef)
}
