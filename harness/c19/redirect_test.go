package c19

import (
	"context"
	"encoding/json"
	"errors"
	"fmt"
	"runtime"
	"strconv"
	"strings"
	"sync"
	"sync/atomic"
	"time"

	"verif/harness/internal/pand"
	"verif/harness/internal/target"
	"verif/harness/internal/vf"

	"github.com/yandex/pandora/core/engine"
	"pgregory.net/rapid"
)

// ---------------- targets that redirect (gun option `redirect: true`, and off) ----------------
//
// A Redir in front of a behaviour: the target answers the request - and the follow-up requests a following client
// makes - with Hops redirects to fresh URIs of the same entry, and then, instead of the behaviour proper, possibly with
// a redirect that never leads anywhere: to the very URI that was requested, to fresh URIs for ever, between two URIs,
// to a Location that cannot be parsed or used, or with a 3xx that names no Location at all.
//
// With `redirect` off (the default) the gun does not follow: the sample carries the 3xx. With `redirect: true`
//   - a chain that ends within the number of requests net/http's documented default policy allows (10 consecutive
//     requests, i.e. 9 redirects) is followed and the sample is what the behaviour proper makes it;
//   - a longer finite chain leaves one sample (the failure, or the final answer - the limit is net/http's, not a
//     documented pandora one, so neither is demanded);
//   - a chain without an end leaves ONE sample, a failure, the instance goes on with the next ammo and the run ends.
//     A gun that is still following after runawayRequests requests for a single ammo entry (100 times the requests
//     the default policy allows - a count, which no machine load inflates) or that does not let the run end within
//     the run deadline is a hang; it is reported only when the same case hangs again on an immediate re-run.
type Redir struct {
	Hops   int    `json:"hops"`               // proper redirects (to fresh URIs) before End applies
	End    string `json:"end"`                // final | self | fresh | pair | unusable | no_location
	Status int    `json:"status"`             // 301 | 302 | 303 | 307 | 308
	Loc    string `json:"location_style"`     // rel | path | abs | query
	Bad    string `json:"bad_location,omitempty"` // End unusable: the Location sent
}

const (
	// requests net/http's default redirect policy allows for one Do ("stop after 10 consecutive requests")
	defaultPolicyRequests = 10
	runawayRequests       = 100 * defaultPolicyRequests
)

var unusableLocations = []string{"://nowhere", "http://[::1", "%zz", "http://exa mple/", "ftp://127.0.0.1/pub", "//[bad/x"}

func genRedir(t *rapid.T) *Redir {
	r := &Redir{
		Status: rapid.SampledFrom([]int{301, 302, 303, 307, 308}).Draw(t, "redirStatus"),
		Loc:    rapid.SampledFrom([]string{"rel", "path", "abs", "query"}).Draw(t, "locStyle"),
	}
	switch rapid.IntRange(0, 11).Draw(t, "redirEnd") {
	case 0, 1, 2:
		r.End, r.Hops = "final", rapid.IntRange(1, defaultPolicyRequests-1).Draw(t, "hops")
	case 3:
		r.End, r.Hops = "final", rapid.IntRange(defaultPolicyRequests, defaultPolicyRequests+4).Draw(t, "hops")
	case 4, 5:
		r.End = "self"
	case 6, 7:
		r.End = "fresh"
	case 8, 9:
		r.End = "pair"
	case 10:
		r.End, r.Bad = "unusable", rapid.SampledFrom(unusableLocations).Draw(t, "badLocation")
	default:
		r.End = "no_location"
	}
	if r.End != "final" {
		r.Hops = rapid.IntRange(0, 3).Draw(t, "hopsBefore")
	}
	return r
}

// String: behaviours are printed as in the replay file (a %+v would print the address of the Redir)
func (b Beh) String() string {
	j, _ := json.Marshal(b)
	return string(j)
}

func behsString(bs []Beh) string { return fmt.Sprint(bs) }

func (r *Redir) endless() bool {
	return r != nil && (r.End == "self" || r.End == "fresh" || r.End == "pair")
}

// within: a following client reaches the end of the chain under net/http's default policy
func (r *Redir) within() bool { return r.Hops+1 <= defaultPolicyRequests }

// hopOf: the number of the hop a request URI names (0 = the URI of the ammo / step itself)
func hopOf(uri string) int {
	for _, mark := range []string{"/h", "?hop="} {
		if k := strings.LastIndex(uri, mark); k >= 0 {
			if n, err := strconv.Atoi(uri[k+len(mark):]); err == nil {
				return n
			}
		}
	}
	return 0
}

// location of hop n of the entry whose own URI is base, for a request that asked for uri
func (r *Redir) location(base, uri string, n int, scheme, addr string) string {
	switch r.Loc {
	case "abs":
		return fmt.Sprintf("%s://%s%s/h%d", scheme, addr, base, n)
	case "query":
		return fmt.Sprintf("?hop=%d", n) // the same path, another query
	case "rel":
		if uri == base {
			return fmt.Sprintf("%s/h%d", strings.TrimPrefix(base, "/"), n)
		}
		return fmt.Sprintf("h%d", n)
	}
	return fmt.Sprintf("%s/h%d", base, n)
}

// answer: the redirect the target sends to a request for uri (ok = false: the behaviour proper answers)
func (r *Redir) answer(base, uri, scheme, addr string) (target.Resp, bool) {
	if r == nil {
		return target.Resp{}, false
	}
	to := func(loc string) (target.Resp, bool) {
		return target.Resp{Status: r.Status, Header: map[string]string{"Location": loc}}, true
	}
	h := hopOf(uri)
	if h < r.Hops {
		return to(r.location(base, uri, h+1, scheme, addr))
	}
	switch r.End {
	case "self":
		if r.Loc == "abs" {
			return to(scheme + "://" + addr + uri)
		}
		return to(uri)
	case "fresh":
		return to(r.location(base, uri, h+1, scheme, addr))
	case "pair":
		if h == r.Hops {
			return to(r.location(base, uri, h+1, scheme, addr))
		}
		return to(r.location(base, uri, r.Hops, scheme, addr))
	case "unusable":
		return to(r.Bad)
	case "no_location":
		return target.Resp{Status: r.Status}, true
	}
	return target.Resp{}, false
}

// redirWatch counts the requests the target gets per entry and can end every chain (release): after that the target
// answers everything with a plain 200, so that a gun that was following without an end comes back.
type redirWatch struct {
	mu       sync.Mutex
	n        map[int]int
	released atomic.Bool
}

func newRedirWatch() *redirWatch { return &redirWatch{n: map[int]int{}} }

// seen counts a request for entry i; false = the chains have been ended, answer 200
func (w *redirWatch) seen(i int) bool {
	w.mu.Lock()
	w.n[i]++
	w.mu.Unlock()
	return !w.released.Load()
}

func (w *redirWatch) count(i int) int {
	w.mu.Lock()
	defer w.mu.Unlock()
	return w.n[i]
}

func (w *redirWatch) runaway() string {
	w.mu.Lock()
	defer w.mu.Unlock()
	for i, n := range w.n {
		if n >= runawayRequests {
			return fmt.Sprintf("the target has answered %d requests for the single ammo entry / step %d and the gun is still following redirects (net/http's default policy ends a request after %d)",
				n, i, defaultPolicyRequests)
		}
	}
	return ""
}

func (w *redirWatch) release() { w.released.Store(true) }

// runawayErr: the run did not come to an end (or a gun made runawayRequests requests for one ammo entry)
type runawayErr struct {
	why    string
	stacks string
}

func (h *runawayErr) Error() string { return h.why }

const runDeadline = 90 * time.Second

// runPoolWatched is runPoolErr for cases in which the target can keep a gun busy without an end: the run is given up
// as hung when w reports a runaway or at the run deadline; the chains are then ended, so that the instances come back
// and do not disturb the next case.
func runPoolWatched(pool map[string]any, w *redirWatch) (runErr error, err error) {
	var conf engine.Config
	if err := pand.Decode(map[string]any{"pools": []any{pool}}, &conf); err != nil {
		return nil, fmt.Errorf("valid pool config rejected: %v", err)
	}
	eng := engine.New(pand.NopLog(), pand.Metrics(), conf)
	done := make(chan struct{})
	go func() {
		defer close(done)
		runErr = eng.Run(context.Background())
	}()
	t0 := time.Now()
	tick := time.NewTicker(5 * time.Millisecond)
	defer tick.Stop()
	for {
		select {
		case <-done:
			eng.Wait()
			return runErr, nil
		case <-tick.C:
		}
		why := w.runaway()
		if why == "" && time.Since(t0) > runDeadline {
			why = fmt.Sprintf("the run did not finish in %v", runDeadline)
		}
		if why == "" {
			continue
		}
		buf := make([]byte, 1<<20)
		buf = buf[:runtime.Stack(buf, true)]
		w.release()
		select {
		case <-done:
			eng.Wait()
		case <-time.After(60 * time.Second):
			why += "; it did not even end within 60 s after the target stopped redirecting"
		}
		return nil, &runawayErr{why: why, stacks: string(buf)}
	}
}

// hangsMustRepeat reports a hang only when the same case hangs again on an immediate re-run, with the goroutine stacks
// of the second hang attached to the replay file.
func hangsMustRepeat[C any](prop func(C, *vf.Obs) error) func(C, *vf.Obs) error {
	return func(c C, o *vf.Obs) error {
		err := prop(c, o)
		var h *runawayErr
		if !errors.As(err, &h) {
			return err
		}
		o2 := &vf.Obs{}
		err = prop(c, o2)
		*o = *o2
		if errors.As(err, &h) {
			o.Note("goroutine_stacks", h.stacks)
			return fmt.Errorf("HANG (twice in a row): %v; goroutine stacks are attached to the replay file", err)
		}
		if err == nil {
			o.Class("hang_not_reproduced")
		}
		return err
	}
}

// redirSeen collects what the redirected requests of a case were (each label once per case).
type redirSeen map[string]bool

// classes records every label, alone and with the gun it was met by.
func (rs redirSeen) classes(o *vf.Obs, gun string) {
	for label := range rs {
		o.Class(label, label+"_"+gun)
	}
}

// judgeRedirected is the oracle for the one sample of a request the target answered with redirects. followed: the
// gun was configured with `redirect: true`. It returns done = true when the redirects decide the sample; otherwise
// (a chain the gun follows to its end) the behaviour proper decides it. processed: the 3xx a gun ends with is given to
// postprocessors (scenario steps) that may well reject it, so instead of the 3xx the sample may carry that failure.
func judgeRedirected(r *Redir, followed bool, l line, what string, processed bool, rs redirSeen) (done bool, err error) {
	if r == nil {
		return false, nil
	}
	if !followed {
		rs["redirect_not_followed"] = true
		if (l.proto != r.Status || l.net != 0) && !(processed && l.net != 0) {
			return true, fmt.Errorf("%s was answered with a %d redirect and the gun does not follow redirects, but its sample says proto=%d net=%d", what, r.Status, l.proto, l.net)
		}
		return true, nil
	}
	switch {
	case r.endless():
		rs["redirect_loop_"+r.End] = true
		rs["redirect_loop"] = true
		if l.net == 0 {
			return true, fmt.Errorf("%s was answered with redirects that never end (%s, after %d hops), yet its sample is not a failure: proto=%d net=%d", what, r.End, r.Hops, l.proto, l.net)
		}
		return true, nil
	case r.End == "unusable":
		rs["redirect_unusable_location"] = true
		if r.within() && l.net == 0 {
			return true, fmt.Errorf("%s was redirected to the unusable Location %q (after %d hops), yet its sample is not a failure: proto=%d net=%d", what, r.Bad, r.Hops, l.proto, l.net)
		}
		return true, nil
	case r.End == "no_location":
		rs["redirect_without_location"] = true
		if r.within() && (l.proto != r.Status || l.net != 0) && !(processed && l.net != 0) {
			return true, fmt.Errorf("%s ended (after %d hops) at a %d without Location - a response like any other -, but its sample says proto=%d net=%d", what, r.Hops, r.Status, l.proto, l.net)
		}
		return true, nil
	case !r.within():
		// the limit is net/http's: the failure and the final answer are both a sample "carrying the status or the failure"
		rs["redirect_chain_beyond_default_policy"] = true
		if l.net != 0 {
			rs["redirect_chain_cut"] = true
		}
		return true, nil
	}
	rs["redirect_chain_followed"] = true
	return false, nil
}
