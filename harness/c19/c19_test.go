// C19 — no response from the target can abort or crash the run.
//
// Oracle: Engine.Run returns nil; one sample per attempted request / executed
// scenario step; well-behaved exchanges after a misbehaving one still succeed.
package c19

import (
	"bytes"
	"context"
	"errors"
	"fmt"
	"io"
	"math"
	"net"
	"strconv"
	"strings"
	"sync"
	"testing"
	"time"

	"verif/harness/internal/pand"
	"verif/harness/internal/target"
	"verif/harness/internal/vf"

	"github.com/spf13/afero"
	"github.com/yandex/pandora/core/engine"
	"pgregory.net/rapid"
)

// Behaviour of the target for one request.
type Beh struct {
	Kind   string            `json:"kind"` // ok | status | empty | huge | bad_status_line | bad_header | bad_chunk | close | reset | stall | refuse_body
	Status int               `json:"status,omitempty"`
	Body   string            `json:"body,omitempty"`
	Header map[string]string `json:"header,omitempty"`
	// kind ok with an empty Body: the body is an HTML catalogue page whose items carry these data-price attributes
	// ("-": the item has no such attribute); see catalogPage
	Prices []string `json:"prices,omitempty"`
	// kind announce: the Content-Length the answer announces. To a GET the target sends a 200 with that header, the
	// first bytes of a JSON body and closes the connection (a lying / corrupted length, a download that is cut); to a
	// HEAD it is the legal answer for a resource of that size (headers only).
	Len int64 `json:"announced_length,omitempty"`
	// redirects the target sends before (or instead of) this behaviour; see Redir
	Redir *Redir `json:"redirect,omitempty"`
}

var misKinds = []string{"status", "empty", "huge", "bad_status_line", "bad_header", "bad_chunk", "close", "reset", "stall", "short_body", "garbage"}

// genAnnounced: a Content-Length far beyond what is delivered: some GB, sizes no process can allocate (2^48 .. 2^62),
// and the top of the int64 range.
func genAnnounced(t *rapid.T) int64 {
	switch rapid.IntRange(0, 3).Draw(t, "announcedClass") {
	case 0:
		return int64(1) << rapid.IntRange(31, 36).Draw(t, "announcedBits")
	case 1:
		return math.MaxInt64 - int64(rapid.IntRange(0, 1024).Draw(t, "belowMaxInt64"))
	default:
		return int64(1)<<rapid.IntRange(48, 62).Draw(t, "announcedBits") + int64(rapid.IntRange(0, 9).Draw(t, "announcedPlus"))
	}
}

func announceBeh(t *rapid.T) Beh { return Beh{Kind: "announce", Len: genAnnounced(t)} }

// unallocatable: no Go process on a 64-bit machine can hold that many bytes (the allocator's limit is 2^48)
func unallocatable(n int64) bool { return n >= 1<<47 }

func genBeh(t *rapid.T, good bool) Beh {
	if good {
		return Beh{Kind: "ok"}
	}
	b := Beh{Kind: rapid.SampledFrom(misKinds).Draw(t, "kind")}
	if b.Kind == "status" {
		b.Status = rapid.IntRange(200, 599).Draw(t, "status")
		b.Body = rapid.SampledFrom([]string{"", "x", "{not json", "<html><div", "null"}).Draw(t, "body")
	}
	if (b.Kind == "short_body" || b.Kind == "huge") && rapid.IntRange(0, 2).Draw(t, "announcesFarMore") == 0 {
		// the same families: a body shorter than its Content-Length, here by many orders of magnitude
		b = announceBeh(t)
	}
	return b
}

// respFor is resp for a request of the given method: the kinds that differ for HEAD (announce) are answered in the
// way that is legal for it.
func (b Beh) respFor(method string) target.Resp {
	if b.Kind == "announce" && method == "HEAD" {
		return target.Resp{Status: 200, Header: map[string]string{"Content-Type": "application/json", "X-Token": goodToken,
			"Content-Length": strconv.FormatInt(b.Len, 10)}}
	}
	return b.resp()
}

func (b Beh) resp() target.Resp {
	raw := func(s string) target.Resp {
		return target.Resp{Hijack: func(c net.Conn, rw io.ReadWriter) { _, _ = io.WriteString(rw, s) }}
	}
	switch b.Kind {
	case "ok":
		h := map[string]string{"Content-Type": "application/json", "X-Token": "abcdefghijklmnop"}
		for k, v := range b.Header {
			h[k] = v
		}
		body := b.Body
		if body == "" && len(b.Prices) > 0 {
			body = catalogPage(b.Prices)
		}
		if body == "" {
			body = `{"key": "value", "items": [1, 2, 3]}`
		}
		return target.Resp{Status: 200, Header: h, Body: []byte(body)}
	case "status":
		return target.Resp{Status: b.Status, Body: []byte(b.Body), Header: b.Header}
	case "empty":
		return target.Resp{Status: 200, Body: nil, Header: b.Header}
	case "huge":
		return target.Resp{Status: 200, Body: bytes.Repeat([]byte("0123456789abcdef"), 200_000)} // 3.2 MB
	case "bad_status_line":
		return raw("HTTP/1.1 abc nonsense\r\n\r\n")
	case "bad_header":
		return raw("HTTP/1.1 200 OK\r\nthis is not a header line\r\n\r\nbody")
	case "bad_chunk":
		return raw("HTTP/1.1 200 OK\r\nTransfer-Encoding: chunked\r\n\r\nZZZ\r\nnot hex\r\n")
	case "garbage":
		return raw("\x00\x01\x02 garbage \xff\xfe\r\n\r\n")
	case "close":
		return target.Resp{Hijack: func(c net.Conn, rw io.ReadWriter) {}}
	case "reset":
		return target.Resp{Hijack: func(c net.Conn, rw io.ReadWriter) {
			if tc, ok := c.(*net.TCPConn); ok {
				_ = tc.SetLinger(0)
			}
		}}
	case "stall":
		return target.Resp{Status: 200, DelayMs: 1200, Body: []byte("late")}
	case "short_body":
		return raw("HTTP/1.1 200 OK\r\nContent-Length: 50\r\n\r\nshort")
	case "announce":
		return raw(fmt.Sprintf("HTTP/1.1 200 OK\r\nContent-Type: application/json\r\nX-Token: %s\r\nContent-Length: %d\r\n\r\n{\"key\": \"va", goodToken, b.Len))
	}
	return target.Resp{Status: 200, Body: []byte("ok")}
}

// ---------------- plain http gun ----------------

type HTTPCase struct {
	Behs      []Beh `json:"behaviours"` // one per ammo entry, in file order
	Instances int   `json:"instances"`
	KeepAlive bool  `json:"keep_alive"`
	Connect   bool  `json:"connect_gun"` // gun type connect (CONNECT tunnel to the target first)
	// connect gun with `connect-ssl: true`: the connection that carries the CONNECT request (and then the tunnel) is
	// TLS, so the target's listener is a TLS one
	ConnectSSL bool `json:"connect_ssl,omitempty"`
	// The target goes away: its listener stops listening right before it serves its DownAfter-th connection, every
	// later connection attempt is refused (DownAfter 0: nothing listens from the start).
	Down      bool `json:"down,omitempty"`
	DownAfter int  `json:"down_after,omitempty"`
	// gun option `redirect: true`: the gun follows redirects (default: it does not). Entries whose behaviour has a
	// Redir are answered with redirects in either case.
	Redirect bool `json:"redirect,omitempty"`
	// gun option `httptrace` (see HTTPTrace)
	HTTPTrace HTTPTrace `json:"httptrace"`
}

// HTTPTrace is the option `httptrace` of the http guns (http, http2, connect and both scenario guns; documented in
// docs/eng/http-generator.md): `dump: true` accounts the bytes of the dumped request and response in the sample,
// `trace: true` its connect / send / latency stages. Both are off by default. They only add figures to the sample, so
// every oracle of this package holds for each of the four combinations - in particular for exchanges that end without
// any response (refused, closed, timed out, failed handshake), where there is nothing to dump or to time.
type HTTPTrace struct {
	Dump  bool `json:"dump,omitempty"`
	Trace bool `json:"trace,omitempty"`
}

func genHTTPTrace(t *rapid.T) HTTPTrace {
	return HTTPTrace{Dump: rapid.Bool().Draw(t, "httptraceDump"), Trace: rapid.Bool().Draw(t, "httptraceTrace")}
}

// apply writes the option into a gun config; with both off half of the time nothing is written (the default)
func (h HTTPTrace) apply(gun map[string]any) {
	if h.Dump || h.Trace {
		gun["httptrace"] = map[string]any{"dump": h.Dump, "trace": h.Trace}
	}
}

// classes records the combination and whether it met an exchange that ended without a response (a sample with a net
// error and no status).
func (h HTTPTrace) classes(o *vf.Obs, lines []line) {
	noResp := false
	for _, l := range lines {
		noResp = noResp || (l.proto == 0 && l.net != 0)
	}
	o.ClassIf(h.Dump, "httptrace_dump")
	o.ClassIf(h.Trace, "httptrace_trace")
	o.ClassIf(h.Dump && noResp, "httptrace_dump_no_response")
	o.ClassIf(h.Trace && noResp, "httptrace_trace_no_response")
}

func genHTTP(t *rapid.T) HTTPCase {
	c := HTTPCase{}
	n := rapid.IntRange(2, 8).Draw(t, "entries")
	for i := 0; i < n; i++ {
		good := i == n-1 || rapid.IntRange(0, 2).Draw(t, "good") == 0
		c.Behs = append(c.Behs, genBeh(t, good))
	}
	c.Instances = rapid.IntRange(1, 3).Draw(t, "instances")
	c.KeepAlive = rapid.Bool().Draw(t, "keepAlive")
	c.Connect = rapid.IntRange(0, 2).Draw(t, "connectGun") == 0
	if c.Connect {
		c.ConnectSSL = rapid.Bool().Draw(t, "connectSSL")
	}
	if rapid.IntRange(0, 3).Draw(t, "goesAway") == 0 {
		c.Down = true
		// with keep-alives off every request needs a connection of its own, so any number below n leaves requests
		// that are refused; 0 = the target is not up at all
		c.DownAfter = rapid.IntRange(0, n-1).Draw(t, "downAfter")
	}
	// Redirecting targets. A target that goes away would refuse follow-up requests of a chain in the middle, so the
	// two dimensions are not combined. The last entry stays a plain well-behaved exchange.
	if !c.Down {
		c.Redirect = rapid.IntRange(0, 2).Draw(t, "redirectOption") == 0
		oneIn := 8
		if c.Redirect {
			oneIn = 2
		}
		for i := 0; i < n-1; i++ {
			if rapid.IntRange(0, oneIn-1).Draw(t, "redirected") == 0 {
				c.Behs[i].Redir = genRedir(t)
			}
		}
	}
	c.HTTPTrace = genHTTPTrace(t)
	return c
}

func entryIndex(uri string) int {
	p := strings.TrimPrefix(uri, "/e")
	if k := strings.IndexAny(p, "/?"); k >= 0 {
		p = p[:k]
	}
	i, err := strconv.Atoi(p)
	if err != nil {
		return -1
	}
	return i
}

type line struct {
	tag   string
	net   int
	proto int
}

func readPhout(name string) ([]line, string, error) {
	data, err := afero.ReadFile(pand.FS(), name)
	if err != nil {
		return nil, "", fmt.Errorf("phout not written: %v", err)
	}
	var out []line
	for _, ln := range strings.Split(strings.TrimSuffix(string(data), "\n"), "\n") {
		if ln == "" {
			continue
		}
		f := strings.Split(ln, "\t")
		if len(f) != 12 {
			return nil, string(data), fmt.Errorf("phout line with %d columns: %q", len(f), ln)
		}
		n, _ := strconv.Atoi(f[10])
		p, _ := strconv.Atoi(f[11])
		out = append(out, line{f[1], n, p})
	}
	return out, string(data), nil
}

func runPool(pool map[string]any) error {
	var conf engine.Config
	if err := pand.Decode(map[string]any{"pools": []any{pool}}, &conf); err != nil {
		return fmt.Errorf("valid pool config rejected: %v", err)
	}
	eng := engine.New(pand.NopLog(), pand.Metrics(), conf)
	var runErr error
	ok, stacks := vf.Deadline(90*time.Second, func() { runErr = eng.Run(context.Background()) })
	if !ok {
		return fmt.Errorf("run did not finish in 90s\n%s", stacks)
	}
	eng.Wait()
	if runErr != nil {
		return fmt.Errorf("the run was aborted: %v", runErr)
	}
	return nil
}

func checkHTTP(c HTTPCase, o *vf.Obs) error {
	var tg *target.HTTP
	if c.Down || c.ConnectSSL {
		// a listener of its own: TLS for connect-ssl, going away after some connections
		after := -1
		if c.Down {
			after = c.DownAfter
		}
		ln, err := target.ListenGoAway(after)
		if err != nil {
			return fmt.Errorf("harness: %v", err)
		}
		tg = target.NewHTTPOn(ln, c.ConnectSSL)
		defer tg.Close()
	} else {
		var mu *sync.Mutex
		tg, mu = target.Shared(false)
		mu.Lock()
		defer mu.Unlock()
	}
	watch := newRedirWatch()
	scheme := "http" // also for connect-ssl: the TLS there is the tunnel's, the request inside is plain
	tg.Reset(func(seq int, r *target.Rec) target.Resp {
		i := entryIndex(r.RequestURI)
		if i < 0 || i >= len(c.Behs) {
			return target.Resp{Status: 500}
		}
		if !watch.seen(i) {
			return Beh{Kind: "ok"}.resp()
		}
		if resp, ok := c.Behs[i].Redir.answer(fmt.Sprintf("/e%d", i), r.RequestURI, scheme, tg.Addr()); ok {
			return resp
		}
		return c.Behs[i].resp()
	})
	var sb strings.Builder
	for i := range c.Behs {
		fmt.Fprintf(&sb, "/e%d t%d\n", i, i)
	}
	name := pand.WriteFile("c19", ".ammo", []byte(sb.String()))
	defer pand.Remove(name)
	out := pand.TempName("c19", ".phout")
	defer pand.Remove(out)
	gun := map[string]any{"type": gunType(c.Connect), "target": tg.Addr(), "response-header-timeout": "400ms",
		"disable-keep-alives": !c.KeepAlive, "connect-ssl": c.ConnectSSL, "redirect": c.Redirect}
	c.HTTPTrace.apply(gun)
	pool := map[string]any{
		"id":      "p",
		"gun":     gun,
		"ammo":    map[string]any{"type": "uri", "file": name, "passes": 1},
		"result":  map[string]any{"type": "phout", "destination": out},
		"rps":     map[string]any{"type": "once", "times": len(c.Behs) + 5},
		"startup": map[string]any{"type": "once", "times": c.Instances},
	}
	runErr, err := runPoolWatched(pool, watch)
	var hung *runawayErr
	if errors.As(err, &hung) {
		return &runawayErr{why: fmt.Sprintf("%v (%s gun, redirect %v, behaviours %s)", err, gunType(c.Connect), c.Redirect, behsString(c.Behs)), stacks: hung.stacks}
	}
	if err == nil && runErr != nil {
		err = fmt.Errorf("the run was aborted: %v", runErr)
	}
	if err != nil {
		return fmt.Errorf("%v (%s gun, httptrace %+v, behaviours %s)", err, gunType(c.Connect), c.HTTPTrace, behsString(c.Behs))
	}
	lines, data, err := readPhout(out)
	if err != nil {
		return err
	}
	if len(lines) != len(c.Behs) {
		return fmt.Errorf("%d samples for %d requests\n%s", len(lines), len(c.Behs), data)
	}
	byTag := map[string]line{}
	for _, l := range lines {
		byTag[l.tag] = l
	}
	reached := map[int]bool{}
	for _, r := range tg.Records() {
		reached[entryIndex(r.RequestURI)] = true
	}
	mis, goodAfterMis, refused := 0, false, 0
	rs := redirSeen{}
	for i, b := range c.Behs {
		l, ok := byTag[fmt.Sprintf("t%d", i)]
		if !ok {
			return fmt.Errorf("no sample for request %d (%s)\n%s", i, b.Kind, data)
		}
		if c.Down && !reached[i] {
			// the target was gone: the connection was refused (or was reset in the backlog when the listener went
			// down); no status was received, the sample has to carry the failure
			refused++
			if l.proto != 0 || l.net == 0 {
				return fmt.Errorf("request %d never reached the target (it went away after %d connections), but its sample says proto=%d net=%d, not a failure\n%s",
					i, c.DownAfter, l.proto, l.net, data)
			}
			continue
		}
		if done, err := judgeRedirected(b.Redir, c.Redirect, l, fmt.Sprintf("request %d", i), false, rs); err != nil {
			return fmt.Errorf("%v (%s gun, %d requests seen by the target for it; behaviours %s)\n%s", err, gunType(c.Connect), watch.count(i), behsString(c.Behs), data)
		} else if done {
			mis++ // the exchange did not end with the answer of a well-behaved target
			continue
		}
		if b.Kind == "ok" {
			if l.proto != 200 || l.net != 0 {
				return fmt.Errorf("request %d got a well-behaved 200 response but its sample says proto=%d net=%d (behaviours %+v)", i, l.proto, l.net, c.Behs)
			}
			if mis > 0 {
				goodAfterMis = true
			}
		} else {
			mis++
			o.Class("mis_" + b.Kind)
			if b.Kind == "status" && (l.proto != b.Status) {
				return fmt.Errorf("request %d answered with status %d, sample says %d", i, b.Status, l.proto)
			}
		}
	}
	o.ClassIf(c.Instances >= 2, "instances_ge_2")
	o.ClassIf(c.Connect, "connect_gun")
	o.ClassIf(c.ConnectSSL, "connect_ssl")
	o.ClassIf(c.Down, "target_goes_away")
	o.ClassIf(c.Down && c.DownAfter == 0, "target_never_up")
	o.ClassIf(refused > 0, "refused_seen")
	o.ClassIf(refused > 0 && refused < len(c.Behs), "refused_after_served")
	o.ClassIf(refused > 0 && c.Connect, "connect_gun_refused")
	o.ClassIf(refused > 0 && c.ConnectSSL, "connect_ssl_refused")
	o.ClassIf(c.Redirect, "redirect_option_on")
	c.HTTPTrace.classes(o, lines)
	rs.classes(o, gunType(c.Connect)+"_gun")
	if mis > 0 && goodAfterMis {
		o.NonTrivial()
	}
	return nil
}

func gunType(connect bool) string {
	if connect {
		return "connect"
	}
	return "http"
}

func TestHTTPGun(t *testing.T) {
	pand.Init()
	r := vf.Start(t, "C19")
	vf.Check(r, genHTTP, vf.LoadTolerant(25*time.Millisecond, hangsMustRepeat(checkHTTP)))
}
