package c19

import (
	"encoding/json"
	"fmt"
	"strconv"
	"strings"
	"sync"
	"sync/atomic"
	"testing"
	"time"

	"verif/harness/internal/pand"
	"verif/harness/internal/target"
	"verif/harness/internal/vf"

	"google.golang.org/grpc/codes"
	"pgregory.net/rapid"
)

// ---------------- grpc gun and grpc/scenario gun ----------------

type GBeh struct {
	Kind string `json:"kind"` // ok | code | stall | huge
	Code int    `json:"code,omitempty"`
}

type GRPCCase struct {
	Behs      []GBeh `json:"behaviours"`
	Scenario  bool   `json:"scenario_gun"`
	Assert    bool   `json:"assert_postprocessor"`
	Instances int    `json:"instances"`
	// The target port refuses connections while instances are being started, although warm-up (reflection) worked:
	// "always": nothing ever listens on the target port, the method descriptions come from a reflection-only listener
	// named by `reflect_port`; "goes_away": a target of its own stops accepting connections when its first call arrives
	// (the connections it has stay served), while a startup schedule is still starting instances. The behaviours are
	// all "ok" then.
	Refuse string `json:"refuse,omitempty"`
	// goes_away: startup schedule (const: StartupOps for StartupMs; line: from StartupOps to StartupOpsTo), the rps
	// schedule const RpsOps for 600 ms and the number of calls (ammo limit, below the schedule's tokens)
	StartupType  string `json:"startup_type,omitempty"`
	StartupOps   int    `json:"startup_ops,omitempty"`
	StartupOpsTo int    `json:"startup_ops_to,omitempty"`
	StartupMs    int    `json:"startup_ms,omitempty"`
	RpsOps       int    `json:"rps_ops,omitempty"`
	Limit        int    `json:"limit,omitempty"`
}

func genGRPC(t *rapid.T) GRPCCase {
	c := GRPCCase{}
	n := rapid.IntRange(2, 7).Draw(t, "entries")
	for i := 0; i < n; i++ {
		if i == n-1 || rapid.IntRange(0, 2).Draw(t, "good") == 0 {
			c.Behs = append(c.Behs, GBeh{Kind: "ok"})
			continue
		}
		b := GBeh{Kind: rapid.SampledFrom([]string{"code", "code", "stall", "huge"}).Draw(t, "kind")}
		if b.Kind == "code" {
			b.Code = rapid.SampledFrom([]int{1, 2, 3, 4, 5, 6, 7, 8, 9, 10, 11, 12, 13, 14, 15, 16, 77}).Draw(t, "code")
		}
		c.Behs = append(c.Behs, b)
	}
	c.Scenario = rapid.Bool().Draw(t, "scenario")
	c.Assert = rapid.Bool().Draw(t, "assert")
	c.Instances = 1
	if !c.Scenario {
		c.Instances = rapid.IntRange(1, 3).Draw(t, "instances")
	}
	switch rapid.IntRange(0, 3).Draw(t, "refuse") {
	case 0:
		c.Refuse = "always"
		c.Instances = rapid.IntRange(1, 3).Draw(t, "instancesRefused")
	case 1:
		c.Refuse = "goes_away"
		c.StartupType = rapid.SampledFrom([]string{"const", "line"}).Draw(t, "startupType")
		c.StartupOps = rapid.SampledFrom([]int{10, 20}).Draw(t, "startupOps")
		c.StartupOpsTo = c.StartupOps + rapid.SampledFrom([]int{10, 20}).Draw(t, "startupOpsMore")
		c.StartupMs = rapid.SampledFrom([]int{200, 300}).Draw(t, "startupMs")
		c.RpsOps = rapid.SampledFrom([]int{30, 40, 50}).Draw(t, "rpsOps") // 18, 24, 30 tokens in 600 ms
		c.Limit = rapid.IntRange(10, 16).Draw(t, "limit")
	}
	if c.Refuse != "" {
		for i := range c.Behs {
			c.Behs[i] = GBeh{Kind: "ok"}
		}
	}
	return c
}

// grpcAmmo writes the ammo of n List calls (the i-th carries metadata x-entry: i and tag t<i>) for the grpc gun
// (grpc/json) or the grpc/scenario gun (one scenario per call so that a failing call does not hide the following ones)
// and returns the ammo section and the gun type.
func grpcAmmo(n int, scenario, assert bool) (ammo map[string]any, gunType string, cleanup func()) {
	if !scenario {
		var sb strings.Builder
		for i := 0; i < n; i++ {
			b, _ := json.Marshal(map[string]any{"tag": fmt.Sprintf("t%d", i), "call": "target.TargetService.List",
				"metadata": map[string]string{"x-entry": strconv.Itoa(i)}, "payload": map[string]any{"token": "x", "user_id": 1}})
			sb.Write(b)
			sb.WriteString("\n")
		}
		name := pand.WriteFile("c19g", ".json", []byte(sb.String()))
		return map[string]any{"type": "grpc/json", "file": name, "passes": 1}, "grpc", func() { pand.Remove(name) }
	}
	var sb strings.Builder
	sb.WriteString("calls:\n")
	for i := 0; i < n; i++ {
		fmt.Fprintf(&sb, "  - name: c%d\n    tag: t%d\n    call: target.TargetService.List\n    metadata:\n      x-entry: \"%d\"\n    payload: '{\"token\": \"x\", \"user_id\": 1}'\n", i, i, i)
		if assert {
			sb.WriteString("    postprocessors:\n      - type: assert/response\n        payload:\n          - result\n        status_code: 200\n")
		}
	}
	sb.WriteString("scenarios:\n")
	for i := 0; i < n; i++ {
		fmt.Fprintf(&sb, "  - name: sc%d\n    weight: 1\n    min_waiting_time: 0\n    requests:\n      - c%d\n", i, i)
	}
	name := pand.WriteFile("c19g", ".yaml", []byte(sb.String()))
	return map[string]any{"type": "grpc/scenario", "file": name, "limit": n}, "grpc/scenario", func() { pand.Remove(name) }
}

// grpcSample finds the sample of call i among the phout lines.
func grpcSample(lines []line, scenario bool, i int) *line {
	want := fmt.Sprintf("t%d", i)
	if scenario {
		want = fmt.Sprintf("sc%d.t%d", i, i)
	}
	var l *line
	for k := range lines {
		if lines[k].tag == want || strings.HasPrefix(lines[k].tag, want+"|") {
			l = &lines[k]
		}
	}
	return l
}

// checkGRPCRefusing: the target refuses connections while instances are being started. A refused connection is the
// failure of a call, not of the run: the run ends without an error, every call leaves one sample, a call that did not
// reach the target carries the failure (503, gRPC Unavailable), a call the target answered is a 200.
func checkGRPCRefusing(c GRPCCase, o *vf.Obs) error {
	n := len(c.Behs)
	out := pand.TempName("c19g", ".phout")
	defer pand.Remove(out)
	ammo, gunType, cleanup := grpcAmmo(n, c.Scenario, c.Assert)
	defer cleanup()
	gun := map[string]any{"type": gunType, "timeout": "400ms"}
	pool := map[string]any{
		"id": "p", "gun": gun, "ammo": ammo,
		"result":  map[string]any{"type": "phout", "destination": out},
		"rps":     map[string]any{"type": "once", "times": n + 5},
		"startup": map[string]any{"type": "once", "times": c.Instances},
	}
	want := n
	var served func() int
	var downAt atomic.Int64 // when the target stopped accepting, ns since t0
	t0 := time.Now()
	switch c.Refuse {
	case "always":
		shared, mu := target.SharedGRPC()
		mu.Lock()
		defer mu.Unlock()
		shared.ResetScript(nil)
		rf := target.SharedGRPCReflect() // describes the services of the shared target
		rf.Reset()
		ga, err := target.ListenGoAway(0) // a port of its own on which nothing ever listens
		if err != nil {
			return fmt.Errorf("harness: %v", err)
		}
		defer ga.Close()
		gun["target"] = ga.HostPort()
		gun["reflect_port"] = rf.Port()
		served = func() int { return len(shared.Calls()) }
	case "goes_away":
		ga, err := target.ListenGoAway(-1)
		if err != nil {
			return fmt.Errorf("harness: %v", err)
		}
		tg := target.NewGRPCOn(ga)
		defer tg.Close()
		var once sync.Once
		tg.ResetScript(func(call *target.GCall) target.GResp {
			once.Do(func() {
				ga.Down() // from now on every new connection is refused; this call and its connection are served
				downAt.Store(int64(time.Since(t0)))
			})
			return target.GResp{Code: codes.OK, Hello: "h", Token: "tok", UserID: 1, Items: []int64{1, 2}, OrderID: 1}
		})
		gun["target"] = ga.HostPort()
		served = func() int { return len(tg.Calls()) }
		want = c.Limit
		ammo["limit"] = c.Limit
		delete(ammo, "passes")
		pool["rps"] = map[string]any{"type": "const", "ops": c.RpsOps, "duration": "600ms"}
		startup := map[string]any{"type": "const", "ops": c.StartupOps, "duration": fmt.Sprintf("%dms", c.StartupMs)}
		if c.StartupType == "line" {
			startup = map[string]any{"type": "line", "from": c.StartupOps, "to": c.StartupOpsTo, "duration": fmt.Sprintf("%dms", c.StartupMs)}
		}
		pool["startup"] = startup
	default:
		return fmt.Errorf("harness: refuse %q", c.Refuse)
	}
	if err := runPool(pool); err != nil {
		return fmt.Errorf("%v (the target port refuses connections: %s; a refused connection is the failure of a call, the run must go on)", err, c.Refuse)
	}
	lines, data, err := readPhout(out)
	if err != nil {
		return err
	}
	if len(lines) != want {
		return fmt.Errorf("%d samples for %d calls (target %s)\n%s", len(lines), want, c.Refuse, data)
	}
	ok200, failed := 0, 0
	for _, l := range lines {
		switch l.proto {
		case 200:
			ok200++
		case 503:
			failed++
		default:
			return fmt.Errorf("a call to a target that either answers OK or refuses the connection (%s) left a sample that says %d, expected 200 or 503\n%s", c.Refuse, l.proto, data)
		}
	}
	if got := served(); ok200 != got {
		return fmt.Errorf("the target (%s) received and answered %d calls, but %d samples say 200 (and %d say 503)\n%s", c.Refuse, got, ok200, failed, data)
	}
	o.Class("grpc_target_refuses_" + c.Refuse)
	o.ClassIf(c.Scenario, "grpc_target_refuses_scenario_gun")
	o.ClassIf(!c.Scenario, "grpc_target_refuses_grpc_gun")
	o.ClassIf(c.Refuse == "goes_away" && failed > 0, "grpc_goes_away_refused_seen")
	o.ClassIf(c.Refuse == "goes_away" && downAt.Load() > 0 && time.Duration(downAt.Load()) < time.Duration(c.StartupMs/2)*time.Millisecond, "grpc_went_away_while_instances_start")
	o.ClassIf(c.Scenario, "grpc_scenario_gun")
	if failed > 0 {
		o.NonTrivial() // the failure was reported and the run went on to its end
	}
	return nil
}

func checkGRPC(c GRPCCase, o *vf.Obs) error {
	if c.Refuse != "" {
		return checkGRPCRefusing(c, o)
	}
	tg, mu := target.SharedGRPC()
	mu.Lock()
	defer mu.Unlock()
	big := make([]int64, 200_000)
	for i := range big {
		big[i] = int64(i) + (1 << 40)
	}
	tg.ResetScript(func(call *target.GCall) target.GResp {
		r := target.GResp{Code: codes.OK, Hello: "h", Token: "tok", UserID: 1, Items: []int64{1, 2}, OrderID: 1}
		v := call.MD.Get("x-entry")
		if len(v) != 1 {
			return r
		}
		i, err := strconv.Atoi(v[0])
		if err != nil || i >= len(c.Behs) {
			return r
		}
		switch b := c.Behs[i]; b.Kind {
		case "code":
			r.Code = codes.Code(b.Code)
		case "stall":
			r.DelayMs = 1500
		case "huge":
			r.Items = big
		}
		return r
	})
	out := pand.TempName("c19g", ".phout")
	defer pand.Remove(out)
	n := len(c.Behs)
	ammo, gunType, cleanup := grpcAmmo(n, c.Scenario, c.Assert)
	defer cleanup()
	gun := map[string]any{"type": gunType, "target": tg.Addr(), "timeout": "400ms"}
	pool := map[string]any{
		"id": "p", "gun": gun, "ammo": ammo,
		"result":  map[string]any{"type": "phout", "destination": out},
		"rps":     map[string]any{"type": "once", "times": n + 5},
		"startup": map[string]any{"type": "once", "times": c.Instances},
	}
	if err := runPool(pool); err != nil {
		return fmt.Errorf("%v (behaviours %+v)", err, c.Behs)
	}
	lines, data, err := readPhout(out)
	if err != nil {
		return err
	}
	if len(lines) != n {
		return fmt.Errorf("%d samples for %d calls\n%s", len(lines), n, data)
	}
	mis, goodAfter := 0, false
	for i, b := range c.Behs {
		l := grpcSample(lines, c.Scenario, i)
		if l == nil {
			return fmt.Errorf("no sample for call %d (tag t%d)\n%s", i, i, data)
		}
		if b.Kind == "ok" {
			if l.proto != 200 {
				return fmt.Errorf("call %d was answered OK but its sample says %d\n%s", i, l.proto, data)
			}
			if mis > 0 {
				goodAfter = true
			}
		} else {
			mis++
			o.Class("grpc_mis_" + b.Kind)
			if b.Kind == "stall" && l.proto != 504 {
				return fmt.Errorf("call %d stalled past the timeout, sample says %d, expected 504", i, l.proto)
			}
		}
	}
	o.ClassIf(c.Scenario, "grpc_scenario_gun")
	o.ClassIf(c.Scenario && c.Assert, "grpc_assert_postprocessor")
	if mis > 0 && goodAfter {
		o.NonTrivial()
	}
	return nil
}

func TestGRPCGuns(t *testing.T) {
	pand.Init()
	r := vf.Start(t, "C19")
	vf.Check(r, genGRPC, vf.LoadTolerant(25*time.Millisecond, checkGRPC))
}
