package c19

import (
	"encoding/json"
	"fmt"
	"strconv"
	"strings"
	"testing"
	"time"

	"verif/harness/internal/pand"
	"verif/harness/internal/target"
	"verif/harness/internal/vf"

	"google.golang.org/grpc/codes"
	"pgregory.net/rapid"
)

// ---------------- grpc gun and grpc/scenario gun ----------------

type GBeh struct {
	Kind string `json:"kind"` // ok | code | stall | huge
	Code int    `json:"code,omitempty"`
}

type GRPCCase struct {
	Behs      []GBeh `json:"behaviours"`
	Scenario  bool   `json:"scenario_gun"`
	Assert    bool   `json:"assert_postprocessor"`
	Instances int    `json:"instances"`
}

func genGRPC(t *rapid.T) GRPCCase {
	c := GRPCCase{}
	n := rapid.IntRange(2, 7).Draw(t, "entries")
	for i := 0; i < n; i++ {
		if i == n-1 || rapid.IntRange(0, 2).Draw(t, "good") == 0 {
			c.Behs = append(c.Behs, GBeh{Kind: "ok"})
			continue
		}
		b := GBeh{Kind: rapid.SampledFrom([]string{"code", "code", "stall", "huge"}).Draw(t, "kind")}
		if b.Kind == "code" {
			b.Code = rapid.SampledFrom([]int{1, 2, 3, 4, 5, 6, 7, 8, 9, 10, 11, 12, 13, 14, 15, 16, 77}).Draw(t, "code")
		}
		c.Behs = append(c.Behs, b)
	}
	c.Scenario = rapid.Bool().Draw(t, "scenario")
	c.Assert = rapid.Bool().Draw(t, "assert")
	c.Instances = 1
	if !c.Scenario {
		c.Instances = rapid.IntRange(1, 3).Draw(t, "instances")
	}
	return c
}

// grpcAmmo writes the ammo of n List calls (the i-th carries metadata x-entry: i and tag t<i>) for the grpc gun
// (grpc/json) or the grpc/scenario gun (one scenario per call so that a failing call does not hide the following ones)
// and returns the ammo section and the gun type.
func grpcAmmo(n int, scenario, assert bool) (ammo map[string]any, gunType string, cleanup func()) {
	if !scenario {
		var sb strings.Builder
		for i := 0; i < n; i++ {
			b, _ := json.Marshal(map[string]any{"tag": fmt.Sprintf("t%d", i), "call": "target.TargetService.List",
				"metadata": map[string]string{"x-entry": strconv.Itoa(i)}, "payload": map[string]any{"token": "x", "user_id": 1}})
			sb.Write(b)
			sb.WriteString("\n")
		}
		name := pand.WriteFile("c19g", ".json", []byte(sb.String()))
		return map[string]any{"type": "grpc/json", "file": name, "passes": 1}, "grpc", func() { pand.Remove(name) }
	}
	var sb strings.Builder
	sb.WriteString("calls:\n")
	for i := 0; i < n; i++ {
		fmt.Fprintf(&sb, "  - name: c%d\n    tag: t%d\n    call: target.TargetService.List\n    metadata:\n      x-entry: \"%d\"\n    payload: '{\"token\": \"x\", \"user_id\": 1}'\n", i, i, i)
		if assert {
			sb.WriteString("    postprocessors:\n      - type: assert/response\n        payload:\n          - result\n        status_code: 200\n")
		}
	}
	sb.WriteString("scenarios:\n")
	for i := 0; i < n; i++ {
		fmt.Fprintf(&sb, "  - name: sc%d\n    weight: 1\n    min_waiting_time: 0\n    requests:\n      - c%d\n", i, i)
	}
	name := pand.WriteFile("c19g", ".yaml", []byte(sb.String()))
	return map[string]any{"type": "grpc/scenario", "file": name, "limit": n}, "grpc/scenario", func() { pand.Remove(name) }
}

// grpcSample finds the sample of call i among the phout lines.
func grpcSample(lines []line, scenario bool, i int) *line {
	want := fmt.Sprintf("t%d", i)
	if scenario {
		want = fmt.Sprintf("sc%d.t%d", i, i)
	}
	var l *line
	for k := range lines {
		if lines[k].tag == want || strings.HasPrefix(lines[k].tag, want+"|") {
			l = &lines[k]
		}
	}
	return l
}

func checkGRPC(c GRPCCase, o *vf.Obs) error {
	tg, mu := target.SharedGRPC()
	mu.Lock()
	defer mu.Unlock()
	big := make([]int64, 200_000)
	for i := range big {
		big[i] = int64(i) + (1 << 40)
	}
	tg.ResetScript(func(call *target.GCall) target.GResp {
		r := target.GResp{Code: codes.OK, Hello: "h", Token: "tok", UserID: 1, Items: []int64{1, 2}, OrderID: 1}
		v := call.MD.Get("x-entry")
		if len(v) != 1 {
			return r
		}
		i, err := strconv.Atoi(v[0])
		if err != nil || i >= len(c.Behs) {
			return r
		}
		switch b := c.Behs[i]; b.Kind {
		case "code":
			r.Code = codes.Code(b.Code)
		case "stall":
			r.DelayMs = 1500
		case "huge":
			r.Items = big
		}
		return r
	})
	out := pand.TempName("c19g", ".phout")
	defer pand.Remove(out)
	n := len(c.Behs)
	ammo, gunType, cleanup := grpcAmmo(n, c.Scenario, c.Assert)
	defer cleanup()
	gun := map[string]any{"type": gunType, "target": tg.Addr(), "timeout": "400ms"}
	pool := map[string]any{
		"id": "p", "gun": gun, "ammo": ammo,
		"result":  map[string]any{"type": "phout", "destination": out},
		"rps":     map[string]any{"type": "once", "times": n + 5},
		"startup": map[string]any{"type": "once", "times": c.Instances},
	}
	if err := runPool(pool); err != nil {
		return fmt.Errorf("%v (behaviours %+v)", err, c.Behs)
	}
	lines, data, err := readPhout(out)
	if err != nil {
		return err
	}
	if len(lines) != n {
		return fmt.Errorf("%d samples for %d calls\n%s", len(lines), n, data)
	}
	mis, goodAfter := 0, false
	for i, b := range c.Behs {
		l := grpcSample(lines, c.Scenario, i)
		if l == nil {
			return fmt.Errorf("no sample for call %d (tag t%d)\n%s", i, i, data)
		}
		if b.Kind == "ok" {
			if l.proto != 200 {
				return fmt.Errorf("call %d was answered OK but its sample says %d\n%s", i, l.proto, data)
			}
			if mis > 0 {
				goodAfter = true
			}
		} else {
			mis++
			o.Class("grpc_mis_" + b.Kind)
			if b.Kind == "stall" && l.proto != 504 {
				return fmt.Errorf("call %d stalled past the timeout, sample says %d, expected 504", i, l.proto)
			}
		}
	}
	o.ClassIf(c.Scenario, "grpc_scenario_gun")
	o.ClassIf(c.Scenario && c.Assert, "grpc_assert_postprocessor")
	if mis > 0 && goodAfter {
		o.NonTrivial()
	}
	return nil
}

func TestGRPCGuns(t *testing.T) {
	pand.Init()
	r := vf.Start(t, "C19")
	vf.Check(r, genGRPC, vf.LoadTolerant(25*time.Millisecond, checkGRPC))
}
