package c15

// "[next] indexing into a data source hands out consecutive rows round-robin across all instances" at the very first
// use of a path: several instances evaluate the same `source.<name>[next]` path for the first time at the same moment.
// Every trial uses a fresh iterator (as every scenario gets at provider construction) and releases 2-8 goroutines at
// once; over all calls of a trial the rows must be exactly 0,1,2,... mod R as a multiset.

import (
	"fmt"
	"sync"
	"testing"
	"time"

	"verif/harness/internal/vf"

	"github.com/yandex/pandora/lib/mp"
	"pgregory.net/rapid"
)

type NextRaceCase struct {
	Rows    int `json:"rows"`
	Callers int `json:"callers"`
	Calls   int `json:"calls_per_caller"`
	Paths   int `json:"paths"` // distinct [next] paths used by every caller (each has its own counter)
	Trials  int `json:"trials"`
}

func genNextRace(t *rapid.T) NextRaceCase {
	return NextRaceCase{
		Rows:    rapid.IntRange(1, 5).Draw(t, "rows"),
		Callers: rapid.IntRange(2, 8).Draw(t, "callers"),
		Calls:   rapid.IntRange(1, 4).Draw(t, "calls"),
		Paths:   rapid.IntRange(1, 3).Draw(t, "paths"),
		Trials:  150,
	}
}

func checkNextRace(c NextRaceCase, o *vf.Obs) error {
	rows := make([]any, c.Rows)
	for i := range rows {
		rows[i] = map[string]any{"id": i}
	}
	src := map[string]any{}
	paths := make([]string, c.Paths)
	for p := range paths {
		name := fmt.Sprintf("users%d", p)
		src[name] = rows
		paths[p] = fmt.Sprintf("source.%s[next].id", name)
	}
	vars := map[string]any{"source": src}
	for trial := 0; trial < c.Trials; trial++ {
		iter := mp.NewNextIterator(time.Now().UnixNano())
		got := make([][]int, c.Callers) // per caller: row ids, path-major
		gate := make(chan struct{})
		var wg sync.WaitGroup
		var sink vf.ErrSink
		for k := 0; k < c.Callers; k++ {
			k := k
			vf.GoErr(&wg, &sink, func() {
				<-gate
				for n := 0; n < c.Calls; n++ {
					for p, path := range paths {
						v, err := mp.GetMapValue(vars, path, iter)
						if err != nil {
							sink.Set(fmt.Errorf("GetMapValue(%s): %v", path, err))
							return
						}
						id, ok := v.(int)
						if !ok {
							sink.Set(fmt.Errorf("GetMapValue(%s) = %#v", path, v))
							return
						}
						got[k] = append(got[k], p*1000+id)
					}
				}
			})
		}
		close(gate)
		wg.Wait()
		if err := sink.Get(); err != nil {
			return err
		}
		total := c.Callers * c.Calls
		for p := range paths {
			count := make([]int, c.Rows)
			for k := range got {
				for _, x := range got[k] {
					if x/1000 == p {
						count[x%1000]++
					}
				}
			}
			for r := 0; r < c.Rows; r++ {
				want := total / c.Rows
				if r < total%c.Rows {
					want++
				}
				if count[r] != want {
					return fmt.Errorf("trial %d: %d instances evaluated %s %d times each, starting together on a fresh iterator: row %d was handed out %d times, round-robin over %d rows gives %d (per row: %v)",
						trial, c.Callers, paths[p], c.Calls, r, count[r], c.Rows, want, count)
				}
			}
		}
	}
	o.ClassIf(c.Callers >= 4, "callers_ge_4")
	o.ClassIf(c.Paths >= 2, "several_paths")
	o.NonTrivial()
	return nil
}

func TestNextFirstTouchRace(t *testing.T) {
	r := vf.Start(t, "C15")
	vf.Check(r, genNextRace, checkNextRace)
}
