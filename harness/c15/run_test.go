package c15

import (
	"context"
	"fmt"
	"io"
	"net"
	"net/http"
	"sort"
	"strconv"
	"strings"
	"sync"
	"time"

	"verif/harness/internal/pand"
	"verif/harness/internal/scengen"
	si "verif/harness/internal/sceninterp"
	"verif/harness/internal/target"
	"verif/harness/internal/vf"

	"github.com/spf13/afero"
	httpscenario "github.com/yandex/pandora/components/guns/http_scenario"
	"github.com/yandex/pandora/core"
	"github.com/yandex/pandora/core/aggregator/netsample"
	"github.com/yandex/pandora/core/engine"
)

// samp is one reported sample.
type samp struct {
	Tags  string
	Proto int
	Net   int
	Err   string
}

func (s samp) failed() bool { return s.Err != "" || s.Net != 0 }

func (s samp) String() string {
	return fmt.Sprintf("{tags %q proto %d net %d err %q}", s.Tags, s.Proto, s.Net, s.Err)
}

// recAgg is a recording aggregator (copies what it needs: samples are pooled).
type recAgg struct {
	mu      sync.Mutex
	samples []samp
}

func (a *recAgg) Run(ctx context.Context, _ core.AggregatorDeps) error {
	<-ctx.Done()
	return nil
}

func (a *recAgg) Report(s core.Sample) {
	ns, ok := s.(*netsample.Sample)
	if !ok {
		a.mu.Lock()
		a.samples = append(a.samples, samp{Tags: fmt.Sprintf("<%T>", s)})
		a.mu.Unlock()
		return
	}
	x := samp{Tags: ns.Tags(), Proto: ns.ProtoCode()}
	if e := ns.Err(); e != nil {
		x.Err = e.Error()
		if x.Err == "" {
			x.Err = "error"
		}
	}
	// the net code has no getter: it is the 11th column of the phout rendering
	if f := strings.Split(ns.String(), "\t"); len(f) == 12 {
		x.Net, _ = strconv.Atoi(f[10])
	}
	a.mu.Lock()
	a.samples = append(a.samples, x)
	a.mu.Unlock()
}

func (a *recAgg) Samples() []samp {
	a.mu.Lock()
	defer a.mu.Unlock()
	return append([]samp(nil), a.samples...)
}

// ammoStep is one step of a scenario ammo as the provider handed it to the gun.
type ammoStep struct {
	Name  string
	Sleep time.Duration
}

// ammoRec is what one Acquire of the real provider returned (copied at once: the
// gun owns the ammo afterwards).
type ammoRec struct {
	Known   bool // the ammo is the http/scenario gun's exported ammo type
	Type    string
	Name    string
	MinWait time.Duration
	Steps   []ammoStep
}

// recProvider passes everything through to the real provider and records the
// scenario every Acquire hands out.
type recProvider struct {
	core.Provider
	mu       sync.Mutex
	acquired []ammoRec
}

func (p *recProvider) Acquire() (core.Ammo, bool) {
	a, ok := p.Provider.Acquire()
	if !ok {
		return a, ok
	}
	rec := ammoRec{Type: fmt.Sprintf("%T", a)}
	if sc, isSc := a.(*httpscenario.Scenario); isSc && sc != nil {
		rec.Known, rec.Name, rec.MinWait = true, sc.Name, sc.MinWaitingTime
		for _, r := range sc.Requests {
			rec.Steps = append(rec.Steps, ammoStep{Name: r.Name, Sleep: r.Sleep})
		}
	}
	p.mu.Lock()
	p.acquired = append(p.acquired, rec)
	p.mu.Unlock()
	return a, ok
}

func (p *recProvider) Acquired() []ammoRec {
	p.mu.Lock()
	defer p.mu.Unlock()
	return append([]ammoRec(nil), p.acquired...)
}

// runResult is the recorded history of one run.
type runResult struct {
	T0      time.Time // taken before the engine was started
	Recs    []target.Rec
	Samples []samp
	Ammo    []ammoRec // in the order of Acquire
	YAML    string
}

// toResp turns a reply of the world into a scripted response. keep: how much of the
// body is transferred before the connection is dropped when the reply is cut short
// (reduced modulo the length of the body, so the transfer is never complete).
//
// chunk (Case.chunkAt): 0 = the answer carries Content-Length; otherwise it is written in two pieces with a flush after
// each, i.e. without Content-Length (chunked transfer encoding), cut after (chunk-1) mod (len(body)+1) bytes.
func toResp(rep si.Reply, keep, chunk int) target.Resp {
	if rep.Closed {
		return target.Resp{Hijack: func(c net.Conn, rw io.ReadWriter) {}}
	}
	if rep.Cut && len(rep.Body) > 0 {
		body := rep.Body
		if keep < 0 {
			keep = -keep
		}
		sent := body[:keep%len(body)]
		var sb strings.Builder
		fmt.Fprintf(&sb, "HTTP/1.1 %d %s\r\n", rep.Status, http.StatusText(rep.Status))
		for _, k := range sortedHeaderNames(rep.Header) {
			fmt.Fprintf(&sb, "%s: %s\r\n", k, rep.Header[k])
		}
		fmt.Fprintf(&sb, "Content-Length: %d\r\n\r\n%s", len(body), sent)
		raw := sb.String()
		// the target flushes what was written and closes the connection when Hijack returns
		return target.Resp{Hijack: func(c net.Conn, rw io.ReadWriter) { _, _ = io.WriteString(rw, raw) }}
	}
	if rep.Announced > 0 {
		// the answer to HEAD: status line and headers only. With Content-Length it states the size of the body a GET would
		// be answered with (what net/http's and most other servers do when the handler sets the header); where the same
		// answer to GET would be streamed without Content-Length the answer to HEAD has none either.
		hdr := map[string]string{}
		for k, v := range rep.Header {
			hdr[k] = v
		}
		if chunk == 0 {
			hdr["Content-Length"] = strconv.Itoa(rep.Announced)
		}
		return target.Resp{Status: rep.Status, Header: hdr}
	}
	if chunk > 0 && len(rep.Body) > 0 {
		at := (chunk - 1) % (len(rep.Body) + 1)
		var chunks [][]byte
		for _, part := range []string{rep.Body[:at], rep.Body[at:]} {
			if part != "" {
				chunks = append(chunks, []byte(part))
			}
		}
		return target.Resp{Status: rep.Status, Header: rep.Header, Chunks: chunks}
	}
	// (Go's server would leave Content-Length out by itself for a body beyond its 2 KiB write buffer)
	hdr := map[string]string{"Content-Length": strconv.Itoa(len(rep.Body))}
	for k, v := range rep.Header {
		hdr[k] = v
	}
	return target.Resp{Status: rep.Status, Header: hdr, Body: []byte(rep.Body)}
}

func sortedHeaderNames(h map[string]string) []string {
	names := make([]string, 0, len(h))
	for k := range h {
		names = append(names, k)
	}
	sort.Strings(names)
	return names
}

// reqName is the request definition a recorded request belongs to: by
// construction every URI starts with "/<request name>".
func reqName(uri string) string {
	p := strings.TrimPrefix(uri, "/")
	if k := strings.IndexAny(p, "/?"); k >= 0 {
		p = p[:k]
	}
	return p
}

// runProgram writes the description and its source files to the shared fs and runs
// shots invocations through the real http/scenario provider, gun and engine.
//
// answlog: the gun's answer log is switched on (filter all, written to /dev/null): the gun then reads and keeps the body
// of every answer, also of steps without postprocessors.
func runProgram(prog *si.Program, shots, instances int, keepAlive, answlog bool, script func(seq int, r *target.Rec) target.Resp) (*runResult, error) {
	tg, mu := target.Shared(false)
	mu.Lock()
	defer mu.Unlock()
	tg.Reset(script)

	dir := pand.TempName("c15", "")
	model := prog.Model().Rebase(dir)
	yml := scengen.RenderYAML(model)
	fs := pand.FS()
	var files []string
	for name, content := range model.Files() {
		if err := afero.WriteFile(fs, name, []byte(content), 0o644); err != nil {
			return nil, err
		}
		files = append(files, name)
	}
	desc := dir + "/scenario.yaml"
	if err := afero.WriteFile(fs, desc, yml, 0o644); err != nil {
		return nil, err
	}
	files = append(files, desc)
	defer func() {
		for _, f := range files {
			pand.Remove(f)
		}
		_ = fs.RemoveAll(dir)
	}()

	pool := map[string]any{
		"id": "p",
		"gun": map[string]any{"type": "http/scenario", "target": tg.Addr(), "response-header-timeout": "5s",
			"disable-keep-alives": !keepAlive, "dial": map[string]any{"timeout": "5s"}},
		"ammo":    map[string]any{"type": "http/scenario", "file": desc, "limit": shots},
		"result":  map[string]any{"type": "discard"},
		"rps":     map[string]any{"type": "once", "times": shots + 5},
		"startup": map[string]any{"type": "once", "times": instances},
	}
	if answlog {
		pool["gun"].(map[string]any)["answlog"] = map[string]any{"enabled": true, "path": "/dev/null", "filter": "all"}
	}
	var conf engine.Config
	if err := pand.Decode(map[string]any{"pools": []any{pool}}, &conf); err != nil {
		return nil, fmt.Errorf("a valid scenario description was rejected: %v\n%s", err, yml)
	}
	agg := &recAgg{}
	conf.Pools[0].Aggregator = agg
	prov := &recProvider{Provider: conf.Pools[0].Provider}
	conf.Pools[0].Provider = prov
	eng := engine.New(pand.NopLog(), pand.Metrics(), conf)
	res := &runResult{YAML: string(yml), T0: time.Now()}
	var runErr error
	ok, stacks := vf.Deadline(120*time.Second, func() {
		runErr = eng.Run(context.Background())
		eng.Wait()
	})
	if !ok {
		return nil, fmt.Errorf("run did not finish in 120s\n%s", stacks)
	}
	if runErr != nil {
		return nil, fmt.Errorf("the run was aborted: %v\n%s", runErr, yml)
	}
	res.Recs = tg.Records()
	res.Samples = agg.Samples()
	res.Ammo = prov.Acquired()
	tg.Reset(nil)
	return res, nil
}
