// C15 — scenario execution: order, multiplicity, variable flow, stop on failure,
// weights, [next] round-robin.
//
// Generated scenario programs (internal/sceninterp.Program) are rendered to YAML and
// run through the REAL http/scenario provider, gun and engine against the in-process
// recording target. The oracle is the reference interpreter of internal/sceninterp,
// written from the documentation: it is replayed against the recorded request log
// and sample stream.
package c15

import (
	"encoding/json"
	"fmt"
	"hash/fnv"
	"sort"
	"strconv"
	"strings"
	"testing"
	"time"

	"verif/harness/internal/pand"
	"verif/harness/internal/scengen"
	si "verif/harness/internal/sceninterp"
	"verif/harness/internal/target"
	"verif/harness/internal/vf"

	"pgregory.net/rapid"
)

func (c Case) faultAt(seq int) FaultAt {
	for _, f := range c.Faults {
		if f.N == seq {
			return f
		}
	}
	return FaultAt{N: -1}
}

// reply is the (pure) response of the target to the seq-th request it receives.
func (c Case) reply(def *si.Request, seq int) si.Reply {
	f := c.faultAt(seq)
	if f.Kind == si.FaultClose && c.KeepAlive && seq != 0 && resentByTransport(def) {
		// World rule: where connections are kept alive the target drops one without answering only for requests that
		// net/http's Transport does not re-send by itself (the first request of the run: fresh connection; POST, PUT,
		// DELETE: not replayable). A replayable request on a reused connection would be sent again below the gun, which
		// the property says nothing about. (The generator places faults by the fault-free plan; which request really
		// arrives seq-th depends on the earlier faults and the order of the scenarios, hence the rule is applied here.)
		f = FaultAt{N: -1}
	}
	return si.MakeReply(def, fmt.Sprintf("%dq%s", seq, c.Salt), seq, f.Kind, f.Status)
}

// wireKey identifies a request by everything the scenario renders: method, URI,
// the templated headers of its definition and the body.
func wireKey(method, uri string, headers map[string]string, body string) string {
	names := make([]string, 0, len(headers))
	for k := range headers {
		names = append(names, k)
	}
	sort.Strings(names)
	var sb strings.Builder
	sb.WriteString(method + " " + uri + "\n")
	for _, k := range names {
		sb.WriteString(k + ": " + headers[k] + "\n")
	}
	sb.WriteString("\n" + body)
	return sb.String()
}

func renderedKey(r *si.Rendered) string {
	b := ""
	if r.Body != nil {
		b = *r.Body
	}
	return wireKey(r.Method, r.URI, r.Headers, b)
}

func recKey(def *si.Request, rec *target.Rec) string {
	h := map[string]string{}
	for _, x := range def.Headers {
		k := si.CanonHeader(x.Name)
		h[k] = strings.Join(rec.Header.Values(k), "\x1f")
	}
	return wireKey(rec.Method, rec.RequestURI, h, string(rec.Body))
}

// diffReq compares a recorded request with the interpreter's rendering.
func diffReq(rec *target.Rec, want *si.Rendered) string {
	var d []string
	if rec.Method != want.Method {
		d = append(d, fmt.Sprintf("method %q, expected %q", rec.Method, want.Method))
	}
	if rec.RequestURI != want.URI {
		d = append(d, fmt.Sprintf("URI %q, expected %q", rec.RequestURI, want.URI))
	}
	names := make([]string, 0, len(want.Headers))
	for k := range want.Headers {
		names = append(names, k)
	}
	sort.Strings(names)
	for _, k := range names {
		got := rec.Header.Values(k)
		if len(got) != 1 || got[0] != want.Headers[k] {
			d = append(d, fmt.Sprintf("header %s = %q, expected [%q]", k, got, want.Headers[k]))
		}
	}
	wb := ""
	if want.Body != nil {
		wb = *want.Body
	}
	if string(rec.Body) != wb {
		d = append(d, fmt.Sprintf("body %q, expected %q", rec.Body, wb))
	}
	return strings.Join(d, "; ")
}

func describe(c Case, res *runResult) string {
	var sb strings.Builder
	fmt.Fprintf(&sb, "--- shots %d (cycles %d), instances %d, keep-alive %v, faults %+v\n", c.shots(), c.Cycles, c.Instances, c.KeepAlive, c.Faults)
	if res != nil {
		sb.WriteString("--- scenario.yaml\n" + res.YAML)
		for _, s := range c.Prog.Sources {
			if s.Kind != si.SrcVars {
				fmt.Fprintf(&sb, "--- source %s\n%s", s.Name, s.FileContent())
			}
		}
		sb.WriteString("--- requests at the target\n")
		for i, r := range res.Recs {
			if i >= 60 {
				fmt.Fprintf(&sb, "... %d more\n", len(res.Recs)-i)
				break
			}
			fmt.Fprintf(&sb, "#%d %s %s %q\n", i, r.Method, r.RequestURI, r.Body)
		}
		sb.WriteString("--- samples\n")
		for i, s := range res.Samples {
			if i >= 60 {
				fmt.Fprintf(&sb, "... %d more\n", len(res.Samples)-i)
				break
			}
			fmt.Fprintf(&sb, "#%d %s\n", i, s)
		}
	}
	return sb.String()
}

type seqStats struct {
	flowPost, flowPre, noValue, mult, multSleep, sleepItem, minWait bool
	htmlStep, textStep, htmlEsc, htmlNoValue, htmlURIRef, htmlHdrRef, htmlBodyRef bool
	nextUsed, nextWrapped                                           bool
	fails                                                           map[string]bool
	failPos                                                         map[string]bool
	non2xxContinue                                                  bool
	gapsChecked, waitsChecked                                       int
	ammoChecked, ammoPauseDiffers, ammoArgDiffers                   bool
	size                                                            map[string]bool            // classes of judged size assertions
	rendered                                                        map[string]bool            // "scenario/request" uses that were rendered and sent
	head                                                            map[string]bool            // classes of answered HEAD steps
	sharedNext                                                      map[string]map[string]bool // [next] path of a request listed by several scenarios -> scenarios that took a row
	sharedNextWrapped                                               bool
}

// checkAmmo compares the scenario the provider handed to the gun for one invocation
// with the documented expansion of the request list: the same steps in the same
// order, each followed by exactly the pause its own occurrence states (name(n, ms)
// after every repetition, sleep(ms) once after the step before it), and the stated
// min_waiting_time. It needs no clock: a pause that is longer than stated (e.g. one
// occurrence's pause showing up after another occurrence of the same request) is as
// wrong as one that is shorter.
func checkAmmo(a ammoRec, sc *si.Scenario, steps []si.ExpStep) string {
	if a.Name != sc.Name {
		return fmt.Sprintf("it is scenario %q", a.Name)
	}
	var got, want []string
	same := len(a.Steps) == len(steps)
	for _, x := range a.Steps {
		got = append(got, fmt.Sprintf("%s+%v", x.Name, x.Sleep))
	}
	for i, x := range steps {
		d := time.Duration(x.SleepMs) * time.Millisecond
		want = append(want, fmt.Sprintf("%s+%v", x.Name, d))
		same = same && a.Steps[i].Name == x.Name && a.Steps[i].Sleep == d
	}
	if !same {
		return fmt.Sprintf("its steps (request+pause after it) are %v, the request list %v expands to %v", got, scengen.Scenario{Steps: sc.Steps}.StepStrings(), want)
	}
	mw := time.Duration(0)
	if sc.MinWait != nil {
		mw = time.Duration(*sc.MinWait) * time.Millisecond
	}
	if a.MinWait != mw {
		return fmt.Sprintf("its min_waiting_time is %v, stated %v", a.MinWait, mw)
	}
	return ""
}

// pausesDifferPerOccurrence: some request is listed several times in the scenario
// and the pauses after its executed occurrences are not all the same (whether by
// name(n, ms) or by a sleep(ms) item).
func pausesDifferPerOccurrence(steps []si.ExpStep) bool {
	first := map[string]int{}
	for _, x := range steps {
		if ms, ok := first[x.Name]; ok && ms != x.SleepMs {
			return true
		} else if !ok {
			first[x.Name] = x.SleepMs
		}
	}
	return false
}

// pauseArgDiffers: an item name(n, ms) is followed, later in the same list, by an
// item of the same request with another pause argument or none.
func pauseArgDiffers(items []scengen.Step) bool {
	arg := map[string][]int{}
	for _, x := range items {
		if x.Sleep {
			continue
		}
		ms := 0
		if x.Ms != nil {
			ms = *x.Ms
		}
		for _, earlier := range arg[x.Name] {
			if earlier > 0 && earlier != ms {
				return true
			}
		}
		arg[x.Name] = append(arg[x.Name], ms)
	}
	return false
}

// checkSeq: one instance, requests strictly sequential; the interpreter is replayed
// against the request log and the sample stream, step by step.
func checkSeq(c Case, o *vf.Obs) error {
	prog := &c.Prog
	shots := c.shots()
	script := func(seq int, r *target.Rec) target.Resp {
		def := prog.Request(reqName(r.RequestURI))
		if def == nil {
			return target.Resp{Status: 599, Body: []byte("request of no known definition")}
		}
		return toResp(c.reply(def, seq), c.faultAt(seq).Keep, c.chunkAt(seq))
	}
	res, err := runProgram(prog, shots, 1, c.KeepAlive, c.AnswLog, script)
	if err != nil {
		return err
	}
	fail := func(format string, a ...any) error {
		return fmt.Errorf(format+"\n%s", append(a, describe(c, res))...)
	}
	entryOf := map[string]string{}
	for _, sc := range prog.Scenarios {
		entryOf[sc.Expand()[0].Name] = sc.Name
	}
	st := seqStats{fails: map[string]bool{}, failPos: map[string]bool{}, size: map[string]bool{}, rendered: map[string]bool{},
		head: map[string]bool{}, sharedNext: map[string]map[string]bool{}}
	it := si.New(prog)
	ri, sx := 0, 0
	counts := map[string]int{}
	lastAt := res.T0 // no request of the current invocation was sent before this instant
	lastWhole := false // the previous request at the target was answered completely (its connection went back to the idle pool)
	type bound struct {
		from time.Time
		ms   int
		what string
	}
	var pending []bound
	for inv := 0; inv < shots; inv++ {
		if ri >= len(res.Recs) {
			return fail("only %d of %d scenario invocations reached the target (%d requests recorded)", inv, shots, len(res.Recs))
		}
		first := &res.Recs[ri]
		scn, ok := entryOf[reqName(first.RequestURI)]
		if !ok {
			return fail("invocation %d must begin with the first listed request of a scenario, but request #%d at the target is %s %s (steps after a failed step executed, or steps out of order)",
				inv, ri, first.Method, first.RequestURI)
		}
		counts[scn]++
		sc := prog.Scenario(scn)
		in := it.Begin(scn)
		invBase := lastAt
		headPassed := false // a HEAD step of this invocation whose (absent) body the gun read under an announced Content-Length passed
		// one instance: the inv-th Acquire is the ammo of the inv-th invocation
		if inv >= len(res.Ammo) {
			return fail("invocation %d (scenario %s) reached the target but the provider handed out only %d ammo", inv, scn, len(res.Ammo))
		}
		if a := res.Ammo[inv]; a.Known {
			if d := checkAmmo(a, sc, in.Steps()); d != "" {
				return fail("invocation %d runs scenario %s (by its first request at the target), but in the ammo the provider handed to the gun for it %s", inv, scn, d)
			}
			st.ammoChecked = true
			st.ammoPauseDiffers = st.ammoPauseDiffers || pausesDifferPerOccurrence(in.Steps())
			st.ammoArgDiffers = st.ammoArgDiffers || pauseArgDiffers(sc.Steps)
		}
		for s := in.Step(); s != nil; s = in.Step() {
			where := fmt.Sprintf("invocation %d (scenario %s) step %d (%s)", inv, scn, s.Index, s.Def.Name)
			for _, u := range s.Next {
				st.nextUsed = true
				if u.Seq != u.Row {
					st.nextWrapped = true
				}
				if u.Shared {
					if st.sharedNext[u.Path] == nil {
						st.sharedNext[u.Path] = map[string]bool{}
					}
					st.sharedNext[u.Path][scn] = true
					st.sharedNextWrapped = st.sharedNextWrapped || u.Seq != u.Row
				}
			}
			pos := "middle"
			if s.Index == 0 {
				pos = "first"
			} else if s.Index == len(in.Steps())-1 {
				pos = "last"
			}
			if s.PreFail != "" {
				// the step fails before anything is sent: one failed sample, nothing at the target, stop
				if sx >= len(res.Samples) {
					return fail("%s fails before sending (%s: %s): a failed sample is expected but only %d samples were reported", where, s.PreFail, s.Msg, len(res.Samples))
				}
				sm := res.Samples[sx]
				sx++
				if !sm.failed() {
					return fail("%s fails before sending (%s: %s) but its sample #%d is not marked failed: %s", where, s.PreFail, s.Msg, sx-1, sm)
				}
				st.fails[s.PreFail] = true
				if s.PreFail == "template" && strings.Contains(s.Msg, "can't evaluate field") {
					st.fails["template_by_captured_value"] = true
				}
				st.failPos[pos] = true
				break
			}
			if ri >= len(res.Recs) {
				return fail("%s never reached the target (%d requests recorded)", where, len(res.Recs))
			}
			rec := &res.Recs[ri]
			if d := diffReq(rec, s.Req); d != "" {
				return fail("%s: request #%d at the target differs from the reference rendering: %s", where, ri, d)
			}
			st.rendered[scn+"/"+s.Def.Name] = true
			for _, b := range pending {
				if got := rec.At.Sub(b.from); got < time.Duration(b.ms)*time.Millisecond {
					return fail("%s: request #%d arrived %v after %s, but a pause of %d ms is due between them", where, ri, got, b.what, b.ms)
				}
				if strings.HasPrefix(b.what, "request") {
					st.gapsChecked++
				} else {
					st.waitsChecked++
				}
			}
			pending = pending[:0]
			for _, k := range s.Req.LiveRefs {
				switch k {
				case si.RefPost, si.RefPostFld, si.RefPostIdx:
					st.flowPost = true
				case si.RefPre:
					st.flowPre = true
				}
			}
			st.noValue = st.noValue || s.Req.NoValue
			if s.Def.Templater == si.TemplaterHTML {
				st.htmlStep = true
				st.htmlEsc = st.htmlEsc || s.Req.HTMLEscaped
				st.htmlNoValue = st.htmlNoValue || s.Req.NoValue
				st.htmlURIRef = st.htmlURIRef || len(s.Def.URI.Refs()) > 0
				for _, h := range s.Def.Headers {
					st.htmlHdrRef = st.htmlHdrRef || len(h.Value.Refs()) > 0
				}
				st.htmlBodyRef = st.htmlBodyRef || (s.Def.Body != nil && len(s.Def.Body.Refs()) > 0)
			} else {
				st.textStep = true
			}
			rep := c.reply(s.Def, ri)
			chunked := c.chunkAt(ri) > 0 && !rep.Closed && !rep.Cut && rep.Announced == 0
			headCL := rep.Announced > 0 && c.chunkAt(ri) == 0 // answer to HEAD that announces a Content-Length > 0
			if headPassed {
				st.head["step_after_head_step_body_read_content_length_announced"] = true
			}
			lastAt = rec.At
			// the request went over a connection taken from the idle pool: connections are kept alive and the previous
			// exchange of the (only) instance ended with a complete answer
			reused := c.KeepAlive && ri > 0 && lastWhole
			lastWhole = !rep.Closed && !rep.Cut
			ri++
			out := in.Deliver(rep)
			if !rep.Closed && !rep.Cut {
				if chunked {
					st.size["reply_chunked"] = true
				}
				for _, p := range s.Def.Posts {
					if p.Kind != scengen.PostAssert || p.Size == nil {
						continue
					}
					if d := len(rep.Body) - p.Size.Val; p.Size.Op != "=" && d > -20 && d < 20 {
						return fmt.Errorf("harness error: %s: the body of %d bytes is too close to the threshold of size %s %d", where, len(rep.Body), p.Size.Op, p.Size.Val)
					}
					holds, _ := si.SizeHolds(*p.Size, len(rep.Body))
					kind := "assert_size_with_body_patterns"
					if len(p.BodyHas) == 0 {
						kind = "assert_size_only" // no body patterns in the same assertion
					}
					verdict := "fails"
					if holds {
						verdict = "holds"
					}
					how := "content_length"
					if chunked {
						how = "chunked"
					}
					if rep.Announced > 0 {
						how = "head"
					}
					op := map[string]string{"<": "lt", ">": "gt", "=": "eq"}[p.Size.Op]
					for _, k := range []string{kind, kind + "_" + verdict, kind + "_" + how, kind + "_" + how + "_" + verdict, kind + "_" + how + "_" + op + "_" + verdict} {
						st.size[k] = true
					}
					if len(rep.Body) > 2048 {
						st.size[kind+"_body_over_2k"] = true
					}
				}
			}
			if out.Kind == "extract" {
				return fmt.Errorf("harness error: the generated program extracts what the reply does not hold (%s): %s", where, out.Msg)
			}
			if sx >= len(res.Samples) {
				return fail("%s was sent but left no sample (%d samples reported)", where, len(res.Samples))
			}
			sm := res.Samples[sx]
			sx++
			if out.Failed {
				if !sm.failed() {
					return fail("%s fails (%s: %s) but its sample #%d is not marked failed: %s", where, out.Kind, out.Msg, sx-1, sm)
				}
				st.fails[out.Kind] = true
				if out.Kind == "assert" && strings.HasPrefix(out.Msg, "size ") {
					st.fails["assert_size"] = true
					if chunked {
						st.fails["assert_size_chunked_reply"] = true
					}
				}
				if out.Kind == "transport" {
					bare := len(s.Def.Posts) == 0
					if rep.Cut {
						st.fails["transport_body_cut"] = true
					}
					if bare {
						st.fails["transport_step_without_postprocessors"] = true
					}
					if rep.Cut && bare {
						st.fails["body_cut_step_without_postprocessors"] = true
					}
					if pos != "last" {
						st.fails["transport_before_last_step"] = true
					}
					if rep.Closed && reused {
						// (net/http does not re-send the request by itself: the generator keeps connections alive under
						// such faults for POST / PUT / DELETE only)
						st.fails["transport_close_on_reused_connection"] = true
						if s.Index == 0 {
							st.fails["transport_close_on_reused_connection_first_step_of_later_shot"] = true
						} else {
							st.fails["transport_close_on_reused_connection_later_step"] = true
						}
						if pos != "last" {
							st.fails["transport_close_on_reused_connection_before_last_step"] = true
						}
					}
				}
				st.failPos[pos] = true
				continue // Step() returns nil now
			}
			if sm.failed() || sm.Proto != out.Status {
				return fail("%s got a proper %d response and no postprocessor objects, but its sample #%d says %s", where, out.Status, sx-1, sm)
			}
			if out.Status < 200 || out.Status > 299 {
				st.non2xxContinue = true
			}
			if rep.Announced > 0 {
				// a HEAD step that did not fail (the sample says so too). Did the gun read its body, and what was announced?
				posts, read := len(s.Def.Posts) > 0, len(s.Def.Posts) > 0 || c.AnswLog
				st.head["head_step"] = true
				st.head["head_step_no_content_length"] = st.head["head_step_no_content_length"] || !headCL
				st.head["head_step_body_not_read"] = st.head["head_step_body_not_read"] || !read
				st.head["head_step_body_read_content_length_announced"] = st.head["head_step_body_read_content_length_announced"] || (read && headCL)
				st.head["head_step_with_postprocessors_content_length_announced"] = st.head["head_step_with_postprocessors_content_length_announced"] || (posts && headCL)
				st.head["head_step_without_postprocessors_answlog_content_length_announced"] = st.head["head_step_without_postprocessors_answlog_content_length_announced"] || (!posts && read && headCL)
				headPassed = headPassed || (read && headCL)
			}
			if s.Step.SleepMs > 0 {
				pending = append(pending, bound{rec.At, s.Step.SleepMs, fmt.Sprintf("request #%d", ri-1)})
			}
		}
		if in.Completed() && sc.MinWait != nil && *sc.MinWait > 0 {
			st.minWait = true
			pending = append(pending, bound{invBase, int(*sc.MinWait), fmt.Sprintf("the start of invocation %d (min_waiting_time)", inv)})
		}
	}
	if ri != len(res.Recs) {
		r := res.Recs[ri]
		return fail("%d requests reached the target, the %d invocations account for %d; first extra one: #%d %s %s", len(res.Recs), shots, ri, ri, r.Method, r.RequestURI)
	}
	if sx != len(res.Samples) {
		return fail("%d samples were reported, the executed steps account for %d; first extra one: %s", len(res.Samples), sx, res.Samples[sx])
	}
	per, _ := prog.Cycle()
	for _, sc := range prog.Scenarios {
		if counts[sc.Name] != per[sc.Name]*c.Cycles {
			return fail("over %d full cycles scenario %s must run %d x %d times, it ran %d times (all: %v)", c.Cycles, sc.Name, c.Cycles, per[sc.Name], counts[sc.Name], counts)
		}
	}
	// classes
	weighted := len(prog.Scenarios) >= 2
	shared := false
	uses := map[string]int{}
	for _, sc := range prog.Scenarios {
		seen := map[string]bool{}
		for _, x := range sc.Steps {
			if x.Sleep {
				st.sleepItem = true
				continue
			}
			if x.Count != nil && *x.Count != 1 {
				st.mult = true
				if x.Ms != nil {
					st.multSleep = true
				}
			}
			if !seen[x.Name] {
				seen[x.Name] = true
				uses[x.Name]++
			}
		}
	}
	for _, n := range uses {
		shared = shared || n > 1
	}
	gcdGt1 := false
	if weighted {
		sum := 0
		for _, sc := range prog.Scenarios {
			w := 1
			if sc.Weight != nil {
				w = int(*sc.Weight)
			}
			sum += w
		}
		_, ring := prog.Cycle()
		gcdGt1 = ring < sum
	}
	special := false
	for _, r := range prog.Requests {
		for _, h := range r.Headers {
			if h.Name == "url" || h.Name == "body" {
				special = true
			}
		}
		o.ClassIf(r.Templater != "", "templater_explicit")
	}
	for _, s := range prog.Sources {
		o.Class("source_" + s.Kind)
	}
	classNames(prog, st.rendered, o)
	o.ClassIf(st.flowPost, "flow_captured_value")
	o.ClassIf(st.flowPre, "flow_preprocessor_value")
	o.ClassIf(st.noValue, "missing_var_no_value")
	o.ClassIf(st.htmlStep, "templater_html_step_rendered")
	o.ClassIf(st.htmlStep && st.textStep, "templater_html_and_text_steps_in_one_run")
	o.ClassIf(st.htmlEsc, "templater_html_value_needs_escaping")
	o.ClassIf(st.htmlNoValue, "templater_html_missing_var")
	o.ClassIf(st.htmlURIRef, "templater_html_value_in_uri")
	o.ClassIf(st.htmlHdrRef, "templater_html_value_in_header")
	o.ClassIf(st.htmlBodyRef, "templater_html_value_in_body")
	o.ClassIf(st.mult, "multiplicity")
	o.ClassIf(st.multSleep, "multiplicity_with_sleep")
	o.ClassIf(st.sleepItem, "sleep_item")
	o.ClassIf(st.gapsChecked > 0, "pause_checked")
	o.ClassIf(st.ammoChecked, "ammo_pauses_checked")
	o.ClassIf(st.ammoPauseDiffers, "same_request_listed_with_differing_pauses")
	o.ClassIf(st.ammoArgDiffers, "repeated_request_pause_argument_differs")
	o.ClassIf(st.waitsChecked > 0, "min_waiting_time_checked")
	o.ClassIf(st.nextUsed, "next_used")
	o.ClassIf(st.nextWrapped, "next_wrapped")
	o.ClassIf(weighted, "scenarios_ge_2")
	o.ClassIf(gcdGt1, "weights_gcd_gt_1")
	o.ClassIf(shared, "request_shared_by_scenarios")
	o.ClassIf(special, "header_named_url_or_body")
	o.ClassIf(c.KeepAlive, "keep_alive")
	o.ClassIf(st.non2xxContinue, "non2xx_without_assert_continues")
	for k := range st.fails {
		o.Class("fail_" + k)
	}
	for k := range st.size {
		o.Class(k)
	}
	for k, v := range st.head {
		o.ClassIf(v, k)
	}
	o.ClassIf(c.AnswLog, "answlog_enabled")
	sharedNext := false
	for _, by := range st.sharedNext {
		sharedNext = sharedNext || len(by) >= 2
	}
	o.ClassIf(sharedNext, "next_in_request_shared_by_scenarios")
	o.ClassIf(sharedNext && st.sharedNextWrapped, "next_in_request_shared_by_scenarios_wrapped")
	o.ClassIf(len(c.Chunked) > 0, "target_answers_chunked_in_part")
	for k := range st.failPos {
		o.Class("fail_at_" + k + "_step")
	}
	o.ClassIf(len(st.fails) == 0, "no_failure")
	if st.flowPost || st.mult || len(st.fails) > 0 || weighted {
		o.NonTrivial()
	}
	return nil
}

// classNames labels the naming of the program: snake_case names, and (scenario, request) uses that read the same when
// joined by an underscore. rendered (nil = not tracked: every use counts) holds the uses that were rendered and sent.
func classNames(prog *si.Program, rendered map[string]bool, o *vf.Obs) {
	snake := false
	for _, r := range prog.Requests {
		snake = snake || strings.Contains(r.Name, "_")
	}
	o.ClassIf(snake, "request_names_with_underscore")
	cl := map[string]bool{}
	for _, pr := range equalJoins(prog) {
		cl["names_join_equally"] = true
		a, b := prog.Request(pr[0][1]), prog.Request(pr[1][1])
		if rendered != nil && !(rendered[pr[0][0]+"/"+a.Name] && rendered[pr[1][0]+"/"+b.Name]) {
			continue
		}
		cl["names_join_equally_both_rendered"] = true
		if a.Templater != "" || b.Templater != "" {
			continue
		}
		cl["names_join_equally_both_rendered_default_templater"] = true
		for _, h := range a.Headers {
			for _, g := range b.Headers {
				if si.CanonHeader(h.Name) == si.CanonHeader(g.Name) && h.Value.Text() != g.Value.Text() {
					cl["names_join_equally_default_templater_same_header_name"] = true
				}
			}
		}
		if a.Body != nil && b.Body != nil && a.Body.Text() != b.Body.Text() {
			cl["names_join_equally_default_templater_both_body"] = true
		}
	}
	for _, k := range sortedKeys(cl) {
		o.Class(k)
	}
}

func entryScenario(p *si.Program) map[string]string {
	m := map[string]string{}
	for _, sc := range p.Scenarios {
		m[sc.Expand()[0].Name] = sc.Name
	}
	return m
}

// ---- concurrent: [next] hands out consecutive rows across instances ----

func freshOf(key string) (string, int) {
	h := fnv.New64a()
	h.Write([]byte(key))
	v := h.Sum64()
	s := strconv.FormatUint(v, 36)
	if len(s) > 8 {
		s = s[:8]
	}
	return s, int(v % 1000)
}

func checkConcurrent(c Case, o *vf.Obs) error {
	prog := &c.Prog
	shots := c.shots()
	script := func(seq int, r *target.Rec) target.Resp {
		def := prog.Request(reqName(r.RequestURI))
		if def == nil {
			return target.Resp{Status: 599, Body: []byte("request of no known definition")}
		}
		fresh, num := freshOf(recKey(def, r))
		return toResp(si.MakeReply(def, fresh+c.Salt, num, si.FaultNone, 0), 0, c.chunkAt(seq))
	}
	res, err := runProgram(prog, shots, c.Instances, c.KeepAlive, c.AnswLog, script)
	if err != nil {
		return err
	}
	fail := func(format string, a ...any) error {
		return fmt.Errorf(format+"\n%s", append(a, describe(c, res))...)
	}
	// expectation: every scenario runs cycles x weight/gcd times; its k-th invocation takes row k of the
	// source its first step indexes with [next] (programs of this test take one row per invocation), so the
	// multiset of requests does not depend on how the instances interleave. A request that several scenarios list may
	// index a source of its own with [next]: its executions, whichever scenario and instance runs them, take rows
	// 0,1,2,... of it; such a request shows nothing else of its invocation and no other step refers to it (the
	// generator isolates it), so the multiset does not depend on which invocation got which row either
	wantReq := map[string]int{}
	wantSamp := map[string]int{}
	it := si.New(prog)
	per, _ := prog.Cycle()
	nextUsed, wrapped, flow := false, false, false
	sharedNext := map[string]map[string]bool{} // [next] path of a request listed by several scenarios -> scenarios that took a row
	head := false
	total := 0
	for _, sc := range prog.Scenarios {
		for k := 0; k < per[sc.Name]*c.Cycles; k++ {
			in := it.Begin(sc.Name)
			for s := in.Step(); s != nil; s = in.Step() {
				for _, u := range s.Next {
					nextUsed = true
					wrapped = wrapped || u.Seq != u.Row
					if u.Shared {
						if sharedNext[u.Path] == nil {
							sharedNext[u.Path] = map[string]bool{}
						}
						sharedNext[u.Path][sc.Name] = true
					}
				}
				head = head || s.Def.Method == "HEAD"
				if s.PreFail != "" {
					wantSamp["failed"]++
					break
				}
				key := renderedKey(s.Req)
				wantReq[key]++
				total++
				for _, kind := range s.Req.LiveRefs {
					if kind != si.RefPre && kind != si.RefSrcRow && kind != si.RefSrcVar {
						flow = true
					}
				}
				fresh, num := freshOf(key)
				out := in.Deliver(si.MakeReply(s.Def, fresh+c.Salt, num, si.FaultNone, 0))
				if out.Failed {
					wantSamp["failed"]++
				} else {
					wantSamp[fmt.Sprintf("ok %d", out.Status)]++
				}
			}
		}
	}
	gotReq := map[string]int{}
	for i := range res.Recs {
		r := &res.Recs[i]
		def := prog.Request(reqName(r.RequestURI))
		if def == nil {
			return fail("request #%d %s %s belongs to no request definition", i, r.Method, r.RequestURI)
		}
		gotReq[recKey(def, r)]++
	}
	var diffs []string
	for k, n := range wantReq {
		if gotReq[k] != n {
			diffs = append(diffs, fmt.Sprintf("expected %d x, got %d x:\n%s", n, gotReq[k], k))
		}
	}
	for k, n := range gotReq {
		if _, ok := wantReq[k]; !ok {
			diffs = append(diffs, fmt.Sprintf("unexpected %d x:\n%s", n, k))
		}
	}
	if len(diffs) > 0 {
		sort.Strings(diffs)
		if len(diffs) > 8 {
			diffs = diffs[:8]
		}
		return fail("with %d instances and %d shots the multiset of requests at the target differs from the reference ([next] must hand out rows 0..M-1 mod R per scenario - to a request that several scenarios list: over all of them -, whatever the interleaving):\n%s",
			c.Instances, shots, strings.Join(diffs, "\n"))
	}
	gotSamp := map[string]int{}
	for _, s := range res.Samples {
		if s.failed() {
			gotSamp["failed"]++
		} else {
			gotSamp[fmt.Sprintf("ok %d", s.Proto)]++
		}
	}
	ws, _ := json.Marshal(wantSamp)
	gs, _ := json.Marshal(gotSamp)
	if string(ws) != string(gs) {
		return fail("samples %s, expected %s", gs, ws)
	}
	// did invocations really overlap? (an invocation began while an earlier one still had steps to send)
	open, interleaved := 0, false
	for i := range res.Recs {
		name := reqName(res.Recs[i].RequestURI)
		if scn, ok := entryScenario(prog)[name]; ok {
			interleaved = interleaved || open > 0
			open += len(prog.Scenario(scn).Expand()) - 1
		} else if open > 0 {
			open--
		}
	}
	classNames(prog, nil, o)
	o.ClassIf(interleaved, "invocations_interleaved_at_target")
	o.Class(fmt.Sprintf("instances_%d", c.Instances))
	o.ClassIf(nextUsed, "next_used")
	o.ClassIf(wrapped, "next_wrapped")
	o.ClassIf(flow, "flow_captured_value")
	o.ClassIf(len(prog.Scenarios) >= 2, "scenarios_ge_2")
	o.ClassIf(c.KeepAlive, "keep_alive")
	o.ClassIf(c.AnswLog, "answlog_enabled")
	o.ClassIf(head, "head_step")
	shared := false
	for _, by := range sharedNext {
		shared = shared || len(by) >= 2
	}
	o.ClassIf(shared, "next_in_request_shared_by_scenarios")
	o.ClassIf(shared && c.Instances >= 2, "next_in_request_shared_by_scenarios_instances_ge_2")
	if nextUsed && (c.Instances >= 2 || wrapped) {
		o.NonTrivial()
	}
	return nil
}

// Findings of this check (see /verif/known_findings.json).
const (
	// a request header named exactly `url` or `body` shared the template-cache key of the URI / body template
	// (fixed in /repo b559584; while an id is listed as "known" the generator steers around it, otherwise - as
	// now - headers with these names are generated and judged like any other)
	findingTemplateKey = "scenario-templater-cache-key-collision"
)

func hasSpecialHeader(p *si.Program) bool {
	for _, r := range p.Requests {
		for _, h := range r.Headers {
			if h.Name == "url" || h.Name == "body" {
				return true
			}
		}
	}
	return false
}

// steer moves a generated case away from the listed findings (counted as excluded).
func steer(r *vf.Run, c Case) Case {
	if r.IsKnown(findingTemplateKey) && hasSpecialHeader(&c.Prog) {
		r.Excluded(findingTemplateKey)
		for i := range c.Prog.Requests {
			for j := range c.Prog.Requests[i].Headers {
				h := &c.Prog.Requests[i].Headers[j]
				if h.Name == "url" || h.Name == "body" {
					h.Name = "X-" + h.Name
				}
			}
		}
	}
	return c
}

func TestScenarioExecution(t *testing.T) {
	pand.Init()
	r := vf.Start(t, "C15")
	vf.Check(r, func(t *rapid.T) Case { return steer(r, genCase(t)) }, checkSeq)
}

// witnessTemplateKey is the minimal form of findingTemplateKey: one request with a
// constant header named `url` (must arrive as `Url: from-header`, arrives as the URI)
// and one with a header named `body` (the body must stay the body template's).
func witnessTemplateKey(which string) Case {
	one := int64(1)
	body := si.Tmpl{{Lit: "the-body"}}
	req := si.Request{Name: "e0", Method: "POST", URI: si.Tmpl{{Lit: "/e0/path"}}, Body: &body, RespKind: "json",
		Headers: []si.Header{{Name: which, Value: si.Tmpl{{Lit: "from-header"}}}}}
	return Case{
		Prog: si.Program{Requests: []si.Request{req},
			Scenarios: []si.Scenario{{Name: "alpha", Weight: &one, Steps: []scengen.Step{{Name: "e0"}}}}},
		Cycles: 2, Instances: 1, Salt: "ww",
	}
}

// TestKnownWitness re-runs the fixed witnesses of the findings of this check. While a
// finding is listed as known it is reported as still present (KnownHit); unlisted, a
// failing witness is a violation like any other failing case.
func TestKnownWitness(t *testing.T) {
	pand.Init()
	r := vf.Start(t, "C15")
	for _, which := range []string{"url", "body"} {
		c := witnessTemplateKey(which)
		o := &vf.Obs{}
		err := vf.Guard(func() error { return checkSeq(c, o) })
		if r.IsKnown(findingTemplateKey) {
			r.Record(c, o, nil)
			if err != nil {
				r.KnownHit(findingTemplateKey)
			}
			continue
		}
		r.Record(c, o, err)
		if err != nil {
			t.Errorf("witness (header named %q): %v", which, err)
		}
	}
}

func TestNextAcrossInstances(t *testing.T) {
	pand.Init()
	r := vf.Start(t, "C15")
	vf.Check(r, func(t *rapid.T) Case { return steer(r, genConcurrentCase(t)) }, checkConcurrent)
}
