package c15

import (
	"fmt"
	"strconv"
	"strings"

	"verif/harness/internal/scengen"
	si "verif/harness/internal/sceninterp"

	"pgregory.net/rapid"
)

// FaultAt injects a fault into the reply to the n-th request the target receives.
type FaultAt struct {
	N      int    `json:"n"`
	Kind   string `json:"kind"`
	Status int    `json:"status,omitempty"`
	Keep   int    `json:"keep,omitempty"` // body_cut: bytes of the body transferred before the connection is dropped (mod its length)
}

// Case is one generated scenario program with its run parameters.
type Case struct {
	Prog      si.Program `json:"program"`
	Cycles    int        `json:"cycles"` // shots = Cycles x (sum of weights / gcd)
	Instances int        `json:"instances"`
	KeepAlive bool       `json:"keep_alive"`
	Faults    []FaultAt  `json:"faults,omitempty"`
	Salt      string     `json:"salt"`
	// Chunked (world): the target's seq-th answer is sent WITHOUT Content-Length, flushed in pieces (chunked transfer
	// encoding), when Chunked[seq mod len] is set; all others carry Content-Length. ChunkSplit places the cut.
	Chunked    []bool `json:"chunked,omitempty"`
	ChunkSplit int    `json:"chunk_split,omitempty"`
	// AnswLog (option of the gun): the answer log is on (filter all), so the gun reads and keeps the body of every answer,
	// also of steps without postprocessors.
	AnswLog bool `json:"answlog,omitempty"`
}

// chunkAt tells how the seq-th answer is transferred: 0 = with Content-Length, otherwise chunked and cut after
// (chunkAt-1) mod (len(body)+1) bytes.
func (c Case) chunkAt(seq int) int {
	if len(c.Chunked) == 0 || !c.Chunked[seq%len(c.Chunked)] {
		return 0
	}
	return 1 + c.ChunkSplit + 7*seq
}

func genChunking(t *rapid.T, c *Case) {
	if !chance(t, 65, "chunkedReplies") {
		return
	}
	n := uni(t, 1, 4, "chunkPeriod")
	any := false
	for i := 0; i < n; i++ {
		b := rapid.Bool().Draw(t, "chunked")
		c.Chunked = append(c.Chunked, b)
		any = any || b
	}
	if !any {
		c.Chunked[uni(t, 0, n-1, "chunkedOne")] = true
	}
	c.ChunkSplit = rapid.IntRange(0, 6000).Draw(t, "chunkSplit")
}

// Body sizes of the world (MakeReply): without padding every body is 95..195 bytes long whatever the values and faults
// (json about 105-130, html about 135-160); padding adds RespPad bytes and at most 15 of wrapping. Thresholds of `<` / `>`
// size assertions keep at least 40 bytes away from that range (checkSeq verifies a distance of 20 for every judged reply).
func bodySizeRange(r *si.Request) (low, high int) {
	low, high = 95, 195
	if r.RespPad > 0 {
		low, high = low+r.RespPad, high+r.RespPad+15
	}
	return
}

// eqPlaceholder marks an `=` size assertion whose value is the exact size of one of the planned answers (set by
// resolveEqSizes once the plan of the run is known).
const eqPlaceholder = -1

func (g *pgen) sizeAssert(r *si.Request) *si.SizeAssert {
	t := g.t
	low, high := bodySizeRange(r)
	ops := []string{"<", ">", "=", "<", ">"}
	holds := chance(t, 70, "sizeHolds")
	if g.concurrent {
		// the answers of the concurrent test are a function of the request: only assertions that hold
		ops, holds = ops[:2], true
	}
	if r.Method == "HEAD" {
		// no body is sent in answer to HEAD: its size is 0 whatever Content-Length announces. `<` 40.. holds, `>` 40..
		// fails, `=` 0 holds (placeholder: the size of a planned answer), `=` the announced size or so fails.
		a := &si.SizeAssert{Op: "<", Val: rapid.SampledFrom([]int{40, 500, 100000}).Draw(t, "sizeHeadVal")}
		switch {
		case g.concurrent:
		case holds && rapid.Bool().Draw(t, "sizeHeadEq"):
			a.Op, a.Val = "=", eqPlaceholder
		case !holds && rapid.Bool().Draw(t, "sizeHeadEq"):
			a.Op, a.Val = "=", rapid.SampledFrom([]int{100, 120, 150, 5000}).Draw(t, "sizeHeadNever")
		case !holds:
			a.Op, a.Val = ">", rapid.SampledFrom([]int{40, 500}).Draw(t, "sizeHeadAbove")
		}
		return a
	}
	a := &si.SizeAssert{Op: rapid.SampledFrom(ops).Draw(t, "sizeOp")}
	above := high + rapid.SampledFrom([]int{40, 500, 100000}).Draw(t, "sizeAbove")
	below := low - rapid.SampledFrom([]int{40, 90, low}).Draw(t, "sizeBelow")
	switch {
	case a.Op == "=" && holds:
		a.Val = eqPlaceholder
	case a.Op == "=":
		a.Val = rapid.SampledFrom([]int{below, above, 0}).Draw(t, "sizeNever")
	case (a.Op == "<") == holds:
		a.Val = above
	default:
		a.Val = below
	}
	return a
}

// resolveEqSizes gives every placeholder `=` assertion the exact size of the fault-free answer at one of the positions
// its request has in the plan (answers at other positions may differ in length: the interpreter judges each).
func resolveEqSizes(t *rapid.T, c *Case, defs []string) {
	for i := range c.Prog.Requests {
		r := &c.Prog.Requests[i]
		for j := range r.Posts {
			sz := r.Posts[j].Size
			if sz == nil || sz.Val != eqPlaceholder {
				continue
			}
			var at []int
			for n, name := range defs {
				if name == r.Name {
					at = append(at, n)
				}
			}
			if len(at) == 0 {
				sz.Val = 0
				continue
			}
			n := at[uni(t, 0, len(at)-1, "sizeEqAt")]
			sz.Val = len(c.reply(r, n).Body)
		}
	}
}

func (c Case) shots() int {
	_, ring := c.Prog.Cycle()
	return c.Cycles * ring
}

func intp(i int) *int     { return &i }
func i64p(i int64) *int64 { return &i }

// chance is true with probability pct/100. rapid's integer generators favour small
// values heavily, so the number is assembled from fair bits; all-false (what the
// shrinker aims at) means "no".
func chance(t *rapid.T, pct int, label string) bool {
	n := 0
	for i := 0; i < 7; i++ {
		if rapid.Bool().Draw(t, label) {
			n |= 1 << i
		}
	}
	return n >= 128-(pct*128+50)/100
}

// uni draws an integer of [lo, hi] (almost) uniformly from fair bits.
func uni(t *rapid.T, lo, hi int, label string) int {
	n := 0
	for i := 0; i < 6; i++ {
		if rapid.Bool().Draw(t, label) {
			n |= 1 << i
		}
	}
	return lo + n%(hi-lo+1)
}

var richPool = []string{"a b", "x,y", "q;r", `say "hi"`, "it's", "a&b=c", "<tag>", "100%", "k: v", "#1", "A  B", "é ü", "x|y", "[1]", "$.x", "a\\b", "- a", "yes", "null", "1+1", "x>y", "<b>"}

func safeVal(t *rapid.T, label string) string {
	if chance(t, 25, label+"Num") {
		return strconv.Itoa(rapid.IntRange(0, 99999).Draw(t, label+"N"))
	}
	s := rapid.StringMatching(`[a-z0-9]{1,5}`).Draw(t, label)
	if s == "uuid" { // a bare function name in a `variables` source is replaced by a random value
		s = "uuie"
	}
	return s
}

func richVal(t *rapid.T, label string) string {
	if chance(t, 60, label+"Pool") {
		return rapid.SampledFrom(richPool).Draw(t, label+"P")
	}
	s := rapid.StringMatching(`[A-Za-z0-9_.:=;,&%#'/-][A-Za-z0-9 _.:=;,&%#'/-]{0,8}[A-Za-z0-9_.:=;&%#'/-]`).Draw(t, label)
	return s
}

// varInfo describes a variable a template may refer to.
type varInfo struct {
	ref  si.Ref
	safe bool // value consists of URL-safe characters only
}

type pgen struct {
	t          *rapid.T
	concurrent bool
	p          si.Program
	entry      map[string]string          // scenario -> entry request
	usedIn     map[string]map[string]bool // request -> scenarios
	before     map[string]map[string]bool // request -> requests surely executed before it
	nextOwner  map[string]string          // array source -> scenario that may use [next] on it
	preSafe    map[string]map[string]bool // request -> pre var -> safe
	// sharedNext: a request that several scenarios list -> the source (of its own) its preprocessor indexes with [next]
	sharedNext map[string]string
	// isolated (concurrent programs): requests whose templates refer to no other step and that no other step refers to
	isolated map[string]bool
}

var scenarioNames = []string{"alpha", "beta_x", "g3"}

func (g *pgen) sources() {
	t := g.t
	n := rapid.IntRange(1, 3).Draw(t, "nSources")
	if g.concurrent && n < 2 {
		n = 2
	}
	for i := 0; i < n; i++ {
		s := si.Source{Name: fmt.Sprintf("s%d", i)}
		kinds := []string{si.SrcCSV, si.SrcJSON, si.SrcVars}
		if i == 0 || (g.concurrent && i == 1) {
			kinds = kinds[:2]
		}
		s.Kind = rapid.SampledFrom(kinds).Draw(t, "srcKind")
		if s.Kind == si.SrcVars {
			nk := rapid.IntRange(1, 3).Draw(t, "nVars")
			for k := 0; k < nk; k++ {
				s.Vars = append(s.Vars, scengen.KV{K: fmt.Sprintf("k%d", k), V: safeVal(t, "varVal")})
			}
			if chance(t, 50, "richVar") {
				s.Vars = append(s.Vars, scengen.KV{K: "t0", V: richVal(t, "richVarVal")})
			}
		} else {
			nf := rapid.IntRange(1, 3).Draw(t, "nFields")
			for k := 0; k < nf; k++ {
				s.Fields = append(s.Fields, fmt.Sprintf("f%d", k))
			}
			rich := chance(t, 50, "richField")
			if rich {
				s.Fields = append(s.Fields, "t0")
			}
			nr := rapid.IntRange(1, 5).Draw(t, "nRows")
			for r := 0; r < nr; r++ {
				var row []string
				for k := 0; k < nf; k++ {
					row = append(row, safeVal(t, "cell"))
				}
				if rich {
					row = append(row, richVal(t, "richCell"))
				}
				s.Rows = append(s.Rows, row)
			}
			if s.Kind == si.SrcCSV {
				s.HeaderLine = rapid.Bool().Draw(t, "headerLine")
				s.Delimiter = rapid.SampledFrom([]string{"", ",", ";"}).Draw(t, "delimiter")
			} else if chance(t, 50, "wrap") {
				s.Wrap = "data"
			}
		}
		g.p.Sources = append(g.p.Sources, s)
	}
}

func (g *pgen) skeleton() {
	t := g.t
	nScen := rapid.SampledFrom([]int{1, 1, 2, 2, 3}).Draw(t, "nScenarios")
	if g.concurrent {
		nScen = rapid.IntRange(1, 2).Draw(t, "nScenariosC")
	}
	nCommon := uni(t, 0, 3, "nCommon")
	var commons []string
	for i := 0; i < nCommon; i++ {
		commons = append(commons, fmt.Sprintf("r%d", i))
	}
	g.entry = map[string]string{}
	for k := 0; k < nScen; k++ {
		sc := si.Scenario{Name: scenarioNames[k]}
		e := fmt.Sprintf("e%d", k)
		g.entry[sc.Name] = e
		if nScen > 1 || chance(t, 30, "weight1") {
			if chance(t, 85, "hasWeight") {
				sc.Weight = i64p(int64(rapid.IntRange(1, 6).Draw(t, "weight")))
			}
		}
		if chance(t, 30, "hasMinWait") {
			sc.MinWait = i64p(int64(rapid.IntRange(0, 5).Draw(t, "minWait")))
		}
		budget, sleepBudget := 8, 8
		first := scengen.Step{Name: e}
		if !g.concurrent && chance(t, 20, "entryMult") {
			first.Count = intp(2)
			budget--
		}
		sc.Steps = append(sc.Steps, first)
		budget--
		items := uni(t, 0, 4, "nItems")
		for i := 0; i < items && budget > 0; i++ {
			if chance(t, 20, "isSleep") {
				ms := rapid.IntRange(1, 3).Draw(t, "sleepMs")
				if ms <= sleepBudget {
					sleepBudget -= ms
					sc.Steps = append(sc.Steps, scengen.Step{Sleep: true, Ms: intp(ms)})
				}
				continue
			}
			names := append([]string(nil), commons...)
			if !g.concurrent {
				names = append(names, e)
			}
			if len(names) == 0 {
				continue
			}
			st := scengen.Step{Name: rapid.SampledFrom(names).Draw(t, "stepName")}
			n := 1
			if chance(t, 40, "hasCount") {
				n = rapid.SampledFrom([]int{1, 2, 2, 3, 3}).Draw(t, "count")
				if n > budget {
					n = budget
				}
				st.Count = intp(n)
				if chance(t, 40, "hasMs") {
					ms := rapid.IntRange(1, 3).Draw(t, "stepMs")
					if ms*n <= sleepBudget {
						sleepBudget -= ms * n
						st.Ms = intp(ms)
						st.Tight = rapid.Bool().Draw(t, "tight")
					}
				}
			}
			budget -= n
			sc.Steps = append(sc.Steps, st)
		}
		// the same request listed again with another pause (or none): a pause belongs to the occurrence it is
		// written at, not to the request
		if !g.concurrent && budget > 0 && chance(t, 30, "repeatPause") {
			var idx []int
			for i, st := range sc.Steps {
				if !st.Sleep {
					idx = append(idx, i)
				}
			}
			pi := idx[uni(t, 0, len(idx)-1, "repeatOf")]
			prev := &sc.Steps[pi]
			if prev.Ms == nil {
				n := 1
				if prev.Count != nil {
					n = *prev.Count
				}
				if ms := rapid.IntRange(1, 3).Draw(t, "repeatFirstMs"); ms*n <= sleepBudget {
					sleepBudget -= ms * n
					prev.Count, prev.Ms = intp(n), intp(ms)
					prev.Tight = rapid.Bool().Draw(t, "repeatFirstTight")
				}
			}
			again := scengen.Step{Name: prev.Name}
			n := 1
			switch uni(t, 0, 3, "repeatForm") {
			case 0, 1: // bare name
			case 2:
				n = min(uni(t, 1, 2, "repeatCount"), budget)
				again.Count = intp(n)
			default:
				n = min(uni(t, 1, 2, "repeatCountMs"), budget)
				again.Count = intp(n)
				ms := rapid.IntRange(1, 3).Draw(t, "repeatMs")
				if prev.Ms != nil && ms == *prev.Ms {
					ms = ms%3 + 1
				}
				if ms*n <= sleepBudget {
					sleepBudget -= ms * n
					again.Ms = intp(ms)
				}
			}
			budget -= n
			// anywhere after the first occurrence's item
			at := uni(t, pi+1, len(sc.Steps), "repeatAt")
			sc.Steps = append(sc.Steps[:at], append([]scengen.Step{again}, sc.Steps[at:]...)...)
		}
		g.p.Scenarios = append(g.p.Scenarios, sc)
	}
	// request shells, entries first
	for k := 0; k < nScen; k++ {
		g.p.Requests = append(g.p.Requests, si.Request{Name: fmt.Sprintf("e%d", k)})
	}
	for _, c := range commons {
		g.p.Requests = append(g.p.Requests, si.Request{Name: c})
	}
	// where each request is used and what surely ran before it
	g.usedIn = map[string]map[string]bool{}
	g.before = map[string]map[string]bool{}
	for _, sc := range g.p.Scenarios {
		seen := map[string]bool{}
		for _, st := range sc.Expand() {
			if !seen[st.Name] {
				if g.usedIn[st.Name] == nil {
					g.usedIn[st.Name] = map[string]bool{}
					g.before[st.Name] = map[string]bool{}
					for k := range seen {
						g.before[st.Name][k] = true
					}
				} else {
					for k := range g.before[st.Name] {
						if !seen[k] {
							delete(g.before[st.Name], k)
						}
					}
				}
				g.usedIn[st.Name][sc.Name] = true
				seen[st.Name] = true
			}
		}
	}
}

var jsonVar = map[string]string{"$.tok": "jt", "$.num": "jn", "$.obj": "jo", "$.obj.x": "jx", "$.arr": "ja", "$.arr[0]": "j0", "$.arr[1]": "j1"}
var xpathVar = map[string]string{"//div[@class='data']": "xd", "//span[@id='s']": "xs", "//li": "xl"}
var headerExprs = []string{"X-Tok", "X-Mix", "X-Mix|lower", "X-Tok|upper", "X-Mix|substr(2)", "X-Tok|substr(0,4)", "X-Mix|lower|replace(a,z)|substr(1)", "x-tok"}
var headerVar = map[string]string{"X-Tok": "ht", "X-Mix": "hm", "X-Mix|lower": "hml", "X-Tok|upper": "htu", "X-Mix|substr(2)": "hms",
	"X-Tok|substr(0,4)": "htp", "X-Mix|lower|replace(a,z)|substr(1)": "hmc", "x-tok": "htl"}

func (g *pgen) posts() {
	t := g.t
	for i := range g.p.Requests {
		r := &g.p.Requests[i]
		r.RespKind = "json"
		if chance(t, 30, "html") {
			r.RespKind = "html"
		}
		// HEAD: the target answers with status line and headers (Content-Length of the body a GET would get, or none)
		// and no body. What var/jsonpath, var/xpath and body patterns make of a missing body the documentation does not
		// say: a HEAD step looks at the status and the headers (var/header, assert/response) and at the size of the body (0).
		head := chance(t, 13, "methodHead")
		if head {
			r.Method = "HEAD"
		}
		if chance(t, 25, "respPad") {
			r.RespPad = rapid.SampledFrom([]int{300, 1500, 2500, 5000}).Draw(t, "respPadBytes")
		}
		np := rapid.SampledFrom([]int{0, 1, 1, 1, 2, 2}).Draw(t, "nPosts")
		usedKinds := map[string]bool{}
		for k := 0; k < np; k++ {
			kind := scengen.PostJsonpath
			if r.RespKind == "html" {
				kind = scengen.PostXpath
			}
			if chance(t, 35, "headerPost") || head {
				kind = scengen.PostHeader
			}
			if usedKinds[kind] {
				continue
			}
			usedKinds[kind] = true
			p := si.Post{Kind: kind}
			var menu []string
			var names map[string]string
			switch kind {
			case scengen.PostJsonpath:
				menu, names = si.JSONPathMenu, jsonVar
			case scengen.PostXpath:
				menu, names = si.XPathMenu, xpathVar
			default:
				menu, names = headerExprs, headerVar
			}
			nm := uni(t, 1, 3, "nMappings")
			seen := map[string]bool{}
			for j := 0; j < nm; j++ {
				e := menu[uni(t, 0, len(menu)-1, "captureExpr")]
				if kind == scengen.PostJsonpath && j == 0 && chance(t, 30, "captureObj") {
					e = "$.obj"
				}
				if seen[e] {
					continue
				}
				seen[e] = true
				p.Map = append(p.Map, si.PostMap{Var: names[e], Expr: e})
			}
			r.Posts = append(r.Posts, p)
		}
		if chance(t, 40, "hasAssert") {
			a := si.Post{Kind: scengen.PostAssert}
			if chance(t, 70, "assertStatus") {
				a.Status = 200
			}
			if chance(t, 50, "assertBody") && !head {
				a.BodyHas = []string{si.Marker}
			}
			// (52 % of the assertions of the other methods: the share of judged size assertions with a body stays what it
			// was before HEAD steps, which have no body to measure, were generated)
			if pct := map[bool]int{true: 45, false: 52}[head]; chance(t, pct, "assertSize") {
				a.Size = g.sizeAssert(r)
			}
			if chance(t, 40, "assertHeader") || (a.Status == 0 && len(a.BodyHas) == 0 && a.Size == nil) {
				a.HeaderHas = scengen.KVs{{K: "X-Tok", V: "H"}}
			}
			pos := rapid.IntRange(0, len(r.Posts)).Draw(t, "assertPos")
			r.Posts = append(r.Posts[:pos], append([]si.Post{a}, r.Posts[pos:]...)...)
		}
		// a step nobody looks at the answer of: it must still fail when the exchange itself fails
		if chance(t, 12, "noPostprocessors") || (head && chance(t, 12, "headNoPostprocessors")) {
			r.Posts = nil
		}
	}
}

// scalar captures of a request usable with a plain reference
func scalarCapture(kind, expr string) bool {
	switch expr {
	case "$.obj", "$.arr", "//li":
		return false
	}
	return true
}

func (g *pgen) isEntry(name string) bool { return strings.HasPrefix(name, "e") }

func (g *pgen) arraySources() []si.Source {
	var out []si.Source
	for _, s := range g.p.Sources {
		if s.Kind != si.SrcVars {
			out = append(out, s)
		}
	}
	return out
}

// soleScenario is the only scenario using the request ("" if several or none).
func (g *pgen) soleScenario(req string) string {
	if len(g.usedIn[req]) != 1 {
		return ""
	}
	for k := range g.usedIn[req] {
		return k
	}
	return ""
}

func sortedKeys(m map[string]bool) []string {
	out := make([]string, 0, len(m))
	for k := range m {
		out = append(out, k)
	}
	// insertion sort: tiny sets
	for i := 1; i < len(out); i++ {
		for j := i; j > 0 && out[j] < out[j-1]; j-- {
			out[j], out[j-1] = out[j-1], out[j]
		}
	}
	return out
}

// planSharedNext: in part of the programs with a request that several scenarios list, one such request indexes a source
// with [next] in its preprocessor - the common first action of different kinds of users that takes "the next user". The
// rows it takes must be consecutive over all its executions, whichever scenario (and instance) runs it. The source is one
// of its own: what two different requests share that index the same source with [next] the documentation does not settle.
func (g *pgen) planSharedNext() {
	t := g.t
	g.sharedNext, g.isolated = map[string]string{}, map[string]bool{}
	var shared []string
	for _, r := range g.p.Requests {
		if len(g.usedIn[r.Name]) >= 2 {
			shared = append(shared, r.Name)
		}
	}
	if len(shared) == 0 || !chance(t, 60, "sharedNext") {
		return
	}
	name := shared[uni(t, 0, len(shared)-1, "sharedNextReq")]
	s := si.Source{Name: fmt.Sprintf("s%d", len(g.p.Sources)), Kind: rapid.SampledFrom([]string{si.SrcCSV, si.SrcJSON}).Draw(t, "sharedSrcKind")}
	nf := uni(t, 1, 2, "sharedSrcFields")
	for k := 0; k < nf; k++ {
		s.Fields = append(s.Fields, fmt.Sprintf("f%d", k))
	}
	nr := uni(t, 2, 5, "sharedSrcRows")
	for r := 0; r < nr; r++ {
		var row []string
		for k := 0; k < nf; k++ {
			row = append(row, safeVal(t, "sharedCell"))
		}
		s.Rows = append(s.Rows, row)
	}
	if s.Kind == si.SrcCSV {
		s.HeaderLine = rapid.Bool().Draw(t, "sharedHeaderLine")
	} else if rapid.Bool().Draw(t, "sharedWrap") {
		s.Wrap = "data"
	}
	g.p.Sources = append(g.p.Sources, s)
	g.sharedNext[name] = s.Name
	g.nextOwner[s.Name] = "\x00" + name
	// with several instances the invocations interleave: which invocation gets which row is not determined, so nothing
	// else of an invocation may show in this request or depend on it
	g.isolated[name] = g.concurrent
}

func (g *pgen) pres() {
	t := g.t
	g.nextOwner = map[string]string{}
	g.preSafe = map[string]map[string]bool{}
	g.planSharedNext()
	arrays := g.arraySources()
	for i := range g.p.Requests {
		r := &g.p.Requests[i]
		g.preSafe[r.Name] = map[string]bool{}
		sole := g.soleScenario(r.Name)
		n := rapid.SampledFrom([]int{0, 1, 1, 2}).Draw(t, "nPre")
		forceNext := g.concurrent && g.isEntry(r.Name)
		// owner of the [next] counters this request may use: its only scenario, or - a request listed by several
		// scenarios that was given a source of its own - the request
		owner := sole
		if g.sharedNext[r.Name] != "" {
			owner, forceNext = "\x00"+r.Name, true
		}
		if forceNext && n == 0 {
			n = 1
		}
		nextUsed := map[string]bool{}
		// a mapping that cannot be resolved fails the preprocessor; the documentation does not say whether the
		// other mappings (which may take a [next] row) are evaluated before that, so the two never meet
		hasNext, hasDead := false, false
		for k := 0; k < n; k++ {
			m := si.PreMap{Var: fmt.Sprintf("p%d", k), Dot: chance(t, 25, "preDot")}
			kind := rapid.SampledFrom([]string{"next", "next", "next", "last", "idx", "var", "post", "post", "pre"}).Draw(t, "preKind")
			if forceNext && k == 0 {
				kind = "next"
			}
			if g.concurrent && kind == "next" && !(forceNext && k == 0) {
				kind = "last" // concurrent programs take exactly one row per invocation
			}
			if kind == "next" && hasDead {
				kind = "last"
			}
			switch kind {
			case "next", "last", "idx":
				var cands []si.Source
				for _, s := range arrays {
					if kind != "next" {
						cands = append(cands, s)
						continue
					}
					if owner == "" || nextUsed[s.Name] {
						continue
					}
					if o, ok := g.nextOwner[s.Name]; (ok && o != owner) || (owner != sole && !ok) {
						continue // owned by another scenario or request; a shared request takes rows of its own source only
					}
					cands = append(cands, s)
				}
				if len(cands) == 0 {
					continue
				}
				s := cands[rapid.IntRange(0, len(cands)-1).Draw(t, "preSource")]
				m.Kind, m.Source, m.Wrap = si.PreSrcRow, s.Name, s.Wrap
				m.Field = rapid.SampledFrom(s.Fields).Draw(t, "preField")
				switch kind {
				case "next":
					m.Index = "next"
					hasNext = true
					g.nextOwner[s.Name] = owner
					nextUsed[s.Name] = true
				case "last":
					m.Index = "last"
				default:
					m.Index = strconv.Itoa(rapid.IntRange(0, len(s.Rows)-1).Draw(t, "preIdx"))
				}
				g.preSafe[r.Name][m.Var] = m.Field != "t0"
			case "var":
				var cands []si.Source
				for _, s := range g.p.Sources {
					if s.Kind == si.SrcVars {
						cands = append(cands, s)
					}
				}
				if len(cands) == 0 {
					continue
				}
				s := cands[rapid.IntRange(0, len(cands)-1).Draw(t, "preVarSource")]
				kv := s.Vars[rapid.IntRange(0, len(s.Vars)-1).Draw(t, "preVarKey")]
				m.Kind, m.Source, m.Field = si.PreSrcVar, s.Name, kv.K
				g.preSafe[r.Name][m.Var] = kv.K != "t0"
			case "post", "pre":
				// a value set by an earlier step; rarely (not for entry requests, which must always reach
				// the target) by a step that did not run before: the preprocessor then fails
				if g.isolated[r.Name] {
					continue
				}
				var pool []string
				for _, q := range sortedKeys(g.before[r.Name]) {
					if !g.isolated[q] {
						pool = append(pool, q)
					}
				}
				dead := false
				if !g.isEntry(r.Name) && !g.concurrent && !hasNext && chance(t, 8, "deadPre") {
					pool = nil
					for _, q := range g.p.Requests {
						if q.Name != r.Name && !g.before[r.Name][q.Name] {
							pool = append(pool, q.Name)
						}
					}
					dead = true
				}
				if len(pool) == 0 {
					continue
				}
				hasDead = hasDead || dead
				q := g.p.Request(rapid.SampledFrom(pool).Draw(t, "preRefReq"))
				if kind == "post" {
					var vars []string
					for _, p := range q.Posts {
						for _, e := range p.Map {
							if scalarCapture(p.Kind, e.Expr) {
								vars = append(vars, e.Var)
							}
						}
					}
					if dead {
						vars = append(vars, "nope")
					}
					if len(vars) == 0 {
						continue
					}
					m.Kind, m.Req, m.RVar = si.PrePost, q.Name, rapid.SampledFrom(vars).Draw(t, "preRefVar")
					g.preSafe[r.Name][m.Var] = true
				} else {
					if len(q.Pre) == 0 {
						continue
					}
					qm := q.Pre[rapid.IntRange(0, len(q.Pre)-1).Draw(t, "preRefPre")]
					m.Kind, m.Req, m.RVar = si.PrePre, q.Name, qm.Var
					g.preSafe[r.Name][m.Var] = g.preSafe[q.Name][qm.Var]
				}
			}
			r.Pre = append(r.Pre, m)
		}
	}
}

// refPool lists what the templates of request r may refer to.
func (g *pgen) refPool(r *si.Request) (live []varInfo, dead []varInfo) {
	for _, m := range r.Pre {
		live = append(live, varInfo{si.Ref{Kind: si.RefPre, Req: r.Name, Var: m.Var}, g.preSafe[r.Name][m.Var]})
	}
	for _, s := range g.p.Sources {
		if s.Kind == si.SrcVars {
			for _, kv := range s.Vars {
				live = append(live, varInfo{si.Ref{Kind: si.RefSrcVar, Source: s.Name, Field: kv.K}, kv.K != "t0"})
			}
			continue
		}
		for _, f := range s.Fields {
			live = append(live, varInfo{si.Ref{Kind: si.RefSrcRow, Source: s.Name, Wrap: s.Wrap, Field: f, Index: len(s.Rows) - 1}, f != "t0"})
		}
	}
	for _, q := range g.p.Requests {
		if q.Name == r.Name || g.isolated[q.Name] || g.isolated[r.Name] {
			continue
		}
		var vs []varInfo
		for _, p := range q.Posts {
			for _, e := range p.Map {
				switch e.Expr {
				case "$.obj":
					vs = append(vs, varInfo{si.Ref{Kind: si.RefPostFld, Req: q.Name, Var: e.Var, Field: "x"}, true})
				case "$.arr", "//li":
					if g.before[r.Name][q.Name] {
						vs = append(vs, varInfo{si.Ref{Kind: si.RefPostIdx, Req: q.Name, Var: e.Var, Index: 1}, true})
					}
				default:
					vs = append(vs, varInfo{si.Ref{Kind: si.RefPost, Req: q.Name, Var: e.Var}, true})
				}
			}
		}
		for _, m := range q.Pre {
			vs = append(vs, varInfo{si.Ref{Kind: si.RefPre, Req: q.Name, Var: m.Var}, g.preSafe[q.Name][m.Var]})
		}
		if g.before[r.Name][q.Name] {
			live = append(live, vs...)
			// captured values are what the property is about: list them twice
			live = append(live, vs...)
		} else {
			dead = append(dead, vs...)
			dead = append(dead, varInfo{si.Ref{Kind: si.RefPost, Req: q.Name, Var: "nope"}, true})
		}
	}
	return live, dead
}

var headerNames = []string{"X-A", "X-Bb", "X-Req-Id", "Authorization", "x-low", "Content-Type", "X-C"}
var bodyLits = []string{`{"id": "`, `"}`, `", "n": "`, "name=", "&x=", "<a>", "</a>", " ", "-", "v:"}

func (g *pgen) templates() {
	t := g.t
	for i := range g.p.Requests {
		r := &g.p.Requests[i]
		live, dead := g.refPool(r)
		used := map[string]bool{}
		pick := func(safeOnly, allowDead bool, label string) *si.Ref {
			pool := live
			if allowDead && len(dead) > 0 && chance(t, 5, label+"Dead") {
				pool = dead
			}
			var c, flow []varInfo
			for _, v := range pool {
				if !safeOnly || v.safe {
					c = append(c, v)
					if v.ref.Req != "" && v.ref.Req != r.Name {
						flow = append(flow, v)
					}
				}
			}
			if len(c) == 0 {
				return nil
			}
			// values set by earlier steps are what the property is about
			if len(flow) > 0 && chance(t, 55, label+"Flow") {
				c = flow
			}
			v := c[uni(t, 0, len(c)-1, label)]
			ref := v.ref
			if ref.Kind == si.RefSrcRow {
				s := g.p.Source(ref.Source)
				ref.Index = rapid.IntRange(0, len(s.Rows)-1).Draw(t, label+"Row")
				if !g.isEntry(r.Name) && !g.concurrent && chance(t, 2, label+"Oob") {
					ref.Index = len(s.Rows) + 1 // static template execution error
				}
			}
			if ref.Kind == si.RefPre && ref.Req == r.Name {
				used[ref.Var] = true
			}
			return &ref
		}
		if m := rapid.SampledFrom([]string{"GET", "GET", "POST", "PUT", "DELETE"}).Draw(t, "method"); r.Method == "" {
			r.Method = m // (HEAD was decided together with the postprocessors)
		}
		// URI: /<name>[/seg...][?q=..]; only URL-safe values
		uri := si.Tmpl{{Lit: "/" + r.Name}}
		nseg := rapid.IntRange(0, 2).Draw(t, "uriSegs")
		for k := 0; k < nseg; k++ {
			uri = append(uri, si.Part{Lit: "/"})
			if ref := pick(true, false, "uriRef"); ref != nil && chance(t, 70, "uriUseRef") {
				uri = append(uri, si.Part{Ref: ref})
			} else {
				uri = append(uri, si.Part{Lit: rapid.StringMatching(`[a-z0-9]{1,4}`).Draw(t, "uriLit")})
			}
		}
		if chance(t, 40, "uriQuery") {
			uri = append(uri, si.Part{Lit: "?q="})
			if ref := pick(true, false, "uriQRef"); ref != nil {
				uri = append(uri, si.Part{Ref: ref})
			} else {
				uri = append(uri, si.Part{Lit: "1"})
			}
		}
		r.URI = uri
		// headers
		nh := rapid.IntRange(0, 3).Draw(t, "nHeaders")
		canon := map[string]bool{}
		for k := 0; k < nh; k++ {
			name := rapid.SampledFrom(headerNames).Draw(t, "headerName")
			if chance(t, 2, "specialHeaderName") {
				name = rapid.SampledFrom([]string{"url", "body"}).Draw(t, "specialHeader")
			}
			if canon[si.CanonHeader(name)] {
				continue
			}
			canon[si.CanonHeader(name)] = true
			var v si.Tmpl
			np := rapid.IntRange(1, 3).Draw(t, "headerParts")
			for j := 0; j < np; j++ {
				if j > 0 {
					v = append(v, si.Part{Lit: rapid.SampledFrom([]string{" ", "-", "; ", "="}).Draw(t, "headerSep")})
				}
				if ref := pick(false, true, "headerRef"); ref != nil && chance(t, 70, "headerUseRef") {
					v = append(v, si.Part{Ref: ref})
				} else {
					v = append(v, si.Part{Lit: rapid.StringMatching(`[A-Za-z0-9_:=.,-]{1,6}`).Draw(t, "headerLit")})
				}
			}
			r.Headers = append(r.Headers, si.Header{Name: name, Value: v})
		}
		// body
		pBody := 10
		if r.Method == "POST" || r.Method == "PUT" {
			pBody = 80
		}
		if chance(t, pBody, "hasBody") {
			var b si.Tmpl
			np := rapid.IntRange(1, 4).Draw(t, "bodyParts")
			for j := 0; j < np; j++ {
				b = append(b, si.Part{Lit: rapid.SampledFrom(bodyLits).Draw(t, "bodyLit")})
				if ref := pick(false, true, "bodyRef"); ref != nil && chance(t, 75, "bodyUseRef") {
					b = append(b, si.Part{Ref: ref})
				}
			}
			r.Body = &b
		}
		// a captured JSON object is only useful through its field: make sure it is looked at
		for _, v := range live {
			if v.ref.Kind == si.RefPostFld && chance(t, 50, "useObj") {
				ref := v.ref
				r.Headers = append(r.Headers, si.Header{Name: "X-Obj-" + ref.Req, Value: si.Tmpl{{Lit: "o="}, {Ref: &ref}}})
				break
			}
		}
		// every preprocessor variable must be observable at the target
		for k, m := range r.Pre {
			if used[m.Var] {
				continue
			}
			name := fmt.Sprintf("X-P%d", k)
			r.Headers = append(r.Headers, si.Header{Name: name, Value: si.Tmpl{{Ref: &si.Ref{Kind: si.RefPre, Req: r.Name, Var: m.Var}}}})
		}
		if chance(t, 40, "explicitTemplater") {
			r.Templater = "text"
			// `templater: html`: the same templates through html/template. Every template this generator builds keeps
			// its actions in HTML text context (checked, not assumed), where the interpreter knows what must come out.
			if chance(t, 60, "htmlTemplater") && htmlModelled(r) {
				r.Templater = si.TemplaterHTML
			}
		}
		if chance(t, 30, "hasTag") {
			r.Tag = rapid.StringMatching(`[a-z]{1,5}`).Draw(t, "tag")
		}
	}
}

// htmlModelled says whether the interpreter's statement of the html templater covers every template of the request.
func htmlModelled(r *si.Request) bool {
	ok := si.LitKeepsHTMLText(r.URI)
	for _, h := range r.Headers {
		ok = ok && si.LitKeepsHTMLText(h.Value)
	}
	if r.Body != nil {
		ok = ok && si.LitKeepsHTMLText(*r.Body)
	}
	return ok
}

// plantObjectChain makes sure some step looks into a JSON object captured by an earlier
// step (the way a response decides whether a later template can be executed).
func (g *pgen) plantObjectChain() (capturer string) {
	t := g.t
	type pair struct{ q, r string }
	var pairs []pair
	for _, r := range g.p.Requests {
		for _, qn := range sortedKeys(g.before[r.Name]) {
			q := g.p.Request(qn)
			ok := !q.HasCaptureExpr(scengen.PostJsonpath, "$.obj.x") && q.Method != "HEAD"
			for _, p := range q.Posts {
				if p.Kind == scengen.PostXpath {
					ok = false
				}
			}
			if ok {
				pairs = append(pairs, pair{qn, r.Name})
			}
		}
	}
	if len(pairs) == 0 {
		return ""
	}
	pr := pairs[uni(t, 0, len(pairs)-1, "plantPair")]
	q, r := g.p.Request(pr.q), g.p.Request(pr.r)
	q.RespKind = "json"
	if !q.HasCaptureExpr(scengen.PostJsonpath, "$.obj") {
		added := false
		for i := range q.Posts {
			if q.Posts[i].Kind == scengen.PostJsonpath {
				q.Posts[i].Map = append(q.Posts[i].Map, si.PostMap{Var: "jo", Expr: "$.obj"})
				added = true
				break
			}
		}
		if !added {
			q.Posts = append(q.Posts, si.Post{Kind: scengen.PostJsonpath, Map: []si.PostMap{{Var: "jo", Expr: "$.obj"}}})
		}
	}
	name := "X-Obj-" + q.Name
	for _, h := range r.Headers {
		if h.Name == name {
			return q.Name
		}
	}
	r.Headers = append(r.Headers, si.Header{Name: name, Value: si.Tmpl{{Lit: "o="}, {Ref: &si.Ref{Kind: si.RefPostFld, Req: q.Name, Var: "jo", Field: "x"}}}})
	return q.Name
}

func genProgram(t *rapid.T, concurrent bool) si.Program {
	p, _ := genProgramPlanted(t, concurrent)
	return p
}

func genProgramPlanted(t *rapid.T, concurrent bool) (si.Program, string) {
	g := &pgen{t: t, concurrent: concurrent}
	g.sources()
	g.skeleton()
	g.posts()
	g.pres()
	g.templates()
	planted := ""
	if !concurrent && chance(t, 35, "plantObject") {
		planted = g.plantObjectChain()
	}
	// definitions no scenario uses stay: they are legal and must not matter
	if ren := g.snakeNames(); ren != nil {
		if n, ok := ren[planted]; ok {
			planted = n
		}
	}
	for i := range g.p.Requests {
		if r := &g.p.Requests[i]; r.Templater == si.TemplaterHTML && !htmlModelled(r) {
			r.Templater = "text"
		}
	}
	return g.p, planted
}

// ---- names ----
//
// The generator above works with the fixed names alpha / beta_x / g3 (scenarios) and e<k> / r<i> (requests). snakeNames
// replaces them, in part of the programs, by snake_case names built from a small vocabulary - what real descriptions
// look like (auth_req, order_req, scenario_name in the documentation). Scenario and request names are free-form strings
// for pandora and every step must be rendered from the templates of ITS OWN request whatever the names are; in
// particular for names where two different (scenario, request) pairs read the same when joined by an underscore
// (scenario `order` + request `new_item`, scenario `order_new` + request `item`).
var nameWords = []string{"order", "new", "item", "list", "auth", "user", "v2", "get", "a"}

func (g *pgen) snakeName(label string, minWords, maxWords int) []string {
	n := uni(g.t, minWords, maxWords, label+"Words")
	w := make([]string, n)
	for i := range w {
		w[i] = nameWords[uni(g.t, 0, len(nameWords)-1, label)]
	}
	return w
}

// snakeNames renames scenarios and requests (nil: names left as they are) and returns old -> new request names.
func (g *pgen) snakeNames() map[string]string {
	t := g.t
	if !chance(t, 55, "snakeNames") {
		return nil
	}
	scen := make([]string, len(g.p.Scenarios))
	req := map[string]string{}
	usedScen, usedReq := map[string]bool{}, map[string]bool{}
	if len(g.p.Scenarios) >= 2 && chance(t, 75, "equalJoin") {
		// a word sequence cut at two different places: scenario w[:i] + request w[i:], scenario w[:j] + request w[j:]
		a := uni(t, 0, len(g.p.Scenarios)-1, "joinScenA")
		b := (a + 1 + uni(t, 0, len(g.p.Scenarios)-2, "joinScenB")) % len(g.p.Scenarios)
		stepsOf := func(k int) []string {
			seen := map[string]bool{}
			var out []string
			for _, st := range g.p.Scenarios[k].Expand() {
				if !seen[st.Name] {
					seen[st.Name] = true
					out = append(out, st.Name)
				}
			}
			return out
		}
		ra := stepsOf(a)
		r1 := ra[uni(t, 0, len(ra)-1, "joinReqA")]
		var rb []string
		for _, n := range stepsOf(b) {
			if n != r1 {
				rb = append(rb, n)
			}
		}
		if len(rb) > 0 {
			r2 := rb[uni(t, 0, len(rb)-1, "joinReqB")]
			w := g.snakeName("joinWord", 3, 4)
			i := uni(t, 1, len(w)-2, "joinCutA")
			j := uni(t, i+1, len(w)-1, "joinCutB")
			if rapid.Bool().Draw(t, "joinSwap") {
				i, j = j, i
			}
			scen[a], scen[b] = strings.Join(w[:i], "_"), strings.Join(w[:j], "_")
			req[r1], req[r2] = strings.Join(w[i:], "_"), strings.Join(w[j:], "_")
			usedScen[scen[a]], usedScen[scen[b]] = true, true
			usedReq[req[r1]], usedReq[req[r2]] = true, true
			// the two requests are told apart by every part both of them template: in half of the programs both
			// carry a header of the same name and in a third both have a body
			q1, q2 := g.p.Request(r1), g.p.Request(r2)
			if chance(t, 50, "joinSameHeader") {
				name := rapid.SampledFrom(headerNames).Draw(t, "joinHeaderName")
				for _, q := range []*si.Request{q1, q2} {
					has := false
					for _, h := range q.Headers {
						has = has || si.CanonHeader(h.Name) == si.CanonHeader(name)
					}
					if !has {
						q.Headers = append(q.Headers, si.Header{Name: name, Value: si.Tmpl{{Lit: "of-" + req[q.Name]}}})
					}
				}
			}
			if chance(t, 35, "joinBothBody") {
				for _, q := range []*si.Request{q1, q2} {
					if q.Body == nil {
						b := si.Tmpl{{Lit: "body of " + req[q.Name]}}
						q.Body = &b
					}
				}
			}
		}
	}
	fresh := func(label string, used map[string]bool) string {
		for try := 0; ; try++ {
			n := strings.Join(g.snakeName(label, 1, 3), "_")
			if try >= 4 {
				n += "_" + strconv.Itoa(len(used))
			}
			if !used[n] && n != "sleep" {
				used[n] = true
				return n
			}
		}
	}
	for k := range scen {
		if scen[k] == "" {
			scen[k] = fresh("scenarioName", usedScen)
		}
	}
	for _, r := range g.p.Requests {
		if req[r.Name] == "" {
			req[r.Name] = fresh("requestName", usedReq)
		}
	}
	renameProgram(&g.p, scen, req)
	return req
}

// renameProgram gives the scenarios (by position) and requests (old -> new) other names, everywhere a name is
// written: request lists, the leading /<name> of every URI, preprocessor paths and template references.
func renameProgram(p *si.Program, scen []string, req map[string]string) {
	tmpl := func(t si.Tmpl) {
		for _, r := range t.Refs() {
			if r.Req != "" {
				r.Req = req[r.Req]
			}
		}
	}
	for i := range p.Requests {
		r := &p.Requests[i]
		if len(r.URI) > 0 && r.URI[0].Ref == nil && r.URI[0].Lit == "/"+r.Name {
			r.URI[0].Lit = "/" + req[r.Name]
		}
		r.Name = req[r.Name]
		tmpl(r.URI)
		for _, h := range r.Headers {
			tmpl(h.Value)
		}
		if r.Body != nil {
			tmpl(*r.Body)
		}
		for j := range r.Pre {
			if r.Pre[j].Req != "" {
				r.Pre[j].Req = req[r.Pre[j].Req]
			}
		}
	}
	for k := range p.Scenarios {
		sc := &p.Scenarios[k]
		sc.Name = scen[k]
		for j := range sc.Steps {
			if !sc.Steps[j].Sleep {
				sc.Steps[j].Name = req[sc.Steps[j].Name]
			}
		}
	}
}

// equalJoins lists the pairs of (scenario, request) uses of the program that read the same when scenario and request
// name are joined by an underscore, as "scenarioA/requestA = scenarioB/requestB".
func equalJoins(p *si.Program) (pairs [][2][2]string) {
	type use struct{ sc, rq string }
	byJoin := map[string][]use{}
	var order []string
	for _, sc := range p.Scenarios {
		seen := map[string]bool{}
		for _, st := range sc.Expand() {
			if seen[st.Name] {
				continue
			}
			seen[st.Name] = true
			k := sc.Name + "_" + st.Name
			if len(byJoin[k]) == 0 {
				order = append(order, k)
			}
			byJoin[k] = append(byJoin[k], use{sc.Name, st.Name})
		}
	}
	for _, k := range order {
		us := byJoin[k]
		for i := 0; i < len(us); i++ {
			for j := i + 1; j < len(us); j++ {
				pairs = append(pairs, [2][2]string{{us[i].sc, us[i].rq}, {us[j].sc, us[j].rq}})
			}
		}
	}
	return pairs
}

// planRun simulates the fault-free run to know how many requests reach the target
// and which definition each position belongs to (only used to place faults).
func planRun(p *si.Program, cycles int) []string {
	it := si.New(p)
	per, _ := p.Cycle()
	var defs []string
	for c := 0; c < cycles; c++ {
		for _, sc := range p.Scenarios {
			for k := 0; k < per[sc.Name]; k++ {
				inv := it.Begin(sc.Name)
				for st := inv.Step(); st != nil; st = inv.Step() {
					if st.Req == nil {
						break
					}
					n := len(defs)
					defs = append(defs, st.Def.Name)
					inv.Deliver(si.MakeReply(st.Def, strconv.Itoa(n), n, si.FaultNone, 0))
				}
			}
		}
	}
	return defs
}

var faultStatuses = []int{201, 302, 400, 404, 500, 503}

// resentByTransport tells whether net/http's Transport re-sends a request of this definition by itself when the reused
// connection it went over is closed before any byte of an answer (http.Request.isReplayable: GET, HEAD, OPTIONS, TRACE,
// or any method under an Idempotency-Key / X-Idempotency-Key header; the gun's requests always have GetBody).
func resentByTransport(def *si.Request) bool {
	switch strings.ToUpper(def.Method) {
	case "", "GET", "HEAD", "OPTIONS", "TRACE":
		return true
	}
	for _, h := range def.Headers {
		if k := strings.ToLower(h.Name); k == "idempotency-key" || k == "x-idempotency-key" {
			return true
		}
	}
	return false
}

func genCase(t *rapid.T) Case {
	prog, planted := genProgramPlanted(t, false)
	c := Case{Prog: prog, Instances: 1}
	_, ring := c.Prog.Cycle()
	c.Cycles = rapid.IntRange(1, 3).Draw(t, "cycles")
	if maxC := 24 / ring; c.Cycles > maxC {
		c.Cycles = max(1, maxC)
	}
	c.Salt = rapid.StringMatching(`[a-z]{2}`).Draw(t, "salt")
	defs := planRun(&c.Prog, c.Cycles)
	resolveEqSizes(t, &c, defs)
	genChunking(t, &c)
	// faults that change the course of a scenario: (position, kind) pairs read off the fault-free plan
	type fk struct {
		n    int
		kind string
	}
	var effective []fk
	var bare, bareBody []int // positions whose step has no postprocessors; those of them whose answer has a body
	var notResent []int      // positions >= 1 (their request can go over a reused connection) whose request net/http never re-sends
	for n, name := range defs {
		def := c.Prog.Request(name)
		if n >= 1 && !resentByTransport(def) {
			notResent = append(notResent, n)
		}
		if len(def.Posts) == 0 {
			bare = append(bare, n)
			if def.Method != "HEAD" {
				bareBody = append(bareBody, n)
			}
		}
		for _, p := range def.Posts {
			if p.Kind == scengen.PostAssert {
				if len(p.BodyHas) > 0 {
					effective = append(effective, fk{n, si.FaultNoMarker})
				}
				if len(p.HeaderHas) > 0 && si.FaultApplies(def, si.FaultNoHeader) {
					effective = append(effective, fk{n, si.FaultNoHeader})
				}
				if p.Status != 0 {
					effective = append(effective, fk{n, si.FaultStatus})
				}
				if p.Size != nil && def.Method != "HEAD" {
					effective = append(effective, fk{n, si.FaultBloat})
				}
			}
			for _, m := range p.Map {
				if m.Expr == "$.obj" && si.FaultApplies(def, si.FaultObjString) {
					effective = append(effective, fk{n, si.FaultObjString}, fk{n, si.FaultObjString}, fk{n, si.FaultObjString})
				}
			}
		}
	}
	nf := []int{0, 1, 1, 1, 2, 2, 3}[uni(t, 0, 6, "nFaults")]
	if planted != "" && nf == 0 {
		nf = 1
	}
	at := map[int]bool{}
	hasClose := false
	for i := 0; i < nf && len(defs) > 0; i++ {
		var f FaultAt
		if i == 0 && planted != "" && chance(t, 60, "plantedFault") {
			var ns []int
			for n, name := range defs {
				if name == planted {
					ns = append(ns, n)
				}
			}
			if len(ns) == 0 {
				continue
			}
			f = FaultAt{N: ns[uni(t, 0, len(ns)-1, "plantedAt")], Kind: si.FaultObjString}
		} else if len(notResent) > 0 && chance(t, 22, "closeOnReusedConn") {
			// the target drops the connection without answering a request that is not the first of the run (with keep-alive:
			// one sent over a connection taken from the idle pool)
			f = FaultAt{N: notResent[uni(t, 0, len(notResent)-1, "closeReusedAt")], Kind: si.FaultClose}
		} else if len(bare) > 0 && chance(t, 30, "bareTransportFault") {
			// a failure of the exchange itself on a step without postprocessors
			// (the answer to HEAD has no body to cut short)
			if chance(t, 30, "bareClose") || len(bareBody) == 0 {
				f = FaultAt{N: bare[uni(t, 0, len(bare)-1, "bareAt")], Kind: si.FaultClose}
			} else {
				f = FaultAt{N: bareBody[uni(t, 0, len(bareBody)-1, "bareAt")], Kind: si.FaultBodyCut}
			}
		} else if len(effective) > 0 && chance(t, 55, "effectiveFault") {
			e := effective[uni(t, 0, len(effective)-1, "effectiveAt")]
			f = FaultAt{N: e.n, Kind: e.kind}
		} else {
			f = FaultAt{N: rapid.IntRange(0, len(defs)-1).Draw(t, "faultAt")}
			f.Kind = rapid.SampledFrom([]string{si.FaultClose, si.FaultStatus, si.FaultNoMarker, si.FaultNoHeader, si.FaultObjString, si.FaultBodyCut, si.FaultBloat}).Draw(t, "faultKind")
		}
		if at[f.N] {
			continue
		}
		at[f.N] = true
		if f.Kind == si.FaultStatus {
			f.Status = rapid.SampledFrom(faultStatuses).Draw(t, "faultStatus")
		}
		if f.Kind == si.FaultBodyCut {
			f.Keep = rapid.IntRange(0, 400).Draw(t, "faultKeep")
		}
		hasClose = hasClose || f.Kind == si.FaultClose
		c.Faults = append(c.Faults, f)
	}
	// A request whose connection was closed without an answer is re-sent silently by Go's transport (net/http
	// Transport: shouldRetryRequest) when the connection was a reused one and the request is replayable (GET / HEAD /
	// OPTIONS / TRACE or an Idempotency-Key header): the scenario gun never learns of the failure. No connection reuse
	// where that can happen. The first request of the run goes over a fresh connection, POST / PUT / DELETE are never
	// re-sent: connections may be kept alive when the close faults hit such requests only. (Judged by the fault-free
	// plan, which earlier faults and the order of the scenarios can shift: Case.reply voids a close fault that turns out
	// to hit a replayable request on a kept-alive connection.)
	closeNeverResent := true
	for _, f := range c.Faults {
		if f.Kind == si.FaultClose && f.N != 0 && resentByTransport(c.Prog.Request(defs[f.N])) {
			closeNeverResent = false
		}
	}
	switch {
	case !hasClose:
		c.KeepAlive = rapid.Bool().Draw(t, "keepAlive")
	case closeNeverResent:
		c.KeepAlive = chance(t, 75, "keepAliveWithClose")
	}
	c.AnswLog = chance(t, 25, "answlog")
	return c
}

func genConcurrentCase(t *rapid.T) Case {
	c := Case{Prog: genProgram(t, true)}
	_, ring := c.Prog.Cycle()
	c.Cycles = rapid.IntRange(1, 4).Draw(t, "cycles")
	if maxC := 32 / ring; c.Cycles > maxC {
		c.Cycles = max(1, maxC)
	}
	c.Instances = rapid.IntRange(1, 4).Draw(t, "instances")
	c.KeepAlive = rapid.Bool().Draw(t, "keepAlive")
	c.Salt = rapid.StringMatching(`[a-z]{2}`).Draw(t, "salt")
	genChunking(t, &c)
	c.AnswLog = chance(t, 25, "answlog")
	return c
}
