package c15

// "Across shots, scenarios are delivered in proportion to their weight" for weights far apart: one or two scenarios
// that carry nearly all of the load next to rare ones (5000 : 1, 3333 : 6667 : 1, 997 : 3 : 7), optionally all
// multiplied by a common factor. TestScenarioExecution runs whole programs through gun and target and therefore keeps
// its weights small (1-6); here only the real provider is drained - for whole cycles of the weights, by 1-4 consumers -
// and the scenario of every delivered ammo is counted: over k whole cycles scenario i must be delivered exactly
// k * w_i / gcd(w) times, for the http and the grpc scenario provider.

import (
	"fmt"
	"reflect"
	"strings"
	"sync"
	"testing"
	"time"

	"verif/harness/internal/pand"
	"verif/harness/internal/provrun"
	"verif/harness/internal/vf"

	"github.com/yandex/pandora/core"
	"pgregory.net/rapid"
)

type WeightsCase struct {
	Kind      string  `json:"provider"` // http/scenario | grpc/scenario
	Weights   []int64 `json:"weights"`  // as written in the file, one scenario each
	Cycles    int     `json:"cycles"`
	Consumers int     `json:"consumers"`
}

func gcd64(a, b int64) int64 {
	for b != 0 {
		a, b = b, a%b
	}
	return a
}

func genWeights(t *rapid.T) WeightsCase {
	c := WeightsCase{Kind: rapid.SampledFrom([]string{"http/scenario", "http/scenario", "grpc/scenario"}).Draw(t, "kind")}
	n := rapid.IntRange(2, 4).Draw(t, "scenarios")
	heavy := rapid.IntRange(1, 2).Draw(t, "heavy")
	for i := 0; i < n; i++ {
		if i < heavy {
			c.Weights = append(c.Weights, int64(rapid.IntRange(300, 12000).Draw(t, "heavyWeight")))
		} else {
			c.Weights = append(c.Weights, int64(rapid.IntRange(1, 40).Draw(t, "lightWeight")))
		}
	}
	// the order in the file is free
	if rapid.Bool().Draw(t, "heavyLast") {
		for i, j := 0, len(c.Weights)-1; i < j; i, j = i+1, j-1 {
			c.Weights[i], c.Weights[j] = c.Weights[j], c.Weights[i]
		}
	}
	f := int64(rapid.SampledFrom([]int{1, 1, 2, 5, 10, 100}).Draw(t, "commonFactor"))
	for i := range c.Weights {
		c.Weights[i] *= f
	}
	c.Cycles = rapid.IntRange(1, 2).Draw(t, "cycles")
	c.Consumers = rapid.IntRange(1, 4).Draw(t, "consumers")
	return c
}

func checkWeights(c WeightsCase, o *vf.Obs) error {
	g := int64(0)
	for _, w := range c.Weights {
		g = gcd64(g, w)
	}
	ring := int64(0)
	for _, w := range c.Weights {
		ring += w / g
	}
	var sb strings.Builder
	unit := "r"
	if c.Kind == "http/scenario" {
		sb.WriteString("requests:\n  - name: r\n    method: GET\n    uri: /x\nscenarios:\n")
	} else {
		unit = "c"
		sb.WriteString("calls:\n  - name: c\n    call: target.TargetService.Hello\n    payload: '{\"name\": \"x\"}'\nscenarios:\n")
	}
	for i, w := range c.Weights {
		fmt.Fprintf(&sb, "  - name: s%d\n    weight: %d\n    min_waiting_time: 0\n    requests:\n      - %s(1)\n", i, w, unit)
	}
	name := pand.WriteFile("c15w", ".yaml", []byte(sb.String()))
	defer pand.Remove(name)
	total := int(ring) * c.Cycles
	p, err := provrun.Build(map[string]any{"type": c.Kind, "file": name, "limit": total})
	if err != nil {
		return fmt.Errorf("a valid scenario description was rejected: %v\n%s", err, sb.String())
	}
	var mu sync.Mutex
	got := map[string]int64{}
	res, err := provrun.Drain(p, total+3, c.Consumers, 60*time.Second, func(a core.Ammo) error {
		v := reflect.ValueOf(a)
		for v.Kind() == reflect.Ptr || v.Kind() == reflect.Interface {
			if v.IsNil() {
				return fmt.Errorf("the provider delivered a nil ammo (%T)", a)
			}
			v = v.Elem()
		}
		f := v
		if v.Kind() == reflect.Struct {
			f = v.FieldByName("Name")
		}
		if !f.IsValid() || f.Kind() != reflect.String {
			return fmt.Errorf("harness: cannot read the scenario name of an ammo of type %T", a)
		}
		mu.Lock()
		got[f.String()]++
		mu.Unlock()
		return nil
	})
	if err != nil {
		return err
	}
	if res.Hung != "" {
		return fmt.Errorf("draining %d ammo: %s", total, res.Hung)
	}
	if len(res.Items) != total {
		return fmt.Errorf("limit %d (= %d cycles of the weights %v): %d ammo delivered (Run: %v)", total, c.Cycles, c.Weights, len(res.Items), res.RunErr)
	}
	for i, w := range c.Weights {
		want := int64(c.Cycles) * w / g
		if n := got[fmt.Sprintf("s%d", i)]; n != want {
			return fmt.Errorf("%s: weights %v (ring of %d after division by their common divisor %d): over %d whole cycles scenario s%d (weight %d) was delivered %d times, its share is %d (delivered: %v)",
				c.Kind, c.Weights, ring, g, c.Cycles, i, w, n, want, got)
		}
	}
	o.NonTrivial()
	o.Class("provider_" + c.Kind)
	o.ClassIf(ring > 1000, "ring_gt_1000")
	o.ClassIf(ring > 5000, "ring_gt_5000")
	o.ClassIf(g > 1, "weights_with_common_divisor")
	o.ClassIf(c.Consumers > 1, "several_consumers")
	o.Note("ring", ring)
	return nil
}

func TestHeavyWeights(t *testing.T) {
	pand.Init()
	r := vf.Start(t, "C15")
	vf.Check(r, genWeights, checkWeights)
}
