package c17

import (
	"fmt"
	"os"
	"path/filepath"
	"reflect"
	"strconv"
	"strings"
	"testing"

	cg "verif/harness/internal/confgen"
	"verif/harness/internal/vf"

	"pgregory.net/rapid"
)

// Finding (fixed in /repo 0fc3597): `${property:file}` without `#key` indexed split[1] and panicked.
const findingNoSeparator = "property-placeholder-without-key-panics"

// Known finding: a variable holding a negative number is cast with ParseInt + uint(...) for an
// unsigned field and wraps around (limit: ${env:L}, L=-1 => 18446744073709551615) instead of being rejected.
const findingUintWrap = "placeholder-negative-for-uint-wraps"

// Placeholder modes.
const (
	pWhole       = "whole"        // the whole value is one placeholder
	pEmbedded    = "embedded"     // literal text = prefix + variable + suffix (strings, durations, sizes, levels)
	pUnsetEnv    = "unset_env"    // ${env:NAME}, NAME not set
	pMissingKey  = "missing_key"  // ${property:file#key}, file has no such key
	pMissingFile = "missing_file" // ${property:file#key}, no such file
	pNoSeparator = "no_separator" // ${property:file} without #key
	pInvalid     = "invalid_text" // the variable holds text that is no value of the field's kind / violates its constraint
)

// PhCase: a valid configuration whose scalar at Site/Key[/Elem] is the literal; the
// variant replaces it by a placeholder that resolves to the literal's text.
type PhCase struct {
	Conf string `json:"conf"`
	Site string `json:"site"`
	Key  string `json:"key"`
	Elem int    `json:"elem"` // index inside a string list, -1 otherwise
	Src  string `json:"src"`  // env | property
	Mode string `json:"mode"` // see the p* constants
	// Name is the variable name / property key, File the property file's path below the per-process temp dir (may hold
	// sub-directories). Both are drawn by drawName / drawPropFile (names_test.go): plain [A-Za-z0-9_.] spellings in half
	// of the cases, else with interior blanks / tabs, dots, dashes, other punctuation, non-ASCII letters. Pad is the
	// padding inside the braces (${ env : NAME }), "" = none.
	Name string `json:"name"`
	File string `json:"file"`
	Pad  string `json:"pad,omitempty"`
	// EOL: how the lines of the property file end: "" = LF, "crlf" = CR LF (a file saved by a windows editor or checked
	// out with autocrlf), "nofinal" / "crlf_nofinal" = the same without a terminator behind the last line, which then
	// is the line of the key. A value never includes the line terminator.
	EOL  string `json:"eol,omitempty"`
	From int    `json:"from"` // embedded: text[From:To] goes into the variable
	To   int    `json:"to"`   //
	Text string `json:"text"` // invalid_text: what the variable holds
	// Decoy: name of a second variable / property key that IS defined although it is not the one the placeholder
	// names: it differs from Name only in letter case (environment names are case-sensitive on every OS but windows,
	// property keys everywhere) or by one appended / removed character. In the must-reject modes it holds the text
	// the field would accept (so a resolver that falls back to it accepts the configuration silently), otherwise decoyText.
	Decoy string `json:"decoy,omitempty"`
	Comp  string `json:"comp"`  // informative
	Class string `json:"class"` // informative: value class of the field
}

func scalarClass(c string) bool {
	switch c {
	case cg.CBool, cg.CInt, cg.CUint, cg.CFloat, cg.CString, cg.CDuration, cg.CDataSize, cg.CLevel:
		return true
	}
	return false
}

func embeddable(c string) bool {
	switch c {
	case cg.CString, cg.CDuration, cg.CDataSize, cg.CLevel:
		return true
	}
	return false
}

// literalText is what a variable must hold so that it reads as the literal v.
func literalText(v any) (string, bool) {
	switch x := v.(type) {
	case string:
		return x, true
	case bool:
		return strconv.FormatBool(x), true
	case int:
		return strconv.Itoa(x), true
	case float64:
		return strconv.FormatFloat(x, 'g', -1, 64), true
	}
	return "", false
}

// decoyText is what a decoy holds while the named variable is defined: no valid value of any non-string field.
const decoyText = "verif decoy"

// nearMisses lists names that are not name but close to it: the case variants first
// (all upper, all lower, one letter flipped), then name with a character appended / removed.
func nearMisses(name string, flip int) (caseVariants, affixed []string) {
	add := func(l *[]string, v string) {
		if v == name || v == "" {
			return
		}
		for _, x := range *l {
			if x == v {
				return
			}
		}
		*l = append(*l, v)
	}
	add(&caseVariants, strings.ToUpper(name))
	add(&caseVariants, strings.ToLower(name))
	var letters []int
	for i := 0; i < len(name); i++ {
		if c := name[i] | 0x20; c >= 'a' && c <= 'z' {
			letters = append(letters, i)
		}
	}
	if len(letters) > 0 {
		b := []byte(name)
		b[letters[flip%len(letters)]] ^= 0x20
		add(&caseVariants, string(b))
	}
	add(&affixed, name+"_")
	add(&affixed, name+"2")
	add(&affixed, trimLastRune(name))
	add(&affixed, "X"+name)
	return
}

func decoyClass(name, decoy string) string {
	switch {
	case decoy == "":
		return "decoy:none"
	case strings.EqualFold(name, decoy):
		return "decoy:case_variant"
	default:
		return "decoy:affixed"
	}
}

// invalidTexts lists variable contents that are no value of the field's kind (clear cases
// only: no digits-only text for durations / sizes / levels, which numbers may legally be)
// or that violate the field's validate tag.
func invalidTexts(f *cg.Field) []string {
	var out []string
	switch f.Class {
	case cg.CBool:
		out = []string{"maybe", "yes please"}
	case cg.CInt:
		out = []string{"abc", "12x"}
	case cg.CUint:
		out = []string{"abc", "12x", "-1"}
	case cg.CFloat:
		out = []string{"abc", "1,5"}
	case cg.CDuration:
		out = []string{"fast", "1 s"}
	case cg.CDataSize:
		out = []string{"big", "4 cows"}
	case cg.CLevel:
		out = []string{"loud"}
	}
	for _, v := range violations(f) {
		if t, ok := literalText(v); ok {
			out = append(out, t)
		}
	}
	return out
}

func genPh(r *vf.Run) func(t *rapid.T) PhCase {
	return func(t *rapid.T) PhCase {
		root := cg.GenRoot(t, cg.DefaultOpts)
		sites, err := cg.Walk(root)
		if err != nil {
			t.Fatalf("generator produced an unwalkable config: %v", err)
		}
		// Candidate positions: every scalar field of every site (given or not: the literal is
		// (re)drawn below), and the elements of given string lists.
		type pos struct {
			s *cg.Site
			f *cg.Field
		}
		groups := map[string][]pos{}
		for _, s := range sites {
			for _, f := range s.Fields {
				if cg.IsSkipped(s, f.Key) {
					continue
				}
				switch {
				case scalarClass(f.Class):
					groups[f.Class] = append(groups[f.Class], pos{s, f})
				case f.Class == cg.CStrList:
					if l, ok := s.Map[presentKey(s, f.Key)].([]any); ok && len(l) > 0 {
						groups[f.Class] = append(groups[f.Class], pos{s, f})
					}
				}
			}
		}
		// class first (so that the many bool keys do not crowd out the rest), then position,
		// half of the time among the nested (depth >= 2) positions when there are any
		var classes []string
		for _, cl := range []string{cg.CString, cg.CString, cg.CBool, cg.CInt, cg.CInt, cg.CUint, cg.CFloat, cg.CDuration, cg.CDuration,
			cg.CDataSize, cg.CLevel, cg.CStrList} {
			if len(groups[cl]) > 0 {
				classes = append(classes, cl)
			}
		}
		cands := groups[rapid.SampledFrom(classes).Draw(t, "class")]
		if rapid.Bool().Draw(t, "preferDeep") {
			var deep []pos
			for _, c := range cands {
				if c.s.Depth >= 2 {
					deep = append(deep, c)
				}
			}
			if len(deep) > 0 {
				cands = deep
			}
		}
		p := cands[rapid.IntRange(0, len(cands)-1).Draw(t, "pos")]
		c := PhCase{Site: p.s.PathString(), Key: presentKey(p.s, p.f.Key), Elem: -1, Comp: p.s.Comp.Label(), Class: p.f.Class}
		var lit any
		if p.f.Class == cg.CStrList {
			l := p.s.Map[c.Key].([]any)
			c.Elem = rapid.IntRange(0, len(l)-1).Draw(t, "elem")
			lit = l[c.Elem]
			c.Class = cg.CString
		} else {
			lit = cg.Value(t, cg.DefaultOpts, p.s.Comp, p.f, p.s.Dotted(p.f.Key), p.s.Depth)
			p.s.Map[c.Key] = lit
		}
		text, ok := literalText(lit)
		if !ok {
			t.Fatalf("generator drew %T for scalar key %s", lit, c.Key)
		}
		c.Conf = cg.Encode(root)

		c.Src = rapid.SampledFrom([]string{"env", "property"}).Draw(t, "src")
		c.Name = drawName(t, []string{"VERIF_C17_A", "VERIF_C17_b", "verif_c17_val", "V17"}, "name")
		c.File = drawPropFile(t, []string{"a.properties", "secret.prop", "x"}, "file")
		c.Pad = drawPad(t)
		c.EOL = drawEOL(t)
		modes := []string{pWhole, pWhole, pWhole, pWhole, pWhole, pWhole}
		if embeddable(c.Class) && len(text) > 0 {
			modes = append(modes, pEmbedded, pEmbedded)
		}
		if c.Src == "env" {
			modes = append(modes, pUnsetEnv, pUnsetEnv)
		} else {
			modes = append(modes, pMissingKey, pMissingKey, pMissingFile, pMissingFile, pNoSeparator)
		}
		bad := invalidTexts(p.f)
		if len(bad) > 0 && c.Elem < 0 {
			modes = append(modes, pInvalid)
		}
		c.Mode = rapid.SampledFrom(modes).Draw(t, "mode")
		if c.Mode == pInvalid {
			c.Text = rapid.SampledFrom(bad).Draw(t, "badtext")
			if c.Class == cg.CUint && strings.HasPrefix(c.Text, "-") && r.IsKnown(findingUintWrap) {
				r.Excluded(findingUintWrap)
				c.Text = "abc"
			}
		}
		if c.Mode == pNoSeparator && r.IsKnown(findingNoSeparator) {
			r.Excluded(findingNoSeparator)
			c.Mode = pMissingKey
		}
		// A near-miss name that is defined: in three of four "nothing by that name" cases, in one of three others.
		num, den := 0, 1
		switch c.Mode {
		case pUnsetEnv, pMissingKey:
			num, den = 3, 4
		case pWhole, pEmbedded, pInvalid:
			num, den = 1, 3
		}
		if num > 0 && rapid.IntRange(1, den).Draw(t, "decoy") <= num {
			cv, af := nearMisses(c.Name, rapid.IntRange(0, 31).Draw(t, "flip"))
			pool := append(append(append([]string{}, cv...), cv...), af...) // case variants twice as likely
			c.Decoy = rapid.SampledFrom(pool).Draw(t, "decoyName")
		}
		switch c.Mode {
		case pEmbedded:
			// variable part text[from:to]; at least one literal character stays outside
			c.From = rapid.IntRange(0, len(text)-1).Draw(t, "from")
			c.To = rapid.IntRange(c.From, len(text)).Draw(t, "to")
			if c.From == 0 && c.To == len(text) {
				if len(text) > 1 {
					c.To--
				} else {
					c.To = 0
				}
			}
		}
		return c
	}
}

// placeholder is the `${...}` text of a case.
func (c PhCase) placeholder() string {
	if c.Src == "env" {
		return spell("env", c.Name, c.Pad)
	}
	if c.Mode == pNoSeparator {
		return spell("property", filepath.Join(propDir, filepath.FromSlash(c.File)), c.Pad)
	}
	return spell("property", filepath.Join(propDir, filepath.FromSlash(c.File))+"#"+c.Name, c.Pad)
}

// install makes the variable resolvable (or deliberately not), defines the decoy and returns the cleanup.
func (c PhCase) install(value, decoyValue string) (func(), error) {
	if c.Src == "env" {
		var set []string
		cleanup := func() {
			for _, n := range set {
				os.Unsetenv(n)
			}
		}
		if c.Decoy != "" && c.Decoy != c.Name {
			if err := os.Setenv(c.Decoy, decoyValue); err != nil {
				return nil, err
			}
			set = append(set, c.Decoy)
		}
		if c.Mode == pUnsetEnv {
			os.Unsetenv(c.Name)
			return cleanup, nil
		}
		if err := os.Setenv(c.Name, value); err != nil {
			cleanup()
			return nil, err
		}
		set = append(set, c.Name)
		return cleanup, nil
	}
	path, err := propPath(c.File)
	if err != nil {
		return nil, err
	}
	if c.Mode == pMissingFile {
		os.Remove(path)
		return func() {}, nil
	}
	lines := []string{"# properties", "other=1", c.Name + "_x=no"}
	if c.Decoy != "" && c.Decoy != c.Name {
		lines = append(lines, c.Decoy+"="+decoyValue) // before the real key
	}
	if c.Mode != pMissingKey {
		lines = append(lines, c.Name+"="+value)
	}
	if err := os.WriteFile(path, []byte(propFileText(lines, c.EOL)), 0o644); err != nil {
		return nil, err
	}
	return func() { os.Remove(path) }, nil
}

type snapshot struct {
	root     reflect.Value
	sections map[string]reflect.Value
}

// observe decodes a configuration completely and copies the root struct and every
// section's config as handed to its constructor.
func observe(conf map[string]any) (outcome, *snapshot, error) {
	res := decodeAll(conf)
	if !res.accepted() {
		return res, nil, nil
	}
	sites, err := cg.Walk(conf)
	if err != nil {
		return res, nil, err
	}
	snap := &snapshot{root: reflect.ValueOf(res.conf).Elem(), sections: map[string]reflect.Value{}}
	for _, s := range sites {
		if !s.Plugin {
			continue
		}
		v, has, err := cg.ObserveSection(s)
		if err != nil {
			return res, nil, fmt.Errorf("section %s (%s) rejected on its own although the whole configuration was accepted: %v",
				s.PathString(), s.Comp.Label(), firstLine(err.Error(), 300))
		}
		if has {
			snap.sections[s.PathString()] = v
		}
	}
	return res, snap, nil
}

func checkPh(c PhCase, o *vf.Obs) error {
	base, err := cg.ParseMap(c.Conf)
	if err != nil {
		return err
	}
	variant := cg.CloneMap(base)
	sites, err := cg.Walk(variant)
	if err != nil {
		return err
	}
	s := cg.FindSite(sites, c.Site)
	if s == nil {
		return fmt.Errorf("case names site %q, which the configuration does not have", c.Site)
	}
	f := s.Field(c.Key)
	if f == nil {
		return fmt.Errorf("case names key %q, which %s does not have", c.Key, s.Comp.Label())
	}
	var lit any
	if c.Elem >= 0 {
		l, ok := s.Map[c.Key].([]any)
		if !ok || c.Elem >= len(l) {
			return fmt.Errorf("case names element %d of %q, which is not there", c.Elem, c.Key)
		}
		lit = l[c.Elem]
	} else {
		lit = s.Map[c.Key]
	}
	text, ok := literalText(lit)
	if !ok {
		return fmt.Errorf("the literal at %s/%s is %T, not a scalar", c.Site, c.Key, lit)
	}
	class := f.Class
	if class == cg.CStrList {
		class = cg.CString
	}

	// the variant's value and the variable's content
	value, ph := text, c.placeholder()
	switch c.Mode {
	case pInvalid:
		value = c.Text
	case pEmbedded:
		if c.From < 0 || c.To > len(text) || c.From > c.To {
			return fmt.Errorf("bad split %d:%d of %q", c.From, c.To, text)
		}
		value = text[c.From:c.To]
		ph = text[:c.From] + ph + text[c.To:]
	}
	if c.Elem >= 0 {
		s.Map[c.Key].([]any)[c.Elem] = ph
	} else {
		s.Map[c.Key] = ph
	}

	mustReject := c.Mode != pWhole && c.Mode != pEmbedded
	// what the decoy holds: the text the field accepts when nothing by the placeholder's name exists or the named
	// variable holds invalid text (falling back to the decoy would then go unnoticed), a foreign text otherwise
	decoyValue := decoyText
	if mustReject {
		decoyValue = text
	}
	o.Class("src:"+c.Src, "mode:"+c.Mode, "class:"+class, "comp:"+s.Comp.Label(), depthClass(s.Depth))
	o.ClassIf(mustReject && c.Mode != pInvalid, "missing:"+c.Mode)
	o.ClassIf(class != cg.CString, "non_string_field")
	o.ClassIf(c.Elem >= 0, "list_element")
	o.Class(decoyClass(c.Name, c.Decoy))
	file := c.File
	if c.Src == "env" {
		file = ""
	}
	how := "resolves"
	switch {
	case c.Mode == pInvalid:
		how = "invalid_text"
	case mustReject:
		how = "names_nothing"
	}
	spellingClasses(o, c.Src, c.Name, file, c.Pad, how, class != cg.CString)
	eolClasses(o, c.Src, c.EOL, how, class != cg.CString)
	if c.Decoy != "" && c.Decoy != c.Name {
		o.ClassIf(mustReject && c.Mode != pInvalid, "missing_with_"+decoyClass(c.Name, c.Decoy)+":"+c.Src)
		o.ClassIf(!mustReject, "defined_with_"+decoyClass(c.Name, c.Decoy)+":"+c.Src)
		o.Note("decoy", c.Decoy+"="+decoyValue)
	}
	if class != cg.CString {
		o.NonTrivial()
	}
	o.Note("placeholder", ph)
	o.Note("variable_value", value)

	// literal first
	resL, snapL, err := observe(base)
	if err != nil {
		return err
	}
	if !resL.accepted() {
		return fmt.Errorf("the literal configuration was not accepted: %s", resL)
	}

	cleanup, err := c.install(value, decoyValue)
	if err != nil {
		return err
	}
	defer cleanup()
	resP, snapP, err := observe(variant)
	if err != nil {
		return fmt.Errorf("placeholder variant (%s): %w", ph, err)
	}
	o.Note("outcome", resP.String())

	if mustReject {
		if resP.accepted() && c.Mode == pInvalid {
			return fmt.Errorf("%s: %s/%s (%s %s) = %q with the variable holding %q was accepted, although %q is no valid value there",
				c.Mode, c.Site, c.Key, s.Comp.Label(), class, ph, value, value)
		}
		if resP.accepted() && c.Decoy != "" {
			return fmt.Errorf("%s: %s/%s (%s %s) = %q names nothing that exists (only %q, holding %q, does), but the configuration was accepted",
				c.Mode, c.Site, c.Key, s.Comp.Label(), class, ph, c.Decoy, decoyValue)
		}
		if resP.accepted() {
			return fmt.Errorf("%s: %s/%s (%s %s) = %q names nothing that exists, but the configuration was accepted",
				c.Mode, c.Site, c.Key, s.Comp.Label(), class, ph)
		}
		if resP.panicked {
			return fmt.Errorf("%s: %s/%s (%s %s) = %q was not rejected with an error: %s", c.Mode, c.Site, c.Key, s.Comp.Label(), class, ph, resP)
		}
		o.Class("rejected_by:" + resP.stage)
		return nil
	}
	if !resP.accepted() {
		return fmt.Errorf("%s/%s (%s %s): literal %q is accepted, but %q with the variable holding %q is not: %s",
			c.Site, c.Key, s.Comp.Label(), class, text, ph, value, resP)
	}
	diffs := cg.Compare(cg.CLI.Fields(), snapP.root, snapL.root, "")
	if len(snapP.sections) != len(snapL.sections) {
		diffs = append(diffs, fmt.Sprintf("%d sections observed, literal has %d", len(snapP.sections), len(snapL.sections)))
	}
	for _, st := range sites {
		l, okL := snapL.sections[st.PathString()]
		p, okP := snapP.sections[st.PathString()]
		if okL && okP {
			for _, d := range cg.Compare(st.Comp.Fields(), p, l, "") {
				diffs = append(diffs, st.PathString()+" ("+st.Comp.Label()+"): "+d)
			}
		}
	}
	if len(diffs) > 0 {
		return fmt.Errorf("%s/%s (%s %s): %q with the variable holding %q decodes differently from the literal %q (got = placeholder, want = literal):\n  %s",
			c.Site, c.Key, s.Comp.Label(), class, ph, value, text, strings.Join(diffs, "\n  "))
	}
	return nil
}

func TestPlaceholders(t *testing.T) {
	r := startRun(t)
	witness(t, r, findingNoSeparator, PhCase{Conf: witnessConf, Site: "pools/0", Key: "id", Elem: -1, Src: "property", Mode: pNoSeparator,
		Name: "K", File: "witness.prop", Comp: "pool/pool", Class: cg.CString}, checkPh)
	witness(t, r, findingUintWrap, PhCase{Conf: witnessConf, Site: "pools/0/ammo", Key: "limit", Elem: -1, Src: "env", Mode: pInvalid,
		Name: "VERIF_C17_WITNESS_NEG", Text: "-1", Comp: "ammo/uri", Class: cg.CUint}, checkPh)
	if t.Failed() {
		return // a failed witness is reported with its own replay file; rapid refuses a failed *testing.T
	}
	vf.Check(r, genPh(r), checkPh)
}
