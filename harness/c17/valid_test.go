package c17

import (
	"fmt"
	"reflect"
	"strings"
	"testing"

	cg "verif/harness/internal/confgen"
	"verif/harness/internal/vf"

	"pgregory.net/rapid"
)

// ValidCase is one generated valid CLI-level configuration (JSON text; integral
// numbers are ints, the others floats, exactly as a YAML reader would deliver them).
type ValidCase struct {
	Conf string `json:"conf"`
}

func genValid(t *rapid.T) ValidCase {
	return ValidCase{Conf: cg.Encode(cg.GenRoot(t, cg.DefaultOpts))}
}

func checkValid(c ValidCase, o *vf.Obs) error {
	conf, err := cg.ParseMap(c.Conf)
	if err != nil {
		return err
	}
	sites, err := cg.Walk(conf)
	if err != nil {
		return err
	}
	classifyValid(conf, sites, o)

	// 1. accepted, all factories work
	res := decodeAll(conf)
	if !res.accepted() {
		return fmt.Errorf("valid configuration was not accepted: %s", res)
	}

	// 2. root / log / monitoring / pool scalars = cli.DefaultConfig() overlaid with the given keys
	want := cg.NewDefault(cg.CLI)
	if err := cg.Overlay(cg.CLI.Fields(), want, conf, false); err != nil {
		return err
	}
	diffs := cg.Compare(cg.CLI.Fields(), reflect.ValueOf(res.conf).Elem(), want, "")

	// 3. every component section = registered default overlaid with the given keys
	diffs = append(diffs, sectionDiffs(sites)...)
	if len(diffs) > 0 {
		return fmt.Errorf("decoded configuration differs from default-overlaid-with-given-keys:\n  %s", strings.Join(diffs, "\n  "))
	}
	return nil
}

func classifyValid(conf map[string]any, sites []*cg.Site, o *vf.Obs) {
	seen := map[string]bool{}
	deep, null, list := false, false, false
	for _, s := range sites {
		if l := "comp:" + s.Comp.Label(); !seen[l] {
			seen[l] = true
			o.Class(l)
		}
		for k, v := range s.Map {
			if s.Plugin && strings.EqualFold(k, "type") {
				continue
			}
			if v == nil {
				null = true
			} else if s.Depth >= 2 {
				deep = true
			}
			if f := s.Field(k); f != nil && f.Class == cg.CPlugin && f.Kind == cg.KSched {
				if _, ok := v.([]any); ok {
					list = true
				}
			}
		}
	}
	pools, _ := conf["pools"].([]any)
	o.ClassIf(len(pools) > 1, "pools_gt_1")
	o.ClassIf(deep, "given_depth_ge_2")
	o.ClassIf(null, "null_valued_key")
	o.ClassIf(list, "list_composite")
	o.Class(fmt.Sprintf("max_depth:%d", maxDepth(sites)))
	if deep {
		o.NonTrivial()
	}
}

func TestValid(t *testing.T) {
	vf.Check(startRun(t), genValid, checkValid)
}
