package c17

import (
	"fmt"
	"os"
	"testing"

	"verif/harness/internal/pand"

	"github.com/c2h5oh/datasize"
	"github.com/yandex/pandora/cli"
)

func TestProbe(t *testing.T) {
	pand.Init()
	pand.WriteFile("x", ".uri", []byte("/a\n"))
	_ = os.Setenv("VERIF_C17_A", "7")
	pool := map[string]any{
		"id":     "p",
		"gun":    map[string]any{"type": "http", "target": "127.0.0.1:8080", "dial": map[string]any{"timeout": "2s"}},
		"ammo":   map[string]any{"type": "dummy"},
		"result": map[string]any{"type": "jsonlines", "sink": map[string]any{"type": "file", "path": "/o"}, "buffer-size": 4096},
		"rps":    []any{map[string]any{"type": "once", "times": "${env:VERIF_C17_A}"}, map[string]any{"type": "const", "ops": 2.5, "duration": "1s"}},
		"startup": map[string]any{"type": "once", "times": 1},
	}
	conf := cli.DefaultConfig()
	err := pand.Decode(map[string]any{"pools": []any{pool}, "log": map[string]any{"level": "debug"}}, conf)
	fmt.Println("decode err:", err)
	if err == nil {
		p := conf.Engine.Pools[0]
		g, err := p.NewGun()
		fmt.Printf("gun %T %v\n", g, err)
		s, err := p.NewRPSSchedule()
		fmt.Printf("sched %T %v\n", s, err)
		if s != nil {
			fmt.Println("left", s.Left())
		}
		fmt.Println(conf.Log.Level, conf.Log.File, conf.Monitoring.Expvar.Port)
	}
	for _, s := range []string{"4KB", "1MB", "512B", "8mb", "12", "abc", "1.5MB"} {
		var b datasize.ByteSize
		err := b.UnmarshalText([]byte(s))
		fmt.Println(s, uint64(b), err)
	}
}
