package c17

import (
	"os"
	"path/filepath"
	"sort"
	"strings"
	"unicode/utf8"

	"verif/harness/internal/vf"

	"pgregory.net/rapid"
)

// Spelling of what a placeholder names (dimension added after seeded defect C17/m13).
//
// `${env:NAME}` hands NAME to os.LookupEnv, `${property:PATH#KEY}` opens PATH and looks for a line `KEY=...`:
// the placeholder syntax itself only excludes `{` and `}` from NAME / PATH / KEY (and `#` from PATH, `=` from KEY
// and NAME); blanks AROUND the type and the name are dropped (`${property: /etc/x.properties#key}` is the form
// the resolver's own documentation comment uses, upstream's TestFindTokens has `${ e2 :to  }`). So a directory
// `load test secrets/`, a property key `user agent`, a variable `VERIF C17 A` (linux: any name without `=` / NUL),
// dotted / dashed / non-ASCII names and names holding `:`, `#`, `@`, `/`, `$` ... all name something, and the
// property's "substituted in fields of any component" / "naming an unset variable or a missing property is an
// error" holds for them as for `[A-Za-z0-9_]+` names.
//
// The generators below draw the spelling class first (half of the cases keep the plain names the tests always
// used); the classes are recorded from the case itself (spellingClasses), so replays and witnesses count too.

// Padding inside the braces.
const (
	padNone        = ""
	padAfterColon  = "after_colon"  // ${env: NAME}
	padAround      = "around"       // ${ env : NAME }
	padTabs        = "tabs"         // ${env:<tab>NAME<tab>}
	padBeforeClose = "before_close" // ${env:NAME }
)

// spell is the `${type:name}` text with the given padding.
func spell(typ, name, pad string) string {
	switch pad {
	case padAfterColon:
		return "${" + typ + ": " + name + "}"
	case padAround:
		return "${ " + typ + " : " + name + " }"
	case padTabs:
		return "${" + typ + ":\t" + name + "\t}"
	case padBeforeClose:
		return "${" + typ + ":" + name + " }"
	}
	return "${" + typ + ":" + name + "}"
}

func drawPad(t *rapid.T) string {
	return rapid.SampledFrom([]string{padNone, padNone, padNone, padNone, padNone, padNone, padNone,
		padAfterColon, padAround, padTabs, padBeforeClose}).Draw(t, "pad")
}

var (
	// every generated name starts with one of these: nothing of the real environment is ever set / unset
	nameHeads   = []string{"VERIF_C17", "verif17", "Verif"}
	nameWords   = []string{"user", "AGENT", "token", "v2", "id", "Secret"}
	nameUniWord = []string{"ключ", "größe", "名前", "café"}
	namePunct   = []string{":", "#", "@", "/", "$", "%", "+", ",", "~", "!", "&", "*", "(", ")", "[", "]", "'", "\"", "\\", "|", "<", ">", "?", ";"}
)

// drawName draws a variable name / property key: one of the plain names in half of the cases, else 2-3 words
// joined by the separator of a drawn spelling class (interior blank(s), tab, dot, dash, another punctuation
// character, a non-ASCII word, or a mix of them). Never a leading / trailing blank (not nameable: trimmed),
// never `{`, `}`, `=`.
func drawName(t *rapid.T, plain []string, label string) string {
	style := rapid.SampledFrom([]string{"plain", "plain", "plain", "plain", "plain", "plain", "plain",
		"blank", "blank", "blank", "blank", "tab", "dotted", "dashed", "punct", "unicode", "unicode", "mixed"}).Draw(t, label+"Style")
	if style == "plain" {
		return rapid.SampledFrom(plain).Draw(t, label)
	}
	word := func(l []string) string { return rapid.SampledFrom(l).Draw(t, label+"Word") }
	head := rapid.SampledFrom(nameHeads).Draw(t, label+"Head")
	var sep string
	switch style {
	case "blank":
		sep = rapid.SampledFrom([]string{" ", " ", " ", "  "}).Draw(t, label+"Sep")
	case "tab":
		sep = "\t"
	case "dotted":
		sep = "."
	case "dashed":
		sep = "-"
	case "punct":
		sep = rapid.SampledFrom(namePunct).Draw(t, label+"Sep")
	case "unicode":
		return head + "_" + word(nameUniWord) + rapid.SampledFrom([]string{"", "_1", "_x"}).Draw(t, label+"Tail")
	case "mixed":
		return head + " " + word(nameUniWord) + "." + word(nameWords) + rapid.SampledFrom([]string{"", "-1", " x"}).Draw(t, label+"Tail")
	}
	name := head + sep + word(nameWords)
	if rapid.Bool().Draw(t, label+"Third") {
		name += sep + word(nameWords)
	}
	return name
}

var (
	pathDirs  = []string{"dir with blank", "dir with blank", "load test secrets/nested dir", "load test secrets", "tab\tdir", "конфиг", "каталог с пробелом", "v1.2-rc_3", "a:b", "x@y,z+w"}
	pathFiles = []string{"secret file.prop", "секрет.properties", "a-b.c.properties", "s p a c e", "it's (1).prop"}
)

// drawPropFile draws the property file's path below propDir: one of the plain base names in half of the cases,
// else inside a sub-directory and / or with a base name holding blanks, dots, dashes, non-ASCII letters.
func drawPropFile(t *rapid.T, plain []string, label string) string {
	switch rapid.SampledFrom([]string{"plain", "plain", "plain", "plain", "dir", "dir", "dir", "file", "both"}).Draw(t, label+"Style") {
	case "dir":
		return rapid.SampledFrom(pathDirs).Draw(t, label+"Dir") + "/" + rapid.SampledFrom(plain).Draw(t, label)
	case "file":
		return rapid.SampledFrom(pathFiles).Draw(t, label+"Base")
	case "both":
		return rapid.SampledFrom(pathDirs).Draw(t, label+"Dir") + "/" + rapid.SampledFrom(pathFiles).Draw(t, label+"Base")
	}
	return rapid.SampledFrom(plain).Draw(t, label)
}

// propPath is the absolute path of a case's property file; its directory is created.
func propPath(file string) (string, error) {
	path := filepath.Join(propDir, filepath.FromSlash(file))
	if err := os.MkdirAll(filepath.Dir(path), 0o755); err != nil {
		return "", err
	}
	return path, nil
}

func spellingOf(s string, plainExtra string) (blank, tab, punct, nonASCII bool) {
	for _, r := range s {
		switch {
		case r == ' ':
			blank = true
		case r == '\t':
			tab = true
		case r >= utf8.RuneSelf:
			nonASCII = true
		case r == '_' || (r >= '0' && r <= '9') || (r|0x20 >= 'a' && r|0x20 <= 'z') || strings.ContainsRune(plainExtra, r):
		default:
			punct = true
		}
	}
	return
}

// spellingClasses records how the placeholder of a case spells what it names. file is "" for ${env:...}.
func spellingClasses(o *vf.Obs, src, name, file, pad, how string, nonString bool) {
	set := map[string]bool{}
	addSpelling(set, src, name, file, pad, how, nonString)
	recordSpelling(o, set)
}

// recordSpelling records every class of the set once (a case with several placeholders counts once per class).
func recordSpelling(o *vf.Obs, set map[string]bool) {
	names := make([]string, 0, len(set))
	for n := range set {
		names = append(names, n)
	}
	sort.Strings(names)
	o.Class(names...)
}

// how: what the placeholder does in the case - "resolves", "names_nothing" (unset variable, missing key / file), "invalid_text".
func addSpelling(set map[string]bool, src, name, file, pad, how string, nonString bool) {
	add := func(cond bool, names ...string) {
		if cond {
			for _, n := range names {
				set[n] = true
			}
		}
	}
	blank, tab, punct, uni := spellingOf(name, "")
	add(!blank && !tab && !punct && !uni, "name:plain")
	add(blank, "name:interior_blank")
	add(tab, "name:interior_tab")
	add(punct, "name:punct")
	add(uni, "name:non_ascii")
	white := blank || tab
	if src == "env" {
		add(white, "blank_in:env_name")
	} else {
		add(white, "blank_in:property_key")
		pb, pt, pp, pu := spellingOf(file, "./-")
		add(!pb && !pt && !pp && !pu && !strings.Contains(file, "/"), "path:plain")
		add(strings.Contains(file, "/"), "path:sub_dir")
		add(pb || pt, "path:interior_blank", "blank_in:property_path")
		add(pp, "path:punct")
		add(pu, "path:non_ascii")
		white = white || pb || pt
	}
	add(white, "blank_named:"+how)
	add(white && nonString, "blank_named:non_string_field")
	if pad == padNone {
		add(true, "pad:none")
	} else {
		add(true, "pad:"+pad, "pad:some")
	}
}

// trimLastRune is s without its last character (byte-wise for ASCII names, as before).
func trimLastRune(s string) string {
	_, n := utf8.DecodeLastRuneInString(s)
	return s[:len(s)-n]
}


// drawEOL draws how the lines of a property file end (PhCase.EOL).
func drawEOL(t *rapid.T) string {
	return rapid.SampledFrom([]string{"", "", "", "crlf", "crlf", "nofinal", "crlf_nofinal"}).Draw(t, "eol")
}

// propFileText renders the lines of a property file: with a terminator behind the last line a further line follows the
// key's line, without one the key's line is the last.
func propFileText(lines []string, eol string) string {
	sep := "\n"
	if strings.HasPrefix(eol, "crlf") {
		sep = "\r\n"
	}
	if strings.HasSuffix(eol, "nofinal") {
		return strings.Join(lines, sep)
	}
	return strings.Join(append(append([]string{}, lines...), "last=z"), sep) + sep
}

func eolClasses(o *vf.Obs, src, eol, how string, nonString bool) {
	if src != "property" {
		return
	}
	crlf := strings.HasPrefix(eol, "crlf")
	o.ClassIf(crlf, "property_file_crlf")
	o.ClassIf(crlf && how == "resolves", "property_file_crlf:resolves")
	o.ClassIf(crlf && how == "resolves" && nonString, "property_file_crlf:resolves_non_string_field")
	o.ClassIf(strings.HasSuffix(eol, "nofinal"), "property_file_last_line_unterminated")
}
