// C17 — config decoding: unknown keys rejected, defaults kept, values validated,
// ${env:..} / ${property:..#..} placeholders substituted.
//
// Shared plumbing of the five tests:
//
//	TestValid                  generated valid configs are accepted; every section decodes to
//	                           "registered default overlaid with exactly the given keys"
//	TestMutations              one unknown key / wrongly typed value / constraint violation /
//	                           missing required key / bad type name ⇒ rejected
//	TestPlaceholders           literal ≡ placeholder variant; unresolved placeholder ⇒ rejected
//	TestScenarioPlaceholders   the same for every scalar of generated scenario description files
//	TestDiscardOverflowDefault the real CLI reader turns an absent discard_overflow into true
//
// "Rejected" = an error from config.DecodeAndValidate or from the first call of a
// factory the decode produced (NewGun, NewRPSSchedule): schedule and some gun
// sections are decoded lazily inside the factory.
package c17

import (
	"fmt"
	"io"
	"os"
	"runtime/debug"
	"strings"
	"testing"

	cg "verif/harness/internal/confgen"
	"verif/harness/internal/pand"
	"verif/harness/internal/vf"

	"github.com/yandex/pandora/cli"
)

var propDir string // real-OS directory for ${property:file#key} files (confutil reads the OS fs)

func TestMain(m *testing.M) {
	dir, err := os.MkdirTemp("", "verif-c17-")
	if err != nil {
		fmt.Fprintln(os.Stderr, "c17: cannot create temp dir:", err)
		os.Exit(2)
	}
	propDir = dir
	code := m.Run()
	_ = os.RemoveAll(dir)
	os.Exit(code)
}

func setup(t *testing.T) {
	t.Helper()
	if err := cg.Init(); err != nil {
		t.Fatalf("confgen: %v", err)
	}
}

const (
	stageDecode = "DecodeAndValidate"
	stageGun    = "NewGun"
	stageRPS    = "NewRPSSchedule"
)

// outcome of pushing one configuration through the real decoder and its factories.
type outcome struct {
	stage    string // "" = accepted, else where it was rejected
	err      error
	panicked bool // the rejection was a panic, not an error
	conf     *cli.CliConfig
}

func (o outcome) accepted() bool { return o.stage == "" }

func (o outcome) String() string {
	if o.accepted() {
		return "accepted"
	}
	if o.panicked {
		return fmt.Sprintf("PANIC in %s: %v", o.stage, o.err)
	}
	return fmt.Sprintf("rejected by %s: %v", o.stage, firstLine(o.err.Error(), 300))
}

func firstLine(s string, n int) string {
	s = strings.ReplaceAll(s, "\n", " | ")
	if len(s) > n {
		s = s[:n] + "..."
	}
	return s
}

// pandoraFrames keeps the source positions inside /repo of a stack dump (innermost first).
func pandoraFrames(stack string) string {
	var out []string
	for _, l := range strings.Split(stack, "\n") {
		l = strings.TrimSpace(l)
		if strings.HasPrefix(l, "/repo/") {
			if i := strings.IndexByte(l, ' '); i > 0 {
				l = l[:i]
			}
			out = append(out, l)
			if len(out) == 6 {
				break
			}
		}
	}
	return strings.Join(out, " <- ")
}

// stageCall runs f, turning a panic into a recorded outcome.
func stageCall(stage string, out *outcome, f func() error) (ok bool) {
	defer func() {
		if p := recover(); p != nil {
			out.stage, out.panicked = stage, true
			out.err = fmt.Errorf("%v [%s]", p, pandoraFrames(string(debug.Stack())))
			ok = false
		}
	}()
	if err := f(); err != nil {
		out.stage, out.err = stage, err
		return false
	}
	return true
}

// decodeAll decodes a CLI-level config like cli.readConfig does (DecodeAndValidate
// into cli.DefaultConfig()) and invokes every factory of every pool once.
func decodeAll(conf map[string]any) outcome {
	pand.Init()
	var out outcome
	c := cli.DefaultConfig()
	if !stageCall(stageDecode, &out, func() error { return pand.Decode(cg.CloneMap(conf), c) }) {
		return out
	}
	out.conf = c
	// The engine calls the gun factory once per instance (plus a warm-up probe) and, with rps-per-instance, the
	// schedule factory once per instance: every call decodes the section again. A section that was accepted by the
	// first call must be accepted by the following ones (reported like a panic: not a proper rejection).
	const calls = 3
	for i := range c.Engine.Pools {
		p := &c.Engine.Pools[i]
		if p.NewGun != nil {
			for k := 0; k < calls; k++ {
				if !stageCall(stageGun, &out, func() error {
					g, err := p.NewGun()
					if cl, ok := g.(io.Closer); ok && err == nil {
						_ = cl.Close()
					}
					return err
				}) {
					if k > 0 {
						out.panicked = true
						out.err = fmt.Errorf("NewGun() call #%d failed after call #1 had succeeded with the same section: %v", k+1, out.err)
					}
					return out
				}
			}
		}
		if p.NewRPSSchedule != nil {
			left := 0
			for k := 0; k < calls; k++ {
				if !stageCall(stageRPS, &out, func() error {
					s, err := p.NewRPSSchedule()
					if err == nil && s != nil {
						if l := s.Left(); k == 0 {
							left = l
						} else if l != left {
							return fmt.Errorf("schedule of call #%d holds %d tokens, the one of call #1 held %d", k+1, l, left)
						}
					}
					return err
				}) {
					if k > 0 {
						out.panicked = true
						out.err = fmt.Errorf("NewRPSSchedule() call #%d failed after call #1 had succeeded with the same section: %v", k+1, out.err)
					}
					return out
				}
			}
		}
	}
	return out
}

// sectionDiffs compares every plugin section of conf, as the registry hands it to the
// constructor, with the reference overlay; also the documented defaults of absent keys.
func sectionDiffs(sites []*cg.Site) []string {
	var diffs []string
	for _, s := range sites {
		if !s.Plugin {
			continue
		}
		got, hasConf, err := cg.ObserveSection(s)
		if err != nil {
			diffs = append(diffs, fmt.Sprintf("%s (%s): section rejected on its own: %v", s.PathString(), s.Comp.Label(), firstLine(err.Error(), 300)))
			continue
		}
		if !hasConf {
			continue
		}
		want := cg.NewDefault(s.Comp)
		if err := cg.Overlay(s.Comp.Fields(), want, s.Map, true); err != nil {
			diffs = append(diffs, fmt.Sprintf("%s (%s): %v", s.PathString(), s.Comp.Label(), err))
			continue
		}
		for _, d := range cg.Compare(s.Comp.Fields(), got, want, "") {
			diffs = append(diffs, fmt.Sprintf("%s (%s): %s", s.PathString(), s.Comp.Label(), d))
		}
		for _, d := range cg.CheckDoc(s.Comp, s.Map, got) {
			diffs = append(diffs, fmt.Sprintf("%s (%s): %s", s.PathString(), s.Comp.Label(), d))
		}
	}
	return diffs
}

// classify adds the labels shared by all tests for the sites of a configuration.
func maxDepth(sites []*cg.Site) int {
	d := 0
	for _, s := range sites {
		if s.Depth > d {
			d = s.Depth
		}
	}
	return d
}

func depthClass(d int) string {
	if d > 3 {
		d = 3
	}
	return fmt.Sprintf("depth:%d", d)
}

func startRun(t *testing.T) *vf.Run {
	setup(t)
	return vf.Start(t, "C17")
}

// witnessConf is the small valid configuration of the deterministic witness cases.
const witnessConf = `{"pools":[{"id":"w","gun":{"type":"http","target":"127.0.0.1:80"},"ammo":{"type":"uri","file":"/c17/ammo.uri","limit":5},` +
	`"result":{"type":"discard"},"rps":{"type":"once","times":1},"startup":{"type":"once","times":1}}]}`

// witness runs the fixed case of a finding through the same check as the generated cases,
// before the search. While the finding is listed as "known" a failure is only counted
// (KnownHit => KNOWN-FINDING line); otherwise (never listed, or listed as fixed) the witness
// is a plain regression case and a failure is a violation with its own replay file.
func witness[C any](t *testing.T, r *vf.Run, id string, c C, check func(C, *vf.Obs) error) {
	t.Helper()
	if os.Getenv("VERIF_REPLAY") != "" {
		return
	}
	o := &vf.Obs{}
	err := vf.Guard(func() error { return check(c, o) })
	if err != nil && r.IsKnown(id) {
		r.KnownHit(id)
		return
	}
	r.Record(c, o, err)
	if err != nil {
		t.Errorf("witness of %s fails: %v", id, err)
	}
}
