package c17

import (
	"encoding/json"
	"fmt"
	"reflect"
	"sort"
	"strconv"
	"strings"
	"testing"

	cg "verif/harness/internal/confgen"
	"verif/harness/internal/pand"
	"verif/harness/internal/vf"

	scnconfig "github.com/yandex/pandora/components/providers/scenario/config"
	"gopkg.in/yaml.v2"
	"pgregory.net/rapid"
)

// TestScenarioPlaceholders: scenario descriptions (the `file:` of the http/scenario and
// grpc/scenario providers) are decoded by the same config.DecodeAndValidate + variable
// injection hook as component configs, so ${env:..} / ${property:..#..} placeholders in
// their string, numeric and boolean fields must read like the literal, and a placeholder
// naming nothing must be an error.

// Known finding: a placeholder that is the whole value of a field whose Go kind is not
// bool / int / float / string (requests[].body is a *string, `variables` and `locals`
// values are interface{}) is rejected with "unsupported kind": confutil.cast returns
// ErrUnsupportedKind and ResolveCustomTags returns it instead of handing the resolved
// string to the following hooks. Embedded placeholders in the same fields work.
const findingUnsupportedKind = "placeholder-whole-value-unsupported-kind"

// Kinds of scalar positions of a scenario description.
const (
	skString = "string"  // Go string (also map[string]string values and []string elements)
	skInt    = "int"     // int / int64
	skBool   = "bool"    //
	skPtrStr = "*string" // requests[].body
	skAny    = "any"     // interface{}: values of a `variables` source and of `locals`
)

type ScnPhCase struct {
	Doc   string `json:"doc"`  // the scenario description (JSON text of the map that is written as YAML)
	Path  string `json:"path"` // position of the scalar: keys / indices joined by "/"
	Src   string `json:"src"`
	Mode  string `json:"mode"`
	Name  string `json:"name"`
	File  string `json:"file"`
	EOL   string `json:"eol,omitempty"` // line ends of the property file (PhCase.EOL)
	Pad   string `json:"pad,omitempty"` // padding inside the braces; Name / File / Pad are drawn as in TestPlaceholders (names_test.go)
	From  int    `json:"from"`
	To    int    `json:"to"`
	Text  string `json:"text"`
	Decoy string `json:"decoy,omitempty"`
	Kind  string `json:"kind"` // informative: the check derives it from Path
}

func (c ScnPhCase) ph() PhCase {
	return PhCase{Src: c.Src, Mode: c.Mode, Name: c.Name, File: c.File, Pad: c.Pad, Decoy: c.Decoy, EOL: c.EOL}
}

// scnKind derives the kind of the scalar at a path from the documented layout of scenario files.
func scnKind(path []string) string {
	last := path[len(path)-1]
	parent := ""
	if len(path) >= 2 {
		parent = path[len(path)-2]
	}
	switch {
	case path[0] == "locals":
		return skAny
	case path[0] == "variable_sources" && len(path) >= 4 && path[2] == "variables":
		return skAny
	case last == "ignore_first_line":
		return skBool
	case last == "weight", last == "min_waiting_time", last == "status_code":
		return skInt
	case parent == "size" && last == "val":
		return skInt
	case path[0] == "requests" && len(path) == 3 && last == "body":
		return skPtrStr
	}
	return skString
}

type scnPos struct {
	path []string
	kind string
}

// scalarPositions lists every scalar of the document except the `type` keys.
func scalarPositions(v any, path []string, out *[]scnPos) {
	switch x := v.(type) {
	case map[string]any:
		for _, k := range cg.SortedKeys(x) {
			if k == "type" {
				continue
			}
			scalarPositions(x[k], append(append([]string{}, path...), k), out)
		}
	case []any:
		for i, e := range x {
			scalarPositions(e, append(append([]string{}, path...), strconv.Itoa(i)), out)
		}
	case nil:
	default:
		// Free-form data: only the direct values of `locals` and of a `variables` source are decoded (into
		// interface{}); what is nested deeper inside them is copied verbatim by the decoder, hooks do not see it.
		if (path[0] == "locals" && len(path) > 2) || (path[0] == "variable_sources" && len(path) > 4 && path[2] == "variables") {
			return
		}
		*out = append(*out, scnPos{path, scnKind(path)})
	}
}

// at returns the container holding the scalar at path and a setter for it.
func scnAt(doc map[string]any, path []string) (get func() any, set func(any), err error) {
	var cur any = doc
	for i, seg := range path {
		lastSeg := i == len(path)-1
		switch x := cur.(type) {
		case map[string]any:
			v, ok := x[seg]
			if !ok {
				return nil, nil, fmt.Errorf("path %q: no key %q", strings.Join(path, "/"), seg)
			}
			if lastSeg {
				return func() any { return x[seg] }, func(n any) { x[seg] = n }, nil
			}
			cur = v
		case []any:
			n, aerr := strconv.Atoi(seg)
			if aerr != nil || n < 0 || n >= len(x) {
				return nil, nil, fmt.Errorf("path %q: no element %q", strings.Join(path, "/"), seg)
			}
			if lastSeg {
				return func() any { return x[n] }, func(v any) { x[n] = v }, nil
			}
			cur = x[n]
		default:
			return nil, nil, fmt.Errorf("path %q: %q is inside a scalar", strings.Join(path, "/"), seg)
		}
	}
	return nil, nil, fmt.Errorf("empty path")
}

var scnTexts = []string{"abc", "some text", "/a/b?x=1", "Bearer {{.request.auth.postprocessor.token}}", "x-1", "application/json",
	`{"id": {{.request.r.preprocessor.id}}}`, "source.users[next].id", "$.items[0]", "a: b", "yes", "12", "0.5", " lead and trail ", "üñï"}

func scnText(t *rapid.T, label string) any { return rapid.SampledFrom(scnTexts).Draw(t, label) }

func scnStrMap(t *rapid.T, keys []string, label string) map[string]any {
	m := map[string]any{}
	n := rapid.IntRange(1, 2).Draw(t, label+"N")
	for i := 0; i < n; i++ {
		m[rapid.SampledFrom(keys).Draw(t, label+"K")] = scnText(t, label+"V")
	}
	return m
}

func scnStrList(t *rapid.T, label string) []any {
	n := rapid.IntRange(1, 3).Draw(t, label+"N")
	out := make([]any, n)
	for i := range out {
		out[i] = scnText(t, label+"E")
	}
	return out
}

// genScnDoc draws a small scenario description: variable sources of the three types, http
// requests and / or grpc calls with pre- and postprocessors, scenarios.
func genScnDoc(t *rapid.T) map[string]any {
	doc := map[string]any{}
	if rapid.Bool().Draw(t, "locals") {
		doc["locals"] = map[string]any{"shared": scnText(t, "local"), "other": scnText(t, "local2")}
	}
	var sources []any
	for i, n := 0, rapid.IntRange(0, 3).Draw(t, "nsrc"); i < n; i++ {
		s := map[string]any{"name": fmt.Sprintf("src%d", i)}
		switch rapid.IntRange(0, 3).Draw(t, "srcType") {
		case 0, 1:
			s["type"] = "file/csv"
			s["file"] = rapid.SampledFrom([]string{"users.csv", "/data/u.csv", "testdata/users.csv"}).Draw(t, "csvFile")
			if rapid.Bool().Draw(t, "hasFields") {
				s["fields"] = scnStrList(t, "fields")
			}
			if rapid.IntRange(0, 2).Draw(t, "hasIgnore") > 0 {
				s["ignore_first_line"] = rapid.Bool().Draw(t, "ignore")
			}
			if rapid.Bool().Draw(t, "hasDelim") {
				s["delimiter"] = rapid.SampledFrom([]string{",", ";", "|", "\t"}).Draw(t, "delim")
			}
		case 2:
			s["type"] = "file/json"
			s["file"] = rapid.SampledFrom([]string{"filter.json", "/data/f.json"}).Draw(t, "jsonFile")
		default:
			s["type"] = "variables"
			vars := scnStrMap(t, []string{"a", "b", "header"}, "vars")
			if rapid.Bool().Draw(t, "nestedVars") {
				vars["nested"] = map[string]any{"inner": scnText(t, "innerVar")}
			}
			s["variables"] = vars
		}
		sources = append(sources, s)
	}
	if sources != nil {
		doc["variable_sources"] = sources
	}
	shape := rapid.SampledFrom([]string{"http", "http", "grpc", "both"}).Draw(t, "shape")
	var names []string
	if shape != "grpc" {
		var reqs []any
		for i, n := 0, rapid.IntRange(1, 2).Draw(t, "nreq"); i < n; i++ {
			name := fmt.Sprintf("req%d", i)
			names = append(names, name)
			r := map[string]any{"name": name,
				"method": rapid.SampledFrom([]string{"GET", "POST", "PUT"}).Draw(t, "method"),
				"uri":    rapid.SampledFrom([]string{"/", "/auth", "/list?x={{.request.req0.postprocessor.id}}"}).Draw(t, "uri")}
			if rapid.Bool().Draw(t, "hasTag") {
				r["tag"] = rapid.SampledFrom([]string{"auth", "list", "t 1"}).Draw(t, "tag")
			}
			if rapid.IntRange(0, 2).Draw(t, "hasBody") > 0 {
				r["body"] = scnText(t, "body")
			}
			if rapid.Bool().Draw(t, "hasHeaders") {
				r["headers"] = scnStrMap(t, []string{"Content-Type", "Authorization", "X-A"}, "hdr")
			}
			if rapid.Bool().Draw(t, "hasPre") {
				r["preprocessor"] = map[string]any{"mapping": scnStrMap(t, []string{"id", "user"}, "premap")}
			}
			var posts []any
			for j, m := 0, rapid.IntRange(0, 2).Draw(t, "npost"); j < m; j++ {
				switch rapid.IntRange(0, 3).Draw(t, "postType") {
				case 0:
					posts = append(posts, map[string]any{"type": "var/header", "mapping": scnStrMap(t, []string{"ct", "auth"}, "vh")})
				case 1:
					posts = append(posts, map[string]any{"type": "var/jsonpath", "mapping": scnStrMap(t, []string{"token", "id"}, "vj")})
				case 2:
					posts = append(posts, map[string]any{"type": "var/xpath", "mapping": scnStrMap(t, []string{"node"}, "vx")})
				default:
					a := map[string]any{"type": "assert/response"}
					if rapid.Bool().Draw(t, "aHeaders") {
						a["headers"] = scnStrMap(t, []string{"Content-Type", "Server"}, "ah")
					}
					if rapid.Bool().Draw(t, "aBody") {
						a["body"] = scnStrList(t, "ab")
					}
					if rapid.Bool().Draw(t, "aCode") {
						a["status_code"] = rapid.SampledFrom([]int{200, 201, 404, 0}).Draw(t, "code")
					}
					if rapid.Bool().Draw(t, "aSize") {
						a["size"] = map[string]any{"val": rapid.IntRange(0, 5000).Draw(t, "sizeVal"),
							"op": rapid.SampledFrom([]string{">", "<", "eq", "=", "lt", "gt"}).Draw(t, "sizeOp")}
					}
					posts = append(posts, a)
				}
			}
			if posts != nil {
				r["postprocessors"] = posts
			}
			if rapid.IntRange(0, 3).Draw(t, "hasTempl") == 0 {
				r["templater"] = map[string]any{"type": rapid.SampledFrom([]string{"text", "html"}).Draw(t, "templ")}
			}
			reqs = append(reqs, r)
		}
		doc["requests"] = reqs
	}
	if shape != "http" {
		var calls []any
		for i, n := 0, rapid.IntRange(1, 2).Draw(t, "ncall"); i < n; i++ {
			name := fmt.Sprintf("call%d", i)
			names = append(names, name)
			c := map[string]any{"name": name, "call": "target.TargetService." + rapid.SampledFrom([]string{"Auth", "List"}).Draw(t, "rpc"),
				"payload": scnText(t, "payload")}
			if rapid.Bool().Draw(t, "hasCTag") {
				c["tag"] = rapid.SampledFrom([]string{"auth", "list"}).Draw(t, "ctag")
			}
			if rapid.Bool().Draw(t, "hasMeta") {
				c["metadata"] = scnStrMap(t, []string{"metadata", "authorization"}, "meta")
			}
			if rapid.Bool().Draw(t, "hasCPre") {
				c["preprocessors"] = []any{map[string]any{"type": "prepare", "mapping": scnStrMap(t, []string{"user", "item"}, "cpre")}}
			}
			if rapid.Bool().Draw(t, "hasCPost") {
				a := map[string]any{"type": "assert/response", "payload": scnStrList(t, "cpay")}
				if rapid.Bool().Draw(t, "cCode") {
					a["status_code"] = rapid.SampledFrom([]int{0, 200, 5}).Draw(t, "ccode")
				}
				c["postprocessors"] = []any{a}
			}
			calls = append(calls, c)
		}
		doc["calls"] = calls
	}
	var scns []any
	for i, n := 0, rapid.IntRange(1, 2).Draw(t, "nscn"); i < n; i++ {
		s := map[string]any{"name": fmt.Sprintf("scenario %d", i)}
		if rapid.Bool().Draw(t, "hasWeight") {
			s["weight"] = rapid.IntRange(0, 100).Draw(t, "weight")
		}
		if rapid.Bool().Draw(t, "hasWait") {
			s["min_waiting_time"] = rapid.IntRange(0, 1000).Draw(t, "wait")
		}
		var steps []any
		for j, m := 0, rapid.IntRange(1, 3).Draw(t, "nstep"); j < m; j++ {
			if rapid.IntRange(0, 3).Draw(t, "sleep") == 0 {
				steps = append(steps, "sleep(100)")
			} else {
				steps = append(steps, rapid.SampledFrom(names).Draw(t, "step")+rapid.SampledFrom([]string{"", "(1)", "(3, 10)"}).Draw(t, "stepArgs"))
			}
		}
		s["requests"] = steps
		scns = append(scns, s)
	}
	doc["scenarios"] = scns
	return doc
}

// scnInvalidTexts: variable contents that are no value of the position's kind (or violate min=0 of weight).
func scnInvalidTexts(kind string, path []string) []string {
	switch kind {
	case skInt:
		out := []string{"abc", "12x", "1.5", ""}
		if last := path[len(path)-1]; last == "weight" || (last == "val" && path[len(path)-2] == "size") {
			out = append(out, "-1") // weight: validate min=0; assert size: "size must be positive"
		}
		return out
	case skBool:
		return []string{"maybe", "yes please", ""}
	}
	return nil
}

func genScnPh(r *vf.Run) func(t *rapid.T) ScnPhCase {
	return func(t *rapid.T) ScnPhCase {
		doc := genScnDoc(t)
		var all []scnPos
		scalarPositions(doc, nil, &all)
		byKind := map[string][]scnPos{}
		for _, p := range all {
			byKind[p.kind] = append(byKind[p.kind], p)
		}
		var kinds []string
		for _, k := range []string{skString, skString, skString, skString, skInt, skInt, skBool, skBool, skPtrStr, skPtrStr, skAny} {
			if len(byKind[k]) > 0 {
				kinds = append(kinds, k)
			}
		}
		kind := rapid.SampledFrom(kinds).Draw(t, "kind")
		// the field first (a description has many names and steps, few assert sizes), then one of its positions
		byField := map[string][]scnPos{}
		var fields []string
		for _, p := range byKind[kind] {
			l := fieldLabel(p.path)
			if len(byField[l]) == 0 {
				fields = append(fields, l)
			}
			byField[l] = append(byField[l], p)
		}
		sort.Strings(fields)
		cands := byField[rapid.SampledFrom(fields).Draw(t, "field")]
		p := cands[rapid.IntRange(0, len(cands)-1).Draw(t, "pos")]
		get, _, err := scnAt(doc, p.path)
		if err != nil {
			t.Fatalf("generator: %v", err)
		}
		text, ok := literalText(get())
		if !ok {
			t.Fatalf("generator drew %T at %v", get(), p.path)
		}
		c := ScnPhCase{Doc: cg.Encode(doc), Path: strings.Join(p.path, "/"), Kind: kind}
		c.Src = rapid.SampledFrom([]string{"env", "property"}).Draw(t, "src")
		c.Name = drawName(t, []string{"VERIF_C17_S", "VERIF_C17_body", "verif_c17_scn", "S17"}, "name")
		c.File = drawPropFile(t, []string{"scn.properties", "s"}, "file")
		c.Pad = drawPad(t)
		c.EOL = drawEOL(t)
		modes := []string{pWhole, pWhole, pWhole, pWhole, pWhole, pWhole}
		if kind != skInt && kind != skBool && len(text) > 0 {
			modes = append(modes, pEmbedded, pEmbedded, pEmbedded)
		}
		if c.Src == "env" {
			modes = append(modes, pUnsetEnv, pUnsetEnv)
		} else {
			modes = append(modes, pMissingKey, pMissingKey, pMissingFile)
		}
		bad := scnInvalidTexts(kind, p.path)
		if len(bad) > 0 {
			modes = append(modes, pInvalid, pInvalid)
		}
		c.Mode = rapid.SampledFrom(modes).Draw(t, "mode")
		if c.Mode == pInvalid {
			c.Text = rapid.SampledFrom(bad).Draw(t, "badtext")
		}
		if c.Mode == pWhole && (kind == skPtrStr || kind == skAny) && r.IsKnown(findingUnsupportedKind) {
			r.Excluded(findingUnsupportedKind)
			if len(text) == 0 {
				c.Mode = pMissingFile
				c.Src = "property"
			} else {
				c.Mode = pEmbedded
			}
		}
		num, den := 1, 3
		if c.Mode == pUnsetEnv || c.Mode == pMissingKey {
			num, den = 3, 4
		}
		if c.Mode != pMissingFile && rapid.IntRange(1, den).Draw(t, "decoy") <= num {
			cv, af := nearMisses(c.Name, rapid.IntRange(0, 31).Draw(t, "flip"))
			c.Decoy = rapid.SampledFrom(append(append(append([]string{}, cv...), cv...), af...)).Draw(t, "decoyName")
		}
		if c.Mode == pEmbedded {
			// variable part text[from:to], cut at character boundaries; at least one character stays outside
			var cuts []int
			for i := range text {
				cuts = append(cuts, i)
			}
			cuts = append(cuts, len(text))
			i := rapid.IntRange(0, len(cuts)-2).Draw(t, "from")
			j := rapid.IntRange(i, len(cuts)-1).Draw(t, "to")
			if i == 0 && j == len(cuts)-1 {
				if j > 1 {
					j--
				} else {
					j = 0
				}
			}
			c.From, c.To = cuts[i], cuts[j]
			// the known finding also covers "placeholder + blanks only" (the value is trimmed before it is compared
			// with the placeholder): keep a non-blank character outside
			if (kind == skPtrStr || kind == skAny) && r.IsKnown(findingUnsupportedKind) &&
				strings.TrimSpace(text[:c.From]+text[c.To:]) == "" {
				r.Excluded(findingUnsupportedKind)
				for k := 0; k < len(cuts)-1; k++ {
					if strings.TrimSpace(text[cuts[k]:cuts[k+1]]) != "" {
						c.From, c.To = cuts[k+1], len(text)
						break
					}
				}
			}
		}
		return c
	}
}

// dumpValue renders a decoded value canonically: exported fields only, pointers and
// interfaces followed (with the dynamic type named), map keys sorted.
func dumpValue(v reflect.Value, prefix string, out *[]string, depth int) {
	if depth > 12 {
		*out = append(*out, prefix+" = <too deep>")
		return
	}
	switch v.Kind() {
	case reflect.Ptr, reflect.Interface:
		if v.IsNil() {
			*out = append(*out, prefix+" = nil")
			return
		}
		e := v.Elem()
		if v.Kind() == reflect.Interface {
			prefix += "<" + e.Type().String() + ">"
		} else {
			prefix += "*"
		}
		dumpValue(e, prefix, out, depth+1)
	case reflect.Struct:
		n := 0
		for i := 0; i < v.NumField(); i++ {
			if f := v.Type().Field(i); f.PkgPath == "" {
				dumpValue(v.Field(i), prefix+"."+f.Name, out, depth+1)
				n++
			}
		}
		if n == 0 {
			*out = append(*out, prefix+" = {}")
		}
	case reflect.Slice, reflect.Array:
		if v.Kind() == reflect.Slice && v.IsNil() {
			*out = append(*out, prefix+" = nil slice")
			return
		}
		*out = append(*out, fmt.Sprintf("%s len = %d", prefix, v.Len()))
		for i := 0; i < v.Len(); i++ {
			dumpValue(v.Index(i), fmt.Sprintf("%s[%d]", prefix, i), out, depth+1)
		}
	case reflect.Map:
		if v.IsNil() {
			*out = append(*out, prefix+" = nil map")
			return
		}
		*out = append(*out, fmt.Sprintf("%s len = %d", prefix, v.Len()))
		keys := v.MapKeys()
		sort.Slice(keys, func(i, j int) bool { return fmt.Sprint(keys[i].Interface()) < fmt.Sprint(keys[j].Interface()) })
		for _, k := range keys {
			dumpValue(v.MapIndex(k), fmt.Sprintf("%s[%q]", prefix, fmt.Sprint(k.Interface())), out, depth+1)
		}
	case reflect.String:
		*out = append(*out, fmt.Sprintf("%s = %q", prefix, v.String()))
	case reflect.Func, reflect.Chan, reflect.UnsafePointer:
		*out = append(*out, fmt.Sprintf("%s = <%s nil=%v>", prefix, v.Kind(), v.IsNil()))
	default:
		if v.CanInterface() {
			*out = append(*out, fmt.Sprintf("%s = %s(%v)", prefix, v.Type(), v.Interface()))
		} else {
			*out = append(*out, fmt.Sprintf("%s = %s(%v)", prefix, v.Type(), v))
		}
	}
}

// readScenario writes the description as a YAML file on the shared mem fs and reads it with the providers' reader.
func readScenario(doc map[string]any) (lines []string, yamlText string, err error) {
	data, merr := yaml.Marshal(doc)
	if merr != nil {
		return nil, "", fmt.Errorf("harness: yaml.Marshal: %w", merr)
	}
	name := pand.WriteFile("c17-scn", ".yaml", data)
	defer pand.Remove(name)
	var out outcome
	var cfg *scnconfig.AmmoConfig
	if !stageCall("ReadAmmoConfig", &out, func() error {
		var e error
		cfg, e = scnconfig.ReadAmmoConfig(pand.FS(), name)
		return e
	}) {
		if out.panicked {
			return nil, string(data), fmt.Errorf("PANIC: %w", out.err)
		}
		return nil, string(data), out.err
	}
	if cfg == nil {
		return nil, string(data), fmt.Errorf("PANIC: ReadAmmoConfig returned nil, nil")
	}
	dumpValue(reflect.ValueOf(cfg), "ammo", &lines, 0)
	return lines, string(data), nil
}

func checkScnPh(c ScnPhCase, o *vf.Obs) error {
	pand.Init()
	base, err := cg.ParseMap(c.Doc)
	if err != nil {
		return err
	}
	variant := cg.CloneMap(base)
	path := strings.Split(c.Path, "/")
	get, set, err := scnAt(variant, path)
	if err != nil {
		return err
	}
	kind := scnKind(path)
	text, ok := literalText(get())
	if !ok {
		return fmt.Errorf("the literal at %s is %T, not a scalar", c.Path, get())
	}
	p := c.ph()
	value, ph := text, p.placeholder()
	switch c.Mode {
	case pInvalid:
		value = c.Text
	case pEmbedded:
		if c.From < 0 || c.To > len(text) || c.From > c.To {
			return fmt.Errorf("bad split %d:%d of %q", c.From, c.To, text)
		}
		value = text[c.From:c.To]
		ph = text[:c.From] + ph + text[c.To:]
	}
	set(ph)

	mustReject := c.Mode != pWhole && c.Mode != pEmbedded
	decoyValue := decoyText
	if mustReject {
		decoyValue = text
	}
	top := path[0]
	o.Class("src:"+c.Src, "mode:"+c.Mode, "kind:"+kind, "section:"+top, "field:"+fieldLabel(path), decoyClass(c.Name, c.Decoy))
	o.ClassIf(mustReject && c.Mode != pInvalid, "missing:"+c.Mode)
	o.ClassIf(!mustReject, "resolves:"+kind)
	how, file := "resolves", c.File
	switch {
	case c.Mode == pInvalid:
		how = "invalid_text"
	case mustReject:
		how = "names_nothing"
	}
	if c.Src == "env" {
		file = ""
	}
	spellingClasses(o, c.Src, c.Name, file, c.Pad, how, kind != skString)
	eolClasses(o, c.Src, c.EOL, how, kind != skString)
	if c.Decoy != "" && c.Decoy != c.Name {
		o.ClassIf(mustReject && c.Mode != pInvalid, "missing_with_"+decoyClass(c.Name, c.Decoy)+":"+c.Src)
		o.Note("decoy", c.Decoy+"="+decoyValue)
	}
	if kind != skString {
		o.NonTrivial()
	}
	o.Note("placeholder", ph)
	o.Note("variable_value", value)

	wantLines, _, err := readScenario(base)
	if err != nil {
		return fmt.Errorf("the literal scenario description was not accepted: %v", firstLine(err.Error(), 400))
	}
	cleanup, err := p.install(value, decoyValue)
	if err != nil {
		return err
	}
	defer cleanup()
	gotLines, yamlText, err := readScenario(variant)
	o.Note("yaml", yamlText)
	where := fmt.Sprintf("%s (%s)", c.Path, kind)
	if err != nil && strings.HasPrefix(err.Error(), "PANIC") {
		return fmt.Errorf("%s = %q with the variable holding %q: %v", where, ph, value, err)
	}
	if mustReject {
		if err == nil && c.Mode == pInvalid {
			return fmt.Errorf("%s: %s = %q with the variable holding %q was accepted, although %q is no valid value there", c.Mode, where, ph, value, value)
		}
		if err == nil {
			return fmt.Errorf("%s: %s = %q names nothing that exists (decoy %q), but the scenario description was accepted", c.Mode, where, ph, c.Decoy)
		}
		o.Note("outcome", "rejected: "+firstLine(err.Error(), 300))
		return nil
	}
	if err != nil {
		return fmt.Errorf("%s: the literal %q is accepted, but %q with the variable holding %q is not: %s", where, text, ph, value, firstLine(err.Error(), 400))
	}
	if diffs := lineDiffs(gotLines, wantLines); len(diffs) > 0 {
		return fmt.Errorf("%s: %q with the variable holding %q decodes differently from the literal %q:\n  %s", where, ph, value, text, strings.Join(diffs, "\n  "))
	}
	return nil
}

// fieldLabel names a position without its indices and free map keys ("requests/headers/*").
func fieldLabel(path []string) string {
	var out []string
	for i, s := range path {
		if _, err := strconv.Atoi(s); err == nil {
			continue
		}
		if i > 0 {
			switch path[i-1] {
			case "headers", "mapping", "metadata", "variables", "locals", "nested":
				s = "*"
			}
		}
		out = append(out, s)
	}
	if last := path[len(path)-1]; len(path) >= 2 {
		if _, err := strconv.Atoi(last); err == nil {
			out = append(out, "[]")
		}
	}
	return strings.Join(out, "/")
}

func lineDiffs(got, want []string) []string {
	var diffs []string
	for i := 0; i < len(got) || i < len(want); i++ {
		g, w := "<nothing>", "<nothing>"
		if i < len(got) {
			g = got[i]
		}
		if i < len(want) {
			w = want[i]
		}
		if g != w {
			diffs = append(diffs, fmt.Sprintf("placeholder: %s | literal: %s", g, w))
			if len(diffs) == 5 {
				break
			}
		}
	}
	return diffs
}

func scnWitnessDoc() string {
	doc := map[string]any{
		"requests":  []any{map[string]any{"name": "r", "method": "POST", "uri": "/", "body": "hello"}},
		"scenarios": []any{map[string]any{"name": "s", "requests": []any{"r"}}},
	}
	b, _ := json.Marshal(doc)
	return string(b)
}

func TestScenarioPlaceholders(t *testing.T) {
	r := startRun(t)
	witness(t, r, findingUnsupportedKind, ScnPhCase{Doc: scnWitnessDoc(), Path: "requests/0/body", Src: "env", Mode: pWhole,
		Name: "VERIF_C17_WITNESS_BODY", Kind: skPtrStr}, checkScnPh)
	if t.Failed() {
		return // a failed witness is reported with its own replay file; rapid refuses a failed *testing.T
	}
	vf.Check(r, genScnPh(r), checkScnPh)
}
