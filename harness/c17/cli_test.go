package c17

import (
	"fmt"
	"os"
	"path/filepath"
	"testing"

	cg "verif/harness/internal/confgen"
	"verif/harness/internal/pand"
	"verif/harness/internal/vf"

	"github.com/yandex/pandora/cli"
	"gopkg.in/yaml.v2"
	"pgregory.net/rapid"
)

// CLICase is a config FILE for the real CLI reader (cli.readConfig through the
// verif-tagged export): viper reads it from the OS file system by extension, the
// discard_overflow default is applied, then the usual decode runs.
type CLICase struct {
	Format  string `json:"format"`  // yaml | json
	Conf    string `json:"conf"`    // the configuration (JSON text); pools carry discard_overflow or not
	Discard []int  `json:"discard"` // informative, per pool: -1 absent, 0 false, 1 true, 2 / 3 a ${env:...} placeholder holding false / true
}

// values of discard_overflow given through the documented variable templates
const (
	envDiscardFalse = "VERIF_C17_DISCARD_FALSE"
	envDiscardTrue  = "VERIF_C17_DISCARD_TRUE"
)

func genCLI(t *rapid.T) CLICase {
	o := cg.DefaultOpts
	o.NullP = 0 // viper drops / keeps null-valued keys in its own way; nulls are TestValid's business
	root := cg.GenRoot(t, o)
	c := CLICase{Format: rapid.SampledFrom([]string{"yaml", "yaml", "json"}).Draw(t, "format")}
	for _, p := range root["pools"].([]any) {
		pool := p.(map[string]any)
		d := rapid.SampledFrom([]int{-1, -1, 0, 1, 2, 3}).Draw(t, "discard")
		switch d {
		case -1:
			delete(pool, "discard_overflow")
		case 2:
			pool["discard_overflow"] = "${env:" + envDiscardFalse + "}"
		case 3:
			pool["discard_overflow"] = "${env:" + envDiscardTrue + "}"
		default:
			pool["discard_overflow"] = d == 1
		}
		c.Discard = append(c.Discard, d)
	}
	c.Conf = cg.Encode(root)
	return c
}

func checkCLI(c CLICase, o *vf.Obs) error {
	conf, err := cg.ParseMap(c.Conf)
	if err != nil {
		return err
	}
	pools, _ := conf["pools"].([]any)
	if len(pools) == 0 {
		return fmt.Errorf("case has no pools")
	}
	_ = os.Setenv(envDiscardFalse, "false")
	_ = os.Setenv(envDiscardTrue, "true")
	// cli.readConfig ends the process (zap Fatal) on any error: only hand it configurations
	// that the plain decoder accepts, so that a rejected one is a reported case, not a dead worker.
	pre := cli.DefaultConfig()
	if err := vf.Guard(func() error { return pand.Decode(cg.CloneMap(conf), pre) }); err != nil {
		return fmt.Errorf("generated configuration is rejected by config.DecodeAndValidate: %v", firstLine(err.Error(), 400))
	}

	var data []byte
	switch c.Format {
	case "yaml":
		data, err = yaml.Marshal(conf)
	case "json":
		data = []byte(c.Conf)
	default:
		err = fmt.Errorf("unknown format %q", c.Format)
	}
	if err != nil {
		return err
	}
	path := filepath.Join(propDir, "load."+c.Format)
	if err := os.WriteFile(path, data, 0o644); err != nil {
		return err
	}
	defer os.Remove(path)

	got := cli.ReadConfigForVerif([]string{path})
	if got == nil {
		return fmt.Errorf("cli reader returned nil")
	}
	if len(got.Engine.Pools) != len(pools) {
		return fmt.Errorf("file has %d pools, the CLI reader decoded %d", len(pools), len(got.Engine.Pools))
	}
	anyAbsent := false
	for i, p := range pools {
		pool := p.(map[string]any)
		want, label := true, "absent"
		if v, given := pool["discard_overflow"]; given {
			switch x := v.(type) {
			case bool:
				want, label = x, fmt.Sprintf("given_%v", x)
			case string:
				want, label = x == "${env:"+envDiscardTrue+"}", fmt.Sprintf("given_by_placeholder_%v", x == "${env:"+envDiscardTrue+"}")
			default:
				return fmt.Errorf("pool %d: discard_overflow is %T in the case", i, v)
			}
		} else {
			anyAbsent = true
		}
		o.Class("discard_overflow:" + label)
		if got.Engine.Pools[i].DiscardOverflow != want {
			return fmt.Errorf("pool %d of %d (%s file): discard_overflow %s, decoded DiscardOverflow=%v, want %v",
				i, len(pools), c.Format, label, got.Engine.Pools[i].DiscardOverflow, want)
		}
		// the reader decodes the same pool otherwise
		wantID, _ := pool["id"].(string)
		if got.Engine.Pools[i].ID != wantID {
			return fmt.Errorf("pool %d: id %q decoded as %q", i, wantID, got.Engine.Pools[i].ID)
		}
		wantPI, _ := pool["rps-per-instance"].(bool)
		if got.Engine.Pools[i].RPSPerInstance != wantPI {
			return fmt.Errorf("pool %d: rps-per-instance %v decoded as %v", i, wantPI, got.Engine.Pools[i].RPSPerInstance)
		}
	}
	o.Class("format:" + c.Format)
	o.ClassIf(len(pools) > 1, "pools_gt_1")
	o.ClassIf(anyAbsent, "some_pool_without_key")
	if anyAbsent {
		o.NonTrivial()
	}
	return nil
}

func TestDiscardOverflowDefault(t *testing.T) {
	vf.Check(startRun(t), genCLI, checkCLI)
}
