package c17

import (
	"fmt"
	"os"
	"path/filepath"
	"sync"
	"testing"

	cg "verif/harness/internal/confgen"
	"verif/harness/internal/pand"
	"verif/harness/internal/vf"

	"github.com/yandex/pandora/cli"
	"gopkg.in/yaml.v2"
	"pgregory.net/rapid"
)

// CLICase is a config FILE for the real CLI reader (cli.readConfig through the
// verif-tagged export): viper reads it from the OS file system by extension, the
// discard_overflow default is applied, then the usual decode runs.
type CLICase struct {
	Format string `json:"format"` // yaml | json
	// Source: how the configuration reaches the reader, every way `pandora [<config>]` documents:
	// "" / file = path with extension, file_noext = path without extension (read as YAML), stdin = the single
	// argument "-" with the text on the standard input (YAML), search_dir = no argument, ./load.<format> in the
	// working directory, search_dir_config = no argument, ./config/load.<format>.
	Source  string `json:"source,omitempty"`
	Conf    string `json:"conf"`    // the configuration (JSON text); pools carry discard_overflow or not
	Discard []int  `json:"discard"` // informative, per pool: -1 absent, 0 false, 1 true, 2 / 3 a ${env:...} placeholder holding false / true
}

// values of discard_overflow given through the documented variable templates
const (
	envDiscardFalse = "VERIF_C17_DISCARD_FALSE"
	envDiscardTrue  = "VERIF_C17_DISCARD_TRUE"
)

func genCLI(t *rapid.T) CLICase {
	o := cg.DefaultOpts
	o.NullP = 0 // viper drops / keeps null-valued keys in its own way; nulls are TestValid's business
	root := cg.GenRoot(t, o)
	c := CLICase{Format: rapid.SampledFrom([]string{"yaml", "yaml", "json"}).Draw(t, "format")}
	c.Source = rapid.SampledFrom([]string{srcFile, srcFile, srcFile, srcNoExt, srcStdin, srcStdin, srcStdin, srcSearch, srcSearchConfig}).Draw(t, "source")
	if c.Source == srcNoExt || c.Source == srcStdin {
		c.Format = "yaml" // both are read as YAML whatever they hold
	}
	for _, p := range root["pools"].([]any) {
		pool := p.(map[string]any)
		d := rapid.SampledFrom([]int{-1, -1, 0, 1, 2, 3}).Draw(t, "discard")
		switch d {
		case -1:
			delete(pool, "discard_overflow")
		case 2:
			pool["discard_overflow"] = "${env:" + envDiscardFalse + "}"
		case 3:
			pool["discard_overflow"] = "${env:" + envDiscardTrue + "}"
		default:
			pool["discard_overflow"] = d == 1
		}
		c.Discard = append(c.Discard, d)
	}
	c.Conf = cg.Encode(root)
	return c
}

const (
	srcFile         = "file"
	srcNoExt        = "file_noext"
	srcStdin        = "stdin"
	srcSearch       = "search_dir"
	srcSearchConfig = "search_dir_config"
)

// stdinMu guards the process-global things readThroughCLI swaps: os.Stdin and the working directory.
var stdinMu sync.Mutex

// readThroughCLI hands the configuration text to cli.readConfig in the way the case names.
func readThroughCLI(c CLICase, data []byte) (conf *cli.CliConfig, err error) {
	stdinMu.Lock()
	defer stdinMu.Unlock()
	switch c.Source {
	case "", srcFile, srcNoExt:
		path := filepath.Join(propDir, "load."+c.Format)
		if c.Source == srcNoExt {
			path = filepath.Join(propDir, "loadconf")
		}
		if err := os.WriteFile(path, data, 0o644); err != nil {
			return nil, err
		}
		defer os.Remove(path)
		return cli.ReadConfigForVerif([]string{path}), nil
	case srcStdin:
		// `pandora -`: the reader takes the text from os.Stdin; a regular file stands in for the pipe
		path := filepath.Join(propDir, "stdin.txt")
		if err := os.WriteFile(path, data, 0o644); err != nil {
			return nil, err
		}
		defer os.Remove(path)
		f, err := os.Open(path)
		if err != nil {
			return nil, err
		}
		saved := os.Stdin
		os.Stdin = f
		defer func() { os.Stdin = saved; f.Close() }()
		return cli.ReadConfigForVerif([]string{"-"}), nil
	case srcSearch, srcSearchConfig:
		// no argument: ./load.* or ./config/load.* of the working directory
		// (a working directory that has been removed meanwhile - the driver recreates its run directory when the
		// check is started a second time - is no reason to fail: nothing else here depends on it)
		wd, err := os.Getwd()
		if err != nil {
			wd = os.TempDir()
		}
		dir := filepath.Join(propDir, "cwd")
		fileDir := dir
		if c.Source == srcSearchConfig {
			fileDir = filepath.Join(dir, "config")
		}
		if err := os.MkdirAll(fileDir, 0o755); err != nil {
			return nil, err
		}
		defer os.RemoveAll(dir)
		if err := os.WriteFile(filepath.Join(fileDir, "load."+c.Format), data, 0o644); err != nil {
			return nil, err
		}
		if err := os.Chdir(dir); err != nil {
			return nil, err
		}
		defer func() {
			if e := os.Chdir(wd); e != nil {
				if e2 := os.Chdir(os.TempDir()); e2 != nil && err == nil {
					err = fmt.Errorf("cannot leave the temporary working directory: %v, %v", e, e2)
				}
			}
		}()
		return cli.ReadConfigForVerif(nil), nil
	}
	return nil, fmt.Errorf("unknown config source %q", c.Source)
}

func checkCLI(c CLICase, o *vf.Obs) error {
	conf, err := cg.ParseMap(c.Conf)
	if err != nil {
		return err
	}
	pools, _ := conf["pools"].([]any)
	if len(pools) == 0 {
		return fmt.Errorf("case has no pools")
	}
	_ = os.Setenv(envDiscardFalse, "false")
	_ = os.Setenv(envDiscardTrue, "true")
	// cli.readConfig ends the process (zap Fatal) on any error: only hand it configurations
	// that the plain decoder accepts, so that a rejected one is a reported case, not a dead worker.
	pre := cli.DefaultConfig()
	if err := vf.Guard(func() error { return pand.Decode(cg.CloneMap(conf), pre) }); err != nil {
		return fmt.Errorf("generated configuration is rejected by config.DecodeAndValidate: %v", firstLine(err.Error(), 400))
	}

	var data []byte
	switch c.Format {
	case "yaml":
		data, err = yaml.Marshal(conf)
	case "json":
		data = []byte(c.Conf)
	default:
		err = fmt.Errorf("unknown format %q", c.Format)
	}
	if err != nil {
		return err
	}
	got, err := readThroughCLI(c, data)
	if err != nil {
		return err
	}
	if got == nil {
		return fmt.Errorf("cli reader returned nil")
	}
	if len(got.Engine.Pools) != len(pools) {
		return fmt.Errorf("file has %d pools, the CLI reader decoded %d", len(pools), len(got.Engine.Pools))
	}
	anyAbsent := false
	for i, p := range pools {
		pool := p.(map[string]any)
		want, label := true, "absent"
		if v, given := pool["discard_overflow"]; given {
			switch x := v.(type) {
			case bool:
				want, label = x, fmt.Sprintf("given_%v", x)
			case string:
				want, label = x == "${env:"+envDiscardTrue+"}", fmt.Sprintf("given_by_placeholder_%v", x == "${env:"+envDiscardTrue+"}")
			default:
				return fmt.Errorf("pool %d: discard_overflow is %T in the case", i, v)
			}
		} else {
			anyAbsent = true
		}
		o.Class("discard_overflow:" + label)
		if got.Engine.Pools[i].DiscardOverflow != want {
			return fmt.Errorf("pool %d of %d (%s text, source %q): discard_overflow %s, decoded DiscardOverflow=%v, want %v",
				i, len(pools), c.Format, c.Source, label, got.Engine.Pools[i].DiscardOverflow, want)
		}
		// the reader decodes the same pool otherwise
		wantID, _ := pool["id"].(string)
		if got.Engine.Pools[i].ID != wantID {
			return fmt.Errorf("pool %d: id %q decoded as %q", i, wantID, got.Engine.Pools[i].ID)
		}
		wantPI, _ := pool["rps-per-instance"].(bool)
		if got.Engine.Pools[i].RPSPerInstance != wantPI {
			return fmt.Errorf("pool %d: rps-per-instance %v decoded as %v", i, wantPI, got.Engine.Pools[i].RPSPerInstance)
		}
	}
	source := c.Source
	if source == "" {
		source = srcFile
	}
	o.Class("format:"+c.Format, "source:"+source)
	o.ClassIf(anyAbsent, "some_pool_without_key:"+source)
	o.ClassIf(len(pools) > 1, "pools_gt_1")
	o.ClassIf(anyAbsent, "some_pool_without_key")
	if anyAbsent {
		o.NonTrivial()
	}
	return nil
}

func TestDiscardOverflowDefault(t *testing.T) {
	vf.Check(startRun(t), genCLI, checkCLI)
}
