package c17

import (
	"fmt"
	"sort"
	"strings"
	"testing"

	cg "verif/harness/internal/confgen"
	"verif/harness/internal/vf"

	"pgregory.net/rapid"
)

// Mutation kinds.
const (
	mUnknown    = "unknown_key"
	mWrongType  = "wrong_type"
	mConstraint = "constraint"
	mMissing    = "missing"
	mBadType    = "bad_type"
)

// Finding (fixed in /repo 8e950c9): `type: ""` reached plugin.New's expect(name != "") and panicked.
const findingEmptyType = "empty-plugin-type-panics"

// Mut is one change of a valid configuration.
type Mut struct {
	Kind   string `json:"kind"`
	Site   string `json:"site"`              // path of the struct-level map that is changed ("" = root)
	Op     string `json:"op"`                // set | delete | rename
	Key    string `json:"key"`               // key that is set / deleted / renamed
	NewKey string `json:"new_key,omitempty"` // rename target
	Value  string `json:"value,omitempty"`   // JSON text of the value that is set
	Comp   string `json:"comp"`              // informative: component owning the site
	Depth  int    `json:"depth"`             // informative
}

type MutCase struct {
	Conf string `json:"conf"` // the valid configuration
	Mut  Mut    `json:"mut"`
}

var jsonMap = map[string]any{"a": 1}

// wrongValues lists values whose JSON kind is incompatible with the field's class.
// Deliberately absent: a float for an integer (mapstructure truncates by design), a
// number for a duration / size / level (taken as ns / bytes / level number), a string for
// a sink or source section (documented short form).
func wrongValues(f *cg.Field) []any {
	switch f.Class {
	case cg.CBool:
		return []any{"maybe", 1, 0, jsonMap, []any{true}}
	case cg.CInt:
		return []any{"abc", "12x", true, jsonMap, []any{1}}
	case cg.CUint:
		return []any{"abc", true, jsonMap, []any{1}, -1}
	case cg.CFloat:
		return []any{"abc", "1,5", false, jsonMap, []any{1.5}}
	case cg.CString:
		return []any{5, 1.5, true, map[string]any{"a": "b"}, []any{"a"}}
	case cg.CDuration:
		return []any{"fast", "10", "1 s", true, jsonMap, []any{"1s"}}
	case cg.CDataSize:
		return []any{"big", "4 cows", true, jsonMap}
	case cg.CLevel:
		return []any{"loud", true, jsonMap}
	case cg.CStrList:
		return []any{"abc", 5, map[string]any{"a": "b"}, []any{1, 2}, []any{jsonMap}}
	case cg.CStrMap:
		return []any{"abc", 5, []any{"a"}, map[string]any{"k": 1}, map[string]any{"k": map[string]any{"x": "y"}}}
	case cg.CStruct:
		return []any{"abc", 5, true, []any{"a"}}
	case cg.CStructList:
		return []any{"abc", 5, map[string]any{"id": "x"}, []any{1}, []any{"a"}}
	case cg.CPlugin:
		vs := []any{5, true, []any{"a"}, []any{7}}
		if f.Kind != cg.KSink && f.Kind != cg.KSource {
			vs = append(vs, "abc")
		}
		return vs
	case cg.CPluginList:
		return []any{"abc", 5, map[string]any{"type": "x"}, []any{5}, []any{"abc"}}
	}
	return nil
}

// viol is one value of the right kind that violates a field's validate tag; label names the
// tag and the boundary class of the value ("endpoint/port_low", "min/just_below", ...).
type viol struct {
	v     any
	label string
}

// Ports no endpoint may have, by boundary class. The endpoint validator promises "host:port" /
// ":port" with a port number of 1..65535: both edges of the range, numbers that only fit after
// wrapping to 16 / 32 / 64 bits, an empty and a non-numeric port.
var badPorts = []struct {
	label string
	ports []string
}{
	{"port_low", []string{"0", "00", "000000", "-0", "-1", "-80"}},
	{"port_high", []string{"65536", "65537", "99999", "65616", "4294967376", "18446744073709551696"}},
	{"port_empty", []string{""}},
	{"port_non_numeric", []string{"abc", "80a", "http", "0x50", "8 0", "1e3", "80.0"}},
}

var endpointHosts = []string{"127.0.0.1", "", "[::1]", "localhost", "example.org", "10.1.2.3"}

// violationsOf lists values of the right kind that violate the field's validate tag, for every
// kind of tag the registered configs use (min, min-time, required, endpoint): the value(s) next
// to the boundary, and values far beyond it.
func violationsOf(f *cg.Field) []viol {
	var out []viol
	add := func(label string, vs ...any) {
		for _, v := range vs {
			out = append(out, viol{v, label})
		}
	}
	for _, p := range strings.Split(f.Validate, ",") {
		switch {
		case strings.HasPrefix(p, "min="):
			var m float64
			if _, err := fmt.Sscanf(p[4:], "%g", &m); err != nil {
				continue
			}
			switch f.Class {
			case cg.CInt:
				add("min/just_below", int(m)-1)
				add("min/far_below", int(m)-100, -1<<31, -1<<62)
			case cg.CFloat:
				add("min/just_below", m-1e-9, m-1e-3, m-0.5)
				add("min/far_below", m-1, m-1e9, -1e300)
			}
		case strings.HasPrefix(p, "min-time="):
			if f.Class == cg.CDuration {
				add("min-time/zero", "0s", "0ms")
				add("min-time/just_below", "999999ns", "999.999us", "500us", "1ns")
				add("min-time/negative", "-1s", "-1ms", "-1ns", "-1h")
			}
		case p == "required":
			switch f.Class {
			case cg.CString:
				add("required/zero", "")
			case cg.CInt, cg.CUint:
				add("required/zero", 0)
			}
		case p == "endpoint":
			for _, g := range badPorts {
				for _, port := range g.ports {
					for _, h := range endpointHosts {
						add("endpoint/"+g.label, h+":"+port)
					}
				}
			}
			add("endpoint/no_port", "no-port", "127.0.0.1", "[::1]", "localhost", "80")
			add("endpoint/bad_host", "a b:80", "127.0.0.1:80:90", "::1:80", "exa mple.org:8080", "[127.0.0.1:80", "http://127.0.0.1:80")
		}
	}
	return out
}

// violations lists the values of violationsOf.
func violations(f *cg.Field) []any {
	var out []any
	for _, v := range violationsOf(f) {
		out = append(out, v.v)
	}
	return out
}

// violLabels lists the distinct labels of a field's violations, in order of appearance.
func violLabels(f *cg.Field) []string {
	var out []string
	seen := map[string]bool{}
	for _, v := range violationsOf(f) {
		if !seen[v.label] {
			seen[v.label] = true
			out = append(out, v.label)
		}
	}
	return out
}

func tagOf(label string) string {
	if i := strings.IndexByte(label, '/'); i >= 0 {
		return label[:i]
	}
	return label
}

func misspell(t *rapid.T, key string) string {
	if len(key) < 2 {
		return key + "x"
	}
	switch rapid.IntRange(0, 5).Draw(t, "typo") {
	case 0:
		return key[:len(key)-1]
	case 1:
		return key + "s"
	case 2:
		i := rapid.IntRange(0, len(key)-2).Draw(t, "swap")
		b := []byte(key)
		b[i], b[i+1] = b[i+1], b[i]
		return string(b)
	case 3:
		if strings.ContainsAny(key, "-_") {
			return strings.NewReplacer("-", "_", "_", "-").Replace(key)
		}
		return key + "_"
	case 4:
		i := rapid.IntRange(0, len(key)-1).Draw(t, "dup")
		return key[:i+1] + key[i:]
	default:
		i := rapid.IntRange(0, len(key)-1).Draw(t, "drop")
		return key[:i] + key[i+1:]
	}
}

func isKeyOf(s *cg.Site, key string) bool {
	if key == "" || s.Field(key) != nil {
		return true
	}
	return s.Plugin && strings.EqualFold(key, "type")
}

type fieldAt struct {
	s *cg.Site
	f *cg.Field
}

func genMut(r *vf.Run) func(t *rapid.T) MutCase {
	return func(t *rapid.T) MutCase {
		root := cg.GenRoot(t, cg.DefaultOpts)
		conf := cg.Encode(root)
		sites, err := cg.Walk(root)
		if err != nil {
			t.Fatalf("generator produced an unwalkable config: %v", err)
		}
		kind := rapid.SampledFrom([]string{mUnknown, mUnknown, mUnknown, mUnknown, mWrongType, mWrongType, mWrongType,
			mConstraint, mConstraint, mConstraint, mMissing, mMissing, mBadType, mBadType}).Draw(t, "kind")
		pickSite := func(ok func(*cg.Site) bool) *cg.Site {
			var cands []*cg.Site
			for _, s := range sites {
				if ok == nil || ok(s) {
					cands = append(cands, s)
				}
			}
			// half of the picks are weighted towards deep sites, which are rarer
			if rapid.Bool().Draw(t, "preferDeep") {
				var deep []*cg.Site
				for _, s := range cands {
					if s.Depth >= 2 {
						deep = append(deep, s)
					}
				}
				if len(deep) > 0 {
					cands = deep
				}
			}
			return cands[rapid.IntRange(0, len(cands)-1).Draw(t, "site")]
		}
		m := Mut{Kind: kind}
		switch kind {
		case mUnknown:
			s := pickSite(nil)
			m.Site, m.Comp, m.Depth = s.PathString(), s.Comp.Label(), s.Depth
			name := ""
			if len(s.Fields) > 0 && rapid.IntRange(0, 2).Draw(t, "misspelt") > 0 {
				base := s.Fields[rapid.IntRange(0, len(s.Fields)-1).Draw(t, "base")].Key
				name = misspell(t, base)
				// a present optional key may be renamed instead of the typo being added
				if _, present := s.Map[base]; present && !isKeyOf(s, name) && !cg.IsRequired(s, base) && rapid.Bool().Draw(t, "rename") {
					m.Op, m.Key, m.NewKey = "rename", base, name
					break
				}
			}
			if isKeyOf(s, name) {
				name = rapid.SampledFrom([]string{"bogus", "x-extra", "comment", "typ", "Duration2", "enabled_"}).Draw(t, "novel")
			}
			for isKeyOf(s, name) {
				name += "x"
			}
			v := rapid.SampledFrom([]any{1, "x", true, nil, map[string]any{}, []any{}, "1s"}).Draw(t, "uval")
			m.Op, m.Key, m.Value = "set", name, cg.Encode(v)
		case mWrongType, mConstraint:
			if kind == mConstraint {
				// the validate tag and boundary class of the value first (min just below / far below, min-time zero /
				// just below / negative, required zero, endpoint port 0 / port 65536 / empty / non-numeric / no port /
				// bad host: the tags are very unevenly spread over the fields), then a field carrying that tag, then
				// the value
				var all []fieldAt
				for _, s := range sites {
					for _, f := range s.Fields {
						if len(violationsOf(f)) > 0 {
							all = append(all, fieldAt{s, f})
						}
					}
				}
				if rapid.Bool().Draw(t, "siteFirst") {
					s := pickSite(func(s *cg.Site) bool {
						for _, f := range s.Fields {
							if len(violationsOf(f)) > 0 {
								return true
							}
						}
						return false
					})
					all = all[:0]
					for _, f := range s.Fields {
						if len(violationsOf(f)) > 0 {
							all = append(all, fieldAt{s, f})
						}
					}
				}
				byLabel := map[string][]fieldAt{}
				var labels []string
				for _, c := range all {
					for _, l := range violLabels(c.f) {
						if len(byLabel[l]) == 0 {
							labels = append(labels, l)
						}
						byLabel[l] = append(byLabel[l], c)
					}
				}
				sort.Strings(labels)
				label := labels[rapid.IntRange(0, len(labels)-1).Draw(t, "boundary")]
				cands := byLabel[label]
				c := cands[rapid.IntRange(0, len(cands)-1).Draw(t, "field")]
				var vs []any
				for _, v := range violationsOf(c.f) {
					if v.label == label {
						vs = append(vs, v.v)
					}
				}
				v := vs[rapid.IntRange(0, len(vs)-1).Draw(t, "bad")]
				m.Site, m.Comp, m.Depth = c.s.PathString(), c.s.Comp.Label(), c.s.Depth
				m.Op, m.Key, m.Value = "set", presentKey(c.s, c.f.Key), cg.Encode(v)
				break
			}
			values := wrongValues
			// half of the time: a site first (as for the other kinds), then one of its fields; otherwise the
			// value class first over the whole configuration, so that the rare classes (sizes, levels, lists,
			// maps, unsigned) get their share
			var cands []fieldAt
			if rapid.Bool().Draw(t, "siteFirst") {
				s := pickSite(func(s *cg.Site) bool {
					for _, f := range s.Fields {
						if len(values(f)) > 0 {
							return true
						}
					}
					return false
				})
				for _, f := range s.Fields {
					if len(values(f)) > 0 {
						cands = append(cands, fieldAt{s, f})
					}
				}
			} else {
				byClass := map[string][]fieldAt{}
				var classes []string
				for _, s := range sites {
					for _, f := range s.Fields {
						if len(values(f)) == 0 {
							continue
						}
						if len(byClass[f.Class]) == 0 {
							classes = append(classes, f.Class)
						}
						byClass[f.Class] = append(byClass[f.Class], fieldAt{s, f})
					}
				}
				sort.Strings(classes)
				cands = byClass[classes[rapid.IntRange(0, len(classes)-1).Draw(t, "fclass")]]
			}
			c := cands[rapid.IntRange(0, len(cands)-1).Draw(t, "field")]
			vs := values(c.f)
			v := vs[rapid.IntRange(0, len(vs)-1).Draw(t, "bad")]
			m.Site, m.Comp, m.Depth = c.s.PathString(), c.s.Comp.Label(), c.s.Depth
			m.Op, m.Key, m.Value = "set", presentKey(c.s, c.f.Key), cg.Encode(v)
		case mMissing:
			s := pickSite(func(s *cg.Site) bool { return len(requiredPresent(s)) > 0 })
			keys := requiredPresent(s)
			m.Site, m.Comp, m.Depth = s.PathString(), s.Comp.Label(), s.Depth
			m.Op, m.Key = "delete", keys[rapid.IntRange(0, len(keys)-1).Draw(t, "req")]
		case mBadType:
			s := pickSite(func(s *cg.Site) bool { return s.Plugin })
			m.Site, m.Comp, m.Depth = s.PathString(), s.Comp.Label(), s.Depth
			m.Key = "type"
			alts := []any{"nosuch", "", 5, true, nil, map[string]any{"a": "b"}, strings.ToUpper(s.Comp.Name) + "_", otherKindName(s.Comp.Kind)}
			i := rapid.IntRange(0, len(alts)).Draw(t, "badtype")
			if i == len(alts) {
				m.Op = "delete"
			} else {
				if alts[i] == "" && r.IsKnown(findingEmptyType) {
					r.Excluded(findingEmptyType)
					i = 0
				}
				m.Op, m.Value = "set", cg.Encode(alts[i])
			}
		}
		return MutCase{Conf: conf, Mut: m}
	}
}

// presentKey returns the spelling of key already used in the site's map (keys are matched
// case-insensitively), or key itself.
func presentKey(s *cg.Site, key string) string {
	for k := range s.Map {
		if strings.EqualFold(k, key) {
			return k
		}
	}
	return key
}

// requiredPresent lists the present keys of a site whose removal must be rejected.
func requiredPresent(s *cg.Site) []string {
	var out []string
	for _, k := range cg.SortedKeys(s.Map) {
		if s.Map[k] != nil && cg.IsRequired(s, k) {
			out = append(out, k)
		}
	}
	return out
}

// otherKindName is a component name that is registered, but not for this kind.
func otherKindName(kind string) string {
	switch kind {
	case cg.KGun:
		return "phout"
	case cg.KResult:
		return "uripost"
	case cg.KAmmo:
		return "const"
	case cg.KSched:
		return "http"
	default:
		return "line"
	}
}

func applyMut(conf map[string]any, m Mut) (*cg.Site, error) {
	sites, err := cg.Walk(conf)
	if err != nil {
		return nil, err
	}
	s := cg.FindSite(sites, m.Site)
	if s == nil {
		return nil, fmt.Errorf("case names site %q, which the configuration does not have", m.Site)
	}
	switch m.Op {
	case "set":
		v, err := cg.Parse(m.Value)
		if err != nil {
			return nil, fmt.Errorf("mutation value: %w", err)
		}
		s.Map[m.Key] = v
	case "delete":
		if _, ok := s.Map[m.Key]; !ok {
			return nil, fmt.Errorf("case deletes key %q, which site %q does not have", m.Key, m.Site)
		}
		delete(s.Map, m.Key)
	case "rename":
		v, ok := s.Map[m.Key]
		if !ok {
			return nil, fmt.Errorf("case renames key %q, which site %q does not have", m.Key, m.Site)
		}
		delete(s.Map, m.Key)
		s.Map[m.NewKey] = v
	default:
		return nil, fmt.Errorf("unknown mutation op %q", m.Op)
	}
	return s, nil
}

func checkMut(c MutCase, o *vf.Obs) error {
	base, err := cg.ParseMap(c.Conf)
	if err != nil {
		return err
	}
	if res := decodeAll(base); !res.accepted() {
		return fmt.Errorf("the unmutated configuration was not accepted: %s", res)
	}
	mutated := cg.CloneMap(base)
	s, err := applyMut(mutated, c.Mut)
	if err != nil {
		return err
	}
	o.Class("kind:"+c.Mut.Kind, depthClass(s.Depth), "comp:"+s.Comp.Label(), "op:"+c.Mut.Op)
	if f := s.Field(c.Mut.Key); f != nil && c.Mut.Kind != mUnknown {
		o.Class("field_class:" + f.Class)
		if c.Mut.Kind == mConstraint && c.Mut.Op == "set" {
			for _, v := range violationsOf(f) {
				if cg.Encode(v.v) == c.Mut.Value {
					o.Class("violates:"+tagOf(v.label), "violates:"+v.label)
					break
				}
			}
		}
	}
	if s.Depth >= 2 {
		o.NonTrivial()
	}
	res := decodeAll(mutated)
	o.Note("outcome", res.String())
	if res.accepted() {
		return fmt.Errorf("%s at %q (%s, depth %d): %s %q %s was accepted silently (decode and all factories returned nil)",
			c.Mut.Kind, c.Mut.Site, s.Comp.Label(), s.Depth, c.Mut.Op, c.Mut.Key, c.Mut.NewKey+c.Mut.Value)
	}
	if res.panicked {
		return fmt.Errorf("%s at %q (%s): %s %q %s was not rejected with an error: %s",
			c.Mut.Kind, c.Mut.Site, s.Comp.Label(), c.Mut.Op, c.Mut.Key, c.Mut.NewKey+c.Mut.Value, res)
	}
	o.Class("rejected_by:" + res.stage)
	return nil
}

func TestMutations(t *testing.T) {
	r := startRun(t)
	witness(t, r, findingEmptyType, MutCase{Conf: witnessConf, Mut: Mut{Kind: mBadType, Site: "pools/0/ammo", Op: "set", Key: "type",
		Value: `""`, Comp: "ammo/uri", Depth: 1}}, checkMut)
	if t.Failed() {
		return // a failed witness is reported with its own replay file; rapid refuses a failed *testing.T
	}
	vf.Check(r, genMut(r), checkMut)
}
