package c17

import (
	"fmt"
	"os"
	"path/filepath"
	"strings"
	"testing"

	cg "verif/harness/internal/confgen"
	"verif/harness/internal/vf"

	"pgregory.net/rapid"
)

// TestLongProperty: ${property:file#key} whose line in the property file is LONG - a JWT, a service ticket, a
// base64 key, a cookie / query string on ONE line of 4000 bytes .. just under 64 KiB - in the positions a text value
// can have (a free-text string field, an item of a string list such as the http providers' `headers`, a value of a
// string map such as reflect_metadata), whole or between literal text (`[Authorization: Bearer ${property:...}]`).
// "Placeholders are substituted": the value the component gets is the WHOLE value of the line - the configuration
// decodes exactly like the one that holds the long text literally. The file has 0-3 short lines (other keys, comments)
// before and after, possibly another long line before the requested one, and the text `<requested key>=...` may occur
// INSIDE a long value (of the requested line or of an earlier one): a line is a line, what stands inside a value is
// not a property. "A missing property is an error": when no line of the file starts with `<key>=`, the configuration
// is rejected - also when `<key>=<text the field accepts>` stands inside the long value of another key, at any offset
// (incl. 4096 * n bytes from the start of the line, where a reader that hands out long lines in pieces would start a
// new piece).
//
// The long text is not stored in the case: LPLine is its recipe (size, alphabet, what is written into it where).
//
// Measured on the unchanged tree (bufio.Scanner, largest token 64 KiB): a line `key=value` of up to 65535 bytes is read
// whole; from 65536 bytes on the key AND every key after it in the file is reported "no such property" (keys before it
// still resolve) - a loud rejection, nothing silent. Generated lines stay at or below 65500 bytes.

const lpMaxLine = 65500

// LPLine is one `key=value` line of the property file (Key "": a comment line holding Short).
type LPLine struct {
	Key string `json:"key"`
	// Size > 0: a long value of exactly Size bytes of the given Kind (see lpValue); else the value is Short.
	Size  int    `json:"size,omitempty"`
	Kind  string `json:"kind,omitempty"` // jwt | base64 | pairs
	Short string `json:"short,omitempty"`
	// Inject writes `<Name>=<Fake>` (Name = the requested key) into the long value at byte At, followed by `&` / `.`
	Inject *LPInject `json:"inject,omitempty"`
}

type LPInject struct {
	At   int    `json:"at"`
	Fake string `json:"fake"`
}

type LongPropCase struct {
	Conf   string `json:"conf"`
	Site   string `json:"site"`
	Key    string `json:"key"`
	Elem   int    `json:"elem"`              // index inside a string list, -1 otherwise
	MapKey string `json:"map_key,omitempty"` // key inside a string map
	Pos    string `json:"pos"`               // string_field | list_item | map_value
	// Prefix / Suffix: literal text around the placeholder
	Prefix string   `json:"prefix,omitempty"`
	Suffix string   `json:"suffix,omitempty"`
	File   string   `json:"file"`
	Name   string   `json:"name"` // the requested key
	Lines  []LPLine `json:"lines"`
	// Target is the index of the requested line; -1: no line has the key Name (the configuration must be rejected)
	Target         int    `json:"target"`
	NoFinalNewline bool   `json:"no_final_newline,omitempty"`
	Comp           string `json:"comp"`
	Class          string `json:"class"`
}

const (
	lpB64    = "ABCDEFGHIJKLMNOPQRSTUVWXYZabcdefghijklmnopqrstuvwxyz0123456789+/"
	lpB64URL = "ABCDEFGHIJKLMNOPQRSTUVWXYZabcdefghijklmnopqrstuvwxyz0123456789-_"
)

// lpValue builds the value of a long line: exactly l.Size bytes, printable ASCII, no line break, no `$`.
func lpValue(l LPLine, name string) string {
	var sb strings.Builder
	switch l.Kind {
	case "jwt": // header.payload.signature, base64url
		sb.WriteString("eyJhbGciOiJSUzI1NiIsInR5cCI6IkpXVCJ9.")
		for i := 0; sb.Len() < l.Size; i++ {
			sb.WriteByte(lpB64URL[(i*7+i/64)%64])
			if i%1500 == 1499 {
				sb.WriteByte('.')
			}
		}
	case "pairs": // a cookie / query string: many `k=v` pairs, blanks
		for i := 0; sb.Len() < l.Size; i++ {
			fmt.Fprintf(&sb, "k%d=v%d; ", i, i*7919)
		}
	default: // base64 with padding: `=` inside and at the end of the value
		for i := 0; sb.Len() < l.Size; i++ {
			sb.WriteByte(lpB64[(i*11+i/64)%64])
			if i%76 == 75 {
				sb.WriteString("==")
			}
		}
	}
	b := []byte(sb.String()[:l.Size])
	if in := l.Inject; in != nil {
		sep := byte('&')
		if l.Kind == "jwt" {
			sep = '.'
		}
		text := name + "=" + in.Fake + string(sep)
		at := in.At
		if at+len(text) > len(b) {
			at = len(b) - len(text)
		}
		if at >= 0 {
			copy(b[at:], text)
		}
	}
	if l.Kind == "base64" && len(b) > 0 {
		b[len(b)-1] = '='
	}
	return string(b)
}

func (l LPLine) text(name string) string {
	switch {
	case l.Key == "":
		return l.Short
	case l.Size > 0:
		return l.Key + "=" + lpValue(l, name)
	}
	return l.Key + "=" + l.Short
}

// lpFreeText says whether the string field takes any text (no validate tag, no generator of its own in the component table).
func lpFreeText(s *cg.Site, f *cg.Field) bool {
	if f.Class != cg.CString || f.Validate != "" {
		return false
	}
	dotted := s.Dotted(f.Key)
	if s.Comp == cg.Pool && dotted == "id" {
		return true
	}
	return s.Comp.Gen[dotted] == nil
}

// lpSize draws the size of a long value so that the LINE `key=value` has the drawn length: a third of the lines lie
// within 6 bytes of 4096, others around 8192 / 16384 / 32768, near the top (65400-65500), the rest log-uniform in 4000 .. 65500.
func lpSize(t *rapid.T, key string) int {
	var line int
	around := func(n int) int { return n - 6 + rapid.IntRange(0, 12).Draw(t, "off") }
	switch k := rapid.IntRange(0, 19).Draw(t, "sizeKind"); {
	case k < 6:
		line = around(4096)
	case k < 8:
		line = around(8192)
	case k < 10:
		line = around(rapid.SampledFrom([]int{12288, 16384, 32768, 65536 - 4096}).Draw(t, "pow"))
	case k < 12:
		line = lpMaxLine - rapid.IntRange(0, 100).Draw(t, "top")
	default:
		lo := 4000 << rapid.IntRange(0, 3).Draw(t, "octave") // 4000 8000 16000 32000
		line = lo + rapid.IntRange(0, lo).Draw(t, "inOctave")
	}
	if line > lpMaxLine {
		line = lpMaxLine
	}
	return line - len(key) - 1
}

var (
	lpKeys      = []string{"token", "tvm_secret", "TICKET", "db.password", "jwt", "k"}
	lpOtherKeys = []string{"user", "host", "other", "secret2", "region", "x"}
	lpShorts    = []string{"1", "yandex", "a b", "", "p=q", "Bearer x"}
	lpComments  = []string{"# properties", "! generated", "", "# token=commented out"}
)

func genLongProp(t *rapid.T) LongPropCase {
	root := cg.GenRoot(t, cg.DefaultOpts)
	sites, err := cg.Walk(root)
	if err != nil {
		t.Fatalf("generator produced an unwalkable config: %v", err)
	}
	type pos struct {
		s *cg.Site
		f *cg.Field
	}
	groups := map[string][]pos{}
	for _, s := range sites {
		for _, f := range s.Fields {
			if cg.IsSkipped(s, f.Key) {
				continue
			}
			switch {
			case lpFreeText(s, f):
				groups[posString] = append(groups[posString], pos{s, f})
			case f.Class == cg.CStrList:
				groups[posList] = append(groups[posList], pos{s, f})
			case f.Class == cg.CStrMap:
				groups[posMap] = append(groups[posMap], pos{s, f})
			}
		}
	}
	var kinds []string
	for _, k := range []string{posString, posString, posList, posList, posList, posMap, posMap} {
		if len(groups[k]) > 0 {
			kinds = append(kinds, k)
		}
	}
	if len(kinds) == 0 {
		t.Fatalf("no text position in a generated configuration")
	}
	kind := rapid.SampledFrom(kinds).Draw(t, "pos")
	cands := groups[kind]
	p := cands[rapid.IntRange(0, len(cands)-1).Draw(t, "which")]
	c := LongPropCase{Elem: -1, Pos: kind, Target: -1}
	key := presentKey(p.s, p.f.Key)
	draw := func() any { return cg.Value(t, cg.DefaultOpts, p.s.Comp, p.f, p.s.Dotted(p.f.Key), p.s.Depth) }
	item := ""
	switch kind {
	case posList:
		l, _ := p.s.Map[key].([]any)
		for tries := 0; len(l) == 0 && tries < 8; tries++ {
			l, _ = draw().([]any)
		}
		if len(l) == 0 {
			l = []any{"a"}
			if p.s.Dotted(p.f.Key) == "headers" {
				l = []any{"[Host: example.org]"}
			}
		}
		p.s.Map[key] = l
		c.Elem = rapid.IntRange(0, len(l)-1).Draw(t, "elem")
		item, _ = l[c.Elem].(string)
	case posMap:
		m, _ := p.s.Map[key].(map[string]any)
		for tries := 0; len(m) == 0 && tries < 8; tries++ {
			m, _ = draw().(map[string]any)
		}
		if len(m) == 0 {
			m = map[string]any{"auth": "x"}
		}
		p.s.Map[key] = m
		ks := cg.SortedKeys(m)
		c.MapKey = ks[rapid.IntRange(0, len(ks)-1).Draw(t, "mapkey")]
	default:
		p.s.Map[key] = "x"
	}
	c.Site, c.Key, c.Comp, c.Class = p.s.PathString(), key, p.s.Comp.Label(), p.f.Class
	c.Conf = cg.Encode(root)

	// literal text around the placeholder: a `[Name: value]` header item keeps its frame
	switch {
	case strings.HasPrefix(item, "[") && strings.HasSuffix(item, "]") && strings.Contains(item, ": "):
		c.Prefix = rapid.SampledFrom([]string{"[Authorization: Bearer ", "[X-Ya-Service-Ticket: ", "[Cookie: "}).Draw(t, "frame")
		c.Suffix = "]"
	case rapid.IntRange(0, 2).Draw(t, "embedded") == 0:
		c.Prefix = rapid.SampledFrom([]string{"Bearer ", "OAuth ", "", "t="}).Draw(t, "prefix")
		c.Suffix = rapid.SampledFrom([]string{"", "", ";v=1", " "}).Draw(t, "suffix")
	}

	c.File = drawPropFile(t, []string{"long.properties", "secret.prop", "tokens"}, "file") // path below the temp dir (names_test.go)
	c.Name = rapid.SampledFrom(lpKeys).Draw(t, "name")
	kindOfValue := func() string { return rapid.SampledFrom([]string{"jwt", "jwt", "base64", "pairs"}).Draw(t, "valueKind") }
	short := func(used map[string]bool) LPLine {
		if rapid.IntRange(0, 4).Draw(t, "comment") == 0 {
			return LPLine{Short: rapid.SampledFrom(lpComments).Draw(t, "commentText")}
		}
		k := rapid.SampledFrom(lpOtherKeys).Draw(t, "otherKey")
		for i := 2; used[k]; i++ {
			k = fmt.Sprintf("%s%d", k, i)
		}
		used[k] = true
		return LPLine{Key: k, Short: rapid.SampledFrom(lpShorts).Draw(t, "shortValue")}
	}
	// where `<Name>=...` is written into a long value: 4096 * n bytes from the start of the line in half of the cases
	inject := func(l *LPLine, fake string) {
		at := rapid.IntRange(0, l.Size).Draw(t, "injectAt")
		if rapid.Bool().Draw(t, "injectAtChunk") {
			if n := (len(l.Key) + 1 + l.Size) / 4096; n >= 1 {
				at = 4096*rapid.IntRange(1, n).Draw(t, "chunk") - len(l.Key) - 1
			}
		}
		if at < 0 {
			at = 0
		}
		l.Inject = &LPInject{At: at, Fake: fake}
	}
	used := map[string]bool{c.Name: true}
	missing := rapid.IntRange(0, 4).Draw(t, "missing") == 0
	for i, n := 0, rapid.IntRange(0, 3).Draw(t, "before"); i < n; i++ {
		c.Lines = append(c.Lines, short(used))
	}
	// another long line before the requested one (always when the requested key is missing)
	if missing || rapid.IntRange(0, 3).Draw(t, "longBefore") == 0 {
		k := rapid.SampledFrom([]string{"blob", "cert", "other_token"}).Draw(t, "longKey")
		used[k] = true
		l := LPLine{Key: k, Kind: kindOfValue()}
		l.Size = lpSize(t, k)
		if missing || rapid.Bool().Draw(t, "injectBefore") {
			inject(&l, rapid.SampledFrom([]string{"stolen", "x", "fake-value"}).Draw(t, "fake"))
		}
		c.Lines = append(c.Lines, l)
		for i, n := 0, rapid.IntRange(0, 2).Draw(t, "between"); i < n; i++ {
			c.Lines = append(c.Lines, short(used))
		}
	}
	if !missing {
		l := LPLine{Key: c.Name, Kind: kindOfValue()}
		l.Size = lpSize(t, c.Name)
		if rapid.IntRange(0, 2).Draw(t, "injectOwn") == 0 {
			inject(&l, "inner")
		}
		c.Target = len(c.Lines)
		c.Lines = append(c.Lines, l)
	}
	for i, n := 0, rapid.IntRange(0, 3).Draw(t, "after"); i < n; i++ {
		c.Lines = append(c.Lines, short(used))
	}
	c.NoFinalNewline = rapid.IntRange(0, 4).Draw(t, "noFinalNewline") == 0
	return c
}

func (c LongPropCase) placeholder() string {
	return "${property:" + filepath.Join(propDir, filepath.FromSlash(c.File)) + "#" + c.Name + "}"
}

func clipDiff(s string) string {
	if len(s) > 400 {
		return s[:200] + " ...(" + fmt.Sprint(len(s)) + " bytes)... " + s[len(s)-120:]
	}
	return s
}

func checkLongProp(c LongPropCase, o *vf.Obs) error {
	base, err := cg.ParseMap(c.Conf)
	if err != nil {
		return err
	}
	variant := cg.CloneMap(base)
	put := func(conf map[string]any, v string) (*cg.Site, *cg.Field, []*cg.Site, error) {
		sites, err := cg.Walk(conf)
		if err != nil {
			return nil, nil, nil, err
		}
		s := cg.FindSite(sites, c.Site)
		if s == nil {
			return nil, nil, nil, fmt.Errorf("case names site %q, which the configuration does not have", c.Site)
		}
		f := s.Field(c.Key)
		if f == nil {
			return nil, nil, nil, fmt.Errorf("case names key %q, which %s does not have", c.Key, s.Comp.Label())
		}
		ok := false
		switch c.Pos {
		case posList:
			if l, isL := s.Map[c.Key].([]any); isL && c.Elem >= 0 && c.Elem < len(l) {
				l[c.Elem], ok = v, true
			}
		case posMap:
			if m, isM := s.Map[c.Key].(map[string]any); isM {
				m[c.MapKey], ok = v, true
			}
		case posString:
			s.Map[c.Key], ok = v, true
		}
		if !ok {
			return nil, nil, nil, fmt.Errorf("the case's position %s/%s (%s, elem %d, map key %q) is not there", c.Site, c.Key, c.Pos, c.Elem, c.MapKey)
		}
		return s, f, sites, nil
	}
	if c.Target >= len(c.Lines) || (c.Target >= 0 && c.Lines[c.Target].Key != c.Name) {
		return fmt.Errorf("case: line %d is not the line of %q", c.Target, c.Name)
	}
	var lines []string
	longBefore, injected, injectedAtChunk := false, false, false
	for i, l := range c.Lines {
		if c.Target >= 0 && i != c.Target && l.Key == c.Name {
			return fmt.Errorf("case: key %q stands on two lines", c.Name)
		}
		if c.Target < 0 && l.Key == c.Name {
			return fmt.Errorf("case: key %q is in the file although the case says it is missing", c.Name)
		}
		txt := l.text(c.Name)
		if len(txt) > lpMaxLine {
			return fmt.Errorf("case: line %d has %d bytes", i, len(txt))
		}
		lines = append(lines, txt)
		if l.Size > 0 && (c.Target < 0 || i < c.Target) {
			longBefore = true
		}
		if l.Inject != nil && strings.Contains(txt, c.Name+"="+l.Inject.Fake) && (c.Target < 0 || i <= c.Target) {
			injected = true
			at := strings.Index(txt[1:], c.Name+"="+l.Inject.Fake) + 1
			injectedAtChunk = injectedAtChunk || at%4096 == 0
		}
	}
	body := strings.Join(lines, "\n")
	if !c.NoFinalNewline {
		body += "\n"
	}
	// the literal: the whole value of the requested line (a missing key: any accepted text)
	value := "placeholder"
	if c.Target >= 0 {
		value = lpValue(c.Lines[c.Target], c.Name)
	}
	literal := c.Prefix + value + c.Suffix
	if _, _, _, err := put(base, literal); err != nil {
		return err
	}
	s, f, sites, err := put(variant, c.Prefix+c.placeholder()+c.Suffix)
	if err != nil {
		return err
	}
	mustReject := c.Target < 0
	o.Class("pos:"+c.Pos, "comp:"+s.Comp.Label(), depthClass(s.Depth))
	o.ClassIf(c.Prefix != "" || c.Suffix != "", "embedded")
	o.ClassIf(c.Prefix == "" && c.Suffix == "", "whole")
	o.ClassIf(c.NoFinalNewline, "no_final_newline")
	o.ClassIf(longBefore, "long_line_before")
	if mustReject {
		o.Class("missing_key")
		o.ClassIf(injected, "missing_key_named_inside_long_value")
		o.ClassIf(injectedAtChunk, "missing_key_named_inside_long_value_at_4096n")
	} else {
		n := len(lines[c.Target])
		o.Class("long_value")
		switch {
		case n < 4096:
			o.Class("line:lt_4096")
		case n <= 4102:
			o.Class("line:4096..4102")
		case n < 8192:
			o.Class("line:4k..8k")
		case n < 16384:
			o.Class("line:8k..16k")
		case n < 32768:
			o.Class("line:16k..32k")
		case n < 65400:
			o.Class("line:32k..64k")
		default:
			o.Class("line:65400..65500")
		}
		o.ClassIf(n >= 4096, "line:ge_4096")
		o.ClassIf(n >= 4090 && n <= 4102, "line:around_4096")
		o.Class("value:" + c.Lines[c.Target].Kind)
		o.ClassIf(c.Target == 0, "requested_line_first")
		o.ClassIf(c.Target == len(c.Lines)-1, "requested_line_last")
		o.ClassIf(c.Target == len(c.Lines)-1 && c.NoFinalNewline, "requested_line_last_without_newline")
		o.ClassIf(c.Target > 0 && c.Target < len(c.Lines)-1, "requested_line_between_others")
		o.ClassIf(injected, "key_named_inside_long_value")
		o.ClassIf(injected && longBefore, "key_named_inside_earlier_long_value")
		o.ClassIf(injectedAtChunk, "key_named_inside_long_value_at_4096n")
	}
	o.NonTrivial()
	if pb, pt, _, pu := spellingOf(c.File, "./-"); true {
		o.ClassIf(pb || pt, "path:interior_blank")
		o.ClassIf(pu, "path:non_ascii")
		o.ClassIf(strings.Contains(c.File, "/"), "path:sub_dir")
	}
	o.Note("placeholder", c.Prefix+c.placeholder()+c.Suffix)
	o.Note("file_lines", fmt.Sprint(len(lines)))

	resL, snapL, err := observe(base)
	if err != nil {
		return err
	}
	if !resL.accepted() {
		return fmt.Errorf("harness: the literal configuration (%s/%s = %d bytes of text) was not accepted: %s", c.Site, c.Key, len(literal), firstLine(resL.String(), 400))
	}
	path, err := propPath(c.File)
	if err != nil {
		return err
	}
	if err := os.WriteFile(path, []byte(body), 0o644); err != nil {
		return err
	}
	defer os.Remove(path)
	resP, snapP, err := observe(variant)
	if err != nil {
		return fmt.Errorf("placeholder variant: %w", err)
	}
	o.Note("outcome", firstLine(resP.String(), 300))
	where := fmt.Sprintf("%s/%s (%s %s, %s)", c.Site, c.Key, s.Comp.Label(), f.Class, c.Pos)
	if mustReject {
		if resP.accepted() {
			return fmt.Errorf("%s = %q: no line of the property file starts with %q= (the text stands only INSIDE the value of another key), but the configuration was accepted",
				where, c.Prefix+c.placeholder()+c.Suffix, c.Name)
		}
		if resP.panicked {
			return fmt.Errorf("%s: a missing property was not rejected with an error: %s", where, firstLine(resP.String(), 400))
		}
		o.Class("rejected_by:" + resP.stage)
		return nil
	}
	if !resP.accepted() {
		return fmt.Errorf("%s: the literal (%d bytes) is accepted, but %q, whose line in the property file has %d bytes, is not: %s",
			where, len(literal), c.Prefix+c.placeholder()+c.Suffix, len(lines[c.Target]), firstLine(resP.String(), 400))
	}
	diffs := cg.Compare(cg.CLI.Fields(), snapP.root, snapL.root, "")
	if len(snapP.sections) != len(snapL.sections) {
		diffs = append(diffs, fmt.Sprintf("%d sections observed, literal has %d", len(snapP.sections), len(snapL.sections)))
	}
	for _, st := range sites {
		l, okL := snapL.sections[st.PathString()]
		p, okP := snapP.sections[st.PathString()]
		if okL && okP {
			for _, d := range cg.Compare(st.Comp.Fields(), p, l, "") {
				diffs = append(diffs, st.PathString()+" ("+st.Comp.Label()+"): "+d)
			}
		}
	}
	if len(diffs) > 0 {
		for i := range diffs {
			diffs[i] = clipDiff(diffs[i])
		}
		return fmt.Errorf("%s: the placeholder names a property whose line has %d bytes (value %d bytes); the configuration decodes differently from the one holding the value literally (got = placeholder, want = literal):\n  %s",
			where, len(lines[c.Target]), len(value), strings.Join(diffs, "\n  "))
	}
	return nil
}

func TestLongProperty(t *testing.T) {
	vf.Check(startRun(t), genLongProp, checkLongProp)
}
