package c17

import (
	"fmt"
	"os"
	"path/filepath"
	"sort"
	"strings"
	"testing"

	cg "verif/harness/internal/confgen"
	"verif/harness/internal/vf"

	"pgregory.net/rapid"
)

// TestMultiPlaceholders: ONE config value that holds SEVERAL ${env:..} / ${property:..#..}
// placeholders (a header `[X-Auth: ${env:USER}:${env:TOKEN}]`, a file name `${env:DIR}/${env:RUN}.log`,
// a duration `${env:MIN}${env:SEC}`), in the three positions a text value can have: a string(-like)
// field, an item of a string list, a value of a string map.
//
//   - all placeholders resolve: the value decodes exactly like the literal text;
//   - one (rarely two) of them names an unset environment variable / a missing property key / a
//     missing property file, at the first, a middle or the last place: the configuration must be
//     rejected with an error, whatever the placeholders after it resolve to ("a placeholder naming
//     an unset environment variable or a missing property is an error").

// MPart is one placeholder of the value: it stands for text[From:To] of the literal.
type MPart struct {
	From    int    `json:"from"`
	To      int    `json:"to"`
	Src     string `json:"src"`  // env | property
	Name    string `json:"name"`           // variable name / property key; spelling drawn by drawName (names_test.go)
	File    string `json:"file,omitempty"` // path below the temp dir, drawn by drawPropFile
	Pad     string `json:"pad,omitempty"`  // padding inside the braces
	Missing string `json:"missing,omitempty"` // "" = resolves; unset_env | missing_key | missing_file
}

type MultiCase struct {
	Conf   string  `json:"conf"`
	Site   string  `json:"site"`
	Key    string  `json:"key"`
	Elem   int     `json:"elem"`              // index inside a string list, -1 otherwise
	MapKey string  `json:"map_key,omitempty"` // key inside a string map
	Pos    string  `json:"pos"`               // string_field | textual_field | list_item | map_value
	Parts  []MPart `json:"parts"`             // ascending, not overlapping
	Comp   string  `json:"comp"`              // informative
	Class  string  `json:"class"`             // informative
}

const (
	posString  = "string_field"
	posTextual = "textual_field" // duration, data size, log level: text decoded by a later hook
	posList    = "list_item"
	posMap     = "map_value"
)

func (p MPart) placeholder() string {
	if p.Src == "env" {
		return spell("env", p.Name, p.Pad)
	}
	return spell("property", filepath.Join(propDir, filepath.FromSlash(p.File))+"#"+p.Name, p.Pad)
}

func genMulti(t *rapid.T) MultiCase {
	root := cg.GenRoot(t, cg.DefaultOpts)
	sites, err := cg.Walk(root)
	if err != nil {
		t.Fatalf("generator produced an unwalkable config: %v", err)
	}
	type pos struct {
		s *cg.Site
		f *cg.Field
	}
	groups := map[string][]pos{}
	for _, s := range sites {
		for _, f := range s.Fields {
			if cg.IsSkipped(s, f.Key) {
				continue
			}
			switch f.Class {
			case cg.CString:
				groups[posString] = append(groups[posString], pos{s, f})
			case cg.CDuration, cg.CDataSize, cg.CLevel:
				groups[posTextual] = append(groups[posTextual], pos{s, f})
			case cg.CStrList:
				groups[posList] = append(groups[posList], pos{s, f})
			case cg.CStrMap:
				groups[posMap] = append(groups[posMap], pos{s, f})
			}
		}
	}
	// position kind first: the few list / map fields must not be crowded out by the many string fields
	var kinds []string
	for _, k := range []string{posString, posString, posTextual, posList, posList, posMap, posMap, posMap} {
		if len(groups[k]) > 0 {
			kinds = append(kinds, k)
		}
	}
	kind := rapid.SampledFrom(kinds).Draw(t, "pos")
	cands := groups[kind]
	p := cands[rapid.IntRange(0, len(cands)-1).Draw(t, "which")]
	c := MultiCase{Elem: -1, Pos: kind}
	var text string
	key := presentKey(p.s, p.f.Key)
	draw := func() any { return cg.Value(t, cg.DefaultOpts, p.s.Comp, p.f, p.s.Dotted(p.f.Key), p.s.Depth) }
	switch kind {
	case posList:
		l, _ := p.s.Map[key].([]any)
		for tries := 0; len(l) == 0 && tries < 6; tries++ {
			l, _ = draw().([]any)
		}
		if len(l) == 0 {
			kind = posString // an always-empty list generator: take a string field instead
			break
		}
		p.s.Map[key] = l
		c.Elem = rapid.IntRange(0, len(l)-1).Draw(t, "elem")
		text, _ = l[c.Elem].(string)
	case posMap:
		m, _ := p.s.Map[key].(map[string]any)
		for tries := 0; len(m) == 0 && tries < 6; tries++ {
			m, _ = draw().(map[string]any)
		}
		if len(m) == 0 {
			kind = posString
			break
		}
		p.s.Map[key] = m
		ks := cg.SortedKeys(m)
		c.MapKey = ks[rapid.IntRange(0, len(ks)-1).Draw(t, "mapkey")]
		text, _ = m[c.MapKey].(string)
	}
	if kind != c.Pos { // fell back
		c.Pos = kind
		cands = groups[kind]
		p = cands[rapid.IntRange(0, len(cands)-1).Draw(t, "fallback")]
		key = presentKey(p.s, p.f.Key)
	}
	if kind == posString || kind == posTextual {
		lit := cg.Value(t, cg.DefaultOpts, p.s.Comp, p.f, p.s.Dotted(p.f.Key), p.s.Depth)
		p.s.Map[key] = lit
		s, ok := lit.(string)
		if !ok {
			t.Fatalf("generator drew %T for the %s key %s", lit, p.f.Class, key)
		}
		text = s
	}
	c.Site, c.Key, c.Comp, c.Class = p.s.PathString(), key, p.s.Comp.Label(), p.f.Class
	c.Conf = cg.Encode(root)

	// 2-4 placeholders over 2n sorted cut points of the text; what lies between them stays literal
	n := rapid.SampledFrom([]int{2, 2, 2, 3, 3, 4}).Draw(t, "parts")
	cuts := make([]int, 2*n)
	for i := range cuts {
		cuts[i] = rapid.IntRange(0, len(text)).Draw(t, "cut")
	}
	sort.Ints(cuts)
	envNames := []string{"VERIF_C17_M_USER", "VERIF_C17_M_token", "verif_c17_m_dir", "VM17", "VERIF_C17_M_E"}
	propKeys := []string{"user", "TOKEN", "db.password", "k", "run_id"}
	for i := 0; i < n; i++ {
		part := MPart{From: cuts[2*i], To: cuts[2*i+1], Src: rapid.SampledFrom([]string{"env", "env", "property"}).Draw(t, "src")}
		// distinct names per part (index-suffixed): two parts never name the same variable with different contents
		if part.Src == "env" {
			part.Name = fmt.Sprintf("%s_%d", drawName(t, envNames, "name"), i)
		} else {
			part.Name = fmt.Sprintf("%s%d", drawName(t, propKeys, "key"), i)
			// one file shared by the parts, or a file of its own
			part.File = drawPropFile(t, []string{"multi.properties", "multi.properties", fmt.Sprintf("m%d.prop", i)}, "file")
		}
		part.Pad = drawPad(t)
		c.Parts = append(c.Parts, part)
	}
	// which placeholders name nothing: none (2 of 5), else one at a drawn place (first / middle / last
	// equally likely as far as there is a middle), in 1 of 5 of those a second one
	if rapid.IntRange(1, 5).Draw(t, "unresolved") > 2 {
		place := rapid.SampledFrom([]string{"first", "first", "middle", "middle", "last"}).Draw(t, "place")
		idx := 0
		switch place {
		case "middle":
			if n > 2 {
				idx = rapid.IntRange(1, n-2).Draw(t, "mid")
			}
		case "last":
			idx = n - 1
		}
		miss := []int{idx}
		if rapid.IntRange(1, 5).Draw(t, "second") == 1 {
			if j := rapid.IntRange(0, n-1).Draw(t, "idx2"); j != idx {
				miss = append(miss, j)
			}
		}
		for _, j := range miss {
			part := &c.Parts[j]
			if part.Src == "env" {
				part.Missing = pUnsetEnv
			} else if rapid.Bool().Draw(t, "nofile") {
				part.Missing = pMissingFile
				// a file no resolving part lives in
				part.File = rapid.SampledFrom([]string{"", "", "no such dir/", "dir with blank/"}).Draw(t, "absentDir") + fmt.Sprintf("absent%d.prop", j)
			} else {
				part.Missing = pMissingKey
			}
		}
	}
	return c
}

// installMulti defines what the resolving parts name, makes sure that what the others name does
// not exist, and returns the cleanup.
func (c MultiCase) install(text string) (func(), error) {
	var envSet []string
	files := map[string][]string{}
	var absent []string
	for _, p := range c.Parts {
		val := text[p.From:p.To]
		if p.Src == "env" {
			if p.Missing != "" {
				os.Unsetenv(p.Name)
				continue
			}
			if err := os.Setenv(p.Name, val); err != nil {
				return nil, err
			}
			envSet = append(envSet, p.Name)
			continue
		}
		path := filepath.Join(propDir, filepath.FromSlash(p.File))
		if p.Missing != pMissingFile {
			var err error
			if path, err = propPath(p.File); err != nil {
				return nil, err
			}
		}
		switch p.Missing {
		case pMissingFile:
			absent = append(absent, path)
		case pMissingKey:
			files[path] = append(files[path], p.Name+"_other=no")
		default:
			files[path] = append(files[path], p.Name+"="+val)
		}
	}
	cleanup := func() {
		for _, n := range envSet {
			os.Unsetenv(n)
		}
		for f := range files {
			os.Remove(f)
		}
	}
	for _, f := range absent {
		if _, ok := files[f]; ok {
			cleanup()
			return nil, fmt.Errorf("case wants %s both absent and present", f)
		}
		os.Remove(f)
	}
	for f, lines := range files {
		body := "# properties\nother=1\n" + strings.Join(lines, "\n") + "\nlast=z\n"
		if err := os.WriteFile(f, []byte(body), 0o644); err != nil {
			cleanup()
			return nil, err
		}
	}
	return cleanup, nil
}

func checkMulti(c MultiCase, o *vf.Obs) error {
	base, err := cg.ParseMap(c.Conf)
	if err != nil {
		return err
	}
	variant := cg.CloneMap(base)
	sites, err := cg.Walk(variant)
	if err != nil {
		return err
	}
	s := cg.FindSite(sites, c.Site)
	if s == nil {
		return fmt.Errorf("case names site %q, which the configuration does not have", c.Site)
	}
	f := s.Field(c.Key)
	if f == nil {
		return fmt.Errorf("case names key %q, which %s does not have", c.Key, s.Comp.Label())
	}
	// the literal text and how to put the variant's text in its place
	var text string
	var put func(string)
	ok := false
	switch c.Pos {
	case posList:
		if l, isL := s.Map[c.Key].([]any); isL && c.Elem >= 0 && c.Elem < len(l) {
			text, ok = l[c.Elem].(string)
			put = func(v string) { l[c.Elem] = v }
		}
	case posMap:
		if m, isM := s.Map[c.Key].(map[string]any); isM {
			text, ok = m[c.MapKey].(string)
			put = func(v string) { m[c.MapKey] = v }
		}
	case posString, posTextual:
		text, ok = s.Map[c.Key].(string)
		put = func(v string) { s.Map[c.Key] = v }
	}
	if !ok {
		return fmt.Errorf("the case's position %s/%s (%s, elem %d, map key %q) holds no text", c.Site, c.Key, c.Pos, c.Elem, c.MapKey)
	}
	if len(c.Parts) < 2 {
		return fmt.Errorf("case has %d placeholders, wants at least two", len(c.Parts))
	}
	var sb strings.Builder
	at := 0
	firstMissing, missing, srcs := -1, 0, map[string]bool{}
	spelling := map[string]bool{}
	for i, p := range c.Parts {
		how, file := "resolves", p.File
		if p.Missing != "" {
			how = "names_nothing"
		}
		if p.Src == "env" {
			file = ""
		}
		addSpelling(spelling, p.Src, p.Name, file, p.Pad, how, f.Class != cg.CString && f.Class != cg.CStrList && f.Class != cg.CStrMap)
		if p.From < at || p.To < p.From || p.To > len(text) {
			return fmt.Errorf("bad part %d (%d:%d) of %q", i, p.From, p.To, text)
		}
		sb.WriteString(text[at:p.From])
		sb.WriteString(p.placeholder())
		at = p.To
		srcs[p.Src] = true
		if p.Missing != "" {
			missing++
			if firstMissing < 0 {
				firstMissing = i
			}
		}
	}
	sb.WriteString(text[at:])
	value := sb.String()
	put(value)

	mustReject := missing > 0
	// the defect class this test exists for: something resolvable comes after the unresolvable placeholder
	followed := false
	if mustReject {
		for _, p := range c.Parts[firstMissing+1:] {
			if p.Missing == "" {
				followed = true
			}
		}
	}
	o.Class("pos:"+c.Pos, fmt.Sprintf("placeholders:%d", len(c.Parts)), "class:"+f.Class, "comp:"+s.Comp.Label(), depthClass(s.Depth))
	recordSpelling(o, spelling)
	switch {
	case len(srcs) == 2:
		o.Class("srcs:mixed")
	case srcs["env"]:
		o.Class("srcs:env_only")
	default:
		o.Class("srcs:property_only")
	}
	if mustReject {
		o.Class("multi:unresolved")
		place := "middle"
		if firstMissing == 0 {
			place = "first"
		} else if firstMissing == len(c.Parts)-1 {
			place = "last"
		}
		o.Class("unresolved_at:"+place, "missing:"+c.Parts[firstMissing].Missing)
		o.ClassIf(missing > 1, "unresolved_more_than_one")
		if followed {
			o.Class("unresolved_then_resolving", "unresolved_then_resolving:"+c.Pos, "unresolved_then_resolving:"+c.Parts[firstMissing].Missing)
			o.NonTrivial()
		}
	} else {
		o.Class("multi:all_resolve")
		if c.Pos != posString {
			o.NonTrivial()
		}
	}
	o.Note("value", value)

	resL, snapL, err := observe(base)
	if err != nil {
		return err
	}
	if !resL.accepted() {
		return fmt.Errorf("the literal configuration was not accepted: %s", resL)
	}
	cleanup, err := c.install(text)
	if err != nil {
		return err
	}
	defer cleanup()
	resP, snapP, err := observe(variant)
	if err != nil {
		return fmt.Errorf("placeholder variant (%s): %w", value, err)
	}
	o.Note("outcome", resP.String())

	where := fmt.Sprintf("%s/%s (%s %s, %s)", c.Site, c.Key, s.Comp.Label(), f.Class, c.Pos)
	if mustReject {
		p := c.Parts[firstMissing]
		if resP.accepted() {
			return fmt.Errorf("%s = %q: placeholder #%d of %d, %s, names nothing that exists (%s), but the configuration was accepted",
				where, value, firstMissing+1, len(c.Parts), p.placeholder(), p.Missing)
		}
		if resP.panicked {
			return fmt.Errorf("%s = %q (placeholder #%d: %s) was not rejected with an error: %s", where, value, firstMissing+1, p.Missing, resP)
		}
		o.Class("rejected_by:" + resP.stage)
		return nil
	}
	if !resP.accepted() {
		return fmt.Errorf("%s: literal %q is accepted, but %q with every variable defined is not: %s", where, text, value, resP)
	}
	diffs := cg.Compare(cg.CLI.Fields(), snapP.root, snapL.root, "")
	if len(snapP.sections) != len(snapL.sections) {
		diffs = append(diffs, fmt.Sprintf("%d sections observed, literal has %d", len(snapP.sections), len(snapL.sections)))
	}
	for _, st := range sites {
		l, okL := snapL.sections[st.PathString()]
		p, okP := snapP.sections[st.PathString()]
		if okL && okP {
			for _, d := range cg.Compare(st.Comp.Fields(), p, l, "") {
				diffs = append(diffs, st.PathString()+" ("+st.Comp.Label()+"): "+d)
			}
		}
	}
	if len(diffs) > 0 {
		return fmt.Errorf("%s: %q with every variable defined decodes differently from the literal %q (got = placeholders, want = literal):\n  %s",
			where, value, text, strings.Join(diffs, "\n  "))
	}
	return nil
}

func TestMultiPlaceholders(t *testing.T) {
	vf.Check(startRun(t), genMulti, checkMulti)
}
