package c02

// Implicit start under concurrency: the engine never calls Start on an RPS schedule, the first Next does
// (doAtSchedule / composite start themselves with time.Now()). Several instances race for that first call.
//
// Oracle: there must be ONE start instant s, between the instant before the callers were released and the
// instant after they all finished, such that the multiset of handed-out tokens is exactly the reference
// chain computed from s (so no token lies before the start, none is lost or duplicated, and every caller
// sees the same finish time after exhaustion). s is inferred from the earliest token and the reference
// chain is recomputed from it.

import (
	"fmt"
	"testing"

	sg "verif/harness/internal/schedgen"
	"verif/harness/internal/schedrace"
	"verif/harness/internal/vf"

	"github.com/yandex/pandora/core"
	"pgregory.net/rapid"
)

type ImplicitCase struct {
	Tree      sg.Node `json:"tree"`
	Callers   int     `json:"callers"`
	ViaConfig bool    `json:"via_config"`
	Rounds    int     `json:"rounds"`
}

func genImplicit(t *rapid.T) ImplicitCase {
	c := ImplicitCase{}
	if rapid.Bool().Draw(t, "singleLeaf") {
		c.Tree = sg.GenLeaf(t, finiteOpts) // the engine's most common case: one elementary profile
	} else {
		c.Tree = sg.GenTree(t, finiteOpts, 0)
	}
	c.Callers = rapid.IntRange(2, 8).Draw(t, "callers")
	c.ViaConfig = rapid.Bool().Draw(t, "viaConfig") && sg.ConfigOK(c.Tree)
	c.Rounds = 12
	return c
}

func checkImplicit(c ImplicitCase, o *vf.Obs) error {
	leaves := sg.Flatten(c.Tree)
	for _, l := range leaves {
		if l.Unknown() {
			return fmt.Errorf("harness: unlimited leaf in a finite tree")
		}
	}
	rounds := c.Rounds
	if rounds < 1 {
		rounds = 1
	}
	total := 0
	for r := 0; r < rounds; r++ {
		n, err := schedrace.Round(func() (core.Schedule, error) { return buildTree(c.Tree, c.ViaConfig) }, leaves, c.Callers)
		if err != nil {
			return fmt.Errorf("round %d: %w", r, err)
		}
		total = n
	}
	o.ClassIf(len(leaves) == 1, "single_elementary_profile")
	o.ClassIf(len(leaves) > 1, "composite")
	o.ClassIf(c.Callers >= 4, "callers_ge_4")
	o.ClassIf(c.ViaConfig, "via_config")
	classIStepBelow(c.Tree, o)
	if total >= 2 {
		o.NonTrivial()
	}
	return nil
}

func TestImplicitStart(t *testing.T) {
	r := vf.Start(t, "C02")
	vf.Check(r, genImplicit, checkImplicit)
}
