// C02 — schedule token contract: exactly-once tokens, order, Left, composites.
//
// Oracle: "manual chaining" reference (each elementary part drained alone from
// the finish time of the part before it) plus linearisability-style windows
// for Left() under concurrency.
package c02

import (
	"fmt"
	"runtime"
	"sort"
	"sync"
	"sync/atomic"
	"testing"
	"time"

	"verif/harness/internal/pand"
	sg "verif/harness/internal/schedgen"
	"verif/harness/internal/vf"

	"github.com/yandex/pandora/core"
	"github.com/yandex/pandora/core/coreutil"
	"pgregory.net/rapid"
)

// ---------- sequential, finite (virtual time, fully deterministic) ----------

type SeqCase struct {
	Tree      sg.Node `json:"tree"`
	Script    []bool  `json:"script"` // true = Left() before the next Next()
	StartNs   int64   `json:"start_unix_ns"`
	Wrap      bool    `json:"wrap_callback"`
	ViaConfig bool    `json:"via_config"`
	NoStart   bool    `json:"no_explicit_start"` // first Next starts it (then start is unknown: only relative checks)
}

var finiteOpts = sg.Opts{MaxDepth: 3, MaxChildren: 5, MaxLeafTok: 12, MinDur: time.Millisecond, MaxDur: 20 * time.Second,
	IStepToBelowFrom: true}

// istepBelow walks the tree in drawing order and reports whether it holds an
// instance_step part with to < from (no step fits: `from` tokens at once, the
// part finishes at its own start), whether such a part is followed by a further
// elementary part (whose start is that finish), and whether one of them is at
// least a whole step below (to <= from-step, e.g. `to` omitted).
func istepBelow(n sg.Node) (any, beforeParts, wholeStep bool) {
	pending := false
	var walk func(n sg.Node)
	walk = func(n sg.Node) {
		if n.Kind == "composite" {
			for _, c := range n.Children {
				walk(c)
			}
			return
		}
		if pending {
			beforeParts = true
		}
		if sg.IStepToBelowFrom(n) {
			any, pending = true, true
			if int64(n.To) <= int64(n.From)-n.Step {
				wholeStep = true
			}
		}
	}
	walk(n)
	return
}

func classIStepBelow(n sg.Node, o *vf.Obs) {
	any, before, whole := istepBelow(n)
	o.ClassIf(any, "istep_to_below_from")
	o.ClassIf(before, "istep_to_below_from_before_parts")
	o.ClassIf(whole, "istep_to_below_from_by_a_step")
}

func genSeq(t *rapid.T) SeqCase {
	c := SeqCase{}
	c.Tree = sg.GenTree(t, finiteOpts, 0)
	c.Script = rapid.SliceOfN(rapid.Bool(), 0, 60).Draw(t, "script")
	c.StartNs = rapid.Int64Range(0, 2_000_000_000_000_000_000).Draw(t, "start")
	c.Wrap = rapid.Bool().Draw(t, "wrap")
	c.ViaConfig = rapid.Bool().Draw(t, "viaConfig") && sg.ConfigOK(c.Tree)
	return c
}

func buildTree(n sg.Node, viaConfig bool) (core.Schedule, error) {
	if !viaConfig {
		return sg.Build(n), nil
	}
	var conf struct {
		S core.Schedule `config:"s"`
	}
	if err := pand.Decode(map[string]any{"s": sg.ConfigMap(n)}, &conf); err != nil {
		return nil, fmt.Errorf("valid schedule config rejected: %v", err)
	}
	return conf.S, nil
}

func flatTokens(parts []sg.Part) []time.Time {
	var out []time.Time
	for _, p := range parts {
		out = append(out, p.Tokens...)
	}
	return out
}

func checkSeq(c SeqCase, o *vf.Obs) error {
	s, err := buildTree(c.Tree, c.ViaConfig)
	if err != nil {
		return err
	}
	leaves := sg.Flatten(c.Tree)
	start := time.Unix(0, c.StartNs)
	parts, finish, total, err := sg.Chain(leaves, start)
	if err != nil {
		return err
	}
	want := flatTokens(parts)
	var cbCount int32
	var cbAtDrawn int = -1
	drawn := 0
	if c.Wrap {
		s = coreutil.NewCallbackOnFinishSchedule(s, func() {
			atomic.AddInt32(&cbCount, 1)
			cbAtDrawn = drawn
		})
	}
	if l := s.Left(); l != total {
		return fmt.Errorf("Left() before start = %d, the parts hold %d tokens", l, total)
	}
	s.Start(start)
	tokenLeaves, zeroParts := 0, 0
	for _, p := range parts {
		if len(p.Tokens) > 0 {
			tokenLeaves++
		} else {
			zeroParts++
		}
	}
	step := 0
	var prev time.Time
	exhaustedSeen := 0
	for drawn < total || exhaustedSeen < 3 {
		if step < len(c.Script) && c.Script[step] {
			if l := s.Left(); l != total-drawn {
				return fmt.Errorf("Left()=%d after %d of %d tokens were drawn (must be exact: %d)", l, drawn, total, total-drawn)
			}
		}
		step++
		tx, ok := s.Next()
		if drawn < total {
			if !ok {
				return fmt.Errorf("Next reported exhaustion after %d tokens, the parts hold %d", drawn, total)
			}
			if !tx.Equal(want[drawn]) {
				return fmt.Errorf("token %d at start+%v, manual chaining of the parts gives start+%v", drawn, tx.Sub(start), want[drawn].Sub(start))
			}
			if tx.Before(prev) {
				return fmt.Errorf("token %d at start+%v is earlier than the previous one (start+%v)", drawn, tx.Sub(start), prev.Sub(start))
			}
			prev = tx
			drawn++
			continue
		}
		if ok {
			return fmt.Errorf("Next handed out token %d (start+%v) but the parts hold only %d", drawn, tx.Sub(start), total)
		}
		if !tx.Equal(finish) {
			return fmt.Errorf("exhausted schedule reports finish start+%v, the chain of parts finishes at start+%v", tx.Sub(start), finish.Sub(start))
		}
		if tx.Before(prev) {
			return fmt.Errorf("exhausted schedule reports finish start+%v, earlier than the last token it handed to the same caller (start+%v)", tx.Sub(start), prev.Sub(start))
		}
		if l := s.Left(); l != 0 {
			return fmt.Errorf("Left()=%d after exhaustion", l)
		}
		exhaustedSeen++
	}
	if c.Wrap {
		if n := atomic.LoadInt32(&cbCount); n != 1 {
			return fmt.Errorf("on-finish callback fired %d times", n)
		}
		if cbAtDrawn < total {
			return fmt.Errorf("on-finish callback fired after %d of %d tokens", cbAtDrawn, total)
		}
	}
	depth := sg.Depth(c.Tree)
	o.ClassIf(zeroParts > 0, "zero_token_part")
	o.ClassIf(depth >= 2, "depth_ge_2")
	o.ClassIf(c.ViaConfig, "via_config")
	o.ClassIf(c.Wrap, "callback_wrapper")
	o.ClassIf(total >= 20, "tokens_ge_20")
	classIStepBelow(c.Tree, o)
	nLeft := 0
	for i := 0; i < len(c.Script) && i < total+3; i++ {
		if c.Script[i] {
			nLeft++
		}
	}
	o.ClassIf(nLeft > 0, "left_calls")
	if tokenLeaves >= 2 && (depth >= 2 || zeroParts > 0) {
		o.NonTrivial()
	}
	o.Note("tokens", total)
	o.Note("leaves", len(leaves))
	return nil
}

func TestSeqFinite(t *testing.T) {
	pand.Init()
	r := vf.Start(t, "C02")
	vf.Check(r, genSeq, checkSeq)
}

// TestSeqDense: trees whose first parts are DENSE constant-rate parts (5e4-2e6 rps, rates that are no divisor of 1e9,
// 3000-40000 tokens in 2-700 ms) in front of further parts. Whatever error a part accumulates per token shows at its
// end: its last tokens against its own finish time, where the next part begins - "times returned to one caller never
// decrease" across the part boundary. Same oracle as TestSeqFinite (checkSeq).
func genSeqDense(t *rapid.T) SeqCase {
	c := SeqCase{}
	var kids []sg.Node
	nDense := rapid.IntRange(1, 2).Draw(t, "nDense")
	for i := 0; i < nDense; i++ {
		ops := float64(rapid.Int64Range(50_000, 2_000_000).Draw(t, "ops"))
		if rapid.Bool().Draw(t, "opsFraction") {
			ops += float64(rapid.IntRange(1, 99).Draw(t, "opsHundredths")) / 100
		}
		n := rapid.Int64Range(3000, 40000).Draw(t, "tokens")
		dur := int64(float64(n) / ops * 1e9)
		dur -= dur % 1_000_000 // whole milliseconds, as a user writes them
		if dur < 1_000_000 {
			dur = 1_000_000
		}
		kind := rapid.SampledFrom([]string{"const", "const", "line", "step"}).Draw(t, "denseKind")
		switch kind {
		case "const":
			kids = append(kids, sg.Node{Kind: "const", From: ops, DurNs: dur})
		case "line": // a flat line is a constant rate
			kids = append(kids, sg.Node{Kind: "line", From: ops, To: ops, DurNs: dur})
		case "step": // two levels of half the length each
			ops = float64(int64(ops))
			kids = append(kids, sg.Node{Kind: "step", From: ops, To: ops + 7, Step: 7, DurNs: dur/2 + 1_000_000 - (dur/2)%1_000_000})
		}
	}
	nTail := rapid.IntRange(1, 3).Draw(t, "nTail")
	for i := 0; i < nTail; i++ {
		switch rapid.IntRange(0, 2).Draw(t, "tailKind") {
		case 0:
			kids = append(kids, sg.Node{Kind: "once", N: rapid.Int64Range(1, 5).Draw(t, "onceN")})
		case 1:
			kids = append(kids, sg.Node{Kind: "const", From: float64(rapid.IntRange(1, 2000).Draw(t, "tailOps")), DurNs: int64(rapid.IntRange(1, 50).Draw(t, "tailMs")) * 1_000_000})
		default:
			kids = append(kids, sg.Node{Kind: "line", From: float64(rapid.IntRange(0, 500).Draw(t, "tailFrom")), To: float64(rapid.IntRange(0, 5000).Draw(t, "tailTo")), DurNs: int64(rapid.IntRange(1, 50).Draw(t, "tailMs")) * 1_000_000})
		}
	}
	c.Tree = sg.Node{Kind: "composite", Children: kids}
	c.Script = rapid.SliceOfN(rapid.Bool(), 0, 20).Draw(t, "script")
	c.StartNs = rapid.Int64Range(0, 2_000_000_000_000_000_000).Draw(t, "start")
	c.Wrap = rapid.Bool().Draw(t, "wrap")
	c.ViaConfig = rapid.Bool().Draw(t, "viaConfig") && sg.ConfigOK(c.Tree)
	return c
}

func checkSeqDense(c SeqCase, o *vf.Obs) error {
	if err := checkSeq(c, o); err != nil {
		return err
	}
	roundsUp := false
	for _, k := range c.Tree.Children {
		if k.DurNs > 0 && k.From >= 50_000 {
			iv := 1e9 / k.From
			roundsUp = roundsUp || iv-float64(int64(iv)) >= 0.5
		}
	}
	o.ClassIf(roundsUp, "dense_part_interval_fraction_ge_half_ns")
	o.Class("dense_part_before_further_parts")
	o.NonTrivial()
	return nil
}

func TestSeqDense(t *testing.T) {
	pand.Init()
	r := vf.Start(t, "C02")
	vf.Check(r, genSeqDense, checkSeqDense)
}

// ---------- concurrent, finite ----------

type ConcCase struct {
	Tree    sg.Node  `json:"tree"`
	Callers []Caller `json:"callers"`
	StartNs int64    `json:"start_unix_ns"`
	Wrap    bool     `json:"wrap_callback"`
	Repeat  int      `json:"repeat"`
}

type Caller struct {
	LeftEvery int  `json:"left_every"` // 0 = never calls Left; k = Left before every k-th Next
	LeftOnly  bool `json:"left_only"`  // only polls Left until it reports 0
	Yield     int  `json:"yield"`      // runtime.Gosched every n ops (0 = never)
}

func genConc(t *rapid.T) ConcCase {
	c := ConcCase{}
	c.Tree = sg.GenTree(t, finiteOpts, 0)
	n := rapid.IntRange(2, 8).Draw(t, "callers")
	for i := 0; i < n; i++ {
		c.Callers = append(c.Callers, Caller{
			LeftEvery: rapid.SampledFrom([]int{0, 0, 1, 2, 3}).Draw(t, "leftEvery"),
			LeftOnly:  i > 0 && rapid.IntRange(0, 5).Draw(t, "leftOnly") == 0,
			Yield:     rapid.SampledFrom([]int{0, 1, 2, 5}).Draw(t, "yield"),
		})
	}
	c.StartNs = rapid.Int64Range(0, 2_000_000_000_000_000_000).Draw(t, "start")
	c.Wrap = rapid.Bool().Draw(t, "wrap")
	c.Repeat = 4
	return c
}

type nextEv struct {
	begin, end int64
	tx         time.Time
	ok         bool
	caller     int
}
type leftEv struct {
	begin, end int64
	val        int
	caller     int
}

func checkConc(c ConcCase, o *vf.Obs) error {
	leaves := sg.Flatten(c.Tree)
	start := time.Unix(0, c.StartNs)
	parts, finish, total, err := sg.Chain(leaves, start)
	if err != nil {
		return err
	}
	want := flatTokens(parts)
	rep := c.Repeat
	if rep < 1 {
		rep = 1
	}
	for round := 0; round < rep; round++ {
		if err := concRound(c, start, want, finish, total); err != nil {
			return fmt.Errorf("round %d: %w", round, err)
		}
	}
	tokenLeaves, zeroParts := 0, 0
	for _, p := range parts {
		if len(p.Tokens) > 0 {
			tokenLeaves++
		} else {
			zeroParts++
		}
	}
	leftCallers := 0
	for _, cl := range c.Callers {
		if cl.LeftEvery > 0 || cl.LeftOnly {
			leftCallers++
		}
	}
	o.ClassIf(zeroParts > 0, "zero_token_part")
	o.ClassIf(leftCallers > 0, "left_callers")
	o.ClassIf(len(c.Callers) >= 4, "callers_ge_4")
	o.ClassIf(c.Wrap, "callback_wrapper")
	classIStepBelow(c.Tree, o)
	if tokenLeaves >= 2 {
		o.NonTrivial()
	}
	o.Note("tokens", total)
	return nil
}

func concRound(c ConcCase, start time.Time, want []time.Time, finish time.Time, total int) error {
	var s core.Schedule = sg.Build(c.Tree)
	var clock int64
	var cbCount int32
	var cbAt int64
	if c.Wrap {
		s = coreutil.NewCallbackOnFinishSchedule(s, func() {
			atomic.AddInt32(&cbCount, 1)
			atomic.StoreInt64(&cbAt, atomic.AddInt64(&clock, 1))
		})
	}
	s.Start(start)
	nexts := make([][]nextEv, len(c.Callers))
	lefts := make([][]leftEv, len(c.Callers))
	var wg sync.WaitGroup
	var sink vf.ErrSink
	gate := make(chan struct{})
	for ci, cl := range c.Callers {
		ci, cl := ci, cl
		vf.GoErr(&wg, &sink, func() {
			<-gate
			ops := 0
			doLeft := func() int {
				b := atomic.AddInt64(&clock, 1)
				v := s.Left()
				e := atomic.AddInt64(&clock, 1)
				lefts[ci] = append(lefts[ci], leftEv{b, e, v, ci})
				return v
			}
			if cl.LeftOnly {
				for i := 0; i < 200000; i++ {
					if doLeft() == 0 {
						break
					}
					yield(cl.Yield, i)
				}
				// keep polling a few more times: must stay 0
				for i := 0; i < 3; i++ {
					doLeft()
				}
				return
			}
			fails := 0
			for fails < 3 {
				ops++
				if cl.LeftEvery > 0 && ops%cl.LeftEvery == 0 {
					doLeft()
				}
				yield(cl.Yield, ops)
				b := atomic.AddInt64(&clock, 1)
				tx, ok := s.Next()
				e := atomic.AddInt64(&clock, 1)
				nexts[ci] = append(nexts[ci], nextEv{b, e, tx, ok, ci})
				if !ok {
					fails++
				}
				if ops > total+10 {
					return
				}
			}
		})
	}
	close(gate)
	done := make(chan struct{})
	go func() { wg.Wait(); close(done) }()
	select {
	case <-done:
	case <-time.After(60 * time.Second):
		return fmt.Errorf("callers did not finish within 60s (deadlock or livelock in the schedule)")
	}
	if err := sink.Get(); err != nil {
		return err
	}
	// analyse
	var succ []nextEv
	for ci := range nexts {
		var prev time.Time
		seenFail := false
		for _, ev := range nexts[ci] {
			if ev.ok {
				if seenFail {
					return fmt.Errorf("caller %d got a token after it had been told the schedule is exhausted", ci)
				}
				if ev.tx.Before(prev) {
					return fmt.Errorf("caller %d: time went backwards (start+%v after start+%v)", ci, ev.tx.Sub(start), prev.Sub(start))
				}
				prev = ev.tx
				succ = append(succ, ev)
			} else {
				seenFail = true
				if !ev.tx.Equal(finish) {
					return fmt.Errorf("caller %d: exhausted schedule reports finish start+%v, the chain of parts finishes at start+%v", ci, ev.tx.Sub(start), finish.Sub(start))
				}
			}
		}
	}
	if len(succ) != total {
		return fmt.Errorf("%d tokens were handed out to %d callers, the parts hold %d", len(succ), len(c.Callers), total)
	}
	got := make([]time.Time, len(succ))
	for i, ev := range succ {
		got[i] = ev.tx
	}
	sort.Slice(got, func(i, j int) bool { return got[i].Before(got[j]) })
	sw := append([]time.Time(nil), want...)
	sort.Slice(sw, func(i, j int) bool { return sw[i].Before(sw[j]) })
	for i := range got {
		if !got[i].Equal(sw[i]) {
			return fmt.Errorf("multiset of handed-out tokens differs from the parts' tokens at sorted index %d: start+%v vs start+%v (duplicate or lost token)",
				i, got[i].Sub(start), sw[i].Sub(start))
		}
	}
	// Left windows
	begins := make([]int64, len(succ))
	ends := make([]int64, len(succ))
	for i, ev := range succ {
		begins[i], ends[i] = ev.begin, ev.end
	}
	sort.Slice(begins, func(i, j int) bool { return begins[i] < begins[j] })
	sort.Slice(ends, func(i, j int) bool { return ends[i] < ends[j] })
	countLess := func(a []int64, x int64) int { return sort.Search(len(a), func(i int) bool { return a[i] >= x }) }
	for ci := range lefts {
		for _, ev := range lefts[ci] {
			lo := total - countLess(begins, ev.end)
			hi := total - countLess(ends, ev.begin)
			if ev.val < lo || ev.val > hi {
				return fmt.Errorf("caller %d: Left()=%d while between %d and %d tokens remained (total %d, all parts finite)", ci, ev.val, lo, hi, total)
			}
		}
	}
	if c.Wrap {
		if n := atomic.LoadInt32(&cbCount); n != 1 {
			return fmt.Errorf("on-finish callback fired %d times", n)
		}
		at := atomic.LoadInt64(&cbAt)
		if started := countLess(begins, at); started < total {
			return fmt.Errorf("on-finish callback fired when only %d of %d tokens had been requested", started, total)
		}
	}
	return nil
}

func yield(every, i int) {
	if every > 0 && i%every == 0 {
		runtime.Gosched()
	}
}

func TestConcFinite(t *testing.T) {
	pand.Init()
	r := vf.Start(t, "C02")
	vf.Check(r, genConc, checkConc)
}
