package c02

import (
	"fmt"
	"sync"
	"sync/atomic"
	"testing"
	"time"

	sg "verif/harness/internal/schedgen"
	"verif/harness/internal/vf"

	"github.com/yandex/pandora/core"
	"pgregory.net/rapid"
)

// ---------- real time: trees with unknown-length (unlimited) parts ----------
//
// Every caller waits until a token's time before drawing the next one (what
// coreutil.Waiter does); without that precondition an unlimited part, which
// answers time.Now(), could not promise non-decreasing times.

type RTCase struct {
	Tree    sg.Node `json:"tree"`
	Script  []bool  `json:"script"`
	Callers int     `json:"callers"`
	// TestSeqUnlimited only.
	// Implicit: nobody calls Start, the first Next starts the tree (what the engine does with every schedule); the
	// start instant is inferred from the first token (needs a finite first token-bearing part, otherwise the case runs
	// with an explicit Start) and must lie inside that call.
	Implicit bool `json:"implicit_start,omitempty"`
	// Idle[n]: when the caller has drawn the last token in front of the n-th unknown-length part it reaches, it stops
	// drawing (an instance whose gun is busy), waits until the clock has passed the finish of that part (and of the
	// unknown-length parts right behind it) and only polls Left().
	Idle []bool `json:"idle_before_unlimited,omitempty"`
}

// leftGuard is the clock guard band of the Left() oracle: a call that began later than this after the finish of the
// last unknown-length part must give the exact count.
const leftGuard = time.Millisecond

var rtOpts = sg.Opts{MaxDepth: 2, MaxChildren: 4, MaxLeafTok: 4, Unlimited: true, MinDur: time.Millisecond, MaxDur: 4 * time.Millisecond}

func hasUnlimited(n sg.Node) bool {
	if n.Kind == "unlimited" {
		return true
	}
	for _, c := range n.Children {
		if hasUnlimited(c) {
			return true
		}
	}
	return false
}

func genRT(callersMax int) func(t *rapid.T) RTCase {
	return func(t *rapid.T) RTCase {
		c := RTCase{}
		c.Tree = sg.GenTree(t, rtOpts, 0)
		if c.Tree.Kind != "composite" {
			c.Tree = sg.Node{Kind: "composite", Children: []sg.Node{c.Tree}}
		}
		if !hasUnlimited(c.Tree) {
			u := sg.Node{Kind: "unlimited", DurNs: int64(rapid.IntRange(1, 4).Draw(t, "udur")) * int64(time.Millisecond)}
			pos := rapid.IntRange(0, len(c.Tree.Children)).Draw(t, "upos")
			ch := append([]sg.Node{}, c.Tree.Children[:pos]...)
			ch = append(ch, u)
			ch = append(ch, c.Tree.Children[pos:]...)
			c.Tree.Children = ch
		}
		c.Script = rapid.SliceOfN(rapid.Bool(), 0, 40).Draw(t, "script")
		c.Callers = rapid.IntRange(1, callersMax).Draw(t, "callers")
		return c
	}
}

// genCompositePart draws a part that pandora builds as a composite schedule of its own and that holds tokens: a nested
// profile of 2-3 elementary parts, an instance_step with at least one step, or a step profile with from != to.
func genCompositePart(t *rapid.T) sg.Node {
	ms := func(label string) int64 { return int64(rapid.IntRange(1, 4).Draw(t, label)) * int64(time.Millisecond) }
	switch rapid.SampledFrom([]string{"nested", "nested", "istep", "istep", "step"}).Draw(t, "firstKind") {
	case "nested":
		flat := rtOpts
		flat.Unlimited, flat.Flat = false, true
		n := sg.Node{Kind: "composite"}
		for i, cnt := 0, rapid.IntRange(2, 3).Draw(t, "nestedParts"); i < cnt; i++ {
			n.Children = append(n.Children, sg.GenLeaf(t, flat))
		}
		return n
	case "istep":
		from := int64(rapid.IntRange(0, 3).Draw(t, "from"))
		step := int64(rapid.IntRange(1, 3).Draw(t, "step"))
		cnt := int64(rapid.IntRange(1, 3).Draw(t, "cnt"))
		return sg.Node{Kind: "istep", From: float64(from), To: float64(from + cnt*step), Step: step, DurNs: ms("dur")}
	default:
		// levels of 1-3 tokens each: rates in multiples of 500/s over 2 ms
		from := int64(rapid.IntRange(0, 1).Draw(t, "from")) * 500
		levels := int64(rapid.IntRange(1, 2).Draw(t, "levels"))
		return sg.Node{Kind: "step", From: float64(from) + 125, To: float64(from+levels*500) + 125, Step: 500, DurNs: 2 * int64(time.Millisecond)}
	}
}

// genRTSeq: genRT(1) plus the start mode and the idle plan; every second tree gets a composite-built part in front
// (nested profile / instance_step / step: the shape of a startup profile followed by an unlimited phase).
func genRTSeq(t *rapid.T) RTCase {
	c := genRT(1)(t)
	c.Implicit = rapid.Bool().Draw(t, "implicit")
	c.Idle = rapid.SliceOfN(rapid.Bool(), 0, 6).Draw(t, "idle")
	if rapid.Bool().Draw(t, "compositeFirst") {
		c.Tree.Children = append([]sg.Node{genCompositePart(t)}, c.Tree.Children...)
	}
	return c
}

// built normalises a node to what pandora's constructors return: NewComposite of one part is that part, of none once(0).
func built(n sg.Node) sg.Node {
	for n.Kind == "composite" && len(n.Children) == 1 {
		n = n.Children[0]
	}
	return n
}

// builtComposite: the node is built as a composite schedule of its own.
func builtComposite(n sg.Node) bool {
	n = built(n)
	switch n.Kind {
	case "composite":
		return len(n.Children) >= 2
	case "step":
		return n.From != n.To
	case "istep":
		return int64(n.From)+n.Step <= int64(n.To)
	}
	return false
}

func waitUntil(tx time.Time) {
	for {
		d := time.Until(tx)
		if d <= 0 {
			return
		}
		time.Sleep(d)
	}
}

func checkRTSeq(c RTCase, o *vf.Obs) error {
	leaves := sg.Flatten(c.Tree)
	s := sg.Build(c.Tree)
	if l := s.Left(); l >= 0 {
		return fmt.Errorf("Left()=%d before start although the tree holds an unlimited part (total unknown)", l)
	}
	// shape of the chain (independent of the start instant)
	ref, _, _, err := sg.Chain(leaves, time.Unix(1_000_000, 0))
	if err != nil {
		return err
	}
	unknownNotFirst := false
	firstTokenLeaf := -1
	for i, p := range ref {
		if firstTokenLeaf < 0 && (p.Leaf.Unknown() || len(p.Tokens) > 0) {
			firstTokenLeaf = i
		}
		if p.Leaf.Unknown() && firstTokenLeaf >= 0 && i > firstTokenLeaf {
			unknownNotFirst = true
		}
	}
	// Implicit start: the start instant is the first token minus its offset in the chain; that needs a finite part
	// to hand out the first token (an unlimited part answers "now").
	implicit := c.Implicit && firstTokenLeaf >= 0 && !ref[firstTokenLeaf].Leaf.Unknown()
	var firstOff time.Duration
	if implicit {
		firstOff = ref[firstTokenLeaf].Tokens[0].Sub(ref[0].Start)
	}
	// first part of the outer schedule built as a composite of its own (nested profile, instance_step, step)?
	firstComposite, firstLeaves := false, 0
	if outer := built(c.Tree); outer.Kind == "composite" && len(outer.Children) >= 2 {
		firstComposite = builtComposite(outer.Children[0])
		firstLeaves = len(sg.Flatten(outer.Children[0]))
	}
	var (
		start   time.Time
		parts   []sg.Part
		finish  time.Time
		started bool // Start was called or a first Next has returned
	)
	if !implicit {
		start = time.Now()
		s.Start(start)
		if parts, finish, _, err = sg.Chain(leaves, start); err != nil {
			return err
		}
		started = true
	}
	remaining := func(j, k int) int {
		r := 0
		for i := j; i < len(parts); i++ {
			if parts[i].Leaf.Unknown() {
				continue
			}
			if i == j {
				r += len(parts[i].Tokens) - k
			} else {
				r += len(parts[i].Tokens)
			}
		}
		return r
	}
	j, k := 0, 0 // model position: leaf j, token k inside it
	var prev time.Time
	uTokens, fTokens, leftNeg, leftExact, leftStrict := 0, 0, 0, 0, 0
	maxLeafDrawn := -1 // highest leaf a token has been drawn from
	// checkLeft judges one Left() call; strict reports that the answer had to be exact although unknown-length parts
	// were still ahead of the model position (all of them over on the clock, no token left in front of them).
	checkLeft := func() (strict bool, err error) {
		a := time.Now()
		l := s.Left()
		b := time.Now()
		mustNeg, lastU := false, -1
		for i := j; i < len(parts); i++ {
			if parts[i].Leaf.Unknown() {
				lastU = i
				if b.Before(parts[i].Finish) {
					mustNeg = true
				}
			}
		}
		anyU := lastU >= 0
		R := remaining(j, k)
		// Tokens still to be drawn in front of the last unknown-length part: while there are any, that part has not been
		// started and Left() may stay negative although its window has passed on the clock (spec assumption).
		inFront := 0
		for i := j; i < lastU; i++ {
			if !parts[i].Leaf.Unknown() {
				inFront += len(parts[i].Tokens)
				if i == j {
					inFront -= k
				}
			}
		}
		mustExact := anyU && !mustNeg && inFront == 0 && !a.Before(parts[lastU].Finish.Add(leftGuard))
		switch {
		case !anyU:
			if l != R {
				return false, fmt.Errorf("Left()=%d with no unknown-length part left; exactly %d tokens remain", l, R)
			}
			leftExact++
		case mustNeg:
			if l >= 0 {
				return false, fmt.Errorf("Left()=%d while an unlimited part (finishing at start+%v) has not finished yet: the total is unknown, must be negative (exactly %d finite tokens remain)",
					l, firstUnfinished(parts, j, b).Sub(start), R)
			}
			leftNeg++
		case mustExact:
			if l != R {
				how := "started explicitly"
				if implicit {
					how = "started by its first Next"
				}
				return true, fmt.Errorf("Left()=%d, asked %v after the last unlimited part finished (start+%v) with every token in front of it drawn (%d Next calls so far, schedule %s): nothing unknown is left, exactly %d tokens remain - Left is negative only while an unlimited part has not finished yet",
					l, a.Sub(parts[lastU].Finish), parts[lastU].Finish.Sub(start), fTokens+uTokens, how, R)
			}
			leftStrict++
			return true, nil
		default:
			if l >= 0 && l != R {
				return false, fmt.Errorf("Left()=%d is non-negative but not exact: %d finite tokens remain", l, R)
			}
		}
		return false, nil
	}
	idleIdx, lastIdleU := 0, -1
	idleWaits, idleStrict, idleStrictFirstComposite := 0, 0, 0
	// idle: the next token would come from an unknown-length part the caller has not reached before; if the plan says so,
	// stop drawing, let that part (and the unknown-length parts chained right behind it) run out on the clock, poll Left().
	idle := func() error {
		i := j
		for i < len(parts) && !parts[i].Leaf.Unknown() && ((i == j && k >= len(parts[i].Tokens)) || (i != j && len(parts[i].Tokens) == 0)) {
			i++
		}
		if i >= len(parts) || !parts[i].Leaf.Unknown() || i <= lastIdleU {
			return nil
		}
		lastIdleU = i
		plan := idleIdx < len(c.Idle) && c.Idle[idleIdx]
		idleIdx++
		if !plan {
			return nil
		}
		lu := i
		for m := i + 1; m < len(parts); m++ {
			if parts[m].Leaf.Unknown() {
				lu = m
			} else if len(parts[m].Tokens) > 0 {
				break
			}
		}
		waitUntil(parts[lu].Finish.Add(leftGuard + 200*time.Microsecond))
		idleWaits++
		for n := 0; n < 3; n++ {
			strict, err := checkLeft()
			if err != nil {
				return fmt.Errorf("after staying idle in front of unlimited part %d until start+%v, Left poll %d: %w", i, parts[lu].Finish.Sub(start), n, err)
			}
			if strict {
				idleStrict++
				if implicit && firstComposite && maxLeafDrawn >= 0 && maxLeafDrawn < firstLeaves {
					idleStrictFirstComposite++
				}
			}
		}
		return nil
	}
	step := 0
	fails := 0
	for iter := 0; iter < 3000000; iter++ { // a guard against a schedule that never ends, far above what the unlimited windows allow
		if started {
			if err := idle(); err != nil {
				return err
			}
		}
		if step < len(c.Script) && c.Script[step] {
			if !started {
				if l := s.Left(); l >= 0 {
					return fmt.Errorf("Left()=%d on a schedule nobody has started (no Start, no Next yet) although the tree holds an unlimited part (total unknown)", l)
				}
			} else if _, err := checkLeft(); err != nil {
				return err
			}
		}
		step++
		a := time.Now()
		tx, ok := s.Next()
		b := time.Now()
		if !started {
			// implicit start: this call started the tree at an instant of its own choice inside [a, b]
			if !ok {
				return fmt.Errorf("first Next of the unstarted schedule reported exhaustion, part %d holds %d tokens", firstTokenLeaf, len(ref[firstTokenLeaf].Tokens))
			}
			start = tx.Add(-firstOff)
			if start.Before(a) || start.After(b) {
				return fmt.Errorf("first token %v lies %v after the profile's start by manual chaining, so the schedule started at %v: outside the first Next call [%v, %v] that started it",
					tx.Format(time.RFC3339Nano), firstOff, start.Format(time.RFC3339Nano), a.Format(time.RFC3339Nano), b.Format(time.RFC3339Nano))
			}
			if parts, finish, _, err = sg.Chain(leaves, start); err != nil {
				return err
			}
			started = true
		}
		// advance the model
		matched := false
		for !matched {
			if j >= len(parts) {
				if ok {
					return fmt.Errorf("Next handed out a token (start+%v) after all parts were exhausted", tx.Sub(start))
				}
				if !tx.Equal(finish) {
					return fmt.Errorf("exhausted schedule reports finish start+%v, the chain of parts finishes at start+%v", tx.Sub(start), finish.Sub(start))
				}
				matched = true
				fails++
				break
			}
			p := parts[j]
			if !p.Leaf.Unknown() {
				if k < len(p.Tokens) {
					if !ok {
						return fmt.Errorf("Next reported exhaustion while part %d still holds %d tokens", j, len(p.Tokens)-k)
					}
					if !tx.Equal(p.Tokens[k]) {
						return fmt.Errorf("part %d token %d at start+%v, manual chaining gives start+%v", j, k, tx.Sub(start), p.Tokens[k].Sub(start))
					}
					k++
					fTokens++
					maxLeafDrawn = j
					matched = true
					break
				}
				j, k = j+1, 0
				continue
			}
			// unlimited part
			if b.Before(p.Finish) {
				if !ok {
					return fmt.Errorf("Next reported exhaustion %v before unlimited part %d finishes", p.Finish.Sub(b), j)
				}
				if tx.Before(p.Start) {
					return fmt.Errorf("unlimited part %d (starting at start+%v, the finish of the part before it) handed out a token at start+%v, before its start",
						j, p.Start.Sub(start), tx.Sub(start))
				}
				if !inUWindow(tx, a, b, p.Start) {
					return fmt.Errorf("unlimited part %d (starting at start+%v) returned start+%v: neither the time of the call [start+%v, start+%v] nor the part's start",
						j, p.Start.Sub(start), tx.Sub(start), a.Sub(start), b.Sub(start))
				}
				uTokens++
				maxLeafDrawn = j
				matched = true
				break
			}
			if !a.Before(p.Finish) {
				j, k = j+1, 0
				continue
			}
			// call straddles the finish instant: either outcome
			if ok && tx.Before(p.Finish) && (inUWindow(tx, a, b, p.Start) || tx.Before(p.Start)) {
				if tx.Before(p.Start) {
					return fmt.Errorf("unlimited part %d handed out a token at start+%v, before its start (start+%v)", j, tx.Sub(start), p.Start.Sub(start))
				}
				uTokens++
				maxLeafDrawn = j
				matched = true
				break
			}
			j, k = j+1, 0
		}
		if ok {
			if tx.Before(prev) {
				return fmt.Errorf("time went backwards: start+%v after start+%v", tx.Sub(start), prev.Sub(start))
			}
			prev = tx
			waitUntil(tx)
		} else if fails >= 3 {
			break
		}
	}
	if l := s.Left(); l != 0 {
		return fmt.Errorf("Left()=%d after exhaustion", l)
	}
	o.ClassIf(unknownNotFirst, "unknown_not_first")
	o.ClassIf(leftNeg > 0, "left_negative_seen")
	o.ClassIf(leftExact > 0, "left_exact_after_unknown")
	o.ClassIf(uTokens > 0, "unlimited_tokens_drawn")
	o.ClassIf(implicit, "implicit_start")
	o.ClassIf(c.Implicit && !implicit, "implicit_start_not_inferable_ran_explicit")
	o.ClassIf(firstComposite, "composite_first_part")
	o.ClassIf(idleWaits > 0, "idle_before_unlimited")
	o.ClassIf(leftStrict > 0, "left_exact_demanded_behind_finished_unlimited")
	o.ClassIf(idleStrict > 0, "idle_left_exact_demanded")
	o.ClassIf(idleStrict > 0 && implicit, "idle_left_exact_demanded_implicit_start")
	o.ClassIf(idleStrictFirstComposite > 0, "idle_left_exact_demanded_behind_composite_first_part_implicit_start")
	tokenLeaves := 0
	for _, p := range parts {
		if p.Leaf.Unknown() || len(p.Tokens) > 0 {
			tokenLeaves++
		}
	}
	if tokenLeaves >= 2 && unknownNotFirst {
		o.NonTrivial()
	}
	o.Key(map[string]any{"tree": c.Tree, "script": c.Script, "implicit": c.Implicit, "idle": c.Idle})
	o.Note("finite_tokens", fTokens)
	o.Note("unlimited_tokens", uTokens)
	return nil
}

// inUWindow: a token of an unlimited part requested during [a,b] is "now", or the
// part's start instant when the request came before the part starts.
func inUWindow(tx, a, b, pStart time.Time) bool {
	lo, hi := a, b
	if lo.Before(pStart) {
		lo = pStart
	}
	if hi.Before(pStart) {
		hi = pStart
	}
	return !tx.Before(lo) && !tx.After(hi)
}

func firstUnfinished(parts []sg.Part, j int, b time.Time) time.Time {
	for i := j; i < len(parts); i++ {
		if parts[i].Leaf.Unknown() && b.Before(parts[i].Finish) {
			return parts[i].Finish
		}
	}
	return time.Time{}
}

func TestSeqUnlimited(t *testing.T) {
	r := vf.Start(t, "C02")
	vf.Check(r, genRTSeq, checkRTSeq)
}

// ---------- real time, concurrent ----------

func checkRTConc(c RTCase, o *vf.Obs) error {
	leaves := sg.Flatten(c.Tree)
	var s core.Schedule = sg.Build(c.Tree)
	start := time.Now()
	s.Start(start)
	parts, finish, total, err := sg.Chain(leaves, start)
	if err != nil {
		return err
	}
	finiteCount := map[int64]int{}
	for _, p := range parts {
		for _, tx := range p.Tokens {
			finiteCount[tx.UnixNano()]++
		}
	}
	var maxUFinish time.Time
	var uParts []sg.Part
	for _, p := range parts {
		if p.Leaf.Unknown() {
			uParts = append(uParts, p)
			if p.Finish.After(maxUFinish) {
				maxUFinish = p.Finish
			}
		}
	}
	type nres struct {
		a, b   time.Time
		la, lb int64
		tx     time.Time
		ok     bool
	}
	type lres struct {
		a, b   time.Time
		la, lb int64
		v      int
	}
	var clock int64
	nexts := make([][]nres, c.Callers)
	lefts := make([][]lres, c.Callers)
	var wg sync.WaitGroup
	var sink vf.ErrSink
	gate := make(chan struct{})
	for ci := 0; ci < c.Callers; ci++ {
		ci := ci
		vf.GoErr(&wg, &sink, func() {
			<-gate
			fails := 0
			// an `unlimited` part hands out a token whenever it is asked: a caller on an idle fast core makes more than
			// 20000 draws within 11 ms of unlimited windows, so the cap only guards against a schedule that never ends
			// (20000 once cut a caller short in front of the last finite part: a false alarm in one of 1.27 million
			// thorough cases)
			for op := 0; fails < 2 && op < 3000000; op++ {
				if len(c.Script) > 0 && c.Script[(op+ci)%len(c.Script)] {
					la := atomic.AddInt64(&clock, 1)
					a := time.Now()
					v := s.Left()
					b := time.Now()
					lb := atomic.AddInt64(&clock, 1)
					lefts[ci] = append(lefts[ci], lres{a, b, la, lb, v})
				}
				la := atomic.AddInt64(&clock, 1)
				a := time.Now()
				tx, ok := s.Next()
				b := time.Now()
				lb := atomic.AddInt64(&clock, 1)
				nexts[ci] = append(nexts[ci], nres{a, b, la, lb, tx, ok})
				if ok {
					waitUntil(tx)
				} else {
					fails++
				}
			}
		})
	}
	close(gate)
	done := make(chan struct{})
	go func() { wg.Wait(); close(done) }()
	select {
	case <-done:
	case <-time.After(60 * time.Second):
		return fmt.Errorf("callers did not finish within 60s")
	}
	if err := sink.Get(); err != nil {
		return err
	}
	gotFinite := map[int64]int{}
	var fBegins, fEnds []int64
	ambiguous := false
	uTok := 0
	for ci := range nexts {
		var prev time.Time
		for _, ev := range nexts[ci] {
			if !ev.ok {
				if !ev.tx.Equal(finish) {
					return fmt.Errorf("caller %d: exhausted schedule reports finish start+%v, chain finishes at start+%v", ci, ev.tx.Sub(start), finish.Sub(start))
				}
				continue
			}
			if ev.tx.Before(prev) {
				return fmt.Errorf("caller %d: time went backwards: start+%v after start+%v", ci, ev.tx.Sub(start), prev.Sub(start))
			}
			prev = ev.tx
			inWindow := !ev.tx.Before(ev.a) && !ev.tx.After(ev.b)
			for _, p := range uParts {
				if inUWindow(ev.tx, ev.a, ev.b, p.Start) && ev.tx.Before(p.Finish) {
					inWindow = true
				}
			}
			_, isFinite := finiteCount[ev.tx.UnixNano()]
			if isFinite && inWindow {
				ambiguous = true // a finite token instant that coincides with the call window: cannot classify
			}
			if isFinite {
				gotFinite[ev.tx.UnixNano()]++
				fBegins = append(fBegins, ev.la)
				fEnds = append(fEnds, ev.lb)
				continue
			}
			// must be an unlimited token
			okU := false
			for _, p := range uParts {
				if !ev.tx.Before(p.Start) && ev.tx.Before(p.Finish) {
					okU = true
				}
			}
			if !inWindow {
				return fmt.Errorf("caller %d: token at start+%v is neither a token of a finite part nor the current time of the call [start+%v,start+%v]",
					ci, ev.tx.Sub(start), ev.a.Sub(start), ev.b.Sub(start))
			}
			if !okU {
				return fmt.Errorf("caller %d: token at start+%v lies outside every unlimited part's [start,finish) window", ci, ev.tx.Sub(start))
			}
			uTok++
		}
	}
	if ambiguous {
		o.Class("inconclusive_ambiguous_instant")
		return nil
	}
	for ns, n := range finiteCount {
		if gotFinite[ns] != n {
			return fmt.Errorf("finite token at start+%v handed out %d times, the parts hold it %d times", time.Duration(ns-start.UnixNano()), gotFinite[ns], n)
		}
	}
	sortI64(fBegins)
	sortI64(fEnds)
	leftNeg := 0
	for ci := range lefts {
		for _, ev := range lefts[ci] {
			for _, p := range uParts {
				if ev.b.Before(p.Finish) && ev.v >= 0 {
					return fmt.Errorf("caller %d: Left()=%d at start+%v while an unlimited part finishing at start+%v has not finished: total unknown, must be negative",
						ci, ev.v, ev.b.Sub(start), p.Finish.Sub(start))
				}
			}
			if ev.v < 0 {
				leftNeg++
				continue
			}
			lo := total - lessCount(fBegins, ev.lb)
			hi := total - lessCount(fEnds, ev.la)
			if ev.v < lo || ev.v > hi {
				return fmt.Errorf("caller %d: Left()=%d is non-negative but between %d and %d finite tokens remained", ci, ev.v, lo, hi)
			}
		}
	}
	o.ClassIf(leftNeg > 0, "left_negative_seen")
	o.ClassIf(uTok > 0, "unlimited_tokens_drawn")
	o.ClassIf(c.Callers >= 4, "callers_ge_4")
	if c.Callers >= 2 && total > 0 {
		o.NonTrivial()
	}
	o.Key(map[string]any{"tree": c.Tree, "script": c.Script, "callers": c.Callers})
	return nil
}

func sortI64(a []int64) {
	for i := 1; i < len(a); i++ {
		for j := i; j > 0 && a[j-1] > a[j]; j-- {
			a[j-1], a[j] = a[j], a[j-1]
		}
	}
}

func lessCount(a []int64, x int64) int {
	n := 0
	for _, v := range a {
		if v < x {
			n++
		}
	}
	return n
}

func TestConcUnlimited(t *testing.T) {
	r := vf.Start(t, "C02")
	vf.Check(r, genRT(6), checkRTConc)
}
