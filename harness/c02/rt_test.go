package c02

import (
	"fmt"
	"sync"
	"sync/atomic"
	"testing"
	"time"

	sg "verif/harness/internal/schedgen"
	"verif/harness/internal/vf"

	"github.com/yandex/pandora/core"
	"pgregory.net/rapid"
)

// ---------- real time: trees with unknown-length (unlimited) parts ----------
//
// Every caller waits until a token's time before drawing the next one (what
// coreutil.Waiter does); without that precondition an unlimited part, which
// answers time.Now(), could not promise non-decreasing times.

type RTCase struct {
	Tree    sg.Node `json:"tree"`
	Script  []bool  `json:"script"`
	Callers int     `json:"callers"`
}

var rtOpts = sg.Opts{MaxDepth: 2, MaxChildren: 4, MaxLeafTok: 4, Unlimited: true, MinDur: time.Millisecond, MaxDur: 4 * time.Millisecond}

func hasUnlimited(n sg.Node) bool {
	if n.Kind == "unlimited" {
		return true
	}
	for _, c := range n.Children {
		if hasUnlimited(c) {
			return true
		}
	}
	return false
}

func genRT(callersMax int) func(t *rapid.T) RTCase {
	return func(t *rapid.T) RTCase {
		c := RTCase{}
		c.Tree = sg.GenTree(t, rtOpts, 0)
		if c.Tree.Kind != "composite" {
			c.Tree = sg.Node{Kind: "composite", Children: []sg.Node{c.Tree}}
		}
		if !hasUnlimited(c.Tree) {
			u := sg.Node{Kind: "unlimited", DurNs: int64(rapid.IntRange(1, 4).Draw(t, "udur")) * int64(time.Millisecond)}
			pos := rapid.IntRange(0, len(c.Tree.Children)).Draw(t, "upos")
			ch := append([]sg.Node{}, c.Tree.Children[:pos]...)
			ch = append(ch, u)
			ch = append(ch, c.Tree.Children[pos:]...)
			c.Tree.Children = ch
		}
		c.Script = rapid.SliceOfN(rapid.Bool(), 0, 40).Draw(t, "script")
		c.Callers = rapid.IntRange(1, callersMax).Draw(t, "callers")
		return c
	}
}

func waitUntil(tx time.Time) {
	for {
		d := time.Until(tx)
		if d <= 0 {
			return
		}
		time.Sleep(d)
	}
}

func checkRTSeq(c RTCase, o *vf.Obs) error {
	leaves := sg.Flatten(c.Tree)
	s := sg.Build(c.Tree)
	if l := s.Left(); l >= 0 {
		return fmt.Errorf("Left()=%d before start although the tree holds an unlimited part (total unknown)", l)
	}
	start := time.Now()
	s.Start(start)
	parts, finish, _, err := sg.Chain(leaves, start)
	if err != nil {
		return err
	}
	remaining := func(j, k int) int {
		r := 0
		for i := j; i < len(parts); i++ {
			if parts[i].Leaf.Unknown() {
				continue
			}
			if i == j {
				r += len(parts[i].Tokens) - k
			} else {
				r += len(parts[i].Tokens)
			}
		}
		return r
	}
	j, k := 0, 0 // model position: leaf j, token k inside it
	unknownNotFirst := false
	firstTokenLeaf := -1
	for i, p := range parts {
		if firstTokenLeaf < 0 && (p.Leaf.Unknown() || len(p.Tokens) > 0) {
			firstTokenLeaf = i
		}
		if p.Leaf.Unknown() && firstTokenLeaf >= 0 && i > firstTokenLeaf {
			unknownNotFirst = true
		}
	}
	var prev time.Time
	uTokens, fTokens, leftNeg, leftExact := 0, 0, 0, 0
	checkLeft := func() error {
		a := time.Now()
		l := s.Left()
		b := time.Now()
		mustNeg, anyU := false, false
		for i := j; i < len(parts); i++ {
			if parts[i].Leaf.Unknown() {
				anyU = true
				if b.Before(parts[i].Finish) {
					mustNeg = true
				}
			}
		}
		_ = a
		R := remaining(j, k)
		switch {
		case !anyU:
			if l != R {
				return fmt.Errorf("Left()=%d with no unknown-length part left; exactly %d tokens remain", l, R)
			}
			leftExact++
		case mustNeg:
			if l >= 0 {
				return fmt.Errorf("Left()=%d while an unlimited part (finishing at start+%v) has not finished yet: the total is unknown, must be negative (exactly %d finite tokens remain)",
					l, firstUnfinished(parts, j, b).Sub(start), R)
			}
			leftNeg++
		default:
			if l >= 0 && l != R {
				return fmt.Errorf("Left()=%d is non-negative but not exact: %d finite tokens remain", l, R)
			}
		}
		return nil
	}
	step := 0
	fails := 0
	for iter := 0; iter < 100000; iter++ {
		if step < len(c.Script) && c.Script[step] {
			if err := checkLeft(); err != nil {
				return err
			}
		}
		step++
		a := time.Now()
		tx, ok := s.Next()
		b := time.Now()
		// advance the model
		matched := false
		for !matched {
			if j >= len(parts) {
				if ok {
					return fmt.Errorf("Next handed out a token (start+%v) after all parts were exhausted", tx.Sub(start))
				}
				if !tx.Equal(finish) {
					return fmt.Errorf("exhausted schedule reports finish start+%v, the chain of parts finishes at start+%v", tx.Sub(start), finish.Sub(start))
				}
				matched = true
				fails++
				break
			}
			p := parts[j]
			if !p.Leaf.Unknown() {
				if k < len(p.Tokens) {
					if !ok {
						return fmt.Errorf("Next reported exhaustion while part %d still holds %d tokens", j, len(p.Tokens)-k)
					}
					if !tx.Equal(p.Tokens[k]) {
						return fmt.Errorf("part %d token %d at start+%v, manual chaining gives start+%v", j, k, tx.Sub(start), p.Tokens[k].Sub(start))
					}
					k++
					fTokens++
					matched = true
					break
				}
				j, k = j+1, 0
				continue
			}
			// unlimited part
			if b.Before(p.Finish) {
				if !ok {
					return fmt.Errorf("Next reported exhaustion %v before unlimited part %d finishes", p.Finish.Sub(b), j)
				}
				if tx.Before(p.Start) {
					return fmt.Errorf("unlimited part %d (starting at start+%v, the finish of the part before it) handed out a token at start+%v, before its start",
						j, p.Start.Sub(start), tx.Sub(start))
				}
				if !inUWindow(tx, a, b, p.Start) {
					return fmt.Errorf("unlimited part %d (starting at start+%v) returned start+%v: neither the time of the call [start+%v, start+%v] nor the part's start",
						j, p.Start.Sub(start), tx.Sub(start), a.Sub(start), b.Sub(start))
				}
				uTokens++
				matched = true
				break
			}
			if !a.Before(p.Finish) {
				j, k = j+1, 0
				continue
			}
			// call straddles the finish instant: either outcome
			if ok && tx.Before(p.Finish) && (inUWindow(tx, a, b, p.Start) || tx.Before(p.Start)) {
				if tx.Before(p.Start) {
					return fmt.Errorf("unlimited part %d handed out a token at start+%v, before its start (start+%v)", j, tx.Sub(start), p.Start.Sub(start))
				}
				uTokens++
				matched = true
				break
			}
			j, k = j+1, 0
		}
		if ok {
			if tx.Before(prev) {
				return fmt.Errorf("time went backwards: start+%v after start+%v", tx.Sub(start), prev.Sub(start))
			}
			prev = tx
			waitUntil(tx)
		} else if fails >= 3 {
			break
		}
	}
	if l := s.Left(); l != 0 {
		return fmt.Errorf("Left()=%d after exhaustion", l)
	}
	o.ClassIf(unknownNotFirst, "unknown_not_first")
	o.ClassIf(leftNeg > 0, "left_negative_seen")
	o.ClassIf(leftExact > 0, "left_exact_after_unknown")
	o.ClassIf(uTokens > 0, "unlimited_tokens_drawn")
	tokenLeaves := 0
	for _, p := range parts {
		if p.Leaf.Unknown() || len(p.Tokens) > 0 {
			tokenLeaves++
		}
	}
	if tokenLeaves >= 2 && unknownNotFirst {
		o.NonTrivial()
	}
	o.Key(map[string]any{"tree": c.Tree, "script": c.Script})
	o.Note("finite_tokens", fTokens)
	o.Note("unlimited_tokens", uTokens)
	return nil
}

// inUWindow: a token of an unlimited part requested during [a,b] is "now", or the
// part's start instant when the request came before the part starts.
func inUWindow(tx, a, b, pStart time.Time) bool {
	lo, hi := a, b
	if lo.Before(pStart) {
		lo = pStart
	}
	if hi.Before(pStart) {
		hi = pStart
	}
	return !tx.Before(lo) && !tx.After(hi)
}

func firstUnfinished(parts []sg.Part, j int, b time.Time) time.Time {
	for i := j; i < len(parts); i++ {
		if parts[i].Leaf.Unknown() && b.Before(parts[i].Finish) {
			return parts[i].Finish
		}
	}
	return time.Time{}
}

func TestSeqUnlimited(t *testing.T) {
	r := vf.Start(t, "C02")
	vf.Check(r, genRT(1), checkRTSeq)
}

// ---------- real time, concurrent ----------

func checkRTConc(c RTCase, o *vf.Obs) error {
	leaves := sg.Flatten(c.Tree)
	var s core.Schedule = sg.Build(c.Tree)
	start := time.Now()
	s.Start(start)
	parts, finish, total, err := sg.Chain(leaves, start)
	if err != nil {
		return err
	}
	finiteCount := map[int64]int{}
	for _, p := range parts {
		for _, tx := range p.Tokens {
			finiteCount[tx.UnixNano()]++
		}
	}
	var maxUFinish time.Time
	var uParts []sg.Part
	for _, p := range parts {
		if p.Leaf.Unknown() {
			uParts = append(uParts, p)
			if p.Finish.After(maxUFinish) {
				maxUFinish = p.Finish
			}
		}
	}
	type nres struct {
		a, b   time.Time
		la, lb int64
		tx     time.Time
		ok     bool
	}
	type lres struct {
		a, b   time.Time
		la, lb int64
		v      int
	}
	var clock int64
	nexts := make([][]nres, c.Callers)
	lefts := make([][]lres, c.Callers)
	var wg sync.WaitGroup
	var sink vf.ErrSink
	gate := make(chan struct{})
	for ci := 0; ci < c.Callers; ci++ {
		ci := ci
		vf.GoErr(&wg, &sink, func() {
			<-gate
			fails := 0
			for op := 0; fails < 2 && op < 20000; op++ {
				if len(c.Script) > 0 && c.Script[(op+ci)%len(c.Script)] {
					la := atomic.AddInt64(&clock, 1)
					a := time.Now()
					v := s.Left()
					b := time.Now()
					lb := atomic.AddInt64(&clock, 1)
					lefts[ci] = append(lefts[ci], lres{a, b, la, lb, v})
				}
				la := atomic.AddInt64(&clock, 1)
				a := time.Now()
				tx, ok := s.Next()
				b := time.Now()
				lb := atomic.AddInt64(&clock, 1)
				nexts[ci] = append(nexts[ci], nres{a, b, la, lb, tx, ok})
				if ok {
					waitUntil(tx)
				} else {
					fails++
				}
			}
		})
	}
	close(gate)
	done := make(chan struct{})
	go func() { wg.Wait(); close(done) }()
	select {
	case <-done:
	case <-time.After(60 * time.Second):
		return fmt.Errorf("callers did not finish within 60s")
	}
	if err := sink.Get(); err != nil {
		return err
	}
	gotFinite := map[int64]int{}
	var fBegins, fEnds []int64
	ambiguous := false
	uTok := 0
	for ci := range nexts {
		var prev time.Time
		for _, ev := range nexts[ci] {
			if !ev.ok {
				if !ev.tx.Equal(finish) {
					return fmt.Errorf("caller %d: exhausted schedule reports finish start+%v, chain finishes at start+%v", ci, ev.tx.Sub(start), finish.Sub(start))
				}
				continue
			}
			if ev.tx.Before(prev) {
				return fmt.Errorf("caller %d: time went backwards: start+%v after start+%v", ci, ev.tx.Sub(start), prev.Sub(start))
			}
			prev = ev.tx
			inWindow := !ev.tx.Before(ev.a) && !ev.tx.After(ev.b)
			for _, p := range uParts {
				if inUWindow(ev.tx, ev.a, ev.b, p.Start) && ev.tx.Before(p.Finish) {
					inWindow = true
				}
			}
			_, isFinite := finiteCount[ev.tx.UnixNano()]
			if isFinite && inWindow {
				ambiguous = true // a finite token instant that coincides with the call window: cannot classify
			}
			if isFinite {
				gotFinite[ev.tx.UnixNano()]++
				fBegins = append(fBegins, ev.la)
				fEnds = append(fEnds, ev.lb)
				continue
			}
			// must be an unlimited token
			okU := false
			for _, p := range uParts {
				if !ev.tx.Before(p.Start) && ev.tx.Before(p.Finish) {
					okU = true
				}
			}
			if !inWindow {
				return fmt.Errorf("caller %d: token at start+%v is neither a token of a finite part nor the current time of the call [start+%v,start+%v]",
					ci, ev.tx.Sub(start), ev.a.Sub(start), ev.b.Sub(start))
			}
			if !okU {
				return fmt.Errorf("caller %d: token at start+%v lies outside every unlimited part's [start,finish) window", ci, ev.tx.Sub(start))
			}
			uTok++
		}
	}
	if ambiguous {
		o.Class("inconclusive_ambiguous_instant")
		return nil
	}
	for ns, n := range finiteCount {
		if gotFinite[ns] != n {
			return fmt.Errorf("finite token at start+%v handed out %d times, the parts hold it %d times", time.Duration(ns-start.UnixNano()), gotFinite[ns], n)
		}
	}
	sortI64(fBegins)
	sortI64(fEnds)
	leftNeg := 0
	for ci := range lefts {
		for _, ev := range lefts[ci] {
			for _, p := range uParts {
				if ev.b.Before(p.Finish) && ev.v >= 0 {
					return fmt.Errorf("caller %d: Left()=%d at start+%v while an unlimited part finishing at start+%v has not finished: total unknown, must be negative",
						ci, ev.v, ev.b.Sub(start), p.Finish.Sub(start))
				}
			}
			if ev.v < 0 {
				leftNeg++
				continue
			}
			lo := total - lessCount(fBegins, ev.lb)
			hi := total - lessCount(fEnds, ev.la)
			if ev.v < lo || ev.v > hi {
				return fmt.Errorf("caller %d: Left()=%d is non-negative but between %d and %d finite tokens remained", ci, ev.v, lo, hi)
			}
		}
	}
	o.ClassIf(leftNeg > 0, "left_negative_seen")
	o.ClassIf(uTok > 0, "unlimited_tokens_drawn")
	o.ClassIf(c.Callers >= 4, "callers_ge_4")
	if c.Callers >= 2 && total > 0 {
		o.NonTrivial()
	}
	o.Key(map[string]any{"tree": c.Tree, "script": c.Script, "callers": c.Callers})
	return nil
}

func sortI64(a []int64) {
	for i := 1; i < len(a); i++ {
		for j := i; j > 0 && a[j-1] > a[j]; j-- {
			a[j-1], a[j] = a[j], a[j-1]
		}
	}
}

func lessCount(a []int64, x int64) int {
	n := 0
	for _, v := range a {
		if v < x {
			n++
		}
	}
	return n
}

func TestConcUnlimited(t *testing.T) {
	r := vf.Start(t, "C02")
	vf.Check(r, genRT(6), checkRTConc)
}
