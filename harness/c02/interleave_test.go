//go:build verif

package c02

import (
	"fmt"
	"runtime/debug"
	"sort"
	"sync"
	"testing"
	"time"

	sg "verif/harness/internal/schedgen"
	"verif/harness/internal/vf"

	"github.com/yandex/pandora/core/schedule"
	"pgregory.net/rapid"
)

// ---------- deterministic interleavings at the composite's yield points ----------
//
// The harness is the scheduler: every caller goroutine parks at each yield point
// (hook core/schedule/verif_yield_on.go: entry of Next/Left and the read->write
// lock upgrade, all lock-free points) and between operations; exactly one
// goroutine runs at a time and the drawn choice list decides which one proceeds.
// The start instant lies decades in the past, so an unlimited part is over the moment
// it is started: it contributes no tokens but keeps the total unknown until the
// composite has moved past it - which makes the Left() lock-upgrade path reachable
// without real time.
// Trees are flat here (children are elementary parts): a nested composite's yield
// point would be reached while the outer composite's lock is held, and a parked
// goroutine must never hold a lock.

type ILCase struct {
	Tree    sg.Node  `json:"tree"`
	Scripts [][]bool `json:"scripts"` // per caller: true = Left, false = Next
	Choices []uint8  `json:"choices"`
	StartNs int64    `json:"start_unix_ns"`
}

var ilOpts = sg.Opts{MaxDepth: 1, Flat: true, Unlimited: true, MaxChildren: 6, MaxLeafTok: 2, MinDur: time.Millisecond, MaxDur: 3 * time.Second}

func genIL(t *rapid.T) ILCase {
	c := ILCase{}
	c.Tree = sg.GenTree(t, ilOpts, 0)
	if c.Tree.Kind != "composite" {
		c.Tree = sg.Node{Kind: "composite", Children: []sg.Node{c.Tree, sg.GenLeaf(t, ilOpts)}}
	}
	n := rapid.IntRange(2, 3).Draw(t, "callers")
	for i := 0; i < n; i++ {
		c.Scripts = append(c.Scripts, rapid.SliceOfN(rapid.Bool(), 1, 12).Draw(t, "script"))
	}
	c.Choices = rapid.SliceOfN(rapid.Uint8(), 0, 120).Draw(t, "choices")
	c.StartNs = rapid.Int64Range(0, 1_000_000_000_000_000_000).Draw(t, "start")
	return c
}

var ilMu sync.Mutex // one interleaving case at a time per process (the hook is global)

type ilEvent struct {
	caller int
	point  string
	done   bool

	panicked string
}

func checkIL(c ILCase, o *vf.Obs) error {
	ilMu.Lock()
	defer ilMu.Unlock()
	leaves := sg.Flatten(c.Tree)
	start := time.Unix(0, c.StartNs)
	parts, finish, total, err := sg.Chain(leaves, start)
	if err != nil {
		return err
	}
	want := flatTokens(parts)
	s := sg.Build(c.Tree)
	s.Start(start)

	n := len(c.Scripts)
	events := make(chan ilEvent)
	resume := make([]chan struct{}, n)
	goids := sync.Map{}
	for i := range resume {
		resume[i] = make(chan struct{})
	}
	schedule.VerifYield = func(point string) {
		v, ok := goids.Load(vf.GoID())
		if !ok {
			return // not one of our callers (reference drains etc.)
		}
		ci := v.(int)
		events <- ilEvent{caller: ci, point: point}
		<-resume[ci]
	}
	defer func() { schedule.VerifYield = nil }()

	var clock int64
	nexts := make([][]nextEv, n)
	lefts := make([][]leftEv, n)
	for ci := 0; ci < n; ci++ {
		go func(ci int) {
			defer func() {
				if p := recover(); p != nil {
					goids.Delete(vf.GoID())
					events <- ilEvent{caller: ci, done: true, panicked: fmt.Sprintf("%v\n%s", p, debug.Stack())}
				}
			}()
			goids.Store(vf.GoID(), ci)
			events <- ilEvent{caller: ci, point: "begin"}
			<-resume[ci]
			for _, isLeft := range c.Scripts[ci] {
				clock++ // only one goroutine runs at a time: plain increments are ordered by the channel handoffs
				b := clock
				if isLeft {
					v := s.Left()
					clock++
					lefts[ci] = append(lefts[ci], leftEv{b, clock, v, ci})
				} else {
					tx, ok := s.Next()
					clock++
					nexts[ci] = append(nexts[ci], nextEv{b, clock, tx, ok, ci})
				}
			}
			goids.Delete(vf.GoID())
			events <- ilEvent{caller: ci, done: true}
		}(ci)
	}
	parked := map[int]string{}
	finished := 0
	// collect the initial "begin" events (goroutines start concurrently, but each blocks at once)
	for len(parked) < n {
		ev := <-events
		parked[ev.caller] = ev.point
	}
	choice := 0
	var trace []string
	yieldsSeen := map[string]int{}
	steps := 0
	for finished < n {
		ids := make([]int, 0, len(parked))
		for id := range parked {
			ids = append(ids, id)
		}
		sort.Ints(ids)
		pick := 0
		if choice < len(c.Choices) {
			pick = int(c.Choices[choice]) % len(ids)
		}
		choice++
		id := ids[pick]
		delete(parked, id)
		resume[id] <- struct{}{}
		var ev ilEvent
		select {
		case ev = <-events:
		case <-time.After(30 * time.Second):
			return fmt.Errorf("caller %d did not reach a yield point or finish within 30s (blocked on the schedule's lock?) trace=%v", id, trace)
		}
		if ev.caller != id {
			return fmt.Errorf("harness: event from caller %d while %d was running", ev.caller, id)
		}
		steps++
		if ev.panicked != "" {
			return fmt.Errorf("caller %d panicked inside the schedule: %s (trace=%v)", id, ev.panicked, trace)
		}
		if ev.done {
			finished++
		} else {
			parked[id] = ev.point
			yieldsSeen[ev.point]++
			if len(trace) < 400 {
				trace = append(trace, fmt.Sprintf("%d@%s", id, ev.point))
			}
		}
	}
	o.Note("trace", trace)
	// ---- oracle (same as the free-running concurrent check) ----
	var succ []nextEv
	for ci := range nexts {
		var prev time.Time
		seenFail := false
		for _, ev := range nexts[ci] {
			if ev.ok {
				if seenFail {
					return fmt.Errorf("caller %d got a token after it had been told the schedule is exhausted", ci)
				}
				if ev.tx.Before(prev) {
					return fmt.Errorf("caller %d: time went backwards (start+%v after start+%v)", ci, ev.tx.Sub(start), prev.Sub(start))
				}
				prev = ev.tx
				succ = append(succ, ev)
			} else {
				seenFail = true
				if !ev.tx.Equal(finish) {
					return fmt.Errorf("caller %d: exhausted schedule reports finish start+%v, the chain of parts finishes at start+%v", ci, ev.tx.Sub(start), finish.Sub(start))
				}
			}
		}
	}
	// tokens handed out must be a prefix-multiset of the model (scripts may stop early)
	sort.Slice(succ, func(i, j int) bool { return succ[i].tx.Before(succ[j].tx) })
	if len(succ) > total {
		return fmt.Errorf("%d tokens handed out, the parts hold %d", len(succ), total)
	}
	// every handed-out instant must be a model token, with multiplicity
	avail := map[int64]int{}
	for _, w := range want {
		avail[w.UnixNano()]++
	}
	for _, ev := range succ {
		k := ev.tx.UnixNano()
		if avail[k] == 0 {
			return fmt.Errorf("token at start+%v handed out more often than the parts hold it (or not a token of any part)", ev.tx.Sub(start))
		}
		avail[k]--
	}
	// tokens are handed out in model order globally (atomic index per part + ordered parts):
	// the i-th successful draw by logical end-time may not skip ahead of an undrawn earlier token by more than concurrency allows;
	// we only require: set of drawn tokens == the first len(succ) model tokens as a multiset.
	sw := append([]time.Time(nil), want...)
	sort.Slice(sw, func(i, j int) bool { return sw[i].Before(sw[j]) })
	for i, ev := range succ {
		if !ev.tx.Equal(sw[i]) {
			return fmt.Errorf("handed-out tokens are not the first %d tokens of the schedule: sorted index %d is start+%v, expected start+%v (a token was skipped)",
				len(succ), i, ev.tx.Sub(start), sw[i].Sub(start))
		}
	}
	begins := make([]int64, len(succ))
	ends := make([]int64, len(succ))
	for i, ev := range succ {
		begins[i], ends[i] = ev.begin, ev.end
	}
	sort.Slice(begins, func(i, j int) bool { return begins[i] < begins[j] })
	sort.Slice(ends, func(i, j int) bool { return ends[i] < ends[j] })
	countLess := func(a []int64, x int64) int { return sort.Search(len(a), func(i int) bool { return a[i] >= x }) }
	nLeft, negLeft := 0, 0
	for ci := range lefts {
		for _, ev := range lefts[ci] {
			nLeft++
			lo := total - countLess(begins, ev.end)
			hi := total - countLess(ends, ev.begin)
			if ev.val < 0 {
				// negative only while an unlimited part may not have been passed yet: passing part u needs
				// a token beyond the prefix(u) tokens that precede it to have been handed out.
				completed := countLess(ends, ev.begin)
				allowed := false
				pre := 0
				for _, p := range parts {
					if p.Leaf.Unknown() && completed <= pre {
						allowed = true
					}
					pre += len(p.Tokens)
				}
				if !allowed {
					return fmt.Errorf("caller %d: Left()=%d (unknown) although %d tokens had been handed out and every unlimited part lies before them", ci, ev.val, completed)
				}
				negLeft++
				continue
			}
			if ev.val < lo || ev.val > hi {
				return fmt.Errorf("caller %d: Left()=%d while between %d and %d tokens remained (total %d)", ci, ev.val, lo, hi, total)
			}
		}
	}
	o.ClassIf(yieldsSeen["next.upgrade"] > 0, "next_upgrade_point")
	o.ClassIf(yieldsSeen["next.upgrade"] >= 2, "next_upgrade_contended")
	o.ClassIf(yieldsSeen["left.upgrade"] > 0, "left_upgrade_point")
	o.ClassIf(nLeft > 0, "left_calls")
	o.ClassIf(negLeft > 0, "left_negative_seen")
	o.ClassIf(len(succ) == total && total > 0, "drained")
	if (yieldsSeen["next.upgrade"] > 0 || yieldsSeen["left.upgrade"] > 0) && len(succ) >= 2 {
		o.NonTrivial()
	}
	return nil
}

func TestInterleavings(t *testing.T) {
	r := vf.Start(t, "C02")
	vf.Check(r, genIL, checkIL)
}
