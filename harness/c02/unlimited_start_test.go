package c02

// Left() of a time-bounded unlimited part "is negative only while the total is genuinely unknown" and "zero only if no
// token remains", also at the very moment the part is started by the first Next (the engine never calls Start, and
// with a shared profile one instance draws the first token while another one asks Left() through its waiter).
//
// Each trial: a fresh unlimited(d) schedule (bare, or as the only / first part of a composite), 2-8 goroutines released
// together, some drawing tokens, some polling Left. The part cannot finish before release+d, so every Left() answer
// that came back before that instant must be negative.

import (
	"fmt"
	"sync"
	"testing"
	"time"

	"verif/harness/internal/vf"

	"github.com/yandex/pandora/core"
	"github.com/yandex/pandora/core/schedule"
	"pgregory.net/rapid"
)

type UStartCase struct {
	Shape    string `json:"shape"` // bare | composite_single | composite_then_once
	DurMs    int    `json:"duration_ms"`
	Drawers  int    `json:"next_callers"`
	Pollers  int    `json:"left_callers"`
	Explicit bool   `json:"explicit_start"` // Start(now) from one goroutine instead of the implicit start by Next
	Trials   int    `json:"trials"`
}

func genUStart(t *rapid.T) UStartCase {
	return UStartCase{
		Shape:    rapid.SampledFrom([]string{"bare", "bare", "composite_single", "composite_then_once"}).Draw(t, "shape"),
		DurMs:    rapid.SampledFrom([]int{20, 50, 200}).Draw(t, "durMs"),
		Drawers:  rapid.IntRange(1, 4).Draw(t, "drawers"),
		Pollers:  rapid.IntRange(1, 4).Draw(t, "pollers"),
		Explicit: rapid.IntRange(0, 3).Draw(t, "explicit") == 0,
		Trials:   200,
	}
}

func checkUStart(c UStartCase, o *vf.Obs) error {
	d := time.Duration(c.DurMs) * time.Millisecond
	for trial := 0; trial < c.Trials; trial++ {
		var s core.Schedule = schedule.NewUnlimited(d)
		switch c.Shape {
		case "composite_single":
			s = schedule.NewComposite(s)
		case "composite_then_once":
			s = schedule.NewComposite(s, schedule.NewOnce(3))
		}
		gate := make(chan struct{})
		started := make(chan struct{}) // explicit mode: Start has returned (Start may not race with Next, only with Left)
		if !c.Explicit {
			close(started)
		}
		var wg sync.WaitGroup
		var sink vf.ErrSink
		var release time.Time
		for k := 0; k < c.Pollers; k++ {
			vf.GoErr(&wg, &sink, func() {
				<-gate
				for i := 0; i < 40; i++ {
					l := s.Left()
					at := time.Now()
					if l >= 0 && at.Before(release.Add(d)) {
						sink.Set(fmt.Errorf("trial %d: Left() = %d only %v after the callers were released, while the %v unlimited part cannot have finished (nobody can know how many tokens it still holds: Left must be negative)",
							trial, l, at.Sub(release), d))
						return
					}
				}
			})
		}
		for k := 0; k < c.Drawers; k++ {
			k := k
			vf.GoErr(&wg, &sink, func() {
				<-gate
				if c.Explicit && k == 0 {
					s.Start(time.Now())
					close(started)
				}
				<-started
				for i := 0; i < 10; i++ {
					if _, ok := s.Next(); !ok {
						if at := time.Now(); at.Before(release.Add(d)) {
							sink.Set(fmt.Errorf("trial %d: Next() reported exhaustion %v after release, before the %v unlimited part can have ended", trial, at.Sub(release), d))
						}
						return
					}
				}
			})
		}
		release = time.Now()
		close(gate)
		wg.Wait()
		if err := sink.Get(); err != nil {
			return err
		}
	}
	o.Class("shape_" + c.Shape)
	o.ClassIf(c.Explicit, "explicit_start")
	o.NonTrivial()
	return nil
}

func TestUnlimitedStartRace(t *testing.T) {
	r := vf.Start(t, "C02")
	vf.Check(r, genUStart, checkUStart)
}
