// C14 — preload is behaviour-preserving; chosencases selects exactly the listed tags.
//
// Oracle: differential (same file and settings, preload off vs on) plus the
// absolute model: entries with a listed tag, in file order, cyclic; limit counts
// delivered entries, passes counts file passes.
package c14

import (
	"fmt"
	"net/textproto"
	"os"
	"path/filepath"
	"testing"
	"time"

	ag "verif/harness/internal/ammogen"
	"verif/harness/internal/pand"
	"verif/harness/internal/provrun"
	"verif/harness/internal/vf"

	"github.com/yandex/pandora/core"
	"pgregory.net/rapid"
)

const findingEmptyMatch = "chosencases-empty-match-preload-differs"

type Case struct {
	File   ag.File  `json:"file"`
	Limit  int      `json:"limit"`
	Passes int      `json:"passes"`
	Chosen []string `json:"chosencases"`
	// ChosenEmptyList: the config carries the key with an explicitly empty list (`chosencases: []`, what a templated
	// config renders when no tag was picked). No tag is listed to restrict the test to: as everywhere in pandora
	// (confutil.IsChosenCase: "If no chosenCases provided - returns true") that is "no filter", in both modes.
	ChosenEmptyList bool `json:"chosencases_given_as_empty_list,omitempty"`
	// OsFs: the ammo file is a real file in a temporary directory read through afero.NewOsFs(), the file system the pandora
	// binary hands to the providers (cli: Import(afero.NewOsFs())), instead of the in-memory one (provrun.BuildHTTPOnOsFs):
	// an *os.File does not forgive what afero's mem.File forgives (a second Close, a read after Close), and how a run ENDS
	// is half of this property
	OsFs bool `json:"os_fs,omitempty"`
	// Hold: the consumer acquires this many ammo before it reads any of them (what that many instances do)
	Hold int `json:"held_at_once"`
	// DateMW: the provider is configured with `middlewares: [{type: header/date, ...}]` (docs/eng/providers.md,
	// "HTTP Ammo middlewares": it sets the date header of the request just before execution)
	DateMW *DateMW `json:"date_middleware,omitempty"`
	// MaxAmmoSize: the provider option `maxammosize` ("Maximum number of byte in jsonline ammo. Default is
	// bufio.MaxScanTokenSize"), 0 = not set. Only TestLongLines sets it.
	MaxAmmoSize int `json:"maxammosize,omitempty"`
}

type DateMW struct {
	HeaderName string `json:"header_name,omitempty"` // "" = the default, Date
	Location   string `json:"location,omitempty"`
}

// header is the canonical name of the header the middleware sets.
func (m *DateMW) header() string {
	if m.HeaderName == "" {
		return "Date"
	}
	return textproto.CanonicalMIMEHeaderKey(m.HeaderName)
}

// names no generated ammo defines itself (ammogen's header pool, X-Trailing), so that what the request
// carries under them is the middleware's doing alone
var dateHeaderNames = []string{"", "", "Date", "X-Sent-At", "CreatedDate", "x-sent-at"}

// the documented example uses `location: EST`; drawn only where the zone database has it
var estAvailable = func() bool { _, err := time.LoadLocation("EST"); return err == nil }()

var tagPool = []string{"t1", "t2", "t3", "a b", "x"}

func genCase(t *rapid.T) Case {
	format := rapid.SampledFrom([]string{"uri", "uripost", "raw", "jsonline"}).Draw(t, "format")
	c := Case{File: ag.Gen(t, format, ag.GenOpts{MinEntries: 1, MaxEntries: 7, Tags: tagPool, AllowBig: true})}
	switch rapid.IntRange(0, 3).Draw(t, "bounds") {
	case 0:
		c.Limit = rapid.IntRange(1, 12).Draw(t, "limit")
	case 1:
		c.Passes = rapid.IntRange(1, 3).Draw(t, "passes")
	case 2:
		c.Limit = rapid.IntRange(1, 12).Draw(t, "limit")
		c.Passes = rapid.IntRange(1, 3).Draw(t, "passes")
	}
	c.Hold = rapid.SampledFrom([]int{1, 1, 2, 3, 4}).Draw(t, "hold")
	c.OsFs = rapid.IntRange(0, 3).Draw(t, "osFs") == 0 && !(format == "uri" && c.File.Layout.Inline)
	switch rapid.IntRange(0, 6).Draw(t, "chosenKind") {
	case 0:
		// none configured
	case 1:
		c.Chosen = []string{"no-such-tag"}
	case 6:
		c.ChosenEmptyList = true // the key is there, the list is empty
	default:
		n := rapid.IntRange(1, 3).Draw(t, "chosenN")
		seen := map[string]bool{}
		// mostly tags that occur in the file (so that a proper subset is selected), sometimes foreign ones
		cands := append([]string{}, tagPool...)
		for _, e := range c.File.Entries() {
			cands = append(cands, e.Tag, e.Tag)
		}
		for i := 0; i < n; i++ {
			tg := rapid.SampledFrom(cands).Draw(t, "chosen")
			if !seen[tg] {
				seen[tg] = true
				c.Chosen = append(c.Chosen, tg)
			}
		}
	}
	if rapid.IntRange(0, 2).Draw(t, "dateMW") == 0 {
		c.DateMW = &DateMW{
			HeaderName: rapid.SampledFrom(dateHeaderNames).Draw(t, "dateHeader"),
			Location:   rapid.SampledFrom([]string{"", "UTC", "EST"}).Draw(t, "dateLocation"),
		}
		if c.DateMW.Location == "EST" && !estAvailable {
			c.DateMW.Location = "UTC"
		}
	}
	return c
}

// chosenDesc renders the chosencases setting of the case for messages.
func chosenDesc(c Case) string {
	switch {
	case len(c.Chosen) > 0:
		return fmt.Sprintf("%q", c.Chosen)
	case c.ChosenEmptyList:
		return "[] (the key is given with an empty list)"
	}
	return "(absent)"
}

func selected(c Case) []ag.Want {
	all := c.File.Expected()
	if len(c.Chosen) == 0 {
		return all
	}
	var out []ag.Want
	for _, w := range all {
		for _, tg := range c.Chosen {
			if w.Tag == tg {
				out = append(out, w)
				break
			}
		}
	}
	return out
}

type outcome struct {
	items   []ag.Got
	runErr  error
	endSeen bool
	hung    string
}

func run(c Case, preload bool, take int) (outcome, error) {
	conf := map[string]any{"type": ag.ProviderType(c.File.Format)}
	if c.File.Format == "uri" && c.File.Layout.Inline {
		conf["uris"] = c.File.Lines()
	} else if c.OsFs {
		dir, err := os.MkdirTemp("", "verif-c14-osfs-")
		if err != nil {
			return outcome{}, fmt.Errorf("harness: %v", err)
		}
		defer os.RemoveAll(dir)
		name := filepath.Join(dir, "ammo.txt")
		if err := os.WriteFile(name, c.File.Render(), 0o644); err != nil {
			return outcome{}, fmt.Errorf("harness: %v", err)
		}
		conf["file"] = name
	} else {
		name := pand.WriteFile("c14", ".ammo", c.File.Render())
		defer pand.Remove(name)
		conf["file"] = name
	}
	if c.Limit > 0 {
		conf["limit"] = c.Limit
	}
	if c.Passes > 0 {
		conf["passes"] = c.Passes
	}
	if len(c.Chosen) > 0 {
		ch := make([]any, len(c.Chosen))
		for i, s := range c.Chosen {
			ch[i] = s
		}
		conf["chosencases"] = ch
	} else if c.ChosenEmptyList {
		conf["chosencases"] = []any{}
	}
	if preload {
		conf["preload"] = true
	}
	if c.MaxAmmoSize > 0 {
		conf["maxammosize"] = c.MaxAmmoSize
	}
	if c.DateMW != nil {
		mw := map[string]any{"type": "header/date"}
		if c.DateMW.HeaderName != "" {
			mw["headerName"] = c.DateMW.HeaderName
		}
		if c.DateMW.Location != "" {
			mw["location"] = c.DateMW.Location
		}
		conf["middlewares"] = []any{mw}
	}
	build := provrun.Build
	if c.OsFs && conf["file"] != nil {
		build = provrun.BuildHTTPOnOsFs
	}
	p, err := build(conf)
	if err != nil {
		return outcome{}, fmt.Errorf("valid provider config rejected (preload=%v): %v", preload, err)
	}
	var out outcome
	res, err := provrun.DrainHeld(p, take, c.Hold, 5*time.Second, func(a core.Ammo) error {
		g, err := ag.Observe(a)
		if err != nil {
			return err
		}
		out.items = append(out.items, g)
		// before an instance releases an ammo its gun has written into the request (the built-in gun points req.URL at
		// its target): with preload the same entry is delivered again on the next pass and must not remember that
		ag.ShootLikeGun(a, len(out.items)%2 == 0, "127.0.0.9:8080")
		return nil
	})
	out.runErr, out.endSeen, out.hung = res.RunErr, res.EndSeen, res.Hung
	return out, err
}

var extraOK = map[string]bool{"Content-Length": true}

// checkDate: the middleware touches nothing but its header, and every delivered request - first pass or a
// later one, streamed or preloaded - carries exactly one value of it.
func checkDate(m *DateMW, g ag.Got) error {
	vals := g.Headers[m.header()]
	if len(vals) != 1 || vals[0] == "" {
		return fmt.Errorf("the header/date middleware (headerName %q) is configured once, the delivered request carries %d values of %s: %q",
			m.HeaderName, len(vals), m.header(), vals)
	}
	return nil
}

func check(c Case, o *vf.Obs) error { return checkWith(c, o, nil) }

func checkWith(c Case, o *vf.Obs, r *vf.Run) error {
	sel := selected(c)
	E := len(c.File.Expected())
	emptyMatch := len(c.Chosen) > 0 && len(sel) == 0
	// expected number of delivered items
	X := -1
	if c.Passes > 0 {
		X = c.Passes * len(sel)
	}
	if c.Limit > 0 && (X < 0 || c.Limit < X) {
		X = c.Limit
	}
	if len(sel) == 0 {
		X = 0
	}
	take := X + 3
	if X < 0 {
		take = 3*E + 2
	}
	if emptyMatch && c.Passes == 0 {
		// nothing can ever be delivered and nothing bounds the file passes: only the cancel ends it
		take = 1
	}
	var outs [2]outcome
	for i, preload := range []bool{false, true} {
		var err error
		outs[i], err = run(c, preload, take)
		if err != nil {
			return fmt.Errorf("preload=%v: %v\n--- file ---\n%q", preload, err, c.File.Render())
		}
	}
	want := X
	if X < 0 {
		want = take
	}
	for i, preload := range []bool{false, true} {
		out := outs[i]
		if emptyMatch {
			continue // judged below
		}
		if len(out.items) != want {
			return fmt.Errorf("preload=%v limit=%d passes=%d chosencases=%s: %d ammo delivered, expected %d (%d of the file's %d entries carry a listed tag; limit counts delivered entries, passes counts file passes); Run error: %v\n--- file ---\n%q",
				preload, c.Limit, c.Passes, chosenDesc(c), len(out.items), want, len(sel), E, out.runErr, c.File.Render())
		}
		okExtra := extraOK
		if c.DateMW != nil {
			okExtra = map[string]bool{"Content-Length": true, c.DateMW.header(): true}
		}
		for k, g := range out.items {
			if err := ag.Compare(sel[k%len(sel)], g, okExtra); err != nil {
				return fmt.Errorf("preload=%v chosencases=%s: item %d: %v\n--- file ---\n%q", preload, chosenDesc(c), k, err, c.File.Render())
			}
			if c.DateMW != nil {
				if err := checkDate(c.DateMW, g); err != nil {
					return fmt.Errorf("preload=%v limit=%d passes=%d chosencases=%s: item %d (delivery %d of entry %d of the %d selected): %v\n--- file ---\n%q",
						preload, c.Limit, c.Passes, chosenDesc(c), k, k/len(sel)+1, k%len(sel), len(sel), err, c.File.Render())
				}
			}
		}
		if X >= 0 {
			if out.hung != "" {
				return fmt.Errorf("preload=%v limit=%d passes=%d chosencases=%s: %s", preload, c.Limit, c.Passes, chosenDesc(c), out.hung)
			}
			if out.runErr != nil {
				return fmt.Errorf("preload=%v limit=%d passes=%d chosencases=%s: Run ended with %q after its %d ammo, expected nil", preload, c.Limit, c.Passes, chosenDesc(c), out.runErr, X)
			}
			if !out.endSeen {
				return fmt.Errorf("preload=%v: end of ammo not observed", preload)
			}
		}
	}
	if emptyMatch {
		// nothing may be delivered either way, and both modes must end the same way
		for i, preload := range []bool{false, true} {
			if n := len(outs[i].items); n != 0 {
				return fmt.Errorf("preload=%v chosencases=%s matches no entry but %d ammo were delivered", preload, chosenDesc(c), n)
			}
		}
		a, b := outs[0], outs[1]
		same := (a.runErr == nil) == (b.runErr == nil) && (a.hung == "") == (b.hung == "")
		if c.Passes == 0 {
			same = (a.hung == "") == (b.hung == "") // cancelled from outside: only "returns promptly" is comparable
			if a.runErr != nil && a.runErr.Error() != "context canceled" || b.runErr != nil && b.runErr.Error() != "context canceled" {
				same = (a.runErr == nil) == (b.runErr == nil)
			}
		}
		if !same && r != nil && r.IsKnown(findingEmptyMatch) {
			// the listed finding: only this symptom is excused, everything above was still checked
			r.Excluded(findingEmptyMatch)
			same = true
		}
		if !same {
			return fmt.Errorf("%s: chosencases=%s matches no entry (passes=%d limit=%d): without preload the provider ends with error=%v hung=%q, with preload error=%v hung=%q — the run does not end the same way",
				findingEmptyMatch, chosenDesc(c), c.Passes, c.Limit, a.runErr, a.hung, b.runErr, b.hung)
		}
	}
	proper := len(c.Chosen) > 0 && len(sel) > 0 && len(sel) < E
	o.Class("format_" + c.File.Format)
	o.ClassIf(c.Hold >= 2, "several_ammo_held_at_once")
	o.ClassIf(c.Hold >= 2 && len(sel) > 0 && len(sel) < c.Hold && want > len(sel), "one_entry_held_twice")
	o.ClassIf(c.File.Big, "file_larger_than_reader_buffer")
	o.ClassIf(c.OsFs, "file_on_os_file_system")
	o.ClassIf(c.OsFs && X >= 0, "file_on_os_file_system_bounded_run_must_end_nil")
	o.ClassIf(len(c.Chosen) > 0 && c.Limit > 0, "filter_x_limit")
	o.ClassIf(len(c.Chosen) > 0 && c.Passes > 0, "filter_x_passes")
	o.ClassIf(emptyMatch, "empty_match")
	o.ClassIf(proper, "proper_subset")
	o.ClassIf(len(c.Chosen) == 0, "no_filter")
	// `chosencases: []` decoded through the config path; with a limit that ends the run before the passes would
	o.ClassIf(c.ChosenEmptyList, "explicit_empty_chosencases")
	o.ClassIf(c.ChosenEmptyList && c.Limit > 0, "explicit_empty_chosencases_x_limit")
	o.ClassIf(c.ChosenEmptyList && X >= 0 && X == c.Limit && (c.Passes == 0 || c.Limit < c.Passes*E), "explicit_empty_chosencases_limit_cuts_run")
	o.ClassIf(c.ChosenEmptyList && c.Passes > 0, "explicit_empty_chosencases_x_passes")
	o.ClassIf(X >= 0 && X == c.Limit && proper, "limit_hit_with_filter")
	if c.DateMW != nil && !emptyMatch {
		redelivered := len(sel) > 0 && want > len(sel)
		withHeaders := false // an entry that is delivered again and has headers of its own (directives / "headers")
		if redelivered {
			for k := 0; k < want-len(sel) && k < len(sel); k++ {
				withHeaders = withHeaders || len(sel[k].Headers) > 0
			}
		}
		o.Class("date_middleware")
		o.ClassIf(redelivered, "date_middleware_entry_redelivered")
		o.ClassIf(withHeaders, "date_middleware_redelivered_entry_has_headers")
		o.ClassIf(c.DateMW.HeaderName != "", "date_middleware_custom_header")
	}
	if proper || X >= 0 {
		o.NonTrivial()
	}
	return nil
}

func TestPreloadEquivalence(t *testing.T) {
	pand.Init()
	r := vf.Start(t, "C14")
	known := r.IsKnown(findingEmptyMatch)
	vf.Check(r, func(t *rapid.T) Case {
		c := genCase(t)
		if known && len(c.Chosen) > 0 && len(selected(c)) == 0 && c.Passes == 0 {
			// steer around the listed finding where it costs a full hang deadline per case (nothing bounds
			// the file passes): keep the file, drop the non-matching filter. Bounded cases still run; only
			// the listed symptom (ending differently) is excused there.
			r.Excluded(findingEmptyMatch)
			c.Chosen = nil
		}
		return c
	}, func(c Case, o *vf.Obs) error { return checkWith(c, o, r) })
}

// TestKnownWitness re-runs the recorded witness of the listed finding; it is not a
// violation while the finding is listed, and reports it as still present.
func TestKnownWitness(t *testing.T) {
	pand.Init()
	r := vf.Start(t, "C14")
	if !r.IsKnown(findingEmptyMatch) {
		t.Skip("finding not listed")
	}
	e1 := ag.Entry{Method: "GET", URI: "/a", Tag: "t1"}
	e2 := ag.Entry{Method: "GET", URI: "/b", Tag: "t2"}
	c := Case{File: ag.File{Format: "uri", Items: []ag.Item{{Entry: &e1}, {Entry: &e2}}}, Passes: 1, Chosen: []string{"no-such-tag"}}
	o := &vf.Obs{}
	err := check(c, o)
	r.Record(c, o, nil)
	if err != nil {
		r.KnownHit(findingEmptyMatch)
	}
}
