package c14

import (
	"testing"

	"verif/harness/internal/pand"
	"verif/harness/internal/vf"

	"pgregory.net/rapid"
)

// FuzzModel: Go's coverage-guided fuzzer drives the generator and oracle of TestPreloadEquivalence (rapid.MakeFuzz),
// keeping and mutating the files / settings that reach new decoder and provider code. Thorough tier only.
func FuzzModel(f *testing.F) {
	pand.Init()
	r := vf.Detached("C14")
	known := r.IsKnown(findingEmptyMatch)
	f.Add([]byte{})
	f.Add([]byte{1, 2, 3, 4, 5, 6, 7, 8, 9, 10, 11, 12, 13, 14, 15, 16})
	f.Fuzz(rapid.MakeFuzz(func(t *rapid.T) {
		c := genCase(t)
		if known && len(c.Chosen) > 0 && len(selected(c)) == 0 && c.Passes == 0 {
			c.Chosen = nil
		}
		if err := vf.Guard(func() error { return checkWith(c, &vf.Obs{}, r) }); err != nil {
			t.Fatalf("%v", err)
		}
	}))
}

// FuzzNoEntries: the same for ammo files without entries (generator and oracle of TestNoEntries).
func FuzzNoEntries(f *testing.F) {
	pand.Init()
	r := vf.Detached("C14")
	f.Add([]byte{})
	f.Add([]byte{1, 2, 3, 4, 5, 6, 7, 8, 9, 10, 11, 12, 13, 14, 15, 16})
	f.Fuzz(rapid.MakeFuzz(func(t *rapid.T) {
		c := genNoEntries(t)
		if err := vf.Guard(func() error { return checkNoEntries(c, &vf.Obs{}, r) }); err != nil {
			t.Fatalf("%v", err)
		}
	}))
}

// FuzzLongLines: the same for ammo files with long lines (generator and oracle of TestLongLines).
func FuzzLongLines(f *testing.F) {
	pand.Init()
	r := vf.Detached("C14")
	f.Add([]byte{})
	f.Add([]byte{1, 2, 3, 4, 5, 6, 7, 8, 9, 10, 11, 12, 13, 14, 15, 16})
	f.Fuzz(rapid.MakeFuzz(func(t *rapid.T) {
		c := genLongCase(t)
		if err := vf.Guard(func() error { return checkLong(c, &vf.Obs{}, r) }); err != nil {
			t.Fatalf("%v", err)
		}
	}))
}
