package c14

// Ammo files WITHOUT any entry (empty, blank lines only, only `[Header: value]` directives of the uri / uripost
// formats, an empty JSON array): "for every ammo file and every limit, passes and chosencases setting ... the
// sequence of ammo delivered with preload enabled is identical to the sequence delivered without it, and the run
// ends the same way". Nothing can be delivered from such a file, so what is left to compare is how the run ends.
//
// This is NOT the listed finding chosencases-empty-match-preload-differs (a file that HAS entries, none of which
// carries a listed tag): a file without entries is judged strictly, whatever chosencases says.

import (
	"fmt"
	"strings"
	"testing"
	"time"

	ag "verif/harness/internal/ammogen"
	"verif/harness/internal/pand"
	"verif/harness/internal/provrun"
	"verif/harness/internal/vf"

	"github.com/yandex/pandora/core"
	"pgregory.net/rapid"
)

// findingNoEntriesOnePass: see TestKnownWitnessNoEntries.
const findingNoEntriesOnePass = "no-entries-passes1-preload-differs"

type NoEntriesCase struct {
	Format string `json:"format"` // uri | uripost | raw | jsonline
	// Shape: empty | blank_lines | directives_only | json_empty_array
	Shape   string `json:"shape"`
	Content string `json:"content"` // the bytes of the file
	// Inline: uri only - the lines are given through the `uris` option instead of a file
	Inline          bool     `json:"inline_uris,omitempty"`
	Limit           int      `json:"limit"`
	Passes          int      `json:"passes"`
	Chosen          []string `json:"chosencases"`
	ChosenEmptyList bool     `json:"chosencases_given_as_empty_list,omitempty"`
	Hold            int      `json:"held_at_once"`
}

var noEntriesDirectives = []string{"[Host: example.com]", "[X-Test: 1]", "[Accept: */*]", "[User-Agent: verif]", "[Cookie: a=b; c=d]", "[X-Empty:]"}

func genNoEntries(t *rapid.T) NoEntriesCase {
	c := NoEntriesCase{Format: rapid.SampledFrom([]string{"uri", "uripost", "raw", "jsonline"}).Draw(t, "format")}
	shapes := []string{"empty", "blank_lines"}
	switch c.Format {
	case "uri", "uripost":
		shapes = append(shapes, "directives_only", "directives_only")
	case "jsonline":
		shapes = append(shapes, "json_empty_array", "json_empty_array")
	}
	c.Shape = rapid.SampledFrom(shapes).Draw(t, "shape")
	nl := rapid.SampledFrom([]string{"\n", "\n", "\r\n"}).Draw(t, "nl")
	blank := func(label string) string {
		return rapid.SampledFrom([]string{"", "", " ", "  ", "\t"}).Draw(t, label) + nl
	}
	var sb strings.Builder
	switch c.Shape {
	case "empty":
	case "blank_lines":
		n := rapid.IntRange(1, 4).Draw(t, "blankLines")
		for i := 0; i < n; i++ {
			sb.WriteString(blank("blank"))
		}
		if rapid.IntRange(0, 3).Draw(t, "unterminatedBlank") == 0 {
			sb.WriteString("  ") // a last line of blanks without its newline
		}
	case "directives_only":
		n := rapid.IntRange(1, 3).Draw(t, "directives")
		for i := 0; i < n; i++ {
			if rapid.IntRange(0, 3).Draw(t, "blankBefore") == 0 {
				sb.WriteString(blank("blank"))
			}
			sb.WriteString(rapid.SampledFrom(noEntriesDirectives).Draw(t, "directive"))
			if i < n-1 || rapid.IntRange(0, 3).Draw(t, "noFinalNewline") != 0 {
				sb.WriteString(nl)
			}
		}
		if c.Format == "uri" {
			c.Inline = rapid.IntRange(0, 3).Draw(t, "inline") == 0
		}
	case "json_empty_array":
		sb.WriteString(rapid.SampledFrom([]string{"[]", "[]", "[ ]", "[" + nl + "]", " []"}).Draw(t, "emptyArray"))
		if rapid.Bool().Draw(t, "finalNewline") {
			sb.WriteString(nl)
		}
	}
	c.Content = sb.String()
	c.Limit = rapid.SampledFrom([]int{0, 0, 1, 3, 5}).Draw(t, "limit")
	c.Passes = rapid.SampledFrom([]int{0, 0, 1, 2, 3}).Draw(t, "passes")
	switch rapid.IntRange(0, 5).Draw(t, "chosenKind") {
	case 0, 1:
		// none configured
	case 2:
		c.ChosenEmptyList = true
	default:
		n := rapid.IntRange(1, 2).Draw(t, "chosenN")
		for i := 0; i < n; i++ {
			tg := rapid.SampledFrom(tagPool).Draw(t, "chosen")
			if len(c.Chosen) == 0 || c.Chosen[0] != tg {
				c.Chosen = append(c.Chosen, tg)
			}
		}
	}
	c.Hold = rapid.SampledFrom([]int{1, 1, 2}).Draw(t, "hold")
	return c
}

func (c NoEntriesCase) chosenDesc() string {
	return chosenDesc(Case{Chosen: c.Chosen, ChosenEmptyList: c.ChosenEmptyList})
}

type noEntriesOutcome struct {
	buildErr error
	outcome
}

func runNoEntries(c NoEntriesCase, preload bool) (noEntriesOutcome, error) {
	typ := map[string]string{"uri": "uri", "uripost": "uripost", "raw": "raw", "jsonline": "http/json"}[c.Format]
	conf := map[string]any{"type": typ}
	if c.Inline {
		var lines []any
		for _, l := range strings.Split(strings.ReplaceAll(c.Content, "\r\n", "\n"), "\n") {
			lines = append(lines, l)
		}
		conf["uris"] = lines
	} else {
		name := pand.WriteFile("c14-none", ".ammo", []byte(c.Content))
		defer pand.Remove(name)
		conf["file"] = name
	}
	if c.Limit > 0 {
		conf["limit"] = c.Limit
	}
	if c.Passes > 0 {
		conf["passes"] = c.Passes
	}
	if len(c.Chosen) > 0 {
		ch := make([]any, len(c.Chosen))
		for i, s := range c.Chosen {
			ch[i] = s
		}
		conf["chosencases"] = ch
	} else if c.ChosenEmptyList {
		conf["chosencases"] = []any{}
	}
	if preload {
		conf["preload"] = true
	}
	var out noEntriesOutcome
	p, err := provrun.Build(conf)
	if err != nil {
		out.buildErr = err
		return out, nil
	}
	res, err := provrun.DrainHeld(p, 3, c.Hold, 5*time.Second, func(a core.Ammo) error {
		g, _ := ag.Observe(a) // whatever it is, it is one delivery too many; the URI is for the message only
		out.items = append(out.items, g)
		return nil
	})
	out.runErr, out.endSeen, out.hung = res.RunErr, res.EndSeen, res.Hung
	return out, err
}

func checkNoEntries(c NoEntriesCase, o *vf.Obs, r *vf.Run) error {
	var outs [2]noEntriesOutcome
	for i, preload := range []bool{false, true} {
		var err error
		outs[i], err = runNoEntries(c, preload)
		if err != nil {
			return fmt.Errorf("preload=%v: %v\n--- file (%s) ---\n%q", preload, err, c.Format, c.Content)
		}
	}
	a, b := outs[0], outs[1]
	where := fmt.Sprintf("%s file without entries (%s) limit=%d passes=%d chosencases=%s", c.Format, c.Shape, c.Limit, c.Passes, c.chosenDesc())
	if (a.buildErr == nil) != (b.buildErr == nil) {
		return fmt.Errorf("%s: provider construction without preload: %v, with preload: %v — preload changes memory behaviour only\n--- file ---\n%q",
			where, a.buildErr, b.buildErr, c.Content)
	}
	o.Class("none_format_" + c.Format)
	o.Class("none_shape_" + c.Shape)
	o.ClassIf(len(c.Chosen) > 0, "none_with_chosencases")
	o.ClassIf(len(c.Chosen) > 0 && c.Passes != 1, "none_with_chosencases_passes_not_1")
	o.ClassIf(c.ChosenEmptyList, "none_with_explicit_empty_chosencases")
	o.ClassIf(c.Passes == 1, "none_passes_1")
	o.ClassIf(c.Limit > 0, "none_with_limit")
	o.ClassIf(c.Inline, "none_inline_uris")
	if a.buildErr != nil {
		// the file is refused before any run, both ways (an empty http/json file: nothing to tell the layout from)
		o.Class("none_rejected_at_construction")
		return nil
	}
	for i, preload := range []bool{false, true} {
		if n := len(outs[i].items); n != 0 {
			return fmt.Errorf("%s: preload=%v delivered %d ammo (first: %s) from a file that holds none\n--- file ---\n%q", where, preload, n, outs[i].items[0].URI, c.Content)
		}
	}
	same := (a.runErr == nil) == (b.runErr == nil) && (a.hung == "") == (b.hung == "") && a.endSeen == b.endSeen
	excused := false
	if !same && c.Passes == 1 && a.runErr == nil && b.runErr != nil && a.hung == "" && b.hung == "" && a.endSeen == b.endSeen &&
		r != nil && r.IsKnown(findingNoEntriesOnePass) {
		// the listed finding, exactly its symptom: everything above was still checked
		r.Excluded(findingNoEntriesOnePass)
		same, excused = true, true
	}
	if !same {
		return fmt.Errorf("%s: without preload the run ends with error=%v hung=%q end-of-ammo-seen=%v, with preload error=%v hung=%q end-of-ammo-seen=%v — the run does not end the same way\n--- file ---\n%q",
			where, a.runErr, a.hung, a.endSeen, b.runErr, b.hung, b.endSeen, c.Content)
	}
	o.ClassIf(excused, "none_listed_finding_shape")
	o.ClassIf(!excused && a.runErr != nil, "none_both_end_with_error")
	o.ClassIf(!excused && a.runErr == nil, "none_both_end_without_error")
	o.NonTrivial()
	return nil
}

// TestNoEntries: files that hold no ammo at all, run with preload off and on.
func TestNoEntries(t *testing.T) {
	pand.Init()
	r := vf.Start(t, "C14")
	vf.Check(r, genNoEntries, func(c NoEntriesCase, o *vf.Obs) error { return checkNoEntries(c, o, r) })
}

// TestKnownWitnessNoEntries runs the witness of the finding no-entries-passes1-preload-differs - an ammo file without
// entries and `passes: 1` - in every run: while the finding is listed it is reported as still present, once it is
// repaired (or while it is not listed) the witness is an ordinary, strictly judged case.
//
// Without preload every streaming decoder checks the pass limit at end of file BEFORE it checks that it has read any
// ammo (decoders/uri.go, raw.go, uripost.go: `passNum >= Passes -> ErrPassLimit` precedes `ammoNum == 0 -> ErrNoAmmo`),
// so the run ends "normally" with zero shots; with preload runPreloaded finds nothing to replay and the run fails
// with "no ammo in file". With passes 0, 2, 3, ... both fail.
func TestKnownWitnessNoEntries(t *testing.T) {
	pand.Init()
	r := vf.Start(t, "C14")
	for _, format := range []string{"uri", "uripost", "raw"} {
		c := NoEntriesCase{Format: format, Shape: "empty", Passes: 1, Hold: 1}
		o := &vf.Obs{}
		err := vf.Guard(func() error { return checkNoEntries(c, o, nil) }) // r == nil: nothing is excused
		o.Class("witness_" + format)
		if err != nil && r.IsKnown(findingNoEntriesOnePass) {
			r.KnownHit(findingNoEntriesOnePass)
			o.Class("still_present_" + format)
			err = nil
		}
		r.Record(c, o, err)
		if err != nil {
			t.Errorf("witness %s: %v", format, err)
		}
	}
}
