package c14

// Ammo files with LONG LINES (added after seeded defect C14/m11): an entry - or, in the uri / uripost formats, a
// "[Header: value]" line - of 4 KiB up to just below 64 KiB (a long query string, a long cookie), i.e. longer than the
// readers' initial buffers and shorter than the longest line a bufio.Scanner takes by default, with the provider option
// `maxammosize` unset, below or above that length, read beyond one pass (passes >= 2, a limit above the number of
// entries, or no bound). "For every ammo file and every limit, passes and chosencases setting, the sequence of ammo
// delivered with preload enabled is identical to the sequence delivered without it, and the run ends the same way":
// whatever a reader makes of such a line, it must make the same of it on every pass and in both modes.

import (
	"bytes"
	"fmt"
	"reflect"
	"strings"
	"testing"

	ag "verif/harness/internal/ammogen"
	"verif/harness/internal/pand"
	"verif/harness/internal/vf"

	"pgregory.net/rapid"
)

type LongCase struct {
	Case
	// LongEntries / LongDirectives: indexes into File.Items of the items that were made long
	LongEntries    []int `json:"long_entries,omitempty"`
	LongDirectives []int `json:"long_directives,omitempty"`
}

// the default token limit of bufio.Scanner (bufio.MaxScanTokenSize); lines are kept below it with room for the line end
const scanTokenSize = 64 * 1024

var longLens = []int{4096, 4096, 4097, 4100, 5000, 8191, 8192, 8193, 12000, 16384, 32768, 40000, 65000}

// longestLine is the length of the longest physical line of the rendered file (line ends not counted); for http/json,
// where the unit is the JSON object and not the line (objects may span lines, an array may hold all of them in one),
// the size of the largest object.
func longestLine(c Case) int {
	m := 0
	if c.File.Format == "jsonline" {
		for _, it := range c.File.Items {
			one := ag.File{Format: "jsonline", Items: []ag.Item{it}, Layout: ag.Layout{JSON: "lines", NoFinalNL: true}}
			m = max(m, len(one.Render()))
		}
		return m
	}
	if c.File.Format == "uri" && c.File.Layout.Inline {
		for _, l := range c.File.Lines() {
			m = max(m, len(l))
		}
		return m
	}
	for _, l := range bytes.Split(c.File.Render(), []byte("\n")) {
		m = max(m, len(bytes.TrimSuffix(l, []byte("\r"))))
	}
	return m
}

func genLongCase(t *rapid.T) LongCase {
	// the line-per-entry formats first: uri twice as often as each of the others
	format := rapid.SampledFrom([]string{"uri", "uri", "uri", "uri", "uripost", "jsonline", "raw"}).Draw(t, "format")
	c := LongCase{Case: Case{File: ag.Gen(t, format, ag.GenOpts{MinEntries: 1, MaxEntries: 5, Tags: tagPool})}}
	f := &c.File
	if format == "uri" && rapid.IntRange(0, 2).Draw(t, "inlineUris") == 0 {
		f.Layout.Inline = true
	}
	fill := rapid.SampledFrom([]string{"a", "x", "0123456789", "ab%20"}).Draw(t, "fill")
	pad := func(n int) string { return strings.Repeat(fill, n/len(fill)+1)[:n] }
	var entryIdx, dirIdx []int
	for i, it := range f.Items {
		if it.Entry != nil {
			entryIdx = append(entryIdx, i)
		} else {
			dirIdx = append(dirIdx, i)
		}
	}
	nLong := rapid.SampledFrom([]int{1, 1, 1, 2}).Draw(t, "longItems")
	for k := 0; k < nLong; k++ {
		n := rapid.SampledFrom(longLens).Draw(t, "longLen") + rapid.IntRange(0, 3).Draw(t, "longJitter")
		if format != "uri" {
			n = min(n, 60000) // room for what surrounds the URI in these formats (size, request line, the other JSON fields)
		}
		if len(dirIdx) > 0 && rapid.IntRange(0, 3).Draw(t, "longDirective") == 0 {
			// a long header value (a cookie, a token) in a "[Name: value]" line
			i := rapid.SampledFrom(dirIdx).Draw(t, "longDirAt")
			d := *f.Items[i].Dir
			if len(d.V) < n && d.K != "Host" {
				d.V = "v=" + pad(max(1, n-len(d.V)-len(d.K)-6)) + d.V
				f.Items[i] = ag.Item{Dir: &d}
				c.LongDirectives = append(c.LongDirectives, i)
			}
			continue
		}
		// a long query string
		i := rapid.SampledFrom(entryIdx).Draw(t, "longEntryAt")
		e := *f.Items[i].Entry
		if len(e.URI) >= n {
			continue
		}
		sep := "?"
		if strings.Contains(e.URI, "?") {
			sep = "&"
		}
		e.URI += sep + "q=" + pad(max(1, n-len(e.URI)-3-len(e.Tag)-1))
		f.Items[i] = ag.Item{Entry: &e}
		c.LongEntries = append(c.LongEntries, i)
	}
	E := len(entryIdx)
	// mostly bounds that take the delivery beyond one pass over the file
	switch rapid.IntRange(0, 6).Draw(t, "bounds") {
	case 0, 1:
		c.Passes = rapid.IntRange(2, 3).Draw(t, "passes")
	case 2:
		c.Limit = rapid.IntRange(E+1, 3*E+1).Draw(t, "limit")
	case 3:
		c.Passes = rapid.IntRange(2, 3).Draw(t, "passes")
		c.Limit = rapid.IntRange(1, 3*E+1).Draw(t, "limit")
	case 4:
		// no bound: the first 3E+2 deliveries are compared
	case 5:
		c.Passes = 1
	case 6:
		c.Limit = rapid.IntRange(1, E).Draw(t, "limit")
	}
	c.Hold = rapid.SampledFrom([]int{1, 1, 2, 3}).Draw(t, "hold")
	if rapid.IntRange(0, 3).Draw(t, "chosen") == 0 {
		seen := map[string]bool{}
		for i, n := 0, rapid.IntRange(1, 2).Draw(t, "chosenN"); i < n; i++ {
			tg := f.Items[rapid.SampledFrom(entryIdx).Draw(t, "chosenOf")].Entry.Tag
			if !seen[tg] {
				seen[tg] = true
				c.Chosen = append(c.Chosen, tg)
			}
		}
	}
	L := longestLine(c.Case)
	switch rapid.IntRange(0, 5).Draw(t, "maxammosize") {
	case 0, 1, 2:
		// not set: the documented default is bufio.MaxScanTokenSize, above every generated line
	case 3:
		c.MaxAmmoSize = rapid.SampledFrom([]int{1, 100, 1024, 4096, max(1, L/2), max(1, L-1)}).Draw(t, "maxammosizeBelow")
	case 4:
		c.MaxAmmoSize = L + rapid.SampledFrom([]int{2, 3, 100, 4096, L, scanTokenSize}).Draw(t, "maxammosizeAbove")
	case 5:
		c.MaxAmmoSize = L + rapid.IntRange(0, 1).Draw(t, "maxammosizeAt")
	}
	return c
}

func sameGot(a, b ag.Got) bool {
	return a.Method == b.Method && a.URI == b.URI && a.Tag == b.Tag && a.Host == b.Host && bytes.Equal(a.Body, b.Body) && reflect.DeepEqual(a.Headers, b.Headers)
}

func checkLong(c LongCase, o *vf.Obs, r *vf.Run) error {
	L := longestLine(c.Case)
	if L >= scanTokenSize-2 {
		return fmt.Errorf("harness: generated line of %d bytes, meant to stay below %d", L, scanTokenSize-2)
	}
	sel := selected(c.Case)
	E := len(c.File.Expected())
	// `maxammosize` is the "maximum number of byte in ... ammo": a limit that is not set (default 64 KiB) or that lies above
	// the longest line (its line end included) rules nothing out, every entry is well-formed and within the limits and
	// the absolute model of TestPreloadEquivalence applies in full. With the limit at or below the longest line a reader
	// that enforces it may reject the file: then only the property's own words are asserted - same sequence, same ending.
	withinLimit := c.MaxAmmoSize == 0 || c.MaxAmmoSize >= L+2
	if withinLimit {
		if err := checkWith(c.Case, &vf.Obs{}, r); err != nil {
			return fmt.Errorf("longest line %d bytes, maxammosize=%d: %v", L, c.MaxAmmoSize, trimMsg(err))
		}
	} else {
		take := 3*E + 2
		bounded := c.Passes > 0 || c.Limit > 0
		if c.Passes > 0 {
			take = c.Passes*len(sel) + 3
		}
		if c.Limit > 0 && c.Limit+3 < take {
			take = c.Limit + 3
		}
		var outs [2]outcome
		for i, preload := range []bool{false, true} {
			var err error
			outs[i], err = run(c.Case, preload, take)
			if err != nil {
				return fmt.Errorf("preload=%v (longest line %d bytes, maxammosize=%d): %v", preload, L, c.MaxAmmoSize, trimMsg(err))
			}
		}
		a, b := outs[0], outs[1]
		desc := fmt.Sprintf("%s, longest line %d bytes, maxammosize=%d limit=%d passes=%d chosencases=%s", c.File.Format, L, c.MaxAmmoSize, c.Limit, c.Passes, chosenDesc(c.Case))
		if len(a.items) != len(b.items) {
			return fmt.Errorf("%s: %d ammo delivered without preload (Run error: %v), %d with preload (Run error: %v)", desc, len(a.items), a.runErr, len(b.items), b.runErr)
		}
		for k := range a.items {
			if !sameGot(a.items[k], b.items[k]) {
				return fmt.Errorf("%s: item %d differs: without preload %s %.80q tag %q, with preload %s %.80q tag %q", desc, k,
					a.items[k].Method, a.items[k].URI, a.items[k].Tag, b.items[k].Method, b.items[k].URI, b.items[k].Tag)
			}
		}
		if (a.hung == "") != (b.hung == "") {
			return fmt.Errorf("%s: without preload hung=%q, with preload hung=%q", desc, a.hung, b.hung)
		}
		// a run that the harness cancelled (no bound, or all `take` items taken) ends by the cancellation in both modes
		if bounded && len(a.items) < take && ((a.runErr == nil) != (b.runErr == nil) || a.endSeen != b.endSeen) {
			return fmt.Errorf("%s: after the same %d ammo the run without preload ends with error=%v (end of ammo seen: %v), with preload error=%v (end of ammo seen: %v) - not the same way",
				desc, len(a.items), a.runErr, a.endSeen, b.runErr, b.endSeen)
		}
		o.ClassIf(len(a.items) == 0, "long_limit_below_line_nothing_delivered")
		o.ClassIf(len(a.items) > 0, "long_limit_below_line_delivered_anyway")
	}
	// does the delivery go beyond one pass over the file, and does it reach a long line again there?
	X := -1
	if c.Passes > 0 {
		X = c.Passes * len(sel)
	}
	if c.Limit > 0 && (X < 0 || c.Limit < X) {
		X = c.Limit
	}
	want := X
	if X < 0 {
		want = 3*E + 2
	}
	beyond := len(sel) > 0 && want > len(sel)
	longSelected, longAgain := false, false
	for k, w := range sel {
		if len(w.URI) >= 4096 || longHeader(w) {
			longSelected = true
			longAgain = longAgain || want > len(sel)+k
		}
	}
	o.Class("long_format_" + c.File.Format)
	o.ClassIf(c.File.Layout.Inline, "long_inline_uris")
	o.ClassIf(len(c.LongEntries) > 0, "long_query")
	o.ClassIf(len(c.LongDirectives) > 0, "long_directive_value")
	o.ClassIf(L >= 4096, "long_line_4k_or_more")
	o.ClassIf(L >= 4096 && L < 4200, "long_line_just_above_4k")
	o.ClassIf(L >= 32768, "long_line_32k_or_more")
	o.ClassIf(beyond, "long_delivery_beyond_one_pass")
	o.ClassIf(longAgain, "long_line_delivered_again")
	o.ClassIf(longAgain && c.File.Format == "uri", "long_line_delivered_again_uri")
	o.ClassIf(longAgain && c.File.Layout.Inline, "long_line_delivered_again_inline_uris")
	o.ClassIf(longAgain && c.MaxAmmoSize == 0, "long_line_delivered_again_maxammosize_unset")
	o.ClassIf(longAgain && c.MaxAmmoSize > 0 && c.MaxAmmoSize < L, "long_line_delivered_again_maxammosize_below")
	o.ClassIf(longAgain && c.MaxAmmoSize >= L+2, "long_line_delivered_again_maxammosize_above")
	o.ClassIf(longAgain && c.Passes >= 2 && X == c.Passes*len(sel), "long_line_delivered_again_by_passes")
	o.ClassIf(longAgain && c.Limit > 0 && X == c.Limit, "long_line_delivered_again_by_limit")
	o.ClassIf(longAgain && X < 0, "long_line_delivered_again_unbounded")
	o.ClassIf(longAgain && len(c.Chosen) > 0, "long_line_delivered_again_with_filter")
	o.ClassIf(c.MaxAmmoSize == 0, "long_maxammosize_unset")
	o.ClassIf(c.MaxAmmoSize > 0 && c.MaxAmmoSize < L, "long_maxammosize_below_line")
	o.ClassIf(c.MaxAmmoSize >= L+2, "long_maxammosize_above_line")
	o.ClassIf(c.MaxAmmoSize >= L && c.MaxAmmoSize < L+2, "long_maxammosize_at_line")
	o.ClassIf(!beyond && longSelected, "long_single_pass_control")
	if longSelected && beyond {
		o.NonTrivial()
	}
	return nil
}

func longHeader(w ag.Want) bool {
	for _, v := range w.Headers {
		if len(v) >= 4000 {
			return true
		}
	}
	return false
}

// trimMsg keeps failure messages readable: the quoted file of a long-line case is tens of kilobytes.
func trimMsg(err error) string {
	s := err.Error()
	if len(s) > 1500 {
		s = s[:1500] + " ...(truncated; the replay file holds the whole case)"
	}
	return s
}

func TestLongLines(t *testing.T) {
	pand.Init()
	r := vf.Start(t, "C14")
	vf.Check(r, genLongCase, func(c LongCase, o *vf.Obs) error { return checkLong(c, o, r) })
}
