package c10

import (
	"context"
	"encoding/json"
	"fmt"
	"strconv"
	"strings"
	"testing"
	"time"

	"verif/harness/internal/pand"
	"verif/harness/internal/target"
	"verif/harness/internal/vf"

	"github.com/spf13/afero"
	"github.com/yandex/pandora/core/engine"
	"google.golang.org/grpc/codes"
	"pgregory.net/rapid"
)

// The mapping table of docs/eng/grpc-generator.md, transcribed by hand (not taken from the code).
var docTable = map[int]int{
	0: 200, 1: 499, 3: 400, 4: 504, 5: 404, 6: 409, 7: 403, 8: 429, 9: 400, 10: 409, 11: 400, 12: 501, 14: 503, 16: 401,
}

func docCode(grpcCode int) int {
	if grpcCode < 0 { // unanswered until the gun's timeout: DeadlineExceeded
		return 504
	}
	if v, ok := docTable[grpcCode]; ok {
		return v
	}
	return 500 // "unknown"
}

type GRPCCase struct {
	Codes        []int  `json:"codes"` // order of the ammo entries; always a permutation of 0..16 plus out-of-range values
	// negative entries of Codes are calls the target does not answer before the gun's own `timeout` expires: the call
	// status is then DeadlineExceeded on the client side, which the documented table maps to 504 like a
	// DeadlineExceeded sent by the target (code 4)
	TimeoutMs int `json:"gun_timeout_ms,omitempty"` // 0 = 5 s (no unanswered call in the case)
	Instances    int    `json:"instances"`
	SharedClient bool   `json:"shared_client"`
	Method       string `json:"method"`
}

func genGRPC(t *rapid.T) GRPCCase {
	all := []int{0, 1, 2, 3, 4, 5, 6, 7, 8, 9, 10, 11, 12, 13, 14, 15, 16}
	extra := rapid.SliceOfNDistinct(rapid.SampledFrom([]int{17, 18, 20, 42, 99, 255, 1000}), 0, 3, func(v int) int { return v }).Draw(t, "outOfRange")
	all = append(all, extra...)
	timeoutMs := 0
	if rapid.IntRange(0, 2).Draw(t, "unanswered") == 0 {
		timeoutMs = rapid.IntRange(800, 1200).Draw(t, "gunTimeoutMs")
		for i := 0; i < rapid.IntRange(1, 2).Draw(t, "nUnanswered"); i++ {
			all = append(all, -1-i)
		}
	}
	perm := rapid.Permutation(all).Draw(t, "order")
	return GRPCCase{
		TimeoutMs:    timeoutMs,
		Codes:        perm,
		Instances:    rapid.IntRange(1, 4).Draw(t, "instances"),
		SharedClient: rapid.Bool().Draw(t, "sharedClient"),
		Method:       rapid.SampledFrom([]string{"Hello", "Auth", "List", "Order"}).Draw(t, "method"),
	}
}

func payloadFor(method string, code int) map[string]any {
	marker := fmt.Sprintf("c%d", code)
	switch method {
	case "Auth":
		return map[string]any{"login": marker, "pass": "p"}
	case "List":
		return map[string]any{"token": marker, "user_id": 1}
	case "Order":
		return map[string]any{"token": marker, "user_id": 1, "item_id": 2}
	}
	return map[string]any{"name": marker}
}

func markerOf(c *target.GCall) string {
	b, _ := json.Marshal(c.Req)
	s := string(b)
	// generated types marshal with their Go field names via encoding/json: Name/Login/Token
	for _, f := range []string{`"name":"`, `"login":"`, `"token":"`, `"Name":"`, `"Login":"`, `"Token":"`} {
		if i := strings.Index(s, f); i >= 0 {
			rest := s[i+len(f):]
			if j := strings.Index(rest, `"`); j >= 0 {
				return rest[:j]
			}
		}
	}
	return ""
}

func checkGRPC(c GRPCCase, o *vf.Obs) error {
	tg, mu := target.SharedGRPC()
	mu.Lock()
	defer mu.Unlock()
	tg.ResetScript(func(call *target.GCall) target.GResp {
		m := markerOf(call)
		code, err := strconv.Atoi(strings.TrimPrefix(m, "c"))
		if err != nil {
			return target.GResp{Code: codes.Internal}
		}
		if code < 0 {
			// stays silent well past the gun's timeout (the handler returns when the call's context ends)
			return target.GResp{Code: codes.OK, DelayMs: c.TimeoutMs + 1500, Hello: "late"}
		}
		return target.GResp{Code: codes.Code(code), Hello: "x", Token: "t", UserID: 1, Items: []int64{1}, OrderID: 1}
	})
	var sb strings.Builder
	for _, code := range c.Codes {
		b, _ := json.Marshal(map[string]any{"tag": fmt.Sprintf("c%d", code), "call": "target.TargetService." + c.Method, "payload": payloadFor(c.Method, code)})
		sb.Write(b)
		sb.WriteString("\n")
	}
	name := pand.WriteFile("c10g", ".json", []byte(sb.String()))
	defer pand.Remove(name)
	out := pand.TempName("c10g", ".phout")
	defer pand.Remove(out)
	gun := map[string]any{"type": "grpc", "target": tg.Addr(), "timeout": "5s"}
	unanswered := 0
	for _, code := range c.Codes {
		if code < 0 {
			unanswered++
		}
	}
	if unanswered > 0 {
		gun["timeout"] = fmt.Sprintf("%dms", c.TimeoutMs)
	}
	if c.SharedClient {
		gun["shared-client"] = map[string]any{"enabled": true, "client-number": 2}
	}
	pool := map[string]any{
		"id": "p", "gun": gun,
		"ammo":    map[string]any{"type": "grpc/json", "file": name, "passes": 1},
		"result":  map[string]any{"type": "phout", "destination": out},
		"rps":     map[string]any{"type": "once", "times": len(c.Codes) + 5},
		"startup": map[string]any{"type": "once", "times": c.Instances},
	}
	var conf engine.Config
	if err := pand.Decode(map[string]any{"pools": []any{pool}}, &conf); err != nil {
		return fmt.Errorf("valid pool config rejected: %v", err)
	}
	eng := engine.New(pand.NopLog(), pand.Metrics(), conf)
	var runErr error
	ok, stacks := vf.Deadline(60*time.Second, func() { runErr = eng.Run(context.Background()) })
	if !ok {
		return fmt.Errorf("run did not finish in 60s\n%s", stacks)
	}
	if runErr != nil {
		return fmt.Errorf("run failed: %v", runErr)
	}
	eng.Wait()
	data, err := afero.ReadFile(pand.FS(), out)
	if err != nil {
		return fmt.Errorf("phout not written: %v", err)
	}
	lines := strings.Split(strings.TrimSuffix(string(data), "\n"), "\n")
	if len(lines) != len(c.Codes) {
		return fmt.Errorf("%d samples for %d calls\n%s", len(lines), len(c.Codes), data)
	}
	seen := map[string]bool{}
	for _, ln := range lines {
		f := strings.Split(ln, "\t")
		if len(f) != 12 {
			return fmt.Errorf("phout line with %d columns: %q", len(f), ln)
		}
		tag := f[1]
		if seen[tag] {
			return fmt.Errorf("two samples for the call tagged %q", tag)
		}
		seen[tag] = true
		code, err := strconv.Atoi(strings.TrimPrefix(tag, "c"))
		if err != nil {
			return fmt.Errorf("sample tag %q is not the ammo's tag", tag)
		}
		proto, _ := strconv.Atoi(f[11])
		if want := docCode(code); proto != want {
			if code < 0 {
				return fmt.Errorf("a call the target left unanswered until the gun's timeout (%d ms; call status DeadlineExceeded) reported as %d, documentation says %d", c.TimeoutMs, proto, want)
			}
			return fmt.Errorf("gRPC status %d (%s) reported as %d, documentation says %d", code, codes.Code(code), proto, want)
		}
	}
	if n := len(tg.Calls()); n != len(c.Codes) {
		return fmt.Errorf("%d calls reached the server for %d ammo", n, len(c.Codes))
	}
	o.Class("method_" + c.Method)
	o.ClassIf(c.SharedClient, "shared_client")
	o.ClassIf(len(c.Codes)-unanswered > 17, "out_of_range_codes")
	o.ClassIf(c.Instances >= 2, "instances_ge_2")
	o.ClassIf(unanswered > 0, "call_unanswered_until_gun_timeout")
	o.NonTrivial()
	return nil
}

func TestGRPCCodes(t *testing.T) {
	pand.Init()
	r := vf.Start(t, "C10")
	vf.Check(r, genGRPC, vf.LoadTolerant(25*time.Millisecond, checkGRPC))
	r.Extra("grpc_codes_enumerated_per_case", "0..16 (all defined codes.Code values) in every case")
}
