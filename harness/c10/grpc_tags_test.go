package c10

// gRPC gun, "whose tag is the ammo's tag ... or __EMPTY__ when there is none", over files in which tagged and untagged
// lines alternate and which are shot for longer than the provider reads ahead: the grpc/json provider decodes up to
// 128 entries ahead into fresh ammo objects and afterwards into objects the instances have released, so from
// about the 130th shot on every entry is decoded into an object that carried another entry before. `tag` is an
// optional key of a grpc/json line.
//
// Oracle: the sample of the i-th shot carries the tag written on line i mod n of the file (or the no-tag marker) and
// the documented code of the status the target answered that line with - in order with one instance, as a multiset
// with several.

import (
	"context"
	"encoding/json"
	"fmt"
	"strconv"
	"strings"
	"testing"
	"time"

	"verif/harness/internal/pand"
	"verif/harness/internal/target"
	"verif/harness/internal/vf"

	"github.com/spf13/afero"
	"github.com/yandex/pandora/core/engine"
	"google.golang.org/grpc/codes"
	"pgregory.net/rapid"
)

type GTLine struct {
	Tag     string `json:"tag"`      // "" = the entry has no tag
	TagForm string `json:"tag_form"` // for untagged entries: "absent" (no "tag" key) | "empty" ("tag": "")
	Method  string `json:"method"`
	Code    int    `json:"grpc_code"`
}

type GTCase struct {
	Lines     []GTLine `json:"lines"`
	Repeat    int      `json:"file_repeats"` // the lines are written this many times into the file
	Passes    int      `json:"passes"`
	Instances int      `json:"instances"`
}

func (c GTCase) shots() int { return len(c.Lines) * c.Repeat * c.Passes }

func genGT(t *rapid.T) GTCase {
	c := GTCase{}
	n := rapid.IntRange(2, 8).Draw(t, "lines")
	tags := rapid.SliceOfNDistinct(rapid.StringMatching(`[a-z][a-z0-9_]{0,6}`), 1, 3, func(s string) string { return s }).Draw(t, "tags")
	for i := 0; i < n; i++ {
		ln := GTLine{
			Method: rapid.SampledFrom([]string{"Hello", "Auth", "List", "Order"}).Draw(t, "method"),
			Code:   rapid.SampledFrom([]int{0, 0, 0, 0, 3, 5, 14, 16}).Draw(t, "code"),
		}
		// tagged and untagged lines are about equally likely; a few tags, so that tags repeat within a file
		if rapid.Bool().Draw(t, "tagged") {
			ln.Tag = rapid.SampledFrom(tags).Draw(t, "tag")
		} else {
			ln.TagForm = rapid.SampledFrom([]string{"absent", "absent", "empty"}).Draw(t, "tagForm")
		}
		c.Lines = append(c.Lines, ln)
	}
	// how many shots: three cases in four go well beyond the provider's read-ahead (128 entries), either by a long
	// file or by passes over a short one
	total := rapid.SampledFrom([]int{40, 200, 300, 450}).Draw(t, "shots")
	k := (total + n - 1) / n
	if rapid.Bool().Draw(t, "byPasses") {
		c.Repeat, c.Passes = 1, k
	} else {
		c.Repeat, c.Passes = k, 1
	}
	c.Instances = rapid.SampledFrom([]int{1, 1, 2, 4}).Draw(t, "instances")
	return c
}

const grpcReadAhead = 128 // the provider's queue of decoded ammo

// Finding grpc-gun-untagged-sample-tag-empty (made by this test, repaired in /repo 9078429): the gRPC gun reported an
// untagged ammo with an empty tag column instead of __EMPTY__ (guns/grpc/core.go acquired the sample with the ammo's tag
// and had no fallback, unlike the HTTP base gun). The oracle is strict; TestGRPCUntaggedWitness is its fixed witness.

func checkGT(_ *vf.Run) func(c GTCase, o *vf.Obs) error {
	return func(c GTCase, o *vf.Obs) error {
		if len(c.Lines) == 0 || c.Repeat < 1 || c.Passes < 1 || c.Instances < 1 || c.shots() > 5000 {
			return fmt.Errorf("harness: bad case")
		}
		tg, mu := target.SharedGRPC()
		mu.Lock()
		defer mu.Unlock()
		tg.ResetScript(func(call *target.GCall) target.GResp {
			code, err := strconv.Atoi(strings.TrimPrefix(markerOf(call), "c"))
			if err != nil {
				return target.GResp{Code: codes.Internal}
			}
			return target.GResp{Code: codes.Code(code), Hello: "x", Token: "t", UserID: 1, Items: []int64{1}, OrderID: 1}
		})
		var one strings.Builder
		for _, ln := range c.Lines {
			m := map[string]any{"call": "target.TargetService." + ln.Method, "payload": payloadFor(ln.Method, ln.Code)}
			if ln.Tag != "" {
				m["tag"] = ln.Tag
			} else if ln.TagForm == "empty" {
				m["tag"] = ""
			}
			b, _ := json.Marshal(m)
			one.Write(b)
			one.WriteString("\n")
		}
		file := strings.Repeat(one.String(), c.Repeat)
		name := pand.WriteFile("c10gt", ".json", []byte(file))
		defer pand.Remove(name)
		out := pand.TempName("c10gt", ".phout")
		defer pand.Remove(out)
		total := c.shots()
		pool := map[string]any{
			"id":      "p",
			"gun":     map[string]any{"type": "grpc", "target": tg.Addr(), "timeout": "5s"},
			"ammo":    map[string]any{"type": "grpc/json", "file": name, "passes": c.Passes},
			"result":  map[string]any{"type": "phout", "destination": out},
			"rps":     map[string]any{"type": "once", "times": total + 5},
			"startup": map[string]any{"type": "once", "times": c.Instances},
		}
		var conf engine.Config
		if err := pand.Decode(map[string]any{"pools": []any{pool}}, &conf); err != nil {
			return fmt.Errorf("valid pool config rejected: %v", err)
		}
		eng := engine.New(pand.NopLog(), pand.Metrics(), conf)
		var runErr error
		ok, stacks := vf.Deadline(120*time.Second, func() { runErr = eng.Run(context.Background()) })
		if !ok {
			return fmt.Errorf("run did not finish in 120s\n%s", stacks)
		}
		if runErr != nil {
			return fmt.Errorf("run failed: %v", runErr)
		}
		eng.Wait()
		if n := len(tg.Calls()); n != total {
			return fmt.Errorf("%d calls reached the server for %d lines x %d passes = %d ammo", n, len(c.Lines)*c.Repeat, c.Passes, total)
		}
		data, err := afero.ReadFile(pand.FS(), out)
		if err != nil {
			return fmt.Errorf("phout not written: %v", err)
		}
		var got []gsSample
		for _, ln := range strings.Split(strings.TrimSuffix(string(data), "\n"), "\n") {
			if ln == "" {
				continue
			}
			f := strings.Split(ln, "\t")
			if len(f) != 12 {
				return fmt.Errorf("phout line with %d columns: %q", len(f), ln)
			}
			proto, err := strconv.Atoi(f[11])
			if err != nil {
				return fmt.Errorf("phout line with proto code %q: %q", f[11], ln)
			}
			got = append(got, gsSample{f[1], proto})
		}
		if len(got) != total {
			return fmt.Errorf("%d samples for %d calls", len(got), total)
		}
		const noTag = "__EMPTY__"
		want := func(i int) gsSample {
			ln := c.Lines[i%len(c.Lines)]
			w := gsSample{ln.Tag, docCode(ln.Code)}
			if w.tag == "" {
				w.tag = noTag
			}
			return w
		}
		describe := func(i int) string {
			ln := c.Lines[i%len(c.Lines)]
			if ln.Tag == "" {
				return fmt.Sprintf("line %d of the file, which has no tag (answered with gRPC status %d)", i%(len(c.Lines)*c.Repeat)+1, ln.Code)
			}
			return fmt.Sprintf("line %d of the file, tagged %q (answered with gRPC status %d)", i%(len(c.Lines)*c.Repeat)+1, ln.Tag, ln.Code)
		}
		if c.Instances == 1 {
			for i := range got {
				if got[i] != want(i) {
					return fmt.Errorf("sample %d of %d is {tag %q, proto %d}; the %d-th shot of the only instance was %s: its sample is {tag %q, proto %d}\n--- one round of the file ---\n%s",
						i+1, total, got[i].tag, got[i].proto, i+1, describe(i), want(i).tag, want(i).proto, one.String())
				}
			}
		} else {
			wantN, gotN := map[string]int{}, map[string]int{}
			for i := range got {
				w := want(i)
				wantN[fmt.Sprintf("{tag %q, proto %d}", w.tag, w.proto)]++
				gotN[fmt.Sprintf("{tag %q, proto %d}", got[i].tag, got[i].proto)]++
			}
			if fmt.Sprint(sortedCounts(gotN)) != fmt.Sprint(sortedCounts(wantN)) {
				return fmt.Errorf("samples %v, but %d passes over the file make %v\n--- one round of the file ---\n%s",
					sortedCounts(gotN), c.Passes, sortedCounts(wantN), one.String())
			}
		}
		// ---- classes ----
		tagged, untagged, absent, empty := 0, 0, 0, 0
		afterTagged := false // an untagged line directly follows a tagged one (cyclically)
		for i, ln := range c.Lines {
			if ln.Tag != "" {
				tagged++
				continue
			}
			untagged++
			if ln.TagForm == "empty" {
				empty++
			} else {
				absent++
			}
			if c.Lines[(i+len(c.Lines)-1)%len(c.Lines)].Tag != "" {
				afterTagged = true
			}
		}
		mixed := tagged > 0 && untagged > 0
		recycled := total > grpcReadAhead+2*c.Instances+len(c.Lines) // objects released by the instances are decoded into again
		o.ClassIf(mixed, "tagged_and_untagged_lines")
		o.ClassIf(mixed && recycled, "mixed_tags_beyond_read_ahead")
		o.ClassIf(mixed && recycled && absent > 0, "mixed_tags_beyond_read_ahead_tag_key_absent")
		o.ClassIf(mixed && recycled && c.Instances == 1, "mixed_tags_beyond_read_ahead_one_instance")
		o.ClassIf(mixed && recycled && c.Instances >= 2, "mixed_tags_beyond_read_ahead_instances_ge_2")
		o.ClassIf(mixed && recycled && c.Repeat > 1, "mixed_tags_beyond_read_ahead_long_file")
		o.ClassIf(mixed && recycled && c.Passes > 1, "mixed_tags_beyond_read_ahead_by_passes")
		o.ClassIf(afterTagged, "untagged_line_follows_tagged")
		o.ClassIf(empty > 0, "tag_key_with_empty_string")
		o.ClassIf(untagged == len(c.Lines), "all_untagged")
		o.ClassIf(tagged == len(c.Lines), "all_tagged")
		o.ClassIf(!recycled, "within_read_ahead")
		if mixed && recycled {
			o.NonTrivial()
		}
		return nil
	}
}

// TestGRPCUntaggedWitness: the fixed witness of finding grpc-gun-untagged-sample-tag-empty - an untagged line (both
// spellings) next to a tagged one, one instance, the same strict oracle.
func TestGRPCUntaggedWitness(t *testing.T) {
	pand.Init()
	r := vf.Start(t, "C10")
	c := GTCase{Lines: []GTLine{{TagForm: "absent", Method: "Hello", Code: 0}, {Tag: "t", Method: "Hello", Code: 0},
		{TagForm: "empty", Method: "Auth", Code: 5}}, Repeat: 1, Passes: 1, Instances: 1}
	o := &vf.Obs{}
	err := vf.Guard(func() error { return checkGT(r)(c, o) })
	o.Class("witness")
	r.Record(c, o, err)
	if err != nil {
		t.Errorf("witness: %v", err)
	}
}

// TestGRPCJSONTags: grpc/json files mixing tagged and untagged lines, shot beyond the provider's read-ahead.
func TestGRPCJSONTags(t *testing.T) {
	pand.Init()
	r := vf.Start(t, "C10")
	vf.Check(r, genGT, vf.LoadTolerant(25*time.Millisecond, checkGT(r)))
}
