// C10 — sample result coding: one sample per request with faithful codes, tags, ids.
// HTTP part: real http gun + real phout aggregator (ids on) against a scripted target.
package c10

import (
	"context"
	"fmt"
	"io"
	"net"
	"sort"
	"strconv"
	"strings"
	"testing"
	"time"

	ag "verif/harness/internal/ammogen"
	"verif/harness/internal/pand"
	"verif/harness/internal/target"
	"verif/harness/internal/vf"

	"github.com/spf13/afero"
	"github.com/yandex/pandora/core/engine"
	"pgregory.net/rapid"
)

type Entry struct {
	Path   []string `json:"path"` // path elements after the unique first one
	Slash  bool     `json:"trailing_slash"`
	Tag    string   `json:"tag"`
	Status int      `json:"status"`
	Fail   string   `json:"fail"` // "" | reset | timeout | short_body
	// NoPath: the request URI has no path at all (url.URL.Path == ""), so there is nothing to derive an auto-tag from:
	//   abs        http://e<i>.c10.example       (uri / raw: absolute URI; http/json: host + empty uri)
	//   abs_query  http://e<i>.c10.example?k=v
	//   query      ?e<i>=1                       (uri and http/json; raw request lines cannot be written that way: abs_query)
	// The entry is then recognised by the Host header or the query instead of the first path element.
	NoPath string `json:"no_path,omitempty"`
}

type HTTPCase struct {
	Entries   []Entry `json:"entries"`
	AutoTag   bool    `json:"auto_tag"`
	Elements  int     `json:"uri_elements"`
	NoTagOnly bool    `json:"no_tag_only"`
	Instances int     `json:"instances"`
	Passes    int     `json:"passes"`
	Refused   bool    `json:"target_refuses"`
	Format    string  `json:"format"`
}

func genStatus(t *rapid.T) int {
	switch rapid.IntRange(0, 5).Draw(t, "statusKind") {
	case 0, 1:
		return 200
	case 2:
		return rapid.SampledFrom([]int{201, 204, 301, 302, 304, 400, 401, 403, 404, 429, 500, 502, 503, 504, 599}).Draw(t, "statusCommon")
	default:
		return rapid.IntRange(200, 599).Draw(t, "status")
	}
}

func genHTTP(t *rapid.T) HTTPCase {
	c := HTTPCase{}
	n := rapid.IntRange(1, 8).Draw(t, "entries")
	for i := 0; i < n; i++ {
		e := Entry{Status: genStatus(t)}
		pe := rapid.IntRange(0, 4).Draw(t, "pathElems")
		for j := 0; j < pe; j++ {
			e.Path = append(e.Path, rapid.StringMatching(`[a-z0-9]{1,5}`).Draw(t, "elem"))
		}
		e.Slash = rapid.IntRange(0, 3).Draw(t, "slash") == 0
		if rapid.Bool().Draw(t, "tagged") {
			e.Tag = rapid.StringMatching(`[a-zA-Z0-9_]{1,8}`).Draw(t, "tag")
		}
		if rapid.IntRange(0, 4).Draw(t, "fails") == 0 {
			e.Fail = rapid.SampledFrom([]string{"reset", "timeout", "short_body"}).Draw(t, "fail")
			if e.Fail == "short_body" && (e.Status == 204 || e.Status == 304) {
				e.Status = 200 // these statuses carry no body, so there is no body to cut short
			}
		}
		if rapid.IntRange(0, 3).Draw(t, "noPath") == 0 {
			e.NoPath = rapid.SampledFrom([]string{"abs", "abs_query", "query"}).Draw(t, "noPathKind")
			e.Path, e.Slash = nil, false
		}
		c.Entries = append(c.Entries, e)
	}
	c.AutoTag = rapid.Bool().Draw(t, "autoTag")
	c.Elements = rapid.IntRange(1, 3).Draw(t, "elements")
	c.NoTagOnly = rapid.Bool().Draw(t, "noTagOnly")
	if c.AutoTag && !c.NoTagOnly {
		// what "ammo tag + an auto-tag of nothing" should read like is not documented: path-less entries carry no tag then
		for i := range c.Entries {
			if c.Entries[i].NoPath != "" {
				c.Entries[i].Tag = ""
			}
		}
	}
	c.Instances = rapid.IntRange(1, 8).Draw(t, "instances")
	c.Passes = rapid.IntRange(1, 2).Draw(t, "passes")
	c.Refused = rapid.IntRange(0, 9).Draw(t, "refused") == 0
	c.Format = rapid.SampledFrom([]string{"uri", "jsonline", "raw"}).Draw(t, "format")
	return c
}

func entryHost(i int) string { return fmt.Sprintf("e%d.c10.example", i) }

// ammoURI is what the ammo file says; host is the entry's own Host ("" = none: the gun fills in the target's).
func (e Entry) ammoURI(i int, format string) (uri, host string) {
	kind := e.NoPath
	if kind == "query" && format == "raw" {
		kind = "abs_query"
	}
	switch kind {
	case "":
		return e.uri(i), ""
	case "query":
		return fmt.Sprintf("?e%d=1", i), ""
	}
	q := ""
	if kind == "abs_query" {
		q = "?k=v"
	}
	if format == "jsonline" {
		return q, entryHost(i) // the http/json provider builds "http://" + host + uri
	}
	return "http://" + entryHost(i) + q, ""
}

// entryOf recognises the entry a request belongs to: Host e<i>.c10.example, else the first path element /e<i>, else the query ?e<i>=1.
func entryOf(host, requestURI string) (int, bool) {
	if h, ok := strings.CutSuffix(host, ".c10.example"); ok {
		i, err := strconv.Atoi(strings.TrimPrefix(h, "e"))
		return i, err == nil
	}
	p, ok := strings.CutPrefix(requestURI, "/e")
	if !ok {
		if p, ok = strings.CutPrefix(requestURI, "/?e"); !ok {
			return 0, false
		}
	}
	if k := strings.IndexAny(p, "/?=&"); k >= 0 {
		p = p[:k]
	}
	i, err := strconv.Atoi(p)
	return i, err == nil
}

func (e Entry) uri(i int) string {
	p := fmt.Sprintf("/e%d", i)
	for _, el := range e.Path {
		p += "/" + el
	}
	if e.Slash {
		p += "/"
	}
	return p
}

func autoTag(path string, n int) string {
	parts := strings.Split(path[1:], "/")
	if n < len(parts) {
		parts = parts[:n]
	}
	return "/" + strings.Join(parts, "/")
}

func (c HTTPCase) wantTag(i int) string {
	e := c.Entries[i]
	tag := e.Tag
	if c.AutoTag && (!c.NoTagOnly || tag == "") && (e.NoPath == "" || tag == "") {
		a := autoTag(e.uri(i), c.Elements)
		if e.NoPath != "" {
			a = "" // no path elements: no auto-tag, "__EMPTY__ when there is none"
		}
		if tag == "" {
			tag = a
		} else {
			tag += "|" + a
		}
	}
	if tag == "" {
		tag = "__EMPTY__"
	}
	return tag
}

type phoutLine struct {
	tag   string
	id    uint64
	net   int
	proto int
}

func parsePhout(data string) ([]phoutLine, error) {
	var out []phoutLine
	for _, ln := range strings.Split(strings.TrimSuffix(data, "\n"), "\n") {
		if ln == "" {
			continue
		}
		f := strings.Split(ln, "\t")
		if len(f) != 12 {
			return nil, fmt.Errorf("phout line has %d columns, expected 12: %q", len(f), ln)
		}
		tagid := f[1]
		k := strings.LastIndex(tagid, "#")
		if k < 0 {
			return nil, fmt.Errorf("phout line without #id although ids are enabled: %q", ln)
		}
		id, err := strconv.ParseUint(tagid[k+1:], 10, 64)
		if err != nil {
			return nil, fmt.Errorf("bad id in %q", ln)
		}
		netc, err1 := strconv.Atoi(f[10])
		proto, err2 := strconv.Atoi(f[11])
		if err1 != nil || err2 != nil {
			return nil, fmt.Errorf("bad codes in %q", ln)
		}
		out = append(out, phoutLine{tag: tagid[:k], id: id, net: netc, proto: proto})
	}
	return out, nil
}

type ioRW = io.ReadWriter

func closedPort() string {
	l, err := net.Listen("tcp", "127.0.0.1:0")
	if err != nil {
		panic(err)
	}
	addr := l.Addr().String()
	l.Close()
	return addr
}

func checkHTTP(c HTTPCase, o *vf.Obs) error {
	tg, mu := target.Shared(false)
	mu.Lock()
	defer mu.Unlock()
	tg.Reset(func(seq int, r *target.Rec) target.Resp {
		i, ok := entryOf(r.Host, r.RequestURI)
		if !ok || i < 0 || i >= len(c.Entries) {
			return target.Resp{Status: 599}
		}
		e := c.Entries[i]
		switch e.Fail {
		case "reset":
			return target.Resp{Hijack: func(conn net.Conn, _ ioRW) {
				if tc, ok := conn.(*net.TCPConn); ok {
					_ = tc.SetLinger(0)
				}
			}}
		case "timeout":
			return target.Resp{Status: e.Status, DelayMs: 600}
		case "short_body":
			return target.Resp{Hijack: func(conn net.Conn, rw ioRW) {
				fmt.Fprintf(rw, "HTTP/1.1 %d X\r\nContent-Length: 100\r\nContent-Type: text/plain\r\n\r\nshort", e.Status)
			}}
		}
		return target.Resp{Status: e.Status, Body: []byte("body")}
	})
	f := ag.File{Format: c.Format}
	for i, e := range c.Entries {
		en := ag.Entry{Method: "GET", Tag: e.Tag}
		en.URI, en.Host = e.ammoURI(i, c.Format)
		if c.Format == "raw" {
			en.Host = "h.example.com" // superseded by the host of an absolute request URI
		}
		f.Items = append(f.Items, ag.Item{Entry: &en})
	}
	if c.Format == "jsonline" {
		f.Layout.JSON = "lines"
	}
	name := pand.WriteFile("c10", ".ammo", f.Render())
	defer pand.Remove(name)
	out := pand.TempName("c10", ".phout")
	defer pand.Remove(out)
	total := len(c.Entries) * c.Passes
	addr := tg.Addr()
	if c.Refused {
		addr = closedPort()
	}
	gun := map[string]any{"type": "http", "target": addr, "response-header-timeout": "200ms",
		"dial":     map[string]any{"timeout": "2s"},
		"auto-tag": map[string]any{"enabled": c.AutoTag, "uri-elements": c.Elements, "no-tag-only": c.NoTagOnly}}
	pool := map[string]any{
		"id": "p", "gun": gun,
		"ammo":    map[string]any{"type": ag.ProviderType(c.Format), "file": name, "passes": c.Passes},
		"result":  map[string]any{"type": "phout", "destination": out, "id": true},
		"rps":     map[string]any{"type": "once", "times": total + 5},
		"startup": map[string]any{"type": "once", "times": c.Instances},
	}
	var conf engine.Config
	if err := pand.Decode(map[string]any{"pools": []any{pool}}, &conf); err != nil {
		return fmt.Errorf("valid pool config rejected: %v", err)
	}
	eng := engine.New(pand.NopLog(), pand.Metrics(), conf)
	var runErr error
	ok, stacks := vf.Deadline(60*time.Second, func() { runErr = eng.Run(context.Background()) })
	if !ok {
		return fmt.Errorf("run did not finish in 60s\n%s", stacks)
	}
	if runErr != nil {
		return fmt.Errorf("run failed: %v", runErr)
	}
	eng.Wait()
	data, err := afero.ReadFile(pand.FS(), out)
	if err != nil {
		return fmt.Errorf("phout not written: %v", err)
	}
	lines, err := parsePhout(string(data))
	if err != nil {
		return err
	}
	if len(lines) != total {
		return fmt.Errorf("%d samples for %d fired requests (each request must produce exactly one sample)\n%s", len(lines), total, data)
	}
	// expected multiset of (tag, proto, net==0)
	type key struct {
		tag   string
		proto int
		netOK bool
	}
	want := map[key]int{}
	for p := 0; p < c.Passes; p++ {
		for i, e := range c.Entries {
			k := key{tag: c.wantTag(i)}
			switch {
			case c.Refused:
				k.proto, k.netOK = 0, false
			case e.Fail == "reset" || e.Fail == "timeout":
				k.proto, k.netOK = 0, false
			case e.Fail == "short_body":
				k.proto, k.netOK = e.Status, false
			default:
				k.proto, k.netOK = e.Status, true
			}
			want[k]++
		}
	}
	got := map[key]int{}
	gotNet := map[key][]string{}
	ids := map[uint64]bool{}
	for _, l := range lines {
		got[key{l.tag, l.proto, l.net == 0}]++
		if l.net != 0 {
			gotNet[key{l.tag, l.proto, false}] = append(gotNet[key{l.tag, l.proto, false}], fmt.Sprintf("net=%d", l.net))
		}
		if ids[l.id] {
			return fmt.Errorf("sample id %d appears twice within one run (%d instances)\n%s", l.id, c.Instances, data)
		}
		ids[l.id] = true
	}
	var diffs []string
	for k, n := range want {
		if got[k] != n {
			diffs = append(diffs, fmt.Sprintf("expected %d x {tag %q, proto %d, net==0 %v}, got %d", n, k.tag, k.proto, k.netOK, got[k]))
		}
	}
	for k, n := range got {
		if _, ok := want[k]; !ok {
			diffs = append(diffs, fmt.Sprintf("unexpected %d x {tag %q, proto %d, net==0 %v} %s", n, k.tag, k.proto, k.netOK, strings.Join(gotNet[k], " ")))
		}
	}
	if len(diffs) > 0 {
		sort.Strings(diffs)
		return fmt.Errorf("samples differ from the model (auto-tag enabled=%v elements=%d no-tag-only=%v):\n  %s\n--- phout ---\n%s", c.AutoTag, c.Elements, c.NoTagOnly, strings.Join(diffs, "\n  "), data)
	}
	nonOK, fails := false, false
	for _, e := range c.Entries {
		if e.NoPath != "" {
			o.Class("uri_without_path", "uri_without_path_"+e.NoPath)
			o.ClassIf(c.AutoTag && e.Tag == "", "auto_tag_of_uri_without_path_untagged")
			o.ClassIf(!c.AutoTag && e.Tag == "", "uri_without_path_untagged_auto_tag_off")
		}
		if e.Status >= 300 {
			nonOK = true
			o.Class(fmt.Sprintf("status_%dxx", e.Status/100))
		}
		if e.Fail != "" {
			fails = true
			o.Class("fail_" + e.Fail)
		}
	}
	o.ClassIf(c.Refused, "fail_refused")
	o.ClassIf(c.AutoTag, "auto_tag")
	o.ClassIf(c.AutoTag && !c.NoTagOnly, "auto_tag_appended")
	o.ClassIf(c.Instances >= 2, "instances_ge_2")
	o.Class("format_" + c.Format)
	if nonOK || fails || c.Refused || c.AutoTag || c.Instances >= 2 {
		o.NonTrivial()
	}
	return nil
}

func TestHTTPSamples(t *testing.T) {
	pand.Init()
	r := vf.Start(t, "C10")
	vf.Check(r, genHTTP, vf.LoadTolerant(25*time.Millisecond, checkHTTP))
}
