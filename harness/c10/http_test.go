// C10 — sample result coding: one sample per request with faithful codes, tags, ids.
// HTTP part: real http gun + real phout aggregator (ids on) against a scripted target.
package c10

import (
	"context"
	"fmt"
	"io"
	"net"
	"net/url"
	"os"
	"sort"
	"strconv"
	"strings"
	"testing"
	"time"

	ag "verif/harness/internal/ammogen"
	"verif/harness/internal/pand"
	"verif/harness/internal/target"
	"verif/harness/internal/vf"

	"github.com/spf13/afero"
	"github.com/yandex/pandora/core/engine"
	"go.uber.org/zap"
	"go.uber.org/zap/zapcore"
	"pgregory.net/rapid"
)

type Entry struct {
	Path   []string `json:"path"` // path elements after the unique first one
	Slash  bool     `json:"trailing_slash"`
	Tag    string   `json:"tag"`
	Status int      `json:"status"`
	// "" | reset | timeout | short_body (Content-Length larger than what is sent before the close) |
	// short_chunked (a chunked body that ends inside a chunk). The last two fail AFTER status line and headers arrived.
	Fail string `json:"fail"`
	// NoPath: the request URI has no path at all (url.URL.Path == ""), so there is nothing to derive an auto-tag from:
	//   abs        http://e<i>.c10.example       (uri / raw: absolute URI; http/json: host + empty uri)
	//   abs_query  http://e<i>.c10.example?k=v
	//   query      ?e<i>=1                       (uri and http/json; raw request lines cannot be written that way: abs_query)
	// The entry is then recognised by the Host header or the query instead of the first path element.
	NoPath string `json:"no_path,omitempty"`
	// LocKind: the Location header of the answer - "" none | empty (`Location:` with nothing behind it) | wellformed |
	// malformed (a value url.Parse rejects). With `redirect: false` (the default) the guns do not follow redirects: the
	// answer IS the result of the shot, whatever its status (301/302/303/307/308 included) and whatever its Location
	// header says, so the sample carries the status received and net code 0 like for any other answer.
	LocKind  string `json:"location_kind,omitempty"`
	Location string `json:"location,omitempty"`
	// TagRel: how Tag is related to the auto-tag A the case's uri-elements derive from this entry's URI ("" = not at all:
	// words that hold no '/'): equals (Tag == A) | contains (A is a substring of Tag: ammo tagged by its path, by
	// method:path, by uri?query, a word glued to A) | within (Tag is a proper substring of A) | prefix (Tag and A start alike
	// and then differ). Tags are opaque: with no-tag-only off the sample reads "<Tag>|<A>" whatever the two look like.
	TagRel string `json:"tag_relation,omitempty"`
}

// redirectStatuses are the statuses an HTTP client that follows redirects would act on.
var redirectStatuses = []int{301, 302, 303, 307, 308}

func isRedirect(status int) bool {
	for _, s := range redirectStatuses {
		if s == status {
			return true
		}
	}
	return false
}

var (
	wellformedLocations = []string{"/next", "next?x=1", "http://other.c10.example/next", "//cdn.c10.example/a/b", "https://e.c10.example:8443/p?q=1#frag", "../up", "?only=query"}
	// none of these parses as a URL (checked by init)
	malformedLocations = []string{"http://[::1", "/next%zz", "http://exa mple.org/", ":next", "http://host:port/x", "%", "http://[fe80::1%en0]/", "/a%2", "http://a b/c", "1http:/%gg"}
)

func init() {
	for _, l := range wellformedLocations {
		if _, err := url.Parse(l); err != nil {
			panic(fmt.Sprintf("harness: %q is listed as a well-formed Location but does not parse: %v", l, err))
		}
	}
	for _, l := range malformedLocations {
		if _, err := url.Parse(l); err == nil {
			panic(fmt.Sprintf("harness: %q is listed as a malformed Location but parses", l))
		}
	}
}

// locationHeader is the Location header line of a hand-written answer ("" when the answer has none).
func (e Entry) locationHeader() string {
	if e.LocKind == "" {
		return ""
	}
	return "Location: " + e.Location + "\r\n"
}

// respHeader is the header map of a scripted answer.
func (e Entry) respHeader() map[string]string {
	if e.LocKind == "" {
		return nil
	}
	return map[string]string{"Location": e.Location}
}

type HTTPCase struct {
	Entries   []Entry `json:"entries"`
	AutoTag   bool    `json:"auto_tag"`
	Elements  int     `json:"uri_elements"`
	NoTagOnly bool    `json:"no_tag_only"`
	Instances int     `json:"instances"`
	Passes    int     `json:"passes"`
	Refused   bool    `json:"target_refuses"`
	Format    string  `json:"format"`
	// How the file is laid out and how far it is shot: http/json files are written one object per line, as pretty-printed
	// objects, or as one JSON array ("" = lines); the provider streams the file or preloads it; Limit (0 = none) and
	// Passes (0 = unlimited, only together with a limit) bound the run, so that shots = min of the non-zero bounds among
	// {limit, passes x entries} and the k-th ammo is entry k mod n.
	JSONLayout string `json:"json_layout,omitempty"`
	Preload    bool   `json:"preload,omitempty"`
	Limit      int    `json:"limit,omitempty"`
	// What the run logs, which is no part of what a sample says: LogLevel is the level of the logger the engine (and so
	// every gun, through Bind) gets - "" drops everything, "info", "debug" (config `log: level: debug`; the guns then
	// log every request and response with their bodies); AnswLog is the gun's `answlog` section: "" = not enabled,
	// else enabled with that filter (all | warning = 4xx and 5xx | error = 5xx), which dumps request and response.
	LogLevel string `json:"log_level,omitempty"`
	AnswLog  string `json:"answlog,omitempty"`
	// Gun is the gun kind: "" = http (HTTP/1.1 over TCP), connect (HTTP/1.1 through a CONNECT tunnel the target opens to
	// itself), http2 (HTTP/2 over TLS; the failure kinds are the HTTP/2 counterparts: reset = RST_STREAM without an answer,
	// short_body = the stream is reset after the headers and a first piece of the body; there is no chunked coding).
	Gun string `json:"gun,omitempty"`
	// RedirectOff: the gun's config says `redirect: false` in so many words instead of leaving the option at its default (false).
	RedirectOff bool `json:"redirect_false_written,omitempty"`
}

func (c HTTPCase) gunName() string {
	if c.Gun == "" {
		return "http"
	}
	return c.Gun
}

// bodyCut: the exchange fails after status line and headers were received, while the body is read.
func (e Entry) bodyCut() bool { return e.Fail == "short_body" || e.Fail == "short_chunked" }

// answLogged: the gun's answ log dumps this entry's exchange.
func (c HTTPCase) answLogged(e Entry) bool {
	switch c.AnswLog {
	case "all":
		return true
	case "warning":
		return e.Status >= 400
	case "error":
		return e.Status >= 500
	}
	return false
}

// engineLog is the logger of the given level; what it is handed is encoded (as a user's logger does) and dropped.
func engineLog(level string) *zap.Logger {
	var lvl zapcore.Level
	switch level {
	case "debug":
		lvl = zapcore.DebugLevel
	case "info":
		lvl = zapcore.InfoLevel
	default:
		return pand.NopLog()
	}
	return zap.New(zapcore.NewCore(zapcore.NewConsoleEncoder(zap.NewDevelopmentEncoderConfig()), zapcore.AddSync(io.Discard), lvl))
}

// shots: how many ammo the provider delivers (the entries in file order, again from the first one on every pass).
func (c HTTPCase) shots() int {
	x := c.Limit
	if c.Passes > 0 && (x == 0 || c.Passes*len(c.Entries) < x) {
		x = c.Passes * len(c.Entries)
	}
	return x
}

func (c HTTPCase) layoutName() string {
	if c.Format != "jsonline" {
		return c.Format
	}
	if c.JSONLayout == "" {
		return "jsonline_lines"
	}
	return "jsonline_" + c.JSONLayout
}

func genStatus(t *rapid.T) int {
	switch rapid.IntRange(0, 6).Draw(t, "statusKind") {
	case 0, 1:
		return 200
	case 2:
		return rapid.SampledFrom([]int{201, 204, 301, 302, 304, 400, 401, 403, 404, 429, 500, 502, 503, 504, 599}).Draw(t, "statusCommon")
	case 6:
		return rapid.SampledFrom(redirectStatuses).Draw(t, "statusRedirect")
	default:
		return rapid.IntRange(200, 599).Draw(t, "status")
	}
}

// genTag: one word, or (one tag in three) several words with blanks between them - a tag is the rest of the line behind
// the blank that delimits it (raw: "<size> <tag>", uri: "<uri> <tag>", uripost: "<size> <uri> <tag>") or a JSON string
// (http/json); pandora's own uri decoder test uses "some tag". Mostly single spaces, sometimes a run of spaces or a tab.
func genTag(t *rapid.T) string {
	word := rapid.StringMatching(`[a-zA-Z0-9_]{1,8}`)
	tag := word.Draw(t, "tag")
	if rapid.IntRange(0, 2).Draw(t, "tagMultiword") != 0 {
		return tag
	}
	for k := rapid.IntRange(1, 3).Draw(t, "tagMoreWords"); k > 0; k-- {
		tag += rapid.SampledFrom([]string{" ", " ", " ", " ", "  ", "\t", " : "}).Draw(t, "tagSep") + rapid.StringMatching(`[a-zA-Z0-9_.:=-]{1,6}`).Draw(t, "tagWord")
	}
	return tag
}

// genLocation draws the Location header of the entry's answer: most answers with a redirect status carry one (half of
// them one that does not parse), some answers with another status do as well (201 Created, 3xx that are no redirects).
func genLocation(t *rapid.T, e *Entry) {
	kinds := []string{"", "", "", "", "", "", "wellformed", "malformed"}
	if isRedirect(e.Status) {
		kinds = []string{"", "empty", "wellformed", "wellformed", "malformed", "malformed", "malformed", "malformed"}
	}
	e.LocKind = rapid.SampledFrom(kinds).Draw(t, "locKind")
	switch e.LocKind {
	case "wellformed":
		e.Location = rapid.SampledFrom(wellformedLocations).Draw(t, "location")
	case "malformed":
		e.Location = rapid.SampledFrom(malformedLocations).Draw(t, "location")
	}
}

func genHTTP(t *rapid.T) HTTPCase {
	c := HTTPCase{}
	n := rapid.IntRange(1, 8).Draw(t, "entries")
	for i := 0; i < n; i++ {
		e := Entry{Status: genStatus(t)}
		pe := rapid.IntRange(0, 4).Draw(t, "pathElems")
		for j := 0; j < pe; j++ {
			e.Path = append(e.Path, rapid.StringMatching(`[a-z0-9]{1,5}`).Draw(t, "elem"))
		}
		e.Slash = rapid.IntRange(0, 3).Draw(t, "slash") == 0
		if rapid.Bool().Draw(t, "tagged") {
			e.Tag = genTag(t)
		}
		genLocation(t, &e)
		if rapid.IntRange(0, 4).Draw(t, "fails") == 0 {
			// (short_chunked twice: the http2 cases, one in four, turn it into short_body)
			e.Fail = rapid.SampledFrom([]string{"reset", "timeout", "short_body", "short_chunked", "short_chunked"}).Draw(t, "fail")
			if e.bodyCut() && (e.Status == 204 || e.Status == 304) {
				e.Status = 200 // these statuses carry no body, so there is no body to cut short
			}
		}
		if rapid.IntRange(0, 3).Draw(t, "noPath") == 0 {
			e.NoPath = rapid.SampledFrom([]string{"abs", "abs_query", "query"}).Draw(t, "noPathKind")
			e.Path, e.Slash = nil, false
		}
		c.Entries = append(c.Entries, e)
	}
	c.AutoTag = rapid.Bool().Draw(t, "autoTag")
	c.Elements = rapid.IntRange(1, 3).Draw(t, "elements")
	c.NoTagOnly = rapid.Bool().Draw(t, "noTagOnly")
	if c.AutoTag && !c.NoTagOnly {
		// what "ammo tag + an auto-tag of nothing" should read like is not documented: path-less entries carry no tag then
		for i := range c.Entries {
			if c.Entries[i].NoPath != "" {
				c.Entries[i].Tag = ""
			}
		}
	}
	c.Instances = rapid.IntRange(1, 8).Draw(t, "instances")
	c.Refused = rapid.IntRange(0, 9).Draw(t, "refused") == 0
	// each of the three http/json layouts is as likely as each other format
	c.Format = rapid.SampledFrom([]string{"uri", "jsonline", "raw", "uripost", "jsonline", "jsonline"}).Draw(t, "format")
	if c.Format == "jsonline" {
		c.JSONLayout = rapid.SampledFrom([]string{"lines", "pretty", "array"}).Draw(t, "jsonLayout")
	}
	c.Preload = rapid.Bool().Draw(t, "preload")
	// bounds: passes alone, a limit with unlimited passes (the default of `passes`), or both; at most maxShots requests
	const maxShots = 24
	lim := 3 * n
	if lim > maxShots {
		lim = maxShots
	}
	switch rapid.SampledFrom([]string{"passes", "passes", "limit", "limit", "both"}).Draw(t, "bounds") {
	case "passes":
		c.Passes = rapid.IntRange(1, 3).Draw(t, "passes")
	case "limit":
		c.Limit = rapid.IntRange(1, lim).Draw(t, "limit")
	case "both":
		c.Passes = rapid.IntRange(1, 3).Draw(t, "passes")
		c.Limit = rapid.IntRange(1, lim).Draw(t, "limit")
	}
	// what is logged on the side: the codes of a sample do not depend on it
	c.LogLevel = rapid.SampledFrom([]string{"", "info", "debug", "debug"}).Draw(t, "logLevel")
	c.AnswLog = rapid.SampledFrom([]string{"", "", "all", "all", "warning", "error"}).Draw(t, "answLog")
	// the gun kind: all of them build their client the same way and report through the same code
	c.Gun = rapid.SampledFrom([]string{"", "", "connect", "http2"}).Draw(t, "gun")
	if c.Gun == "http2" {
		for i := range c.Entries {
			if c.Entries[i].Fail == "short_chunked" {
				c.Entries[i].Fail = "short_body" // HTTP/2 has no chunked coding
			}
		}
	}
	c.RedirectOff = rapid.Bool().Draw(t, "redirectFalseWritten")
	// one entry in three (of those with a path) is tagged by something derived from its own URI, as ammo generated from
	// access logs is (tag = path, method:path, the handler's prefix): the tag equals / contains / lies within / starts
	// like the auto-tag that this case's uri-elements derive from the same URI
	for i := range c.Entries {
		if c.Entries[i].NoPath != "" || rapid.IntRange(0, 2).Draw(t, "tagRelated") != 0 {
			continue
		}
		genRelatedTag(t, &c, i)
	}
	return c
}

// genRelatedTag tags entry i by a text related to its auto-tag (see Entry.TagRel).
func genRelatedTag(t *rapid.T, c *HTTPCase, i int) {
	e := &c.Entries[i]
	u := e.uri(i)
	a := autoTag(u, c.Elements)
	e.TagRel = rapid.SampledFrom([]string{"equals", "contains", "contains", "contains", "within", "within", "prefix"}).Draw(t, "tagRelation")
	switch e.TagRel {
	case "equals":
		e.Tag = a
	case "contains":
		e.Tag = rapid.SampledFrom([]string{u, u + "?id=1", "GET:" + u, "n" + a, a + "_v2", a + "/", "tag " + a, a + " x", a + a}).Draw(t, "tagContaining")
		if e.Tag == a { // (the whole path is the auto-tag when it has no more elements than uri-elements)
			e.TagRel = "equals"
		}
	case "within":
		e.Tag = rapid.SampledFrom([]string{a[1:], a[:len(a)-1], fmt.Sprintf("e%d", i), a[2:]}).Draw(t, "tagWithin")
	case "prefix":
		e.Tag = a[:len(a)-1] + "-" + rapid.StringMatching(`[a-z0-9]{1,3}`).Draw(t, "tagDiverges")
	}
	if (e.TagRel == "within" || e.TagRel == "prefix") && strings.Contains(e.Tag, a) || e.TagRel != "equals" && e.Tag == a {
		panic(fmt.Sprintf("harness: tag %q drawn as %q of auto-tag %q", e.Tag, e.TagRel, a))
	}
}

func entryHost(i int) string { return fmt.Sprintf("e%d.c10.example", i) }

// ammoURI is what the ammo file says; host is the entry's own Host ("" = none: the gun fills in the target's).
func (e Entry) ammoURI(i int, format string) (uri, host string) {
	kind := e.NoPath
	if kind == "query" && format == "raw" {
		kind = "abs_query"
	}
	switch kind {
	case "":
		return e.uri(i), ""
	case "query":
		return fmt.Sprintf("?e%d=1", i), ""
	}
	q := ""
	if kind == "abs_query" {
		q = "?k=v"
	}
	if format == "jsonline" {
		return q, entryHost(i) // the http/json provider builds "http://" + host + uri
	}
	return "http://" + entryHost(i) + q, ""
}

// entryOf recognises the entry a request belongs to: Host e<i>.c10.example, else the first path element /e<i>, else the query ?e<i>=1.
func entryOf(host, requestURI string) (int, bool) {
	if h, ok := strings.CutSuffix(host, ".c10.example"); ok {
		i, err := strconv.Atoi(strings.TrimPrefix(h, "e"))
		return i, err == nil
	}
	p, ok := strings.CutPrefix(requestURI, "/e")
	if !ok {
		if p, ok = strings.CutPrefix(requestURI, "/?e"); !ok {
			return 0, false
		}
	}
	if k := strings.IndexAny(p, "/?=&"); k >= 0 {
		p = p[:k]
	}
	i, err := strconv.Atoi(p)
	return i, err == nil
}

func (e Entry) uri(i int) string {
	p := fmt.Sprintf("/e%d", i)
	for _, el := range e.Path {
		p += "/" + el
	}
	if e.Slash {
		p += "/"
	}
	return p
}

func autoTag(path string, n int) string {
	parts := strings.Split(path[1:], "/")
	if n < len(parts) {
		parts = parts[:n]
	}
	return "/" + strings.Join(parts, "/")
}

func (c HTTPCase) wantTag(i int) string {
	e := c.Entries[i]
	tag := e.Tag
	if c.AutoTag && (!c.NoTagOnly || tag == "") && (e.NoPath == "" || tag == "") {
		a := autoTag(e.uri(i), c.Elements)
		if e.NoPath != "" {
			a = "" // no path elements: no auto-tag, "__EMPTY__ when there is none"
		}
		if tag == "" {
			tag = a
		} else {
			tag += "|" + a
		}
	}
	if tag == "" {
		tag = "__EMPTY__"
	}
	return tag
}

func (c HTTPCase) what() string {
	return fmt.Sprintf("%s ammo (%d entries, preload=%v, passes=%d, limit=%d, %d instances)", strings.ReplaceAll(c.layoutName(), "_", " "), len(c.Entries), c.Preload, c.Passes, c.Limit, c.Instances)
}

type phoutLine struct {
	tag   string
	id    uint64
	net   int
	proto int
}

func parsePhout(data string) ([]phoutLine, error) {
	var out []phoutLine
	for _, ln := range strings.Split(strings.TrimSuffix(data, "\n"), "\n") {
		if ln == "" {
			continue
		}
		f := strings.Split(ln, "\t")
		if len(f) < 12 {
			return nil, fmt.Errorf("phout line has %d columns, expected 12: %q", len(f), ln)
		}
		// a tag may hold tabs of its own: the time is the first column, the ten numbers are the last ten, the tag is what is between
		if extra := len(f) - 12; extra > 0 {
			f = append([]string{f[0], strings.Join(f[1:2+extra], "\t")}, f[2+extra:]...)
		}
		tagid := f[1]
		k := strings.LastIndex(tagid, "#")
		if k < 0 {
			return nil, fmt.Errorf("phout line without #id although ids are enabled: %q", ln)
		}
		id, err := strconv.ParseUint(tagid[k+1:], 10, 64)
		if err != nil {
			return nil, fmt.Errorf("bad id in %q", ln)
		}
		netc, err1 := strconv.Atoi(f[10])
		proto, err2 := strconv.Atoi(f[11])
		if err1 != nil || err2 != nil {
			return nil, fmt.Errorf("bad codes in %q", ln)
		}
		out = append(out, phoutLine{tag: tagid[:k], id: id, net: netc, proto: proto})
	}
	return out, nil
}

type ioRW = io.ReadWriter

func closedPort() string {
	l, err := net.Listen("tcp", "127.0.0.1:0")
	if err != nil {
		panic(err)
	}
	addr := l.Addr().String()
	l.Close()
	return addr
}

func checkHTTP(c HTTPCase, o *vf.Obs) error {
	// the entry a request belongs to (nil: not one of this case's requests)
	entryFor := func(r *target.Rec) *Entry {
		i, ok := entryOf(r.Host, r.RequestURI)
		if !ok || i < 0 || i >= len(c.Entries) {
			return nil
		}
		return &c.Entries[i]
	}
	var addr string
	if c.Gun == "http2" {
		tg, mu := target.SharedH2(true)
		mu.Lock()
		defer mu.Unlock()
		tg.Reset(nil, func(seq int, r *target.Rec, hs int) target.H2Resp {
			e := entryFor(r)
			if e == nil {
				return target.H2Resp{Resp: target.Resp{Status: 599}}
			}
			resp := target.H2Resp{Resp: target.Resp{Status: e.Status, Header: e.respHeader(), Body: []byte("body")}}
			switch e.Fail {
			case "reset":
				return target.H2Resp{AbortStream: true}
			case "timeout":
				resp.DelayMs = 600
			case "short_body":
				resp.AbortAfterHeaders = true
			}
			return resp
		})
		defer tg.Reset(nil, nil)
		addr = tg.Addr()
	} else {
		tg, mu := target.Shared(false)
		mu.Lock()
		defer mu.Unlock()
		tg.Reset(func(seq int, r *target.Rec) target.Resp {
			ep := entryFor(r)
			if ep == nil {
				return target.Resp{Status: 599}
			}
			e := *ep
			switch e.Fail {
			case "reset":
				return target.Resp{Hijack: func(conn net.Conn, _ ioRW) {
					if tc, ok := conn.(*net.TCPConn); ok {
						_ = tc.SetLinger(0)
					}
				}}
			case "timeout":
				return target.Resp{Status: e.Status, Header: e.respHeader(), DelayMs: 600}
			case "short_body":
				return target.Resp{Hijack: func(conn net.Conn, rw ioRW) {
					fmt.Fprintf(rw, "HTTP/1.1 %d X\r\n%sContent-Length: 100\r\nContent-Type: text/plain\r\n\r\nshort", e.Status, e.locationHeader())
				}}
			case "short_chunked":
				// one whole chunk, then a chunk announced with 0x40 bytes of which 9 arrive before the connection is closed
				return target.Resp{Hijack: func(conn net.Conn, rw ioRW) {
					fmt.Fprintf(rw, "HTTP/1.1 %d X\r\n%sTransfer-Encoding: chunked\r\nContent-Type: text/plain\r\n\r\n5\r\nwhole\r\n40\r\ncut short", e.Status, e.locationHeader())
				}}
			}
			return target.Resp{Status: e.Status, Header: e.respHeader(), Body: []byte("body")}
		})
		defer tg.Reset(nil)
		addr = tg.Addr()
	}
	f := ag.File{Format: c.Format}
	for i, e := range c.Entries {
		en := ag.Entry{Method: "GET", Tag: e.Tag}
		en.URI, en.Host = e.ammoURI(i, c.Format)
		if c.Format == "raw" {
			en.Host = "h.example.com" // superseded by the host of an absolute request URI
		}
		if c.Format == "uripost" {
			en.Method = "POST"
			en.Body = []byte(fmt.Sprintf("body%d", i))
		}
		f.Items = append(f.Items, ag.Item{Entry: &en})
	}
	if c.Format == "jsonline" {
		f.Layout.JSON = c.JSONLayout
		if f.Layout.JSON == "" {
			f.Layout.JSON = "lines"
		}
	}
	name := pand.WriteFile("c10", ".ammo", f.Render())
	defer pand.Remove(name)
	out := pand.TempName("c10", ".phout")
	defer pand.Remove(out)
	total := c.shots()
	ammoConf := map[string]any{"type": ag.ProviderType(c.Format), "file": name}
	if c.Passes > 0 {
		ammoConf["passes"] = c.Passes
	}
	if c.Limit > 0 {
		ammoConf["limit"] = c.Limit
	}
	if c.Preload {
		ammoConf["preload"] = true
	}
	if c.Refused {
		addr = closedPort()
	}
	gun := map[string]any{"type": c.gunName(), "target": addr, "response-header-timeout": "200ms",
		"dial":                  map[string]any{"timeout": "2s"},
		"tls-handshake-timeout": "10s", // (http2) connection set-up is not this check's subject
		"auto-tag":              map[string]any{"enabled": c.AutoTag, "uri-elements": c.Elements, "no-tag-only": c.NoTagOnly}}
	if c.RedirectOff {
		gun["redirect"] = false
	}
	if c.AnswLog != "" {
		// the answ log is a file of the real file system (lib/answlog: os.Create)
		af, err := os.CreateTemp("", "c10-answ-*.log")
		if err != nil {
			return fmt.Errorf("harness: %v", err)
		}
		_ = af.Close()
		defer os.Remove(af.Name())
		gun["answlog"] = map[string]any{"enabled": true, "path": af.Name(), "filter": c.AnswLog}
	}
	pool := map[string]any{
		"id": "p", "gun": gun,
		"ammo":    ammoConf,
		"result":  map[string]any{"type": "phout", "destination": out, "id": true},
		"rps":     map[string]any{"type": "once", "times": total + 5},
		"startup": map[string]any{"type": "once", "times": c.Instances},
	}
	var conf engine.Config
	if err := pand.Decode(map[string]any{"pools": []any{pool}}, &conf); err != nil {
		return fmt.Errorf("valid pool config rejected: %v", err)
	}
	eng := engine.New(engineLog(c.LogLevel), pand.Metrics(), conf)
	var runErr error
	ok, stacks := vf.Deadline(60*time.Second, func() { runErr = eng.Run(context.Background()) })
	if !ok {
		return fmt.Errorf("run did not finish in 60s\n%s", stacks)
	}
	if runErr != nil {
		return fmt.Errorf("run failed: %v", runErr)
	}
	eng.Wait()
	data, err := afero.ReadFile(pand.FS(), out)
	if err != nil {
		return fmt.Errorf("phout not written: %v", err)
	}
	lines, err := parsePhout(string(data))
	if err != nil {
		return err
	}
	if len(lines) != total {
		return fmt.Errorf("%s: %d samples for %d fired requests (each request must produce exactly one sample)\n%s", c.what(), len(lines), total, data)
	}
	// expected multiset of (tag, proto, net==0)
	type key struct {
		tag   string
		proto int
		netOK bool
	}
	want := map[key]int{}
	{
		for shot := 0; shot < total; shot++ {
			i := shot % len(c.Entries)
			e := c.Entries[i]
			k := key{tag: c.wantTag(i)}
			switch {
			case c.Refused:
				k.proto, k.netOK = 0, false
			case e.Fail == "reset" || e.Fail == "timeout":
				k.proto, k.netOK = 0, false
			case e.bodyCut():
				k.proto, k.netOK = e.Status, false
			default:
				k.proto, k.netOK = e.Status, true
			}
			want[k]++
		}
	}
	got := map[key]int{}
	gotNet := map[key][]string{}
	ids := map[uint64]bool{}
	for _, l := range lines {
		got[key{l.tag, l.proto, l.net == 0}]++
		if l.net != 0 {
			gotNet[key{l.tag, l.proto, false}] = append(gotNet[key{l.tag, l.proto, false}], fmt.Sprintf("net=%d", l.net))
		}
		if ids[l.id] {
			return fmt.Errorf("sample id %d appears twice within one run (%d instances)\n%s", l.id, c.Instances, data)
		}
		ids[l.id] = true
	}
	var diffs []string
	for k, n := range want {
		if got[k] != n {
			diffs = append(diffs, fmt.Sprintf("expected %d x {tag %q, proto %d, net==0 %v}, got %d", n, k.tag, k.proto, k.netOK, got[k]))
		}
	}
	for k, n := range got {
		if _, ok := want[k]; !ok {
			diffs = append(diffs, fmt.Sprintf("unexpected %d x {tag %q, proto %d, net==0 %v} %s", n, k.tag, k.proto, k.netOK, strings.Join(gotNet[k], " ")))
		}
	}
	if len(diffs) > 0 {
		sort.Strings(diffs)
		var answers []string
		for i, e := range c.Entries {
			if e.LocKind != "" || e.Fail != "" {
				answers = append(answers, fmt.Sprintf("entry %d (tag %q): status %d, fail %q, Location %s %q", i, e.Tag, e.Status, e.Fail, e.LocKind, e.Location))
			}
		}
		return fmt.Errorf("%s: samples differ from the model (%s gun, redirect: false; auto-tag enabled=%v elements=%d no-tag-only=%v; log level %q, answlog filter %q):\n  %s\n--- answers scripted with a Location header or a failure ---\n  %s\n--- phout ---\n%s", c.what(), c.gunName(), c.AutoTag, c.Elements, c.NoTagOnly, c.LogLevel, c.AnswLog, strings.Join(diffs, "\n  "), strings.Join(answers, "\n  "), data)
	}
	nonOK, fails := false, false
	// logging on the side x exchanges that fail while the body is read (entries that were shot, target reachable)
	o.Class("log_level_" + map[string]string{"": "none", "info": "info", "debug": "debug"}[c.LogLevel])
	o.ClassIf(c.AnswLog != "", "answlog_enabled")
	// (each class counted once per case)
	seen := map[string]bool{}
	mark := func(cond bool, name string) {
		if cond && !seen[name] {
			seen[name] = true
			o.Class(name)
		}
	}
	o.Class("gun_" + c.gunName())
	for i, e := range c.Entries {
		if i >= total {
			continue
		}
		// tags of several words (entries that were shot, whatever became of the request)
		if strings.ContainsAny(e.Tag, " \t") {
			mark(true, "tag_of_several_words")
			mark(true, "tag_of_several_words_"+c.Format)
			mark(strings.Contains(e.Tag, "\t") || strings.Contains(e.Tag, "  "), "tag_with_tab_or_run_of_spaces")
			mark(c.AutoTag && !c.NoTagOnly, "tag_of_several_words_with_auto_tag_appended")
		}
		// tags related to the entry's own URI (entries that were shot, whatever became of the request)
		if e.TagRel != "" {
			mark(true, "tag_related_to_uri")
			if c.AutoTag && !c.NoTagOnly {
				mark(true, "auto_tag_appended_to_related_tag")
				mark(true, "auto_tag_appended_to_tag_"+e.TagRel)
				mark(e.TagRel == "equals" || e.TagRel == "contains", "auto_tag_appended_to_tag_that_holds_it")
				mark(e.TagRel == "equals" || e.TagRel == "contains", "auto_tag_appended_to_tag_that_holds_it_gun_"+c.gunName())
				mark(e.TagRel == "contains" && total > len(c.Entries), "auto_tag_appended_to_tag_contains_reshot")
			} else {
				mark(c.AutoTag, "related_tag_alone_no_tag_only")
				mark(!c.AutoTag, "related_tag_alone_auto_tag_off")
			}
		}
		if c.Refused {
			continue
		}
		if e.Fail == "" {
			mark(c.LogLevel == "debug", "answered_with_debug_log")
			mark(c.answLogged(e), "answered_and_answ_logged")
			// answers with a redirect status / with a Location header, received in full
			_, perr := url.Parse(e.Location)
			unparsable := e.LocKind != "" && perr != nil
			loc := map[string]string{"": "absent", "empty": "absent", "wellformed": "wellformed", "malformed": "malformed"}[e.LocKind]
			if isRedirect(e.Status) {
				mark(true, "redirect_answered")
				mark(true, "redirect_answered_gun_"+c.gunName())
				mark(true, "redirect_location_"+loc)
				mark(e.LocKind == "empty", "redirect_location_empty")
				mark(unparsable, fmt.Sprintf("redirect_%d_location_malformed", e.Status))
				mark(unparsable, "redirect_location_malformed_gun_"+c.gunName())
				mark(unparsable && c.RedirectOff, "redirect_location_malformed_redirect_false_written")
				mark(unparsable && !c.RedirectOff, "redirect_location_malformed_redirect_left_at_default")
				mark(unparsable && c.LogLevel == "debug", "redirect_location_malformed_debug_log")
				mark(unparsable && c.answLogged(e), "redirect_location_malformed_answ_logged")
			} else {
				mark(unparsable, "location_malformed_on_other_status")
				mark(e.LocKind == "wellformed", "location_wellformed_on_other_status")
			}
		}
		if !e.bodyCut() {
			continue
		}
		mark(true, "body_cut_after_headers")
		mark(c.LogLevel == "debug", "body_cut_after_headers_debug_log")
		mark(c.LogLevel == "debug", "body_cut_after_headers_debug_log_"+e.Fail)
		mark(c.LogLevel == "info", "body_cut_after_headers_info_log")
		mark(c.answLogged(e), "body_cut_after_headers_answ_logged")
		mark(c.answLogged(e), "body_cut_after_headers_answ_logged_"+e.Fail)
		mark(c.answLogged(e) && c.LogLevel == "debug", "body_cut_after_headers_debug_log_and_answ_logged")
		mark(c.LogLevel == "" && !c.answLogged(e), "body_cut_after_headers_nothing_logged")
	}
	for _, e := range c.Entries {
		if e.NoPath != "" {
			o.Class("uri_without_path", "uri_without_path_"+e.NoPath)
			o.ClassIf(c.AutoTag && e.Tag == "", "auto_tag_of_uri_without_path_untagged")
			o.ClassIf(!c.AutoTag && e.Tag == "", "uri_without_path_untagged_auto_tag_off")
		}
		if e.Status >= 300 {
			nonOK = true
			o.Class(fmt.Sprintf("status_%dxx", e.Status/100))
		}
		if e.Fail != "" {
			fails = true
			o.Class("fail_" + e.Fail)
		}
	}
	o.ClassIf(c.Refused, "fail_refused")
	o.ClassIf(c.AutoTag, "auto_tag")
	o.ClassIf(c.AutoTag && !c.NoTagOnly, "auto_tag_appended")
	o.ClassIf(c.Instances >= 2, "instances_ge_2")
	o.Class("format_" + c.Format)
	// layout x preload x how far the file is shot: "reshot" = more shots than entries, i.e. from some point on every ammo
	// is an entry that was already shot (and released by its instance) once
	mode := "_stream"
	if c.Preload {
		mode = "_preload"
	}
	o.Class("layout_" + c.layoutName() + mode)
	o.ClassIf(c.Preload, "preload")
	if total > len(c.Entries) {
		o.Class("reshot", "reshot_"+c.layoutName()+mode)
		o.ClassIf(c.Passes == 0, "reshot_by_limit_with_unlimited_passes")
		o.ClassIf(c.Passes == 0, "reshot_by_limit_with_unlimited_passes_"+c.layoutName()+mode)
		o.ClassIf(c.Passes >= 2, "reshot_by_passes")
		tagged := false
		for _, e := range c.Entries {
			tagged = tagged || e.Tag != ""
		}
		o.ClassIf(tagged, "reshot_tagged_"+c.layoutName()+mode)
		o.ClassIf(total >= 2*len(c.Entries)+1, "third_pass_entered")
	}
	o.ClassIf(total < len(c.Entries), "limit_below_entries")
	if nonOK || fails || c.Refused || c.AutoTag || c.Instances >= 2 {
		o.NonTrivial()
	}
	return nil
}

func TestHTTPSamples(t *testing.T) {
	pand.Init()
	r := vf.Start(t, "C10")
	vf.Check(r, genHTTP, vf.LoadTolerant(25*time.Millisecond, checkHTTP))
}
