package c10

// "A scenario shot yields one such sample per executed step, tagged with the scenario's name and the step's name":
// generated HTTP scenarios whose steps carry postprocessors of every kind; the scripted target makes a step of some
// invocations fail (status the assertion rejects, body the assertion or the extractor rejects). Samples are read from
// the real phout output; one instance, so the sample stream is in execution order.

import (
	"context"
	"fmt"
	"net/url"
	"strconv"
	"strings"
	"sync"
	"testing"
	"time"

	"verif/harness/internal/pand"
	"verif/harness/internal/target"
	"verif/harness/internal/vf"

	"github.com/spf13/afero"
	"github.com/yandex/pandora/core/engine"
	"pgregory.net/rapid"
)

type SStep struct {
	Post  string `json:"postprocessor"` // none | assert_status | assert_body | jsonpath_then_assert | assert_then_jsonpath
	Count int    `json:"count"`
}

type SShot struct {
	BadReq int    `json:"bad_request"` // index into the expanded request list that gets the bad answer, -1 none
	Bad    string `json:"bad"`         // status500 | no_marker | redirect
	// Bad == "redirect": the request is answered (same body) with one of the redirect statuses 301/302/303/307/308 and a
	// Location header that is absent / empty / well-formed / not parsable as a URL (kinds as in TestHTTPSamples). The gun
	// does not follow redirects (`redirect` is false by default): the step was executed and answered, its sample carries
	// the status received; a status assertion rejects it like any other status that is not 200.
	Status   int    `json:"status,omitempty"`
	LocKind  string `json:"location_kind,omitempty"`
	Location string `json:"location,omitempty"`
}

type ScenCase struct {
	Steps []SStep `json:"steps"`
	Shots []SShot `json:"shots"`
}

func genScen(t *rapid.T) ScenCase {
	c := ScenCase{}
	n := rapid.IntRange(1, 4).Draw(t, "steps")
	total := 0
	for i := 0; i < n; i++ {
		st := SStep{Post: rapid.SampledFrom([]string{"none", "assert_status", "assert_body", "jsonpath_then_assert", "assert_then_jsonpath", "assert_size", "assert_size_and_body"}).Draw(t, "post"),
			Count: rapid.SampledFrom([]int{1, 1, 2, 3}).Draw(t, "count")}
		total += st.Count
		c.Steps = append(c.Steps, st)
	}
	k := rapid.IntRange(1, 5).Draw(t, "shots")
	for j := 0; j < k; j++ {
		s := SShot{BadReq: -1}
		if rapid.IntRange(0, 2).Draw(t, "bad") != 0 {
			s.BadReq = rapid.IntRange(0, total-1).Draw(t, "badReq")
			s.Bad = rapid.SampledFrom([]string{"status500", "no_marker", "redirect"}).Draw(t, "badKind")
			if s.Bad == "redirect" {
				e := Entry{Status: rapid.SampledFrom(redirectStatuses).Draw(t, "statusRedirect")}
				genLocation(t, &e)
				s.Status, s.LocKind, s.Location = e.Status, e.LocKind, e.Location
			}
		}
		c.Shots = append(c.Shots, s)
	}
	return c
}

func (c ScenCase) yaml() string {
	var sb strings.Builder
	sb.WriteString("requests:\n")
	for i, s := range c.Steps {
		fmt.Fprintf(&sb, "  - name: s%d\n    method: GET\n    uri: /s%d\n", i, i)
		assert := "      - type: assert/response\n        status_code: 200\n"
		assertBody := "      - type: assert/response\n        body: [\"ok-marker\"]\n"
		jp := "      - type: var/jsonpath\n        mapping:\n          v: $.key\n"
		switch s.Post {
		case "assert_status":
			sb.WriteString("    postprocessors:\n" + assert)
		case "assert_body":
			sb.WriteString("    postprocessors:\n" + assertBody)
		case "jsonpath_then_assert":
			sb.WriteString("    postprocessors:\n" + jp + assert)
		case "assert_then_jsonpath":
			sb.WriteString("    postprocessors:\n" + assertBody + jp)
		case "assert_size":
			// every answer of the target carries a body of 16-20 bytes: the size assertion holds for all of them
			sb.WriteString("    postprocessors:\n      - type: assert/response\n        size:\n          val: 5\n          op: \">\"\n")
		case "assert_size_and_body":
			sb.WriteString("    postprocessors:\n      - type: assert/response\n        body: [\"ok-marker\"]\n        size:\n          val: 1000\n          op: \"<\"\n")
		}
	}
	sb.WriteString("scenarios:\n  - name: scn\n    weight: 1\n    min_waiting_time: 0\n    requests:\n")
	for i, s := range c.Steps {
		if s.Count == 1 {
			fmt.Fprintf(&sb, "      - s%d\n", i)
		} else {
			fmt.Fprintf(&sb, "      - s%d(%d)\n", i, s.Count)
		}
	}
	return sb.String()
}

// rejects reports whether the step's postprocessors turn the bad answer into a failed step.
func rejects(post, bad string) bool {
	switch post {
	case "assert_status", "jsonpath_then_assert":
		return bad == "status500" || bad == "redirect"
	case "assert_body", "assert_then_jsonpath", "assert_size_and_body":
		return bad == "no_marker"
	}
	return false
}

func checkScen(c ScenCase, o *vf.Obs) error {
	var expanded []int // step index per request of one invocation
	for i, s := range c.Steps {
		for k := 0; k < s.Count; k++ {
			expanded = append(expanded, i)
		}
	}
	tg, mu := target.Shared(false)
	mu.Lock()
	defer mu.Unlock()
	// single instance, keep-alives off: requests arrive strictly in order; the harness follows the expected flow
	var smu sync.Mutex
	shot, pos := 0, 0
	tg.Reset(func(seq int, r *target.Rec) target.Resp {
		smu.Lock()
		defer smu.Unlock()
		good := target.Resp{Status: 200, Header: map[string]string{"Content-Type": "application/json"}, Body: []byte(`{"key": "ok-marker"}`)}
		if shot >= len(c.Shots) {
			return good
		}
		s := c.Shots[shot]
		resp := good
		failed := false
		if s.BadReq == pos {
			if s.Bad == "status500" {
				resp = target.Resp{Status: 500, Header: good.Header, Body: good.Body}
			} else if s.Bad == "redirect" {
				resp = target.Resp{Status: s.Status, Header: map[string]string{"Content-Type": "application/json"}, Body: good.Body}
				if s.LocKind != "" {
					resp.Header["Location"] = s.Location
				}
			} else {
				resp = target.Resp{Status: 200, Header: good.Header, Body: []byte(`{"key": "other"}`)}
			}
			failed = rejects(c.Steps[expanded[pos]].Post, s.Bad)
		}
		pos++
		if failed || pos >= len(expanded) {
			shot, pos = shot+1, 0
		}
		return resp
	})
	desc := c.yaml()
	name := pand.WriteFile("c10s", ".yaml", []byte(desc))
	defer pand.Remove(name)
	out := pand.TempName("c10s", ".phout")
	defer pand.Remove(out)
	pool := map[string]any{
		"id":      "p",
		"gun":     map[string]any{"type": "http/scenario", "target": tg.Addr(), "disable-keep-alives": true},
		"ammo":    map[string]any{"type": "http/scenario", "file": name, "limit": len(c.Shots)},
		"result":  map[string]any{"type": "phout", "destination": out},
		"rps":     map[string]any{"type": "once", "times": len(c.Shots) + 3},
		"startup": map[string]any{"type": "once", "times": 1},
	}
	var conf engine.Config
	if err := pand.Decode(map[string]any{"pools": []any{pool}}, &conf); err != nil {
		return fmt.Errorf("valid pool config rejected: %v\n%s", err, desc)
	}
	eng := engine.New(pand.NopLog(), pand.Metrics(), conf)
	var runErr error
	ok, stacks := vf.Deadline(60*time.Second, func() { runErr = eng.Run(context.Background()) })
	if !ok {
		return fmt.Errorf("run did not finish in 60s\n%s", stacks)
	}
	if runErr != nil {
		return fmt.Errorf("run failed: %v\n%s", runErr, desc)
	}
	eng.Wait()
	data, err := afero.ReadFile(pand.FS(), out)
	if err != nil {
		return fmt.Errorf("phout not written: %v", err)
	}
	var got []string // "<first tag element> <proto>"
	for _, ln := range strings.Split(strings.TrimSuffix(string(data), "\n"), "\n") {
		if ln == "" {
			continue
		}
		f := strings.Split(ln, "\t")
		if len(f) != 12 {
			return fmt.Errorf("phout line with %d columns: %q", len(f), ln)
		}
		code := f[11]
		if f[10] != "0" || f[11] == "0" {
			code = "FAILED" // a step that failed carries a non-zero net code / no protocol code: it is reported as failed
		}
		got = append(got, strings.SplitN(f[1], "|", 2)[0]+" "+code)
	}
	// ---- expected sample stream ----
	var want []string
	anyFail, failNotLast := false, false
	redirects := map[string]bool{} // what became of the steps answered with a redirect status (classes, once per case)
	for _, s := range c.Shots {
		for p, st := range expanded {
			proto := "200"
			failed := false
			if s.BadReq == p {
				if s.Bad == "status500" {
					proto = "500"
				}
				if s.Bad == "redirect" {
					proto = strconv.Itoa(s.Status)
				}
				failed = rejects(c.Steps[st].Post, s.Bad)
				if s.Bad == "redirect" {
					_, perr := url.Parse(s.Location)
					unparsable := s.LocKind != "" && perr != nil
					redirects[map[bool]string{true: "rejected_by_status_assertion", false: "not_rejected"}[failed]] = true
					if unparsable {
						redirects["location_malformed"] = true
						redirects[map[bool]string{true: "location_malformed_rejected_by_status_assertion", false: "location_malformed_not_rejected"}[failed]] = true
						if !failed && p < len(expanded)-1 {
							redirects["location_malformed_not_rejected_before_last_step"] = true
						}
					} else {
						redirects["location_"+map[string]string{"": "absent", "empty": "absent", "wellformed": "wellformed"}[s.LocKind]] = true
					}
				}
			}
			if failed {
				proto = "FAILED"
			}
			want = append(want, fmt.Sprintf("scn.s%d %s", st, proto))
			if failed {
				anyFail = true
				if p < len(expanded)-1 {
					failNotLast = true
				}
				break
			}
		}
	}
	if len(got) != len(want) {
		return fmt.Errorf("%d samples written, %d steps were executed (one sample per executed step expected)\n got  %v\n want %v\n--- scenario ---\n%s\nshots %+v",
			len(got), len(want), got, want, desc, c.Shots)
	}
	for i := range want {
		// a step that completed carries the status received; a step failed by a postprocessor is reported as failed
		if got[i] != want[i] {
			return fmt.Errorf("sample %d is %q, the step executed there is %q (tag = <scenario>.<step name>, code = status received)\n got  %v\n want %v\n--- scenario ---\n%s\nshots %+v",
				i, got[i], want[i], got, want, desc, c.Shots)
		}
	}
	for _, s := range c.Steps {
		o.Class("post_" + s.Post)
		o.ClassIf(s.Count > 1, "step_multiplicity")
	}
	o.ClassIf(len(redirects) > 0, "step_answered_with_redirect")
	for k := range redirects {
		o.Class("step_answered_with_redirect_" + k)
	}
	o.ClassIf(anyFail, "step_failed_by_postprocessor")
	o.ClassIf(failNotLast, "failure_before_last_step")
	if anyFail || len(redirects) > 0 {
		o.NonTrivial()
	}
	return nil
}

func TestScenarioSamples(t *testing.T) {
	pand.Init()
	r := vf.Start(t, "C10")
	vf.Check(r, genScen, vf.LoadTolerant(25*time.Millisecond, checkScen))
}
