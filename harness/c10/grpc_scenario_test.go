package c10

// gRPC half of "a scenario shot yields one such sample per executed step, tagged with the scenario's name and the
// step's ... tag (gRPC)": description files with SEVERAL scenarios (weighted) whose request lists draw on the same
// `calls:`, shot by 1-3 instances, so that one instance runs a call now as a step of one scenario and later as a step
// of another one.
//
// Oracle from the recording server's own log, not from a model of how the provider orders weighted scenarios: every
// call carries its name in the metadata x-step, and every scenario owns one call no other scenario lists (its marker),
// so the server's call sequence decomposes into scenario invocations in exactly one way (one instance), and the number
// of marker calls is the number of invocations of each scenario (any number of instances).

import (
	"context"
	"fmt"
	"sort"
	"strconv"
	"strings"
	"testing"
	"time"

	"verif/harness/internal/pand"
	"verif/harness/internal/target"
	"verif/harness/internal/vf"

	"github.com/spf13/afero"
	"github.com/yandex/pandora/core/engine"
	"google.golang.org/grpc/codes"
	"pgregory.net/rapid"
)

type GSCall struct {
	Tag    string `json:"tag"`
	Method string `json:"method"` // Hello | Auth | List | Order
	Code   int    `json:"grpc_code"`
	// postprocessor assert/response of the call (docs: "Upon assertion, further scenario execution is dropped"):
	// status_code (0 = not asserted; compared with the HTTP-style code of the status received) and payload
	// ("" = not asserted | "present": a word the answer holds | "missing": a word it does not hold)
	AssertStatus  int    `json:"assert_status_code,omitempty"`
	AssertPayload string `json:"assert_payload,omitempty"`
}

// words the scripted answers of the four methods hold
var gsAnswerWord = map[string]string{"Hello": "hword", "Auth": "tword", "List": "7777", "Order": "8888"}

func (cl GSCall) hasAssert() bool { return cl.AssertStatus != 0 || cl.AssertPayload != "" }

// rejects: the call's assertion does not hold for the answer the target gives it. The call was made and answered all
// the same: its step is an executed step, and the last one of its invocation.
func (cl GSCall) rejects() bool {
	if cl.AssertStatus != 0 && cl.AssertStatus != docCode(cl.Code) {
		return true
	}
	// a non-OK status comes without a response message: no word can be found in it
	return cl.AssertPayload == "missing" || (cl.AssertPayload == "present" && cl.Code != 0)
}

type GSStep struct {
	Call  int `json:"call"` // index into Calls; -1 = the scenario's own marker call
	Count int `json:"count"`
}

type GSScen struct {
	Name    string   `json:"name"`
	Weight  int      `json:"weight"`
	MarkTag string   `json:"marker_tag"`
	Steps   []GSStep `json:"steps"`
}

type GSCase struct {
	Calls     []GSCall `json:"calls"` // shared by the scenarios
	Scens     []GSScen `json:"scenarios"`
	Limit     int      `json:"ammo_limit"` // scenario invocations
	Instances int      `json:"instances"`
}

func genGS(t *rapid.T) GSCase {
	c := GSCase{}
	nc := rapid.IntRange(1, 4).Draw(t, "calls")
	for i := 0; i < nc; i++ {
		c.Calls = append(c.Calls, GSCall{
			Tag:    rapid.StringMatching(`[a-z]{1,5}`).Draw(t, "tag"), // calls may well carry the same tag
			Method: rapid.SampledFrom([]string{"Hello", "Auth", "List", "Order"}).Draw(t, "method"),
			Code:   rapid.SampledFrom([]int{0, 0, 0, 0, 5, 14, 16}).Draw(t, "code"),
		})
	}
	// half of the descriptions give their calls assert/response postprocessors, holding or not for what the target
	// answers: a rejected step has been executed (the call was answered), the rest of its invocation is not
	if rapid.Bool().Draw(t, "postprocessors") {
		for i := range c.Calls {
			cl := &c.Calls[i]
			real := docCode(cl.Code)
			switch rapid.SampledFrom([]string{"none", "none", "status_holds", "status_fails", "payload_holds", "payload_fails", "both_hold"}).Draw(t, "assert") {
			case "status_holds":
				cl.AssertStatus = real
			case "status_fails":
				var other []int
				for _, v := range []int{200, 400, 404, 500, 503, 401} {
					if v != real {
						other = append(other, v)
					}
				}
				cl.AssertStatus = rapid.SampledFrom(other).Draw(t, "assertStatus")
			case "payload_holds":
				cl.AssertPayload = "present"
			case "payload_fails":
				cl.AssertPayload = "missing"
			case "both_hold":
				cl.AssertStatus, cl.AssertPayload = real, "present"
			}
		}
	}
	ns := rapid.IntRange(2, 4).Draw(t, "scenarios")
	names := rapid.SliceOfNDistinct(rapid.StringMatching(`[a-z][a-z0-9_]{0,6}`), ns, ns, func(s string) string { return s }).Draw(t, "names")
	total := 0
	for i := 0; i < ns; i++ {
		sc := GSScen{Name: names[i], Weight: rapid.IntRange(1, 3).Draw(t, "weight"),
			MarkTag: rapid.StringMatching(`[a-z]{1,5}`).Draw(t, "markTag")}
		n := rapid.IntRange(1, 3).Draw(t, "steps")
		for j := 0; j < n; j++ {
			sc.Steps = append(sc.Steps, GSStep{Call: rapid.IntRange(0, nc-1).Draw(t, "call"), Count: rapid.SampledFrom([]int{1, 1, 1, 2, 3}).Draw(t, "count")})
		}
		at := rapid.IntRange(0, n).Draw(t, "markerAt")
		// the marker must run in every invocation: never behind a step whose assertion ends the invocation
		for j := 0; j < at; j++ {
			if c.Calls[sc.Steps[j].Call].rejects() {
				at = j
				break
			}
		}
		sc.Steps = append(sc.Steps[:at:at], append([]GSStep{{Call: -1, Count: 1}}, sc.Steps[at:]...)...)
		c.Scens = append(c.Scens, sc)
		total += sc.Weight
	}
	c.Limit = rapid.IntRange(total, 3*total).Draw(t, "limit")
	c.Instances = rapid.SampledFrom([]int{1, 1, 1, 2, 3}).Draw(t, "instances")
	return c
}

func gsPayload(method string) string {
	switch method {
	case "Auth":
		return `{"login": "l", "pass": "p"}`
	case "List":
		return `{"token": "t", "user_id": 1}`
	case "Order":
		return `{"token": "t", "user_id": 1, "item_id": 2}`
	}
	return `{"name": "n"}`
}

func (c GSCase) yaml() string {
	var sb strings.Builder
	sb.WriteString("calls:\n")
	call := func(name, tag, method string) {
		fmt.Fprintf(&sb, "  - name: %s\n    tag: %s\n    call: target.TargetService.%s\n    metadata:\n      x-step: %s\n    payload: '%s'\n",
			name, strconv.Quote(tag), method, name, gsPayload(method))
	}
	for i, cl := range c.Calls {
		call(fmt.Sprintf("c%d", i), cl.Tag, cl.Method)
		if cl.hasAssert() {
			sb.WriteString("    postprocessors:\n      - type: assert/response\n")
			if cl.AssertStatus != 0 {
				fmt.Fprintf(&sb, "        status_code: %d\n", cl.AssertStatus)
			}
			switch cl.AssertPayload {
			case "present":
				fmt.Fprintf(&sb, "        payload: [%s]\n", strconv.Quote(gsAnswerWord[cl.Method]))
			case "missing":
				sb.WriteString("        payload: [\"nosuchword\"]\n")
			}
		}
	}
	for i, sc := range c.Scens {
		call(fmt.Sprintf("m%d", i), sc.MarkTag, "Hello")
	}
	sb.WriteString("scenarios:\n")
	for i, sc := range c.Scens {
		fmt.Fprintf(&sb, "  - name: %s\n    weight: %d\n    min_waiting_time: 0\n    requests:\n", strconv.Quote(sc.Name), sc.Weight)
		for _, st := range sc.Steps {
			name := fmt.Sprintf("c%d", st.Call)
			if st.Call < 0 {
				name = fmt.Sprintf("m%d", i)
			}
			if st.Count == 1 {
				fmt.Fprintf(&sb, "      - %s\n", name)
			} else {
				fmt.Fprintf(&sb, "      - %s(%d)\n", name, st.Count)
			}
		}
	}
	return sb.String()
}

// flat: the call names of one invocation of scenario i, in order: its request list up to and including the first step
// whose assertion does not hold
func (c GSCase) flat(i int) []string {
	var out []string
	for _, st := range c.Scens[i].Steps {
		name := fmt.Sprintf("c%d", st.Call)
		if st.Call < 0 {
			name = fmt.Sprintf("m%d", i)
		}
		for k := 0; k < max(1, st.Count); k++ {
			out = append(out, name)
			if st.Call >= 0 && c.Calls[st.Call].rejects() {
				return out
			}
		}
	}
	return out
}

type gsSample struct {
	tag   string
	proto int
}

// want: the sample of call `name` executed as a step of scenario i
func (c GSCase) want(i int, name string) gsSample {
	if name[0] == 'm' {
		return gsSample{c.Scens[i].Name + "." + c.Scens[i].MarkTag, 200}
	}
	k, _ := strconv.Atoi(name[1:])
	return gsSample{c.Scens[i].Name + "." + c.Calls[k].Tag, docCode(c.Calls[k].Code)}
}

func checkGS(c GSCase, o *vf.Obs) error {
	if len(c.Scens) == 0 || c.Instances < 1 {
		return fmt.Errorf("harness: bad case")
	}
	for _, sc := range c.Scens {
		for _, st := range sc.Steps {
			if st.Call >= len(c.Calls) {
				return fmt.Errorf("harness: bad case")
			}
		}
	}
	for i := range c.Scens {
		if !strings.Contains(" "+strings.Join(c.flat(i), " ")+" ", fmt.Sprintf(" m%d ", i)) {
			return fmt.Errorf("harness: the marker call of scenario %d is behind a step that ends the invocation", i)
		}
	}
	tg, mu := target.SharedGRPC()
	mu.Lock()
	defer mu.Unlock()
	stepOf := func(call *target.GCall) string {
		if v := call.MD.Get("x-step"); len(v) == 1 {
			return v[0]
		}
		return ""
	}
	tg.ResetScript(func(call *target.GCall) target.GResp {
		r := target.GResp{Code: codes.OK, Hello: gsAnswerWord["Hello"], Token: gsAnswerWord["Auth"], UserID: 1, Items: []int64{7777}, OrderID: 8888}
		if s := stepOf(call); strings.HasPrefix(s, "c") {
			if k, err := strconv.Atoi(s[1:]); err == nil && k >= 0 && k < len(c.Calls) {
				r.Code = codes.Code(c.Calls[k].Code)
			}
		}
		return r
	})
	desc := c.yaml()
	name := pand.WriteFile("c10gs", ".yaml", []byte(desc))
	defer pand.Remove(name)
	out := pand.TempName("c10gs", ".phout")
	defer pand.Remove(out)
	gun := map[string]any{"type": "grpc/scenario", "target": tg.Addr(), "timeout": "5s"}
	pool := map[string]any{
		"id": "p", "gun": gun,
		"ammo":    map[string]any{"type": "grpc/scenario", "file": name, "limit": c.Limit},
		"result":  map[string]any{"type": "phout", "destination": out},
		"rps":     map[string]any{"type": "once", "times": c.Limit + 5},
		"startup": map[string]any{"type": "once", "times": c.Instances},
	}
	var conf engine.Config
	if err := pand.Decode(map[string]any{"pools": []any{pool}}, &conf); err != nil {
		return fmt.Errorf("valid pool config rejected: %v\n%s", err, desc)
	}
	eng := engine.New(pand.NopLog(), pand.Metrics(), conf)
	var runErr error
	ok, stacks := vf.Deadline(60*time.Second, func() { runErr = eng.Run(context.Background()) })
	if !ok {
		return fmt.Errorf("run did not finish in 60s\n%s", stacks)
	}
	if runErr != nil {
		return fmt.Errorf("run failed: %v\n%s", runErr, desc)
	}
	eng.Wait()
	fail := func(format string, a ...any) error {
		return fmt.Errorf(format+"\n--- description ---\n%s", append(a, desc)...)
	}

	// ---- what the server saw ----
	var steps []string
	for _, call := range tg.Calls() {
		s := stepOf(&call)
		if s == "" {
			return fail("a %s call arrived without the x-step metadata every call of the description carries", call.Method)
		}
		steps = append(steps, s)
	}
	invs := make([]int, len(c.Scens)) // invocations per scenario = calls of its marker
	for _, s := range steps {
		if s[0] == 'm' {
			k, err := strconv.Atoi(s[1:])
			if err != nil || k < 0 || k >= len(c.Scens) {
				return fail("a call arrived with x-step=%q that no call of the description carries", s)
			}
			invs[k]++
		}
	}
	totalInv := 0
	wantCalls := map[string]int{}
	for i, n := range invs {
		totalInv += n
		for _, s := range c.flat(i) {
			wantCalls[s] += n
		}
	}
	if totalInv != c.Limit {
		return fail("%d scenario invocations reached the server (by their marker calls: %v), the ammo limit is %d", totalInv, invs, c.Limit)
	}
	gotCalls := map[string]int{}
	for _, s := range steps {
		gotCalls[s]++
	}
	if fmt.Sprint(sortedCounts(gotCalls)) != fmt.Sprint(sortedCounts(wantCalls)) {
		return fail("calls at the server %v; the scenarios invoked %v times (by their marker calls) list %v", sortedCounts(gotCalls), invs, sortedCounts(wantCalls))
	}

	// ---- the samples ----
	data, err := afero.ReadFile(pand.FS(), out)
	if err != nil {
		return fmt.Errorf("phout not written: %v", err)
	}
	var got []gsSample
	for _, ln := range strings.Split(strings.TrimSuffix(string(data), "\n"), "\n") {
		if ln == "" {
			continue
		}
		f := strings.Split(ln, "\t")
		if len(f) != 12 {
			return fmt.Errorf("phout line with %d columns: %q", len(f), ln)
		}
		proto, err := strconv.Atoi(f[11])
		if err != nil {
			return fmt.Errorf("phout line with proto code %q: %q", f[11], ln)
		}
		got = append(got, gsSample{f[1], proto})
	}
	if len(got) != len(steps) {
		return fail("%d samples for %d executed steps (calls at the server)\n--- phout ---\n%s", len(got), len(steps), data)
	}
	reshot := false // one instance ran a call as a step of one scenario and later as a step of another
	if c.Instances == 1 {
		// one instance: calls and samples are both in execution order; decompose the call sequence into invocations
		var want []gsSample
		lastScen := map[string]int{}
		var order []string
		for pos := 0; pos < len(steps); {
			match := -1
			for i := range c.Scens {
				fl := c.flat(i)
				if pos+len(fl) <= len(steps) && fmt.Sprint(steps[pos:pos+len(fl)]) == fmt.Sprint(fl) {
					match = i
					break
				}
			}
			if match < 0 {
				return fail("the calls that reached the server from the only instance are not a sequence of whole scenarios: %v, stuck at position %d", steps, pos)
			}
			for _, s := range c.flat(match) {
				want = append(want, c.want(match, s))
				if prev, seen := lastScen[s]; seen && prev != match {
					reshot = true
				}
				lastScen[s] = match
			}
			order = append(order, c.Scens[match].Name)
			pos += len(c.flat(match))
		}
		for k := range want {
			if got[k] != want[k] {
				return fail("sample %d is {tag %q, proto %d}; step %d at the server was call %s run by scenario %q, whose sample is {tag %q, proto %d} (invocations in order: %v)\n--- phout ---\n%s",
					k+1, got[k].tag, got[k].proto, k+1, steps[k], strings.SplitN(want[k].tag, ".", 2)[0], want[k].tag, want[k].proto, order, data)
			}
		}
	} else {
		wantN, gotN := map[string]int{}, map[string]int{}
		for i, n := range invs {
			for _, s := range c.flat(i) {
				w := c.want(i, s)
				wantN[fmt.Sprintf("{tag %q, proto %d}", w.tag, w.proto)] += n
			}
		}
		for _, g := range got {
			gotN[fmt.Sprintf("{tag %q, proto %d}", g.tag, g.proto)]++
		}
		if fmt.Sprint(sortedCounts(gotN)) != fmt.Sprint(sortedCounts(wantN)) {
			return fail("samples %v; the scenarios were invoked %v times (by their marker calls), whose steps make %v\n--- phout ---\n%s",
				sortedCounts(gotN), invs, sortedCounts(wantN), data)
		}
	}

	// ---- classes ----
	users := map[int]map[int]bool{} // shared call -> scenarios that were invoked and ran it
	var rejected []GSCall           // calls whose assertion ended an invocation
	cutShort := false               // ... with steps of the request list left unexecuted
	for i := range c.Scens {
		if invs[i] == 0 {
			continue
		}
		fl := c.flat(i)
		for _, s := range fl {
			if s[0] == 'c' {
				k, _ := strconv.Atoi(s[1:])
				if users[k] == nil {
					users[k] = map[int]bool{}
				}
				users[k][i] = true
			}
		}
		if last := fl[len(fl)-1]; last[0] == 'c' {
			if k, _ := strconv.Atoi(last[1:]); c.Calls[k].rejects() {
				rejected = append(rejected, c.Calls[k])
				full := 0
				for _, st := range c.Scens[i].Steps {
					full += max(1, st.Count)
				}
				cutShort = cutShort || len(fl) < full
			}
		}
	}
	sharedShot, nonOK := false, false
	for k, u := range users {
		if len(u) >= 2 {
			sharedShot = true
		}
		if c.Calls[k].Code != 0 {
			nonOK = true
		}
	}
	invoked := 0
	for _, n := range invs {
		if n > 0 {
			invoked++
		}
	}
	o.ClassIf(invoked >= 2, "several_scenarios_invoked")
	o.ClassIf(invoked >= 3, "three_or_more_scenarios_invoked")
	o.ClassIf(sharedShot, "call_shared_by_invoked_scenarios")
	o.ClassIf(reshot, "one_instance_reruns_a_call_in_another_scenario")
	o.ClassIf(c.Instances >= 2, "instances_ge_2")
	o.ClassIf(c.Instances >= 2 && sharedShot, "instances_ge_2_with_shared_call")
	o.ClassIf(nonOK, "step_with_non_ok_status")
	holds := false
	for k := range users {
		holds = holds || (c.Calls[k].hasAssert() && !c.Calls[k].rejects())
	}
	o.ClassIf(holds, "step_with_assertion_that_holds")
	o.ClassIf(len(rejected) > 0, "step_rejected_by_postprocessor")
	o.ClassIf(cutShort, "invocation_cut_short_by_postprocessor")
	var rejOK, rejNonOK, rejStatus, rejPayload bool
	for _, cl := range rejected {
		byStatus := cl.AssertStatus != 0 && cl.AssertStatus != docCode(cl.Code)
		rejOK = rejOK || cl.Code == 0
		rejNonOK = rejNonOK || cl.Code != 0
		rejStatus = rejStatus || byStatus
		rejPayload = rejPayload || !byStatus
	}
	o.ClassIf(rejOK, "rejected_step_answered_ok")
	o.ClassIf(rejNonOK, "rejected_step_answered_non_ok")
	o.ClassIf(rejStatus, "rejected_by_status_code_assertion")
	o.ClassIf(rejPayload, "rejected_by_payload_assertion")
	o.ClassIf(len(rejected) > 0 && c.Instances >= 2, "instances_ge_2_with_rejected_step")
	if (sharedShot && invoked >= 2) || len(rejected) > 0 {
		o.NonTrivial()
	}
	o.Note("invocations", invs)
	return nil
}

func sortedCounts(m map[string]int) []string {
	var out []string
	for k, v := range m {
		out = append(out, fmt.Sprintf("%s=%d", k, v))
	}
	sort.Strings(out)
	return out
}

// TestGRPCScenarioTags: several scenarios sharing calls; every step sample carries the name of the scenario it ran in.
func TestGRPCScenarioTags(t *testing.T) {
	pand.Init()
	r := vf.Start(t, "C10")
	vf.Check(r, genGS, vf.LoadTolerant(25*time.Millisecond, checkGS))
}
