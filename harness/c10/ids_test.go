package c10

// "The ids that HTTP ammo attaches to its samples are unique within a run": the ids are issued in Provider.Acquire,
// which every instance calls from its own goroutine. 2-16 consumers drain a real provider of tens of thousands of
// ammo as fast as they can; every id must be handed out once.

import (
	"context"
	"fmt"
	"strings"
	"sync"
	"testing"
	"time"

	"verif/harness/internal/pand"
	"verif/harness/internal/provrun"
	"verif/harness/internal/vf"

	"github.com/yandex/pandora/core"
	"pgregory.net/rapid"
)

type IDCase struct {
	Kind      string `json:"provider"` // uri | uri_preload | http/scenario
	Entries   int    `json:"entries"`
	Total     int    `json:"limit"`
	Consumers int    `json:"consumers"`
}

func genIDs(t *rapid.T) IDCase {
	return IDCase{
		Kind:      rapid.SampledFrom([]string{"uri", "uri_preload"}).Draw(t, "kind"),
		Entries:   rapid.IntRange(1, 4).Draw(t, "entries"),
		Total:     rapid.SampledFrom([]int{2000, 20000, 60000}).Draw(t, "limit"),
		Consumers: rapid.SampledFrom([]int{2, 4, 8, 16}).Draw(t, "consumers"),
	}
}

type ider interface{ ID() uint64 }

func checkIDs(c IDCase, o *vf.Obs) error {
	conf := map[string]any{"limit": c.Total}
	var files []string
	defer func() {
		for _, f := range files {
			pand.Remove(f)
		}
	}()
	if c.Kind == "http/scenario" {
		var sb strings.Builder
		sb.WriteString("requests:\n  - name: r\n    method: GET\n    uri: /x\nscenarios:\n")
		for i := 0; i < c.Entries; i++ {
			fmt.Fprintf(&sb, "  - name: s%d\n    weight: 1\n    min_waiting_time: 0\n    requests: [r]\n", i)
		}
		name := pand.WriteFile("c10ids", ".yaml", []byte(sb.String()))
		files = append(files, name)
		conf["type"], conf["file"] = "http/scenario", name
	} else {
		var sb strings.Builder
		for i := 0; i < c.Entries; i++ {
			fmt.Fprintf(&sb, "/e%d t%d\n", i, i)
		}
		name := pand.WriteFile("c10ids", ".ammo", []byte(sb.String()))
		files = append(files, name)
		conf["type"], conf["file"] = "uri", name
		if c.Kind == "uri_preload" {
			conf["preload"] = true
		}
	}
	p, err := provrun.Build(conf)
	if err != nil {
		return fmt.Errorf("valid provider config rejected: %v", err)
	}
	ctx, cancel := context.WithCancel(context.Background())
	defer cancel()
	runDone := make(chan error, 1)
	go func() { runDone <- p.Run(ctx, core.ProviderDeps{Log: pand.NopLog(), PoolID: "verif"}) }()
	ids := make([][]uint64, c.Consumers)
	var wg sync.WaitGroup
	var sink vf.ErrSink
	gate := make(chan struct{})
	for k := 0; k < c.Consumers; k++ {
		k := k
		vf.GoErr(&wg, &sink, func() {
			<-gate
			for {
				a, ok := p.Acquire()
				if !ok {
					return
				}
				if x, isIDer := a.(ider); isIDer {
					ids[k] = append(ids[k], x.ID())
				} else {
					sink.Set(fmt.Errorf("ammo of type %T carries no id", a))
				}
				p.Release(a)
			}
		})
	}
	close(gate)
	okDone, stacks := vf.Deadline(60*time.Second, wg.Wait)
	if !okDone {
		return fmt.Errorf("consumers did not see end of ammo within 60s\n%s", stacks)
	}
	if e := sink.Get(); e != nil {
		return e
	}
	select {
	case err := <-runDone:
		if err != nil {
			return fmt.Errorf("provider finished with %v", err)
		}
	case <-time.After(20 * time.Second):
		return fmt.Errorf("provider.Run did not return after its limit")
	}
	seen := make(map[uint64]int, c.Total)
	n := 0
	for k := range ids {
		for _, id := range ids[k] {
			seen[id]++
			n++
		}
	}
	if n != c.Total {
		return fmt.Errorf("%d ammo delivered, limit %d", n, c.Total)
	}
	dups := 0
	var ex uint64
	for id, cnt := range seen {
		if cnt > 1 {
			dups += cnt - 1
			ex = id
		}
	}
	if dups > 0 {
		return fmt.Errorf("%d of %d ammo acquired by %d concurrent consumers carry an id that another ammo of the run also carries (e.g. id %d was issued %d times)",
			dups, n, c.Consumers, ex, seen[ex])
	}
	o.Class("ids_"+c.Kind, fmt.Sprintf("consumers_%d", c.Consumers))
	if c.Consumers >= 4 && c.Total >= 20000 {
		o.NonTrivial()
	}
	return nil
}

func TestIDsUnique(t *testing.T) {
	pand.Init()
	r := vf.Start(t, "C10")
	vf.Check(r, genIDs, checkIDs)
}
