package zprobe

import (
	"fmt"
	"testing"
	"time"

	"verif/harness/internal/pand"
	"verif/harness/internal/provrun"
)

func TestProbe(t *testing.T) {
	pand.Init()
	for _, content := range []string{"", "\n\n", "   "} {
		for _, passes := range []int{0, 2} {
			name := pand.WriteFile("zp", ".json", []byte(content))
			conf := map[string]any{"type": "json", "source": map[string]any{"type": "file", "path": name}, "passes": passes, "limit": 5}
			p, err := provrun.Build(conf)
			if err != nil {
				fmt.Println("build", err)
				continue
			}
			t0 := time.Now()
			res, err := provrun.Drain(p, 3, 1, 2*time.Second, nil)
			fmt.Printf("content=%q passes=%d -> items=%d runErr=%v hung=%q err=%v took=%v\n", content, passes, len(res.Items), res.RunErr, res.Hung, err, time.Since(t0))
		}
	}
}
