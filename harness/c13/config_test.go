// F7: hostile values (placeholders, wrong types, absurd numbers) in scalar
// positions of a pool configuration, through pandora's real config decoding
// (config.DecodeAndValidate into engine.Config) and the lazily decoded factories.
package c13

import (
	"bytes"
	"context"
	"encoding/json"
	"fmt"
	"os"
	"path/filepath"
	"regexp"
	"sort"
	"strings"
	"sync"
	"testing"

	"verif/harness/internal/pand"
	"verif/harness/internal/vf"

	"github.com/yandex/pandora/core/engine"
	"gopkg.in/yaml.v2"
	"pgregory.net/rapid"
)

// ConfCase is one input of F7: Conf is the configuration as decoded from YAML/JSON
// (maps, lists, strings, float64, bool, nil).
type ConfCase struct {
	Base       string         `json:"base"`
	Conf       map[string]any `json:"conf"`
	Ops        []string       `json:"ops,omitempty"`
	MustReject string         `json:"must_reject,omitempty"`
}

var baseConfigs = map[string]string{
	"uri_inline": `
pools:
  - id: p1
    gun: {type: http, target: "127.0.0.1:80"}
    ammo: {type: uri, uris: ["/a", "/b tag"], limit: 2, passes: 1, headers: ["[Host: x]"]}
    result: {type: discard}
    rps: [{type: once, times: 1}, {type: const, ops: 1, duration: 1s}]
    startup: {type: once, times: 1}
`,
	"raw_file_phout": `
pools:
  - id: p2
    gun: {type: http, target: "127.0.0.1:80", ssl: false, dial: {timeout: 1s}}
    ammo: {type: raw, file: /c13conf/ammo.raw, limit: 1, preload: true, chosencases: [tag]}
    result: {type: phout, destination: /c13conf/phout.log}
    rps: {type: line, from: 1, to: 2, duration: 1s}
    startup: {type: once, times: 2}
    discard_overflow: true
`,
	"grpc_json": `
pools:
  - id: p3
    gun: {type: grpc, target: "127.0.0.1:1", timeout: 1s}
    ammo: {type: grpc/json, file: /c13conf/ammo.grpc, limit: 1, passes: 1, continueonerror: false}
    result: {type: discard}
    rps: {type: step, from: 1, to: 3, step: 1, duration: 1s}
    startup: {type: once, times: 1}
`,
	"http_scenario": `
pools:
  - id: p4
    gun: {type: http/scenario, target: "127.0.0.1:80"}
    ammo: {type: http/scenario, file: /c13conf/scen.yaml, limit: 1}
    result: {type: discard}
    rps: {type: unlimited, duration: 1s}
    startup: {type: instance_step, from: 1, to: 2, step: 1, stepduration: 1s}
`,
}

var confFiles = map[string]string{
	"/c13conf/ammo.raw":  "38 tag\nGET /a HTTP/1.1\r\nHost: example.org\r\n\r\n\n",
	"/c13conf/ammo.grpc": `{"tag": "t", "call": "target.TargetService.Hello", "payload": {"name": "x"}}` + "\n",
	"/c13conf/scen.yaml": "requests:\n  - name: r\n    method: GET\n    uri: /x\nscenarios:\n  - name: s\n    requests: [r]\n",
}

var (
	confOnce     sync.Once
	propFile string
)

// confSetup writes the files the base configs refer to and a real properties file
// (the property resolver reads the OS filesystem).
func confSetup() {
	confOnce.Do(func() {
		pand.Init()
		for k, v := range confFiles {
			if f, err := pand.FS().Create(k); err == nil {
				_, _ = f.Write([]byte(v))
				_ = f.Close()
			}
		}
		// fixed name: a replayed case refers to the same file (all writers write the same bytes)
		propFile = filepath.Join(os.TempDir(), "c13-verif.properties")
		_ = os.WriteFile(propFile, []byte("key=1\nname=/a\nempty=\nnoeq\n"), 0o644)
		os.Setenv("C13_SET", "1")
		os.Setenv("C13_STR", "/a")
	})
}

func yamlToConf(text []byte) (map[string]any, error) {
	var raw any
	if err := yaml.Unmarshal(text, &raw); err != nil {
		return nil, err
	}
	m, ok := normYAML(raw).(map[string]any)
	if !ok {
		return nil, fmt.Errorf("top level is %T, not a map", raw)
	}
	return m, nil
}

func normYAML(v any) any {
	switch x := v.(type) {
	case map[any]any:
		out := make(map[string]any, len(x))
		for k, e := range x {
			out[fmt.Sprint(k)] = normYAML(e)
		}
		return out
	case map[string]any:
		for k, e := range x {
			x[k] = normYAML(e)
		}
		return x
	case []any:
		for i := range x {
			x[i] = normYAML(x[i])
		}
		return x
	}
	return v
}

// jsonNorm makes the generated configuration identical to what a replay decodes.
func jsonNorm(m map[string]any) map[string]any {
	b, err := json.Marshal(m)
	if err != nil {
		return m
	}
	var out map[string]any
	if json.Unmarshal(b, &out) != nil {
		return m
	}
	return out
}

type leaf struct {
	path string
	set  func(v any)
	del  func()
	val  any
}

func leaves(prefix string, v any, out *[]leaf) {
	switch x := v.(type) {
	case map[string]any:
		keys := make([]string, 0, len(x))
		for k := range x {
			keys = append(keys, k)
		}
		sort.Strings(keys)
		for _, k := range keys {
			k := k
			switch x[k].(type) {
			case map[string]any, []any:
				leaves(prefix+"."+k, x[k], out)
			default:
				*out = append(*out, leaf{path: prefix + "." + k, val: x[k], set: func(v any) { x[k] = v }, del: func() { delete(x, k) }})
			}
			// the container itself can also be replaced by a scalar
			if _, isMap := x[k].(map[string]any); isMap {
				*out = append(*out, leaf{path: prefix + "." + k + "{}", val: nil, set: func(v any) { x[k] = v }, del: func() { delete(x, k) }})
			}
		}
	case []any:
		for i := range x {
			i := i
			switch x[i].(type) {
			case map[string]any, []any:
				leaves(fmt.Sprintf("%s[%d]", prefix, i), x[i], out)
			default:
				*out = append(*out, leaf{path: fmt.Sprintf("%s[%d]", prefix, i), val: x[i], set: func(v any) { x[i] = v }, del: func() { x[i] = nil }})
			}
		}
	}
}

// placeholders that cannot be resolved: decoding must fail
func unresolvable() []string {
	return []string{"${env:NO_SUCH_VAR_C13}", "${NO_SUCH_VAR_C13}", "${env:}", "${ENV: NO_SUCH_VAR_C13 }", "x${env:NO_SUCH_VAR_C13}y",
		"${property:/no/such/file#k}", "${property:" + propFile + "#nokey}", "${property:" + propFile + "#}", "${property:#key}"}
}

var noKeyPlaceholders = []string{"${property:file}", "${property:/etc/hostname}", "x${property: a }y", "${PROPERTY:" + "file}"}

func resolvable() []string {
	return []string{"${env:C13_SET}", "${C13_SET}", "${env:C13_STR}", "${property:" + propFile + "#key}", "${property:" + propFile + "#name}", "${property:" + propFile + "#empty}",
		"${env:C13_SET}${env:C13_SET}", " ${env:C13_SET} "}
}

var inertStrings = []string{"${", "${}", "${:}", "$", "${unknown:x}", "${env:${env:C13_SET}}", "$${env:C13_SET}", "${{}}", "${env", "}", "${a{b}c}", "", " ", "\x00", "1e3", "NaN", "-1", "99999999999", "0x10",
	"1s", "-1s", "99999999999h", "[Host x]", "127.0.0.1:99999", ":", "[::1]:80", strings.Repeat("${", 2000), strings.Repeat("${env:", 500) + strings.Repeat("}", 500)}

var wrongTypes = []any{nil, []any{}, map[string]any{}, float64(-1), float64(99999999999), 1.5, true, []any{"x"}, map[string]any{"type": "x"}, float64(0), 1e300}

func genConfCase(r *vf.Run) func(t *rapid.T) ConfCase {
	return func(t *rapid.T) ConfCase {
		confSetup()
		names := make([]string, 0, len(baseConfigs))
		for k := range baseConfigs {
			names = append(names, k)
		}
		sort.Strings(names)
		c := ConfCase{Base: rapid.SampledFrom(names).Draw(t, "base")}
		conf, err := yamlToConf([]byte(baseConfigs[c.Base]))
		if err != nil {
			panic(err)
		}
		conf = jsonNorm(conf)
		nops := rapid.SampledFrom([]int{0, 1, 1, 1, 1, 2}).Draw(t, "nops")
		for i := 0; i < nops; i++ {
			var ls []leaf
			leaves("", conf, &ls)
			l := ls[rapid.IntRange(0, len(ls)-1).Draw(t, "leaf")]
			kind := rapid.SampledFrom([]string{"unresolvable", "unresolvable", "nokey", "resolvable", "inert", "wrong_type", "delete", "unknown_key"}).Draw(t, "kind")
			if kind == "nokey" && r != nil && r.IsKnown(fPropertyNoKey) {
				r.Excluded(fPropertyNoKey)
				kind = "unresolvable"
			}
			isContainer := strings.HasSuffix(l.path, "{}")
			switch kind {
			case "unresolvable":
				v := rapid.SampledFrom(unresolvable()).Draw(t, "placeholder")
				l.set(v)
				if i == nops-1 && !isContainer {
					c.MustReject = fmt.Sprintf("%s = %q cannot be resolved", l.path, v)
				}
			case "nokey":
				v := rapid.SampledFrom(noKeyPlaceholders).Draw(t, "placeholder")
				l.set(v)
				if i == nops-1 && !isContainer {
					c.MustReject = fmt.Sprintf("%s = %q has no '#key'", l.path, v)
				}
			case "resolvable":
				l.set(rapid.SampledFrom(resolvable()).Draw(t, "placeholder"))
			case "inert":
				l.set(rapid.SampledFrom(inertStrings).Draw(t, "string"))
			case "wrong_type":
				w := wrongTypes[rapid.IntRange(0, len(wrongTypes)-1).Draw(t, "wrong")]
				if f, isNum := w.(float64); isNum && f > canaryNumber && r != nil && r.IsKnown(fStepHuge) && (strings.HasSuffix(l.path, ".to") || strings.HasSuffix(l.path, ".from")) {
					// an absurd bound of a step / instance_step schedule: the shape of the listed finding
					r.Excluded(fStepHuge)
					w = float64(-1)
				}
				l.set(w)
			case "delete":
				l.del()
			case "unknown_key":
				conf["pools"].([]any)[0].(map[string]any)[rapid.SampledFrom([]string{"nosuch", "ID", "rps ", ""}).Draw(t, "key")] = "x"
			}
			c.Ops = append(c.Ops, kind+"@"+l.path)
		}
		c.Conf = jsonNorm(conf)
		return c
	}
}

func checkConf(c ConfCase, o *vf.Obs) error {
	confSetup()
	note := func(k string, v any) {
		if o != nil {
			o.Note(k, v)
		}
	}
	b, _ := json.Marshal(c.Conf)
	classify := func(err error) error {
		if v, ok := err.(*violation); ok && v.id == "" && strings.Contains(v.msg, "ALLOCATION") && (bytes.Contains(b, []byte(`"step"`)) || bytes.Contains(b, []byte(`"instance_step"`))) {
			v.id = fStepHuge
		}
		return err
	}
	// absurd numbers kill the worker when the code materialises what they say: probe with 3e6 first
	if probe, ok := confCanary(c.Conf); ok {
		pc := c
		pc.Conf = probe
		if err := judge(note, len(b), smallCeiling, func() error {
			return bounded("config decode", func(_ context.Context) error { return confBody(pc, nil) })
		}); err != nil {
			err = classify(err)
			if v, ok := err.(*violation); ok {
				v.msg = "with every number above 3e6 replaced by 3e6: " + v.msg
			}
			return err
		}
	}
	return classify(judge(note, len(b), smallCeiling, func() error {
		return bounded("config decode", func(_ context.Context) error { return confBody(c, o) })
	}))
}

const canaryNumber = 3000000

var bigDigits = regexp.MustCompile(`[0-9]{8,}`)

// confCanary returns a copy of conf in which every number above 3e6 (also inside
// strings) is 3e6; ok is false when there is none.
func confCanary(conf map[string]any) (map[string]any, bool) {
	found := false
	var walk func(v any) any
	walk = func(v any) any {
		switch x := v.(type) {
		case map[string]any:
			out := make(map[string]any, len(x))
			for k, e := range x {
				out[k] = walk(e)
			}
			return out
		case []any:
			out := make([]any, len(x))
			for i, e := range x {
				out[i] = walk(e)
			}
			return out
		case float64:
			if x > canaryNumber {
				found = true
				return float64(canaryNumber)
			}
			if x < -canaryNumber {
				found = true
				return float64(-canaryNumber)
			}
		case string:
			if bigDigits.MatchString(x) {
				found = true
				return bigDigits.ReplaceAllString(x, fmt.Sprint(canaryNumber))
			}
		}
		return v
	}
	out := walk(conf).(map[string]any)
	return out, found
}

func confBody(c ConfCase, o *vf.Obs) error {
	class := func(names ...string) {
		if o != nil {
			o.Class(names...)
		}
	}
	class("base_" + c.Base)
	for _, op := range c.Ops {
		class("op_" + op[:strings.IndexByte(op, '@')])
	}
	if len(c.Ops) == 0 {
		class("unmodified")
	} else if o != nil {
		o.NonTrivial()
	}
	var ec engine.Config
	err := pand.Decode(c.Conf, &ec)
	rejected := err != nil
	if err == nil {
		if len(ec.Pools) == 0 {
			return violationf("config decoded without error into zero pools")
		}
		for i, p := range ec.Pools {
			if p.Provider == nil || p.Aggregator == nil || p.NewGun == nil || p.NewRPSSchedule == nil || p.StartupSchedule == nil {
				return violationf("config decoded without error but pool %d lacks a required component: %+v", i, p)
			}
			// sections decoded lazily, inside the factories
			if s, e := p.NewRPSSchedule(); e != nil {
				rejected = true
			} else if s == nil {
				return violationf("NewRPSSchedule returned (nil, nil)")
			}
			if g, e := p.NewGun(); e != nil {
				rejected = true
			} else if g == nil {
				return violationf("NewGun returned (nil, nil)")
			}
		}
	}
	if rejected {
		class("rejected")
	} else {
		class("accepted")
		if len(c.Ops) == 0 {
			class("unmodified_accepted")
		}
	}
	if _, isBase := baseConfigs[c.Base]; isBase && len(c.Ops) == 0 && rejected {
		return violationf("harness: the unmodified base config %s is rejected: %v", c.Base, err)
	}
	if c.MustReject != "" {
		class("must_reject")
		if !rejected {
			return violationf("config accepted although %s (ops %v)", c.MustReject, c.Ops)
		}
	}
	return nil
}

func TestF7Config(t *testing.T) {
	pand.Init()
	r := vf.Start(t, "C13")
	vf.Check(r, genConfCase(r), withExcuse(r, checkConf))
}

// FuzzConfig feeds YAML bytes through the same decode path.
func FuzzConfig(f *testing.F) {
	confSetup()
	var inline []string
	for _, v := range baseConfigs {
		inline = append(inline, v, strings.Replace(v, "p", "${property:x}", 1), strings.Replace(v, "1", "${env:}", 1))
	}
	addCorpus(f, "FuzzConfig", func(b []byte) { f.Add(b) }, inline...)
	f.Fuzz(func(t *testing.T, data []byte) {
		if len(data) > 1<<15 {
			return
		}
		var conf map[string]any
		if err := guard("yaml", func() (e error) { conf, e = yamlToConf(data); return nil }); err != nil || conf == nil {
			return // not the code under test (the CLI reads the file with viper)
		}
		conf = jsonNorm(conf)
		if conf == nil {
			return
		}
		fuzzVerdict(t, checkConf(ConfCase{Base: "fuzz", Conf: conf}, nil))
	})
}
