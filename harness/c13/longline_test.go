// Meta cases whose "garbage" is one very long line behind valid entries (added after seeded defect C13/m7): a line
// longer than the reader's token limit must end the run with an error after the valid entries in front of it were
// delivered - whatever passes / limit say -, it must not be dropped silently together with the rest of the file.
package c13

import (
	"bytes"
	"encoding/json"
	"fmt"
	"strings"

	ag "verif/harness/internal/ammogen"

	"pgregory.net/rapid"
)

const scanTokenSize = 64 * 1024 // bufio.MaxScanTokenSize

const longCall = "target.TargetService.Hello"

// longGEntry is the grpc/json entry a LongLine of shape "entry" renders to (exactly l.Len bytes).
func longGEntry(l LongLine) GEntry {
	e := GEntry{Tag: "long", Call: longCall, Payload: map[string]any{"name": ""}}
	base, _ := json.Marshal(e)
	if pad := l.Len - len(base); pad > 0 {
		e.Payload["name"] = strings.Repeat(l.Fill, pad)
	}
	return e
}

// longLineBytes renders the line (without newline).
func longLineBytes(format string, l LongLine) []byte {
	switch l.Shape {
	case "entry":
		switch format {
		case fmtGRPC:
			b, _ := json.Marshal(longGEntry(l))
			return b
		case "jsonline":
			const head, tail = `{"method":"POST","uri":"/long","tag":"long","body":"`, `"}`
			return []byte(head + strings.Repeat(l.Fill, max(0, l.Len-len(head)-len(tail))) + tail)
		default: // uri
			return []byte("/" + strings.Repeat(l.Fill, max(0, l.Len-1)))
		}
	case "header":
		return []byte("[" + strings.Repeat(l.Fill, max(0, l.Len-1)))
	}
	return bytes.Repeat([]byte(l.Fill), l.Len)
}

// longVerdict says what the format's documentation lets a provider do with the line:
//
//	must_reject        the line is malformed (junk, a header that never closes), or longer than grpc/json's "maximum number of
//	                   byte in an ammo": Run returns an error after exactly the valid entries in front of it
//	deliver            a well-formed entry within the reader's limit: delivered like any other
//	reject_or_deliver  a well-formed entry longer than a limit the format's documentation does not state (uri) or the code does
//	                   not apply (http/json): either of the two, but never dropped silently
func longVerdict(c AmmoCase) string {
	l := c.Long
	switch {
	case l.Shape != "entry":
		return "must_reject"
	case !l.Over:
		return "deliver"
	case c.Format == fmtGRPC:
		return "must_reject"
	}
	return "reject_or_deliver"
}

func genLong(t *rapid.T, c *AmmoCase) {
	l := &LongLine{Fill: rapid.SampledFrom([]string{"a", "x"}).Draw(t, "long_fill")}
	c.Long = l
	shapes := []string{"junk"}
	switch c.Format {
	case fmtGRPC:
		shapes = []string{"entry", "entry", "junk"}
		l.LineLimit = scanTokenSize
		if rapid.Bool().Draw(t, "max_ammo_size_set") {
			c.MaxAmmoSize = rapid.SampledFrom([]int{512, 1024, 4096, 20000}).Draw(t, "max_ammo_size")
			l.LineLimit = c.MaxAmmoSize
		}
	case "uri":
		shapes = []string{"entry", "entry", "header"}
		l.LineLimit = scanTokenSize
	case "jsonline":
		shapes = []string{"entry", "junk"}
		l.LineLimit = scanTokenSize
	}
	l.Shape = rapid.SampledFrom(shapes).Draw(t, "long_shape")
	if l.Shape == "junk" {
		l.Fill = rapid.SampledFrom([]string{"a", "x", "{", "\""}).Draw(t, "junk_fill")
	}
	switch {
	case l.LineLimit == 0:
		// uripost, raw: beyond bufio.Reader's 4 KiB buffer
		l.Len = rapid.SampledFrom([]int{5000, 9000, 66000, 70000}).Draw(t, "long_len")
	case l.Shape == "entry" && rapid.IntRange(0, 3).Draw(t, "within_limit") == 0:
		// stays off the boundary: a line of LineLimit-1 bytes and its newline fill the reader's buffer exactly
		l.Len = l.LineLimit - rapid.SampledFrom([]int{2, 3, 16, l.LineLimit / 4}).Draw(t, "long_under")
	default:
		l.Over = true
		l.Len = l.LineLimit + rapid.SampledFrom([]int{1, 2, 7, 64, 4500, l.LineLimit / 16}).Draw(t, "long_over")
	}
	l.Terminated = true

	var data []byte
	if c.Format == fmtGRPC {
		c.GValid = genGEntries(t, 1, 4)
		c.ContinueOnError = rapid.Bool().Draw(t, "continue_on_error")
		data = renderGEntries(c.GValid)
		if rapid.Bool().Draw(t, "suffix") {
			c.GSuffix = genGEntries(t, 1, 2)
		}
	} else {
		f := ag.Gen(t, c.Format, ag.GenOpts{MinEntries: 1, MaxEntries: 4})
		f.Layout.Inline = false
		c.Valid = &f
		c.Preload = rapid.Bool().Draw(t, "preload")
		data = f.Render()
		if len(data) == 0 || data[len(data)-1] != '\n' {
			data = append(data, '\n')
		}
	}
	data = append(data, longLineBytes(c.Format, *l)...)
	if len(c.GSuffix) > 0 {
		data = append(append(data, '\n'), renderGEntries(c.GSuffix)...)
	} else if l.Terminated = rapid.Bool().Draw(t, "long_terminated"); l.Terminated {
		data = append(data, '\n')
	}
	c.Data = data
	c.Garbage = fmt.Sprintf("<a line of %d bytes: %s of %q, line limit %d>", l.Len, l.Shape, l.Fill, l.LineLimit)

	verdict := longVerdict(*c)
	c.MustReject = verdict == "must_reject"
	c.Passes = rapid.SampledFrom([]int{0, 1, 2, 2}).Draw(t, "passes")
	c.Limit = rapid.SampledFrom([]int{0, 0, 1, 2, 5, 12}).Draw(t, "limit")
	if c.ContinueOnError && c.MustReject {
		// "rejected, or skipped where continue-on-error is requested": the skipped outcome is judged without a limit
		c.Limit = 0
	}
	if c.Passes == 0 && c.Limit == 0 && (!c.MustReject || c.ContinueOnError) {
		c.Passes = 2 // an outcome that delivers has to end by itself
	}
}

// longBound is the number of entries after which the harness stops consuming an unlimited case (passes: 0, no limit):
// three passes' worth of what the file holds; the case is only generated when the very first pass must end in an error.
func longBound(c AmmoCase, E int) int {
	return 3*(E+1+len(c.GSuffix)) + 2
}

// judgeLong is the verdict of a long-line meta case. E = number of valid entries in front of the line.
func judgeLong(c AmmoCase, res drainRes, gotValidG []GEntry, invalidG, E int, class func(...string)) error {
	l := c.Long
	verdict := longVerdict(c)
	class("meta_long_line", "meta_long_line_"+verdict, "meta_long_line_shape_"+l.Shape, fmt.Sprintf("meta_long_line_passes_%d", c.Passes))
	if l.Over {
		class("meta_long_line_over_limit")
		if c.MaxAmmoSize != 0 {
			class("meta_long_line_over_max_ammo_size")
		}
		if c.Limit > E {
			class("meta_long_line_over_limit_with_limit")
		}
		if len(c.GSuffix) > 0 {
			class("meta_long_line_over_limit_then_valid")
		}
	}
	grpc := c.Format == fmtGRPC
	S := len(c.GSuffix)
	what := fmt.Sprintf("%s (passes=%d limit=%d preload=%v continueonerror=%v maxammosize=%d): %s after %d valid entries", c.Format, c.Passes, c.Limit,
		c.Preload, c.ContinueOnError, c.MaxAmmoSize, c.Garbage, E)
	valid := res.Delivered
	if grpc {
		valid = len(gotValidG)
	}

	if c.Limit > 0 && c.Limit <= E {
		// the valid entries in front of the line use the limit up: whether the provider looks at the line at all is its business
		class("meta_long_line_behind_limit")
		if !c.Preload && valid != c.Limit {
			return violationf("%s: %d entries delivered, limit %d lies within the valid entries", what, valid, c.Limit)
		}
		if grpc {
			if err := sameGEntries(c.GValid[:c.Limit], gotValidG); err != nil {
				return violationf("%s: %v", what, err)
			}
		}
		return nil
	}

	// what a provider that takes the long line hands out in total
	perPass := E + 1 + S
	full := c.Passes * perPass
	if c.Passes == 0 || (c.Limit > 0 && c.Limit < full) {
		full = c.Limit
	}
	rejected := func() error {
		if res.RunErr == nil || (!grpc && !res.RunEndedItself) {
			return violationf("%s: not rejected: Run returned %v (ended by itself: %v) after %d entries", what, res.RunErr, res.RunEndedItself, res.Delivered)
		}
		if grpc {
			if invalidG != 0 {
				return violationf("%s: %d entries marked invalid before the error %q", what, invalidG, res.RunErr)
			}
			if err := sameGEntries(c.GValid, gotValidG); err != nil {
				return violationf("%s: before the error %q: %v", what, res.RunErr, err)
			}
			return nil
		}
		if (!c.Preload && res.Delivered != E) || res.Delivered > E {
			return violationf("%s: %d entries delivered before the error %q", what, res.Delivered, res.RunErr)
		}
		return nil
	}
	delivered := func() error {
		if res.RunErr != nil {
			return violationf("%s: Run returned %v", what, res.RunErr)
		}
		if grpc {
			pass := append(append(append([]GEntry{}, c.GValid...), longGEntry(*l)), c.GSuffix...)
			var want []GEntry
			for len(want) < full {
				want = append(want, pass...)
			}
			if invalidG != 0 {
				return violationf("%s: %d entries marked invalid", what, invalidG)
			}
			if err := sameGEntries(want[:full], gotValidG); err != nil {
				return violationf("%s: Run returned nil: %v", what, err)
			}
			return nil
		}
		if res.Delivered != full {
			return violationf("%s: Run returned nil after %d entries; the file holds %d per pass, so %d are due", what, res.Delivered, perPass, full)
		}
		return nil
	}
	switch verdict {
	case "deliver":
		class("meta_long_line_delivered")
		return delivered()
	case "reject_or_deliver":
		if res.RunErr == nil {
			class("meta_long_line_delivered")
			return delivered()
		}
		class("meta_long_line_rejected")
		return rejected()
	}
	if grpc && c.ContinueOnError && res.RunErr == nil {
		// skipped: every good line of every pass, the long one marked invalid once per pass
		class("meta_long_line_skipped")
		pass := append(append([]GEntry{}, c.GValid...), c.GSuffix...)
		var want []GEntry
		for ps := 0; ps < c.Passes; ps++ {
			want = append(want, pass...)
		}
		if err := sameGEntries(want, gotValidG); err != nil {
			return violationf("%s: Run returned nil (the line skipped): %v", what, err)
		}
		if invalidG != c.Passes {
			return violationf("%s: Run returned nil (the line skipped): %d entries marked invalid, one per pass (%d) is due", what, invalidG, c.Passes)
		}
		return nil
	}
	class("meta_long_line_rejected")
	return rejected()
}
