// Deterministic minimal witnesses of the findings of C13. A witness that still
// fails calls r.KnownHit(id) when the finding is listed as known (the driver then
// prints KNOWN-FINDING); when it is not listed the witness fails like any other
// case (VIOLATION), and once the defect is repaired it simply passes.
package c13

import (
	"os"
	"testing"

	ag "verif/harness/internal/ammogen"
	"verif/harness/internal/pand"
	"verif/harness/internal/vf"

	"pgregory.net/rapid"
)

// WitnessCase is one fixed input; exactly one of the members is set.
type WitnessCase struct {
	ID     string      `json:"id"`
	Ammo   *AmmoCase   `json:"ammo,omitempty"`
	Scen   *ScenCase   `json:"scenario,omitempty"`
	Conf   *ConfCase   `json:"config,omitempty"`
	Parser *ParserCase `json:"parser,omitempty"`
}

const scenReq = "requests:\n  - name: r\n    method: GET\n    uri: /x\n"

func witnesses() []WitnessCase {
	one := ag.Entry{Method: "GET", URI: "/a", Host: "h.example.com"}
	rawV := ag.File{Format: "raw", Items: []ag.Item{{Entry: &one}}}
	jsonV := ag.File{Format: "jsonline", Items: []ag.Item{{Entry: &ag.Entry{Method: "GET", URI: "/a"}}}, Layout: ag.Layout{JSON: "array"}}
	return []WitnessCase{
		{ID: fLeadingSleep, Scen: &ScenCase{Kind: "http", Syntax: "yaml", Passes: 1, Origin: "witness", MustReject: "the request list starts with sleep()",
			Text: []byte(scenReq + "scenarios:\n  - name: s\n    requests: [\"sleep(5)\", r]\n")}},
		{ID: fLeadingSleep, Scen: &ScenCase{Kind: "grpc", Syntax: "yaml", Passes: 1, Origin: "witness", MustReject: "the request list starts with sleep()",
			Text: []byte("calls:\n  - name: c\n    call: target.TargetService.Hello\n    payload: '{}'\nscenarios:\n  - name: s\n    requests: [\"sleep(5)\", c]\n")}},
		{ID: fXpathNonNodeSet, Parser: &ParserCase{Target: "xpath", Origin: "witness", In: []byte("count(//div)"), Body: []byte("<div></div>")}},
		{ID: fXpathEval, Parser: &ParserCase{Target: "xpath", Origin: "witness", In: []byte("number('x')"), Body: []byte("<div></div>")}},
		{ID: fXpathEval, Parser: &ParserCase{Target: "xpath", Origin: "witness", In: []byte("1 - //a/@href"), Body: []byte("<a href='/x'>l</a>")}},
		{ID: fPropertyNoKey, Conf: &ConfCase{Base: "witness", MustReject: "the property placeholder has no '#key'", Ops: []string{"nokey@.pools[0].id"},
			Conf: witnessConf("${property:file}")}},
		{ID: fNegativeWeight, Scen: &ScenCase{Kind: "http", Syntax: "yaml", Passes: 1, Origin: "witness",
			Text: []byte(scenReq + "scenarios:\n  - name: a\n    weight: -5\n    requests: [r]\n  - name: b\n    weight: 1\n    requests: [r]\n")}},
		{ID: fNullItem, Scen: &ScenCase{Kind: "http", Syntax: "yaml", Passes: 1, Origin: "witness",
			Text: []byte("variable_sources:\n  -\n" + scenReq + "scenarios:\n  - name: s\n    requests: [r]\n")}},
		{ID: fNullItem, Scen: &ScenCase{Kind: "http", Syntax: "yaml", Passes: 1, Origin: "witness",
			Text: []byte("requests:\n  - name: r\n    method: GET\n    uri: /x\n    postprocessors:\n      -\nscenarios:\n  - name: s\n    requests: [r]\n")}},
		{ID: fYAMLKey, Scen: &ScenCase{Kind: "http", Syntax: "yaml", Passes: 1, Origin: "witness", Text: []byte("scenarios:\n- 0: x\n")}},
		{ID: fHugeStepCount, Scen: &ScenCase{Kind: "http", Syntax: "yaml", Passes: 1, Origin: "witness",
			Text: []byte(scenReq + "scenarios:\n  - name: s\n    requests: [\"r(1000000)\"]\n")}},
		{ID: fHugeWeight, Scen: &ScenCase{Kind: "http", Syntax: "yaml", Passes: 1, Origin: "witness",
			Text: []byte(scenReq + "scenarios:\n  - name: a\n    weight: 40000000\n    requests: [r]\n  - name: b\n    weight: 1\n    requests: [r]\n")}},
		{ID: fStepHuge, Conf: &ConfCase{Base: "witness", Ops: []string{"wrong_type@.pools[0].rps.to"}, Conf: witnessStepConf()}},
		{ID: fGrpcEmptySpin, Ammo: &AmmoCase{Format: fmtGRPC, Mode: "bytes", Origin: "witness", Data: []byte(""), Limit: 5, Passes: 0}},
		{ID: fRawLastLine, Ammo: &AmmoCase{Format: "raw", Mode: "meta", Origin: "meta", Valid: &rawV, Garbage: "abc", MustReject: true, Passes: 1,
			Data: append(rawV.Render(), "abc"...)}},
		{ID: fJSONArrayTrailer, Ammo: &AmmoCase{Format: "jsonline", Mode: "meta", Origin: "meta", Valid: &jsonV, Garbage: "{bad", MustReject: true, Passes: 1,
			Data: append(jsonV.Render(), "{bad\n"...)}},
	}
}

func witnessConf(id string) map[string]any {
	conf, err := yamlToConf([]byte(baseConfigs["uri_inline"]))
	if err != nil {
		panic(err)
	}
	conf["pools"].([]any)[0].(map[string]any)["id"] = id
	return jsonNorm(conf)
}

func witnessStepConf() map[string]any {
	conf, err := yamlToConf([]byte(baseConfigs["grpc_json"]))
	if err != nil {
		panic(err)
	}
	conf["pools"].([]any)[0].(map[string]any)["rps"].(map[string]any)["to"] = float64(99999999999)
	return jsonNorm(conf)
}

func checkWitness(c WitnessCase, o *vf.Obs) error {
	switch {
	case c.Ammo != nil:
		return checkAmmo(*c.Ammo, o)
	case c.Scen != nil:
		return checkScen(*c.Scen, o)
	case c.Conf != nil:
		return checkConf(*c.Conf, o)
	case c.Parser != nil:
		return checkParser(*c.Parser, o)
	}
	return nil
}

// TestWitnesses runs every fixed witness once, without rapid (VERIF_REPLAY still
// re-runs a single one through vf.Check).
func TestWitnesses(t *testing.T) {
	pand.Init()
	confSetup()
	r := vf.Start(t, "C13")
	judgeW := func(c WitnessCase, o *vf.Obs) error {
		err := checkWitness(c, o)
		o.Class("witness_" + c.ID)
		o.NonTrivial()
		if err == nil {
			o.Class("repaired_" + c.ID)
			return nil
		}
		if v, ok := err.(*violation); ok && v.id == c.ID && r.IsKnown(c.ID) {
			r.KnownHit(c.ID)
			o.Class("still_present_" + c.ID)
			return nil
		}
		return err
	}
	if os.Getenv("VERIF_REPLAY") != "" {
		vf.Check(r, func(*rapid.T) WitnessCase { return WitnessCase{} }, judgeW)
		return
	}
	for _, w := range witnesses() {
		o := &vf.Obs{}
		err := vf.Guard(func() error { return judgeW(w, o) })
		r.Record(w, o, err)
		if err != nil {
			t.Errorf("witness %s: %v", w.ID, err)
		}
	}
}
