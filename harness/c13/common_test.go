// C13 — malformed ammo, scenario or config input is rejected, never crashes or hangs.
//
// Shared machinery of the eight targets: a guarded runner (panic -> error with the
// stack, deadline with one re-run before a hang is reported, allocation meter), the
// byte-level mutation engine that turns valid files into hostile ones, the provider
// drain used by F1-F6, the classifier of listed known findings and the corpus loader
// of the native fuzz targets.
package c13

import (
	"bytes"
	"context"
	"encoding/json"
	"fmt"
	"os"
	"path/filepath"
	"reflect"
	"regexp"
	"runtime"
	"runtime/debug"
	"sort"
	"strings"
	"sync"
	"testing"
	"time"

	"verif/harness/internal/pand"
	"verif/harness/internal/vf"

	"github.com/yandex/pandora/core"
	"pgregory.net/rapid"
)

// hangDeadline bounds every operation on a few-hundred-byte input. The operations
// normally take 10 µs .. 5 ms, so this is >= 1000x the normal duration.
const hangDeadline = 5 * time.Second

// allocCeiling is the number of bytes one case may allocate in total (runtime
// TotalAlloc delta): inputs are a few KB (at most ~150 KB for the long-line
// mutation) and the most expensive legitimate operation is randString with its
// documented maximum of 1<<24 runes (~80 MB).
const allocCeiling = 512 << 20

// smallCeiling is the ceiling of the targets that never call randString (config and
// scenario decoding, ammo files): they allocate a few MB at most for these inputs.
const smallCeiling = 256 << 20

// ---------------------------------------------------------------------------
// violations

// violation is an oracle failure. id names the known-finding classifier that
// matched ("" = unclassified).
type violation struct {
	id  string
	msg string
}

func (v *violation) Error() string {
	if v.id != "" {
		return v.id + ": " + v.msg
	}
	return v.msg
}

func violationf(format string, a ...any) *violation {
	return &violation{msg: fmt.Sprintf(format, a...)}
}

// Finding ids (also the ids of /verif/known_findings.json entries).
const (
	fPropertyNoKey    = "property-placeholder-without-key-panics"
	fLeadingSleep     = "scenario-leading-sleep-panics"
	fXpathNonNodeSet  = "var-xpath-non-nodeset-panics"
	fNegativeWeight   = "scenario-negative-weight-panics"
	fGrpcEmptySpin    = "grpcjson-no-ammo-unlimited-passes-spins"
	fHugeStepCount    = "scenario-huge-step-count-allocates"
	fHugeWeight       = "scenario-huge-weight-allocates"
	fJSONArrayTrailer = "httpjson-array-trailing-garbage-accepted"
	fRawLastLine      = "raw-unterminated-last-line-ignored"
	fNullItem         = "scenario-null-list-item-panics"
	fXpathEval        = "var-xpath-evaluation-panics"
	fStepHuge         = "step-schedule-huge-range-allocates"
	fYAMLKey          = "scenario-yaml-non-string-key-panics"
)

// panicSites maps a frame of pandora's code to the finding whose symptom is a panic
// raised under that frame. A panic anywhere else is unclassified.
var panicSites = []struct{ frame, id string }{
	{"github.com/antchfx/xpath.(*Expr).Evaluate", fXpathEval}, // the xpath library panics on type errors while evaluating
	{"confutil.propertyTokenResolver", fPropertyNoKey},
	{"scenario/http.convertScenarioToAmmo", fLeadingSleep},
	{"scenario/grpc.convertScenarioToAmmo", fLeadingSleep},
	{"postprocessor.(*VarXpathPostprocessor).getValuesFromDOM", fXpathNonNodeSet},
	{"scenario/config.ExtractVariableStorage", fNullItem},
}

func classifyPanic(p any, stack string) string {
	for _, s := range panicSites {
		if strings.Contains(stack, s.frame) {
			if s.id == fLeadingSleep && !strings.Contains(fmt.Sprint(p), "index out of range [-1]") {
				continue
			}
			if s.id == fXpathNonNodeSet && !strings.Contains(fmt.Sprint(p), "interface conversion") {
				continue
			}
			if s.id == fNullItem && !strings.Contains(fmt.Sprint(p), "nil pointer dereference") {
				continue
			}
			return s.id
		}
	}
	if strings.Contains(stack, "mapstructure.(*Decoder).decodeStructFromMap") && strings.Contains(stack, "scenario/config.DecodeMap") &&
		strings.Contains(fmt.Sprint(p), "interface conversion") && strings.Contains(fmt.Sprint(p), "not string") {
		return fYAMLKey
	}
	if strings.Contains(stack, "config.SpreadNames") || (strings.Contains(fmt.Sprint(p), "makeslice: cap out of range") && strings.Contains(stack, ".decodeAmmo")) {
		return fNegativeWeight
	}
	return ""
}

// trimStack keeps the part of a stack that is about the code under test.
func trimStack(s string) string {
	lines := strings.Split(s, "\n")
	if len(lines) > 40 {
		lines = lines[:40]
	}
	return strings.Join(lines, "\n")
}

// guard runs f, turning a panic into a classified violation.
func guard(what string, f func() error) (err error) {
	defer func() {
		if p := recover(); p != nil {
			if v, ok := p.(*violation); ok { // raised by the harness's mirror of gun code
				err = v
				return
			}
			st := string(debug.Stack())
			err = &violation{id: classifyPanic(p, st), msg: fmt.Sprintf("panic in %s: %v\n%s", what, p, trimStack(st))}
		}
	}()
	return f()
}

// errHang is returned by bounded when f did not come back within the deadline.
type errHang struct {
	what   string
	stacks string
	after  time.Duration
}

func (e *errHang) Error() string {
	d := e.after
	if d == 0 {
		d = hangDeadline
	}
	return fmt.Sprintf("%s did not return within %v", e.what, d)
}

// bounded runs f (already guarded by the caller where needed) in its own goroutine
// and gives up after hangDeadline; the context is cancelled then, so that a
// cooperative f stops. The goroutine of an uncooperative f is abandoned.
func bounded(what string, f func(ctx context.Context) error) error {
	return boundedFor(hangDeadline, what, f)
}

// outerDeadline bounds a whole case whose parts (provider drain) have deadlines of
// their own, so that the more specific inner verdict comes first.
const outerDeadline = 4 * hangDeadline

func boundedFor(d time.Duration, what string, f func(ctx context.Context) error) error {
	ctx, cancel := context.WithCancel(context.Background())
	defer cancel()
	done := make(chan error, 1)
	go func() {
		done <- guard(what, func() error { return f(ctx) })
	}()
	tm := time.NewTimer(d)
	defer tm.Stop()
	select {
	case err := <-done:
		return err
	case <-tm.C:
		buf := make([]byte, 1<<20)
		n := runtime.Stack(buf, true)
		return &errHang{what: what, stacks: string(buf[:n]), after: d}
	}
}

// judge is the common wrapper of every target: it runs the oracle body once under
// the allocation meter; a deadline hit is only reported after the same case hung
// again on an immediate re-run (machine load cannot produce that twice in a row for
// a >= 1000x margin), with the goroutine stacks attached.
func judge(note func(k string, v any), inputLen int, ceiling uint64, body func() error) error {
	var before, after runtime.MemStats
	runtime.ReadMemStats(&before)
	err := body()
	var h *errHang
	if asHang(err, &h) {
		err = body()
		if asHang(err, &h) {
			if note != nil {
				note("goroutine_stacks", h.stacks)
			}
			id := ""
			if strings.Contains(h.stacks, "grpcjson.(*Provider).start") {
				id = fGrpcEmptySpin
			}
			return &violation{id: id, msg: fmt.Sprintf("HANG: %s (twice in a row; %d-byte input); goroutine stacks are attached to the replay file", h.Error(), inputLen)}
		}
	}
	runtime.ReadMemStats(&after)
	if d := after.TotalAlloc - before.TotalAlloc; d > ceiling && err == nil {
		return violationf("ALLOCATION: %d MB allocated while handling a %d-byte input (ceiling %d MB)", d>>20, inputLen, ceiling>>20)
	}
	return err
}

func asHang(err error, h **errHang) bool {
	if e, ok := err.(*errHang); ok {
		*h = e
		return true
	}
	return false
}

// ---------------------------------------------------------------------------
// known findings (for the fuzz targets, which have no vf.Run)

var (
	knownOnce sync.Once
	knownIDs  map[string]bool
)

func isKnown(id string) bool {
	knownOnce.Do(func() {
		knownIDs = map[string]bool{}
		p := os.Getenv("VERIF_KNOWN")
		if p == "" {
			return
		}
		b, err := os.ReadFile(p)
		if err != nil {
			return
		}
		var all []struct {
			Property, ID, Status string
		}
		if json.Unmarshal(b, &all) != nil {
			return
		}
		for _, k := range all {
			if k.Property == "C13" && k.Status == "known" {
				knownIDs[k.ID] = true
			}
		}
	})
	return knownIDs[id]
}

// excused reports whether err is the symptom of a listed known finding.
func excused(err error) (string, bool) {
	if v, ok := err.(*violation); ok && v.id != "" && isKnown(v.id) {
		return v.id, true
	}
	return "", false
}

// slowLog appends cases that took longer than a second to $C13_SLOW_LOG (diagnostics only).
func slowLog(start time.Time, what string, input []byte) {
	p := os.Getenv("C13_SLOW_LOG")
	if d := time.Since(start); p != "" && d > time.Second {
		if f, err := os.OpenFile(p, os.O_APPEND|os.O_CREATE|os.O_WRONLY, 0o644); err == nil {
			if len(input) > 300 {
				input = input[:300]
			}
			fmt.Fprintf(f, "%v %s len=%d %q\n", d, what, len(input), input)
			f.Close()
		}
	}
}

// fuzzVerdict is the tail of every f.Fuzz body.
func fuzzVerdict(t *testing.T, err error) {
	if err == nil {
		return
	}
	if _, ok := excused(err); ok {
		return
	}
	t.Fatalf("%v", err)
}

// ---------------------------------------------------------------------------
// corpus

// addCorpus seeds a fuzz target from /verif/corpus/c13/<name>/* (raw files); the
// inline seeds are used when VERIF_ROOT is not set or the directory is empty.
func addCorpus(f *testing.F, name string, add func(data []byte), inline ...string) int {
	return addCorpusNamed(f, name, func(_ string, data []byte) { add(data) }, inline...)
}

// addCorpusNamed also passes the file name (FuzzParsers encodes the parser in it).
func addCorpusNamed(f *testing.F, name string, add func(file string, data []byte), inline ...string) int {
	n := 0
	if root := os.Getenv("VERIF_ROOT"); root != "" {
		files, _ := filepath.Glob(filepath.Join(root, "corpus", "c13", name, "*"))
		sort.Strings(files)
		for _, p := range files {
			if b, err := os.ReadFile(p); err == nil {
				add(filepath.Base(p), b)
				n++
			}
		}
	}
	if n == 0 {
		for _, s := range inline {
			add("", []byte(s))
		}
	}
	return n
}

// withExcuse wraps a check for the rapid properties: the symptom of a listed known
// finding (classified by the site of the panic / the hanging frame, never by the
// input alone) is counted as excluded instead of failing the run, so that the
// search continues past it. Everything else stays a failure.
func withExcuse[C any](r *vf.Run, check func(C, *vf.Obs) error) func(C, *vf.Obs) error {
	return func(c C, o *vf.Obs) error {
		err := check(c, o)
		if v, ok := err.(*violation); ok && v.id != "" && r.IsKnown(v.id) {
			r.Excluded(v.id)
			if o != nil {
				o.Class("excused_known_finding")
			}
			return nil
		}
		return err
	}
}

// ---------------------------------------------------------------------------
// byte-level mutations

// hostileNumbers replace digit runs (sizes, counts, weights, indexes). The first
// entries are the ones rapid shrinks towards.
var hostileNumbers = []string{"-1", "0", "1073741824", "99999999999", "2147483648", "4294967297", "9223372036854775807",
	"9223372036854775808", "-9223372036854775808", "-0", "+3", "007", "1e3", "0x10", "1.5", "１２"}

var hostileTokens = []string{"", "\n", "\r\n", "[", "]", "[]", "[:]", "[: x]", "[x]", "[Host: h]", "{", "}", "{}", "[{", "null", "\"", "'", "(", ")",
	"sleep(5)", "${", "${}", "${property:x}", "${env:}", "{{", "{{.", "{{randInt 5 5}}", "%", "%zz", "\x00", "\xff\xfe", " ", "\t", "-1", "99999999999 /x",
	"0 /", "5", "abc", "GET / HTTP/1.1\r\n\r\n", "Content-Length: 99999999999\r\n", ": ", "#", "---", "- ", "&a [*a]", "<<EOT", "é", " "}

var digitRun = regexp.MustCompile(`-?[0-9]+`)

func splitLinesKeep(b []byte) [][]byte {
	var out [][]byte
	for len(b) > 0 {
		i := bytes.IndexByte(b, '\n')
		if i < 0 {
			out = append(out, b)
			break
		}
		out = append(out, b[:i+1])
		b = b[i+1:]
	}
	return out
}

func joinLines(l [][]byte) []byte { return bytes.Join(l, nil) }

// mutate applies up to maxOps drawn mutations to data. pool holds other valid files
// of the same format (splice donors). The returned op names are descriptive.
func mutate(t *rapid.T, data []byte, pool [][]byte, maxOps int) ([]byte, []string) {
	return mutateWith(t, data, pool, maxOps, hostileNumbers, true)
}

// mutateWith is mutate with the replacement numbers of the `digits` mutation given
// and the 70 KB line mutation optional.
func mutateWith(t *rapid.T, data []byte, pool [][]byte, maxOps int, numbers []string, longLines bool) ([]byte, []string) {
	n := rapid.IntRange(1, maxOps).Draw(t, "mutations")
	var ops []string
	for i := 0; i < n; i++ {
		var op string
		data, op = mutateOnce(t, data, pool, numbers, longLines)
		ops = append(ops, op)
	}
	return data, ops
}

var mutationKinds = []string{"truncate", "digits", "digits", "splice_token", "dup_line", "drop_line", "crlf", "append_garbage", "cut_range",
	"splice_donor", "swap_lines", "set_byte", "no_final_newline", "long_line", "insert_blank", "repeat_all"}

func mutateOnce(t *rapid.T, data []byte, pool [][]byte, numbers []string, longLines bool) ([]byte, string) {
	kind := rapid.SampledFrom(mutationKinds).Draw(t, "mutation")
	if kind == "long_line" && !longLines {
		kind = "splice_token"
	}
	cp := append([]byte(nil), data...)
	off := func(label string) int { return rapid.IntRange(0, len(cp)).Draw(t, label) }
	insert := func(at int, ins []byte) []byte {
		return append(append(append([]byte(nil), cp[:at]...), ins...), cp[at:]...)
	}
	switch kind {
	case "truncate":
		return cp[:off("at")], kind
	case "cut_range":
		a, b := off("from"), off("to")
		if a > b {
			a, b = b, a
		}
		return append(cp[:a:a], cp[b:]...), kind
	case "digits":
		locs := digitRun.FindAllIndex(cp, -1)
		if len(locs) == 0 {
			return insert(0, []byte(rapid.SampledFrom(numbers).Draw(t, "number")+" ")), "digits_prepended"
		}
		l := locs[rapid.IntRange(0, len(locs)-1).Draw(t, "which")]
		num := rapid.SampledFrom(numbers).Draw(t, "number")
		return append(append(append([]byte(nil), cp[:l[0]]...), num...), cp[l[1]:]...), "digits=" + num
	case "splice_token":
		tok := rapid.SampledFrom(hostileTokens).Draw(t, "token")
		return insert(off("at"), []byte(tok)), kind
	case "splice_donor":
		if len(pool) == 0 {
			return insert(off("at"), []byte("\n")), "insert_blank"
		}
		d := pool[rapid.IntRange(0, len(pool)-1).Draw(t, "donor")]
		a := rapid.IntRange(0, len(d)).Draw(t, "dfrom")
		b := rapid.IntRange(a, len(d)).Draw(t, "dto")
		return insert(off("at"), d[a:b]), kind
	case "dup_line", "drop_line", "swap_lines":
		lines := splitLinesKeep(cp)
		if len(lines) == 0 {
			return cp, kind + "_noop"
		}
		i := rapid.IntRange(0, len(lines)-1).Draw(t, "line")
		switch kind {
		case "dup_line":
			lines = append(lines[:i+1:i+1], lines[i:]...)
		case "drop_line":
			lines = append(lines[:i:i], lines[i+1:]...)
		default:
			j := rapid.IntRange(0, len(lines)-1).Draw(t, "line2")
			lines[i], lines[j] = lines[j], lines[i]
		}
		return joinLines(lines), kind
	case "crlf":
		if rapid.Bool().Draw(t, "all") {
			return bytes.ReplaceAll(bytes.ReplaceAll(cp, []byte("\r\n"), []byte("\n")), []byte("\n"), []byte("\r\n")), "crlf_all"
		}
		lines := splitLinesKeep(cp)
		if len(lines) == 0 {
			return cp, "crlf_noop"
		}
		i := rapid.IntRange(0, len(lines)-1).Draw(t, "line")
		if bytes.HasSuffix(lines[i], []byte("\n")) && !bytes.HasSuffix(lines[i], []byte("\r\n")) {
			lines[i] = append(append([]byte(nil), lines[i][:len(lines[i])-1]...), '\r', '\n')
		}
		return joinLines(lines), "crlf_one"
	case "append_garbage":
		tok := rapid.SampledFrom(hostileTokens).Draw(t, "token")
		if len(cp) > 0 && cp[len(cp)-1] != '\n' {
			cp = append(cp, '\n')
		}
		return append(cp, tok...), kind
	case "set_byte":
		if len(cp) == 0 {
			return []byte{rapid.Byte().Draw(t, "byte")}, kind
		}
		cp[rapid.IntRange(0, len(cp)-1).Draw(t, "at")] = rapid.Byte().Draw(t, "byte")
		return cp, kind
	case "no_final_newline":
		return bytes.TrimRight(cp, "\r\n"), kind
	case "long_line":
		// longer than bufio.MaxScanTokenSize (64 KiB)
		line := bytes.Repeat([]byte{rapid.SampledFrom([]byte{'a', '/', '1', ' ', '{'}).Draw(t, "fill")}, 70000)
		if rapid.Bool().Draw(t, "terminated") {
			line = append(line, '\n')
		}
		return insert(off("at"), line), kind
	case "insert_blank":
		return insert(off("at"), []byte("\n")), kind
	case "repeat_all":
		return append(cp, cp...), kind
	}
	return cp, "noop"
}

// genRawBytes draws bytes that are not derived from a valid file.
func genRawBytes(t *rapid.T, alphabet string) []byte {
	if rapid.Bool().Draw(t, "arbitrary") {
		return rapid.SliceOfN(rapid.Byte(), 0, 64).Draw(t, "bytes")
	}
	n := rapid.IntRange(0, 48).Draw(t, "len")
	out := make([]byte, n)
	for i := range out {
		out[i] = alphabet[rapid.IntRange(0, len(alphabet)-1).Draw(t, "ch")]
	}
	return out
}

// absurd numbers make a worker die of memory exhaustion when a decoder trusts them,
// which the driver cannot attribute to a case. canary returns the same input with
// every number of nine or more digits replaced by 3e8 (the headroom of a worker
// under ulimit -v 4 GB is about 1 GB): if the code allocates what the number says,
// the allocation meter reports the probe (a hostile input in its own right) cleanly,
// and the absurd original is not run.
var absurdRun = regexp.MustCompile(`[0-9]{9,}`)

const canaryBytes = "300000000"

func canary(data []byte) ([]byte, bool) { return canaryWith(data, canaryBytes) }

func canaryWith(data []byte, repl string) ([]byte, bool) {
	if !absurdRun.Match(data) {
		return nil, false
	}
	return absurdRun.ReplaceAll(data, []byte(repl)), true
}

// ---------------------------------------------------------------------------
// draining a provider

type drainRes struct {
	Delivered      int   // Acquire returned (ammo, true)
	RejectedAtAcq  int   // Acquire returned (non-nil, false): the provider logged and refused one entry
	EndSeen        bool  // Acquire returned (nil, false)
	RunErr         error // what Run returned
	RunEndedItself bool  // Run returned without the harness cancelling its context
}

// drain runs p and consumes up to max entries with one consumer (which is the
// delivery order). observe sees every delivered ammo before it is released.
// Panics of Run / Acquire / Release / observe become violations; a consumer that
// stays blocked, or a Run that does not return after end of ammo (or after cancel),
// is an *errHang.
func drain(p core.Provider, max int, observe func(i int, a core.Ammo) error) (res drainRes, err error) {
	ctx, cancel := context.WithCancel(context.Background())
	defer cancel()
	type runOut struct{ runErr, guardErr error }
	runDone := make(chan runOut, 1)
	go func() {
		var o runOut
		o.guardErr = guard("Provider.Run", func() error {
			o.runErr = p.Run(ctx, core.ProviderDeps{Log: pand.NopLog(), PoolID: "c13"})
			return nil
		})
		runDone <- o
	}()
	type consOut struct {
		res drainRes
		err error
	}
	consDone := make(chan consOut, 1)
	go func() {
		var c consOut
		c.err = guard("Provider.Acquire/Release", func() error {
			for calls := 0; c.res.Delivered < max && calls < max+64; calls++ {
				a, ok := p.Acquire()
				if !ok {
					if isNilAmmo(a) {
						c.res.EndSeen = true
						return nil
					}
					c.res.RejectedAtAcq++
					continue
				}
				if isNilAmmo(a) {
					return violationf("Acquire returned (nil, true) as entry %d", c.res.Delivered)
				}
				if observe != nil {
					if e := observe(c.res.Delivered, a); e != nil {
						return e
					}
				}
				c.res.Delivered++
				p.Release(a)
			}
			return nil
		})
		consDone <- c
	}()
	stacks := func() string {
		buf := make([]byte, 1<<20)
		return string(buf[:runtime.Stack(buf, true)])
	}
	tm := time.NewTimer(hangDeadline)
	defer tm.Stop()
	var c consOut
	select {
	case c = <-consDone:
	case <-tm.C:
		st := stacks()
		cancel()
		return res, &errHang{what: "a consumer blocked in Provider.Acquire (the provider neither delivers nor ends)", stacks: st}
	}
	res = c.res
	if c.err != nil || !res.EndSeen {
		// the harness stops consuming (bound reached, or a failure): the pool would cancel the provider now
		cancel()
	}
	tm2 := time.NewTimer(hangDeadline)
	defer tm2.Stop()
	select {
	case o := <-runDone:
		res.RunErr = o.runErr
		res.RunEndedItself = res.EndSeen && c.err == nil
		if c.err != nil {
			return res, c.err
		}
		return res, o.guardErr
	case <-tm2.C:
		st := stacks()
		cancel()
		if c.err != nil {
			return res, c.err
		}
		what := "Provider.Run after its context was cancelled"
		if res.EndSeen {
			what = "Provider.Run after it closed its sink (end of ammo)"
		}
		return res, &errHang{what: what, stacks: st}
	}
}

// isNilAmmo reports whether a is nil or a nil pointer in an interface (grpc/json
// returns a typed nil at end of ammo).
func isNilAmmo(a core.Ammo) bool {
	if a == nil {
		return true
	}
	v := reflect.ValueOf(a)
	switch v.Kind() {
	case reflect.Ptr, reflect.Map, reflect.Slice, reflect.Interface, reflect.Func, reflect.Chan:
		return v.IsNil()
	}
	return false
}

