// F8: the small parsers, called directly with hostile strings.
package c13

import (
	"bytes"
	"context"
	"fmt"
	"net/http"
	"strconv"
	"strings"
	"testing"
	"unicode/utf8"

	"verif/harness/internal/pand"
	"verif/harness/internal/vf"

	"github.com/yandex/pandora/components/providers/http/decoders/raw"
	"github.com/yandex/pandora/components/providers/http/decoders/uripost"
	"github.com/yandex/pandora/components/providers/http/util"
	"github.com/yandex/pandora/components/providers/scenario/http/postprocessor"
	"github.com/yandex/pandora/components/providers/scenario/http/preprocessor"
	"github.com/yandex/pandora/components/providers/scenario/templater"
	"github.com/yandex/pandora/lib/mp"
	"github.com/yandex/pandora/lib/str"
	"pgregory.net/rapid"
)

// ParserCase is one input of F8.
type ParserCase struct {
	Target string `json:"target"`
	In     []byte `json:"in"`             // the expression / line (base64; %q in "observed.input")
	Body   []byte `json:"body,omitempty"` // response body (xpath, jsonpath) or header value (header)
	// mapvalue only: the array the path indexes
	ArrType string `json:"arr_type,omitempty"` // any | mapany | mapstr | string | int | int64 | float64 | notarray
	ArrLen  int    `json:"arr_len,omitempty"`
	Calls   int    `json:"calls,omitempty"` // how many times the path is evaluated (next iterator)
	Origin  string `json:"origin"`          // grammar | hostile | random | mutated
}

var parserTargets = []string{"mapvalue", "mapvalue", "stringfunc", "tmplfunc", "tmplfunc", "preprocessor", "decodeuri", "rawheader", "utilheader", "xpath", "xpath", "jsonpath", "header", "header"}

// ----- expression pools -----

var indexExprs = []string{"next", "rand", "last", "-1", "0", "1", "2", "9999", "-9999", "", " 1 ", "x", "1.5", "99999999999", "9223372036854775807", "-9223372036854775808", "NEXT", "Last", "nex", "0x1", "+1", "１"}

var scalarXpaths = []string{"count(//div)", "1+1", "string(//a)", "boolean(//x)", "sum(//li)", "concat('a','b')", "'lit'", "1", "true()", "string-length('abc')", "count(//li) > 1", "not(//a)"}

// expressions that compile but whose evaluation is a type error in the xpath library
var typeErrorXpaths = []string{"number('x')", "ceiling('x')", "1 - //a/@href", "-1 //a/@href", "//li + 1", "floor(//li)", "round('a')", "sum('a')", "//a * //li", "1 div //li", "//li mod 2"}
var nodesetXpaths = []string{"//div", "//a/@href", "//li", "//*", "/html/body", "//li[1]", "//li[last()]", "//li[position()=99999999999]", "//nosuch", "//a/text()", "//div | //a", "(//li)[2]", "//li[0]", "//li[-1]", ".", ".."}
var brokenXpaths = []string{"", "//*[", "//", "///", "[", "]", "@", "//a[", "count(", "count()", "nosuch()", "//a[@href=", "1 div 0", "//li[1 div 0]", "\x00", "//a:b", "$x", "//li[position() = ]"}

var hostileJsonpaths = []string{"$.a", "$.a[0]", "$.a[-1]", "$.a[99999]", "$.a[2].b", "$..b", "$.a[?(@.b)]", "$.a[?(@ > 1)]", "$[", "", "$", "$.", "$..", "$.a[", "$.a[]", "$.a[0:99999999999]", "$.a[::0]", "$.a[::-1]",
	"$.a[1:0]", "$.items[0]", "$.items[-1]", "$.n.x", "$.nosuch", "a", ".a", "$['a']", "$[\"a\"", "$.a[*]", "$.*", "$.a[0,1]", "$.a[(1+1)]", "$.a[?(@.b =~ /c/)]", "$.a[?(1/0)]", "$.token[0]", "$.a.length()", "\x00"}

var hostileHeaderExprs = []string{"X-H", "X-H|lower", "X-H|upper", "X-H|substr(6)", "X-H|substr(1)", "X-H|substr(-1)", "X-H|substr(-99)", "X-H|substr(1,2)", "X-H|substr(2,1)", "X-H|substr(0,99999999999)", "X-H|substr(-99,99)",
	"X-H|substr(99999999999)", "X-H|substr(-9223372036854775808)", "X-H|substr()", "X-H|substr(x)", "X-H|substr(1,x)", "X-H|substr(1,2,3)", "X-H|", "|", "", "X-H||lower", "X-H|nosuch", "X-H|lower(", "X-H|replace(a,b)",
	"X-H|replace(,)", "X-H|replace(a)", "X-H|replace(a,b,c)", "X-H|lower|upper|substr(1)|replace(B,)", "Nosuch|substr(6)", "X-H|substr(3,3)", "X-H|substr(3,-3)", "X-H|substr(-1,-2)", "x-h|SUBSTR(1)", "X-H| substr( 1 , 2 ) "}

var funcExprs = []string{"randInt()", "randInt(5)", "randInt(5,5)", "randInt(5, 5)", "randInt(0,0)", "randInt(10,1)", "randInt(-5)", "randInt(x)", "randInt(1,x)", "randInt(1,2,3)", "randInt(9223372036854775807)",
	"randInt(-9223372036854775808,9223372036854775807)", "randInt(9223372036854775807,9223372036854775807)", "randInt(1.5)", "randInt(", "randInt)", "randInt", "randInt(,)", "randInt( 1 , 2 )",
	"randString()", "randString(0)", "randString(5)", "randString(-1)", "randString(-9223372036854775808)", "randString(99999999999)", "randString(16777217)", "randString(x)", "randString(5,)", "randString(5,ab)", "randString(5,é)",
	"randString(3,\xff)", "randString(1,2,3)", "randString", "uuid()", "uuid", "uuid(1)", "uuid(", "nosuch()", "", "(", ")", "()", "randInt((1)", "randString(source.items[next])", "randInt(source.items[0], source.empty[0])",
	"randString(source.empty[next])", "randInt(.request.x)"}

var stringFuncs = []string{"name", "name()", "name(1)", "name(1,2)", "name( 1 , 2 )", " name (1)", "name(", "name)", "name(1))", "name((1)", ")(", "(", ")", "", "()", "name(1)x", "name(,)", "name(a,b,c,d)", "é(ж)", "name(\x00)", "sleep(5)"}

var uripostLines = []string{"5 /uri tag", "5 /uri", "5", "", " ", "5 /uri tag with spaces", "-1 /uri", "99999999999 /uri", "9223372036854775808 /uri", "x /uri", "5  /uri", " 5 /uri", "5\t/uri", "0 /", "+5 /u", "0x5 /u", "5 /uri  "}
var rawHeaders = []string{"12 tag", "12", "", " ", "12 tag with spaces", "-1 tag", "99999999999", "9223372036854775808 t", "x", "12x", " 12", "12  t", "+12 t", "0", "0 t"}
var utilHeaders = []string{"[k: v]", "[k:v]", "[k:]", "[:v]", "[:]", "[]", "[", "]", "", "[k]", "[ k : v ]", "[k: v: w]", "[k: [v]]", "k: v", "[k: v", "k: v]", "[\x00: v]", "[é: ж]", "[k:  ]", "[  : v]"}

func genFromPools(t *rapid.T, c *ParserCase, pools ...[]string) {
	var all []string
	for _, p := range pools {
		all = append(all, p...)
	}
	switch rapid.SampledFrom([]string{"hostile", "hostile", "hostile", "mutated", "random"}).Draw(t, "origin") {
	case "hostile":
		c.Origin = "hostile"
		c.In = []byte(rapid.SampledFrom(all).Draw(t, "expr"))
	case "mutated":
		c.Origin = "mutated"
		c.In, _ = mutateWith(t, []byte(rapid.SampledFrom(all).Draw(t, "expr")), nil, 2, hostileNumbers, false)
	default:
		c.Origin = "random"
		c.In = genRawBytes(t, "()[]|,.:$@/*-019 xnrl\"'=<>")
	}
}

var bodies = []string{cannedBody, "", "{", "[]", "null", "{\"a\":[]}", "<html><body><div><a href='/x'>l</a></div><li>1</li><li>2</li></body></html>", "<", "<div", "<div><div><div>", "\x00\xff", "<!--", "<![CDATA[",
	strings.Repeat("<div>", 600), strings.Repeat("[", 600), "{\"a\":{\"a\":{\"a\":1}}}", "1", "\"s\"", "{\"a\":[1,2,3],\"items\":[],\"token\":\"t\",\"n\":null}"}

func genParserCase(r *vf.Run) func(t *rapid.T) ParserCase {
	return func(t *rapid.T) ParserCase {
		c := ParserCase{Target: rapid.SampledFrom(parserTargets).Draw(t, "target")}
		switch c.Target {
		case "mapvalue":
			c.ArrType = rapid.SampledFrom([]string{"any", "mapany", "mapstr", "string", "int", "int64", "float64", "notarray"}).Draw(t, "arr_type")
			c.ArrLen = rapid.SampledFrom([]int{0, 0, 1, 2, 3}).Draw(t, "arr_len")
			c.Calls = rapid.IntRange(1, 4).Draw(t, "calls")
			switch rapid.SampledFrom([]string{"grammar", "grammar", "grammar", "mutated", "random"}).Draw(t, "origin") {
			case "grammar":
				c.Origin = "grammar"
				p := rapid.SampledFrom([]string{"source.arr", ".source.arr", "source.arr ", "arr", "source.nested.arr", "source.nosuch"}).Draw(t, "prefix")
				p += "[" + rapid.SampledFrom(indexExprs).Draw(t, "index") + "]"
				p += rapid.SampledFrom([]string{"", "", ".id", ".nosuch", "[0]", ".", ".id.x"}).Draw(t, "suffix")
				c.In = []byte(p)
			case "mutated":
				c.Origin = "mutated"
				c.In, _ = mutateWith(t, []byte("source.arr["+rapid.SampledFrom(indexExprs).Draw(t, "index")+"].id"), nil, 2, hostileNumbers, false)
			default:
				c.Origin = "random"
				c.In = genRawBytes(t, "source.ar[]nextld0123-9 ")
			}
		case "stringfunc":
			genFromPools(t, &c, stringFuncs, funcExprs)
		case "tmplfunc", "preprocessor":
			genFromPools(t, &c, funcExprs)
		case "decodeuri":
			genFromPools(t, &c, uripostLines)
		case "rawheader":
			genFromPools(t, &c, rawHeaders)
		case "utilheader":
			genFromPools(t, &c, utilHeaders)
		case "xpath":
			if r != nil && r.IsKnown(fXpathNonNodeSet) {
				// scalar expressions are the shape of the listed finding (mutated ones that turn out scalar are excused by symptom)
				genFromPools(t, &c, nodesetXpaths, brokenXpaths)
			} else if r != nil && r.IsKnown(fXpathEval) {
				genFromPools(t, &c, nodesetXpaths, scalarXpaths, brokenXpaths)
			} else {
				genFromPools(t, &c, nodesetXpaths, scalarXpaths, brokenXpaths, typeErrorXpaths)
			}
			c.Body = []byte(rapid.SampledFrom(bodies).Draw(t, "body"))
		case "jsonpath":
			genFromPools(t, &c, hostileJsonpaths)
			c.Body = []byte(rapid.SampledFrom(bodies).Draw(t, "body"))
		case "header":
			genFromPools(t, &c, hostileHeaderExprs)
			c.Body = []byte(rapid.SampledFrom([]string{"abc", "", "a", "Bearer 0123456789", "é", "ABCabc", strings.Repeat("x", 300)}).Draw(t, "header_value"))
		}
		return c
	}
}

// ----- oracle -----

func buildArr(typ string, n int) any {
	switch typ {
	case "any":
		out := make([]any, n)
		for i := range out {
			out[i] = map[string]any{"id": i}
		}
		return out
	case "mapany":
		out := make([]map[string]any, n)
		for i := range out {
			out[i] = map[string]any{"id": i}
		}
		return out
	case "mapstr":
		out := make([]map[string]string, n)
		for i := range out {
			out[i] = map[string]string{"id": strconv.Itoa(i)}
		}
		return out
	case "string":
		out := make([]string, n)
		for i := range out {
			out[i] = strconv.Itoa(i)
		}
		return out
	case "int":
		out := make([]int, n)
		for i := range out {
			out[i] = i
		}
		return out
	case "int64":
		out := make([]int64, n)
		for i := range out {
			out[i] = int64(i)
		}
		return out
	case "float64":
		out := make([]float64, n)
		for i := range out {
			out[i] = float64(i)
		}
		return out
	}
	return "not an array"
}

func templateVarsFor(c ParserCase) map[string]any {
	arr := buildArr(c.ArrType, c.ArrLen)
	return map[string]any{
		"arr": arr,
		"source": map[string]any{"arr": arr, "nested": map[string]any{"arr": arr}, "items": []any{"3", "4"}, "empty": []any{}},
		"request": map[string]any{"x": "5"},
	}
}

func checkParser(c ParserCase, o *vf.Obs) error {
	note := func(k string, v any) {
		if o != nil {
			o.Note(k, v)
		}
	}
	note("input", fmt.Sprintf("%q", c.In))
	if len(c.Body) > 0 && len(c.Body) < 400 {
		note("body", fmt.Sprintf("%q", c.Body))
	}
	// randString(N) and friends: probe absurd numbers with 1e8 first (4 bytes per rune: survivable, above the ceiling)
	if probe, ok := canaryWith(c.In, "100000000"); ok {
		pc := c
		pc.In = probe
		if err := judge(note, len(c.In)+len(c.Body), allocCeiling, func() error {
			return bounded(c.Target, func(_ context.Context) error { return parserBody(pc, nil) })
		}); err != nil {
			if v, ok := err.(*violation); ok {
				v.msg = "with every number of >= 9 digits replaced by 100000000: " + v.msg
			}
			return err
		}
	}
	return judge(note, len(c.In)+len(c.Body), allocCeiling, func() error {
		return bounded(c.Target, func(_ context.Context) error { return parserBody(c, o) })
	})
}

func parserBody(c ParserCase, o *vf.Obs) error {
	class := func(names ...string) {
		if o != nil {
			o.Class(names...)
		}
	}
	in := string(c.In)
	class("target_"+c.Target, "origin_"+c.Origin)
	nontrivial := func() {
		if o != nil {
			o.NonTrivial()
		}
	}
	switch c.Target {
	case "mapvalue":
		vars := templateVarsFor(c)
		iter := mp.NewNextIterator(1)
		if c.ArrLen == 0 && c.ArrType != "notarray" {
			class("index_into_empty_array")
		}
		for k := 0; k < max(1, c.Calls); k++ {
			v, err := mp.GetMapValue(vars, in, iter)
			if err != nil {
				class("mapvalue_error")
				continue
			}
			class("mapvalue_ok")
			// reference for the well-formed shapes: source.arr[IDX] on a typed array
			if idx, ok := strings.CutPrefix(in, "source.arr["); ok && strings.HasSuffix(idx, "]") && c.ArrType != "notarray" {
				idx = strings.TrimSuffix(idx, "]")
				if c.ArrLen == 0 {
					return violationf("GetMapValue(%q) on an empty %s array returned %v without error", in, c.ArrType, v)
				}
				want := -1
				switch idx {
				case "last":
					want = c.ArrLen - 1
				case "next":
					want = k % c.ArrLen
				default:
					if n, e := strconv.Atoi(idx); e == nil && n >= 0 && n < c.ArrLen {
						want = n
					}
				}
				if want >= 0 {
					nontrivial()
					if got := elemID(v); got != want {
						return violationf("GetMapValue(%q) call %d on a %d-element %s array returned element %d (%v), expected element %d", in, k+1, c.ArrLen, c.ArrType, got, v, want)
					}
				}
			}
		}
		if c.ArrLen == 0 || c.Origin != "grammar" {
			nontrivial()
		}
	case "stringfunc":
		name, args, err := str.ParseStringFunc(in)
		if err != nil {
			class("rejected")
			nontrivial()
			return nil
		}
		class("accepted")
		// reference for the well-formed shape  name(a, b, ...)  (one bracket pair, closing bracket last)
		if strings.Count(in, "(") == 1 && strings.Count(in, ")") == 1 && strings.HasSuffix(strings.TrimSpace(in), ")") && strings.Index(in, "(") < strings.Index(in, ")") {
			nontrivial()
			before, rest, _ := strings.Cut(in, "(")
			inner := strings.TrimSuffix(strings.TrimSpace(rest), ")")
			want := strings.Split(strings.TrimSpace(inner), ",")
			for i := range want {
				want[i] = strings.TrimSpace(want[i])
			}
			if name != strings.TrimSpace(before) || fmt.Sprintf("%q", args) != fmt.Sprintf("%q", want) {
				return violationf("ParseStringFunc(%q) = (%q, %q), expected (%q, %q)", in, name, args, strings.TrimSpace(before), want)
			}
		}
	case "tmplfunc":
		f, args := templater.ParseFunc(in)
		if f == nil {
			class("not_a_function")
			return nil
		}
		nontrivial()
		vars := templateVarsFor(ParserCase{ArrType: "any", ArrLen: 2})
		for _, withVars := range []bool{false, true} {
			var out string
			var err error
			if withVars {
				out, err = templater.ExecTemplateFuncWithVariables(f, args, vars, mp.NewNextIterator(1))
			} else {
				out, err = templater.ExecTemplateFunc(f, args)
			}
			if err != nil {
				class("func_error")
				continue
			}
			class("func_ok")
			if e := checkFuncResult(in, args, out, withVars); e != nil {
				return e
			}
		}
	case "preprocessor":
		p := &preprocessor.Preprocessor{Mapping: map[string]string{"v": in}}
		p.InitIterator(mp.NewNextIterator(1))
		vars := templateVarsFor(ParserCase{ArrType: "mapstr", ArrLen: 0})
		if _, err := p.Process(vars); err != nil {
			class("rejected")
		} else {
			class("accepted")
		}
		nontrivial()
	case "decodeuri":
		size, uri, tag, err := uripost.DecodeURI(in)
		if err != nil {
			class("rejected")
			nontrivial()
			return nil
		}
		class("accepted")
		parts := strings.Split(in, " ")
		if len(parts) < 2 || !looseInt(parts[0], size) {
			return violationf("DecodeURI(%q) accepted the line as size=%d uri=%q tag=%q", in, size, uri, tag)
		}
		if uri != parts[1] || tag != strings.Join(parts[2:], " ") {
			return violationf("DecodeURI(%q) = (%d, %q, %q), the line says uri=%q tag=%q", in, size, uri, tag, parts[1], strings.Join(parts[2:], " "))
		}
	case "rawheader":
		size, tag, err := raw.DecodeHeader(in)
		if err != nil {
			class("rejected")
			nontrivial()
			return nil
		}
		class("accepted")
		first, rest, _ := strings.Cut(in, " ")
		if !looseInt(first, size) || tag != rest {
			return violationf("raw.DecodeHeader(%q) = (%d, %q)", in, size, tag)
		}
	case "utilheader":
		k, v, err := util.DecodeHeader(in)
		if err != nil {
			class("rejected")
			nontrivial()
			return nil
		}
		class("accepted")
		if k == "" || k != strings.TrimSpace(k) || v != strings.TrimSpace(v) || !strings.HasPrefix(in, "[") || !strings.HasSuffix(in, "]") || !strings.Contains(in, ":") {
			return violationf("util.DecodeHeader(%q) = (%q, %q)", in, k, v)
		}
	case "xpath":
		p := &postprocessor.VarXpathPostprocessor{Mapping: map[string]string{"v": in}}
		_, err := p.Process(cannedResponse(), bytes.NewReader(c.Body))
		classErr(class, err)
		nontrivial()
	case "jsonpath":
		p := &postprocessor.VarJsonpathPostprocessor{Mapping: map[string]string{"v": in}}
		_, err := p.Process(cannedResponse(), bytes.NewReader(c.Body))
		classErr(class, err)
		nontrivial()
	case "header":
		p := &postprocessor.VarHeaderPostprocessor{Mapping: map[string]string{"v": in}}
		resp := &http.Response{StatusCode: 200, Header: http.Header{}}
		if utf8.Valid(c.Body) {
			resp.Header.Set("X-H", string(c.Body))
		}
		var first map[string]any
		for i := 0; i < 2; i++ { // twice: the modifier must not keep state between calls
			out, err := p.Process(resp, nil)
			classErr(class, err)
			if err != nil {
				break
			}
			if i == 0 {
				first = out
			} else if fmt.Sprint(first) != fmt.Sprint(out) {
				return violationf("var/header %q on header value %q gave %v the first time and %v the second time", in, c.Body, first, out)
			}
			if s, ok := out["v"].(string); ok && strings.HasPrefix(in, "X-H|substr(") && !strings.Contains(string(c.Body), s) {
				return violationf("var/header %q on header value %q returned %q, which is not a substring of the value", in, c.Body, s)
			}
		}
		nontrivial()
	}
	return nil
}

func classErr(class func(...string), err error) {
	if err != nil {
		class("rejected")
	} else {
		class("accepted")
	}
}

func looseInt(s string, n int) bool {
	v, err := strconv.Atoi(s)
	return err == nil && v == n
}

func elemID(v any) int {
	switch x := v.(type) {
	case map[string]any:
		switch id := x["id"].(type) {
		case int:
			return id
		case string:
			n, _ := strconv.Atoi(id)
			return n
		}
	case string:
		n, _ := strconv.Atoi(x)
		return n
	case int:
		return x
	case int64:
		return int(x)
	case float64:
		return int(x)
	}
	return -2
}

// checkFuncResult judges the output of the documented randomisation functions for
// the argument shapes docs/eng/scenario/functions.md describes.
func checkFuncResult(in string, args []string, out string, withVars bool) error {
	name, _, _ := strings.Cut(in, "(")
	ints := make([]int64, 0, len(args))
	for _, a := range args {
		n, err := strconv.ParseInt(a, 10, 64)
		if err != nil {
			return nil // arguments resolved through variables or not numbers: no reference
		}
		ints = append(ints, n)
	}
	switch name {
	case "randInt":
		v, err := strconv.ParseInt(out, 10, 64)
		if err != nil {
			return violationf("%s returned %q, not an integer", in, out)
		}
		if len(ints) == 2 && ints[0] < ints[1] && (v < ints[0] || v >= ints[1]) && ints[1]-ints[0] > 0 {
			return violationf("%s returned %d, outside [%d, %d)", in, v, ints[0], ints[1])
		}
	case "randString":
		if len(ints) >= 1 && ints[0] > 0 && len(args) == 1 && len(out) != int(ints[0]) {
			return violationf("%s returned a string of %d bytes", in, len(out))
		}
	case "uuid":
		if len(out) != 36 {
			return violationf("%s returned %q", in, out)
		}
	}
	return nil
}

func TestF8Parsers(t *testing.T) {
	pand.Init()
	r := vf.Start(t, "C13")
	vf.Check(r, genParserCase(r), withExcuse(r, checkParser))
}

func FuzzParsers(f *testing.F) {
	pand.Init()
	targets := []string{"mapvalue", "stringfunc", "tmplfunc", "preprocessor", "decodeuri", "rawheader", "utilheader", "xpath", "jsonpath", "header"}
	pools := [][]string{{"source.arr[next].id", "source.arr[-1]", "source.arr[9999]"}, stringFuncs, funcExprs, funcExprs, uripostLines, rawHeaders, utilHeaders,
		append(append([]string{}, nodesetXpaths...), brokenXpaths...), hostileJsonpaths, hostileHeaderExprs}
	// corpus files are named <parser>-NNN
	n := addCorpusNamed(f, "FuzzParsers", func(file string, b []byte) {
		for i, tg := range targets {
			if strings.HasPrefix(file, tg+"-") {
				f.Add(b, uint8(i), uint8(0))
				f.Add(b, uint8(i), uint8(9))
			}
		}
	})
	if n == 0 {
		for i, p := range pools {
			for _, s := range p {
				f.Add([]byte(s), uint8(i), uint8(i%5))
			}
		}
	}
	f.Fuzz(func(t *testing.T, data []byte, sel uint8, aux uint8) {
		if len(data) > 1<<14 {
			return
		}
		c := ParserCase{Target: targets[int(sel)%len(targets)], Origin: "fuzz", ArrType: []string{"any", "mapany", "mapstr", "string", "int", "int64", "float64", "notarray"}[aux%8], ArrLen: int(aux>>3) % 4, Calls: 2}
		expr, body, _ := bytes.Cut(data, []byte("\n"))
		c.In = expr
		switch c.Target {
		case "xpath", "jsonpath":
			c.Body = body
			if len(body) == 0 {
				c.Body = []byte(bodies[int(aux)%len(bodies)])
			}
		case "header":
			c.Body = body
			if len(body) == 0 {
				c.Body = []byte("abc")
			}
		default:
			c.In = data
		}
		fuzzVerdict(t, checkParser(c, nil))
	})
}
