// F1-F5: hostile bytes as ammo files of the four HTTP formats and of grpc/json,
// through the real providers (config.DecodeAndValidate -> NewProvider -> Run ->
// Acquire) on the shared mem fs.
package c13

import (
	"bytes"
	"context"
	"encoding/json"
	"fmt"
	"strings"
	"testing"
	"time"

	ag "verif/harness/internal/ammogen"
	"verif/harness/internal/pand"
	"verif/harness/internal/provrun"
	"verif/harness/internal/vf"

	phttp "github.com/yandex/pandora/components/guns/http"
	grpcammo "github.com/yandex/pandora/components/providers/grpc"
	"github.com/yandex/pandora/core"
	"pgregory.net/rapid"
)

const fmtGRPC = "grpcjson"

// GEntry is one grpc/json line as its author means it.
type GEntry struct {
	Tag      string            `json:"tag"`
	Call     string            `json:"call"`
	Metadata map[string]string `json:"metadata,omitempty"`
	Payload  map[string]any    `json:"payload"`
}

// AmmoCase is one input of F1-F5.
type AmmoCase struct {
	Format string `json:"format"` // uri | uripost | raw | jsonline | grpcjson
	Mode   string `json:"mode"`   // bytes: Data is judged on its own; meta: Data = valid prefix + garbage (+ valid suffix)
	Data   []byte `json:"data"`   // the ammo file (base64 in JSON; the %q form is in "observed.input")
	Origin string `json:"origin"` // valid | mutated | constant | random | meta
	Ops    []string `json:"ops,omitempty"`

	Preload         bool `json:"preload,omitempty"`
	Limit           int  `json:"limit"`
	Passes          int  `json:"passes"`
	ContinueOnError bool `json:"continue_on_error,omitempty"`

	// meta mode
	Valid      *ag.File `json:"valid,omitempty"`       // HTTP formats: the model of the valid prefix
	GValid     []GEntry `json:"grpc_valid,omitempty"`  // grpc/json: entries before the garbage
	GSuffix    []GEntry `json:"grpc_suffix,omitempty"` // grpc/json: entries after the garbage
	Garbage    string   `json:"garbage,omitempty"`
	MustReject bool     `json:"must_reject,omitempty"` // the garbage is malformed by the format's documentation
	// Glue (http/json): what stands between the last byte of the valid JSON and the garbage; "" = the garbage starts on a
	// fresh line after the file as rendered, otherwise none | space | tab | newline | crlf | blank_lines (JSON values are
	// separated by any or no whitespace, so the garbage is garbage wherever it starts).
	Glue string `json:"garbage_glue,omitempty"`
	// Long (meta mode): the "garbage" is ONE very long line (it is in Data; Garbage holds a short description of it)
	Long *LongLine `json:"long_line,omitempty"`
	// MaxAmmoSize is grpc/json's `maxammosize` ("Maximum number of byte in an ammo. Default is bufio.MaxScanTokenSize"); 0 = not set
	MaxAmmoSize int `json:"max_ammo_size,omitempty"`
}

// LongLine is a line of Len bytes (without its newline) that stands after the valid entries of a meta case.
type LongLine struct {
	// entry: a well-formed entry of the format padded to Len (grpc/json: payload name, http/json: body, uri: the path);
	// junk: Len times Fill; header (uri): "[" + padding, a header line that never closes
	Shape string `json:"shape"`
	Fill  string `json:"fill"`
	Len   int    `json:"len"`
	// LineLimit is the longest line the format's reader takes: `maxammosize` / 65536 (bufio.MaxScanTokenSize) for the two
	// bufio.Scanner formats grpc/json and uri, the documented default 65536 for http/json, 0 = no limit (uripost, raw).
	LineLimit  int  `json:"line_limit"`
	Over       bool `json:"over"` // Len > LineLimit
	Terminated bool `json:"terminated"`
}

// ---------------------------------------------------------------------------
// hostile constants (also written to the fuzz corpus)

var ammoConstants = map[string][]string{
	"uri": {
		"", "\n", "\n\n\n", "[", "[]", "[:]", "[Host]", "[: v]", "[Host: h]", "[Host: h]\n", "[Host: h\n/a\n", "/a\n[Host: h", "/a t\n[broken\n/b\n",
		" ", "%", "%zz tag", "http://[::1", "/a\x00b", "/a\x7f", "://", "/a tag with spaces\n", "\xff\xfe/a\n", "/a\r\n/b\r\n", "[A: b]\n[C: d]\n",
		"/" + strings.Repeat("a", 70000), strings.Repeat("/x\n", 300),
	},
	"uripost": {
		"", "\n", "0", "0 ", "0 /", "0 /a", "0 /a\n", "-1 /a\n", "-1 /a tag\nbody\n", "99999999999 /a\n", "99999999999 /a tag\nshort\n", "1073741824 /a\nx\n",
		"5 /a\nab", "5 /a\nabcde", "5 /a\nabcdefgh\n", "x /a\n", "5\n", " 5 /a\nabcde\n", "5  /a\nabcde\n", "+5 /a\nabcde\n", "05 /a\nabcde\n", "5 %zz\nabcde\n",
		"[Host: h]\n3 /a t\nabc\n", "[Host h]\n3 /a\nabc\n", "[\n", "3 /a t\nabc\n[broken\n", "3 /a\nabc3 /b\nabc\n", "9223372036854775807 /a\n", "9223372036854775808 /a\n",
		"0 /a\n0 /b\n0 /c\n", "3 /a\r\nabc\r\n", "2 /a\n\n\n",
	},
	"raw": {
		"", "\n", "0", "0\n", "0 tag\n", "-1\n", "-1 tag\nGET / HTTP/1.1\r\n\r\n", "99999999999\n", "99999999999 tag\nGET / HTTP/1.1\r\nHost: h\r\n\r\n", "1073741824 t\nGET /\n",
		"18\nGET / HTTP/1.1\r\n\r\n", "18 t\nGET / HTTP/1.1\r\n\r\n\n", "40 t\nGET / HTTP/1.1\r\n\r\n", "5 t\nabcde\n", "x\n", "1x t\n", "18\nGET / HTTP/1.1\r\n\r\n18", "3\n\n\n\n",
		"35 t\nGET / HTTP/1.1\r\nContent-Length: -1\r\n\r\n", "52 t\nPOST / HTTP/1.1\r\nContent-Length: 99999999999\r\n\r\nabc\n", "16\nGET  HTTP/1.1\r\n\r\n", "19\n\x00ET / HTTP/1.1\r\n\r\n\n",
		"9223372036854775807 t\nGET / HTTP/1.1\r\n\r\n", "9223372036854775808 t\n", "+18\nGET / HTTP/1.1\r\n\r\n", " 18 \nGET / HTTP/1.1\r\n\r\n",
	},
	"jsonline": {
		"", "\n", "[", "]", "[]", "[]\n", "[[]]", "[{}]", "[{},{}]", "[null]", "[1]", "{", "}", "{}", "{}\n{}\n", "null", "null\n", "1", "\"x\"", "true",
		`{"method":"GET","uri":"/a"}`, `{"method":"GET","uri":"/a"}` + "\n{", `{"method":"GET","uri":"/a"}}`, `{"method":"G T","uri":"/a"}`, `{"method":5}`, `{"uri":"%zz","method":"GET"}`,
		`{"method":"GET","uri":"/a","headers":{"A":1}}`, `{"method":"GET","uri":"/a","headers":[]}`, `{"method":"GET","uri":"/a","headers":null,"body":null}`,
		`{"method":"GET","uri":"/a","host":"\u0000"}`, `[{"method":"GET","uri":"/a"}` + "\n", `[{"method":"GET","uri":"/a"}]` + "\n{bad", `[{"method":"GET","uri":"/a"},]`,
		`{"method":"GET","uri":"/a","body":"` + strings.Repeat("b", 70000) + `"}`, "\xef\xbb\xbf{}", strings.Repeat("[", 5000), strings.Repeat(`{"a":`, 3000),
	},
	fmtGRPC: {
		"", "\n", "\n\n", "{", "}", "{}", "{}\n", "[]", "null", "1", "\"x\"", `{"tag":1}`, `{"call":"x","payload":[]}`, `{"call":"x","payload":"p"}`, `{"call":"x","payload":null,"metadata":null}`,
		`{"tag":"t","call":"target.TargetService.Hello","payload":{"name":"x"}}`, `{"tag":"t","call":"target.TargetService.Hello","payload":{"name":"x"}}` + "\n{", `{"metadata":{"a":1}}`,
		`{"tag":"t","call":"c","payload":{}}` + "\n\n" + `{"tag":"u","call":"c","payload":{}}` + "\n", strings.Repeat("a", 70000), `{"tag":"` + strings.Repeat("t", 70000) + `"}`,
		"\xff\xfe", "{\"tag\":\"\\ud800\"}", strings.Repeat("[", 5000), strings.Repeat(`{"payload":`, 3000),
	},
}

// known-malformed lines per format (by docs/eng/providers.md: what an entry must look like)
var invalidGarbage = map[string][]string{
	"uri":      {"[NoColon]", "[: novalue]", "[unterminated: x", "%zz", "http://[::1 tag", "/a\x7fb"},
	"uripost":  {"abc /uri tag", "5", "[bad", "x5 /a", "7 /a t\nab", "-3 /a t", "5 %zz\nabcde"},
	"raw":      {"abc", "x12 tag", "12x", "500 t\nGET / HTTP/1.1\r\n\r\n", "-5 tag"},
	"jsonline": {`{"uri": `, `{"method": 5, "uri": "/a"}`, `[1,2`, `xyz`, `{"method":"G T","uri":"/a"}`, `{"method":"GET","uri":"%zz"}`},
	fmtGRPC:    {`{"tag": `, `{"tag": 5}`, `xyz`, `[1,2]`, `{"call":"c","payload":"str"}`, `{"tag":"t"}}`, `"just a string"`},
}

// Garbage of the JSON formats that begins with a JSON structural character (RFC 8259: [ ] { } : ,) or a quote. No JSON
// value can begin with ] } : or , whatever follows, and the tails given for [ { " leave the value unterminated or
// broken, so a file that continues like this after its valid entries is never well-formed - neither as one document
// nor as a sequence of values / lines.
var structuralGarbage = []struct {
	Name  string
	First string
	Tails []string
}{
	{"close_bracket", "]", []string{"", "]", "\n", "\n[", " ]", "}", `{"method":"GET","uri":"/a"}`, "\n" + `[{"method":"GET","uri":"/a"}]`, ",", "x"}},
	{"close_brace", "}", []string{"", "}", "\n", "\n{", " }", "]", `{"method":"GET","uri":"/a"}`, "\n" + `{"method":"GET","uri":"/a"}`, ",", "x"}},
	{"comma", ",", []string{"", ",", "\n", `{"method":"GET","uri":"/a"}`, "]", "}", " ", "null"}},
	{"colon", ":", []string{"", ":", "\n", `{"method":"GET","uri":"/a"}`, "1", "}", " "}},
	{"open_bracket", "[", []string{"", "[", "}", ",", "1,2", `{"method":"GET","uri":"/a"}`, `{"method":"GET","uri":"/a"},`, "\n"}},
	{"open_brace", "{", []string{"", "{", "]", ",}", ":}", `"method":"GET","uri":"/a"`, `"method":"GET","uri":"/a"]`, `"uri"}`, "\n"}},
	{"quote", "\"", []string{"", "abc", `method":"GET"`, "\\", "\n"}},
}

var glues = map[string]string{"none": "", "space": " ", "tab": "\t", "newline": "\n", "crlf": "\r\n", "blank_lines": "\n\n \n"}
var glueNames = []string{"none", "none", "space", "tab", "newline", "crlf", "blank_lines"}

// structuralFirst names the structural character a garbage string begins with ("" = none).
func structuralFirst(g string) string {
	for _, sg := range structuralGarbage {
		if strings.HasPrefix(g, sg.First) {
			return sg.Name
		}
	}
	return ""
}

// anything-goes garbage lines (may happen to be valid for the format)
var looseGarbage = []string{"/extra", "0 /extra", "[X-Extra: 1]", "{}", "null", "x", "-1", "0", "99999999999", "[", "{", "\x00", "5 /a", "18", " ", "\t\t"}

// ---------------------------------------------------------------------------
// generators

func genGEntries(t *rapid.T, min, max int) []GEntry {
	n := rapid.IntRange(min, max).Draw(t, "gentries")
	out := make([]GEntry, 0, n)
	for i := 0; i < n; i++ {
		e := GEntry{Tag: fmt.Sprintf("t%d", rapid.IntRange(0, 3).Draw(t, "gtag")), Call: "target.TargetService.Hello",
			Payload: map[string]any{"name": rapid.SampledFrom([]string{"x", "é ж", "a\"b", ""}).Draw(t, "gname")}}
		if rapid.Bool().Draw(t, "gmeta") {
			e.Metadata = map[string]string{"k": rapid.SampledFrom([]string{"v", "1", ""}).Draw(t, "gmv")}
		}
		if rapid.IntRange(0, 3).Draw(t, "gnested") == 0 {
			e.Payload["nested"] = map[string]any{"n": float64(rapid.IntRange(-5, 5).Draw(t, "gn")), "l": []any{"a", "b"}}
		}
		out = append(out, e)
	}
	return out
}

func renderGEntries(es []GEntry) []byte {
	var b bytes.Buffer
	for _, e := range es {
		x, _ := json.Marshal(e)
		b.Write(x)
		b.WriteByte('\n')
	}
	return b.Bytes()
}

func genValidAmmo(t *rapid.T, format string) []byte {
	if format == fmtGRPC {
		return renderGEntries(genGEntries(t, 1, 4))
	}
	return ag.Gen(t, format, ag.GenOpts{MinEntries: 1, MaxEntries: 4}).Render()
}

func genBounds(t *rapid.T, c *AmmoCase) {
	c.Limit = rapid.SampledFrom([]int{0, 1, 2, 5, 12}).Draw(t, "limit")
	if c.Limit > 0 {
		c.Passes = rapid.SampledFrom([]int{2, 2, 2, 1, 0}).Draw(t, "passes")
	} else {
		c.Passes = rapid.SampledFrom([]int{2, 2, 1}).Draw(t, "passes")
	}
	if c.Format == fmtGRPC {
		c.ContinueOnError = rapid.Bool().Draw(t, "continue_on_error")
	} else {
		c.Preload = rapid.Bool().Draw(t, "preload")
	}
}

func genAmmoCase(format string, r *vf.Run) func(t *rapid.T) AmmoCase {
	return func(t *rapid.T) AmmoCase {
		c := AmmoCase{Format: format}
		if rapid.IntRange(0, 3).Draw(t, "meta") == 0 {
			genMeta(t, &c)
		} else {
			c.Mode = "bytes"
			c.Origin = rapid.SampledFrom([]string{"mutated", "mutated", "mutated", "mutated", "mutated", "constant", "constant", "valid", "random"}).Draw(t, "origin")
			switch c.Origin {
			case "valid":
				c.Data = genValidAmmo(t, format)
			case "mutated":
				c.Data, c.Ops = mutate(t, genValidAmmo(t, format), [][]byte{genValidAmmo(t, format)}, 3)
			case "constant":
				c.Data = []byte(rapid.SampledFrom(ammoConstants[format]).Draw(t, "constant"))
				if rapid.Bool().Draw(t, "mutate_constant") {
					c.Data, c.Ops = mutate(t, c.Data, nil, 1)
				}
			default:
				c.Data = genRawBytes(t, "0123456789 /[]{}:\",\n\r-GETHP.1abtag")
			}
			genBounds(t, &c)
		}
		steerAmmo(&c, r)
		return c
	}
}

// genMeta builds valid-prefix + garbage (+ valid suffix for grpc/json with continueonerror).
func genMeta(t *rapid.T, c *AmmoCase) {
	c.Mode, c.Origin = "meta", "meta"
	if rapid.IntRange(0, 4).Draw(t, "long_line") == 0 {
		genLong(t, c)
		return
	}
	c.MustReject = rapid.IntRange(0, 2).Draw(t, "must_reject") > 0
	structural := false
	if c.MustReject && (c.Format == "jsonline" || c.Format == fmtGRPC) {
		structural = rapid.Bool().Draw(t, "structural_garbage")
	}
	switch {
	case structural:
		sg := structuralGarbage[rapid.IntRange(0, len(structuralGarbage)-1).Draw(t, "structural_first")]
		c.Garbage = sg.First + rapid.SampledFrom(sg.Tails).Draw(t, "structural_tail")
		if c.Format == fmtGRPC {
			// grpc/json is read line by line: the garbage is one line
			c.Garbage = strings.ReplaceAll(c.Garbage, "\n", " ")
		}
	case c.MustReject:
		c.Garbage = rapid.SampledFrom(invalidGarbage[c.Format]).Draw(t, "garbage")
	default:
		c.Garbage = rapid.SampledFrom(append(append([]string{}, looseGarbage...), hostileTokens...)).Draw(t, "garbage")
	}
	c.Passes = rapid.IntRange(1, 2).Draw(t, "passes")
	if c.Format == fmtGRPC {
		c.GValid = genGEntries(t, 1, 4)
		c.ContinueOnError = rapid.Bool().Draw(t, "continue_on_error")
		c.Data = append(renderGEntries(c.GValid), c.Garbage...)
		if rapid.Bool().Draw(t, "suffix") {
			c.GSuffix = genGEntries(t, 1, 2)
			c.Data = append(append(c.Data, '\n'), renderGEntries(c.GSuffix)...)
		}
		return
	}
	f := ag.Gen(t, c.Format, ag.GenOpts{MinEntries: 1, MaxEntries: 4})
	f.Layout.Inline = false
	if c.Format == "jsonline" && c.MustReject && rapid.IntRange(0, 2).Draw(t, "as_array") == 0 {
		// one top-level array: the decoder judges the file as a whole, whatever follows the closing bracket included
		f.Layout.JSON = "array"
	}
	c.Valid = &f
	c.Preload = rapid.Bool().Draw(t, "preload")
	d := f.Render()
	if c.Format == "jsonline" && c.MustReject && rapid.Bool().Draw(t, "glued") {
		// the garbage follows the last valid value after no / some whitespace instead of on a fresh line
		c.Glue = rapid.SampledFrom(glueNames).Draw(t, "glue")
		d = append(bytes.TrimRight(d, " \t\r\n"), glues[c.Glue]...)
	} else if len(d) == 0 || d[len(d)-1] != '\n' {
		d = append(d, '\n') // the garbage starts on a fresh line
	}
	c.Data = append(d, c.Garbage...)
	if rapid.Bool().Draw(t, "garbage_newline") {
		c.Data = append(c.Data, '\n')
	}
}

// steerAmmo keeps the search away from listed known findings.
func steerAmmo(c *AmmoCase, r *vf.Run) {
	if r == nil {
		return
	}
	if c.Format == fmtGRPC && c.Passes == 0 && r.IsKnown(fGrpcEmptySpin) {
		// unlimited passes over a file that may hold no deliverable line: the shape of the listed finding
		r.Excluded(fGrpcEmptySpin)
		c.Passes = 2
	}
	if c.Format == "jsonline" && c.Mode == "meta" && c.MustReject && c.Valid != nil && c.Valid.Layout.JSON == "array" && r.IsKnown(fJSONArrayTrailer) {
		r.Excluded(fJSONArrayTrailer)
		c.MustReject = false
	}
	if c.Format == "raw" && c.Mode == "meta" && c.MustReject && !bytes.HasSuffix(c.Data, []byte("\n")) && !strings.Contains(c.Garbage, "\n") && r.IsKnown(fRawLastLine) {
		// a malformed header line that is the unterminated last line of the file: the shape of the listed finding
		r.Excluded(fRawLastLine)
		c.Data = append(c.Data, '\n')
	}
}

// ---------------------------------------------------------------------------
// oracle

func providerType(format string) string {
	if format == fmtGRPC {
		return "grpc/json"
	}
	return ag.ProviderType(format)
}

func checkAmmo(c AmmoCase, o *vf.Obs) error {
	note := func(k string, v any) {
		if o != nil {
			o.Note(k, v)
		}
	}
	if len(c.Data) <= 4096 {
		note("input", fmt.Sprintf("%q", c.Data))
	} else {
		note("input", fmt.Sprintf("%q ... (%d bytes)", c.Data[:512], len(c.Data)))
	}
	{
		if probe, ok := canary(c.Data); ok {
			pc := AmmoCase{Format: c.Format, Mode: "bytes", Origin: c.Origin, Preload: c.Preload, Limit: c.Limit, Passes: c.Passes, ContinueOnError: c.ContinueOnError}
			pc.Data = probe
			if err := judge(note, len(probe), smallCeiling, func() error { return boundedFor(outerDeadline, "ammo provider", func(context.Context) error { return ammoBody(pc, nil) }) }); err != nil {
				if v, ok := err.(*violation); ok {
					v.msg = "with every number of >= 9 digits replaced by " + canaryBytes + ": " + v.msg
				}
				return err
			}
		}
	}
	return judge(note, len(c.Data), smallCeiling, func() error { return boundedFor(outerDeadline, "ammo provider", func(context.Context) error { return ammoBody(c, o) }) })
}

var extraOK = map[string]bool{"Content-Length": true}

func ammoBody(c AmmoCase, o *vf.Obs) error {
	class := func(names ...string) {
		if o != nil {
			o.Class(names...)
		}
	}
	name := pand.WriteFile("c13", ".ammo", c.Data)
	defer pand.Remove(name)
	conf := map[string]any{"type": providerType(c.Format), "file": name, "limit": c.Limit, "passes": c.Passes}
	if c.Preload {
		conf["preload"] = true
	}
	if c.ContinueOnError {
		conf["continueonerror"] = true
	}
	if c.MaxAmmoSize != 0 {
		conf["maxammosize"] = c.MaxAmmoSize
	}
	var p core.Provider
	var buildErr error
	if err := guard("provider construction", func() error { p, buildErr = provrun.Build(conf); return nil }); err != nil {
		return err
	}
	class("origin_" + c.Origin)
	if c.Mode == "meta" && c.MustReject && c.Long == nil {
		// labelled here: a file in array form is judged (and rejected) as a whole at construction
		layout := "lines"
		if c.Valid != nil && c.Valid.Layout.JSON != "" {
			layout = c.Valid.Layout.JSON
		}
		if first := structuralFirst(c.Garbage); first != "" && (c.Format == "jsonline" || c.Format == fmtGRPC) {
			class("meta_garbage_structural", "meta_garbage_first_"+first)
			if c.Format == "jsonline" {
				class("meta_garbage_first_" + first + "_after_" + layout)
			}
		}
		if c.Format == "jsonline" {
			if c.Glue != "" {
				class("meta_garbage_glue_"+c.Glue, "meta_garbage_glued_after_"+layout)
			} else {
				class("meta_garbage_on_fresh_line")
			}
		}
	}
	for _, op := range c.Ops {
		if i := strings.IndexByte(op, '='); i > 0 {
			op = op[:i]
		}
		class("op_" + op)
	}
	if c.Preload {
		class("preload")
	}
	if c.ContinueOnError {
		class("continue_on_error")
	}
	if buildErr != nil {
		class("rejected_at_construction")
		if c.Mode == "meta" && c.Format != "jsonline" {
			return violationf("%s: provider construction failed for a file that starts with valid entries: %v", c.Format, buildErr)
		}
		if (c.Origin == "mutated" || c.Mode == "meta") && o != nil {
			o.NonTrivial()
		}
		return nil
	}

	// how many entries this file can possibly hold per pass: every entry takes at least one byte
	bound := c.Limit
	perPass := len(c.Data) + 1
	if bound == 0 || (c.Passes > 0 && c.Passes*perPass < bound) {
		bound = c.Passes * perPass
	}
	if c.Long != nil && c.Mode == "meta" && c.Passes == 0 && c.Limit == 0 {
		n := len(c.GValid)
		if c.Valid != nil {
			n = len(c.Valid.Expected())
		}
		bound = longBound(c, n)
	}
	const cap = 20000
	capped := false
	if bound > cap {
		bound, capped = cap, true
	}

	var wantHTTP []ag.Want
	var wantG []GEntry
	if c.Mode == "meta" {
		if c.Valid != nil {
			wantHTTP = c.Valid.Expected()
		}
		wantG = c.GValid
	}
	var gotValidG []GEntry
	invalidG := 0
	observe := func(i int, a core.Ammo) error {
		if c.Format == fmtGRPC {
			ga, ok := a.(*grpcammo.Ammo)
			if !ok {
				return violationf("grpc/json delivered %T, not *grpc.Ammo", a)
			}
			if ga.IsInvalid() {
				invalidG++
				if !c.ContinueOnError {
					return violationf("grpc/json delivered an ammo marked invalid although continueonerror is off (entry %d)", i)
				}
				return nil
			}
			if c.Mode == "meta" {
				gotValidG = append(gotValidG, GEntry{Tag: ga.Tag, Call: ga.Call, Metadata: ga.Metadata, Payload: ga.Payload})
			}
			return nil
		}
		ha, ok := a.(phttp.Ammo)
		if !ok {
			return violationf("%s delivered %T, not an HTTP gun ammo", c.Format, a)
		}
		req, sample := ha.Request()
		if req == nil || req.URL == nil || sample == nil || req.Method == "" {
			return violationf("%s entry %d is not well-formed: request=%v", c.Format, i, req)
		}
		if c.Mode == "meta" && i < len(wantHTTP) {
			g, err := ag.Observe(a)
			if err != nil {
				return violationf("entry %d: %v", i, err)
			}
			if err := ag.Compare(wantHTTP[i], g, extraOK); err != nil {
				return violationf("%s: entry %d of the valid prefix is delivered differently once garbage %q follows it: %v", c.Format, i, c.Garbage, err)
			}
		}
		return nil
	}
	res, err := drain(p, bound+1, observe)
	if err != nil {
		return err
	}
	if o != nil {
		o.Note("delivered", res.Delivered)
		o.Note("run_error", fmt.Sprint(res.RunErr))
	}
	rejected := res.RunErr != nil && res.RunEndedItself
	switch {
	case rejected:
		class("rejected_by_run")
	case res.RejectedAtAcq > 0:
		class("entries_refused_at_acquire")
	default:
		class("accepted")
	}
	if rejected && res.Delivered > 0 {
		class("rejected_after_delivering")
	}
	if o != nil && (c.Origin == "mutated" || c.Mode == "meta" || (rejected && res.Delivered > 0)) {
		o.NonTrivial()
	}
	if c.Limit > 0 && res.Delivered > c.Limit {
		return violationf("%s limit=%d: %d entries delivered", c.Format, c.Limit, res.Delivered)
	}
	if res.Delivered+res.RejectedAtAcq > bound && !capped {
		return violationf("%s passes=%d limit=%d: more than %d entries came out of a %d-byte file (the provider does not stop)", c.Format, c.Passes, c.Limit, bound, len(c.Data))
	}
	if c.Mode != "meta" {
		return nil
	}

	// metamorphic: valid prefix V, garbage G on a fresh line
	class("meta")
	if c.MustReject {
		class("meta_must_reject")
	}
	if c.Long != nil {
		E := len(wantG)
		if c.Valid != nil {
			E = len(wantHTTP)
		}
		return judgeLong(c, res, gotValidG, invalidG, E, class)
	}
	if c.Format == fmtGRPC {
		want := append([]GEntry{}, wantG...)
		if c.ContinueOnError {
			want = append(want, c.GSuffix...)
		}
		if c.ContinueOnError && c.MustReject {
			// bad line skipped (delivered marked invalid), good ones delivered, for every pass
			var all []GEntry
			for ps := 0; ps < c.Passes; ps++ {
				all = append(all, want...)
			}
			if err := sameGEntries(all, gotValidG); err != nil {
				return violationf("grpc/json continueonerror, passes=%d, garbage %q: %v", c.Passes, c.Garbage, err)
			}
			if res.RunErr != nil {
				return violationf("grpc/json continueonerror: Run returned %v for a bad line %q that was to be skipped", res.RunErr, c.Garbage)
			}
			if invalidG != c.Passes {
				return violationf("grpc/json continueonerror: %d entries marked invalid, expected one per pass (%d) for garbage %q", invalidG, c.Passes, c.Garbage)
			}
			return nil
		}
		if len(gotValidG) < len(wantG) {
			return violationf("grpc/json: only %d of the %d valid entries before the garbage %q were delivered (Run error: %v)", len(gotValidG), len(wantG), c.Garbage, res.RunErr)
		}
		if err := sameGEntries(wantG, gotValidG[:len(wantG)]); err != nil {
			return violationf("grpc/json garbage %q: %v", c.Garbage, err)
		}
		if c.MustReject {
			if res.RunErr == nil {
				return violationf("grpc/json: malformed line %q was not rejected: Run returned nil after %d entries", c.Garbage, res.Delivered)
			}
			if len(gotValidG) != len(wantG) {
				return violationf("grpc/json: %d entries delivered, the file has %d valid ones before the malformed line %q", len(gotValidG), len(wantG), c.Garbage)
			}
		}
		return nil
	}
	E := len(wantHTTP)
	if c.MustReject {
		if res.RunErr == nil || !res.RunEndedItself {
			id := ""
			if c.Format == "jsonline" && c.Valid.Layout.JSON == "array" {
				id = fJSONArrayTrailer
			}
			if c.Format == "raw" && !bytes.HasSuffix(c.Data, []byte("\n")) && !strings.Contains(c.Garbage, "\n") {
				id = fRawLastLine
			}
			return &violation{id: id, msg: fmt.Sprintf("%s (preload=%v, layout=%+v): malformed line %q after %d valid entries was not rejected: Run returned %v after %d entries",
				c.Format, c.Preload, c.Valid.Layout, c.Garbage, E, res.RunErr, res.Delivered)}
		}
		if !c.Preload && res.Delivered != E {
			return violationf("%s: %d entries delivered before the error %q, the file has %d valid ones before the malformed line %q", c.Format, res.Delivered, res.RunErr, E, c.Garbage)
		}
		if c.Preload && res.Delivered > E {
			return violationf("%s preload: %d entries delivered although the file has only %d valid ones (then %q)", c.Format, res.Delivered, E, c.Garbage)
		}
		return nil
	}
	if !c.Preload || res.RunErr == nil {
		if res.Delivered < E {
			return violationf("%s (preload=%v): only %d of the %d valid entries before the garbage %q were delivered (Run error: %v)", c.Format, c.Preload, res.Delivered, E, c.Garbage, res.RunErr)
		}
	}
	return nil
}

func sameGEntries(want, got []GEntry) error {
	if len(want) != len(got) {
		return fmt.Errorf("%d valid entries delivered, expected %d", len(got), len(want))
	}
	norm := func(e GEntry) string {
		if len(e.Metadata) == 0 {
			e.Metadata = nil
		}
		b, _ := json.Marshal(e)
		var x any
		_ = json.Unmarshal(b, &x)
		b, _ = json.Marshal(x)
		return string(b)
	}
	for i := range want {
		if w, g := norm(want[i]), norm(got[i]); w != g {
			return fmt.Errorf("entry %d delivered as %s, the file says %s", i, g, w)
		}
	}
	return nil
}

// ---------------------------------------------------------------------------
// tests

func runAmmoTarget(t *testing.T, format string) {
	pand.Init()
	r := vf.Start(t, "C13")
	vf.Check(r, genAmmoCase(format, r), withExcuse(r, checkAmmo))
}

func TestF1Uri(t *testing.T)      { runAmmoTarget(t, "uri") }
func TestF2Uripost(t *testing.T)  { runAmmoTarget(t, "uripost") }
func TestF3Raw(t *testing.T)      { runAmmoTarget(t, "raw") }
func TestF4HTTPJSON(t *testing.T) { runAmmoTarget(t, "jsonline") }
func TestF5GrpcJSON(t *testing.T) { runAmmoTarget(t, fmtGRPC) }

// fuzzAmmo is the body of the five native fuzz targets: mode selects preload /
// continueonerror, limit and passes.
func fuzzAmmo(f *testing.F, name, format string) {
	pand.Init()
	addCorpus(f, name, func(b []byte) { f.Add(b, uint8(0)); f.Add(b, uint8(1)) }, ammoConstants[format]...)
	f.Fuzz(func(t *testing.T, data []byte, mode uint8) {
		if len(data) > 1<<17 {
			return
		}
		c := AmmoCase{Format: format, Mode: "bytes", Origin: "fuzz", Data: data}
		flag := mode&1 == 1
		if format == fmtGRPC {
			c.ContinueOnError = flag
		} else {
			c.Preload = flag
		}
		c.Limit = []int{0, 1, 3, 12}[(mode>>1)&3]
		c.Passes = []int{2, 1, 2, 0}[(mode>>3)&3]
		if c.Limit == 0 && c.Passes == 0 {
			c.Passes = 2
		}
		if format == fmtGRPC && c.Passes == 0 && isKnown(fGrpcEmptySpin) {
			c.Passes = 2
		}
		start := time.Now()
		err := checkAmmo(c, nil)
		slowLog(start, fmt.Sprintf("%s mode=%d", name, mode), data)
		fuzzVerdict(t, err)
	})
}

func FuzzUri(f *testing.F)      { fuzzAmmo(f, "FuzzUri", "uri") }
func FuzzUripost(f *testing.F)  { fuzzAmmo(f, "FuzzUripost", "uripost") }
func FuzzRaw(f *testing.F)      { fuzzAmmo(f, "FuzzRaw", "raw") }
func FuzzHTTPJSON(f *testing.F) { fuzzAmmo(f, "FuzzHTTPJSON", "jsonline") }
func FuzzGrpcJSON(f *testing.F) { fuzzAmmo(f, "FuzzGrpcJSON", fmtGRPC) }
