package c13

// F10 — the generic `json` provider (core/provider DecodeProvider over a MultiPassReader) on empty, blank, truncated
// and garbage sources, with and without bounds: it must end (or go on delivering) — never spin without delivering
// anything, never ignore the cancel, never panic.

import (
	"fmt"
	"strings"
	"testing"
	"time"

	"verif/harness/internal/pand"
	"verif/harness/internal/provrun"
	"verif/harness/internal/vf"

	"pgregory.net/rapid"
)

const findingBlankSource = "generic-json-blank-source-unlimited-passes-spins" // not listed: fixed together with the empty source

type GJCase struct {
	Content string `json:"content"`
	Kind    string `json:"kind"`
	Passes  int    `json:"passes"`
	Limit   int    `json:"limit"`
	Queue   int    `json:"ammo_queue_size"`
}

func genGJ(r *vf.Run) func(t *rapid.T) GJCase {
	return func(t *rapid.T) GJCase {
		c := GJCase{Passes: rapid.SampledFrom([]int{0, 0, 1, 2}).Draw(t, "passes"), Limit: rapid.SampledFrom([]int{0, 3, 7}).Draw(t, "limit"),
			Queue: rapid.SampledFrom([]int{0, 1, 16}).Draw(t, "queue")}
		n := rapid.IntRange(1, 4).Draw(t, "objects")
		var sb strings.Builder
		for i := 0; i < n; i++ {
			fmt.Fprintf(&sb, "{\"n\": %d}\n", i)
		}
		valid := sb.String()
		c.Kind = rapid.SampledFrom([]string{"valid", "empty", "blank", "valid_then_garbage", "truncated", "garbage", "array", "scalars"}).Draw(t, "kind")
		switch c.Kind {
		case "valid":
			c.Content = valid
		case "empty":
			c.Content = ""
		case "blank":
			c.Content = rapid.SampledFrom([]string{"\n", "   ", "\n\n\t \n", "\r\n"}).Draw(t, "blank")
		case "valid_then_garbage":
			c.Content = valid + rapid.SampledFrom([]string{"{bad", "}", "\x00", "[1,", "nul"}).Draw(t, "garbage")
		case "truncated":
			c.Content = valid[:rapid.IntRange(1, len(valid)-2).Draw(t, "cut")]
		case "garbage":
			c.Content = rapid.SampledFrom([]string{"{", "}{", "\x00\x01", "nul", "[", "\"abc"}).Draw(t, "garbageOnly")
		case "array":
			c.Content = "[{\"n\": 1}, {\"n\": 2}]\n"
		case "scalars":
			c.Content = "1\n\"x\"\nnull\ntrue\n"
		}
		if c.Kind == "blank" && c.Passes == 0 && r.IsKnown(findingBlankSource) {
			r.Excluded(findingBlankSource)
			c.Passes = 2
		}
		return c
	}
}

func checkGJ(c GJCase, o *vf.Obs) error {
	name := pand.WriteFile("c13gj", ".json", []byte(c.Content))
	defer pand.Remove(name)
	conf := map[string]any{"type": "json", "source": map[string]any{"type": "file", "path": name}}
	if c.Passes > 0 {
		conf["passes"] = c.Passes
	}
	if c.Limit > 0 {
		conf["limit"] = c.Limit
	}
	if c.Queue > 0 {
		conf["ammo-queue-size"] = c.Queue
	}
	p, err := provrun.Build(conf)
	if err != nil {
		return fmt.Errorf("valid generic json provider config rejected: %v", err)
	}
	want := 12 // more than any bounded case can deliver; unbounded valid sources are cancelled after 12
	var res provrun.Result
	err = vf.Guard(func() error {
		var e error
		res, e = provrun.DrainSettle(p, want, 2, 3*time.Second, 2*time.Millisecond, nil)
		return e
	})
	if err != nil {
		return fmt.Errorf("generic json provider on a %s source (%q), passes=%d limit=%d: %v", c.Kind, c.Content, c.Passes, c.Limit, err)
	}
	if res.Hung != "" {
		return fmt.Errorf("generic json provider on a %s source (%q), passes=%d limit=%d, %d ammo delivered: %s — it neither delivered nor ended by itself",
			c.Kind, c.Content, c.Passes, c.Limit, len(res.Items), res.Hung)
	}
	o.Class("gj_"+c.Kind, fmt.Sprintf("gj_passes_%d", c.Passes))
	o.ClassIf(res.RunErr != nil, "gj_run_error")
	o.ClassIf(c.Kind == "empty" || c.Kind == "blank", "gj_source_without_ammo")
	if c.Kind != "valid" {
		o.NonTrivial()
	}
	return nil
}

func TestF10GenericJSON(t *testing.T) {
	pand.Init()
	r := vf.Start(t, "C13")
	vf.Check(r, genGJ(r), checkGJ)
}
