// F6: hostile scenario descriptions (YAML and HCL) through ReadAmmoConfig and both
// scenario providers; when construction succeeds a few ammo are acquired and each
// is "dry-shot": the preprocessors, templater and postprocessors the gun would run
// are run against a canned response (no network, no sleeps).
package c13

import (
	"bytes"
	"context"
	"fmt"
	"io"
	"net/http"
	"os"
	"regexp"
	"sort"
	"strings"
	"testing"

	"verif/harness/internal/pand"
	"verif/harness/internal/provrun"
	sg "verif/harness/internal/scengen"
	"verif/harness/internal/vf"

	"github.com/spf13/afero"
	grpcscen "github.com/yandex/pandora/components/guns/grpc/scenario"
	httpscen "github.com/yandex/pandora/components/guns/http_scenario"
	"github.com/yandex/pandora/core"
	"pgregory.net/rapid"
)

const scenDir = "/c13s"

// ScenCase is one input of F6.
type ScenCase struct {
	Kind   string            `json:"kind"`   // http | grpc
	Syntax string            `json:"syntax"` // yaml | hcl
	Text   []byte            `json:"text"`   // the description (base64; %q form in "observed.input")
	Files  map[string]string `json:"files,omitempty"`
	Passes int               `json:"passes"`

	Origin     string   `json:"origin"` // valid | structured | bytes | structured+bytes | constant
	StructOps  []string `json:"struct_ops,omitempty"`
	ByteOps    []string `json:"byte_ops,omitempty"`
	MustReject string   `json:"must_reject,omitempty"` // why the description is malformed (empty = unknown)
	Shapes     []string `json:"shapes,omitempty"`      // what the request lists of the mutated model look like (class labels only, see listShapes)
}

// ---------------------------------------------------------------------------
// structured mutations

// numbers used by the byte-level `digits` mutation of scenario text and by the
// weight / count mutations. They are capped so that a worker survives code that
// materialises what the number says (the allocation meter then reports it).
var scenNumbers = []string{"-1", "0", "1000000", "-5", "007", "1e3", "0x10", "1.5", "+3", "-0"}

const (
	hugeStepCount = 1000000   // name(N): N copies of a ~150-byte request
	hugeWeight    = 40000000 // N pointers in the ammo ring
)

var badSteps = []struct {
	s      string // NAME is replaced by an existing step name
	reject string
}{
	{"NAME(", "unterminated argument list"},
	{"NAME(x)", "count is not a number"},
	{"NAME(1,x)", "sleep is not a number"},
	{"NAME)", "stray closing bracket"},
	{"NAME(1))", "stray closing bracket"},
	{"sleep(x)", "sleep argument is not a number"},
	{"nosuch", "reference to an unknown request"},
	{"nosuch(2)", "reference to an unknown request"},
	{"", "reference to an unknown request (empty name)"},
	{"NAME(-1)", ""},
	{"NAME()", ""},
	{"NAME(0)", ""},
	{"NAME(1,2,3)", ""},
	{"NAME( 2 , 0 )", ""},
	{" NAME ", ""},
	{"sleep", ""},
	{"sleep()", ""},
	{"sleep(-5)", ""},
	{fmt.Sprintf("NAME(%d)", hugeStepCount), ""},
	{"NAME(1,99999999999)", ""},
}

// multiplicities under which a step contributes no request at all: the documented
// grammar name(count) takes any integer, and a count of zero or below repeats the
// request zero times.
var nonPositiveCounts = []int{0, -1, 0, -5, -99}

// emptyStep is a step name(c) / name(c, ms) with c <= 0 for a defined request or call.
func emptyStep(t *rapid.T, m *sg.Model, label string) sg.Step {
	names := m.StepNames()
	st := sg.Step{Name: "r"}
	if len(names) > 0 {
		st.Name = names[rapid.IntRange(0, len(names)-1).Draw(t, label+".name")]
	}
	c := rapid.SampledFrom(nonPositiveCounts).Draw(t, label+".count")
	st.Count = &c
	if rapid.IntRange(0, 3).Draw(t, label+".ms?") == 0 {
		ms := rapid.SampledFrom([]int{0, 5, 100}).Draw(t, label+".ms")
		st.Ms = &ms
		st.Tight = rapid.Bool().Draw(t, label+".tight")
	}
	return st
}

// listShapes labels the request lists of a model: which of them hold a sleep() that
// has no request in front of it to attach to, and how it got there. A step whose
// text is not one of the model's own forms (a bad_step string) ends the walk.
func listShapes(m *sg.Model) []string {
	seen := map[string]bool{}
	for _, s := range m.Scenarios {
		built, emptySteps, plain := 0, 0, true
		for i, st := range s.Steps {
			if st.Sleep {
				switch {
				case built > 0:
				case i == 0:
					seen["sleep_first"] = true
				default:
					seen["sleep_after_empty_prefix"] = true // every step in front of it expands to zero requests
				}
				continue
			}
			if strings.ContainsAny(st.Name, "() ,") || st.Name == "" || st.Name == "sleep" {
				plain = false
				break
			}
			n := 1
			if st.Count != nil {
				n = *st.Count
			}
			if n <= 0 {
				emptySteps++
				if n < 0 {
					seen["negative_count"] = true
				} else {
					seen["zero_count"] = true
				}
				continue
			}
			built += n
		}
		if plain && built == 0 && emptySteps > 0 {
			seen["scenario_of_zero_requests"] = true
		}
	}
	var out []string
	for k := range seen {
		out = append(out, k)
	}
	sort.Strings(out)
	return out
}

var hostileExprs = []string{"source.users[", "source.users[]", "source.users[-1]", "source.users[9999]", "source.users[next]", "source.users[rand]", "source.users[last].id",
	"source.nosuch[0]", "randInt(5,5)", "randInt(5, 5)", "randString(-1)", "randString(99999999999)", "randInt(x)", "randInt(1,2,3)", "uuid(", ".", "", "..", "request.nosuch.x",
	"source", "source.", "[0]", "source.users[0][0]", "randInt(source.users[next].id)"}

var hostileTemplates = []string{"{{", "}}", "{{.source.nosuch.x}}", "{{randInt 5 5}}", "{{randString -1}}", "{{index .source 99}}", "{{.}}", "{{template \"x\"}}", "{{range .source}}{{end}}",
	"{{printf \"%d\" 1}}", "{{randInt \"a\"}}", "{{uuid 1 2}}", "/x?{{.request.r.preprocessor.v}}", "{{define \"a\"}}x{{end}}{{template \"a\"}}"}
// not in the list: {{define "a"}}{{template "a"}}{{end}}{{template "a"}} - text/template recurses to its documented limit of 100000
// levels (an error, after growing the goroutine stack to ~512 MB), which a worker under ulimit -v does not always survive.

var hostilePlaceholders = []string{"${env:}", "${", "${}", "${:}", "${env:NO_SUCH_VAR_C13}", "${property:}", "${property:#}", "${property:/no/such/file#k}", "${unknown:x}", "${env:${env:HOME}}", "$${x}"}

type structMut struct {
	name   string
	reject string // non-empty: the result is malformed for this reason
	apply  func(t *rapid.T, m *sg.Model, files map[string]string) bool
}

func pickScenario(t *rapid.T, m *sg.Model) *sg.Scenario {
	if len(m.Scenarios) == 0 {
		return nil
	}
	return &m.Scenarios[rapid.IntRange(0, len(m.Scenarios)-1).Draw(t, "scenario")]
}

func firstStepName(m *sg.Model) string {
	if n := m.StepNames(); len(n) > 0 {
		return n[0]
	}
	return "r"
}

// setString overwrites one free-text field that pandora decodes as a string.
func setString(t *rapid.T, m *sg.Model, v string) bool {
	type slot func()
	var slots []slot
	for i := range m.Requests {
		r := &m.Requests[i]
		slots = append(slots, func() { r.URI = v }, func() { r.Body = &v }, func() { r.Tag = &v }, func() { r.Method = v },
			func() { r.Headers = &sg.KVs{{K: "X-H", V: v}} })
	}
	for i := range m.Calls {
		c := &m.Calls[i]
		slots = append(slots, func() { c.Payload = v }, func() { c.Call = v }, func() { c.Tag = &v }, func() { c.Metadata = &sg.KVs{{K: "k", V: v}} })
	}
	for i := range m.Scenarios {
		s := &m.Scenarios[i]
		slots = append(slots, func() { s.Name = v })
	}
	for i := range m.Sources {
		s := &m.Sources[i]
		slots = append(slots, func() { s.Name = v })
		if s.File != nil {
			slots = append(slots, func() { s.File = &v })
		}
		if s.Variables != nil {
			slots = append(slots, func() { s.Variables = &sg.KVs{{K: "v", V: v}} })
		}
	}
	if len(slots) == 0 {
		return false
	}
	slots[rapid.IntRange(0, len(slots)-1).Draw(t, "slot")]()
	return true
}

func setMapping(t *rapid.T, m *sg.Model, v string) bool {
	if m.Kind == "http" && len(m.Requests) > 0 {
		r := &m.Requests[rapid.IntRange(0, len(m.Requests)-1).Draw(t, "req")]
		r.Preprocessor = &sg.Preprocessor{Mapping: sg.KVs{{K: "v", V: v}}}
		return true
	}
	if len(m.Calls) > 0 {
		c := &m.Calls[rapid.IntRange(0, len(m.Calls)-1).Draw(t, "call")]
		c.Preprocessors = []sg.CallPreprocessor{{Type: "prepare", Mapping: sg.KVs{{K: "v", V: v}}}}
		return true
	}
	return false
}

func addUsersSource(m *sg.Model, files map[string]string, content string) {
	f := scenDir + "/c13users.csv"
	for i := range m.Sources {
		if m.Sources[i].Name == "users" {
			m.Sources = append(m.Sources[:i:i], m.Sources[i+1:]...)
			break
		}
	}
	fields := []string{"id", "name"}
	m.Sources = append(m.Sources, sg.Source{Name: "users", Type: sg.SourceCSV, File: &f, Fields: &fields, Content: content})
	files[f] = content
}

var structMuts = []structMut{
	{"leading_sleep", "the request list starts with sleep()", func(t *rapid.T, m *sg.Model, _ map[string]string) bool {
		s := pickScenario(t, m)
		if s == nil {
			return false
		}
		ms := rapid.SampledFrom([]int{5, 0, 100}).Draw(t, "ms")
		s.Steps = append([]sg.Step{{Sleep: true, Ms: &ms}}, s.Steps...)
		return true
	}},
	{"only_sleep", "the request list holds only sleep()", func(t *rapid.T, m *sg.Model, _ map[string]string) bool {
		s := pickScenario(t, m)
		if s == nil {
			return false
		}
		ms := 5
		s.Steps = []sg.Step{{Sleep: true, Ms: &ms}}
		return true
	}},
	{"bad_step", "", nil}, // expanded in applyStruct (reject depends on the drawn step)
	// sleep() behind steps that build no request: 1-3 steps name(c), c <= 0, then sleep(ms), in front of the list, in place
	// of it, or in front of its tail. Not known to be malformed (the sleep is not the first item of the list), so only the
	// universal clauses apply: no panic, no hang, bounded memory.
	{"empty_prefix_then_sleep", "", func(t *rapid.T, m *sg.Model, _ map[string]string) bool {
		s := pickScenario(t, m)
		if s == nil {
			return false
		}
		var front []sg.Step
		for i, k := 0, rapid.IntRange(1, 3).Draw(t, "empty_steps"); i < k; i++ {
			front = append(front, emptyStep(t, m, fmt.Sprintf("empty[%d]", i)))
		}
		ms := rapid.SampledFrom([]int{5, 0, 100, -5}).Draw(t, "ms")
		front = append(front, sg.Step{Sleep: true, Ms: &ms})
		switch rapid.SampledFrom([]string{"in_front", "in_front", "alone", "tail"}).Draw(t, "rest") {
		case "in_front":
			front = append(front, s.Steps...)
		case "tail":
			if len(s.Steps) > 0 {
				front = append(front, s.Steps[rapid.IntRange(0, len(s.Steps)-1).Draw(t, "tail_from"):]...)
			}
		}
		s.Steps = front
		return true
	}},
	// zero / negative multiplicities on the steps the list already has: all of them, the ones in front of the list's
	// first sleep(), or one of them
	{"nonpositive_counts", "", func(t *rapid.T, m *sg.Model, _ map[string]string) bool {
		s := pickScenario(t, m)
		if s == nil {
			return false
		}
		var steps []int
		firstSleep := -1
		for i, st := range s.Steps {
			if st.Sleep {
				if firstSleep < 0 {
					firstSleep = i
				}
				continue
			}
			steps = append(steps, i)
		}
		if len(steps) == 0 {
			return false
		}
		which := rapid.SampledFrom([]string{"before_first_sleep", "before_first_sleep", "all", "one"}).Draw(t, "which")
		if which == "before_first_sleep" && firstSleep < 0 {
			which = "all"
		}
		if which == "one" {
			steps = []int{steps[rapid.IntRange(0, len(steps)-1).Draw(t, "step")]}
		}
		for _, i := range steps {
			if which == "before_first_sleep" && i > firstSleep {
				break
			}
			c := rapid.SampledFrom(nonPositiveCounts).Draw(t, fmt.Sprintf("count[%d]", i))
			s.Steps[i].Count = &c
		}
		return true
	}},
	{"empty_requests", "", func(t *rapid.T, m *sg.Model, _ map[string]string) bool {
		s := pickScenario(t, m)
		if s == nil {
			return false
		}
		s.Steps = nil
		return true
	}},
	{"no_scenarios", "there is no scenario (no ammo)", func(t *rapid.T, m *sg.Model, _ map[string]string) bool {
		m.Scenarios = nil
		return true
	}},
	{"dup_scenario", "", func(t *rapid.T, m *sg.Model, _ map[string]string) bool {
		if len(m.Scenarios) == 0 {
			return false
		}
		m.Scenarios = append(m.Scenarios, m.Scenarios[0])
		return true
	}},
	{"dup_step_def", "", func(t *rapid.T, m *sg.Model, _ map[string]string) bool {
		if len(m.Requests) > 0 {
			m.Requests = append(m.Requests, m.Requests[0])
		} else if len(m.Calls) > 0 {
			m.Calls = append(m.Calls, m.Calls[0])
		}
		return true
	}},
	{"no_step_defs", "scenarios refer to requests that are not defined", func(t *rapid.T, m *sg.Model, _ map[string]string) bool {
		for _, s := range m.Scenarios {
			for _, st := range s.Steps {
				if !st.Sleep {
					m.Requests, m.Calls = nil, nil
					return true
				}
			}
		}
		return false
	}},
	{"weight", "", func(t *rapid.T, m *sg.Model, _ map[string]string) bool {
		if len(m.Scenarios) == 0 {
			return false
		}
		if len(m.Scenarios) == 1 {
			c := m.Scenarios[0]
			c.Name += "_2"
			m.Scenarios = append(m.Scenarios, c)
		}
		w := rapid.SampledFrom([]int64{-1, 0, -5, hugeWeight, -hugeWeight, 7}).Draw(t, "weight")
		pickScenario(t, m).Weight = &w
		return true
	}},
	{"min_waiting_time", "", func(t *rapid.T, m *sg.Model, _ map[string]string) bool {
		s := pickScenario(t, m)
		if s == nil {
			return false
		}
		w := rapid.SampledFrom([]int64{-1, 9223372036854775807, -9223372036854775808, 0}).Draw(t, "mwt")
		s.MinWaitingTime = &w
		return true
	}},
	{"empty_csv", "", func(t *rapid.T, m *sg.Model, files map[string]string) bool {
		addUsersSource(m, files, rapid.SampledFrom([]string{"", "\n", "id,name\n"}).Draw(t, "csv"))
		if len(m.Sources) > 0 && rapid.Bool().Draw(t, "ignore_first") {
			tr := true
			m.Sources[len(m.Sources)-1].IgnoreFirstLine = &tr
		}
		setMapping(t, m, rapid.SampledFrom([]string{"source.users[next].id", "source.users[0].id", "source.users[rand].name", "source.users[last]", "source.users[-1].id"}).Draw(t, "expr"))
		return true
	}},
	{"bad_csv", "", func(t *rapid.T, m *sg.Model, files map[string]string) bool {
		addUsersSource(m, files, rapid.SampledFrom([]string{"a,\"b\n", "\"", "1,2\n3\n", "a,b,c,d,e\n", "\x00,\xff\n", strings.Repeat("x,", 5000) + "\n"}).Draw(t, "csv"))
		d := rapid.SampledFrom([]string{"", ";;", "\n", "\"", "é", "\r", "\x00"}).Draw(t, "delimiter")
		m.Sources[len(m.Sources)-1].Delimiter = &d
		return true
	}},
	{"empty_json", "a file/json source file that holds no JSON value", func(t *rapid.T, m *sg.Model, files map[string]string) bool {
		f := scenDir + "/c13data.json"
		content := rapid.SampledFrom([]string{"", "\n", "  "}).Draw(t, "json")
		m.Sources = append(m.Sources, sg.Source{Name: "c13data", Type: sg.SourceJSON, File: &f, Content: content})
		files[f] = content
		return true
	}},
	{"bad_json", "a file/json source file with broken JSON", func(t *rapid.T, m *sg.Model, files map[string]string) bool {
		f := scenDir + "/c13data.json"
		content := rapid.SampledFrom([]string{"{", "[1,", "{\"a\":}", "nul", "\"x"}).Draw(t, "json")
		m.Sources = append(m.Sources, sg.Source{Name: "c13data", Type: sg.SourceJSON, File: &f, Content: content})
		files[f] = content
		return true
	}},
	{"odd_json", "", func(t *rapid.T, m *sg.Model, files map[string]string) bool {
		f := scenDir + "/c13data.json"
		content := rapid.SampledFrom([]string{"[]", "{}", "null", "1", "\"s\"", "[[]]", "[null]", "{\"users\":[]}", strings.Repeat("[", 3000) + strings.Repeat("]", 3000)}).Draw(t, "json")
		m.Sources = append(m.Sources, sg.Source{Name: "users", Type: sg.SourceJSON, File: &f, Content: content})
		files[f] = content
		setMapping(t, m, rapid.SampledFrom([]string{"source.users[next]", "source.users[0].id", "source.users.users[last]", "source.users[rand]"}).Draw(t, "expr"))
		return true
	}},
	{"missing_file", "a source file that does not exist", func(t *rapid.T, m *sg.Model, _ map[string]string) bool {
		f := scenDir + "/no-such-file.csv"
		m.Sources = append(m.Sources, sg.Source{Name: "gone", Type: rapid.SampledFrom([]string{sg.SourceCSV, sg.SourceJSON}).Draw(t, "stype"), File: &f})
		return true
	}},
	{"unknown_type", "an unknown component type", func(t *rapid.T, m *sg.Model, _ map[string]string) bool {
		switch rapid.IntRange(0, 2).Draw(t, "where") {
		case 0:
			m.Sources = append(m.Sources, sg.Source{Name: "odd", Type: "file/nosuch"})
		case 1:
			if len(m.Requests) == 0 {
				m.Sources = append(m.Sources, sg.Source{Name: "odd", Type: ""})
				return true
			}
			m.Requests[0].Postprocessors = append(m.Requests[0].Postprocessors, sg.Postprocessor{Type: "var/nosuch", Mapping: &sg.KVs{{K: "a", V: "b"}}})
		default:
			if len(m.Requests) == 0 {
				if len(m.Calls) == 0 {
					return false
				}
				m.Calls[0].Preprocessors = append(m.Calls[0].Preprocessors, sg.CallPreprocessor{Type: "nosuch", Mapping: sg.KVs{{K: "a", V: "b"}}})
				return true
			}
			tt := "nosuch"
			m.Requests[0].Templater = &tt
		}
		return true
	}},
	{"hostile_expr", "", func(t *rapid.T, m *sg.Model, files map[string]string) bool {
		if rapid.Bool().Draw(t, "with_empty_source") {
			addUsersSource(m, files, "")
		}
		return setMapping(t, m, rapid.SampledFrom(hostileExprs).Draw(t, "expr"))
	}},
	{"hostile_template", "", func(t *rapid.T, m *sg.Model, _ map[string]string) bool {
		return setString(t, m, rapid.SampledFrom(hostileTemplates).Draw(t, "template"))
	}},
	{"placeholder", "", func(t *rapid.T, m *sg.Model, _ map[string]string) bool {
		return setString(t, m, rapid.SampledFrom(hostilePlaceholders).Draw(t, "placeholder"))
	}},
	{"property_placeholder_without_key", "a ${property:...} placeholder without '#key'", func(t *rapid.T, m *sg.Model, _ map[string]string) bool {
		return setString(t, m, rapid.SampledFrom([]string{"${property:file}", "x${property:/etc/hostname}y", "${PROPERTY: a }"}).Draw(t, "placeholder"))
	}},
	{"hostile_postprocessor", "", func(t *rapid.T, m *sg.Model, _ map[string]string) bool {
		if len(m.Requests) == 0 {
			return false
		}
		r := &m.Requests[rapid.IntRange(0, len(m.Requests)-1).Draw(t, "req")]
		typ := rapid.SampledFrom([]string{sg.PostJsonpath, sg.PostHeader, sg.PostXpath}).Draw(t, "ptype")
		var pool []string
		switch typ {
		case sg.PostJsonpath:
			pool = hostileJsonpaths
		case sg.PostHeader:
			pool = hostileHeaderExprs
		default:
			pool = nodesetXpaths
		}
		r.Postprocessors = []sg.Postprocessor{{Type: typ, Mapping: &sg.KVs{{K: "v", V: rapid.SampledFrom(pool).Draw(t, "pexpr")}}}}
		return true
	}},
	{"xpath_non_nodeset", "", func(t *rapid.T, m *sg.Model, _ map[string]string) bool {
		if len(m.Requests) == 0 {
			return false
		}
		r := &m.Requests[rapid.IntRange(0, len(m.Requests)-1).Draw(t, "req")]
		r.Postprocessors = []sg.Postprocessor{{Type: sg.PostXpath, Mapping: &sg.KVs{{K: "v", V: rapid.SampledFrom(scalarXpaths).Draw(t, "pexpr")}}}}
		return true
	}},
	{"xpath_type_error", "", func(t *rapid.T, m *sg.Model, _ map[string]string) bool {
		if len(m.Requests) == 0 {
			return false
		}
		r := &m.Requests[rapid.IntRange(0, len(m.Requests)-1).Draw(t, "req")]
		r.Postprocessors = []sg.Postprocessor{{Type: sg.PostXpath, Mapping: &sg.KVs{{K: "v", V: rapid.SampledFrom(typeErrorXpaths).Draw(t, "pexpr")}}}}
		return true
	}},
}

func structMutNames() []string {
	var out []string
	for _, m := range structMuts {
		out = append(out, m.name)
	}
	return out
}

// applyStruct applies one drawn structured mutation; it returns its name and the
// reason why the result must be rejected ("" = not known to be malformed).
func applyStruct(t *rapid.T, m *sg.Model, files map[string]string, avoid map[string]bool) (string, string) {
	var names []string
	for _, n := range structMutNames() {
		if !avoid[n] {
			names = append(names, n)
		}
	}
	name := rapid.SampledFrom(names).Draw(t, "struct_mutation")
	if name == "bad_step" {
		s := pickScenario(t, m)
		if s == nil {
			return "bad_step_noop", ""
		}
		pool := badSteps
		if avoid["huge_step_count"] {
			pool = nil
			for _, b := range badSteps {
				if !strings.Contains(b.s, fmt.Sprint(hugeStepCount)) {
					pool = append(pool, b)
				}
			}
		}
		b := pool[rapid.IntRange(0, len(pool)-1).Draw(t, "bad_step")]
		txt := strings.ReplaceAll(b.s, "NAME", firstStepName(m))
		st := sg.Step{Name: txt}
		at := rapid.IntRange(0, len(s.Steps)).Draw(t, "at")
		if strings.HasPrefix(txt, "sleep") && at == 0 && len(s.Steps) > 0 {
			at = 1 // a leading sleep is its own mutation
		}
		s.Steps = append(s.Steps[:at:at], append([]sg.Step{st}, s.Steps[at:]...)...)
		if len(s.Steps) == 1 && strings.HasPrefix(txt, "sleep") {
			return "bad_step:" + b.s, "the request list holds only sleep()"
		}
		return "bad_step:" + b.s, b.reject
	}
	for _, sm := range structMuts {
		if sm.name == name {
			if !sm.apply(t, m, files) {
				return name + "_noop", ""
			}
			return name, sm.reject
		}
	}
	return "noop", ""
}

// ---------------------------------------------------------------------------
// hostile constants (also the fuzz corpus)

var scenConstantsYAML = []string{
	"", "\n", "{}", "[]", "null", "x", "- a", "scenarios:", "scenarios: []", "scenarios: {}", "scenarios: x", "scenarios:\n  - {}", "scenarios:\n  - name: s\n", "scenarios:\n  - name: s\n    requests: []\n",
	"scenarios:\n  - name: s\n    requests: x\n", "scenarios:\n  - name: s\n    requests: [nosuch]\n", "requests:\n  - name: r\nscenarios:\n  - name: s\n    requests: [r]\n",
	"requests:\n  - name: r\n    uri: /\n    method: GET\nscenarios:\n  - name: s\n    requests: [\"sleep(5)\", r]\n",
	"requests:\n  - name: r\n    uri: /\n    method: GET\nscenarios:\n  - name: s\n    requests: [\"r(\"]\n",
	"requests:\n  - name: r\n    uri: /\n    method: GET\nscenarios:\n  - name: a\n    weight: -5\n    requests: [r]\n  - name: b\n    requests: [r]\n",
	"requests:\n  - name: r\n    uri: \"${property:x}\"\n    method: GET\nscenarios:\n  - name: s\n    requests: [r]\n",
	"variable_sources:\n  - type: file/csv\n    name: u\n    file: /c13s/empty.csv\nrequests:\n  - name: r\n    uri: /\n    method: GET\n    preprocessor:\n      mapping:\n        v: source.u[next].id\nscenarios:\n  - name: s\n    requests: [r]\n",
	"variable_sources:\n  - type: file/json\n    name: j\n    file: /c13s/empty.json\nscenarios: []\n",
	"variable_sources:\n  - type: variables\n    name: v\n    variables:\n      a: randInt(5,5)\n      b: randString(-1)\nscenarios: []\n",
	"calls:\n  - name: c\n    call: target.TargetService.Hello\n    payload: '{}'\nscenarios:\n  - name: s\n    requests: [\"sleep(1)\"]\n",
	"requests:\n  - name: r\n    uri: /\n    method: GET\nscenarios:\n  - name: s\n    requests: [\"r(0)\", \"sleep(5)\", r]\n",
	"calls:\n  - name: c\n    call: target.TargetService.Hello\n    payload: '{}'\nscenarios:\n  - name: s\n    requests: [\"c(-1, 5)\", \"c(0)\", \"sleep(1)\"]\n",
	"scenarios:\n- 0: x", "scenarios:\n- name: s\n  7: 8\n  requests: []\n", "requests:\n- name: r\n  method: GET\n  uri: /\n  true: 1\nscenarios: []\n", "requests:\n- ? [a]\n  : b\n",
	"variable_sources:\n- type: variables\n  name: v\n  variables: {1: 2}\nscenarios: []\n", "1: 2", "null: 1", "scenarios:\n- 1.5: x",
	"a: &a [*a]", "a: &a\n  b: *a", "? [", "\t", "%YAML 9.9", "--- !!binary x", "scenarios: !!int x", strings.Repeat("[", 3000), strings.Repeat("a: ", 2000),
}

var scenConstantsHCL = []string{
	"", "\n", "{", "}", "x", "x = 1", "scenario {}", "scenario \"s\" {}", "scenario \"s\" {\n  requests = []\n}", "scenario \"s\" {\n  requests = [\"nosuch\"]\n}",
	"request \"r\" {\n  method = \"GET\"\n  uri = \"/\"\n}\nscenario \"s\" {\n  requests = [\"sleep(5)\", \"r\"]\n}",
	"request \"r\" {\n  method = \"GET\"\n  uri = \"/\"\n}\nscenario \"s\" {\n  requests = [\"r(\"]\n}",
	"request \"r\" {\n  method = \"GET\"\n  uri = \"/\"\n}\nscenario \"a\" {\n  weight = -5\n  requests = [\"r\"]\n}\nscenario \"b\" {\n  requests = [\"r\"]\n}",
	"request \"r\" {\n  method = \"GET\"\n  uri = \"$${property:x}\"\n}\nscenario \"s\" {\n  requests = [\"r\"]\n}",
	"call \"c\" {\n  call = \"target.TargetService.Hello\"\n  payload = \"{}\"\n}\nscenario \"s\" {\n  requests = [\"sleep(1)\"]\n}",
	"request \"r\" {\n  method = \"GET\"\n  uri = \"/\"\n}\nscenario \"s\" {\n  requests = [\"r(-1)\", \"sleep(5)\"]\n}",
	"call \"c\" {\n  call = \"target.TargetService.Hello\"\n  payload = \"{}\"\n}\nscenario \"s\" {\n  requests = [\"c(0)\", \"sleep(1)\", \"c\"]\n}",
	"locals {\n  a = local.a\n}", "locals {\n  a = element([], 0)\n}", "locals {\n  a = slice([1], 0, 99999999999)\n}", "locals {\n  a = nosuch()\n}", "locals {", "variable_source \"u\" \"file/csv\" {\n  file = \"/c13s/empty.csv\"\n}",
	"variable_source \"u\" {}", "request {}", "request \"r\" {\n  uri = <<EOT\nx", "a = \"${\"", "a = \"%{\"", strings.Repeat("a {\n", 2000), strings.Repeat("[", 3000), "\xff\xfe",
}

var hugeScenNumber = regexp.MustCompile(`[0-9]{6,}`)

// ---------------------------------------------------------------------------
// generator

func genScenCase(r *vf.Run) func(t *rapid.T) ScenCase {
	return func(t *rapid.T) ScenCase {
		c := ScenCase{Files: map[string]string{}}
		c.Syntax = rapid.SampledFrom([]string{"yaml", "yaml", "hcl"}).Draw(t, "syntax")
		c.Passes = rapid.SampledFrom([]int{1, 2, 0}).Draw(t, "passes")
		avoid := map[string]bool{}
		if r != nil {
			for mut, id := range map[string]string{"leading_sleep": fLeadingSleep, "only_sleep": fLeadingSleep, "property_placeholder_without_key": fPropertyNoKey,
				"xpath_non_nodeset": fXpathNonNodeSet, "xpath_type_error": fXpathEval, "huge_step_count": fHugeStepCount} {
				if r.IsKnown(id) {
					avoid[mut] = true
				}
			}
		}
		origin := rapid.SampledFrom([]string{"structured", "structured", "structured", "structured+bytes", "bytes", "bytes", "constant", "valid"}).Draw(t, "origin")
		c.Origin = origin
		if origin == "constant" {
			c.Kind = rapid.SampledFrom([]string{"http", "grpc"}).Draw(t, "kind")
			if c.Syntax == "yaml" {
				c.Text = []byte(rapid.SampledFrom(scenConstantsYAML).Draw(t, "constant"))
			} else {
				c.Text = []byte(rapid.SampledFrom(scenConstantsHCL).Draw(t, "constant"))
			}
			c.Files[scenDir+"/empty.csv"] = ""
			c.Files[scenDir+"/empty.json"] = ""
			steerScen(&c, r)
			return c
		}
		m := sg.Gen(t, sg.Opts{Special: rapid.IntRange(0, 3).Draw(t, "special") == 0}).Rebase(scenDir)
		c.Kind = m.Kind
		for k, v := range m.Files() {
			c.Files[k] = v
		}
		if strings.HasPrefix(origin, "structured") {
			n := rapid.IntRange(1, 2).Draw(t, "struct_mutations")
			for i := 0; i < n; i++ {
				name, reject := applyStruct(t, &m, c.Files, avoid)
				c.StructOps = append(c.StructOps, name)
				if reject != "" {
					c.MustReject = reject
					break // a later mutation could undo what makes the description malformed
				}
			}
		}
		if origin == "structured" {
			c.Shapes = listShapes(&m) // with byte mutations on top the text no longer says what the model says
		}
		if c.Syntax == "yaml" {
			c.Text = sg.RenderYAML(m)
		} else {
			c.Text = sg.RenderHCL(m)
		}
		if c.Syntax == "yaml" && strings.HasPrefix(origin, "structured") && rapid.IntRange(0, 7).Draw(t, "null_item") == 0 {
			// an empty list item (what a file truncated after "- " holds): a line "-" in front of a drawn list item
			lines := splitLinesKeep(c.Text)
			var items []int
			for i, l := range lines {
				if bytes.HasPrefix(bytes.TrimLeft(l, " "), []byte("- ")) {
					items = append(items, i)
				}
			}
			if len(items) > 0 {
				i := items[rapid.IntRange(0, len(items)-1).Draw(t, "null_item_at")]
				indent := lines[i][:len(lines[i])-len(bytes.TrimLeft(lines[i], " "))]
				empty := append(append([]byte{}, indent...), '-', '\n')
				lines = append(lines[:i:i], append([][]byte{empty}, lines[i:]...)...)
				c.Text = joinLines(lines)
				c.StructOps = append(c.StructOps, "null_list_item")
				c.MustReject = "" // the empty item may change what the earlier mutation means (e.g. sit in front of a leading sleep())
				c.Shapes = nil
			}
		}
		if strings.HasSuffix(origin, "bytes") {
			c.Text, c.ByteOps = mutateWith(t, c.Text, nil, 2, scenNumbers, true)
			c.MustReject = "" // the bytes no longer say what the model says
		}
		steerScen(&c, r)
		return c
	}
}

// steerScen keeps generated text away from the shapes of listed known findings that
// byte-level mutations can still produce.
func steerScen(c *ScenCase, r *vf.Run) {
	if r == nil {
		return
	}
	if hugeScenNumber.Match(c.Text) && (r.IsKnown(fHugeWeight) || r.IsKnown(fHugeStepCount)) {
		id := fHugeWeight
		if !r.IsKnown(id) {
			id = fHugeStepCount
		}
		r.Excluded(id)
		c.Text = hugeScenNumber.ReplaceAll(c.Text, []byte("7"))
		for i, op := range c.StructOps {
			if op == "weight" {
				c.StructOps[i] = "weight_steered"
			}
		}
	}
	if r.IsKnown(fNegativeWeight) && bytes.Contains(c.Text, []byte("weight")) && regexp.MustCompile(`weight\s*[:=]\s*-`).Match(c.Text) {
		r.Excluded(fNegativeWeight)
		c.Text = regexp.MustCompile(`(weight\s*[:=]\s*)-`).ReplaceAll(c.Text, []byte("${1}"))
	}
}

// ---------------------------------------------------------------------------
// oracle

func checkScen(c ScenCase, o *vf.Obs) error {
	note := func(k string, v any) {
		if o != nil {
			o.Note(k, v)
		}
	}
	if len(c.Text) <= 6000 {
		note("input", string(bytes.ToValidUTF8(c.Text, []byte("\\x??"))))
	} else {
		note("input", fmt.Sprintf("%q ... (%d bytes)", c.Text[:512], len(c.Text)))
	}
	err := judge(note, len(c.Text), smallCeiling, func() error {
		// own goroutine: a deadline for the parsers, and a stack that deep recursion has grown is freed with it
		return boundedFor(outerDeadline, "scenario provider construction and dry shots", func(context.Context) error { return scenBody(c, o) })
	})
	if v, ok := err.(*violation); ok && v.id == "" && strings.HasPrefix(v.msg, "ALLOCATION") && hugeScenNumber.Match(c.Text) {
		// memory in proportion to a number of the description: a repetition count name(N) or a weight
		if hugeCountRe.Match(c.Text) {
			v.id = fHugeStepCount
		} else {
			v.id = fHugeWeight
		}
	}
	return err
}

var hugeCountRe = regexp.MustCompile(`\(\s*[0-9]{6,}`)

func scenBody(c ScenCase, o *vf.Obs) error {
	class := func(names ...string) {
		if o != nil {
			o.Class(names...)
		}
	}
	fs := pand.FS()
	var written []string
	defer func() {
		for _, f := range written {
			pand.Remove(f)
		}
	}()
	names := make([]string, 0, len(c.Files))
	for k := range c.Files {
		names = append(names, k)
	}
	sort.Strings(names)
	for _, k := range names {
		if err := afero.WriteFile(fs, k, []byte(c.Files[k]), 0o644); err == nil {
			written = append(written, k)
		}
	}
	ext := ".yaml"
	if c.Syntax == "hcl" {
		ext = ".hcl"
	}
	name := pand.WriteFile("c13scen", ext, c.Text)
	written = append(written, name)
	ptype := "http/scenario"
	if c.Kind == "grpc" {
		ptype = "grpc/scenario"
	}
	conf := map[string]any{"type": ptype, "file": name, "limit": 3, "passes": c.Passes}
	var p core.Provider
	var buildErr error
	if err := guard("scenario provider construction ("+ptype+", "+c.Syntax+")", func() error { p, buildErr = provrun.Build(conf); return nil }); err != nil {
		return err
	}
	class("syntax_"+c.Syntax, "kind_"+c.Kind, "origin_"+c.Origin)
	for _, op := range c.StructOps {
		if i := strings.IndexByte(op, ':'); i > 0 {
			class("mut_" + op[:i])
			class("step_" + op[i+1:])
			continue
		}
		class("mut_" + op)
	}
	for _, sh := range c.Shapes {
		class("list_"+sh, "list_"+sh+"_"+c.Kind)
	}
	for _, op := range c.ByteOps {
		if i := strings.IndexByte(op, '='); i > 0 {
			op = op[:i]
		}
		class("op_" + op)
	}
	if o != nil && c.Origin != "valid" && c.Origin != "constant" {
		o.NonTrivial()
	}
	if buildErr != nil {
		class("rejected_at_construction")
		if c.MustReject != "" {
			class("must_reject_rejected")
		}
		if o != nil {
			o.Note("construction_error", buildErr.Error())
		}
		if c.Origin == "valid" {
			class("valid_rejected")
			if os.Getenv("C13_DEBUG") != "" {
				fmt.Fprintf(os.Stderr, "C13_DEBUG valid description rejected: %v\n", buildErr)
			}
		}
		return nil
	}
	shot := 0
	res, err := drain(p, 4, func(i int, a core.Ammo) error {
		shot++
		switch s := a.(type) {
		case *httpscen.Scenario:
			if s == nil || s.VariableStorage == nil {
				return violationf("http/scenario delivered a scenario without variable storage: %+v", s)
			}
			return guard("dry shot of an http scenario (preprocessor, templater, postprocessors)", func() error { dryShootHTTP(s); return nil })
		case *grpcscen.Scenario:
			if s == nil {
				return violationf("grpc/scenario delivered nil")
			}
			return guard("dry shot of a grpc scenario (preprocessors, templater)", func() error { dryShootGRPC(s); return nil })
		default:
			return violationf("%s delivered %T", ptype, a)
		}
	})
	if err != nil {
		return err
	}
	if res.Delivered > 3 {
		return violationf("%s limit=3: %d ammo delivered", ptype, res.Delivered)
	}
	rejected := res.RunErr != nil && res.RunEndedItself
	if rejected {
		class("rejected_by_run")
	} else {
		class("accepted")
		if c.Origin == "valid" {
			class("valid_accepted")
		}
	}
	if c.MustReject != "" {
		if !rejected || res.Delivered > 0 {
			return violationf("%s (%s): the description is malformed (%s; mutations %v) but it was accepted: construction succeeded, %d ammo delivered, Run returned %v",
				ptype, c.Syntax, c.MustReject, c.StructOps, res.Delivered, res.RunErr)
		}
		class("must_reject_rejected")
	}
	return nil
}

const cannedBody = `{"a":[1,2,{"b":"c"}],"token":"tok","items":[],"n":null,"html":"<div><a href='/x'>l</a><li>1</li><li>2</li></div>"}`

func cannedResponse() *http.Response {
	h := http.Header{}
	h.Set("Content-Type", "application/json")
	h.Set("X-H", "abc")
	h.Set("Authorization", "Bearer 0123456789")
	h.Set("Set-Cookie", "k=v")
	return &http.Response{StatusCode: 200, Status: "200 OK", Proto: "HTTP/1.1", Header: h}
}

const maxDrySteps = 40

// dryShootHTTP mirrors ScenarioGun.shoot/shootStep without the network and the
// sleeps: errors end the scenario like they do in the gun; only panics matter.
func dryShootHTTP(s *httpscen.Scenario) {
	templateVars := map[string]any{"source": s.VariableStorage.Variables()}
	requestVars := map[string]any{}
	templateVars["request"] = requestVars
	for i, step := range s.Requests {
		if i >= maxDrySteps {
			return
		}
		stepVars := map[string]any{}
		requestVars[step.Name] = stepVars
		if step.Preprocessor != nil {
			vars, err := step.Preprocessor.Process(templateVars)
			if err != nil {
				return
			}
			stepVars["preprocessor"] = vars
		}
		parts := httpscen.RequestParts{URL: step.URI, Method: step.Method, Body: step.GetBody(), Headers: step.GetHeaders()}
		if step.Templater == nil {
			return
		}
		if err := step.Templater.Apply(&parts, templateVars, s.Name, step.Name); err != nil {
			return
		}
		var rd io.Reader
		if parts.Body != nil {
			rd = bytes.NewReader(parts.Body)
		}
		if _, err := http.NewRequest(parts.Method, parts.URL, rd); err != nil {
			return
		}
		resp := cannedResponse()
		body := bytes.NewReader([]byte(cannedBody))
		post := map[string]any{}
		for _, pp := range step.Postprocessors {
			if pp == nil {
				// ScenarioGun.shootStep calls postprocessor.Process on every element: a nil element is a nil-interface call there
				panic(&violation{id: fNullItem, msg: fmt.Sprintf("request %q of scenario %q holds a nil postprocessor (an empty list item in the description): the gun panics on it at shoot time", step.Name, s.Name)})
			}
			vars, err := pp.Process(resp, body)
			if err != nil {
				return
			}
			for k, v := range vars {
				post[k] = v
			}
			_, _ = body.Seek(0, io.SeekStart)
		}
		stepVars["postprocessor"] = post
	}
}

func dryShootGRPC(s *grpcscen.Scenario) {
	templateVars := map[string]any{}
	if s.VariableStorage != nil {
		templateVars["source"] = s.VariableStorage.Variables()
	} else {
		templateVars["source"] = map[string]any{}
	}
	requestVars := map[string]any{}
	templateVars["request"] = requestVars
	templ := grpcscen.NewTextTemplater()
	for i := range s.Calls {
		if i >= maxDrySteps {
			return
		}
		step := s.Calls[i]
		stepVars := map[string]any{}
		requestVars[step.Name] = stepVars
		pre := map[string]any{}
		for _, pp := range step.Preprocessors {
			if pp == nil {
				panic(&violation{id: fNullItem, msg: fmt.Sprintf("call %q of scenario %q holds a nil preprocessor (an empty list item in the description): the gun panics on it at shoot time", step.Name, s.Name)})
			}
			vars, err := pp.Process(&step, templateVars)
			if err != nil {
				return
			}
			for k, v := range vars {
				pre[k] = v
			}
		}
		stepVars["preprocessor"] = pre
		md := map[string]string{}
		for k, v := range step.Metadata {
			md[k] = v
		}
		if _, err := templ.Apply(step.Payload, md, templateVars, s.Name, step.Name); err != nil {
			return
		}
		for _, pp := range step.Postprocessors {
			if pp == nil {
				panic(&violation{id: fNullItem, msg: fmt.Sprintf("call %q of scenario %q holds a nil postprocessor (an empty list item in the description): the gun panics on it at shoot time", step.Name, s.Name)})
			}
			if _, err := pp.Process(nil, 0); err != nil {
				return
			}
		}
	}
}

func TestF6Scenario(t *testing.T) {
	pand.Init()
	r := vf.Start(t, "C13")
	vf.Check(r, genScenCase(r), withExcuse(r, checkScen))
}

func fuzzScen(f *testing.F, name, syntax string, constants []string) {
	pand.Init()
	addCorpus(f, name, func(b []byte) { f.Add(b, uint8(0)); f.Add(b, uint8(1)) }, constants...)
	f.Fuzz(func(t *testing.T, data []byte, mode uint8) {
		if len(data) > 1<<16 {
			return
		}
		if hugeScenNumber.Match(data) && (isKnown(fHugeWeight) || isKnown(fHugeStepCount)) {
			return
		}
		if isKnown(fNegativeWeight) && regexp.MustCompile(`weight\s*[:=]\s*-`).Match(data) {
			return
		}
		c := ScenCase{Syntax: syntax, Kind: []string{"http", "grpc"}[mode&1], Text: data, Origin: "fuzz", Passes: []int{1, 2, 0, 1}[(mode>>1)&3],
			Files: map[string]string{scenDir + "/empty.csv": "", scenDir + "/empty.json": "", scenDir + "/users.csv": "id,name\n1,a\n2,b\n", scenDir + "/data.json": `{"users":[{"id":1},{"id":2}],"empty":[]}`}}
		fuzzVerdict(t, checkScen(c, nil))
	})
}

func FuzzScenarioYAML(f *testing.F) { fuzzScen(f, "FuzzScenarioYAML", "yaml", scenConstantsYAML) }
func FuzzScenarioHCL(f *testing.F)  { fuzzScen(f, "FuzzScenarioHCL", "hcl", scenConstantsHCL) }
