package c13

import (
	"fmt"
	"os"
	"path/filepath"
	"regexp"
	"sort"
	"testing"

	sg "verif/harness/internal/scengen"

	"pgregory.net/rapid"
)

// TestWriteCorpus regenerates /verif/corpus/c13/<FuzzName>/ (valid files, mutated
// valid files and the hostile constants). It only runs when C13_WRITE_CORPUS is set:
//
//	C13_WRITE_CORPUS=1 VERIF_ROOT=/verif /verif/.build/c13.test -test.run '^TestWriteCorpus$'
func TestWriteCorpus(t *testing.T) {
	if os.Getenv("C13_WRITE_CORPUS") == "" {
		t.Skip("set C13_WRITE_CORPUS=1 to regenerate the seed corpus")
	}
	root := os.Getenv("VERIF_ROOT")
	if root == "" {
		t.Fatal("VERIF_ROOT is not set")
	}
	write := func(target, name string, data []byte) {
		dir := filepath.Join(root, "corpus", "c13", target)
		if err := os.MkdirAll(dir, 0o755); err != nil {
			t.Fatal(err)
		}
		if err := os.WriteFile(filepath.Join(dir, name), data, 0o644); err != nil {
			t.Fatal(err)
		}
	}
	for target, format := range map[string]string{"FuzzUri": "uri", "FuzzUripost": "uripost", "FuzzRaw": "raw", "FuzzHTTPJSON": "jsonline", "FuzzGrpcJSON": fmtGRPC} {
		for i, c := range ammoConstants[format] {
			write(target, fmt.Sprintf("const-%03d", i), []byte(c))
		}
		for i, g := range invalidGarbage[format] {
			write(target, fmt.Sprintf("garbage-%03d", i), []byte(g))
		}
		format := format
		valid := rapid.Custom(func(t *rapid.T) []byte { return genValidAmmo(t, format) })
		mutated := rapid.Custom(func(t *rapid.T) []byte {
			d, _ := mutate(t, genValidAmmo(t, format), [][]byte{genValidAmmo(t, format)}, 2)
			return d
		})
		for i := 0; i < 12; i++ {
			write(target, fmt.Sprintf("valid-%03d", i), valid.Example(i+1))
			if m := mutated.Example(i + 1); len(m) < 8192 {
				write(target, fmt.Sprintf("mutated-%03d", i), m)
			}
		}
	}
	for target, syntax := range map[string]string{"FuzzScenarioYAML": "yaml", "FuzzScenarioHCL": "hcl"} {
		consts := scenConstantsYAML
		if syntax == "hcl" {
			consts = scenConstantsHCL
		}
		for i, c := range consts {
			write(target, fmt.Sprintf("const-%03d", i), []byte(c))
		}
		syntax := syntax
		render := func(m sg.Model) []byte {
			if syntax == "yaml" {
				return sg.RenderYAML(m)
			}
			return sg.RenderHCL(m)
		}
		valid := rapid.Custom(func(t *rapid.T) []byte { return render(sg.Gen(t, sg.Opts{}).Rebase(scenDir)) })
		structured := rapid.Custom(func(t *rapid.T) []byte {
			m := sg.Gen(t, sg.Opts{}).Rebase(scenDir)
			applyStruct(t, &m, map[string]string{}, map[string]bool{"huge_step_count": true, "weight": true})
			return render(m)
		})
		for i := 0; i < 12; i++ {
			write(target, fmt.Sprintf("valid-%03d", i), valid.Example(i+1))
			write(target, fmt.Sprintf("structured-%03d", i), structured.Example(i+1))
		}
	}
	i := 0
	names := make([]string, 0, len(baseConfigs))
	for name := range baseConfigs {
		names = append(names, name)
	}
	sort.Strings(names)
	for _, name := range names {
		text := baseConfigs[name]
		write("FuzzConfig", "base-"+name, []byte(text))
		for _, ph := range append(append([]string{}, noKeyPlaceholders...), "${env:}", "${env:NO_SUCH_VAR_C13}", "${", "${property:/no/such/file#k}", "-1", "99999999999", "", "[]", "{}", "null") {
			write("FuzzConfig", fmt.Sprintf("hostile-%03d", i), []byte(replaceFirstScalar(text, i, ph)))
			i++
		}
	}
	parserPools := map[string][][]string{
		"mapvalue": {indexPaths()}, "stringfunc": {stringFuncs}, "tmplfunc": {funcExprs}, "preprocessor": {funcExprs, indexPaths()[:12]}, "decodeuri": {uripostLines},
		"rawheader": {rawHeaders}, "utilheader": {utilHeaders}, "xpath": {nodesetXpaths, scalarXpaths, typeErrorXpaths, brokenXpaths}, "jsonpath": {hostileJsonpaths}, "header": {hostileHeaderExprs},
	}
	for target, pools := range parserPools {
		n := 0
		for _, pool := range pools {
			for _, s := range pool {
				write("FuzzParsers", fmt.Sprintf("%s-%03d", target, n), []byte(s))
				n++
			}
		}
	}
	for j, b := range bodies {
		if len(b) < 4096 {
			write("FuzzParsers", fmt.Sprintf("xpath-body-%03d", j), []byte("//div\n"+b))
			write("FuzzParsers", fmt.Sprintf("jsonpath-body-%03d", j), []byte("$.a[0]\n"+b))
		}
	}
	for j, v := range []string{"abc", "", "Bearer 0123456789", "é"} {
		write("FuzzParsers", fmt.Sprintf("header-value-%03d", j), []byte("X-H|substr(6)\n"+v))
	}
}

func indexPaths() []string {
	var out []string
	for _, idx := range indexExprs {
		out = append(out, "source.arr["+idx+"]", "source.arr["+idx+"].id")
	}
	return out
}

// replaceFirstScalar replaces the k-th (mod count) `: value` scalar of a YAML flow text by v.
func replaceFirstScalar(text string, k int, v string) string {
	locs := scalarRe.FindAllStringSubmatchIndex(text, -1)
	if len(locs) == 0 {
		return text
	}
	l := locs[k%len(locs)]
	return text[:l[2]] + fmt.Sprintf("%q", v) + text[l[3]:]
}

var scalarRe = regexp.MustCompile(`: ("[^"]*"|[A-Za-z0-9_./]+)[,}\n]`)
