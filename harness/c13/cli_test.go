package c13

// F9 — malformed configuration FILES given to the command line: the real CLI (cmd/vpandora = pandora's own main) is
// started as a subprocess on generated config files whose overall shape is wrong (no pools, pools not a list, a pool
// that is not a map, wrong top-level value kinds, truncated YAML / JSON) or whose pool sections are incomplete. The
// process must end by itself with an error (or do nothing and exit 0), never with a Go panic or a runtime fatal error.

import (
	"bytes"
	"context"
	"fmt"
	"os"
	"os/exec"
	"path/filepath"
	"strings"
	"testing"
	"time"

	"verif/harness/internal/vf"

	"pgregory.net/rapid"
)

type CLICase struct {
	Ext  string `json:"ext"` // .yaml | .json | "" (no extension: yaml assumed)
	Text string `json:"text"`
	Kind string `json:"kind"`
}

var cliShapes = []struct{ kind, yaml string }{
	{"no_pools_key", "log:\n  level: error\n"},
	{"misspelt_pools_key", "pool:\n  - id: p\n"},
	{"pools_scalar", "pools: 5\n"},
	{"pools_string", "pools: abc\n"},
	{"pools_null", "pools:\n"},
	{"pools_map", "pools:\n  id: p\n"},
	{"pool_scalar", "pools:\n  - 5\n"},
	{"pool_null", "pools:\n  -\n"},
	{"pool_list", "pools:\n  - [1, 2]\n"},
	{"pool_string", "pools:\n  - abc\n"},
	{"pools_empty", "pools: []\n"},
	{"pool_empty_map", "pools:\n  - {}\n"},
	{"pool_only_id", "pools:\n  - id: p\n"},
	{"pool_gun_scalar", "pools:\n  - id: p\n    gun: 5\n    ammo: 7\n    result: x\n    rps: y\n    startup: z\n"},
	{"pool_sections_null", "pools:\n  - id: p\n    gun:\n    ammo:\n    result:\n    rps:\n    startup:\n"},
	{"pool_sections_lists", "pools:\n  - id: p\n    gun: []\n    ammo: []\n    result: []\n    rps: []\n    startup: []\n"},
	{"top_level_list", "- pools\n- 5\n"},
	{"top_level_scalar", "5\n"},
	{"empty_file", ""},
	{"log_scalar", "log: 5\npools: []\n"},
	{"monitoring_scalar", "monitoring: x\npools: []\n"},
	{"discard_overflow_not_bool", "pools:\n  - id: p\n    discard_overflow: maybe\n"},
	{"mixed_pool_kinds", "pools:\n  - id: p\n  - 7\n  - [x]\n"},
}

func genCLI(t *rapid.T) CLICase {
	sh := rapid.SampledFrom(cliShapes).Draw(t, "shape")
	c := CLICase{Kind: sh.kind, Text: sh.yaml, Ext: rapid.SampledFrom([]string{".yaml", ".yaml", "", ".json"}).Draw(t, "ext")}
	switch rapid.IntRange(0, 3).Draw(t, "mutation") {
	case 1: // truncated
		if len(c.Text) > 1 {
			c.Text = c.Text[:rapid.IntRange(1, len(c.Text)-1).Draw(t, "cut")]
			c.Kind += "+truncated"
		}
	case 2: // garbage appended
		c.Text += rapid.SampledFrom([]string{"\t- x", "}{", ": :", "\x00", "pools: [", "!!binary |"}).Draw(t, "garbage")
		c.Kind += "+garbage"
	}
	if c.Ext == ".json" {
		// the same shapes as JSON text are mostly invalid JSON: that is a malformed file too
		c.Kind += "+as_json"
	}
	return c
}

func checkCLI(c CLICase, o *vf.Obs) error {
	bin := os.Getenv("VERIF_CMD_VPANDORA")
	if bin == "" {
		return fmt.Errorf("harness: VERIF_CMD_VPANDORA is not set (./check builds cmd/vpandora and sets it)")
	}
	dir, err := os.MkdirTemp("", "c13-cli-")
	if err != nil {
		return fmt.Errorf("harness: %v", err)
	}
	defer os.RemoveAll(dir)
	name := filepath.Join(dir, "load"+c.Ext)
	if err := os.WriteFile(name, []byte(c.Text), 0o644); err != nil {
		return fmt.Errorf("harness: %v", err)
	}
	ctx, cancel := context.WithTimeout(context.Background(), 20*time.Second)
	defer cancel()
	cmd := exec.CommandContext(ctx, bin, name)
	cmd.Dir = dir
	var out bytes.Buffer
	cmd.Stdout, cmd.Stderr = &out, &out
	runErr := cmd.Run()
	text := out.String()
	if ctx.Err() != nil {
		return fmt.Errorf("pandora %s did not end within 20s on a malformed config file\n--- file ---\n%q\n--- output tail ---\n%s", filepath.Base(name), c.Text, tail(text, 1500))
	}
	for _, marker := range []string{"panic: ", "fatal error: ", "goroutine 1 ["} {
		if strings.Contains(text, marker) {
			return fmt.Errorf("pandora crashed (%q in its output) instead of rejecting the config file with an error\n--- file (%s) ---\n%q\n--- output ---\n%s",
				strings.TrimSpace(marker), c.Kind, c.Text, tail(text, 1800))
		}
	}
	o.Class("shape_" + strings.SplitN(c.Kind, "+", 2)[0])
	o.ClassIf(runErr != nil, "rejected_with_error_exit")
	o.ClassIf(runErr == nil, "ended_with_exit_0")
	o.NonTrivial()
	return nil
}

func tail(s string, n int) string {
	if len(s) > n {
		return "..." + s[len(s)-n:]
	}
	return s
}

func TestF9CLIConfig(t *testing.T) {
	r := vf.Start(t, "C13")
	vf.Check(r, genCLI, checkCLI)
}
