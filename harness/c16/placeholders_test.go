package c16

import (
	"fmt"
	"os"
	"path/filepath"
	"regexp"
	"sort"
	"strings"
	"sync"
	"testing"

	"verif/harness/internal/pand"
	sg "verif/harness/internal/scengen"
	"verif/harness/internal/vf"

	"github.com/yandex/pandora/components/providers/scenario/config"
	unorm "golang.org/x/text/unicode/norm"
	"pgregory.net/rapid"
)

// CONFIG PLACEHOLDERS inside the string values of a description (dimension added after seeded defect C16/m14).
//
// A scenario description is decoded by pandora's config decoder, so `${env:NAME}`, `${NAME}` and
// `${property:file#key}` (docs/eng/config.md, "Variables from env and files"; the resolvers core/import registers
// at start-up, which pand.Init does) are filled into every string of it: a token, a host name, a user agent kept
// out of the file. The property says that the description means the same in both syntaxes, so the same text -
// written `$${...}` in HCL, where `${` would start HCL's own interpolation - must arrive with the same values
// filled in whether it stands in a body, a payload, a uri, a tag, a header / metadata / mapping / variables value
// or an item of an assert list, and a placeholder that names nothing must make both files unreadable.
//
// The case stores the recipe (variables, their values, where they go), not the text: the path of a property file
// depends on the process. applyPlaceholders writes the texts into the model; the two renderers then write the
// model as they write any other string.

// Placeholder sources.
const (
	phEnv      = "env"      // ${env:NAME}
	phBare     = "bare"     // ${NAME}: the resolver registered for the empty type is the environment, too
	phProperty = "property" // ${property:/dir/file#key}
)

// Where a placeholder goes inside the value.
const (
	phWhole  = "whole"  // the value is the placeholder
	phPrefix = "prefix" // placeholder + value
	phSuffix = "suffix" // value + placeholder
	phMiddle = "middle" // at a drawn position inside the value
)

// PhVar is one variable.
type PhVar struct {
	Src   string `json:"src"`
	Name  string `json:"name"`           // variable name / property key
	File  string `json:"file,omitempty"` // property: base name of the file (inside the per-process directory)
	Value string `json:"value"`
	// Unset: the variable is not defined (environment: unset; property: no such key in the file). Reading a
	// description that names it must fail - in both syntaxes.
	Unset bool `json:"unset,omitempty"`
	// Pad writes a blank after the colon (`${env: NAME}`, the spelling of the property resolver's own example).
	Pad bool `json:"pad,omitempty"`
}

// PhSite puts one placeholder into one value.
type PhSite struct {
	Target int    `json:"target"` // index into phTargets(model), taken modulo their number
	Var    int    `json:"var"`
	Mode   string `json:"mode"`
	Pos    int    `json:"pos,omitempty"` // middle: rune position, modulo the length
}

// Placeholders is the recipe of a case.
type Placeholders struct {
	Vars  []PhVar  `json:"vars"`
	Sites []PhSite `json:"sites"`
}

// Kinds of values a placeholder is written into.
const (
	phKBody      = "body"
	phKPayload   = "payload"
	phKURI       = "uri"
	phKTag       = "tag"
	phKHeader    = "header_value"
	phKMetadata  = "metadata_value"
	phKMapping   = "mapping_value" // preprocessor / postprocessor mapping
	phKAssert    = "assert_item"   // assert/response headers values, body / payload items
	phKVariables = "variables_value"
)

// phTarget is one string value of the description that a placeholder can be written into.
type phTarget struct {
	attr string // the attribute it belongs to, named as in Model.Exprs
	kind string
	p    *string
}

// phTargets lists the free-text string VALUES of the description in file order. Not listed: names (HCL block
// labels), map keys, method / call / file / fields / delimiter, values of a `variables` source that are
// randomisation calls or bare numbers / booleans, and every attribute that x.hcl writes as an HCL-only expression
// (its text is not the model's string).
func phTargets(m *sg.Model) []phTarget {
	var out []phTarget
	add := func(attr, kind string, p *string) {
		if _, isExpr := m.Exprs[attr]; !isExpr && p != nil {
			out = append(out, phTarget{attr, kind, p})
		}
	}
	kvs := func(attr, kind string, k *sg.KVs, skip map[string]bool) {
		if k == nil {
			return
		}
		for i := range *k {
			if !skip[(*k)[i].K] {
				add(attr, kind, &(*k)[i].V)
			}
		}
	}
	strs := func(attr, kind string, l *[]string) {
		if l == nil {
			return
		}
		for i := range *l {
			add(attr, kind, &(*l)[i])
		}
	}
	for i := range m.Sources {
		s := &m.Sources[i]
		if s.Type != sg.SourceVariables {
			continue
		}
		skip := map[string]bool{}
		for _, k := range s.RandKeys {
			skip[k] = true
		}
		for _, k := range s.TypedKeys {
			skip[k] = true
		}
		kvs(fmt.Sprintf("sources[%d].variables", i), phKVariables, s.Variables, skip)
	}
	for i := range m.Requests {
		q := &m.Requests[i]
		p := fmt.Sprintf("requests[%d].", i)
		add(p+"uri", phKURI, &q.URI)
		kvs(p+"headers", phKHeader, q.Headers, nil)
		add(p+"tag", phKTag, q.Tag)
		add(p+"body", phKBody, q.Body)
		if q.Preprocessor != nil {
			kvs(p+"preprocessor.mapping", phKMapping, &q.Preprocessor.Mapping, nil)
		}
		for j := range q.Postprocessors {
			pp := &q.Postprocessors[j]
			pj := fmt.Sprintf("%spostprocessors[%d].", p, j)
			kvs(pj+"mapping", phKMapping, pp.Mapping, nil)
			kvs(pj+"headers", phKAssert, pp.Headers, nil)
			strs(pj+"body", phKAssert, pp.Body)
		}
	}
	for i := range m.Calls {
		c := &m.Calls[i]
		p := fmt.Sprintf("calls[%d].", i)
		add(p+"tag", phKTag, c.Tag)
		kvs(p+"metadata", phKMetadata, c.Metadata, nil)
		for j := range c.Preprocessors {
			kvs(fmt.Sprintf("%spreprocessors[%d].mapping", p, j), phKMapping, &c.Preprocessors[j].Mapping, nil)
		}
		add(p+"payload", phKPayload, &c.Payload)
		for j := range c.Postprocessors {
			strs(fmt.Sprintf("%spostprocessors[%d].payload", p, j), phKAssert, c.Postprocessors[j].Payload)
		}
	}
	return out
}

const pctPlaceholders = 14

var (
	phEnvNames  = []string{"VERIF_C16_TOKEN", "VERIF_C16_USER_AGENT", "verif_c16_host", "VERIF_C16_SECRET", "Verif_C16_Id", "VERIF_C16_TVM.KEY"}
	phPropKeys  = []string{"tvm_secret", "user.agent", "token", "MY_FIELD", "api-key"}
	phPropFiles = []string{"secret.properties", "load.properties"}
	// What the variables hold: tokens, numbers, text that is special in YAML, in HCL or in JSON, several lines
	// (environment only), go-template text, the empty string. Never a `${`: what a filled-in value that itself
	// looks like a placeholder means is not said anywhere.
	phValues = []string{"s3cr3t-t0ken", "Bearer abc.def.ghi", "8090", "true", "", "example.org:8080", "Mozilla/5.0 (X11; Linux x86_64)",
		`say "hi"`, "it's", "a: b", "- x", "#c", "x #y", "yes", "null", "~", " lead and trail ", "привет ✓", "日本語", `C:\dir\f`, `\n`,
		`{"k": [1, 2]}`, "{{.request.auth_req.postprocessor.token}}", "%{", "100%", "a=b=c", "$HOME", "$$", "tab\there", "}", "{",
		"line1\nline2", "two\nlines\n"}
)

// genPlaceholders draws the recipe for m: 1-3 variables (environment 45%, bare 20%, property file 35%), 1-4 sites.
// A site is a request body / call payload with 55% (when there is one), else any value of phTargets; with few
// variables and several sites one variable often stands in a body AND in a header, a uri, ... of the same file.
func genPlaceholders(t *rapid.T, m sg.Model) *Placeholders {
	targets := phTargets(&m)
	if len(targets) == 0 {
		return nil
	}
	var bodies []int
	for i, tg := range targets {
		if tg.kind == phKBody || tg.kind == phKPayload {
			bodies = append(bodies, i)
		}
	}
	p := &Placeholders{}
	nv := 1 + uniform(t, "ph.vars#n", 3)
	n0, k0 := uniform(t, "ph.name0", len(phEnvNames)), uniform(t, "ph.key0", len(phPropKeys))
	for i := 0; i < nv; i++ {
		v := PhVar{Value: phValues[uniform(t, "ph.value", len(phValues))]}
		switch k := uniform(t, "ph.src", 100); {
		case k < 45:
			v.Src, v.Name = phEnv, phEnvNames[(n0+i)%len(phEnvNames)]
		case k < 65:
			v.Src, v.Name = phBare, phEnvNames[(n0+i)%len(phEnvNames)]
		default:
			v.Src, v.Name = phProperty, phPropKeys[(k0+i)%len(phPropKeys)]
			v.File = phPropFiles[uniform(t, "ph.file", len(phPropFiles))]
			if strings.ContainsAny(v.Value, "\n\r") { // a property is one line of its file
				v.Value = strings.ReplaceAll(strings.ReplaceAll(v.Value, "\n", " "), "\r", " ")
			}
		}
		v.Pad = v.Src != phBare && uniform(t, "ph.pad", 100) < 15
		p.Vars = append(p.Vars, v)
	}
	ns := 1 + uniform(t, "ph.sites#n", 4)
	for i := 0; i < ns; i++ {
		s := PhSite{Var: uniform(t, "ph.site.var", nv)}
		if len(bodies) > 0 && uniform(t, "ph.site.body?", 100) < 55 {
			s.Target = bodies[uniform(t, "ph.site.body", len(bodies))]
		} else {
			s.Target = uniform(t, "ph.site.target", len(targets))
		}
		switch k := uniform(t, "ph.site.mode", 100); {
		case k < 25:
			s.Mode = phWhole
		case k < 40:
			s.Mode = phPrefix
		case k < 65:
			s.Mode = phSuffix
		default:
			s.Mode, s.Pos = phMiddle, uniform(t, "ph.site.pos", 64)
		}
		p.Sites = append(p.Sites, s)
	}
	if uniform(t, "ph.unset?", 100) < 7 {
		p.Vars[uniform(t, "ph.unset", nv)].Unset = true
	}
	return p
}

// propDir is the per-process directory of the property files: the property resolver reads the real filesystem.
var (
	propDirOnce sync.Once
	propDirName string
)

func propDir() string {
	propDirOnce.Do(func() {
		d, err := os.MkdirTemp("", "verif-c16-")
		if err != nil {
			panic("harness: cannot create the directory of the property files: " + err.Error())
		}
		propDirName = d
	})
	return propDirName
}

func TestMain(m *testing.M) {
	code := m.Run()
	if propDirName != "" {
		_ = os.RemoveAll(propDirName)
	}
	os.Exit(code)
}

// text is the placeholder as it stands in the description.
func (v PhVar) text() string {
	pad := ""
	if v.Pad {
		pad = " "
	}
	switch v.Src {
	case phBare:
		return "${" + v.Name + "}"
	case phProperty:
		return "${property:" + pad + filepath.Join(propDir(), v.File) + "#" + v.Name + "}"
	}
	return "${env:" + pad + v.Name + "}"
}

// phApplied is one placeholder that was written.
type phApplied struct {
	attr, kind string
	v          PhVar
	mode       string
	value      string // the whole value with its placeholder(s)
}

// phPlan is the recipe applied to one description: the model with the placeholder texts, what has to be defined
// while the description is read, and the reference by which the harness fills the values in.
type phPlan struct {
	applied []phApplied
	env     map[string]string            // defined environment variables
	noEnv   []string                     // names that must be unset
	props   map[string]map[string]string // property file (full path) -> key -> value
}

// applyPlaceholders writes the placeholders of the recipe into a copy of the description.
func applyPlaceholders(m sg.Model, p *Placeholders) (sg.Model, *phPlan, error) {
	if p == nil || len(p.Sites) == 0 || len(p.Vars) == 0 {
		return m, nil, nil
	}
	c := m.Clone()
	targets := phTargets(&c)
	if len(targets) == 0 {
		return m, nil, nil
	}
	pl := &phPlan{env: map[string]string{}, props: map[string]map[string]string{}}
	for _, v := range p.Vars {
		if strings.Contains(v.Value, "${") || strings.ContainsRune(v.Value, 0) || strings.ContainsAny(v.Name, "{}=") {
			return m, nil, fmt.Errorf("harness: placeholder variable %q with value %q", v.Name, v.Value)
		}
		switch v.Src {
		case phProperty:
			if strings.ContainsAny(v.Value, "\n\r") {
				return m, nil, fmt.Errorf("harness: property %q with a value of several lines", v.Name)
			}
			f := filepath.Join(propDir(), v.File)
			if pl.props[f] == nil {
				pl.props[f] = map[string]string{}
			}
			if !v.Unset {
				pl.props[f][v.Name] = v.Value
			}
		default:
			if v.Unset {
				pl.noEnv = append(pl.noEnv, v.Name)
			} else {
				pl.env[v.Name] = v.Value
			}
		}
	}
	// a variable that is both defined and undefined by the recipe (two entries with one name) is defined
	for _, n := range pl.noEnv {
		if _, ok := pl.env[n]; ok {
			return m, nil, fmt.Errorf("harness: variable %q is set and unset by one recipe", n)
		}
	}
	touched := map[*string]bool{}
	for _, s := range p.Sites {
		tg := targets[((s.Target%len(targets))+len(targets))%len(targets)]
		v := p.Vars[((s.Var%len(p.Vars))+len(p.Vars))%len(p.Vars)]
		host, ph := *tg.p, v.text()
		mode := s.Mode
		if touched[tg.p] && mode != phPrefix {
			mode = phSuffix // a second placeholder of one value goes to an end, not into the first one
		}
		var text string
		switch mode {
		case phPrefix:
			text = ph + host
		case phSuffix:
			text = host + ph
		case phMiddle:
			r := []rune(host)
			at := 0
			if len(r) > 0 {
				at = ((s.Pos % (len(r) + 1)) + len(r) + 1) % (len(r) + 1)
			}
			text = string(r[:at]) + ph + string(r[at:])
		default:
			mode, text = phWhole, ph
		}
		if !unorm.NFC.IsNormalString(text) { // HCL would normalise it: not the same text in both files
			mode, text = phWhole, ph
		}
		*tg.p = text
		touched[tg.p] = true
		pl.applied = append(pl.applied, phApplied{attr: tg.attr, kind: tg.kind, v: v, mode: mode})
	}
	for i := range pl.applied {
		for _, tg := range targets {
			if tg.attr == pl.applied[i].attr && strings.Contains(*tg.p, pl.applied[i].v.text()) {
				pl.applied[i].value = *tg.p
				break
			}
		}
	}
	return c, pl, nil
}

// install defines the variables of the plan: environment variables of this process, property files on the real
// filesystem (with two lines that are not asked for around the properties). The returned function takes them away.
func (pl *phPlan) install() (func(), error) {
	if pl == nil {
		return func() {}, nil
	}
	var names, files []string
	undo := func() {
		for _, n := range names {
			_ = os.Unsetenv(n)
		}
		for _, f := range files {
			_ = os.Remove(f)
		}
	}
	for _, n := range pl.noEnv {
		_ = os.Unsetenv(n)
	}
	for n, v := range pl.env {
		names = append(names, n)
		if err := os.Setenv(n, v); err != nil {
			undo()
			return nil, fmt.Errorf("harness: cannot set %q: %w", n, err)
		}
	}
	for f, kv := range pl.props {
		keys := make([]string, 0, len(kv))
		for k := range kv {
			keys = append(keys, k)
		}
		sort.Strings(keys)
		var sb strings.Builder
		sb.WriteString("# properties of the load test\nunrelated=verif decoy\n")
		for _, k := range keys {
			sb.WriteString(k + "=" + kv[k] + "\n")
		}
		sb.WriteString("last.one=verif decoy\n")
		files = append(files, f)
		if err := os.WriteFile(f, []byte(sb.String()), 0o644); err != nil {
			undo()
			return nil, fmt.Errorf("harness: cannot write %q: %w", f, err)
		}
	}
	return undo, nil
}

// phTokenRe is the placeholder format docs/eng/config.md gives: `${name}` or `${type:name}`, no braces inside.
var phTokenRe = regexp.MustCompile(`\$\{(?:([^}]+?):)?([^{}]+?)\}`)

// resolve is the harness's own reading of a string with placeholders: every `${env:NAME}` / `${NAME}` /
// `${property:file#key}` is replaced by what the plan defines (blanks around type and name do not count, the
// type is case-insensitive); a placeholder of another type is not pandora's and stays; one that names nothing
// is an error.
func (pl *phPlan) resolve(s string) (string, error) {
	res := s
	for _, tok := range phTokenRe.FindAllStringSubmatch(s, -1) {
		typ, name := strings.ToLower(strings.TrimSpace(tok[1])), strings.TrimSpace(tok[2])
		var val string
		var ok bool
		switch typ {
		case "", "env":
			val, ok = pl.env[name]
		case "property":
			file, key, _ := strings.Cut(name, "#")
			val, ok = pl.props[file][key]
		default:
			continue
		}
		if !ok {
			return "", fmt.Errorf("%s names nothing", tok[0])
		}
		res = strings.ReplaceAll(res, tok[0], val)
	}
	return res, nil
}

// resolved returns the description with the values filled in (what both files must be read as), or the error
// of the first placeholder that names nothing (both files must be rejected).
func (pl *phPlan) resolved(m sg.Model) (sg.Model, error) {
	if pl == nil {
		return m, nil
	}
	c := m.Clone()
	for _, tg := range phTargets(&c) {
		v, err := pl.resolve(*tg.p)
		if err != nil {
			return m, fmt.Errorf("%s: %w", tg.attr, err)
		}
		*tg.p = v
	}
	return c, nil
}

// formsNewPlaceholder reports whether a filled-in value of the description (filled = resolved(m)) holds a
// complete placeholder of pandora's types again: a value ending in `$` in front of `{x}`, a `}` that closes a
// `${ x` of the neighbourhood. Whether filled-in text is looked at again is not said anywhere (observed: a
// request body is, a uri is not - in both syntaxes alike), so such a description is only required to be read the
// same way in both syntaxes.
func (pl *phPlan) formsNewPlaceholder(filled sg.Model) bool {
	for _, tg := range phTargets(&filled) {
		for _, tok := range phTokenRe.FindAllStringSubmatch(*tg.p, -1) {
			switch strings.ToLower(strings.TrimSpace(tok[1])) {
			case "", "env", "property":
				return true
			}
		}
	}
	return false
}

// wantModel is the description as both files must be read.
func (w *written) wantModel() sg.Model {
	if w.ph == nil {
		return w.m
	}
	m, err := w.ph.resolved(w.m)
	if err != nil {
		return w.m // checkWith does not compare such a case with a configuration (checkBothRejected)
	}
	return m
}

// checkBothRejected is the oracle for a description with a placeholder that names nothing.
func checkBothRejected(w *written, why error) error {
	_, eh := config.ReadAmmoConfig(pand.FS(), w.hcl)
	_, ey := config.ReadAmmoConfig(pand.FS(), w.yml)
	switch {
	case eh == nil && ey == nil:
		return fmt.Errorf("a description with a placeholder that names nothing (%v) is accepted in both syntaxes", why)
	case eh == nil:
		return fmt.Errorf("a description with a placeholder that names nothing (%v) is accepted as x.hcl and rejected as x.yaml (%v)", why, ey)
	case ey == nil:
		return fmt.Errorf("a description with a placeholder that names nothing (%v) is accepted as x.yaml and rejected as x.hcl (%v)", why, eh)
	}
	return nil
}

// classifyPlaceholders labels the case by what was written.
func classifyPlaceholders(w *written, obs *vf.Obs) {
	pl := w.ph
	if pl == nil || len(pl.applied) == 0 {
		return
	}
	o := &classSet{seen: map[string]bool{}, o: obs}
	o.Class("placeholders")
	obs.NonTrivial()
	perValue := map[string]int{}
	valuesOfVar := map[string]map[string]bool{}
	kindsOfVar := map[string]map[string]bool{}
	for _, a := range pl.applied {
		o.Class("ph_src_" + a.v.Src)
		o.Class("ph_in_" + a.kind)
		o.ClassIf(a.kind == phKBody || a.kind == phKPayload, "ph_in_body_or_payload")
		o.ClassIf(a.kind != phKBody && a.kind != phKPayload, "ph_outside_body_and_payload")
		o.ClassIf(a.mode == phWhole, "ph_whole_value")
		o.ClassIf(a.mode != phWhole, "ph_embedded")
		o.ClassIf(a.v.Pad, "ph_blank_after_colon")
		o.ClassIf(a.v.Unset, "ph_names_nothing")
		o.ClassIf(!a.v.Unset && a.v.Value == "", "ph_value_empty")
		o.ClassIf(!a.v.Unset && strings.Contains(a.v.Value, "\n"), "ph_value_several_lines")
		o.ClassIf(!a.v.Unset && a.v.Value != "" && len(sg.StringClasses(a.v.Value)) > 0, "ph_value_special")
		key := a.attr + "\x00" + a.value
		perValue[key]++
		o.ClassIf(perValue[key] > 1, "ph_several_in_one_value")
		id := a.v.Src + ":" + a.v.File + "#" + a.v.Name
		if valuesOfVar[id] == nil {
			valuesOfVar[id], kindsOfVar[id] = map[string]bool{}, map[string]bool{}
		}
		valuesOfVar[id][key] = true
		kindsOfVar[id][a.kind] = true
		if a.kind == phKBody || a.kind == phKPayload {
			// how the two files write the value
			o.ClassIf(strings.Contains(w.hclText, "<<EOT\n") && sg.HeredocOK(a.value) && strings.Contains(w.hclText, "\n"+firstLineWith(a.value, a.v.text())+"\n"), "ph_in_hcl_heredoc")
			for _, st := range w.ymlStats.Applied {
				if st.Value == a.value && (st.Style.Style == sg.StyleLiteral || st.Style.Style == sg.StyleFolded) {
					o.Class("ph_in_yaml_block_scalar")
				}
			}
		}
	}
	for id, vals := range valuesOfVar {
		o.ClassIf(len(vals) > 1, "ph_one_variable_in_several_values")
		k := kindsOfVar[id]
		o.ClassIf((k[phKBody] || k[phKPayload]) && len(k) > 1, "ph_one_variable_in_body_and_elsewhere")
	}
}

// firstLineWith returns the line of value that holds ph, as an HCL heredoc writes it (template introducers doubled).
func firstLineWith(value, ph string) string {
	for _, l := range strings.Split(value, "\n") {
		if strings.Contains(l, ph) {
			l = strings.ReplaceAll(l, "%{", "%%{")
			return strings.ReplaceAll(l, "${", "$${")
		}
	}
	return "\x00"
}
