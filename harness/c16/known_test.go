package c16

import (
	"strings"
	"testing"

	"pgregory.net/rapid"

	"verif/harness/internal/pand"
	sg "verif/harness/internal/scengen"
	"verif/harness/internal/vf"
)

// finding is one way in which pandora was found to violate the property: the
// exact shape (matches) is steered around while the finding is listed as known
// in /verif/known_findings.json, and a fixed witness re-confirms it every run.
type finding struct {
	id      string
	matches func(m sg.Model) bool
	witness func() sg.Model
}

// anyString reports whether some string of the description at a path with the given suffix satisfies f.
func anyString(m sg.Model, suffix string, f func(s string) bool) bool {
	hit := false
	m.WalkStrings(func(path, s string) {
		if strings.HasSuffix(path, suffix) && f(s) {
			hit = true
		}
	})
	return hit
}

const (
	findingMergeKey = "hcl-map-key-read-as-yaml-merge"
	findingIndexFn  = "hcl-index-function-is-element-access"
	findingVarTypes = "hcl-variables-numbers-become-strings"
)

// usesFunc reports whether the HCL-only part of the description calls fn.
func usesFunc(m sg.Model, fn string) bool {
	has := func(e sg.Expr) bool {
		for _, f := range e.Funcs() {
			if f == fn {
				return true
			}
		}
		return false
	}
	for _, b := range m.Locals {
		for _, l := range b.Locals {
			if has(l.Expr) {
				return true
			}
		}
	}
	for _, e := range m.Exprs {
		if has(e) {
			return true
		}
	}
	return false
}

func lit(s string) sg.Expr { return sg.Expr{K: "s", S: s} }

func fcall(f string, a ...sg.Expr) sg.Expr { return sg.Expr{K: "f", S: f, A: a} }

func list(l ...string) sg.Expr {
	e := sg.Expr{K: "l", L: []sg.Expr{}}
	for _, s := range l {
		e.L = append(e.L, lit(s))
	}
	return e
}

var findings = []finding{
	{
		// a map key `<<` (headers, mapping, variables, metadata) written in HCL: ConvertHCLToAmmo marshals the decoded
		// struct to YAML text, yaml.v2 writes that key unquoted, and reading the text back takes it for a merge key
		id:      findingMergeKey,
		matches: func(m sg.Model) bool { return anyString(m, ".key", func(s string) bool { return s == "<<" }) },
		witness: func() sg.Model {
			return sg.Model{Kind: "http",
				Requests:  []sg.Request{{Name: "r", Method: "GET", URI: "/", Headers: &sg.KVs{{K: "<<", V: "v"}}}},
				Scenarios: []sg.Scenario{{Name: "s", Steps: []sg.Step{{Name: "r"}}}}}
		},
	},
	{
		// docs/eng/scenario/functions.md links `index` to "finds the element index for a given value in a list";
		// the eval context binds the name to cty's stdlib.IndexFunc, which is element access (collection[key])
		id:      findingIndexFn,
		matches: func(m sg.Model) bool { return usesFunc(m, "index") },
		witness: func() sg.Model {
			return sg.Model{Kind: "http",
				Requests:  []sg.Request{{Name: "r", Method: "GET", URI: "/", Tag: p("y")}},
				Scenarios: []sg.Scenario{{Name: "s", Steps: []sg.Step{{Name: "r"}}}},
				Locals:    []sg.LocalsBlock{{Locals: []sg.Local{{Name: "names", Expr: list("a", "b")}}}},
				Exprs: map[string]sg.Expr{"requests[0].tag": fcall("element", list("x", "y"),
					fcall("index", sg.Expr{K: "ref", S: "names"}, lit("b")))}}
		},
	},
	{
		// `variables = { port = 8090 }` (docs/eng/scenario/variable_source.md): SourceHCL.Variables is a
		// map[string]string, so the source holds the string "8090"; `port: 8090` in YAML holds the number
		id: findingVarTypes,
		matches: func(m sg.Model) bool {
			for _, s := range m.Sources {
				if len(s.TypedKeys) > 0 {
					return true
				}
			}
			return false
		},
		witness: func() sg.Model {
			return sg.Model{Kind: "http",
				Sources:   []sg.Source{{Name: "global", Type: sg.SourceVariables, Variables: &sg.KVs{{K: "host", V: "localhost"}, {K: "port", V: "8090"}}, TypedKeys: []string{"port"}}},
				Requests:  []sg.Request{{Name: "r", Method: "GET", URI: "/"}},
				Scenarios: []sg.Scenario{{Name: "s", Steps: []sg.Step{{Name: "r"}}}}}
		},
	},
}

// TestKnownWitness runs fixed cases with the strict oracle, each as a subtest
// with its own report: the documentation's example (must pass), and the witness
// of every finding. While a finding is listed as known its failing witness is
// reported as KNOWN-FINDING; otherwise the witness is a plain case (it fails
// with a replay file until the defect is fixed).
func TestKnownWitness(t *testing.T) {
	pand.Init()
	fixed := func(name string, m func() sg.Model, id string) {
		t.Run(name, func(t *testing.T) {
			r := vf.Start(t, "C16")
			c := Case{Model: m()}
			if id != "" && r.IsKnown(id) {
				o := &vf.Obs{}
				err := vf.Guard(func() error { return check(c, o) })
				r.Record(c, o, nil)
				if err != nil {
					t.Logf("%s still present: %v", id, err)
					r.KnownHit(id)
				}
				return
			}
			vf.Check(r, func(*rapid.T) Case { return c }, check)
		})
	}
	fixed("doc-example", docExample, "")
	for _, f := range findings {
		fixed(f.id, f.witness, f.id)
	}
}

func p[T any](v T) *T { return &v }

// docExample is the description of the "HCL example" / "YAML example" sections
// of docs/eng/scenario-http-generator.md.
func docExample() sg.Model {
	return sg.Model{
		Kind: "http",
		Sources: []sg.Source{{Name: "source_name", Type: sg.SourceCSV, File: p("file.csv"), Fields: &[]string{"id", "name"},
			IgnoreFirstLine: p(true), Delimiter: p(","), Content: "id,name\n1,user1\n"}},
		Requests: []sg.Request{{Name: "request_name", Method: "POST", URI: "/uri",
			Headers: &sg.KVs{{K: "Authorization", V: "Bearer {{.request.auth_req.postprocessor.token}}"}, {K: "Content-Type", V: "application/json"}, {K: "Useragent", V: "Yandex"}},
			Tag:     p("tag"), Body: p("<body/>\n"), BodyHeredoc: true, Templater: p("text"),
			Preprocessor:   &sg.Preprocessor{Mapping: sg.KVs{{K: "new_var", V: "source.var_name[next].0"}}},
			Postprocessors: []sg.Postprocessor{{Type: sg.PostJsonpath, Mapping: &sg.KVs{{K: "new_var", V: "$.auth_key"}}}}}},
		Scenarios: []sg.Scenario{{Name: "scenario_name", Weight: p(int64(1)), MinWaitingTime: p(int64(1000)), Steps: []sg.Step{{Name: "request_name"}}}},
		Locals: []sg.LocalsBlock{
			{Locals: []sg.Local{
				{Name: "common_headers", Expr: sg.Expr{K: "m", M: []sg.ExprKV{{K: "Content-Type", V: sg.Expr{K: "s", S: "application/json"}}, {K: "Useragent", V: sg.Expr{K: "s", S: "Yandex"}}}}},
				{Name: "next", Expr: sg.Expr{K: "s", S: "next"}}}},
			{Locals: []sg.Local{
				{Name: "auth_headers", Expr: sg.Expr{K: "f", S: "merge", A: []sg.Expr{{K: "ref", S: "common_headers"},
					{K: "m", M: []sg.ExprKV{{K: "Authorization", V: sg.Expr{K: "s", S: "Bearer {{.request.auth_req.postprocessor.token}}"}}}}}}},
				{Name: "next", Expr: sg.Expr{K: "s", S: "next"}}}},
		},
		Exprs: map[string]sg.Expr{"requests[0].headers": {K: "f", S: "merge", A: []sg.Expr{{K: "ref", S: "common_headers"},
			{K: "m", M: []sg.ExprKV{{K: "Authorization", V: sg.Expr{K: "s", S: "Bearer {{.request.auth_req.postprocessor.token}}"}}}}}}},
	}
}
