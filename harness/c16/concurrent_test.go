package c16

import (
	"fmt"
	"runtime"
	"sync"
	"sync/atomic"
	"testing"

	"verif/harness/internal/pand"
	sg "verif/harness/internal/scengen"
	"verif/harness/internal/vf"

	"github.com/yandex/pandora/components/providers/scenario/config"
	"pgregory.net/rapid"
)

// TestConcurrentLoads: what a description means does not depend on what else the process is converting at the
// same time. Several different descriptions are written (each in both syntaxes, each in its own directory), read
// one after the other (the reference, checked exactly as TestEquivalence checks a description), and then loaded
// again and again by many goroutines at once - config.ReadAmmoConfig for three loaders in four, a whole provider
// (built through config decoding, one weight cycle of ammo delivered) for the fourth; two files in three are the
// .hcl rendering. Every concurrent result must be the one the same file gives alone, which is the one of its twin
// in the other syntax and the one the description states.
//
// An application that embeds pandora, a test suite with parallel tests, or several pandora pools started by one
// process build providers from several goroutines; ReadAmmoConfig / ConvertHCLToAmmo / ParseAmmoConfig are plain
// functions of their arguments and nothing in their documentation restricts them to one caller at a time.

// ConcCase is one group of descriptions loaded concurrently.
type ConcCase struct {
	Models []sg.Model `json:"models"`
	// Loaders is the number of goroutines, Loads what each of them does one after the other.
	Loaders int `json:"loaders"`
	Loads   int `json:"loads"`
}

// concProcs is the GOMAXPROCS of the process while TestConcurrentLoads runs: with (many) more loaders than
// processors a loader is descheduled in the middle of a conversion and another one continues on its processor,
// which is the interleaving per-processor caches (sync.Pool) and package-level scratch state are sensitive to.
const concProcs = 4

func genConc(r *vf.Run) func(t *rapid.T) ConcCase {
	return func(t *rapid.T) ConcCase {
		c := ConcCase{}
		n := rapid.IntRange(3, 6).Draw(t, "descriptions")
		for i := 0; i < n; i++ {
			o := optsPlain
			if rapid.IntRange(0, 9).Draw(t, "locals?") < 3 {
				o = optsLocals
			}
			c.Models = append(c.Models, steer(r, t, o))
		}
		c.Loaders = rapid.IntRange(3, 6).Draw(t, "loaders per processor") * concProcs
		c.Loads = r.Pick(4, 12)
		return c
	}
}

type concRef struct {
	w      *written
	nh, ny any
	items  []any // one weight cycle plus one item, as the guns see them (from x.hcl; x.yaml delivers the same)
}

func checkConc(c ConcCase, o *vf.Obs) (err error) {
	if len(c.Models) == 0 || c.Loaders < 1 || c.Loads < 1 {
		return fmt.Errorf("harness: empty concurrent case")
	}
	defer func() { _ = pand.FS().RemoveAll(caseDir) }()
	o.Class(fmt.Sprintf("descriptions_%d", len(c.Models)))
	o.NonTrivial()
	refs := make([]*concRef, len(c.Models))
	kinds := map[string]bool{}
	big := false
	for i, m := range c.Models {
		kinds[m.Kind] = true
		w, err := writeIn(m, fmt.Sprintf("%s/d%d", caseDir, i))
		if err != nil {
			return err
		}
		ref := &concRef{w: w}
		note := func() {
			o.Note(fmt.Sprintf("d%d/x.hcl", i), w.hclText)
			o.Note(fmt.Sprintf("d%d/x.yaml", i), w.ymlText)
		}
		if ref.nh, ref.ny, err = readBoth(w); err != nil {
			note()
			return fmt.Errorf("description %d, loaded alone: %w", i, err)
		}
		n := len(w.m.Ring()) + 1
		if ref.items, err = deliver(w, w.hcl, n); err != nil {
			note()
			return fmt.Errorf("description %d, loaded alone: x.hcl: %w", i, err)
		}
		iy, err := deliver(w, w.yml, n)
		if err != nil {
			note()
			return fmt.Errorf("description %d, loaded alone: x.yaml: %w", i, err)
		}
		for j := range iy {
			if d := diff(ref.items[j], iy[j], fmt.Sprintf("ammo[%d]", j), "x.hcl", "x.yaml"); d != "" {
				note()
				return fmt.Errorf("description %d, loaded alone: the providers built from the two renderings deliver different ammo: %s", i, d)
			}
		}
		big = big || len(w.hclText) > 2048
		refs[i] = ref
	}
	o.ClassIf(len(kinds) == 2, "conc_http_and_grpc")
	o.ClassIf(big, "conc_hcl_over_2k")
	distinct := map[string]bool{}
	for _, ref := range refs {
		distinct[show(ref.nh)] = true
	}
	o.ClassIf(len(distinct) == len(refs), "conc_all_descriptions_differ")

	var sink vf.ErrSink
	var wg sync.WaitGroup
	var loadsDone, hclLoads, provLoads atomic.Int64
	start := make(chan struct{})
	fs := pand.FS()
	for g := 0; g < c.Loaders; g++ {
		g := g
		i := g % len(refs)
		ref := refs[i]
		useHCL := (g/len(refs))%3 != 2 // two loaders of a description in three read its .hcl file
		provider := g%4 == 3
		file, name, single := ref.w.yml, "x.yaml", ref.ny
		if useHCL {
			file, name, single = ref.w.hcl, "x.hcl", ref.nh
		}
		vf.GoErr(&wg, &sink, func() {
			<-start
			for k := 0; k < c.Loads && sink.Get() == nil; k++ {
				what := fmt.Sprintf("description %d: %s loaded while %d other goroutines load %d descriptions (load %d of this goroutine)",
					i, name, c.Loaders-1, len(refs), k+1)
				if provider {
					items, err := deliver(ref.w, file, len(ref.items))
					if err != nil {
						sink.Set(fmt.Errorf("%s: the provider fails, alone it works: %w", what, err))
						return
					}
					for j := range items {
						if d := diff(items[j], ref.items[j], fmt.Sprintf("ammo[%d]", j), "concurrently", "alone"); d != "" {
							sink.Set(fmt.Errorf("%s: the provider delivers other ammo than the provider built from the same file alone: %s", what, d))
							return
						}
					}
					provLoads.Add(1)
				} else {
					cfg, err := config.ReadAmmoConfig(fs, file)
					if err != nil {
						sink.Set(fmt.Errorf("%s: ReadAmmoConfig fails, alone it succeeds: %w", what, err))
						return
					}
					if d := diff(norm(cfg), single, "AmmoConfig", "concurrently", "alone"); d != "" {
						sink.Set(fmt.Errorf("%s: ReadAmmoConfig returns another configuration than for the same file alone: %s", what, d))
						return
					}
				}
				if useHCL {
					hclLoads.Add(1)
				}
				loadsDone.Add(1)
			}
		})
	}
	close(start)
	wg.Wait()
	if err := sink.Get(); err != nil {
		for i, ref := range refs {
			o.Note(fmt.Sprintf("d%d/x.hcl", i), ref.w.hclText)
			o.Note(fmt.Sprintf("d%d/x.yaml", i), ref.w.ymlText)
		}
		return err
	}
	o.ClassIf(c.Loaders >= 5*concProcs, "conc_loaders_5_per_processor_or_more")
	o.ClassIf(hclLoads.Load() >= 40, "conc_40_hcl_loads_or_more")
	o.ClassIf(provLoads.Load() >= 12, "conc_12_provider_builds_or_more")
	return nil
}

func TestConcurrentLoads(t *testing.T) {
	pand.Init()
	defer runtime.GOMAXPROCS(runtime.GOMAXPROCS(concProcs))
	r := vf.Start(t, "C16")
	vf.Check(r, genConc(r), checkConc)
}
