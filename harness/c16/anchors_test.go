package c16

import (
	"strings"
)

// YAML anchors and merge keys (docs/eng/scenario/locals.md: "In YAML format, you can use anchors. For common variables,
// you can use the `locals` helper block"; the bundled testdata/http_payload.yaml is written that way): the YAML
// counterpart of HCL locals + merge(). For 35% of the descriptions with a non-empty user map internal/scengen draws a
// plan (sg.AddYAMLAnchors) by which headers / metadata / mapping / variables maps of x.yaml are written as `*alias` of a
// whole anchor or as a mapping with `<<: *a` / `<<: [*a, *b]` and explicit keys - incl. keys that the merged anchor holds
// with ANOTHER value (the explicit key wins, as merge(local.x, {...}) lets the later argument win) - with the anchors
// defined in a `locals:` block at the top or inline on an earlier map. x.hcl is not touched (TestLocals writes HCL locals /
// merge() independently). The oracle is the one of every case: x.yaml must load, be the stated configuration and give the
// ammo x.hcl gives; the helper block must be read as written.

// classifyYAMLAnchors labels the case by what the anchored rendering of x.yaml contains.
func classifyYAMLAnchors(w *written, o *classSet) {
	a := w.ymlStats.Anchors
	if a == nil {
		return
	}
	if a.Fallback {
		o.Class("yaml_anchor_fallback")
		return
	}
	o.Class("yaml_anchors")
	o.ClassIf(a.Locals != nil, "yaml_anchor_locals_block")
	o.ClassIf(a.LocalsWithMerge > 0, "yaml_anchor_in_locals_block_with_merge_key")
	o.ClassIf(a.LocalsOverride > 0, "yaml_anchor_in_locals_block_overrides_merged_key")
	for _, s := range a.Sites {
		kind := s.Path[strings.LastIndex(s.Path, ".")+1:] // headers, metadata, mapping, variables
		o.ClassIf(s.Anchor != "", "yaml_anchor_inline")
		o.ClassIf(s.Alias != "", "yaml_alias_of_whole_map")
		if len(s.Merge) == 0 {
			continue
		}
		o.Class("yaml_merge_key")
		o.Class("yaml_merge_key_in_" + kind)
		o.ClassIf(len(s.Merge) > 1, "yaml_merge_list")
		o.ClassIf(s.ListCommonKey, "yaml_merge_list_with_common_key")
		o.ClassIf(s.Chain, "yaml_merge_of_anchor_with_merge_key")
		o.ClassIf(len(s.Explicit) == 0, "yaml_merge_key_only")
		o.ClassIf(len(s.Explicit) > len(s.Overrides)+len(s.SameAgain), "yaml_merge_adds_new_key")
		o.ClassIf(s.BeforeMerge > 0, "yaml_merge_key_after_explicit_keys")
		o.ClassIf(len(s.SameAgain) > 0, "yaml_merge_explicit_key_same_value")
		if len(s.Overrides) > 0 {
			o.Class("yaml_merge_override")
			o.Class("yaml_merge_override_in_" + kind)
			o.ClassIf(len(s.Merge) > 1, "yaml_merge_list_override")
		}
	}
}
