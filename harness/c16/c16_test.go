// C16 — a scenario means the same whether written in HCL or in YAML.
//
// One generated description (internal/scengen) is rendered by two independent
// renderers (hclwrite / yaml.v2, the latter with hand-written block, plain and
// quoted scalars for drawn string values) and read through pandora's two front-ends.
// Oracle: both readings succeed and are equal under a normalising comparison,
// the HCL reading equals the configuration the description states field by
// field, and the real providers built from the two files deliver identical ammo.
package c16

import (
	"fmt"
	"reflect"
	"strings"
	"testing"
	"time"

	"verif/harness/internal/pand"
	"verif/harness/internal/provrun"
	sg "verif/harness/internal/scengen"
	"verif/harness/internal/vf"

	"github.com/spf13/afero"
	"github.com/yandex/pandora/components/providers/scenario/config"
	"github.com/yandex/pandora/core"
	"pgregory.net/rapid"
)

// Case is one generated description.
type Case struct {
	Model sg.Model `json:"model"`
	// Long is the recipe of one very long physical line written into the description before it is rendered
	// (extra_test.go); nil for most cases.
	Long *LongLine `json:"long,omitempty"`
	// Ph is the recipe of the config placeholders (${env:..}, ${..}, ${property:..#..}) written into string values
	// of the description before it is rendered (placeholders_test.go); nil for most cases.
	Ph *Placeholders `json:"ph,omitempty"`
}

var (
	optsPlain  = sg.Opts{Special: true, TextBlocks: true, YAMLStyles: true, ZeroWeights: true, YAMLOrder: true, FileTails: true}
	optsLocals = sg.Opts{Special: true, TextBlocks: true, YAMLStyles: true, ZeroWeights: true, YAMLOrder: true, FileTails: true, Locals: true}
)

// written is the description on the shared in-memory filesystem.
type written struct {
	m        sg.Model
	dir      string
	hcl, yml string // file names
	hclText  string
	ymlText  string
	ymlStats sg.YAMLStyleStats // which values of x.yaml are written by hand (block scalars, multi-line plain / quoted scalars)
	ph       *phPlan           // the config placeholders written into the description (nil: none)
	// sameOnly: nothing says what this description is read as (the filled-in text of a placeholder forms a new
	// placeholder with its neighbourhood); the two files must still be read as the same, or both be rejected.
	sameOnly bool
}

// All cases of a process use ONE directory and the same file names (x.hcl, x.yaml, the data files): every case is
// an "edit the description and load it again" step, as a long-lived process (or a test suite) does it. A front-end
// that remembers anything by file name shows up as the HCL or the YAML side lagging behind the file.
var caseDir = pand.TempName("c16", "")

func write(m sg.Model) (*written, error) { return writeIn(m, caseDir) }

// writeIn writes the description and its two renderings into dir.
func writeIn(m sg.Model, dir string) (*written, error) {
	w := &written{dir: dir}
	w.m = m.Rebase(w.dir)
	fs := pand.FS()
	if err := fs.MkdirAll(w.dir, 0o755); err != nil {
		return nil, err
	}
	for name, content := range w.m.Files() {
		if err := afero.WriteFile(fs, name, []byte(content), 0o644); err != nil {
			return nil, fmt.Errorf("harness: cannot write %q: %w", name, err)
		}
	}
	w.hclText = string(sg.RenderHCL(w.m))
	yml, stats := sg.RenderYAMLStyled(w.m)
	w.ymlText, w.ymlStats = string(yml), stats
	w.hcl, w.yml = w.dir+"/x.hcl", w.dir+"/x.yaml"
	if err := afero.WriteFile(fs, w.hcl, []byte(w.hclText), 0o644); err != nil {
		return nil, err
	}
	if err := afero.WriteFile(fs, w.yml, []byte(w.ymlText), 0o644); err != nil {
		return nil, err
	}
	return w, nil
}

func (w *written) remove() { _ = pand.FS().RemoveAll(w.dir) }

// itemView is what a gun sees of one ammo item, normalised; values produced by
// randomisation functions in `variables` sources are masked.
func itemView(a core.Ammo, m sg.Model) (any, error) {
	v := reflect.ValueOf(a)
	n, ok := normalize(v).(map[string]any)
	if !ok {
		return nil, fmt.Errorf("ammo item is %T", a)
	}
	for v.Kind() == reflect.Ptr || v.Kind() == reflect.Interface {
		v = v.Elem()
	}
	if f := v.FieldByName("id"); f.IsValid() && f.CanUint() { // grpc keeps the id unexported
		n["id"] = f.Uint()
	}
	st, ok := reflect.ValueOf(a).Elem().FieldByName("VariableStorage").Interface().(interface{ Variables() map[string]any })
	if !ok || st == nil {
		return nil, fmt.Errorf("ammo item %T has no variable storage", a)
	}
	vars, _ := norm(st.Variables()).(map[string]any)
	for _, s := range m.Sources {
		if s.Type != sg.SourceVariables {
			continue
		}
		sv, _ := vars[s.Name].(map[string]any)
		for _, k := range s.RandKeys {
			if _, isStr := sv[k].(string); isStr {
				sv[k] = "<random>"
			}
		}
	}
	n["Variables()"] = vars
	return n, nil
}

func deliver(w *written, file string, n int) ([]any, error) {
	p, err := provrun.Build(map[string]any{"type": w.m.ProviderType(), "file": file})
	if err != nil {
		return nil, fmt.Errorf("provider cannot be built: %w", err)
	}
	var views []any
	res, err := provrun.Drain(p, n, 1, 30*time.Second, func(a core.Ammo) error {
		v, err := itemView(a, w.m)
		views = append(views, v)
		return err
	})
	if err != nil {
		return nil, err
	}
	if res.Hung != "" {
		return nil, fmt.Errorf("provider: %s", res.Hung)
	}
	if res.RunErr != nil && res.RunErr.Error() != "context canceled" {
		return nil, fmt.Errorf("provider.Run returned %v", res.RunErr)
	}
	if len(views) != n {
		return nil, fmt.Errorf("provider delivered %d items, %d were asked for (an unbounded provider)", len(views), n)
	}
	return views, nil
}

func check(c Case, o *vf.Obs) error { return checkWith(c, o, nil) }

// readBoth reads the two renderings through config.ReadAmmoConfig, one after the other: both must load, both must
// be what the description states field by field, and so equal to each other. It returns the two normalised readings.
func readBoth(w *written) (nh, ny any, err error) {
	fs := pand.FS()
	ch, err := config.ReadAmmoConfig(fs, w.hcl)
	if err != nil {
		return nil, nil, fmt.Errorf("ReadAmmoConfig(x.hcl) failed for a description that is valid in both syntaxes: %w", err)
	}
	cy, err := config.ReadAmmoConfig(fs, w.yml)
	if err != nil {
		return nil, nil, fmt.Errorf("ReadAmmoConfig(x.yaml) failed for a description that is valid in both syntaxes: %w", err)
	}
	return compareRead(w, ch, cy)
}

// readBothSame is readBoth for a description of which it is not said that it is valid (one without scenarios): the
// two renderings must both load - then they are compared as in readBoth - or both be rejected (loaded = false).
func readBothSame(w *written) (loaded bool, err error) {
	fs := pand.FS()
	ch, eh := config.ReadAmmoConfig(fs, w.hcl)
	cy, ey := config.ReadAmmoConfig(fs, w.yml)
	switch {
	case eh != nil && ey != nil:
		return false, nil
	case eh != nil:
		return false, fmt.Errorf("ReadAmmoConfig accepts x.yaml and rejects x.hcl, the same description: %w", eh)
	case ey != nil:
		return false, fmt.Errorf("ReadAmmoConfig accepts x.hcl and rejects x.yaml, the same description: %w", ey)
	}
	_, _, err = compareRead(w, ch, cy)
	return true, err
}

func compareRead(w *written, ch, cy *config.AmmoConfig) (nh, ny any, err error) {
	nh, ny = norm(ch), norm(cy)
	want := wantConfig(w.wantModel()) // the description, the values of its config placeholders filled in
	if a := w.ymlStats.Anchors; a != nil && a.Locals != nil {
		// x.yaml has the `locals:` helper block of docs/eng/scenario/locals.md (anchors for common values). The block is
		// a means of writing, not a part of the description (x.hcl's locals do not show in the configuration either): it
		// must be read as it is written, merge keys resolved, and is then put aside.
		helper := map[string]any{}
		for name, entries := range a.Locals {
			e := map[string]any{}
			for k, v := range entries {
				e[k] = v
			}
			helper[name] = e
		}
		full, _ := ny.(map[string]any)
		if d := diff(full["Locals"], helper, `AmmoConfig["Locals"]`, "x.yaml", "the locals helper block as written"); d != "" {
			return nil, nil, fmt.Errorf("the locals helper block of the YAML rendering is not read as written: %s", d)
		}
		aside := map[string]any{}
		for k, v := range full {
			aside[k] = v
		}
		aside["Locals"] = map[string]any{}
		ny = aside
	}
	if d := diff(ny, want, "AmmoConfig", "x.yaml", "the description"); d != "" && !w.sameOnly {
		return nil, nil, fmt.Errorf("the YAML rendering is not read as the description states: %s", d)
	}
	if d := diff(nh, ny, "AmmoConfig", "x.hcl", "x.yaml"); d != "" {
		return nil, nil, fmt.Errorf("the HCL and the YAML rendering of one description are read differently: %s", d)
	}
	if d := diff(nh, want, "AmmoConfig", "x.hcl", "the description"); d != "" && !w.sameOnly {
		return nil, nil, fmt.Errorf("the HCL rendering is not read as the description states: %s", d)
	}
	return nh, ny, nil
}

func checkWith(c Case, o *vf.Obs, r *vf.Run) (err error) {
	c.Model, err = applyLong(c.Model, c.Long)
	if err != nil {
		return err
	}
	var plan *phPlan
	if c.Model, plan, err = applyPlaceholders(c.Model, c.Ph); err != nil {
		return err
	}
	classify(c.Model, o)
	w, err := write(c.Model)
	if err != nil {
		return err
	}
	defer w.remove()
	w.ph = plan
	uninstall, err := plan.install()
	if err != nil {
		return err
	}
	defer uninstall()
	classifyYAMLStyles(w, o)
	classifyLong(c.Long, w, o)
	classifyPlaceholders(w, o)
	defer func() {
		if err != nil {
			o.Note("x.hcl", w.hclText)
			o.Note("x.yaml", w.ymlText)
		}
	}()
	if len(c.Model.Locals) > 0 {
		if _, err := sg.EvalLocals(c.Model.Locals); err != nil {
			return fmt.Errorf("harness: the description's own locals do not evaluate: %w", err)
		}
	}
	if filled, nothing := plan.resolved(w.m); nothing != nil {
		o.Class("ph_names_nothing_both_must_reject")
		return checkBothRejected(w, nothing)
	} else if plan != nil && plan.formsNewPlaceholder(filled) {
		o.Class("ph_filled_in_text_forms_new_placeholder")
		w.sameOnly = true
	}
	if len(c.Model.Scenarios) == 0 {
		return checkNoScenarios(w, o)
	}
	if w.sameOnly {
		if loaded, err := readBothSame(w); err != nil || !loaded {
			o.ClassIf(err == nil, "ph_filled_in_text_forms_new_placeholder_rejected_by_both")
			return err
		}
	} else if _, _, err := readBoth(w); err != nil {
		return err
	}
	n := len(w.m.Ring()) + 1
	ah, err := deliver(w, w.hcl, n)
	if err != nil {
		return fmt.Errorf("x.hcl: %w", err)
	}
	ay, err := deliver(w, w.yml, n)
	if err != nil {
		return fmt.Errorf("x.yaml: %w", err)
	}
	for i := range ah {
		if d := diff(ah[i], ay[i], fmt.Sprintf("ammo[%d]", i), "x.hcl", "x.yaml"); d != "" {
			return fmt.Errorf("the providers built from the two renderings deliver different ammo: %s", d)
		}
	}
	return nil
}

// classify labels the case and applies the non-triviality rule: at least one
// optional field left out and at least one present, or a string of a special
// class, or an HCL-only expression.
func classify(m sg.Model, obs *vf.Obs) {
	o := &classSet{seen: map[string]bool{}, o: obs}
	present, absent := 0, 0
	opt := func(p bool) {
		if p {
			present++
		} else {
			absent++
		}
	}
	o.Class("kind_" + m.Kind)
	for _, s := range m.Sources {
		o.Class("source_" + strings.NewReplacer("/", "_").Replace(s.Type))
		o.ClassIf(len(s.RandKeys) > 0, "variables_rand_func")
		o.ClassIf(len(s.TypedKeys) > 0, "variables_number_or_bool")
		switch s.Type {
		case sg.SourceCSV:
			opt(s.Fields != nil)
			opt(s.IgnoreFirstLine != nil)
			opt(s.Delimiter != nil)
		case sg.SourceVariables:
			opt(s.Variables != nil)
		}
	}
	o.ClassIf(len(m.Sources) == 0, "sources_none")
	heredoc := false
	for i, q := range m.Requests {
		opt(q.Headers != nil)
		opt(q.Tag != nil)
		opt(q.Body != nil)
		opt(q.Preprocessor != nil)
		opt(q.Templater != nil)
		o.ClassIf(q.Headers == nil, "headers_absent")
		o.ClassIf(q.Body == nil, "body_absent")
		o.ClassIf(q.Preprocessor != nil, "pre_http")
		if q.Templater != nil {
			o.Class("templater_" + *q.Templater)
		}
		if _, isExpr := m.Exprs[fmt.Sprintf("requests[%d].body", i)]; q.Body != nil && q.BodyHeredoc && sg.HeredocOK(*q.Body) && !isExpr {
			heredoc = true
		}
		for _, p := range q.Postprocessors {
			o.Class("post_" + strings.NewReplacer("/", "_").Replace(p.Type))
			switch p.Type {
			case sg.PostAssert:
				opt(p.Headers != nil)
				opt(p.Body != nil)
				opt(p.StatusCode != nil)
				opt(p.Size != nil)
				if p.Size != nil {
					o.Class("post_assert_size")
					opt(p.Size.Val != nil)
				}
			default:
				opt(p.Mapping != nil)
			}
		}
	}
	for i, c := range m.Calls {
		opt(c.Tag != nil)
		opt(c.Metadata != nil)
		o.ClassIf(len(c.Preprocessors) > 0, "pre_grpc_prepare")
		o.ClassIf(len(c.Postprocessors) > 0, "post_grpc_assert_response")
		if _, isExpr := m.Exprs[fmt.Sprintf("calls[%d].payload", i)]; c.PayloadHeredoc && sg.HeredocOK(c.Payload) && !isExpr {
			heredoc = true
		}
		for _, p := range c.Postprocessors {
			opt(p.Payload != nil)
			opt(p.StatusCode != nil)
		}
	}
	o.ClassIf(heredoc, "heredoc")
	o.ClassIf(len(m.Scenarios) > 1, "scenarios_gt_1")
	o.ClassIf(len(m.Ring()) > len(m.Scenarios), "ring_gt_scenarios")
	for _, s := range m.Scenarios {
		opt(s.Weight != nil)
		opt(s.MinWaitingTime != nil)
		if s.Weight != nil && *s.Weight == 0 {
			o.Class("weight_zero")
			o.ClassIf(len(m.Scenarios) == 1, "weight_zero_only_scenario")
			o.ClassIf(len(m.Scenarios) > 1, "weight_zero_among_several")
		}
		o.ClassIf(s.MinWaitingTime != nil && *s.MinWaitingTime == 0, "min_waiting_time_zero")
		for _, st := range s.Steps {
			switch {
			case st.Sleep:
				o.Class("step_sleep")
			case st.Count != nil && st.Ms != nil:
				o.Class("step_count_sleep")
			case st.Count != nil:
				o.Class("step_count")
			}
		}
	}
	special := false
	seen := map[string]bool{}
	m.WalkStrings(func(path, s string) {
		for _, cl := range sg.StringClasses(s) {
			if cl == "empty" {
				continue
			}
			special = true
			name := "str_" + cl
			if strings.HasSuffix(path, ".key") && cl == "yaml_special" {
				name = "key_yaml_special"
			} else if strings.HasSuffix(path, ".name") && cl == "yaml_special" {
				name = "name_yaml_special"
			}
			if !seen[name] {
				seen[name] = true
				o.Class(name)
			}
			if !seen["str_"+cl] {
				seen["str_"+cl] = true
				o.Class("str_" + cl)
			}
		}
	})
	if len(m.Layout.HCLOrder) > 0 && !reflect.DeepEqual(m.Layout.HCLOrder, sg.DefaultHCLOrder) {
		o.Class("hcl_block_order_permuted")
	}
	o.ClassIf(m.Layout.YAMLEmptySections, "yaml_empty_sections")
	if len(m.Layout.YAMLOrder) > 0 {
		o.Class("yaml_key_order_permuted")
		for _, ym := range sg.YAMLMappings(m) {
			if ym.Path == "" {
				if len(m.Scenarios) == 0 {
					continue // no scenarios section at all
				}
				o.ClassIf(ym.Keys[len(ym.Keys)-1] != "scenarios", "yaml_scenarios_section_not_last")
				o.ClassIf(ym.Keys[0] == "scenarios" && len(ym.Keys) > 1, "yaml_scenarios_section_first")
				continue
			}
			last := ym.Keys[len(ym.Keys)-1]
			o.ClassIf(last == "body" || last == "payload", "yaml_body_or_payload_last_key")
			o.ClassIf(ym.Keys[0] != "type" && ym.Keys[0] != "name", "yaml_entry_starts_with_other_key")
		}
	}
	if m.Layout.HCLTail != "" {
		o.Class("hcl_tail_" + m.Layout.HCLTail)
	}
	m.WalkStrings(func(path, s string) {
		if strings.HasSuffix(path, ".key") {
			return
		}
		o.ClassIf(strings.HasPrefix(s, "\t") || strings.Contains(s, "\n\t"), "str_line_starts_with_tab")
		o.ClassIf(strings.Contains(s, "\r"), "str_cr")
		o.ClassIf(strings.HasSuffix(s, "\n\n"), "str_several_trailing_newlines")
	})

	// HCL-only constructions
	o.ClassIf(len(m.Locals) == 0 && len(m.Exprs) > 0, "hcl_functions_without_any_locals_block")
	if len(m.Locals) > 0 {
		o.Class(fmt.Sprintf("locals_blocks_%d", len(m.Locals)))
	}
	fn := map[string]bool{}
	declared := map[string]bool{}
	refersEarlier, redeclared, tmpl, attrRef, overridden := false, false, false, false, false
	for bi, b := range m.Locals {
		names := []string{}
		for _, l := range b.Locals {
			for _, f := range l.Expr.Funcs() {
				fn[f] = true
			}
			k := l.Expr.Kinds()
			tmpl = tmpl || k["t"]
			if bi > 0 && k["ref"] {
				refersEarlier = true
			}
			if declared[l.Name] {
				redeclared = true
			}
			overridden = overridden || l.Override
			names = append(names, l.Name)
		}
		for _, n := range names {
			declared[n] = true
		}
	}
	for _, p := range m.ExprPaths() {
		e := m.Exprs[p]
		for _, f := range e.Funcs() {
			fn[f] = true
		}
		k := e.Kinds()
		tmpl = tmpl || k["t"]
		attrRef = attrRef || k["ref"]
	}
	for f := range fn {
		o.Class("fn_" + f)
	}
	o.ClassIf(refersEarlier, "local_refers_to_earlier_block")
	o.ClassIf(redeclared, "local_redeclared")
	o.ClassIf(overridden, "local_overridden_by_later_block")
	o.ClassIf(tmpl, "template_interpolation")
	o.ClassIf(attrRef, "attr_refers_to_local")
	o.ClassIf(len(m.Exprs) > 0, "attr_expression")

	if (present > 0 && absent > 0) || special || len(m.Exprs) > 0 || len(m.Locals) > 0 {
		obs.NonTrivial()
	}
}

// classifyYAMLStyles labels the case by the hand-written scalars of x.yaml that passed scengen's round-trip
// self-check (yaml.v2 reads them back as the intended string) and by those that fell back to the Marshal form.
func classifyYAMLStyles(w *written, obs *vf.Obs) {
	o := &classSet{seen: map[string]bool{}, o: obs}
	anyLine := func(s string, f func(l string) bool) bool {
		for _, l := range strings.Split(s, "\n") {
			if f(l) {
				return true
			}
		}
		return false
	}
	for _, a := range w.ymlStats.Applied {
		o.Class("yaml_hand_scalar")
		multiline := strings.Contains(a.Text, "\n")
		switch a.Style.Style {
		case sg.StyleLiteral, sg.StyleFolded:
			o.Class("yaml_" + a.Style.Style)
			header, _, _ := strings.Cut(a.Text, "\n")
			o.ClassIf(strings.ContainsAny(header, "123456789"), "yaml_block_indent_indicator")
			o.ClassIf(strings.Contains(header, "+"), "yaml_block_keep")
			o.ClassIf(strings.Contains(header, "-"), "yaml_block_strip")
			o.ClassIf(strings.HasPrefix(a.Value, "\t"), "yaml_block_first_line_starts_with_tab")
			o.ClassIf(anyLine(a.Value, func(l string) bool { return strings.HasPrefix(l, "\t") }), "yaml_block_line_starts_with_tab")
			o.ClassIf(anyLine(a.Value, func(l string) bool { return strings.HasPrefix(l, " ") }), "yaml_block_line_starts_with_space")
			o.ClassIf(anyLine(a.Value, func(l string) bool { return strings.HasSuffix(l, " ") || strings.HasSuffix(l, "\t") }), "yaml_block_trailing_blanks")
			o.ClassIf(strings.Contains(a.Value, "#"), "yaml_block_hash")
			o.ClassIf(strings.Contains(a.Value, ": "), "yaml_block_colon_space")
			o.ClassIf(strings.HasSuffix(a.Value, "\n\n"), "yaml_block_several_trailing_newlines")
			o.ClassIf(a.Style.Style == sg.StyleFolded && strings.Contains(strings.TrimRight(a.Value, "\n"), "\n"), "yaml_folded_inner_newline")
			o.ClassIf(!strings.HasSuffix(a.Path, ".body") && !strings.HasSuffix(a.Path, ".payload"), "yaml_block_not_body_or_payload")
		case sg.StylePlain:
			o.ClassIf(multiline, "yaml_plain_multiline")
		case sg.StyleSingle:
			o.Class("yaml_single_quoted")
			o.ClassIf(multiline, "yaml_single_quoted_multiline")
		case sg.StyleDouble:
			o.Class("yaml_double_quoted_by_hand")
			o.ClassIf(multiline, "yaml_double_quoted_multiline")
			o.ClassIf(strings.Contains(a.Text, "\t"), "yaml_double_quoted_literal_tab")
		}
	}
	if a := w.ymlStats.Last; a != nil {
		// the document ends inside a hand-written scalar
		o.Class("yaml_ends_with_hand_scalar")
		if a.Style.Style == sg.StyleLiteral || a.Style.Style == sg.StyleFolded {
			o.Class("yaml_ends_with_block_scalar")
			o.Class("yaml_ends_with_" + a.Style.Style)
			header, _, _ := strings.Cut(a.Text, "\n")
			// the final line break(s) of the file belong to the value
			o.ClassIf(strings.HasSuffix(a.Value, "\n"), "yaml_ends_with_block_scalar_owning_final_newline")
			o.ClassIf(strings.HasSuffix(a.Value, "\n") && !strings.Contains(header, "+"), "yaml_ends_with_block_scalar_clip")
			o.ClassIf(strings.Contains(header, "+"), "yaml_ends_with_block_scalar_keep")
			o.ClassIf(strings.HasSuffix(a.Value, "\n\n"), "yaml_ends_with_block_scalar_keep_blank_lines")
			o.ClassIf(strings.HasSuffix(a.Path, ".body") || strings.HasSuffix(a.Path, ".payload"), "yaml_ends_with_body_or_payload_block")
		}
	}
	classifyYAMLAnchors(w, o)
	if w.ymlStats.Tail != "" {
		o.Class("yaml_tail_" + w.ymlStats.Tail)
	}
	o.ClassIf(w.ymlStats.TailFallback, "yaml_tail_fallback")
	for _, p := range w.ymlStats.Fallback {
		o.Class("yaml_style_fallback")
		o.Class("yaml_style_fallback_" + w.m.Layout.YAMLStyles[p].Style)
	}
}

// classSet labels a case with each class once.
type classSet struct {
	seen map[string]bool
	o    *vf.Obs
}

func (c *classSet) Class(name string) {
	if !c.seen[name] {
		c.seen[name] = true
		c.o.Class(name)
	}
}

func (c *classSet) ClassIf(cond bool, name string) {
	if cond {
		c.Class(name)
	}
}

func TestEquivalence(t *testing.T) {
	pand.Init()
	r := vf.Start(t, "C16")
	vf.Check(r, func(t *rapid.T) Case { return genCase(r, t, optsPlain) },
		func(c Case, o *vf.Obs) error { return checkWith(c, o, r) })
}

func TestLocals(t *testing.T) {
	pand.Init()
	r := vf.Start(t, "C16")
	vf.Check(r, func(t *rapid.T) Case { return genCase(r, t, optsLocals) },
		func(c Case, o *vf.Obs) error { return checkWith(c, o, r) })
}

// steer draws a description; while a finding is listed as known, descriptions
// of exactly that shape are redrawn (and counted).
func steer(r *vf.Run, t *rapid.T, o sg.Opts) sg.Model {
	for i := 0; ; i++ {
		m := sg.Gen(t, o)
		hit := ""
		for _, f := range findings {
			if r.IsKnown(f.id) && f.matches(m) {
				hit = f.id
				break
			}
		}
		if hit == "" {
			return m
		}
		r.Excluded(hit)
		if i >= 50 {
			t.Fatalf("generator cannot avoid the known finding %s", hit)
		}
	}
}
