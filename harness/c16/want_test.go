package c16

import (
	sg "verif/harness/internal/scengen"
)

// The configuration a description states, field by field, in the shape
// normalize() gives config.AmmoConfig. Written out by hand from the documented
// meaning of each field (docs/eng/scenario-http-generator.md,
// scenario-grpc-generator.md, scenario/variable_source.md): it shares no code
// with either front-end.

func wMap(k *sg.KVs) any {
	out := map[string]any{}
	if k != nil {
		for _, e := range *k {
			out[e.K] = e.V
		}
	}
	return out
}

func wList(l *[]string) any {
	out := []any{}
	if l != nil {
		for _, e := range *l {
			out = append(out, e)
		}
	}
	return out
}

func wStr(s *string) string {
	if s == nil {
		return ""
	}
	return *s
}

func wInt(i *int) int64 {
	if i == nil {
		return 0
	}
	return int64(*i)
}

func wInt64(i *int64) int64 {
	if i == nil {
		return 0
	}
	return *i
}

func wBool(b *bool) bool { return b != nil && *b }

func wantSource(s sg.Source) any {
	switch s.Type {
	case sg.SourceCSV:
		return map[string]any{"$type": "*vs.VariableSourceCsv", "Name": s.Name, "File": wStr(s.File), "Fields": wList(s.Fields),
			"IgnoreFirstLine": wBool(s.IgnoreFirstLine), "Delimiter": wStr(s.Delimiter)}
	case sg.SourceJSON:
		return map[string]any{"$type": "*vs.VariableSourceJSON", "Name": s.Name, "File": wStr(s.File)}
	}
	vars := map[string]any{}
	if s.Variables != nil {
		for _, e := range *s.Variables {
			vars[e.K] = s.TypedValue(e)
		}
	}
	return map[string]any{"$type": "*vs.VariableSourceVariables", "Name": s.Name, "Variables": vars}
}

func wantPost(p sg.Postprocessor) any {
	switch p.Type {
	case sg.PostJsonpath:
		return map[string]any{"$type": "*postprocessor.VarJsonpathPostprocessor", "Mapping": wMap(p.Mapping)}
	case sg.PostXpath:
		return map[string]any{"$type": "*postprocessor.VarXpathPostprocessor", "Mapping": wMap(p.Mapping)}
	case sg.PostHeader:
		return map[string]any{"$type": "*postprocessor.VarHeaderPostprocessor", "Mapping": wMap(p.Mapping)}
	}
	out := map[string]any{"$type": "*postprocessor.AssertResponse", "Headers": wMap(p.Headers), "Body": wList(p.Body),
		"StatusCode": wInt(p.StatusCode), "Size": nil}
	if p.Size != nil {
		out["Size"] = map[string]any{"Val": wInt(p.Size.Val), "Op": p.Size.Op}
	}
	return out
}

func wantRequest(q sg.Request) any {
	out := map[string]any{"Name": q.Name, "Method": q.Method, "URI": q.URI, "Headers": wMap(q.Headers), "Tag": wStr(q.Tag),
		"Body": nil, "Preprocessor": nil, "Templater": nil}
	if q.Body != nil {
		out["Body"] = *q.Body
	}
	if q.Preprocessor != nil {
		out["Preprocessor"] = map[string]any{"Mapping": wMap(&q.Preprocessor.Mapping)}
	}
	if q.Templater != nil {
		switch *q.Templater {
		case "text":
			out["Templater"] = map[string]any{"$type": "*templater.TextTemplater"}
		case "html":
			out["Templater"] = map[string]any{"$type": "*templater.HTMLTemplater"}
		}
	}
	pp := []any{}
	for _, p := range q.Postprocessors {
		pp = append(pp, wantPost(p))
	}
	out["Postprocessors"] = pp
	return out
}

func wantCall(c sg.Call) any {
	out := map[string]any{"Name": c.Name, "Call": c.Call, "Tag": wStr(c.Tag), "Metadata": wMap(c.Metadata), "Payload": c.Payload}
	pre := []any{}
	for _, p := range c.Preprocessors {
		pre = append(pre, map[string]any{"$type": "*preprocessor.PreparePreprocessor", "Mapping": wMap(&p.Mapping)})
	}
	out["Preprocessors"] = pre
	post := []any{}
	for _, p := range c.Postprocessors {
		post = append(post, map[string]any{"$type": "*postprocessor.AssertResponse", "Payload": wList(p.Payload), "StatusCode": wInt(p.StatusCode)})
	}
	out["Postprocessors"] = post
	return out
}

// wantConfig states the AmmoConfig of the description.
func wantConfig(m sg.Model) any {
	srcs, reqs, calls, scs := []any{}, []any{}, []any{}, []any{}
	for _, s := range m.Sources {
		srcs = append(srcs, wantSource(s))
	}
	for _, q := range m.Requests {
		reqs = append(reqs, wantRequest(q))
	}
	for _, c := range m.Calls {
		calls = append(calls, wantCall(c))
	}
	for _, s := range m.Scenarios {
		steps := s.StepStrings()
		scs = append(scs, map[string]any{"Name": s.Name, "Weight": wInt64(s.Weight), "MinWaitingTime": wInt64(s.MinWaitingTime), "Requests": wList(&steps)})
	}
	return map[string]any{"Locals": map[string]any{}, "VariableSources": srcs, "Requests": reqs, "Calls": calls, "Scenarios": scs}
}
