package c16

import (
	"testing"

	"verif/harness/internal/pand"
	"verif/harness/internal/vf"

	"pgregory.net/rapid"
)

// FuzzEquivalence / FuzzLocals: Go's coverage-guided fuzzer drives the generators and oracles of TestEquivalence and
// TestLocals (rapid.MakeFuzz): descriptions that reach new code in the two front-ends are kept and mutated further.
func fuzzWith(f *testing.F, locals bool) {
	pand.Init()
	r := vf.Detached("C16")
	f.Add([]byte{})
	f.Add([]byte{1, 2, 3, 4, 5, 6, 7, 8, 9, 10, 11, 12, 13, 14, 15, 16})
	f.Fuzz(rapid.MakeFuzz(func(t *rapid.T) {
		o := optsPlain
		if locals {
			o = optsLocals
		}
		c := genCase(r, t, o)
		if err := vf.Guard(func() error { return checkWith(c, &vf.Obs{}, r) }); err != nil {
			t.Fatalf("%v", err)
		}
	}))
}

func FuzzEquivalence(f *testing.F) { fuzzWith(f, false) }
func FuzzLocals(f *testing.F)      { fuzzWith(f, true) }
