package c16

import (
	"fmt"
	"reflect"
	"sort"
	"strings"
)

// normalize turns any Go value into a tree of map[string]any / []any / string /
// bool / int64 / uint64 / float64 / nil:
//
//   - pointers are followed (nil stays nil, so an absent optional value differs
//     from a present zero value),
//   - nil and empty maps / slices are the same,
//   - only exported struct fields are kept,
//   - a struct held by an interface carries its dynamic type as "$type".
func normalize(v reflect.Value) any {
	switch v.Kind() {
	case reflect.Invalid:
		return nil
	case reflect.Interface:
		if v.IsNil() {
			return nil
		}
		e := v.Elem()
		n := normalize(e)
		t := e.Type()
		for t.Kind() == reflect.Ptr {
			t = t.Elem()
		}
		if m, ok := n.(map[string]any); ok && t.Kind() == reflect.Struct {
			m["$type"] = e.Type().String()
		}
		return n
	case reflect.Ptr:
		if v.IsNil() {
			return nil
		}
		return normalize(v.Elem())
	case reflect.Struct:
		out := map[string]any{}
		t := v.Type()
		for i := 0; i < t.NumField(); i++ {
			f := t.Field(i)
			if !f.IsExported() {
				continue
			}
			out[f.Name] = normalize(v.Field(i))
		}
		return out
	case reflect.Map:
		out := map[string]any{}
		it := v.MapRange()
		for it.Next() {
			out[fmt.Sprint(it.Key().Interface())] = normalize(it.Value())
		}
		return out
	case reflect.Slice, reflect.Array:
		if v.Kind() == reflect.Slice && v.Type().Elem().Kind() == reflect.Uint8 {
			return string(v.Bytes())
		}
		out := make([]any, 0, v.Len())
		for i := 0; i < v.Len(); i++ {
			out = append(out, normalize(v.Index(i)))
		}
		return out
	case reflect.String:
		return v.String()
	case reflect.Bool:
		return v.Bool()
	case reflect.Int, reflect.Int8, reflect.Int16, reflect.Int32, reflect.Int64:
		return v.Int()
	case reflect.Uint, reflect.Uint8, reflect.Uint16, reflect.Uint32, reflect.Uint64, reflect.Uintptr:
		return v.Uint()
	case reflect.Float32, reflect.Float64:
		return v.Float()
	}
	return fmt.Sprintf("<%s>", v.Kind())
}

func norm(x any) any { return normalize(reflect.ValueOf(x)) }

func show(x any) string {
	switch v := x.(type) {
	case nil:
		return "<absent>"
	case string:
		return fmt.Sprintf("%q", v)
	case map[string]any:
		ks := make([]string, 0, len(v))
		for k := range v {
			ks = append(ks, k)
		}
		sort.Strings(ks)
		var sb strings.Builder
		sb.WriteString("{")
		for i, k := range ks {
			if i > 0 {
				sb.WriteString(", ")
			}
			fmt.Fprintf(&sb, "%q: %s", k, show(v[k]))
		}
		sb.WriteString("}")
		return sb.String()
	case []any:
		var sb strings.Builder
		sb.WriteString("[")
		for i, e := range v {
			if i > 0 {
				sb.WriteString(", ")
			}
			sb.WriteString(show(e))
		}
		sb.WriteString("]")
		return sb.String()
	}
	return fmt.Sprintf("%v", x)
}

func clip(s string) string {
	if len(s) > 300 {
		return s[:300] + "..."
	}
	return s
}

// diff returns "" when a and b are the same tree, else a description of the
// first difference (a is called `an`, b is called `bn`).
func diff(a, b any, path, an, bn string) string {
	switch x := a.(type) {
	case map[string]any:
		y, ok := b.(map[string]any)
		if !ok {
			break
		}
		ks := map[string]bool{}
		for k := range x {
			ks[k] = true
		}
		for k := range y {
			ks[k] = true
		}
		keys := make([]string, 0, len(ks))
		for k := range ks {
			keys = append(keys, k)
		}
		sort.Strings(keys)
		for _, k := range keys {
			xv, xok := x[k]
			yv, yok := y[k]
			p := fmt.Sprintf("%s[%q]", path, k)
			if !xok {
				return fmt.Sprintf("%s: %s has no such entry, %s has %s", p, an, bn, clip(show(yv)))
			}
			if !yok {
				return fmt.Sprintf("%s: %s has %s, %s has no such entry", p, an, clip(show(xv)), bn)
			}
			if d := diff(xv, yv, p, an, bn); d != "" {
				return d
			}
		}
		return ""
	case []any:
		y, ok := b.([]any)
		if !ok {
			break
		}
		if len(x) != len(y) {
			return fmt.Sprintf("%s: %s has %d elements %s, %s has %d elements %s", path, an, len(x), clip(show(x)), bn, len(y), clip(show(y)))
		}
		for i := range x {
			if d := diff(x[i], y[i], fmt.Sprintf("%s[%d]", path, i), an, bn); d != "" {
				return d
			}
		}
		return ""
	}
	if reflect.DeepEqual(a, b) {
		return ""
	}
	if sa, ok := a.(string); ok {
		if sb, ok := b.(string); ok && (len(sa) > 300 || len(sb) > 300) {
			// long strings: where they part
			i := 0
			for i < len(sa) && i < len(sb) && sa[i] == sb[i] {
				i++
			}
			from := i - 30
			if from < 0 {
				from = 0
			}
			cut := func(s string) string {
				to := i + 30
				if to > len(s) {
					to = len(s)
				}
				return fmt.Sprintf("%q", s[from:to])
			}
			return fmt.Sprintf("%s: %s has %d bytes in %d lines, %s has %d bytes in %d lines; they part at byte %d: %s has ...%s..., %s has ...%s...",
				path, an, len(sa), strings.Count(sa, "\n")+1, bn, len(sb), strings.Count(sb, "\n")+1, i, an, cut(sa), bn, cut(sb))
		}
	}
	return fmt.Sprintf("%s: %s has %s, %s has %s", path, an, clip(show(a)), bn, clip(show(b)))
}
