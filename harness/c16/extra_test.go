package c16

import (
	"fmt"
	"math/bits"
	"strings"
	"time"

	"verif/harness/internal/pand"
	"verif/harness/internal/provrun"
	sg "verif/harness/internal/scengen"
	"verif/harness/internal/vf"

	"github.com/spf13/afero"
	"github.com/yandex/pandora/core"
	"pgregory.net/rapid"
)

// Two classes of descriptions that internal/scengen's generators do not draw (they are added here, after
// sg.Gen, for TestEquivalence / TestLocals and the native fuzz targets only):
//
//   - descriptions WITHOUT scenarios: requests / calls (and sources) only; HCL: no `scenario` block, YAML: no
//     `scenarios` key. What such a description means is for the common code to say (today: it loads and the
//     provider ends at once with "no ammo"); the property says that both syntaxes mean the SAME.
//   - descriptions with ONE VERY LONG PHYSICAL LINE (4 KiB - 70 KiB): a minified JSON body / payload on one
//     line (heredoc or quoted string in HCL; block, quoted or Marshal scalar in YAML), a long bearer token or
//     cookie header / metadata value, a long query string. The long text is not stored in the case: LongLine is
//     its recipe and applyLong writes it into the model, so replay files stay readable and shrinking reduces
//     the size towards the smallest failing one.

// uniform draws an integer in [0, n) bit by bit from rapid.Bool (rapid.IntRange prefers small values).
func uniform(t *rapid.T, label string, n int) int {
	if n <= 1 {
		return 0
	}
	nb := bits.Len(uint(n - 1))
	for {
		v := 0
		for i := 0; i < nb; i++ {
			if rapid.Bool().Draw(t, label) {
				v |= 1 << i
			}
		}
		if v < n {
			return v
		}
	}
}

const (
	pctNoScenarios = 6
	pctLongLine    = 9
)

// genCase draws a description (steer) and, for a drawn share, makes it one of the two classes above.
func genCase(r *vf.Run, t *rapid.T, o sg.Opts) Case {
	o.YAMLAnchors = true // user maps of x.yaml through anchors and merge keys (35% of the descriptions; anchors_test.go)
	c := Case{Model: steer(r, t, o)}
	if uniform(t, "no scenarios?", 100) < pctNoScenarios {
		c.Model = withoutScenarios(c.Model)
	}
	if uniform(t, "long line?", 100) < pctLongLine {
		c.Long = genLong(t, c.Model)
	}
	if uniform(t, "placeholders?", 100) < pctPlaceholders && c.Long == nil {
		c.Ph = genPlaceholders(t, c.Model)
	}
	return c
}

// withoutScenarios returns the description with its scenarios taken out: the HCL rendering has no `scenario`
// block, the YAML rendering no `scenarios` key.
func withoutScenarios(m sg.Model) sg.Model {
	c := m.Clone()
	c.Scenarios = nil
	c.Layout.YAMLNoScenariosKey = true
	for p := range c.Exprs {
		if strings.HasPrefix(p, "scenarios[") {
			delete(c.Exprs, p)
		}
	}
	if len(c.Exprs) == 0 {
		c.Exprs = nil
	}
	return c
}

// Sites of the long line.
const (
	longBody   = "body"   // request body / call payload
	longHeader = "header" // a header (http) / metadata (grpc) value
	longURI    = "uri"    // the query string of a request uri (http only)
)

// LongLine is the recipe of one very long physical line and where it stands.
type LongLine struct {
	Site string `json:"site"`
	Step int    `json:"step"` // index of the request / call
	Size int    `json:"size"` // bytes of the long line (without its line end)
	// Frags are indices into longFrags, used in turn until Size is reached (body), Cookie says that a long header
	// value is a cookie list with blanks instead of a bearer token without any.
	Frags  []int `json:"frags,omitempty"`
	Cookie bool  `json:"cookie,omitempty"`
	// Before / After are short lines around the long one (body only), Newline ends the text with a line break.
	Before  []int `json:"before,omitempty"`
	After   []int `json:"after,omitempty"`
	Newline bool  `json:"newline,omitempty"`
	// Heredoc asks for an HCL heredoc (body only; needs Newline), else the value is a quoted HCL string on one line.
	Heredoc bool `json:"heredoc,omitempty"`
	// YAML is the hand-written style of the value in x.yaml ("" = as yaml.v2 Marshal writes it).
	YAML *sg.ScalarStyle `json:"yaml,omitempty"`
}

// longFrags are the array elements of the minified JSON document: templates, blanks (where yaml.v2 folds long
// quoted scalars), multi-byte characters, backslashes and quotes, YAML- and HCL-special text.
var longFrags = []string{
	`{"id":1,"name":"user1","tags":["a","b"]}`,
	`{"login":"{{.request.auth_req.preprocessor.user.login}}","pass":"{{.request.auth_req.preprocessor.user.pass}}"}`,
	`{"text":"привет мир ✓ 日本語"}`,
	`{"path":"C:\\dir\\file.txt","q":"say \"hi\""}`,
	`{"note":"a: b # c - d, it's"}`,
	`{"url":"http://localhost:8080/p?a=1&b=2#f","ok":true,"n":null,"f":1.5e3}`,
	`{"lorem":"lorem ipsum dolor sit amet consectetur adipiscing elit"}`,
	`{"pct":"100%{","d":"$$","e":"%%"}`,
	`{"blob":"QUJDREVGR0hJSktMTU5PUFFSU1RVVldYWVo="}`,
	`{"token":"{{.request.auth_req.postprocessor.token}}","n":12345678901234567890}`,
}

var longShortLines = []string{"{", "}", "id\tname\tcomment", "  \"k\": \"v\",", "# not a comment", "key: value", "<a>", "", "--boundary"}

// longLineSizes: a third of the lines lie around 4 KiB, others around 8 KiB and 64 KiB (sizes of read buffers
// and of bufio.Scanner's largest token), the rest anywhere up to 70 KiB.
func genLongSize(t *rapid.T) int {
	around := func(n int) int { return n - 64 + uniform(t, "long.size.offset", 129) }
	switch k := uniform(t, "long.size.kind", 20); {
	case k < 6:
		return around(4096)
	case k < 8:
		return 4096 + uniform(t, "long.size.just over 4k", 3)
	case k < 10:
		return around(8192)
	case k < 13:
		return around(65536)
	default:
		// log-uniform over 4 KiB .. 70 KiB
		hi := 4096 << uniform(t, "long.size.octave", 5) // 4k 8k 16k 32k 64k
		n := hi + uniform(t, "long.size.in octave", hi)
		if n > 71680 {
			n = 65536 + uniform(t, "long.size.top", 71680-65536+1)
		}
		return n
	}
}

func genLong(t *rapid.T, m sg.Model) *LongLine {
	l := &LongLine{Size: genLongSize(t)}
	steps := len(m.Requests) + len(m.Calls)
	if steps == 0 {
		return nil
	}
	l.Step = uniform(t, "long.step", steps)
	switch k := uniform(t, "long.site", 100); {
	case k < 72:
		l.Site = longBody
	case k < 88 || m.Kind == "grpc":
		l.Site = longHeader
	default:
		l.Site = longURI
	}
	switch l.Site {
	case longBody:
		n := 1 + uniform(t, "long.frags#n", 6)
		for i := 0; i < n; i++ {
			l.Frags = append(l.Frags, uniform(t, "long.frag", len(longFrags)))
		}
		if uniform(t, "long.multiline?", 100) < 35 {
			for i, n := 0, uniform(t, "long.before#n", 3); i < n; i++ {
				l.Before = append(l.Before, uniform(t, "long.before", len(longShortLines)))
			}
			for i, n := 0, uniform(t, "long.after#n", 3); i < n; i++ {
				l.After = append(l.After, uniform(t, "long.after", len(longShortLines)))
			}
		}
		l.Heredoc = uniform(t, "long.heredoc?", 100) < 60
		l.Newline = l.Heredoc || uniform(t, "long.newline?", 100) < 40
		switch k := uniform(t, "long.yaml", 100); {
		case k < 50:
			l.YAML = &sg.ScalarStyle{Style: sg.StyleLiteral}
		case k < 62:
			l.YAML = &sg.ScalarStyle{Style: sg.StyleFolded, Wrap: rapid.Bool().Draw(t, "long.yaml.wrap")}
		case k < 72:
			l.YAML = &sg.ScalarStyle{Style: sg.StyleDouble, Wrap: rapid.Bool().Draw(t, "long.yaml.wrap")}
		case k < 82:
			l.YAML = &sg.ScalarStyle{Style: sg.StyleSingle, Wrap: rapid.Bool().Draw(t, "long.yaml.wrap")}
		}
	default:
		l.Cookie = l.Site == longHeader && rapid.Bool().Draw(t, "long.cookie")
		switch k := uniform(t, "long.yaml", 100); {
		case k < 25:
			l.YAML = &sg.ScalarStyle{Style: sg.StyleSingle, Wrap: rapid.Bool().Draw(t, "long.yaml.wrap")}
		case k < 50:
			l.YAML = &sg.ScalarStyle{Style: sg.StyleDouble}
		case k < 65:
			l.YAML = &sg.ScalarStyle{Style: sg.StylePlain, Wrap: rapid.Bool().Draw(t, "long.yaml.wrap")}
		}
	}
	if l.YAML != nil {
		l.YAML.Indent = []int{1, 2, 2, 2, 4, 8}[uniform(t, "long.yaml.indent", 6)]
	}
	return l
}

// fillTo appends pieces (in turn, starting with unit(0)) to s and cuts / pads so that the result has exactly size bytes.
func fillTo(prefix string, size int, unit func(i int) string, pad byte, suffix string) string {
	var sb strings.Builder
	sb.WriteString(prefix)
	for i := 0; ; i++ {
		u := unit(i)
		if u == "" || sb.Len()+len(u)+len(suffix) > size {
			break
		}
		sb.WriteString(u)
	}
	if n := size - sb.Len() - len(suffix); n > 0 {
		sb.WriteString(strings.Repeat(string(pad), n))
	}
	sb.WriteString(suffix)
	return sb.String()
}

// Line is the long line itself: exactly Size bytes, no line break, printable.
func (l LongLine) Line() string {
	switch l.Site {
	case longBody:
		frags := l.Frags
		if len(frags) == 0 {
			frags = []int{0}
		}
		// {"items":[<frag>,<frag>,...,{"pad":"xxxx"}]}
		const head, open, tail = `{"items":[`, `{"pad":"`, `"}]}`
		var sb strings.Builder
		sb.WriteString(head)
		for i := 0; ; i++ {
			u := longFrags[frags[i%len(frags)]%len(longFrags)] + ","
			if sb.Len()+len(u)+len(open)+len(tail) > l.Size {
				break
			}
			sb.WriteString(u)
		}
		sb.WriteString(open)
		if n := l.Size - sb.Len() - len(tail); n > 0 {
			sb.WriteString(strings.Repeat("x", n))
		}
		sb.WriteString(tail)
		return sb.String()
	case longHeader:
		if l.Cookie {
			return fillTo("", l.Size, func(i int) string { return fmt.Sprintf("k%d=v%d; ", i, i*7919) }, 'c', "=1")
		}
		return fillTo("Bearer ", l.Size, func(i int) string { return "eyJhbGciOiJIUzI1NiIsInR5cCI6IkpXVCJ9." }, 'A', "")
	}
	return fillTo("/search?", l.Size, func(i int) string { return fmt.Sprintf("q%d=v%d&", i, i*31) }, 'z', "")
}

// Text is the whole value: the long line with its short neighbours.
func (l LongLine) Text() string {
	if l.Site != longBody {
		return l.Line()
	}
	var lines []string
	for _, i := range l.Before {
		lines = append(lines, longShortLines[i%len(longShortLines)])
	}
	lines = append(lines, l.Line())
	for _, i := range l.After {
		lines = append(lines, longShortLines[i%len(longShortLines)])
	}
	s := strings.Join(lines, "\n")
	if l.Newline || l.Heredoc {
		s += "\n"
	}
	return s
}

// applyLong writes the long line into the description: the value is a literal in both renderings (an HCL-only
// expression drawn for the attribute is dropped) and the YAML style is the one of the recipe.
func applyLong(m sg.Model, l *LongLine) (sg.Model, error) {
	if l == nil {
		return m, nil
	}
	c := m.Clone()
	text := sg.Sanitize(l.Text())
	var path string
	switch {
	case l.Step < 0 || l.Step >= len(c.Requests)+len(c.Calls):
		return m, fmt.Errorf("harness: long line for step %d of %d", l.Step, len(c.Requests)+len(c.Calls))
	case c.Kind == "http":
		q := &c.Requests[l.Step]
		base := fmt.Sprintf("requests[%d].", l.Step)
		switch l.Site {
		case longBody:
			q.Body, q.BodyHeredoc = &text, l.Heredoc
			path = base + "body"
			delete(c.Exprs, path)
		case longHeader:
			key := "Authorization"
			if l.Cookie {
				key = "Cookie"
			}
			h := sg.KVs{}
			if q.Headers != nil {
				for _, e := range *q.Headers {
					if e.K != key {
						h = append(h, e)
					}
				}
			}
			h = append(h, sg.KV{K: key, V: text})
			q.Headers = &h
			path = base + "headers." + key
			delete(c.Exprs, base+"headers")
		default:
			q.URI = text
			path = base + "uri"
			delete(c.Exprs, path)
		}
	default:
		q := &c.Calls[l.Step]
		base := fmt.Sprintf("calls[%d].", l.Step)
		switch l.Site {
		case longBody:
			q.Payload, q.PayloadHeredoc = text, l.Heredoc
			path = base + "payload"
			delete(c.Exprs, path)
		default:
			key := "authorization"
			if l.Cookie {
				key = "cookie"
			}
			h := sg.KVs{}
			if q.Metadata != nil {
				for _, e := range *q.Metadata {
					if e.K != key {
						h = append(h, e)
					}
				}
			}
			h = append(h, sg.KV{K: key, V: text})
			q.Metadata = &h
			path = base + "metadata." + key
			delete(c.Exprs, base+"metadata")
		}
	}
	if len(c.Exprs) == 0 {
		c.Exprs = nil
	}
	styles := map[string]sg.ScalarStyle{}
	for k, v := range c.Layout.YAMLStyles {
		styles[k] = v
	}
	delete(styles, path)
	if l.YAML != nil {
		styles[path] = *l.YAML
	}
	c.Layout.YAMLStyles = styles
	if len(styles) == 0 {
		c.Layout.YAMLStyles = nil
	}
	return c, nil
}

func maxLine(text string) int {
	n := 0
	for _, l := range strings.Split(text, "\n") {
		if len(l) > n {
			n = len(l)
		}
	}
	return n
}

// classifyLong labels a case with a long line by what the two files really contain.
func classifyLong(l *LongLine, w *written, obs *vf.Obs) {
	o := &classSet{seen: map[string]bool{}, o: obs}
	hl, yl := maxLine(w.hclText), maxLine(w.ymlText)
	o.ClassIf(hl >= 4096, "hcl_physical_line_4k_or_more")
	o.ClassIf(hl >= 16384, "hcl_physical_line_16k_or_more")
	o.ClassIf(hl >= 65536, "hcl_physical_line_64k_or_more")
	o.ClassIf(yl >= 4096, "yaml_physical_line_4k_or_more")
	o.ClassIf(yl >= 65536, "yaml_physical_line_64k_or_more")
	if l == nil {
		return
	}
	o.Class("long_line")
	obs.NonTrivial()
	o.Class("long_line_" + l.Site)
	o.ClassIf(l.Size >= 4096-64 && l.Size <= 4096+64, "long_line_around_4k")
	o.ClassIf(l.Size >= 65536-64 && l.Size <= 65536+64, "long_line_around_64k")
	o.ClassIf(l.Size >= 16384, "long_line_16k_or_more")
	if l.Site == longBody {
		o.ClassIf(len(l.Before)+len(l.After) > 0, "long_line_between_short_lines")
		// did the HCL renderer write a heredoc with the long line as one physical line of the file?
		line := l.Line()
		heredoc := strings.Contains(w.hclText, "<<EOT\n") && (strings.Contains(w.hclText, "\n"+line+"\n") || strings.Contains(w.hclText, "\n"+strings.ReplaceAll(line, "%{", "%%{")+"\n"))
		o.ClassIf(heredoc && hl >= 4096, "long_line_in_hcl_heredoc")
		o.ClassIf(!heredoc && hl >= 4096, "long_line_in_hcl_quoted_string")
	} else {
		o.ClassIf(hl >= 4096, "long_line_in_hcl_quoted_string")
	}
	styled := false
	for _, a := range w.ymlStats.Applied {
		if a.Value == sg.Sanitize(l.Text()) && len(a.Value) >= 4000 {
			styled = true
			switch a.Style.Style {
			case sg.StyleLiteral, sg.StyleFolded:
				o.Class("long_line_in_yaml_block_scalar")
				o.Class("long_line_in_yaml_" + a.Style.Style)
			default:
				o.Class("long_line_in_yaml_hand_quoted_or_plain")
			}
		}
	}
	o.ClassIf(!styled, "long_line_in_yaml_marshal_form")
}

// outcome is what a provider built from one file does.
type outcome struct {
	buildErr error
	items    []any
	runErr   error // what Run returned, nil for a run that was cancelled after the items were taken
	ended    bool  // the provider ran out of ammo by itself
}

func (o outcome) String() string {
	switch {
	case o.buildErr != nil:
		return fmt.Sprintf("the provider cannot be built (%v)", o.buildErr)
	case o.runErr != nil:
		return fmt.Sprintf("the provider delivers %d ammo and ends with the error %q", len(o.items), o.runErr)
	case o.ended:
		return fmt.Sprintf("the provider delivers %d ammo and ends", len(o.items))
	}
	return fmt.Sprintf("the provider delivers ammo (%d taken)", len(o.items))
}

// observe builds the provider for file and takes up to n items; nothing is demanded of the provider except that it
// does not hang.
func observe(w *written, file string, n int) (outcome, error) {
	var out outcome
	p, err := provrun.Build(map[string]any{"type": w.m.ProviderType(), "file": file})
	if err != nil {
		out.buildErr = err
		return out, nil
	}
	res, err := provrun.Drain(p, n, 1, 30*time.Second, func(a core.Ammo) error {
		v, err := itemView(a, w.m)
		out.items = append(out.items, v)
		return err
	})
	if err != nil {
		return out, err
	}
	if res.Hung != "" {
		return out, fmt.Errorf("provider: %s", res.Hung)
	}
	if res.RunErr != nil && res.RunErr.Error() != "context canceled" {
		out.runErr = res.RunErr
	}
	out.ended = res.EndSeen
	return out, nil
}

func sameOutcome(a, b outcome, an, bn string) error {
	if (a.buildErr == nil) != (b.buildErr == nil) || len(a.items) != len(b.items) || (a.runErr == nil) != (b.runErr == nil) || a.ended != b.ended {
		return fmt.Errorf("%s: %s; %s: %s", an, a, bn, b)
	}
	for i := range a.items {
		if d := diff(a.items[i], b.items[i], fmt.Sprintf("ammo[%d]", i), an, bn); d != "" {
			return fmt.Errorf("the providers deliver different ammo: %s", d)
		}
	}
	return nil
}

// checkNoScenarios is the oracle for a description without scenarios. Neither the documentation nor the property
// says what such a description means; the property says that it means the same in both syntaxes: both files load
// or both are rejected, the loaded configurations are the stated one, and the two providers do the same (both
// cannot be built / both end without ammo / both deliver the same ammo).
func checkNoScenarios(w *written, obs *vf.Obs) error {
	o := &classSet{seen: map[string]bool{}, o: obs}
	o.Class("no_scenarios")
	o.Class("no_scenarios_" + w.m.Kind)
	o.ClassIf(len(w.m.StepNames()) > 1, "no_scenarios_several_steps")
	o.ClassIf(len(w.m.Sources) > 0, "no_scenarios_with_sources")
	obs.NonTrivial()
	loaded, err := readBothSame(w)
	if err != nil {
		return err
	}
	o.ClassIf(!loaded, "no_scenarios_rejected_by_both")
	n := len(w.m.StepNames()) + 1
	oh, err := observe(w, w.hcl, n)
	if err != nil {
		return fmt.Errorf("x.hcl: %w", err)
	}
	oy, err := observe(w, w.yml, n)
	if err != nil {
		return fmt.Errorf("x.yaml: %w", err)
	}
	if err := sameOutcome(oh, oy, "x.hcl", "x.yaml"); err != nil {
		return fmt.Errorf("a description without scenarios (no scenario block / no scenarios key) means different things in the two syntaxes: %w", err)
	}
	switch {
	case oh.buildErr != nil:
		o.Class("no_scenarios_no_provider_in_both")
	case len(oh.items) == 0:
		o.Class("no_scenarios_no_ammo_in_both")
	default:
		o.Class("no_scenarios_same_ammo_in_both")
	}
	// measured only, nothing is asserted: the YAML spelling `scenarios: []`
	m2 := w.m
	m2.Layout.YAMLNoScenariosKey = false
	y2, _ := sg.RenderYAMLStyled(m2)
	if strings.Contains(string(y2), "scenarios: []") {
		f2 := w.dir + "/x_empty_list.yaml"
		if err := afero.WriteFile(pand.FS(), f2, y2, 0o644); err != nil {
			return err
		}
		oe, err := observe(w, f2, n)
		if err != nil {
			return fmt.Errorf("x.yaml with `scenarios: []`: %w", err)
		}
		if sameOutcome(oh, oe, "x.hcl", "x_empty_list.yaml") == nil {
			o.Class("no_scenarios_yaml_empty_list_like_hcl")
		} else {
			o.Class("no_scenarios_yaml_empty_list_unlike_hcl")
		}
	}
	return nil
}
