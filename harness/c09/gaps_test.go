// C09, keep-alive clause over time: "an instance sends its successive requests over one connection, so a target that
// keeps connections open sees no more connections than there are instances" does not depend on how fast an instance
// shoots. TestWire shoots back to back (`once` profiles); here the load profile leaves every instance idle for 1.1-2.5 s
// between two of its requests - the everyday situation of a big instance pool at a low rate, of `rps-per-instance` with
// a slow user, of a profile with a pause in it. Those pauses are longer than every short timeout of the gun's transport
// (expect-continue-timeout 1 s, tls-handshake-timeout 1 s, dial timeout 3 s at most in part) and far below the one that
// is documented to end an idle connection (idle-conn-timeout, "Default: 90s").
//
// Such cases cost wall time, not CPU: the cases of a process run concurrently (vf.Batch), each against a recording
// target of its own that never closes a connection.
package c09

import (
	"bytes"
	"context"
	"fmt"
	"sort"
	"testing"
	"time"

	"verif/harness/internal/pand"
	"verif/harness/internal/target"
	"verif/harness/internal/vf"

	"github.com/yandex/pandora/core/engine"
	"pgregory.net/rapid"
)

type GapCase struct {
	Gun       string `json:"gun"` // http | connect | http2
	SSL       bool   `json:"ssl"`
	NoKeep    bool   `json:"disable_keep_alives,omitempty"`
	Instances int    `json:"instances"`
	// how the pauses come about:
	//   bursts       - one profile for the pool: once(k1), a pause (const, 0 ops, gap), once(k2), ...
	//   bursts_each  - the same profile with `rps-per-instance: true`: every instance runs it for itself
	//   slow_each    - `rps-per-instance: true` and a const profile of 1/gap ops: every instance shoots once per gap
	Mode   string `json:"mode"`
	Bursts []int  `json:"bursts"`  // tokens per burst (bursts*), or [shots] (slow_each)
	GapsMs []int  `json:"gaps_ms"` // pause after burst i (bursts*), or [gap] (slow_each)
	Answer string `json:"target_answer"`
	URIs   int    `json:"uris"`
	// transport options as the user wrote them ("" = not written, the documented default applies)
	IdleConnTimeout   string `json:"idle_conn_timeout,omitempty"`       // default 90s
	TLSHandshakeTO    string `json:"tls_handshake_timeout,omitempty"`   // default 1s
	ExpectContinueTO  string `json:"expect_continue_timeout,omitempty"` // default 1s
	DialTimeout       string `json:"dial_timeout,omitempty"`            // default 3s
	ResponseHeaderTO  string `json:"response_header_timeout,omitempty"` // default 0 = none
	MaxIdleConnsPerHo int    `json:"max_idle_conns_per_host,omitempty"` // default 2
}

func genGapCase(t *rapid.T) GapCase {
	c := GapCase{Gun: rapid.SampledFrom([]string{"http", "http", "http", "connect", "http2"}).Draw(t, "gun")}
	switch c.Gun {
	case "http":
		c.SSL = rapid.Bool().Draw(t, "ssl")
	case "http2":
		c.SSL = true
	}
	c.NoKeep = rapid.IntRange(0, 5).Draw(t, "noKeepAlive") == 0
	c.Instances = rapid.IntRange(1, 3).Draw(t, "instances")
	c.Mode = rapid.SampledFrom([]string{"bursts", "bursts", "bursts_each", "slow_each"}).Draw(t, "mode")
	// one pause in three is a long one (the generator's integers lean towards the lower bound)
	gap := func(label string) int {
		if rapid.IntRange(0, 2).Draw(t, label+"Long") == 0 {
			return rapid.IntRange(1800, 2500).Draw(t, label)
		}
		return rapid.IntRange(1100, 1800).Draw(t, label)
	}
	switch c.Mode {
	case "slow_each":
		c.Bursts = []int{rapid.IntRange(2, 3).Draw(t, "shots")}
		c.GapsMs = []int{gap("gap")}
		if c.Bursts[0] == 3 {
			c.GapsMs[0] = rapid.IntRange(1100, 1800).Draw(t, "gapOfThree")
		}
	default:
		nb := rapid.IntRange(2, 3).Draw(t, "bursts")
		maxTok := 2
		if c.Mode == "bursts" {
			maxTok = 2 * c.Instances
		}
		for i := 0; i < nb; i++ {
			c.Bursts = append(c.Bursts, rapid.IntRange(1, maxTok).Draw(t, "tokens"))
			if i > 0 {
				if nb == 3 {
					c.GapsMs = append(c.GapsMs, rapid.IntRange(1100, 1800).Draw(t, "gapOfTwo"))
				} else {
					c.GapsMs = append(c.GapsMs, gap("gap"))
				}
			}
		}
	}
	c.Answer = rapid.SampledFrom([]string{"small", "small", "empty", "5k", "100k", "chunked", "chunked_big"}).Draw(t, "answer")
	c.URIs = rapid.IntRange(1, 3).Draw(t, "uris")
	c.IdleConnTimeout = rapid.SampledFrom([]string{"", "", "90s", "30s", "5m", "0"}).Draw(t, "idleConnTimeout")
	c.TLSHandshakeTO = rapid.SampledFrom([]string{"", "", "1s", "30s"}).Draw(t, "tlsHandshakeTimeout")
	c.ExpectContinueTO = rapid.SampledFrom([]string{"", "", "", "1s", "500ms", "10s"}).Draw(t, "expectContinueTimeout")
	c.DialTimeout = rapid.SampledFrom([]string{"", "1s", "30s"}).Draw(t, "dialTimeout")
	c.ResponseHeaderTO = rapid.SampledFrom([]string{"", "", "0", "1s", "20s"}).Draw(t, "responseHeaderTimeout")
	c.MaxIdleConnsPerHo = rapid.SampledFrom([]int{0, 0, 1, 2, 8}).Draw(t, "maxIdleConnsPerHost")
	return c
}

func gapAnswer(kind string) target.Resp {
	switch kind {
	case "empty":
		return target.Resp{Status: 200}
	case "5k":
		return target.Resp{Status: 200, Body: bytes.Repeat([]byte("0123456789"), 500)}
	case "100k":
		return target.Resp{Status: 200, Body: bytes.Repeat([]byte("0123456789abcdef"), 6400)}
	case "chunked":
		return target.Resp{Status: 200, Chunks: [][]byte{[]byte("first,"), []byte("second,"), []byte("third")}}
	case "chunked_big":
		return target.Resp{Status: 200, Chunks: [][]byte{bytes.Repeat([]byte("a"), 3000), bytes.Repeat([]byte("b"), 9000), []byte("end")}}
	}
	return target.Resp{Status: 200, Body: []byte("ok")}
}

func checkGap(c GapCase, o *vf.Obs) error {
	if (c.Gun == "http2" && !c.SSL) || (c.Gun == "connect" && c.SSL) || len(c.Bursts) == 0 || c.Instances < 1 {
		return fmt.Errorf("harness: malformed case %+v", c)
	}
	// a target of this case's own (cases run concurrently); it keeps every connection open until the case is over
	var (
		addr      string
		records   func() []target.Rec
		connsOpen func() int
	)
	if c.Gun == "http2" {
		tg := target.NewH2(true)
		defer tg.Close()
		tg.Reset(nil, func(int, *target.Rec, int) target.H2Resp { return target.H2Resp{Resp: gapAnswer(c.Answer)} })
		addr, records = tg.Addr(), tg.Records
		connsOpen = func() int { return len(tg.Handshakes()) }
	} else {
		tg := target.NewHTTP(c.SSL)
		defer tg.Close()
		tg.Reset(func(int, *target.Rec) target.Resp { return gapAnswer(c.Answer) })
		addr, records = tg.Addr(), tg.Records
		connsOpen = func() int { return int(tg.ConnsAccepted()) }
	}
	// the load profile and the number of tokens it holds
	var rps []any
	perInstance := c.Mode != "bursts"
	total := 0
	switch c.Mode {
	case "slow_each":
		if len(c.GapsMs) != 1 {
			return fmt.Errorf("harness: malformed case %+v", c)
		}
		shots, g := c.Bursts[0], c.GapsMs[0]
		// const: operations at 0, gap, 2*gap, ...; ops*duration = shots + 1/2
		rps = append(rps, map[string]any{"type": "const", "ops": 1000 / float64(g),
			"duration": fmt.Sprintf("%dms", g*shots+g/2)})
		total = shots * c.Instances
	default:
		if len(c.GapsMs) != len(c.Bursts)-1 {
			return fmt.Errorf("harness: malformed case %+v", c)
		}
		for i, k := range c.Bursts {
			if i > 0 {
				rps = append(rps, map[string]any{"type": "const", "ops": 0, "duration": fmt.Sprintf("%dms", c.GapsMs[i-1])})
			}
			rps = append(rps, map[string]any{"type": "once", "times": k})
			total += k
		}
		if perInstance {
			total *= c.Instances
		}
	}
	var uris []any
	for i := 0; i < c.URIs; i++ {
		uris = append(uris, fmt.Sprintf("/gap/%d", i))
	}
	gun := map[string]any{"type": c.Gun, "target": addr, "ssl": c.SSL}
	set := func(k, v string) {
		if v != "" {
			gun[k] = v
		}
	}
	set("idle-conn-timeout", c.IdleConnTimeout)
	set("tls-handshake-timeout", c.TLSHandshakeTO)
	set("expect-continue-timeout", c.ExpectContinueTO)
	set("response-header-timeout", c.ResponseHeaderTO)
	if c.DialTimeout != "" {
		gun["dial"] = map[string]any{"timeout": c.DialTimeout}
	}
	if c.MaxIdleConnsPerHo > 0 {
		gun["max-idle-conns-per-host"] = c.MaxIdleConnsPerHo
	}
	if c.NoKeep {
		gun["disable-keep-alives"] = true
	}
	pool := map[string]any{
		"id": "p", "gun": gun,
		"ammo":    map[string]any{"type": "uri", "uris": uris}, // unlimited passes: the profile ends the run
		"result":  map[string]any{"type": "discard"},
		"rps":     rps,
		"startup": map[string]any{"type": "once", "times": c.Instances},
	}
	if perInstance {
		pool["rps-per-instance"] = true
	}
	var conf engine.Config
	if err := pand.Decode(map[string]any{"pools": []any{pool}}, &conf); err != nil {
		return fmt.Errorf("valid pool config rejected: %v", err)
	}
	eng := engine.New(pand.NopLog(), pand.Metrics(), conf)
	var runErr error
	ok, stacks := vf.Deadline(10*time.Minute, func() { runErr = eng.Run(context.Background()) })
	if !ok {
		return fmt.Errorf("run did not finish in 10 minutes\n%s", stacks)
	}
	if runErr != nil {
		return fmt.Errorf("run failed: %v", runErr)
	}
	eng.Wait()
	recs := records()
	if len(recs) != total {
		return fmt.Errorf("%d requests reached the target, the load profile holds %d operations (%+v)", len(recs), total, c)
	}
	for _, r := range recs {
		if r.TLS != c.SSL {
			return fmt.Errorf("request arrived with TLS=%v but ssl=%v", r.TLS, c.SSL)
		}
		if (c.Gun == "http2") != (r.Proto == "HTTP/2.0") {
			return fmt.Errorf("request arrived as %s, gun type %s", r.Proto, c.Gun)
		}
	}
	// what the connections carried, and after how long an idle time
	byConn := map[int64][]time.Time{}
	for _, r := range recs {
		byConn[r.ConnID] = append(byConn[r.ConnID], r.At)
	}
	var longestIdleReused time.Duration // longest time between two successive requests on one connection
	for _, ts := range byConn {
		sort.Slice(ts, func(i, j int) bool { return ts[i].Before(ts[j]) })
		for i := 1; i < len(ts); i++ {
			if d := ts[i].Sub(ts[i-1]); d > longestIdleReused {
				longestIdleReused = d
			}
		}
	}
	o.Note("connections_with_requests", len(byConn))
	o.Note("connections_set_up", connsOpen())
	o.Note("longest_pause_on_one_connection_ms", longestIdleReused.Milliseconds())
	if c.NoKeep {
		if len(byConn) != len(recs) || connsOpen() != len(recs) {
			return fmt.Errorf("%s gun, keep-alives disabled: %d requests arrived over %d connections (%d set up), expected one connection per request",
				c.Gun, len(recs), len(byConn), connsOpen())
		}
	} else {
		if len(byConn) > c.Instances {
			return fmt.Errorf("%s gun, keep-alives enabled, %d instances that pause %v ms between their requests (idle-conn-timeout %q, default 90s): the target, which closed no connection, saw %d connections carrying the %d requests",
				c.Gun, c.Instances, c.GapsMs, c.IdleConnTimeout, len(byConn), len(recs))
		}
		if n := connsOpen(); n > c.Instances {
			return fmt.Errorf("%s gun, keep-alives enabled, %d instances that pause %v ms between their requests (idle-conn-timeout %q, default 90s): the target, which closed no connection, saw %d connections being set up for %d requests",
				c.Gun, c.Instances, c.GapsMs, c.IdleConnTimeout, n, len(recs))
		}
	}
	// classes. The pause is judged by what the target saw: two successive requests on ONE connection more than a
	// second apart (the answer in between takes milliseconds).
	reusedAfterPause := !c.NoKeep && longestIdleReused >= 1050*time.Millisecond
	o.Class("gun_"+c.Gun, "mode_"+c.Mode, "answer_"+c.Answer)
	o.ClassIf(c.SSL, "ssl")
	o.ClassIf(c.NoKeep, "keep_alive_off")
	o.ClassIf(c.Instances >= 2, "instances_ge_2")
	o.ClassIf(reusedAfterPause, "connection_reused_after_pause_gt_1s")
	o.ClassIf(reusedAfterPause && longestIdleReused >= 1800*time.Millisecond, "connection_reused_after_pause_gt_1800ms")
	o.ClassIf(reusedAfterPause && c.IdleConnTimeout == "", "reused_after_pause_idle_conn_timeout_default")
	o.ClassIf(reusedAfterPause && c.IdleConnTimeout != "", "reused_after_pause_idle_conn_timeout_written")
	o.ClassIf(reusedAfterPause && c.SSL, "reused_after_pause_ssl")
	o.ClassIf(reusedAfterPause && c.Gun == "http2", "reused_after_pause_http2")
	o.ClassIf(reusedAfterPause && c.Gun == "connect", "reused_after_pause_connect")
	o.ClassIf(reusedAfterPause && c.ExpectContinueTO == "" && c.TLSHandshakeTO == "", "reused_after_pause_short_timeouts_default")
	if reusedAfterPause {
		o.NonTrivial()
	}
	return nil
}

// The case count per process is fixed here (vf.Batch), all cases of a process run at the same time: quick 4, thorough 16.
func TestKeepAliveGaps(t *testing.T) {
	pand.Init()
	r := vf.Start(t, "C09")
	n := r.Pick(4, 16)
	vf.Batch(r, n, n, genGapCase, vf.LoadTolerant(25*time.Millisecond, checkGap))
}
