// C09 — HTTP wire fidelity: the request reaching the target equals ammo plus gun config.
//
// Oracle: the generated request model (internal/ammogen) merged with the provider's
// `headers` option by the documented rule (ammo headers have priority), compared
// with what an in-process recording server received.
package c09

import (
	"bytes"
	"context"
	"errors"
	"fmt"
	"io"
	"net"
	"net/textproto"
	"os"
	"sort"
	"strings"
	"testing"
	"time"

	ag "verif/harness/internal/ammogen"
	"verif/harness/internal/pand"
	"verif/harness/internal/target"
	"verif/harness/internal/vf"

	"github.com/yandex/pandora/core/engine"
	"go.uber.org/zap"
	"go.uber.org/zap/zapcore"
	"pgregory.net/rapid"
)

type Case struct {
	File      ag.File `json:"file"`
	Headers   []ag.KV `json:"config_headers"`
	SSL       bool    `json:"ssl"`
	NoKeep    bool    `json:"disable_keep_alives"`
	Instances int     `json:"instances"`
	Passes    int     `json:"passes"`
	Answer    string  `json:"target_answer"` // small | empty | 5k | 100k | chunked | chunked_big
	Connect   bool    `json:"connect_gun"`   // gun type connect (CONNECT tunnel to the target first) instead of http
	HTTP2     bool    `json:"http2_gun"`     // gun type http2 against a TLS target that negotiates h2 (needs ssl: true)
	// the gun's target is written as a DNS name ("localhost:<port>", the docs' `target: [hostname]:443`) instead of the
	// listener's IP literal; http and http2 guns only
	ByName bool `json:"target_by_name,omitempty"`
	// dial.dns-cache: false (default true: the name is resolved once per pool when the gun factory is built)
	NoDNSCache bool `json:"dns_cache_off,omitempty"`
	// Grow: entries whose body is made Size bytes long when the case is run (File holds the drawn, short body; growFile
	// writes the long one): sizes around and above 64 KiB, as uploads have them. Entry indexes File.Items.
	Grow []Grow `json:"grow_body,omitempty"`
	// What the run observes on the side - none of it is part of what goes on the wire:
	// AnswLog is the gun's `answlog` section: "" = not written (disabled), "default" = `enabled: true` and nothing else
	// (the filter is then the documented default `error`: only 5xx answers are logged, i.e. nothing here), or enabled
	// with that filter (all | warning | error).
	AnswLog string `json:"answlog,omitempty"`
	// TraceDump / Trace: the gun's `httptrace` section, `dump: true` ("calculate response bytes") and `trace: true`
	// ("calculate different request stages").
	TraceDump bool `json:"httptrace_dump,omitempty"`
	Trace     bool `json:"httptrace_trace,omitempty"`
	// LogLevel: the level of the logger the engine, and through Bind every gun, gets ("" drops everything; `log: level:
	// debug` makes the guns log every request and answer with their bodies).
	LogLevel string `json:"log_level,omitempty"`
}

type Grow struct {
	Entry int `json:"item"`
	Size  int `json:"size"`
}

// body sizes around the 64 KiB mark and well above it
var grownSizes = []int{65537, 65536, 100000, 131072, 200000, 65535, 70000, 131073, 300000, 66000, 262144}

// growable: the items of the file whose entry may carry a body (as ammogen draws them: every uripost and jsonline
// entry, raw entries of every method but GET and HEAD).
func growable(f ag.File) []int {
	var out []int
	if f.Format == "uri" {
		return nil
	}
	for i, it := range f.Items {
		if it.Entry == nil || (f.Format == "raw" && (it.Entry.Method == "GET" || it.Entry.Method == "HEAD")) {
			continue
		}
		out = append(out, i)
	}
	return out
}

// growFile returns the file of the case with the bodies of c.Grow written out: the drawn body, then numbered lines
// ("<offset in hex>\n", so that a missing, repeated or displaced piece shows), cut at Size bytes. The drawn body is at
// most 20 KiB and, for jsonline, valid UTF-8; the lines are ASCII. Entries are copied, c.File is left as drawn.
func growFile(c Case) (ag.File, error) {
	if len(c.Grow) == 0 {
		return c.File, nil
	}
	f := c.File
	f.Items = append([]ag.Item(nil), c.File.Items...)
	for _, g := range c.Grow {
		if g.Entry < 0 || g.Entry >= len(f.Items) || f.Items[g.Entry].Entry == nil || g.Size < 1 {
			return f, fmt.Errorf("harness: grow_body names item %d (size %d) of a file of %d items", g.Entry, g.Size, len(f.Items))
		}
		e := *f.Items[g.Entry].Entry
		var b bytes.Buffer
		b.Grow(g.Size + 16)
		b.Write(e.Body)
		for b.Len() < g.Size {
			fmt.Fprintf(&b, "%07x\n", b.Len())
		}
		e.Body = b.Bytes()[:g.Size]
		f.Items[g.Entry] = ag.Item{Entry: &e}
	}
	return f, nil
}

// show renders bytes for a message: quoted in full when short, else the beginning and the length.
func show(b []byte) string {
	if len(b) <= 2048 {
		return fmt.Sprintf("%q", b)
	}
	return fmt.Sprintf("%q... (%d bytes)", b[:160], len(b))
}

// bodyDiff says where two bodies part.
func bodyDiff(got, want []byte) string {
	if len(got) <= 2048 && len(want) <= 2048 {
		return fmt.Sprintf("body %q, ammo says %q", got, want)
	}
	i := 0
	for i < len(got) && i < len(want) && got[i] == want[i] {
		i++
	}
	return fmt.Sprintf("body of %d bytes arrived, the ammo's body has %d bytes; equal up to offset %d (arrived there: %s; ammo there: %s)",
		len(got), len(want), i, show(got[i:min(len(got), i+64)]), show(want[i:min(len(want), i+64)]))
}

// engineLog is the logger of the given level; what it is handed is encoded (as a user's logger does) and dropped.
func engineLog(level string) *zap.Logger {
	var lvl zapcore.Level
	switch level {
	case "debug":
		lvl = zapcore.DebugLevel
	case "info":
		lvl = zapcore.InfoLevel
	default:
		return pand.NopLog()
	}
	return zap.New(zapcore.NewCore(zapcore.NewConsoleEncoder(zap.NewDevelopmentEncoderConfig()), zapcore.AddSync(io.Discard), lvl))
}

var cfgHeaderNames = []string{"X-Test", "Accept", "User-Agent", "Cookie", "X-Cfg-Only", "Authorization", "X-Other-Cfg", "Referer"}

func genCase(t *rapid.T) Case {
	format := rapid.SampledFrom([]string{"uri", "uripost", "raw", "jsonline"}).Draw(t, "format")
	c := Case{File: ag.Gen(t, format, ag.GenOpts{MinEntries: 1, MaxEntries: 6, AllowBig: true, RawTail: true})}
	// (RawTail: in one raw file in two, entries whose size line also counts a line break written after the request - the
	// request that must arrive is still the header block and the Content-Length bytes that follow it)
	// configured headers: unique names; prefer names the file also defines
	var fileNames []string
	for _, w := range c.File.Expected() {
		for k := range w.Headers {
			fileNames = append(fileNames, k)
		}
	}
	sort.Strings(fileNames)
	n := rapid.IntRange(0, 4).Draw(t, "cfgHeaders")
	seen := map[string]bool{}
	for i := 0; i < n; i++ {
		var k string
		if len(fileNames) > 0 && rapid.Bool().Draw(t, "overlap") {
			k = rapid.SampledFrom(fileNames).Draw(t, "cfgKeyFile")
		} else {
			k = rapid.SampledFrom(append(cfgHeaderNames, "Host")).Draw(t, "cfgKey")
		}
		ck := textproto.CanonicalMIMEHeaderKey(k)
		if seen[ck] {
			continue
		}
		seen[ck] = true
		v := "cfg-" + fmt.Sprint(rapid.IntRange(0, 999).Draw(t, "cfgVal"))
		if ck == "Host" {
			v = "cfg" + fmt.Sprint(rapid.IntRange(0, 99).Draw(t, "cfgHost")) + ".example.net"
		}
		c.Headers = append(c.Headers, ag.KV{K: k, V: v})
	}
	c.SSL = rapid.Bool().Draw(t, "ssl")
	c.NoKeep = rapid.IntRange(0, 3).Draw(t, "noKeepAlive") == 0
	c.Instances = rapid.IntRange(1, 4).Draw(t, "instances")
	c.Passes = rapid.IntRange(1, 2).Draw(t, "passes")
	c.Connect = !c.SSL && rapid.IntRange(0, 3).Draw(t, "connectGun") == 0
	// what the target answers: the gun must drain any answer to keep its connection
	c.Answer = rapid.SampledFrom([]string{"small", "small", "empty", "5k", "100k", "chunked", "chunked_big"}).Draw(t, "answer")
	// third gun kind: http2 (only over TLS; "HTTP/2.0 over TCP is not supported"). The keep-alive clauses hold for it
	// as for the others, and are as likely on as off here: every connection costs a TLS handshake, which is what a
	// test with keep-alives disabled wants to measure.
	if c.SSL && rapid.IntRange(0, 2).Draw(t, "http2Gun") == 0 {
		c.HTTP2 = true
		c.NoKeep = rapid.Bool().Draw(t, "http2NoKeepAlive")
	}
	// how the user wrote the target: an IP literal or a host name. "The target's host" of the Host clause is what the
	// config says, whatever address the name resolves to. (Not for the connect gun: it has no documentation, and what
	// it names in its CONNECT line and in the tunnelled requests is the address it dials.)
	if !c.Connect && rapid.IntRange(0, 2).Draw(t, "targetByName") == 0 {
		c.ByName = true
		c.NoDNSCache = rapid.IntRange(0, 3).Draw(t, "dnsCacheOff") == 0
	}
	// large bodies (added after seeded defect C09/m16): in one file in three of the formats that carry bodies - one raw
	// file in two: its requests are parsed from request text and are the only ones that cannot produce their body a
	// second time (no http.Request.GetBody) -, one entry (two in one case of four) gets a body around or above 64 KiB
	growOdds := 2
	if format == "raw" {
		growOdds = 1
	}
	if el := growable(c.File); len(el) > 0 && rapid.IntRange(0, growOdds).Draw(t, "growBody") == 0 {
		n := 1
		if len(el) > 1 && rapid.IntRange(0, 3).Draw(t, "growTwo") == 0 {
			n = 2
		}
		first := rapid.IntRange(0, len(el)-1).Draw(t, "growEntry")
		for k := 0; k < n; k++ {
			size := rapid.SampledFrom(grownSizes).Draw(t, "growSize")
			if rapid.IntRange(0, 3).Draw(t, "growJitter") == 0 {
				size += rapid.IntRange(-3, 3000).Draw(t, "growBy")
			}
			c.Grow = append(c.Grow, Grow{Entry: el[(first+k)%len(el)], Size: size})
		}
	}
	// observers of the run: every second case enables the answer log, one in three each of the httptrace options, one
	// in two runs with a logger that takes info or debug messages
	if rapid.Bool().Draw(t, "answlogEnabled") {
		c.AnswLog = rapid.SampledFrom([]string{"default", "all", "error", "warning"}).Draw(t, "answlog")
	}
	c.TraceDump = rapid.IntRange(0, 2).Draw(t, "httptraceDump") == 0
	c.Trace = rapid.IntRange(0, 2).Draw(t, "httptraceTrace") == 0
	c.LogLevel = rapid.SampledFrom([]string{"", "debug", "", "info"}).Draw(t, "logLevel")
	return c
}

// nameFor returns "localhost:<port>" for a listener on a loopback address when the name localhost resolves to that
// address on this machine (pandora's own Test_preResolveTargetAddr assumes the same), "" otherwise.
func nameFor(addr string) string {
	host, port, err := net.SplitHostPort(addr)
	if err != nil {
		return ""
	}
	ctx, cancel := context.WithTimeout(context.Background(), 5*time.Second)
	defer cancel()
	ips, err := net.DefaultResolver.LookupHost(ctx, "localhost")
	if err != nil {
		return ""
	}
	for _, ip := range ips {
		if ip == host {
			return net.JoinHostPort("localhost", port)
		}
	}
	return ""
}

type wantReq struct {
	ag.Want
	hostFromTarget bool
}

func expected(c Case) []wantReq {
	var out []wantReq
	for _, w := range c.File.Expected() {
		wr := wantReq{Want: w}
		hdr := map[string]string{}
		for k, v := range w.Headers {
			hdr[k] = v
		}
		for _, h := range c.Headers {
			ck := textproto.CanonicalMIMEHeaderKey(h.K)
			if ck == "Host" {
				if wr.Host == "" {
					wr.Host = h.V
				}
				continue
			}
			if _, ok := hdr[ck]; !ok {
				hdr[ck] = h.V
			}
		}
		wr.Headers = hdr
		if wr.Host == "" {
			wr.hostFromTarget = true
		}
		out = append(out, wr)
	}
	return out
}

var transportAdds = map[string]bool{"User-Agent": true, "Content-Length": true, "Accept-Encoding": true, "Connection": true, "Transfer-Encoding": true}

func matches(w wantReq, r target.Rec, targetAddr string, h2 bool) error {
	if r.Method != w.Method {
		return fmt.Errorf("method %q, ammo says %q", r.Method, w.Method)
	}
	if r.RequestURI != w.URI {
		return fmt.Errorf("request URI %q, ammo says %q", r.RequestURI, w.URI)
	}
	if !bytes.Equal(r.Body, w.Body) && !(len(r.Body) == 0 && len(w.Body) == 0) {
		return fmt.Errorf("%s", bodyDiff(r.Body, w.Body))
	}
	if w.hostFromTarget {
		th := targetAddr[:strings.LastIndex(targetAddr, ":")]
		if r.Host != th && r.Host != targetAddr {
			return fmt.Errorf("Host %q, expected the target's host %q (ammo gives none)", r.Host, th)
		}
	} else if r.Host != w.Host {
		return fmt.Errorf("Host %q, ammo/config says %q", r.Host, w.Host)
	}
	for k, v := range w.Headers {
		got := r.Header[k]
		if h2 && k == "Cookie" && v == "" && len(got) == 0 {
			// HTTP/2 carries Cookie as one field per cookie-pair (RFC 9113 8.2.3): a Cookie header holding no pair
			// has no representation there
			continue
		}
		if len(got) != 1 || got[0] != v {
			return fmt.Errorf("header %s = %q, expected %q", k, got, v)
		}
	}
	for k := range r.Header {
		if _, ok := w.Headers[k]; !ok && !transportAdds[k] {
			return fmt.Errorf("unexpected header %s: %q", k, r.Header[k])
		}
	}
	return nil
}

func check(c Case, o *vf.Obs) error {
	if c.HTTP2 && (!c.SSL || c.Connect) {
		return fmt.Errorf("harness: the http2 gun kind needs ssl and excludes the connect gun: %+v", c)
	}
	// the file as it is written: entries of c.Grow with their long bodies (c is this call's copy)
	grown, err := growFile(c)
	if err != nil {
		return err
	}
	c.File = grown
	rendered := c.File.Render()
	answer := func(seq int, r *target.Rec) target.Resp {
		switch c.Answer {
		case "empty":
			return target.Resp{Status: 200}
		case "5k":
			return target.Resp{Status: 200, Body: bytes.Repeat([]byte("0123456789"), 500)}
		case "100k":
			return target.Resp{Status: 200, Body: bytes.Repeat([]byte("0123456789abcdef"), 6400)}
		case "chunked":
			return target.Resp{Status: 200, Chunks: [][]byte{[]byte("first,"), []byte("second,"), []byte("third")}}
		case "chunked_big":
			return target.Resp{Status: 200, Chunks: [][]byte{bytes.Repeat([]byte("a"), 3000), bytes.Repeat([]byte("b"), 9000), []byte("end")}}
		}
		return target.Resp{Status: 200, Body: []byte("ok")}
	}
	// the recording target: HTTP/1.1 (plain or TLS, CONNECT-capable) or, for the http2 gun, TLS negotiating h2
	var (
		addr      string
		records   func() []target.Rec
		connects  func() int64
		connsOpen func() int // connections the target saw being set up since Reset, with or without a request on them
	)
	if c.HTTP2 {
		tg, mu := target.SharedH2(true)
		mu.Lock()
		defer mu.Unlock()
		tg.Reset(nil, func(seq int, r *target.Rec, _ int) target.H2Resp { return target.H2Resp{Resp: answer(seq, r)} })
		defer tg.Reset(nil, nil)
		addr, records = tg.Addr(), tg.Records
		connects = func() int64 { return 0 }
		connsOpen = func() int { return len(tg.Handshakes()) } // one TLS handshake per accepted connection
	} else {
		tg, mu := target.Shared(c.SSL)
		mu.Lock()
		defer mu.Unlock()
		tg.Reset(answer)
		addr, records, connects = tg.Addr(), tg.Records, tg.Connects
		connsOpen = func() int { return int(tg.ConnsAccepted()) }
	}
	// the target as the config names it
	confTarget, byName := addr, false
	if c.ByName {
		if c.Connect {
			return fmt.Errorf("harness: target by name is not generated for the connect gun: %+v", c)
		}
		if n := nameFor(addr); n != "" {
			confTarget, byName = n, true
		} else {
			o.Class("target_by_name_unavailable_localhost_does_not_resolve_to_listener")
		}
	}
	want := expected(c)
	E := len(want)
	total := E * c.Passes

	ammo := map[string]any{"type": ag.ProviderType(c.File.Format), "passes": c.Passes}
	if c.File.Format == "uri" && c.File.Layout.Inline {
		ammo["uris"] = c.File.Lines()
	} else {
		name := pand.WriteFile("c09", ".ammo", rendered)
		defer pand.Remove(name)
		ammo["file"] = name
	}
	if c.File.Format == "jsonline" && len(rendered) > 60000 {
		// "Maximum number of byte in jsonline ammo. Default is bufio.MaxScanTokenSize" (the provider's config struct):
		// a user with entries beyond 64 KiB raises it
		ammo["maxammosize"] = len(rendered) + 4096
	}
	if len(c.Headers) > 0 {
		var hs []any
		for _, h := range c.Headers {
			hs = append(hs, fmt.Sprintf("[%s: %s]", h.K, h.V))
		}
		ammo["headers"] = hs
	}
	// connection set-up timeouts (defaults: 3 s dial, 1 s TLS handshake) are not this property's subject: far out of
	// the way, so that a starved machine does not turn into requests the gun gave up on
	dial := map[string]any{"timeout": "30s"}
	if c.ByName && c.NoDNSCache {
		dial["dns-cache"] = false
	}
	gun := map[string]any{"type": "http", "target": confTarget, "ssl": c.SSL,
		"tls-handshake-timeout": "30s", "dial": dial}
	if c.Connect {
		gun["type"] = "connect"
	}
	if c.HTTP2 {
		gun["type"] = "http2"
	}
	if c.NoKeep {
		gun["disable-keep-alives"] = true
	}
	// the observers (docs/eng/http-generator.md: answlog {enabled, path, filter - "Default: error"}, httptrace {dump, trace})
	if c.AnswLog != "" {
		// the answ log is a file of the real file system (lib/answlog: os.Create)
		af, err := os.CreateTemp("", "c09-answ-*.log")
		if err != nil {
			return fmt.Errorf("harness: %v", err)
		}
		_ = af.Close()
		defer os.Remove(af.Name())
		al := map[string]any{"enabled": true, "path": af.Name()}
		if c.AnswLog != "default" {
			al["filter"] = c.AnswLog
		}
		gun["answlog"] = al
	}
	if c.TraceDump || c.Trace {
		gun["httptrace"] = map[string]any{"dump": c.TraceDump, "trace": c.Trace}
	}
	observers := fmt.Sprintf("answlog %q, httptrace dump=%v trace=%v, log level %q", c.AnswLog, c.TraceDump, c.Trace, c.LogLevel)
	pool := map[string]any{
		"id": "p", "gun": gun, "ammo": ammo,
		"result":  map[string]any{"type": "discard"},
		"rps":     map[string]any{"type": "once", "times": total + 5},
		"startup": map[string]any{"type": "once", "times": c.Instances},
	}
	var conf engine.Config
	if err := pand.Decode(map[string]any{"pools": []any{pool}}, &conf); err != nil {
		return fmt.Errorf("valid pool config rejected: %v", err)
	}
	eng := engine.New(engineLog(c.LogLevel), pand.Metrics(), conf)
	var runErr error
	ok, stacks := vf.Deadline(30*time.Second, func() { runErr = eng.Run(context.Background()) })
	if !ok {
		return fmt.Errorf("run did not finish in 30s\n%s", stacks)
	}
	if runErr != nil {
		return fmt.Errorf("run failed: %v", runErr)
	}
	eng.Wait()
	recs := records()
	if len(recs) != total {
		return fmt.Errorf("%d requests reached the target, ammo holds %d entries x %d passes = %d (%s)\n--- file ---\n%s", len(recs), E, c.Passes, total, observers, show(rendered))
	}
	// multiset equality (sequence equality with one instance)
	used := make([]bool, len(recs))
	for k := 0; k < total; k++ {
		w := want[k%E]
		if c.Instances == 1 {
			if err := matches(w, recs[k], confTarget, c.HTTP2); err != nil {
				return fmt.Errorf("request %d (entry %d): %v\n%v gun, %s\nconfig headers %v\n--- file (%s) ---\n%s", k, k%E, err, gun["type"], observers, c.Headers, c.File.Format, show(rendered))
			}
			continue
		}
		found := false
		var lastErr error
		for i, r := range recs {
			if used[i] {
				continue
			}
			if err := matches(w, r, confTarget, c.HTTP2); err == nil {
				used[i] = true
				found = true
				break
			} else {
				lastErr = err
			}
		}
		if !found {
			return fmt.Errorf("no received request matches entry %d of the ammo (closest mismatch: %v)\n%v gun, %s\nconfig headers %v\n--- file (%s) ---\n%s", k%E, lastErr, gun["type"], observers, c.Headers, c.File.Format, show(rendered))
		}
	}
	for _, r := range recs {
		if r.TLS != c.SSL {
			return fmt.Errorf("request arrived with TLS=%v but ssl=%v", r.TLS, c.SSL)
		}
		if c.HTTP2 != (r.Proto == "HTTP/2.0") {
			return fmt.Errorf("request arrived as %s, gun type %v", r.Proto, gun["type"])
		}
	}
	conns := map[int64]bool{}
	for _, r := range recs {
		conns[r.ConnID] = true
	}
	if c.NoKeep {
		if len(conns) != len(recs) {
			return fmt.Errorf("keep-alives disabled: %d requests arrived over %d connections, expected one connection per request", len(recs), len(conns))
		}
	} else if len(conns) > c.Instances {
		return &extraConnErr{fmt.Sprintf("keep-alives enabled, %d instances, but the target saw %d connections for %d requests", c.Instances, len(conns), len(recs))}
	}
	// the same two clauses on what the target's accept / handshake counter shows (also connections that carried
	// no request)
	// With a target given by name and dial.dns-cache on (the default), the pool resolves the name once, before any
	// instance exists, by connecting to it (netutil.LookupReachable: "tries to resolve addr via connecting to it") and
	// closes that connection without a request: it is no instance's connection, the plain accept counter sees it (the
	// handshake counter of the h2 target does not). Every other case is judged exactly as before.
	probe := 0
	if byName && !c.NoDNSCache && !c.HTTP2 {
		probe = 1
	}
	if n := connsOpen(); c.NoKeep && (n < len(recs) || n > len(recs)+probe) {
		return fmt.Errorf("%v gun, keep-alives disabled: the target saw %d connections being set up for %d requests (%d of them the pool's DNS pre-resolve), expected one connection per request", gun["type"], n, len(recs), probe)
	} else if !c.NoKeep && n > c.Instances+probe {
		return &extraConnErr{fmt.Sprintf("%v gun, keep-alives enabled, %d instances, but the target saw %d connections being set up for %d requests (%d of them the pool's DNS pre-resolve)", gun["type"], c.Instances, n, len(recs), probe)}
	}
	// classes
	overlap, hostAmmo := false, false
	fileHas := map[string]bool{}
	for _, w := range c.File.Expected() {
		for k := range w.Headers {
			fileHas[k] = true
		}
		if w.Host != "" {
			hostAmmo = true
		}
	}
	for _, h := range c.Headers {
		if fileHas[textproto.CanonicalMIMEHeaderKey(h.K)] {
			overlap = true
		}
	}
	o.Class("format_" + c.File.Format)
	o.ClassIf(c.File.Big, "file_larger_than_reader_buffer")
	// raw entries whose sized block goes on after the request text
	tailBody, tailNoBody, tailAndExact, tailBig := false, false, false, false
	if c.File.Format == "raw" {
		exactBody := false
		for i, it := range c.File.Items {
			if it.Entry == nil {
				continue
			}
			tail := c.File.Layout.RawTailOf(i)
			switch {
			case tail != "" && len(it.Entry.Body) > 0:
				tailBody = true
				tailBig = tailBig || len(it.Entry.Body) > 4096
			case tail != "":
				tailNoBody = true
			case len(it.Entry.Body) > 0:
				exactBody = true
			}
		}
		tailAndExact = tailBody && exactBody
	}
	o.ClassIf(tailBody, "raw_sized_block_extends_past_body")
	o.ClassIf(tailNoBody, "raw_sized_block_extends_past_bodiless_request")
	o.ClassIf(tailAndExact, "raw_file_mixes_exact_and_extended_blocks_with_body")
	o.ClassIf(tailBody && c.Passes > 1, "raw_sized_block_extends_past_body_two_passes")
	o.ClassIf(tailBig, "raw_sized_block_extends_past_body_gt_4k")
	o.Class("answer_" + c.Answer)
	// body sizes x observers of the run (added after seeded defect C09/m16)
	maxBody, anyBody := 0, false
	for _, w := range want {
		maxBody = max(maxBody, len(w.Body))
		anyBody = anyBody || len(w.Body) > 0
	}
	around64k := false
	for _, w := range want {
		around64k = around64k || (len(w.Body) >= 65535 && len(w.Body) <= 65537)
	}
	gunKind := fmt.Sprint(gun["type"])
	gt64k := maxBody > 65536
	answlog := c.AnswLog != ""
	observed := answlog || c.TraceDump || c.Trace || c.LogLevel != ""
	if gt64k {
		o.Class("body_gt_64k", "body_gt_64k_"+c.File.Format, "body_gt_64k_"+gunKind+"_gun")
	}
	o.ClassIf(around64k, "body_64k_plus_minus_1")
	o.ClassIf(maxBody >= 100000, "body_ge_100k")
	o.ClassIf(len(c.Grow) > 0 && c.Passes > 1, "body_around_or_gt_64k_two_passes")
	if answlog {
		o.Class("answlog_enabled", "answlog_filter_"+c.AnswLog, "answlog_"+c.File.Format, "answlog_"+gunKind+"_gun")
	}
	o.ClassIf(answlog && anyBody, "answlog_entry_with_body")
	o.ClassIf(c.TraceDump, "httptrace_dump")
	o.ClassIf(c.Trace, "httptrace_trace")
	o.ClassIf(c.TraceDump && anyBody, "httptrace_dump_entry_with_body")
	o.ClassIf(c.LogLevel != "", "log_level_"+c.LogLevel)
	o.ClassIf(c.LogLevel == "debug" && anyBody, "log_level_debug_entry_with_body")
	o.ClassIf(!observed, "no_observer")
	if gt64k && answlog {
		o.Class("body_gt_64k_answlog", "body_gt_64k_answlog_"+c.File.Format, "body_gt_64k_answlog_"+gunKind+"_gun")
	}
	o.ClassIf(gt64k && answlog && (c.AnswLog == "default" || c.AnswLog == "error"), "body_gt_64k_answlog_nothing_logged")
	o.ClassIf(gt64k && c.AnswLog == "all", "body_gt_64k_answlog_all")
	o.ClassIf(gt64k && c.TraceDump, "body_gt_64k_httptrace_dump")
	o.ClassIf(gt64k && c.Trace, "body_gt_64k_httptrace_trace")
	o.ClassIf(gt64k && c.LogLevel == "debug", "body_gt_64k_debug_log")
	o.ClassIf(gt64k && !observed, "body_gt_64k_no_observer")
	o.ClassIf(gt64k && c.NoKeep, "body_gt_64k_keep_alive_off")
	if gt64k && observed {
		o.NonTrivial()
	}
	o.ClassIf(c.Connect, "connect_gun")
	o.ClassIf(c.HTTP2, "http2_gun")
	o.ClassIf(c.HTTP2 && c.NoKeep && len(recs) >= 2, "http2_keep_alive_off_ge_2_requests")
	o.ClassIf(c.HTTP2 && !c.NoKeep && len(recs) > c.Instances, "http2_keep_alive_more_requests_than_instances")
	o.ClassIf(!c.HTTP2 && !c.Connect, "http_gun")
	if c.Connect && connects() == 0 {
		return fmt.Errorf("connect gun: requests arrived but no CONNECT tunnel was opened")
	}
	o.ClassIf(!c.NoKeep && (c.Answer == "100k" || c.Answer == "chunked" || c.Answer == "chunked_big" || c.Answer == "5k"), "keep_alive_with_multi_read_answer")
	o.ClassIf(overlap, "config_header_overlaps_ammo")
	o.ClassIf(overlap, "overlap_"+c.File.Format)
	o.ClassIf(hostAmmo, "host_from_ammo")
	hostDefaulted := false
	for _, w := range want {
		hostDefaulted = hostDefaulted || w.hostFromTarget
	}
	o.ClassIf(byName, "target_by_name")
	o.ClassIf(byName && hostDefaulted, "target_by_name_host_defaulted")
	o.ClassIf(byName && hostDefaulted && c.SSL, "target_by_name_host_defaulted_ssl")
	o.ClassIf(byName && hostDefaulted && c.HTTP2, "target_by_name_host_defaulted_http2")
	o.ClassIf(byName && c.NoDNSCache, "target_by_name_dns_cache_off")
	o.ClassIf(!byName && hostDefaulted, "target_ip_literal_host_defaulted")
	o.ClassIf(c.SSL, "ssl")
	o.ClassIf(c.NoKeep, "keep_alive_off")
	o.ClassIf(c.Instances >= 2, "instances_ge_2")
	if overlap || hostAmmo || c.Instances >= 2 {
		o.NonTrivial()
	}
	return nil
}

// extraConnErr: with keep-alives enabled the target saw more connections than there are instances.
type extraConnErr struct{ msg string }

func (e *extraConnErr) Error() string { return e.msg }

// reproducible: a surplus connection under keep-alives must show again when the same case is run again.
// Code that loses its connections (an answer that is not drained, a client per shot, keep-alives switched off, idle
// connections closed between shots) loses them on every run of the case. net/http's transport, on a machine that keeps
// its goroutines waiting, dials a second connection by itself: when the next request starts before the read loop has
// handed the connection back (it waits up to 50 ms for the write loop to report), a dial is started next to the wait
// for the idle connection, and the target sees it whether it wins or not. vf.LoadTolerant's probe (timer wake-ups)
// does not see every such delay. So this one failure kind - and no other: counts, bodies, headers, hosts and the
// one-connection-per-request clause are final at once - is re-evaluated twice and reported when it shows again;
// a surplus connection seen once in three runs is counted inconclusive_machine_load (never a pass of the oracle; the
// driver turns a high share of such cases into an inconclusive run).
func reproducible(prop func(Case, *vf.Obs) error) func(Case, *vf.Obs) error {
	return func(c Case, o *vf.Obs) error {
		err := prop(c, o)
		var first *extraConnErr
		if !errors.As(err, &first) {
			return err
		}
		for i := 1; i <= 2; i++ {
			o2 := &vf.Obs{}
			if err2 := prop(c, o2); err2 != nil {
				*o = *o2
				var again *extraConnErr
				if errors.As(err2, &again) {
					return fmt.Errorf("%v (run %d of the same case: %v)", err, i+1, err2)
				}
				return err2
			}
		}
		*o = vf.Obs{}
		o.Class("inconclusive_machine_load", "keep_alive_surplus_connection_not_reproduced")
		o.Note("inconclusive", err.Error())
		return nil
	}
}

func TestWire(t *testing.T) {
	pand.Init()
	r := vf.Start(t, "C09")
	// net/http has timeouts of its own that the gun cannot configure (a connection is not reused when its write loop
	// has not reported within 50 ms of the answer; a new one is dialled): a failure seen only while the machine kept
	// goroutines waiting is re-evaluated, and counted inconclusive - never as a pass - if it never fails undisturbed
	vf.Check(r, genCase, vf.LoadTolerant(25*time.Millisecond, reproducible(check)))
}
