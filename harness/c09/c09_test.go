// C09 — HTTP wire fidelity: the request reaching the target equals ammo plus gun config.
//
// Oracle: the generated request model (internal/ammogen) merged with the provider's
// `headers` option by the documented rule (ammo headers have priority), compared
// with what an in-process recording server received.
package c09

import (
	"bytes"
	"context"
	"fmt"
	"net"
	"net/textproto"
	"sort"
	"strings"
	"testing"
	"time"

	ag "verif/harness/internal/ammogen"
	"verif/harness/internal/pand"
	"verif/harness/internal/target"
	"verif/harness/internal/vf"

	"github.com/yandex/pandora/core/engine"
	"pgregory.net/rapid"
)

type Case struct {
	File      ag.File `json:"file"`
	Headers   []ag.KV `json:"config_headers"`
	SSL       bool    `json:"ssl"`
	NoKeep    bool    `json:"disable_keep_alives"`
	Instances int     `json:"instances"`
	Passes    int     `json:"passes"`
	Answer    string  `json:"target_answer"` // small | empty | 5k | 100k | chunked | chunked_big
	Connect   bool    `json:"connect_gun"`   // gun type connect (CONNECT tunnel to the target first) instead of http
	HTTP2     bool    `json:"http2_gun"`     // gun type http2 against a TLS target that negotiates h2 (needs ssl: true)
	// the gun's target is written as a DNS name ("localhost:<port>", the docs' `target: [hostname]:443`) instead of the
	// listener's IP literal; http and http2 guns only
	ByName bool `json:"target_by_name,omitempty"`
	// dial.dns-cache: false (default true: the name is resolved once per pool when the gun factory is built)
	NoDNSCache bool `json:"dns_cache_off,omitempty"`
}

var cfgHeaderNames = []string{"X-Test", "Accept", "User-Agent", "Cookie", "X-Cfg-Only", "Authorization", "X-Other-Cfg", "Referer"}

func genCase(t *rapid.T) Case {
	format := rapid.SampledFrom([]string{"uri", "uripost", "raw", "jsonline"}).Draw(t, "format")
	c := Case{File: ag.Gen(t, format, ag.GenOpts{MinEntries: 1, MaxEntries: 6, AllowBig: true, RawTail: true})}
	// (RawTail: in one raw file in two, entries whose size line also counts a line break written after the request - the
	// request that must arrive is still the header block and the Content-Length bytes that follow it)
	// configured headers: unique names; prefer names the file also defines
	var fileNames []string
	for _, w := range c.File.Expected() {
		for k := range w.Headers {
			fileNames = append(fileNames, k)
		}
	}
	sort.Strings(fileNames)
	n := rapid.IntRange(0, 4).Draw(t, "cfgHeaders")
	seen := map[string]bool{}
	for i := 0; i < n; i++ {
		var k string
		if len(fileNames) > 0 && rapid.Bool().Draw(t, "overlap") {
			k = rapid.SampledFrom(fileNames).Draw(t, "cfgKeyFile")
		} else {
			k = rapid.SampledFrom(append(cfgHeaderNames, "Host")).Draw(t, "cfgKey")
		}
		ck := textproto.CanonicalMIMEHeaderKey(k)
		if seen[ck] {
			continue
		}
		seen[ck] = true
		v := "cfg-" + fmt.Sprint(rapid.IntRange(0, 999).Draw(t, "cfgVal"))
		if ck == "Host" {
			v = "cfg" + fmt.Sprint(rapid.IntRange(0, 99).Draw(t, "cfgHost")) + ".example.net"
		}
		c.Headers = append(c.Headers, ag.KV{K: k, V: v})
	}
	c.SSL = rapid.Bool().Draw(t, "ssl")
	c.NoKeep = rapid.IntRange(0, 3).Draw(t, "noKeepAlive") == 0
	c.Instances = rapid.IntRange(1, 4).Draw(t, "instances")
	c.Passes = rapid.IntRange(1, 2).Draw(t, "passes")
	c.Connect = !c.SSL && rapid.IntRange(0, 3).Draw(t, "connectGun") == 0
	// what the target answers: the gun must drain any answer to keep its connection
	c.Answer = rapid.SampledFrom([]string{"small", "small", "empty", "5k", "100k", "chunked", "chunked_big"}).Draw(t, "answer")
	// third gun kind: http2 (only over TLS; "HTTP/2.0 over TCP is not supported"). The keep-alive clauses hold for it
	// as for the others, and are as likely on as off here: every connection costs a TLS handshake, which is what a
	// test with keep-alives disabled wants to measure.
	if c.SSL && rapid.IntRange(0, 2).Draw(t, "http2Gun") == 0 {
		c.HTTP2 = true
		c.NoKeep = rapid.Bool().Draw(t, "http2NoKeepAlive")
	}
	// how the user wrote the target: an IP literal or a host name. "The target's host" of the Host clause is what the
	// config says, whatever address the name resolves to. (Not for the connect gun: it has no documentation, and what
	// it names in its CONNECT line and in the tunnelled requests is the address it dials.)
	if !c.Connect && rapid.IntRange(0, 2).Draw(t, "targetByName") == 0 {
		c.ByName = true
		c.NoDNSCache = rapid.IntRange(0, 3).Draw(t, "dnsCacheOff") == 0
	}
	return c
}

// nameFor returns "localhost:<port>" for a listener on a loopback address when the name localhost resolves to that
// address on this machine (pandora's own Test_preResolveTargetAddr assumes the same), "" otherwise.
func nameFor(addr string) string {
	host, port, err := net.SplitHostPort(addr)
	if err != nil {
		return ""
	}
	ctx, cancel := context.WithTimeout(context.Background(), 5*time.Second)
	defer cancel()
	ips, err := net.DefaultResolver.LookupHost(ctx, "localhost")
	if err != nil {
		return ""
	}
	for _, ip := range ips {
		if ip == host {
			return net.JoinHostPort("localhost", port)
		}
	}
	return ""
}

type wantReq struct {
	ag.Want
	hostFromTarget bool
}

func expected(c Case) []wantReq {
	var out []wantReq
	for _, w := range c.File.Expected() {
		wr := wantReq{Want: w}
		hdr := map[string]string{}
		for k, v := range w.Headers {
			hdr[k] = v
		}
		for _, h := range c.Headers {
			ck := textproto.CanonicalMIMEHeaderKey(h.K)
			if ck == "Host" {
				if wr.Host == "" {
					wr.Host = h.V
				}
				continue
			}
			if _, ok := hdr[ck]; !ok {
				hdr[ck] = h.V
			}
		}
		wr.Headers = hdr
		if wr.Host == "" {
			wr.hostFromTarget = true
		}
		out = append(out, wr)
	}
	return out
}

var transportAdds = map[string]bool{"User-Agent": true, "Content-Length": true, "Accept-Encoding": true, "Connection": true, "Transfer-Encoding": true}

func matches(w wantReq, r target.Rec, targetAddr string, h2 bool) error {
	if r.Method != w.Method {
		return fmt.Errorf("method %q, ammo says %q", r.Method, w.Method)
	}
	if r.RequestURI != w.URI {
		return fmt.Errorf("request URI %q, ammo says %q", r.RequestURI, w.URI)
	}
	if !bytes.Equal(r.Body, w.Body) && !(len(r.Body) == 0 && len(w.Body) == 0) {
		return fmt.Errorf("body %q, ammo says %q", r.Body, w.Body)
	}
	if w.hostFromTarget {
		th := targetAddr[:strings.LastIndex(targetAddr, ":")]
		if r.Host != th && r.Host != targetAddr {
			return fmt.Errorf("Host %q, expected the target's host %q (ammo gives none)", r.Host, th)
		}
	} else if r.Host != w.Host {
		return fmt.Errorf("Host %q, ammo/config says %q", r.Host, w.Host)
	}
	for k, v := range w.Headers {
		got := r.Header[k]
		if h2 && k == "Cookie" && v == "" && len(got) == 0 {
			// HTTP/2 carries Cookie as one field per cookie-pair (RFC 9113 8.2.3): a Cookie header holding no pair
			// has no representation there
			continue
		}
		if len(got) != 1 || got[0] != v {
			return fmt.Errorf("header %s = %q, expected %q", k, got, v)
		}
	}
	for k := range r.Header {
		if _, ok := w.Headers[k]; !ok && !transportAdds[k] {
			return fmt.Errorf("unexpected header %s: %q", k, r.Header[k])
		}
	}
	return nil
}

func check(c Case, o *vf.Obs) error {
	if c.HTTP2 && (!c.SSL || c.Connect) {
		return fmt.Errorf("harness: the http2 gun kind needs ssl and excludes the connect gun: %+v", c)
	}
	answer := func(seq int, r *target.Rec) target.Resp {
		switch c.Answer {
		case "empty":
			return target.Resp{Status: 200}
		case "5k":
			return target.Resp{Status: 200, Body: bytes.Repeat([]byte("0123456789"), 500)}
		case "100k":
			return target.Resp{Status: 200, Body: bytes.Repeat([]byte("0123456789abcdef"), 6400)}
		case "chunked":
			return target.Resp{Status: 200, Chunks: [][]byte{[]byte("first,"), []byte("second,"), []byte("third")}}
		case "chunked_big":
			return target.Resp{Status: 200, Chunks: [][]byte{bytes.Repeat([]byte("a"), 3000), bytes.Repeat([]byte("b"), 9000), []byte("end")}}
		}
		return target.Resp{Status: 200, Body: []byte("ok")}
	}
	// the recording target: HTTP/1.1 (plain or TLS, CONNECT-capable) or, for the http2 gun, TLS negotiating h2
	var (
		addr      string
		records   func() []target.Rec
		connects  func() int64
		connsOpen func() int // connections the target saw being set up since Reset, with or without a request on them
	)
	if c.HTTP2 {
		tg, mu := target.SharedH2(true)
		mu.Lock()
		defer mu.Unlock()
		tg.Reset(nil, func(seq int, r *target.Rec, _ int) target.H2Resp { return target.H2Resp{Resp: answer(seq, r)} })
		defer tg.Reset(nil, nil)
		addr, records = tg.Addr(), tg.Records
		connects = func() int64 { return 0 }
		connsOpen = func() int { return len(tg.Handshakes()) } // one TLS handshake per accepted connection
	} else {
		tg, mu := target.Shared(c.SSL)
		mu.Lock()
		defer mu.Unlock()
		tg.Reset(answer)
		addr, records, connects = tg.Addr(), tg.Records, tg.Connects
		connsOpen = func() int { return int(tg.ConnsAccepted()) }
	}
	// the target as the config names it
	confTarget, byName := addr, false
	if c.ByName {
		if c.Connect {
			return fmt.Errorf("harness: target by name is not generated for the connect gun: %+v", c)
		}
		if n := nameFor(addr); n != "" {
			confTarget, byName = n, true
		} else {
			o.Class("target_by_name_unavailable_localhost_does_not_resolve_to_listener")
		}
	}
	want := expected(c)
	E := len(want)
	total := E * c.Passes

	ammo := map[string]any{"type": ag.ProviderType(c.File.Format), "passes": c.Passes}
	if c.File.Format == "uri" && c.File.Layout.Inline {
		ammo["uris"] = c.File.Lines()
	} else {
		name := pand.WriteFile("c09", ".ammo", c.File.Render())
		defer pand.Remove(name)
		ammo["file"] = name
	}
	if len(c.Headers) > 0 {
		var hs []any
		for _, h := range c.Headers {
			hs = append(hs, fmt.Sprintf("[%s: %s]", h.K, h.V))
		}
		ammo["headers"] = hs
	}
	// connection set-up timeouts (defaults: 3 s dial, 1 s TLS handshake) are not this property's subject: far out of
	// the way, so that a starved machine does not turn into requests the gun gave up on
	dial := map[string]any{"timeout": "30s"}
	if c.ByName && c.NoDNSCache {
		dial["dns-cache"] = false
	}
	gun := map[string]any{"type": "http", "target": confTarget, "ssl": c.SSL,
		"tls-handshake-timeout": "30s", "dial": dial}
	if c.Connect {
		gun["type"] = "connect"
	}
	if c.HTTP2 {
		gun["type"] = "http2"
	}
	if c.NoKeep {
		gun["disable-keep-alives"] = true
	}
	pool := map[string]any{
		"id": "p", "gun": gun, "ammo": ammo,
		"result":  map[string]any{"type": "discard"},
		"rps":     map[string]any{"type": "once", "times": total + 5},
		"startup": map[string]any{"type": "once", "times": c.Instances},
	}
	var conf engine.Config
	if err := pand.Decode(map[string]any{"pools": []any{pool}}, &conf); err != nil {
		return fmt.Errorf("valid pool config rejected: %v", err)
	}
	eng := engine.New(pand.NopLog(), pand.Metrics(), conf)
	var runErr error
	ok, stacks := vf.Deadline(30*time.Second, func() { runErr = eng.Run(context.Background()) })
	if !ok {
		return fmt.Errorf("run did not finish in 30s\n%s", stacks)
	}
	if runErr != nil {
		return fmt.Errorf("run failed: %v", runErr)
	}
	eng.Wait()
	recs := records()
	if len(recs) != total {
		return fmt.Errorf("%d requests reached the target, ammo holds %d entries x %d passes = %d\n--- file ---\n%q", len(recs), E, c.Passes, total, c.File.Render())
	}
	// multiset equality (sequence equality with one instance)
	used := make([]bool, len(recs))
	for k := 0; k < total; k++ {
		w := want[k%E]
		if c.Instances == 1 {
			if err := matches(w, recs[k], confTarget, c.HTTP2); err != nil {
				return fmt.Errorf("request %d (entry %d): %v\nconfig headers %v\n--- file (%s) ---\n%q", k, k%E, err, c.Headers, c.File.Format, c.File.Render())
			}
			continue
		}
		found := false
		var lastErr error
		for i, r := range recs {
			if used[i] {
				continue
			}
			if err := matches(w, r, confTarget, c.HTTP2); err == nil {
				used[i] = true
				found = true
				break
			} else {
				lastErr = err
			}
		}
		if !found {
			return fmt.Errorf("no received request matches entry %d of the ammo (closest mismatch: %v)\nconfig headers %v\n--- file (%s) ---\n%q", k%E, lastErr, c.Headers, c.File.Format, c.File.Render())
		}
	}
	for _, r := range recs {
		if r.TLS != c.SSL {
			return fmt.Errorf("request arrived with TLS=%v but ssl=%v", r.TLS, c.SSL)
		}
		if c.HTTP2 != (r.Proto == "HTTP/2.0") {
			return fmt.Errorf("request arrived as %s, gun type %v", r.Proto, gun["type"])
		}
	}
	conns := map[int64]bool{}
	for _, r := range recs {
		conns[r.ConnID] = true
	}
	if c.NoKeep {
		if len(conns) != len(recs) {
			return fmt.Errorf("keep-alives disabled: %d requests arrived over %d connections, expected one connection per request", len(recs), len(conns))
		}
	} else if len(conns) > c.Instances {
		return fmt.Errorf("keep-alives enabled, %d instances, but the target saw %d connections for %d requests", c.Instances, len(conns), len(recs))
	}
	// the same two clauses on what the target's accept / handshake counter shows (also connections that carried
	// no request)
	// With a target given by name and dial.dns-cache on (the default), the pool resolves the name once, before any
	// instance exists, by connecting to it (netutil.LookupReachable: "tries to resolve addr via connecting to it") and
	// closes that connection without a request: it is no instance's connection, the plain accept counter sees it (the
	// handshake counter of the h2 target does not). Every other case is judged exactly as before.
	probe := 0
	if byName && !c.NoDNSCache && !c.HTTP2 {
		probe = 1
	}
	if n := connsOpen(); c.NoKeep && (n < len(recs) || n > len(recs)+probe) {
		return fmt.Errorf("%v gun, keep-alives disabled: the target saw %d connections being set up for %d requests (%d of them the pool's DNS pre-resolve), expected one connection per request", gun["type"], n, len(recs), probe)
	} else if !c.NoKeep && n > c.Instances+probe {
		return fmt.Errorf("%v gun, keep-alives enabled, %d instances, but the target saw %d connections being set up for %d requests (%d of them the pool's DNS pre-resolve)", gun["type"], c.Instances, n, len(recs), probe)
	}
	// classes
	overlap, hostAmmo := false, false
	fileHas := map[string]bool{}
	for _, w := range c.File.Expected() {
		for k := range w.Headers {
			fileHas[k] = true
		}
		if w.Host != "" {
			hostAmmo = true
		}
	}
	for _, h := range c.Headers {
		if fileHas[textproto.CanonicalMIMEHeaderKey(h.K)] {
			overlap = true
		}
	}
	o.Class("format_" + c.File.Format)
	o.ClassIf(c.File.Big, "file_larger_than_reader_buffer")
	// raw entries whose sized block goes on after the request text
	tailBody, tailNoBody, tailAndExact, tailBig := false, false, false, false
	if c.File.Format == "raw" {
		exactBody := false
		for i, it := range c.File.Items {
			if it.Entry == nil {
				continue
			}
			tail := c.File.Layout.RawTailOf(i)
			switch {
			case tail != "" && len(it.Entry.Body) > 0:
				tailBody = true
				tailBig = tailBig || len(it.Entry.Body) > 4096
			case tail != "":
				tailNoBody = true
			case len(it.Entry.Body) > 0:
				exactBody = true
			}
		}
		tailAndExact = tailBody && exactBody
	}
	o.ClassIf(tailBody, "raw_sized_block_extends_past_body")
	o.ClassIf(tailNoBody, "raw_sized_block_extends_past_bodiless_request")
	o.ClassIf(tailAndExact, "raw_file_mixes_exact_and_extended_blocks_with_body")
	o.ClassIf(tailBody && c.Passes > 1, "raw_sized_block_extends_past_body_two_passes")
	o.ClassIf(tailBig, "raw_sized_block_extends_past_body_gt_4k")
	o.Class("answer_" + c.Answer)
	o.ClassIf(c.Connect, "connect_gun")
	o.ClassIf(c.HTTP2, "http2_gun")
	o.ClassIf(c.HTTP2 && c.NoKeep && len(recs) >= 2, "http2_keep_alive_off_ge_2_requests")
	o.ClassIf(c.HTTP2 && !c.NoKeep && len(recs) > c.Instances, "http2_keep_alive_more_requests_than_instances")
	o.ClassIf(!c.HTTP2 && !c.Connect, "http_gun")
	if c.Connect && connects() == 0 {
		return fmt.Errorf("connect gun: requests arrived but no CONNECT tunnel was opened")
	}
	o.ClassIf(!c.NoKeep && (c.Answer == "100k" || c.Answer == "chunked" || c.Answer == "chunked_big" || c.Answer == "5k"), "keep_alive_with_multi_read_answer")
	o.ClassIf(overlap, "config_header_overlaps_ammo")
	o.ClassIf(overlap, "overlap_"+c.File.Format)
	o.ClassIf(hostAmmo, "host_from_ammo")
	hostDefaulted := false
	for _, w := range want {
		hostDefaulted = hostDefaulted || w.hostFromTarget
	}
	o.ClassIf(byName, "target_by_name")
	o.ClassIf(byName && hostDefaulted, "target_by_name_host_defaulted")
	o.ClassIf(byName && hostDefaulted && c.SSL, "target_by_name_host_defaulted_ssl")
	o.ClassIf(byName && hostDefaulted && c.HTTP2, "target_by_name_host_defaulted_http2")
	o.ClassIf(byName && c.NoDNSCache, "target_by_name_dns_cache_off")
	o.ClassIf(!byName && hostDefaulted, "target_ip_literal_host_defaulted")
	o.ClassIf(c.SSL, "ssl")
	o.ClassIf(c.NoKeep, "keep_alive_off")
	o.ClassIf(c.Instances >= 2, "instances_ge_2")
	if overlap || hostAmmo || c.Instances >= 2 {
		o.NonTrivial()
	}
	return nil
}

func TestWire(t *testing.T) {
	pand.Init()
	r := vf.Start(t, "C09")
	// net/http has timeouts of its own that the gun cannot configure (a connection is not reused when its write loop
	// has not reported within 50 ms of the answer; a new one is dialled): a failure seen only while the machine kept
	// goroutines waiting is re-evaluated, and counted inconclusive - never as a pass - if it never fails undisturbed
	vf.Check(r, genCase, vf.LoadTolerant(25*time.Millisecond, check))
}
