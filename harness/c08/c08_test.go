// C08 — limit/passes semantics and clean end-of-ammo on every provider.
//
// Oracle: X = min of the non-zero bounds among {limit, passes*E}; exactly X items,
// then end of ammo, Run returns nil, nobody stays blocked, nothing spins.
package c08

import (
	"context"
	"encoding/json"
	"fmt"
	"io"
	"os"
	"path/filepath"
	"strings"
	"sync"
	"sync/atomic"
	"testing"
	"time"

	ag "verif/harness/internal/ammogen"
	"verif/harness/internal/fake"
	"verif/harness/internal/pand"
	"verif/harness/internal/provrun"
	"verif/harness/internal/vf"

	pkgerrors "github.com/pkg/errors"
	"github.com/spf13/afero"
	"github.com/yandex/pandora/components/providers/grpc/grpcjson"
	httpprovider "github.com/yandex/pandora/components/providers/http"
	httpconfig "github.com/yandex/pandora/components/providers/http/config"
	"github.com/yandex/pandora/core"
	"github.com/yandex/pandora/core/datasource"
	"github.com/yandex/pandora/core/engine"
	"github.com/yandex/pandora/core/provider"
	"github.com/yandex/pandora/core/schedule"
	"pgregory.net/rapid"
)

var kinds = []string{"uri", "uripost", "raw", "jsonline", "jsonarray", "grpc/json", "http/scenario", "grpc/scenario", "json"}

type Case struct {
	Kind      string `json:"kind"`
	Preload   bool   `json:"preload"`
	Entries   int    `json:"entries"`
	Limit     int    `json:"limit"`
	Passes    int    `json:"passes"`
	Consumers int    `json:"consumers"`
	Engine    bool   `json:"through_engine"`
	// unbounded cells: pause between the consumers' last Acquire and the cancel, and (generic json provider) queue size
	SettleUs int `json:"settle_us,omitempty"`
	Queue    int `json:"ammo_queue_size,omitempty"`
	// unbounded cells, "live" drain: the consumers never stop acquiring by themselves - the provider is cancelled (or,
	// with BrokenTail, fails on a malformed entry after the good ones) while they are in or about to enter Acquire -
	// and Late more consumers call Acquire only after Run has returned.
	Live       bool `json:"live_consumers,omitempty"`
	Late       int  `json:"late_consumers,omitempty"`
	BrokenTail bool `json:"broken_tail,omitempty"`
	// `chosencases` (HTTP formats and grpc/json): "subset" lists the tags of the entries Chosen (indexes, at least one)
	// and, with GhostTag, a tag no entry carries; "nothing" lists only GhostTag - the filter matches no entry of the file.
	Filter   string `json:"chosencases,omitempty"`
	Chosen   []int  `json:"chosen_entries,omitempty"`
	GhostTag string `json:"ghost_tag,omitempty"`
	// entry sizes (kinds whose entries carry a body / payload): filler bytes per entry, 0 = the tiny default; and the
	// `maxammosize` option (HTTP formats and grpc/json). Entries above 64 KiB (bufio.MaxScanTokenSize, the documented
	// default of maxammosize) are generated only for http/json and grpc/json and only with maxammosize well above them.
	Sizes       []int `json:"entry_sizes,omitempty"`
	MaxAmmoSize int   `json:"maxammosize,omitempty"`
	// generic json provider: the data source its `source` option names (one of jsonSources; "" = "file")
	Source string `json:"source,omitempty"`
	// OsFs (HTTP formats and grpc/json): the ammo file is a real file in a temporary directory and the provider reads it
	// through afero.NewOsFs(), the file system the pandora binary passes to the providers (cli: Import(afero.NewOsFs())),
	// instead of the in-memory one. See buildOnOsFs.
	OsFs bool `json:"os_fs,omitempty"`
}

// kinds that are also built over the real file system
func hasOsFs(k string) bool { return isHTTP(k) || k == "grpc/json" }

// The data sources of the generic JSON (decode) provider. The first three are what a config can name (core/import registers
// file, stdin and inline; the string shorthand `source: <path>` is not generated - core/import never installs its
// sourceStringHook, so such a config is rejected, which is no matter of this property); the last three are what a custom
// pandora passes to provider.NewJSONProvider itself (datasource.NewReader over a strings.Reader / an
// open file, datasource.NewString). Every one of them can be read again from its start, so limit and passes mean for
// all of them what they mean for a file. (A pipe cannot be re-read - "Ammo data source can't sought, so will be read only
// once" - and is not generated: stdin is a regular file, as with `pandora conf.yaml < ammo.json`.)
var jsonSources = []string{"file", "inline", "stdin", "reader_strings", "reader_file", "string"}

func (c Case) source() string {
	if c.Source == "" {
		return "file"
	}
	return c.Source
}

// kinds that have the chosencases and maxammosize options
func hasFilter(k string) bool { return isHTTP(k) || k == "grpc/json" }

// kinds whose entries have a body / payload that can be made long
func hasBody(k string) bool {
	return k == "uripost" || k == "raw" || k == "jsonline" || k == "jsonarray" || k == "grpc/json"
}

// kinds for which maxammosize is documented as the bound of one entry ("Maximum number of byte in (jsonline) ammo")
func sizeBoundedByOption(k string) bool {
	return k == "jsonline" || k == "jsonarray" || k == "grpc/json"
}

const defaultMaxEntry = 64 << 10 // bufio.MaxScanTokenSize

// effective number of entries: those the chosencases filter lets through
func (c Case) effEntries() int {
	switch c.Filter {
	case "subset":
		return len(c.Chosen)
	case "nothing":
		return 0
	}
	return c.Entries
}

func (c Case) maxSize() int {
	m := 0
	for _, s := range c.Sizes {
		if s > m {
			m = s
		}
	}
	return m
}

func (c Case) size(i int) int {
	if i < len(c.Sizes) {
		return c.Sizes[i]
	}
	return 0
}

func filler(n int) string {
	const pat = "abcdefghijklmnopqrstuvwxyz0123456789ABCDEFGHIJKLMNOPQRSTUVWXYZ-_"
	var sb strings.Builder
	sb.Grow(n)
	for sb.Len() < n {
		k := n - sb.Len()
		if k > len(pat) {
			k = len(pat)
		}
		sb.WriteString(pat[:k])
	}
	return sb.String()
}

// kinds whose file is read entry by entry while the provider runs: a malformed entry after good ones is met mid-run
func canBreak(k string) bool {
	return k == "uri" || k == "uripost" || k == "raw" || k == "jsonline" || k == "grpc/json" || k == "json"
}

func brokenTail(k string) string {
	switch k {
	case "uri":
		return "[broken header\n"
	case "uripost", "raw":
		return "notanumber /x tag\n"
	}
	return "{\"broken\n"
}

func isHTTP(k string) bool {
	return k == "uri" || k == "uripost" || k == "raw" || k == "jsonline" || k == "jsonarray"
}

func genCase(t *rapid.T) Case {
	c := Case{}
	// the generic json provider is drawn three times as often as the others: it alone has the data-source dimension
	c.Kind = rapid.SampledFrom(append(append([]string{}, kinds...), "json", "json")).Draw(t, "kind")
	if isHTTP(c.Kind) {
		c.Preload = rapid.Bool().Draw(t, "preload")
	}
	c.Entries = rapid.IntRange(1, 5).Draw(t, "entries")
	switch rapid.SampledFrom([]string{"limit", "passes", "both", "none", "both"}).Draw(t, "bounds") {
	case "limit":
		c.Limit = rapid.IntRange(1, 2*c.Entries+1).Draw(t, "limit")
	case "passes":
		c.Passes = rapid.IntRange(1, 3).Draw(t, "passes")
	case "both":
		c.Limit = rapid.IntRange(1, 2*c.Entries+1).Draw(t, "limit")
		c.Passes = rapid.IntRange(1, 3).Draw(t, "passes")
	}
	c.Consumers = rapid.IntRange(1, 4).Draw(t, "consumers")
	c.Engine = rapid.IntRange(0, 2).Draw(t, "engine") == 0
	if c.Limit == 0 && c.Passes == 0 {
		c.SettleUs = rapid.SampledFrom([]int{0, 300, 3000, 20000}).Draw(t, "settleUs")
		switch rapid.SampledFrom([]string{"stop", "live", "live", "broken"}).Draw(t, "drain") {
		case "live":
			c.Live = true
		case "broken":
			c.Live, c.BrokenTail = true, canBreak(c.Kind)
		}
		if c.Live {
			c.Late = rapid.IntRange(0, 3).Draw(t, "late")
		}
	}
	if c.Kind == "json" {
		c.Queue = rapid.SampledFrom([]int{0, 1, 4, 64}).Draw(t, "queue")
		c.Source = rapid.SampledFrom(jsonSources).Draw(t, "source")
	}
	if hasFilter(c.Kind) {
		switch rapid.SampledFrom([]string{"", "", "", "subset", "subset", "nothing"}).Draw(t, "chosencases") {
		case "subset":
			c.Filter = "subset"
			first := rapid.IntRange(0, c.Entries-1).Draw(t, "chosenFirst")
			for i := 0; i < c.Entries; i++ {
				if i == first || rapid.Bool().Draw(t, "chosen") {
					c.Chosen = append(c.Chosen, i)
				}
			}
			if rapid.Bool().Draw(t, "ghost") {
				c.GhostTag = genGhost(t, c.Entries)
			}
		case "nothing":
			c.Filter = "nothing"
			c.GhostTag = genGhost(t, c.Entries)
			c.SettleUs = rapid.SampledFrom([]int{0, 300, 3000, 20000}).Draw(t, "scanUs")
			c.Late = rapid.IntRange(0, 2).Draw(t, "lateNothing")
			c.Live, c.BrokenTail, c.Engine = false, false, false
			if rapid.IntRange(0, 2).Draw(t, "scansUntilCancel") > 0 {
				// the cell in which nothing ends the provider but the cancel: it streams and no pass bound is set
				c.Preload, c.Passes = false, 0
			}
		}
	}
	if hasBody(c.Kind) {
		sz := rapid.SampledFrom([]string{"tiny", "big", "medium", "tiny", "big"}).Draw(t, "sizes")
		if sz == "big" && !sizeBoundedByOption(c.Kind) {
			sz = rapid.SampledFrom([]string{"tiny", "medium"}).Draw(t, "sizesNoOption")
		}
		if sz != "tiny" {
			c.Sizes = make([]int, c.Entries)
			special := rapid.IntRange(0, c.Entries-1).Draw(t, "sizedEntry")
			for i := range c.Sizes {
				if i != special && rapid.Bool().Draw(t, "staysTiny") {
					continue
				}
				if sz == "big" && (i == special || rapid.IntRange(0, 3).Draw(t, "alsoBig") == 0) {
					c.Sizes[i] = rapid.IntRange(70<<10, 160<<10).Draw(t, "bigSize")
				} else {
					c.Sizes[i] = rapid.IntRange(1<<10, 48<<10).Draw(t, "mediumSize")
				}
			}
		}
	}
	if hasFilter(c.Kind) {
		switch {
		case c.maxSize() > defaultMaxEntry:
			c.MaxAmmoSize = rapid.SampledFrom([]int{256 << 10, 1 << 20, 4 << 20}).Draw(t, "maxammosizeBig")
		case c.maxSize() == 0:
			c.MaxAmmoSize = rapid.SampledFrom([]int{0, 0, 0, 4096, 128 << 10, 1 << 20}).Draw(t, "maxammosizeTiny")
		default:
			c.MaxAmmoSize = rapid.SampledFrom([]int{0, 0, 0, 128 << 10, 1 << 20}).Draw(t, "maxammosize")
		}
	}
	if hasOsFs(c.Kind) {
		c.OsFs = rapid.IntRange(0, 4).Draw(t, "osFs") < 2
	}
	return c
}

// a tag that no entry of the file carries (entries are tagged t0..t<E-1>): unrelated, the next index, or near misses
func genGhost(t *rapid.T, entries int) string {
	return rapid.SampledFrom([]string{"no-such-tag", fmt.Sprintf("t%d", entries), "T0", "t0x", "t"}).Draw(t, "ghostTag")
}

func simpleFile(format string, n int, sizes func(int) int) ag.File {
	f := ag.File{Format: format}
	if format == "jsonarray" {
		f.Format = "jsonline"
		f.Layout.JSON = "array"
	}
	for i := 0; i < n; i++ {
		e := ag.Entry{Method: "GET", URI: fmt.Sprintf("/e%d", i), Tag: fmt.Sprintf("t%d", i)}
		switch f.Format {
		case "uripost":
			e.Method = "POST"
			e.Body = []byte(fmt.Sprintf("body%d", i))
		case "raw":
			e.Host = "h.example.com"
		}
		if sz := sizes(i); sz > 0 {
			e.Method = "POST"
			e.Body = []byte(filler(sz))
		}
		f.Items = append(f.Items, ag.Item{Entry: &e})
	}
	return f
}

// stdinMu guards os.Stdin, which the stdin data source reads when it is constructed.
var stdinMu sync.Mutex

// buildProvider writes the ammo file(s) for the case and builds the provider: through config decoding, except for the
// generic json provider over a source that only a custom pandora can pass (see jsonSources).
func buildProvider(c Case) (p core.Provider, cleanup func(), err error) {
	conf, content, cleanup, err := buildConf(c)
	if err != nil {
		return nil, cleanup, err
	}
	if c.OsFs && hasOsFs(c.Kind) {
		p, err = buildOnOsFs(c, conf)
		return p, cleanup, err
	}
	if c.Kind != "json" {
		p, err = provrun.Build(conf)
		return p, cleanup, err
	}
	switch c.source() {
	case "stdin":
		// a regular file stands in for the redirected standard input
		f, e := os.CreateTemp("", "verif-c08-stdin-")
		if e != nil {
			return nil, cleanup, e
		}
		prev := cleanup
		cleanup = func() { prev(); f.Close(); os.Remove(f.Name()) }
		if _, e = f.WriteString(content); e == nil {
			_, e = f.Seek(0, io.SeekStart)
		}
		if e != nil {
			return nil, cleanup, e
		}
		stdinMu.Lock()
		saved := os.Stdin
		os.Stdin = f
		p, err = provrun.Build(conf)
		os.Stdin = saved
		stdinMu.Unlock()
		return p, cleanup, err
	case "reader_strings", "reader_file", "string":
		jc := provider.DefaultJSONProviderConfig()
		jc.Decode.Limit, jc.Decode.Passes = c.Limit, c.Passes
		if c.Queue > 0 {
			jc.Decode.Queue.AmmoQueueSize = c.Queue
		}
		switch c.source() {
		case "reader_strings":
			jc.Decode.Source = datasource.NewReader(strings.NewReader(content))
		case "string":
			jc.Decode.Source = datasource.NewString(content)
		case "reader_file":
			name := pand.WriteFile("c08", ".json", []byte(content))
			f, e := pand.FS().Open(name)
			prev := cleanup
			cleanup = func() {
				prev()
				if f != nil {
					f.Close()
				}
				pand.Remove(name)
			}
			if e != nil {
				return nil, cleanup, e
			}
			jc.Decode.Source = datasource.NewReader(f)
		}
		return provider.NewJSONProvider(func() core.Ammo { return &map[string]interface{}{} }, jc), cleanup, nil
	}
	p, err = provrun.Build(conf)
	return p, cleanup, err
}

// buildOnOsFs builds the provider the way the plugin factories registered by pandora's Import functions do - the options
// are decoded into the provider's config struct by the real config decoding, the factory's constructor is called with that
// struct - but with afero.NewOsFs() as the file system: the registry of this process is bound to the shared in-memory fs
// (the Import functions can be called once), the pandora binary binds it to the OS. What differs is the file object the
// provider holds: an *os.File (a descriptor; reading, seeking or closing it after it was closed is an error) instead of
// afero's mem.File, whose Close is idempotent. conf["file"] is an absolute path of a real file here (see buildConf).
func buildOnOsFs(c Case, conf map[string]any) (core.Provider, error) {
	opts := map[string]any{}
	for k, v := range conf {
		if k != "type" {
			opts[k] = v
		}
	}
	fs := afero.NewOsFs()
	if c.Kind == "grpc/json" {
		var cfg grpcjson.Config
		if err := pand.Decode(opts, &cfg); err != nil {
			return nil, err
		}
		return grpcjson.NewProvider(fs, cfg), nil
	}
	var cfg httpconfig.Config
	if err := pand.Decode(opts, &cfg); err != nil {
		return nil, err
	}
	// what components/providers/http Import does for the provider types "uri", "uripost", "raw", "http/json"
	switch c.Kind {
	case "uri":
		cfg.Decoder = httpconfig.DecoderURI
	case "uripost":
		cfg.Decoder = httpconfig.DecoderURIPost
	case "raw":
		cfg.Decoder = httpconfig.DecoderRaw
	case "jsonline", "jsonarray":
		cfg.Decoder = httpconfig.DecoderJSONLine
	default:
		return nil, fmt.Errorf("harness: no OS-fs construction for kind %s", c.Kind)
	}
	return httpprovider.NewProvider(fs, cfg)
}

// buildConf writes the ammo file(s) for the case and returns the provider config (and, for the generic json provider,
// the text of its source).
func buildConf(c Case) (conf map[string]any, content string, cleanup func(), err error) {
	var files []string
	osDir := ""
	cleanup = func() {
		for _, f := range files {
			pand.Remove(f)
		}
		if osDir != "" {
			os.RemoveAll(osDir)
		}
	}
	write := func(ext string, data []byte) string {
		if c.OsFs && hasOsFs(c.Kind) {
			// a real file in a directory of its own, removed with the case
			if osDir == "" {
				d, e := os.MkdirTemp("", "verif-c08-osfs-")
				if e != nil {
					panic(e)
				}
				osDir = d
			}
			n := filepath.Join(osDir, "ammo"+ext)
			if e := os.WriteFile(n, data, 0o644); e != nil {
				panic(e)
			}
			return n
		}
		n := pand.WriteFile("c08", ext, data)
		files = append(files, n)
		return n
	}
	conf = map[string]any{}
	tail := ""
	if c.BrokenTail && canBreak(c.Kind) {
		tail = brokenTail(c.Kind)
	}
	if c.Limit > 0 {
		conf["limit"] = c.Limit
	}
	if c.Passes > 0 {
		conf["passes"] = c.Passes
	}
	if c.Filter != "" {
		var tags []any
		for _, i := range c.Chosen {
			tags = append(tags, fmt.Sprintf("t%d", i))
		}
		if c.GhostTag != "" {
			// somewhere in the middle of the list
			at := len(tags) / 2
			tags = append(tags[:at:at], append([]any{c.GhostTag}, tags[at:]...)...)
		}
		conf["chosencases"] = tags
	}
	if c.MaxAmmoSize > 0 {
		conf["maxammosize"] = c.MaxAmmoSize
	}
	switch {
	case isHTTP(c.Kind):
		f := simpleFile(c.Kind, c.Entries, c.size)
		conf["type"] = ag.ProviderType(f.Format)
		conf["file"] = write(".ammo", append(f.Render(), tail...))
		if c.Preload {
			conf["preload"] = true
		}
	case c.Kind == "grpc/json":
		var sb strings.Builder
		for i := 0; i < c.Entries; i++ {
			b, _ := json.Marshal(map[string]any{"tag": fmt.Sprintf("t%d", i), "call": "target.TargetService.Hello", "payload": map[string]any{"name": fmt.Sprintf("n%d", i) + filler(c.size(i))}})
			sb.Write(b)
			sb.WriteString("\n")
		}
		conf["type"] = "grpc/json"
		conf["file"] = write(".json", []byte(sb.String()+tail))
	case c.Kind == "http/scenario":
		var sb strings.Builder
		sb.WriteString("requests:\n  - name: r\n    method: GET\n    uri: /x\nscenarios:\n")
		for i := 0; i < c.Entries; i++ {
			fmt.Fprintf(&sb, "  - name: s%d\n    weight: 1\n    min_waiting_time: 0\n    requests:\n      - r(1)\n", i)
		}
		conf["type"] = "http/scenario"
		conf["file"] = write(".yaml", []byte(sb.String()))
	case c.Kind == "grpc/scenario":
		var sb strings.Builder
		sb.WriteString("calls:\n  - name: c\n    call: target.TargetService.Hello\n    payload: '{\"name\": \"x\"}'\nscenarios:\n")
		for i := 0; i < c.Entries; i++ {
			fmt.Fprintf(&sb, "  - name: s%d\n    weight: 1\n    min_waiting_time: 0\n    requests:\n      - c(1)\n", i)
		}
		conf["type"] = "grpc/scenario"
		conf["file"] = write(".yaml", []byte(sb.String()))
	case c.Kind == "json":
		var sb strings.Builder
		for i := 0; i < c.Entries; i++ {
			fmt.Fprintf(&sb, "{\"n\": %d}\n", i)
		}
		conf["type"] = "json"
		content = sb.String() + tail
		switch c.source() {
		case "file":
			conf["source"] = map[string]any{"type": "file", "path": write(".json", []byte(content))}
		case "inline":
			conf["source"] = map[string]any{"type": "inline", "data": content}
		case "stdin":
			conf["source"] = map[string]any{"type": "stdin"}
		case "reader_strings", "reader_file", "string":
			// built by buildProvider
		default:
			return nil, "", cleanup, fmt.Errorf("bad source %q", c.Source)
		}
		if c.Queue > 0 {
			conf["ammo-queue-size"] = c.Queue
		}
	default:
		return nil, "", cleanup, fmt.Errorf("bad kind %s", c.Kind)
	}
	return conf, content, cleanup, nil
}

const hangDeadline = 5 * time.Second

func check(c Case, o *vf.Obs) error {
	p, cleanup, err := buildProvider(c)
	defer cleanup()
	if err != nil {
		return fmt.Errorf("valid provider config rejected: %v (%+v)", err, c)
	}
	X := -1 // unbounded
	if c.Limit > 0 {
		X = c.Limit
	}
	eff := c.effEntries() // the entries the test uses: all of the file, or those chosencases lists
	if c.Passes > 0 && (X < 0 || c.Passes*eff < X) {
		X = c.Passes * eff
	}
	o.Class("kind_" + c.Kind)
	switch {
	case c.Limit > 0 && c.Passes > 0:
		o.Class(c.Kind + "/both")
	case c.Limit > 0:
		o.Class(c.Kind + "/limit_only")
	case c.Passes > 0:
		o.Class(c.Kind + "/passes_only")
	default:
		o.Class(c.Kind + "/none")
	}
	o.ClassIf(c.Preload, "preload")
	o.ClassIf(c.Entries == 1, "single_entry")
	o.ClassIf(c.Engine, "through_engine")
	o.ClassIf(c.Filter == "subset", "chosencases_subset")
	o.ClassIf(c.Filter == "subset" && eff < c.Entries, "chosencases_proper_subset")
	o.ClassIf(c.MaxAmmoSize > 0, "maxammosize_set")
	if c.OsFs {
		// the provider holds a real OS file; "bounded" = it ends by itself at its bounds, "cancelled" = only the cancel ends it
		o.Class("os_fs")
		o.Class(c.Kind + "/os_fs")
		o.ClassIf(c.Preload, c.Kind+"/os_fs_preload")
		o.ClassIf(X >= 0 && c.Filter != "nothing", "os_fs_bounded")
		o.ClassIf(X >= 0 && c.Filter != "nothing", c.Kind+"/os_fs_bounded")
		o.ClassIf(X >= 0 && c.Filter != "nothing" && c.Engine, "os_fs_bounded_through_engine")
		o.ClassIf(X >= 0 && c.Filter != "nothing" && c.Engine, c.Kind+"/os_fs_bounded_through_engine")
		o.ClassIf(X < 0 && c.Filter != "nothing" && !c.BrokenTail, "os_fs_cancelled")
		o.ClassIf(X < 0 && c.Filter != "nothing" && !c.BrokenTail, c.Kind+"/os_fs_cancelled")
	}
	if c.Kind == "json" {
		// "read_again" = the bounds need the source to be read from its start more than once
		o.Class("json/source_" + c.source())
		again := X < 0 || X > eff
		o.ClassIf(again, "json/source_"+c.source()+"/read_again")
		o.ClassIf(again && c.Limit > 0, "json/source_"+c.source()+"/read_again_to_limit")
		o.ClassIf(again && c.Limit == 0 && c.Passes > 0, "json/source_"+c.source()+"/read_again_passes_only")
		o.ClassIf(X < 0, "json/source_"+c.source()+"/read_again_unbounded")
	}
	o.ClassIf(c.maxSize() > 0 && c.maxSize() <= defaultMaxEntry, "entries_1k_to_48k")
	if c.maxSize() > defaultMaxEntry {
		// an entry above the default bound of one entry, legal because maxammosize is raised; "reread" = the bounds need
		// the file (and that entry) to be read more than once
		o.Class("entries_over_64k")
		o.Class(c.Kind + "/entries_over_64k")
		reread := X < 0 || X > eff
		o.ClassIf(reread, "entries_over_64k_read_again")
		o.ClassIf(reread, c.Kind+"/entries_over_64k_read_again")
	}
	if c.Filter == "nothing" {
		o.NonTrivial()
		return checkNothing(c, p, o)
	}
	if X >= 0 && !(c.Kind == "uri" && !c.Preload) {
		o.NonTrivial()
	}
	if X >= 0 && c.Engine {
		return checkEngine(c, p, X)
	}
	if X >= 0 {
		res, err := provrun.Drain(p, X+c.Consumers+3, c.Consumers, hangDeadline, nil)
		if err != nil {
			return fmt.Errorf("%s limit=%d passes=%d entries=%d%s: %v", c.Kind, c.Limit, c.Passes, c.Entries, c.extras(), err)
		}
		if len(res.Items) != X {
			return fmt.Errorf("%s (preload=%v) limit=%d passes=%d entries=%d%s: %d ammo delivered, expected min of the non-zero bounds = %d (Run error: %v, hung: %q)",
				c.Kind, c.Preload, c.Limit, c.Passes, c.Entries, c.extras(), len(res.Items), X, res.RunErr, res.Hung)
		}
		if res.Hung != "" {
			return fmt.Errorf("%s (preload=%v) limit=%d passes=%d entries=%d%s: after the bound was reached: %s (nobody may stay blocked, the provider must return by itself)",
				c.Kind, c.Preload, c.Limit, c.Passes, c.Entries, c.extras(), res.Hung)
		}
		if !res.EndSeen {
			return fmt.Errorf("%s%s: consumers never observed end of ammo", c.Kind, c.extras())
		}
		if res.RunErr != nil {
			return fmt.Errorf("%s (preload=%v) limit=%d passes=%d entries=%d%s: provider finished with error %q after delivering its %d ammo, expected nil",
				c.Kind, c.Preload, c.Limit, c.Passes, c.Entries, c.extras(), res.RunErr, X)
		}
		return nil
	}
	// unbounded: take 3E+2, then cancel; everything must come back promptly
	want := 3*c.Entries + 2
	if c.Live {
		return checkLive(c, p, want, o)
	}
	o.ClassIf(c.SettleUs > 0, "cancel_after_consumers_stopped")
	o.ClassIf(c.SettleUs > 0, c.Kind+"/cancel_after_consumers_stopped")
	res, err := provrun.DrainSettle(p, want, c.Consumers, hangDeadline, time.Duration(c.SettleUs)*time.Microsecond, nil)
	if err != nil {
		return fmt.Errorf("%s%s unbounded, cancelled %dus after the consumers took their last ammo: %v", c.Kind, c.extras(), c.SettleUs, err)
	}
	if len(res.Items) != want {
		return fmt.Errorf("%s%s unbounded (limit=0, passes=0): only %d ammo delivered of the %d requested (Run error: %v)", c.Kind, c.extras(), len(res.Items), want, res.RunErr)
	}
	if res.Hung != "" {
		return fmt.Errorf("%s%s unbounded: %s", c.Kind, c.extras(), res.Hung)
	}
	if res.RunErr != nil && res.RunErr != context.Canceled && !strings.Contains(res.RunErr.Error(), "context canceled") {
		return fmt.Errorf("%s%s unbounded: Run returned %q after cancel (expected nil or the context error)", c.Kind, c.extras(), res.RunErr)
	}
	if c.OsFs && !cleanCancel(res.RunErr) {
		return fmt.Errorf("%s (preload=%v)%s unbounded, ammo file on the OS file system: Run returned %q after cancel, expected nil or the bare context error (the engine fails the pool for anything else)", c.Kind, c.Preload, c.extras(), res.RunErr)
	}
	return nil
}

// cleanCancel: what a cancelled provider may return so that the run still "ends successfully" - nil, or the error of its
// cancelled context as such. It is the test core/engine applies to the provider's result (errutil.IsCtxError: the cause
// of the error is the context's error); a context error bundled with another failure ("Multiple errors faced: context
// canceled, close ...") has no such cause and fails the pool.
func cleanCancel(err error) bool {
	return err == nil || pkgerrors.Cause(err) == context.Canceled
}

// checkLive: nobody stops acquiring by itself. Whatever makes Run return - the cancel that arrives while the consumers
// are acquiring, or a malformed entry - every consumer, also one that calls Acquire only afterwards, must come to end of
// ammo instead of staying blocked ("once ... it is cancelled a provider never keeps consumers blocked ... and returns
// promptly"; a failed provider has stopped for good just the same).
func checkLive(c Case, p core.Provider, want int, o *vf.Obs) error {
	o.Class("live_consumers")
	o.Class(c.Kind + "/live_consumers")
	o.ClassIf(c.Late > 0, "late_consumers")
	o.ClassIf(c.BrokenTail, "broken_tail")
	what := fmt.Sprintf("%s (preload=%v)%s unbounded, %d consumers acquiring until end of ammo, cancelled after %d ammo (+%dus)", c.Kind, c.Preload, c.extras(), c.Consumers, want, c.SettleUs)
	if c.BrokenTail {
		what = fmt.Sprintf("%s (preload=%v)%s unbounded, file of %d entries followed by a malformed one, %d consumers acquiring until end of ammo", c.Kind, c.Preload, c.extras(), c.Entries, c.Consumers)
	}
	res, err := provrun.DrainLive(p, want, c.Consumers, c.Late, hangDeadline, time.Duration(c.SettleUs)*time.Microsecond)
	if err != nil {
		return fmt.Errorf("%s: %v", what, err)
	}
	o.ClassIf(res.SelfStopped && res.RunErr != nil, "provider_failed_with_consumers_acquiring")
	if res.Hung != "" {
		return fmt.Errorf("%s: %s", what, res.Hung)
	}
	if !res.SelfStopped && res.RunErr != nil && res.RunErr != context.Canceled && !strings.Contains(res.RunErr.Error(), "context canceled") {
		return fmt.Errorf("%s: Run returned %q after cancel (expected nil or the context error)", what, res.RunErr)
	}
	if c.OsFs && !c.BrokenTail && !res.SelfStopped && !cleanCancel(res.RunErr) {
		return fmt.Errorf("%s, ammo file on the OS file system: Run returned %q after cancel, expected nil or the bare context error (the engine fails the pool for anything else)", what, res.RunErr)
	}
	if res.SelfStopped && res.RunErr == nil && !c.BrokenTail {
		return fmt.Errorf("%s: Run returned nil by itself after %d ammo although neither limit nor passes is set", what, res.Taken)
	}
	return nil
}

// extras describes the options beyond the bounds for messages ("" when none is set).
func (c Case) extras() string {
	var sb strings.Builder
	if c.Kind == "json" {
		fmt.Fprintf(&sb, " source=%s", c.source())
		if c.Queue > 0 {
			fmt.Fprintf(&sb, " ammo-queue-size=%d", c.Queue)
		}
	}
	switch c.Filter {
	case "subset":
		fmt.Fprintf(&sb, " chosencases=tags of entries %v", c.Chosen)
		if c.GhostTag != "" {
			fmt.Fprintf(&sb, "+%q", c.GhostTag)
		}
		fmt.Fprintf(&sb, " (%d entries chosen)", len(c.Chosen))
	case "nothing":
		fmt.Fprintf(&sb, " chosencases=[%q] (matches no entry)", c.GhostTag)
	}
	if c.MaxAmmoSize > 0 {
		fmt.Fprintf(&sb, " maxammosize=%d", c.MaxAmmoSize)
	}
	if c.OsFs {
		sb.WriteString(" fs=os")
	}
	if c.maxSize() > 0 {
		fmt.Fprintf(&sb, " entry body sizes=%v", c.Sizes)
	}
	return sb.String()
}

// checkNothing: chosencases lists only a tag that no entry carries, so the provider has nothing to hand over and -
// unless it ends by itself (passes used up, "no ammo" failure) - is reading its file when the cancel arrives, not
// parked on the hand-over as in the other cancelled cells. "Once ... it is cancelled a provider never keeps consumers
// blocked, never spins, and returns promptly": Run must return within the hang deadline after the cancel, the consumers
// that were in Acquire all along and consumers calling Acquire afterwards must see end of ammo, and not one ammo may have
// been delivered (min(limit, passes x 0)). How a provider that never had ammo ends by itself (nil / error) is not
// judged here (known open question chosencases-empty-match-preload-differs of C14).
func checkNothing(c Case, p core.Provider, o *vf.Obs) error {
	o.Class("chosencases_match_nothing")
	o.Class(c.Kind + "/chosencases_match_nothing")
	what := fmt.Sprintf("%s (preload=%v) limit=%d passes=%d entries=%d%s, %d consumers in Acquire", c.Kind, c.Preload, c.Limit, c.Passes, c.Entries, c.extras(), c.Consumers)
	ctx, cancel := context.WithCancel(context.Background())
	defer cancel()
	runDone := make(chan error, 1)
	go func() {
		defer func() {
			if r := recover(); r != nil {
				runDone <- fmt.Errorf("panic in provider.Run: %v", r)
			}
		}()
		runDone <- p.Run(ctx, core.ProviderDeps{Log: pand.NopLog(), PoolID: "verif"})
	}()
	var taken atomic.Int64
	var panicked atomic.Value
	consume := func(n int) chan struct{} {
		var wg sync.WaitGroup
		for i := 0; i < n; i++ {
			wg.Add(1)
			go func() {
				defer wg.Done()
				defer func() {
					if r := recover(); r != nil {
						panicked.Store(fmt.Sprintf("panic in Acquire/Release: %v", r))
					}
				}()
				for {
					a, ok := p.Acquire()
					if !ok {
						return
					}
					taken.Add(1)
					p.Release(a)
				}
			}()
		}
		done := make(chan struct{})
		go func() { wg.Wait(); close(done) }()
		return done
	}
	liveDone := consume(c.Consumers)
	// the provider scans for a while (or ends by itself), then the cancel
	var runErr error
	selfStopped := false
	scan := time.NewTimer(time.Duration(c.SettleUs) * time.Microsecond)
	defer scan.Stop()
	select {
	case runErr = <-runDone:
		selfStopped = true
	case <-scan.C:
	}
	cancel()
	if !selfStopped {
		o.Class("cancelled_while_scanning")
		o.Class(c.Kind + "/cancelled_while_scanning")
		select {
		case runErr = <-runDone:
		case <-time.After(hangDeadline):
			return fmt.Errorf("%s: Provider.Run has not returned %v after its context was cancelled (cancel came %dus after the start, while the provider was reading its file)", what, hangDeadline, c.SettleUs)
		}
	}
	select {
	case <-liveDone:
	case <-time.After(hangDeadline):
		return fmt.Errorf("%s: Run has returned (%v, by itself: %v) but the consumers are still blocked in Acquire %v later", what, runErr, selfStopped, hangDeadline)
	}
	if c.Late > 0 {
		select {
		case <-consume(c.Late):
		case <-time.After(hangDeadline):
			return fmt.Errorf("%s: Run has returned (%v), but %d consumer(s) calling Acquire afterwards are still blocked %v later instead of seeing end of ammo", what, runErr, c.Late, hangDeadline)
		}
	}
	if v := panicked.Load(); v != nil {
		return fmt.Errorf("%s: %v", what, v)
	}
	if n := taken.Load(); n != 0 {
		return fmt.Errorf("%s: %d ammo delivered although no entry carries a listed tag", what, n)
	}
	return nil
}

type countGun struct{ n *atomic.Int64 }

func (g countGun) Bind(core.Aggregator, core.GunDeps) error { return nil }
func (g countGun) Shoot(core.Ammo)                          { g.n.Add(1) }

func checkEngine(c Case, p core.Provider, X int) error {
	var shots atomic.Int64
	aggr := fake.NewAggregator(fake.AggPlan{})
	conf := engine.Config{Pools: []engine.InstancePoolConfig{{
		ID: "p", Provider: p, Aggregator: aggr,
		NewGun:          func() (core.Gun, error) { return countGun{&shots}, nil },
		NewRPSSchedule:  func() (core.Schedule, error) { return schedule.NewOnce(int64(X + 50)), nil },
		StartupSchedule: schedule.NewOnce(int64(c.Consumers)),
	}}}
	eng := engine.New(pand.NopLog(), pand.Metrics(), conf)
	ctx, cancel := context.WithCancel(context.Background())
	defer cancel()
	var runErr error
	ok, _ := vf.Deadline(hangDeadline, func() { runErr = eng.Run(ctx) })
	if !ok {
		cancel()
		return fmt.Errorf("%s (preload=%v) limit=%d passes=%d entries=%d"+c.extras()+": a pool over this provider did not finish within %v although only %d ammo exist (%d shots so far)",
			c.Kind, c.Preload, c.Limit, c.Passes, c.Entries, hangDeadline, X, shots.Load())
	}
	if runErr != nil {
		return fmt.Errorf("%s (preload=%v) limit=%d passes=%d entries=%d"+c.extras()+": the run ended with %q, expected success after %d shots (%d made)",
			c.Kind, c.Preload, c.Limit, c.Passes, c.Entries, runErr, X, shots.Load())
	}
	if int(shots.Load()) != X {
		return fmt.Errorf("%s (preload=%v) limit=%d passes=%d entries=%d"+c.extras()+": %d shots, expected %d", c.Kind, c.Preload, c.Limit, c.Passes, c.Entries, shots.Load(), X)
	}
	return nil
}

func TestBounds(t *testing.T) {
	pand.Init()
	r := vf.Start(t, "C08")
	vf.Check(r, genCase, check)
}
