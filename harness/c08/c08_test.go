// C08 — limit/passes semantics and clean end-of-ammo on every provider.
//
// Oracle: X = min of the non-zero bounds among {limit, passes*E}; exactly X items,
// then end of ammo, Run returns nil, nobody stays blocked, nothing spins.
package c08

import (
	"context"
	"encoding/json"
	"fmt"
	"io"
	"os"
	"path/filepath"
	"strings"
	"sync"
	"sync/atomic"
	"testing"
	"time"

	ag "verif/harness/internal/ammogen"
	"verif/harness/internal/fake"
	"verif/harness/internal/pand"
	"verif/harness/internal/provrun"
	"verif/harness/internal/vf"

	pkgerrors "github.com/pkg/errors"
	"github.com/spf13/afero"
	grpcammo "github.com/yandex/pandora/components/providers/grpc"
	"github.com/yandex/pandora/components/providers/grpc/grpcjson"
	httpprovider "github.com/yandex/pandora/components/providers/http"
	httpconfig "github.com/yandex/pandora/components/providers/http/config"
	"github.com/yandex/pandora/core"
	"github.com/yandex/pandora/core/datasource"
	"github.com/yandex/pandora/core/engine"
	"github.com/yandex/pandora/core/provider"
	"github.com/yandex/pandora/core/schedule"
	"pgregory.net/rapid"
)

var kinds = []string{"uri", "uripost", "raw", "jsonline", "jsonarray", "grpc/json", "http/scenario", "grpc/scenario", "json"}

type Case struct {
	Kind      string `json:"kind"`
	Preload   bool   `json:"preload"`
	Entries   int    `json:"entries"`
	Limit     int    `json:"limit"`
	Passes    int    `json:"passes"`
	Consumers int    `json:"consumers"`
	Engine    bool   `json:"through_engine"`
	// unbounded cells: pause between the consumers' last Acquire and the cancel, and (generic json provider) queue size
	SettleUs int `json:"settle_us,omitempty"`
	Queue    int `json:"ammo_queue_size,omitempty"`
	// unbounded cells, "live" drain: the consumers never stop acquiring by themselves - the provider is cancelled (or,
	// with BrokenTail, fails on a malformed entry after the good ones) while they are in or about to enter Acquire -
	// and Late more consumers call Acquire only after Run has returned.
	Live       bool `json:"live_consumers,omitempty"`
	Late       int  `json:"late_consumers,omitempty"`
	BrokenTail bool `json:"broken_tail,omitempty"`
	// `chosencases` (HTTP formats and grpc/json): "subset" lists the tags of the entries Chosen (indexes, at least one)
	// and, with GhostTag, a tag no entry carries; "nothing" lists only GhostTag - the filter matches no entry of the file.
	Filter   string `json:"chosencases,omitempty"`
	Chosen   []int  `json:"chosen_entries,omitempty"`
	GhostTag string `json:"ghost_tag,omitempty"`
	// entry sizes (kinds whose entries carry a body / payload): filler bytes per entry, 0 = the tiny default; and the
	// `maxammosize` option (HTTP formats and grpc/json). Entries above 64 KiB (bufio.MaxScanTokenSize, the documented
	// default of maxammosize) are generated only for http/json and grpc/json and only with maxammosize well above them.
	Sizes       []int `json:"entry_sizes,omitempty"`
	MaxAmmoSize int   `json:"maxammosize,omitempty"`
	// generic json provider: the data source its `source` option names (one of jsonSources; "" = "file")
	Source string `json:"source,omitempty"`
	// OsFs (HTTP formats and grpc/json): the ammo file is a real file in a temporary directory and the provider reads it
	// through afero.NewOsFs(), the file system the pandora binary passes to the providers (cli: Import(afero.NewOsFs())),
	// instead of the in-memory one. See buildOnOsFs.
	OsFs bool `json:"os_fs,omitempty"`
	// LongRun > 0: the bounds were scaled up so that about LongRun ammo are delivered (unbounded cells: LongRun ammo are
	// taken before the cancel) - more than the queue of any provider holds (128 for the HTTP and grpc providers), so the
	// provider is still reading while consumers acquire AND RELEASE ammo, and released ammo objects come back to it.
	LongRun int `json:"long_run,omitempty"`
	// Keys (grpc/json): Keys[i] lists the optional keys line i of the file carries - 't' = tag, 'm' = metadata,
	// 'p' = payload; `call` is always there. nil = every line has tag and payload (what this check always wrote).
	// An entry without tag can never be chosen by chosencases.
	Keys []string `json:"entry_keys,omitempty"`
	// Long lines (uri, uripost, raw): LongLine says which line is made long, LineLens by how many filler bytes -
	//   "uri":    entry i's URI gets a query string of LineLens[i] bytes (uri: the `uri [tag]` line, uripost: the
	//             `bodySize uri [tag]` line, raw: the request line inside the sized block),
	//   "tag":    entry i's tag is t<i>_<LineLens[i] bytes> (the same lines; raw: the `size tag` line),
	//   "header": a header line `[X-Long: <LineLens[0] bytes>]` precedes the first entry (uri, uripost); raw: entry i's
	//             request carries a header line X-Long of LineLens[i] bytes.
	// Lengths stay below 64 KiB (the uri reader's bufio.Scanner limit for one line); bodies are another dimension (Sizes).
	LongLine string `json:"long_line,omitempty"`
	LineLens []int  `json:"line_lens,omitempty"`
}

// kinds whose files are made of lines that have no length bound of their own below the reader's
func hasLines(k string) bool { return k == "uri" || k == "uripost" || k == "raw" }

func (c Case) lineLen(i int) int {
	if i < len(c.LineLens) {
		return c.LineLens[i]
	}
	return 0
}

func (c Case) maxLine() int {
	m := 0
	for _, s := range c.LineLens {
		if s > m {
			m = s
		}
	}
	return m
}

// tag of entry i ("" = the entry has none: grpc/json lines without the key)
func (c Case) tag(i int) string {
	if c.Kind == "grpc/json" && !strings.Contains(c.keys(i), "t") {
		return ""
	}
	if c.LongLine == "tag" && c.lineLen(i) > 0 {
		return fmt.Sprintf("t%d_%s", i, filler(c.lineLen(i)))
	}
	return fmt.Sprintf("t%d", i)
}

func (c Case) uri(i int) string {
	if c.LongLine == "uri" && c.lineLen(i) > 0 {
		return fmt.Sprintf("/e%d?q=%s", i, filler(c.lineLen(i)))
	}
	return fmt.Sprintf("/e%d", i)
}

// optional keys of grpc/json line i
func (c Case) keys(i int) string {
	if i < len(c.Keys) {
		return c.Keys[i]
	}
	return "tp"
}

func (c Case) mixedKeys() bool {
	for i := 1; i < len(c.Keys); i++ {
		if c.Keys[i] != c.Keys[0] {
			return true
		}
	}
	return false
}

// indexes of the entries that count, in file order: all of them, or those chosencases lists
func (c Case) counted() []int {
	switch c.Filter {
	case "subset":
		return c.Chosen
	case "nothing":
		return nil
	}
	out := make([]int, c.Entries)
	for i := range out {
		out[i] = i
	}
	return out
}

// kinds that are also built over the real file system
func hasOsFs(k string) bool { return isHTTP(k) || k == "grpc/json" }

// The data sources of the generic JSON (decode) provider. The first three are what a config can name (core/import registers
// file, stdin and inline; the string shorthand `source: <path>` is not generated - core/import never installs its
// sourceStringHook, so such a config is rejected, which is no matter of this property); the last three are what a custom
// pandora passes to provider.NewJSONProvider itself (datasource.NewReader over a strings.Reader / an
// open file, datasource.NewString). Every one of them can be read again from its start, so limit and passes mean for
// all of them what they mean for a file. (A pipe cannot be re-read - "Ammo data source can't sought, so will be read only
// once" - and is not generated: stdin is a regular file, as with `pandora conf.yaml < ammo.json`.)
var jsonSources = []string{"file", "inline", "stdin", "reader_strings", "reader_file", "string"}

func (c Case) source() string {
	if c.Source == "" {
		return "file"
	}
	return c.Source
}

// kinds that have the chosencases and maxammosize options
func hasFilter(k string) bool { return isHTTP(k) || k == "grpc/json" }

// kinds whose entries have a body / payload that can be made long
func hasBody(k string) bool {
	return k == "uripost" || k == "raw" || k == "jsonline" || k == "jsonarray" || k == "grpc/json"
}

// kinds for which maxammosize is documented as the bound of one entry ("Maximum number of byte in (jsonline) ammo")
func sizeBoundedByOption(k string) bool {
	return k == "jsonline" || k == "jsonarray" || k == "grpc/json"
}

const defaultMaxEntry = 64 << 10 // bufio.MaxScanTokenSize

// effective number of entries: those the chosencases filter lets through
func (c Case) effEntries() int {
	switch c.Filter {
	case "subset":
		return len(c.Chosen)
	case "nothing":
		return 0
	}
	return c.Entries
}

func (c Case) maxSize() int {
	m := 0
	for _, s := range c.Sizes {
		if s > m {
			m = s
		}
	}
	return m
}

func (c Case) size(i int) int {
	if i < len(c.Sizes) {
		return c.Sizes[i]
	}
	return 0
}

func filler(n int) string {
	const pat = "abcdefghijklmnopqrstuvwxyz0123456789ABCDEFGHIJKLMNOPQRSTUVWXYZ-_"
	var sb strings.Builder
	sb.Grow(n)
	for sb.Len() < n {
		k := n - sb.Len()
		if k > len(pat) {
			k = len(pat)
		}
		sb.WriteString(pat[:k])
	}
	return sb.String()
}

// kinds whose file is read entry by entry while the provider runs: a malformed entry after good ones is met mid-run
func canBreak(k string) bool {
	return k == "uri" || k == "uripost" || k == "raw" || k == "jsonline" || k == "grpc/json" || k == "json"
}

func brokenTail(k string) string {
	switch k {
	case "uri":
		return "[broken header\n"
	case "uripost", "raw":
		return "notanumber /x tag\n"
	}
	return "{\"broken\n"
}

func isHTTP(k string) bool {
	return k == "uri" || k == "uripost" || k == "raw" || k == "jsonline" || k == "jsonarray"
}

func genCase(t *rapid.T) Case { return genCaseOf(t, false) }

// genLongRunCase (TestLongRuns): every case is a long run - 140-600 ammo, more than any provider's queue holds, so that
// the provider is reading while the consumers release what they got - over entries of the tiny default size; grpc/json,
// whose provider takes the objects it decodes into from a pool fed by Release, is drawn four times as often as the
// others and always with two or more lines that differ in the keys they carry; chosencases is a subset in two cells of
// three of the kinds that have it (never "matches nothing": nothing is delivered there). Everything else as genCase.
func genLongRunCase(t *rapid.T) Case { return genCaseOf(t, true) }

func genCaseOf(t *rapid.T, long bool) Case {
	c := Case{}
	// the generic json provider is drawn three times as often as the others: it alone has the data-source dimension
	pool := append(append([]string{}, kinds...), "json", "json")
	if long {
		pool = append(append([]string{}, kinds...), "grpc/json", "grpc/json", "grpc/json")
	}
	c.Kind = rapid.SampledFrom(pool).Draw(t, "kind")
	if isHTTP(c.Kind) {
		c.Preload = rapid.Bool().Draw(t, "preload")
	}
	c.Entries = rapid.IntRange(1, 5).Draw(t, "entries")
	if long && c.Kind == "grpc/json" && c.Entries == 1 {
		c.Entries = rapid.IntRange(2, 5).Draw(t, "entriesMixed")
	}
	switch rapid.SampledFrom([]string{"limit", "passes", "both", "none", "both"}).Draw(t, "bounds") {
	case "limit":
		c.Limit = rapid.IntRange(1, 2*c.Entries+1).Draw(t, "limit")
	case "passes":
		c.Passes = rapid.IntRange(1, 3).Draw(t, "passes")
	case "both":
		c.Limit = rapid.IntRange(1, 2*c.Entries+1).Draw(t, "limit")
		c.Passes = rapid.IntRange(1, 3).Draw(t, "passes")
	}
	c.Consumers = rapid.IntRange(1, 4).Draw(t, "consumers")
	c.Engine = rapid.IntRange(0, 2).Draw(t, "engine") == 0
	if c.Limit == 0 && c.Passes == 0 {
		c.SettleUs = rapid.SampledFrom([]int{0, 300, 3000, 20000}).Draw(t, "settleUs")
		switch rapid.SampledFrom([]string{"stop", "live", "live", "broken"}).Draw(t, "drain") {
		case "live":
			c.Live = true
		case "broken":
			c.Live, c.BrokenTail = true, canBreak(c.Kind)
		}
		if c.Live {
			c.Late = rapid.IntRange(0, 3).Draw(t, "late")
		}
	}
	if c.Kind == "json" {
		c.Queue = rapid.SampledFrom([]int{0, 1, 4, 64}).Draw(t, "queue")
		c.Source = rapid.SampledFrom(jsonSources).Draw(t, "source")
	}
	if hasFilter(c.Kind) {
		filters := []string{"", "", "", "subset", "subset", "nothing"}
		if long {
			filters = []string{"", "subset", "subset"}
		}
		switch rapid.SampledFrom(filters).Draw(t, "chosencases") {
		case "subset":
			c.Filter = "subset"
			first := rapid.IntRange(0, c.Entries-1).Draw(t, "chosenFirst")
			for i := 0; i < c.Entries; i++ {
				if i == first || rapid.Bool().Draw(t, "chosen") {
					c.Chosen = append(c.Chosen, i)
				}
			}
			if rapid.Bool().Draw(t, "ghost") {
				c.GhostTag = genGhost(t, c.Entries)
			}
		case "nothing":
			c.Filter = "nothing"
			c.GhostTag = genGhost(t, c.Entries)
			c.SettleUs = rapid.SampledFrom([]int{0, 300, 3000, 20000}).Draw(t, "scanUs")
			c.Late = rapid.IntRange(0, 2).Draw(t, "lateNothing")
			c.Live, c.BrokenTail, c.Engine = false, false, false
			if rapid.IntRange(0, 2).Draw(t, "scansUntilCancel") > 0 {
				// the cell in which nothing ends the provider but the cancel: it streams and no pass bound is set
				c.Preload, c.Passes = false, 0
			}
		}
	}
	if hasBody(c.Kind) && !long {
		sz := rapid.SampledFrom([]string{"tiny", "big", "medium", "tiny", "big"}).Draw(t, "sizes")
		if sz == "big" && !sizeBoundedByOption(c.Kind) {
			sz = rapid.SampledFrom([]string{"tiny", "medium"}).Draw(t, "sizesNoOption")
		}
		if sz != "tiny" {
			c.Sizes = make([]int, c.Entries)
			special := rapid.IntRange(0, c.Entries-1).Draw(t, "sizedEntry")
			for i := range c.Sizes {
				if i != special && rapid.Bool().Draw(t, "staysTiny") {
					continue
				}
				if sz == "big" && (i == special || rapid.IntRange(0, 3).Draw(t, "alsoBig") == 0) {
					c.Sizes[i] = rapid.IntRange(70<<10, 160<<10).Draw(t, "bigSize")
				} else {
					c.Sizes[i] = rapid.IntRange(1<<10, 48<<10).Draw(t, "mediumSize")
				}
			}
		}
	}
	if hasFilter(c.Kind) {
		switch {
		case c.maxSize() > defaultMaxEntry:
			c.MaxAmmoSize = rapid.SampledFrom([]int{256 << 10, 1 << 20, 4 << 20}).Draw(t, "maxammosizeBig")
		case c.maxSize() == 0:
			c.MaxAmmoSize = rapid.SampledFrom([]int{0, 0, 0, 4096, 128 << 10, 1 << 20}).Draw(t, "maxammosizeTiny")
		default:
			c.MaxAmmoSize = rapid.SampledFrom([]int{0, 0, 0, 128 << 10, 1 << 20}).Draw(t, "maxammosize")
		}
	}
	if hasOsFs(c.Kind) {
		c.OsFs = rapid.IntRange(0, 4).Draw(t, "osFs") < 2
	}
	if hasLines(c.Kind) && !long && rapid.IntRange(0, 3).Draw(t, "longLines") == 0 {
		genLongLines(t, &c)
	}
	if c.Kind == "grpc/json" && (long || rapid.Bool().Draw(t, "keyMix")) {
		genKeys(t, &c)
	}
	// long runs: only with entries of the tiny default size (a long run over 100 KiB entries costs seconds), and not where
	// nothing is ever delivered. Half of the grpc/json cells with differing key sets, a sixth of the rest.
	if c.maxSize() == 0 && c.maxLine() == 0 && c.Filter != "nothing" {
		odds := 6
		if c.mixedKeys() {
			odds = 2
		}
		if long || rapid.IntRange(1, odds).Draw(t, "longRun") == 1 {
			genLongRun(t, &c)
		}
	}
	return c
}

// genLongLines makes one kind of line of the file longer than the 4096 bytes a bufio.Reader / bufio.Scanner holds at first.
func genLongLines(t *rapid.T, c *Case) {
	c.LongLine = rapid.SampledFrom([]string{"uri", "uri", "uri", "tag", "header"}).Draw(t, "longLineWhere")
	lineLen := func() int {
		switch rapid.SampledFrom([]string{"edge4k", "mid", "mid", "edge8k", "large", "huge"}).Draw(t, "lineLenRange") {
		case "edge4k": // the line ends within a few bytes of the 4096th
			return rapid.IntRange(4040, 4200).Draw(t, "lineLen")
		case "mid":
			return rapid.IntRange(4097, 9000).Draw(t, "lineLen")
		case "edge8k":
			return rapid.IntRange(8100, 8300).Draw(t, "lineLen")
		case "large":
			return rapid.IntRange(9000, 20000).Draw(t, "lineLen")
		}
		return rapid.IntRange(20000, 60000).Draw(t, "lineLen")
	}
	if c.LongLine == "header" && c.Kind != "raw" {
		c.LineLens = []int{lineLen()}
		return
	}
	c.LineLens = make([]int, c.Entries)
	special := rapid.IntRange(0, c.Entries-1).Draw(t, "longLineEntry")
	for i := range c.LineLens {
		if i == special || rapid.Bool().Draw(t, "alsoLongLine") {
			c.LineLens[i] = lineLen()
		}
	}
}

// genKeys draws which optional keys every line of a grpc/json file carries. Entries that chosencases lists keep their tag
// (the oracle's `entries` is their number); where the filter leaves room at least one entry has no tag, and with two or
// more entries one line has tag and metadata and another one lacks the metadata.
func genKeys(t *rapid.T, c *Case) {
	chosen := map[int]bool{}
	for _, i := range c.Chosen {
		chosen[i] = true
	}
	c.Keys = make([]string, c.Entries)
	full := rapid.IntRange(0, c.Entries-1).Draw(t, "fullEntry")
	bare := -1
	if c.Entries > 1 {
		bare = (full + rapid.IntRange(1, c.Entries-1).Draw(t, "bareEntry")) % c.Entries
	}
	for i := range c.Keys {
		k := ""
		switch {
		case i == full:
			k = "tmp"
		case i == bare:
			if chosen[i] || (c.Filter == "" && rapid.Bool().Draw(t, "bareTagged")) {
				k = "t"
			}
			if c.size(i) > 0 || rapid.Bool().Draw(t, "barePayload") {
				k += "p"
			}
		default:
			if chosen[i] || rapid.Bool().Draw(t, "hasTag") {
				k = "t"
			}
			if rapid.Bool().Draw(t, "hasMetadata") {
				k += "m"
			}
			if c.size(i) > 0 || rapid.Bool().Draw(t, "hasPayload") {
				k += "p"
			}
		}
		c.Keys[i] = k
	}
}

// genLongRun scales the bounds the case has (limit only / passes only / both / none stays what it is) so that about
// 140-600 ammo are delivered.
func genLongRun(t *rapid.T, c *Case) {
	eff := c.effEntries()
	if eff < 1 {
		return
	}
	n := rapid.IntRange(140, 600).Draw(t, "longRunAmmo")
	passes := (n + eff - 1) / eff
	switch {
	case c.Limit > 0 && c.Passes > 0:
		if rapid.Bool().Draw(t, "longRunLimitBinds") {
			c.Limit, c.Passes = n, passes+rapid.IntRange(0, 2).Draw(t, "sparePasses")
		} else {
			c.Passes, c.Limit = passes, passes*eff+rapid.IntRange(0, 5).Draw(t, "spareLimit")
		}
	case c.Limit > 0:
		c.Limit = n
	case c.Passes > 0:
		c.Passes = passes
	}
	c.LongRun = n
}

// a tag that no entry of the file carries (entries are tagged t0..t<E-1>): unrelated, the next index, or near misses
func genGhost(t *rapid.T, entries int) string {
	return rapid.SampledFrom([]string{"no-such-tag", fmt.Sprintf("t%d", entries), "T0", "t0x", "t"}).Draw(t, "ghostTag")
}

func simpleFile(c Case) ag.File {
	f := ag.File{Format: c.Kind}
	if c.Kind == "jsonarray" {
		f.Format = "jsonline"
		f.Layout.JSON = "array"
	}
	if c.LongLine == "header" && c.Kind != "raw" && c.lineLen(0) > 0 {
		f.Items = append(f.Items, ag.Item{Dir: &ag.KV{K: "X-Long", V: filler(c.lineLen(0))}})
	}
	for i := 0; i < c.Entries; i++ {
		e := ag.Entry{Method: "GET", URI: c.uri(i), Tag: c.tag(i)}
		switch f.Format {
		case "uripost":
			e.Method = "POST"
			e.Body = []byte(fmt.Sprintf("body%d", i))
		case "raw":
			e.Host = "h.example.com"
			if c.LongLine == "header" && c.lineLen(i) > 0 {
				e.Headers = []ag.KV{{K: "X-Long", V: filler(c.lineLen(i))}}
			}
		}
		if sz := c.size(i); sz > 0 {
			e.Method = "POST"
			e.Body = []byte(filler(sz))
		}
		f.Items = append(f.Items, ag.Item{Entry: &e})
	}
	return f
}

// grpcEntry is line i of the grpc/json file: `call` plus the optional keys the case gives it.
func grpcEntry(c Case, i int) map[string]any {
	m := map[string]any{"call": "target.TargetService.Hello"}
	k := c.keys(i)
	if strings.Contains(k, "t") {
		m["tag"] = c.tag(i)
	}
	if strings.Contains(k, "m") {
		m["metadata"] = map[string]string{"k": fmt.Sprintf("v%d", i)}
	}
	if strings.Contains(k, "p") {
		m["payload"] = map[string]any{"name": fmt.Sprintf("n%d", i) + filler(c.size(i))}
	}
	return m
}

// stdinMu guards os.Stdin, which the stdin data source reads when it is constructed.
var stdinMu sync.Mutex

// buildProvider writes the ammo file(s) for the case and builds the provider: through config decoding, except for the
// generic json provider over a source that only a custom pandora can pass (see jsonSources).
func buildProvider(c Case) (p core.Provider, cleanup func(), err error) {
	conf, content, cleanup, err := buildConf(c)
	if err != nil {
		return nil, cleanup, err
	}
	if c.OsFs && hasOsFs(c.Kind) {
		p, err = buildOnOsFs(c, conf)
		return p, cleanup, err
	}
	if c.Kind != "json" {
		p, err = provrun.Build(conf)
		return p, cleanup, err
	}
	switch c.source() {
	case "stdin":
		// a regular file stands in for the redirected standard input
		f, e := os.CreateTemp("", "verif-c08-stdin-")
		if e != nil {
			return nil, cleanup, e
		}
		prev := cleanup
		cleanup = func() { prev(); f.Close(); os.Remove(f.Name()) }
		if _, e = f.WriteString(content); e == nil {
			_, e = f.Seek(0, io.SeekStart)
		}
		if e != nil {
			return nil, cleanup, e
		}
		stdinMu.Lock()
		saved := os.Stdin
		os.Stdin = f
		p, err = provrun.Build(conf)
		os.Stdin = saved
		stdinMu.Unlock()
		return p, cleanup, err
	case "reader_strings", "reader_file", "string":
		jc := provider.DefaultJSONProviderConfig()
		jc.Decode.Limit, jc.Decode.Passes = c.Limit, c.Passes
		if c.Queue > 0 {
			jc.Decode.Queue.AmmoQueueSize = c.Queue
		}
		switch c.source() {
		case "reader_strings":
			jc.Decode.Source = datasource.NewReader(strings.NewReader(content))
		case "string":
			jc.Decode.Source = datasource.NewString(content)
		case "reader_file":
			name := pand.WriteFile("c08", ".json", []byte(content))
			f, e := pand.FS().Open(name)
			prev := cleanup
			cleanup = func() {
				prev()
				if f != nil {
					f.Close()
				}
				pand.Remove(name)
			}
			if e != nil {
				return nil, cleanup, e
			}
			jc.Decode.Source = datasource.NewReader(f)
		}
		return provider.NewJSONProvider(func() core.Ammo { return &map[string]interface{}{} }, jc), cleanup, nil
	}
	p, err = provrun.Build(conf)
	return p, cleanup, err
}

// buildOnOsFs builds the provider the way the plugin factories registered by pandora's Import functions do - the options
// are decoded into the provider's config struct by the real config decoding, the factory's constructor is called with that
// struct - but with afero.NewOsFs() as the file system: the registry of this process is bound to the shared in-memory fs
// (the Import functions can be called once), the pandora binary binds it to the OS. What differs is the file object the
// provider holds: an *os.File (a descriptor; reading, seeking or closing it after it was closed is an error) instead of
// afero's mem.File, whose Close is idempotent. conf["file"] is an absolute path of a real file here (see buildConf).
func buildOnOsFs(c Case, conf map[string]any) (core.Provider, error) {
	opts := map[string]any{}
	for k, v := range conf {
		if k != "type" {
			opts[k] = v
		}
	}
	fs := afero.NewOsFs()
	if c.Kind == "grpc/json" {
		var cfg grpcjson.Config
		if err := pand.Decode(opts, &cfg); err != nil {
			return nil, err
		}
		return grpcjson.NewProvider(fs, cfg), nil
	}
	var cfg httpconfig.Config
	if err := pand.Decode(opts, &cfg); err != nil {
		return nil, err
	}
	// what components/providers/http Import does for the provider types "uri", "uripost", "raw", "http/json"
	switch c.Kind {
	case "uri":
		cfg.Decoder = httpconfig.DecoderURI
	case "uripost":
		cfg.Decoder = httpconfig.DecoderURIPost
	case "raw":
		cfg.Decoder = httpconfig.DecoderRaw
	case "jsonline", "jsonarray":
		cfg.Decoder = httpconfig.DecoderJSONLine
	default:
		return nil, fmt.Errorf("harness: no OS-fs construction for kind %s", c.Kind)
	}
	return httpprovider.NewProvider(fs, cfg)
}

// buildConf writes the ammo file(s) for the case and returns the provider config (and, for the generic json provider,
// the text of its source).
func buildConf(c Case) (conf map[string]any, content string, cleanup func(), err error) {
	var files []string
	osDir := ""
	cleanup = func() {
		for _, f := range files {
			pand.Remove(f)
		}
		if osDir != "" {
			os.RemoveAll(osDir)
		}
	}
	write := func(ext string, data []byte) string {
		if c.OsFs && hasOsFs(c.Kind) {
			// a real file in a directory of its own, removed with the case
			if osDir == "" {
				d, e := os.MkdirTemp("", "verif-c08-osfs-")
				if e != nil {
					panic(e)
				}
				osDir = d
			}
			n := filepath.Join(osDir, "ammo"+ext)
			if e := os.WriteFile(n, data, 0o644); e != nil {
				panic(e)
			}
			return n
		}
		n := pand.WriteFile("c08", ext, data)
		files = append(files, n)
		return n
	}
	conf = map[string]any{}
	tail := ""
	if c.BrokenTail && canBreak(c.Kind) {
		tail = brokenTail(c.Kind)
	}
	if c.Limit > 0 {
		conf["limit"] = c.Limit
	}
	if c.Passes > 0 {
		conf["passes"] = c.Passes
	}
	if c.Filter != "" {
		var tags []any
		for _, i := range c.Chosen {
			tags = append(tags, c.tag(i))
		}
		if c.GhostTag != "" {
			// somewhere in the middle of the list
			at := len(tags) / 2
			tags = append(tags[:at:at], append([]any{c.GhostTag}, tags[at:]...)...)
		}
		conf["chosencases"] = tags
	}
	if c.MaxAmmoSize > 0 {
		conf["maxammosize"] = c.MaxAmmoSize
	}
	switch {
	case isHTTP(c.Kind):
		f := simpleFile(c)
		conf["type"] = ag.ProviderType(f.Format)
		conf["file"] = write(".ammo", append(f.Render(), tail...))
		if c.Preload {
			conf["preload"] = true
		}
	case c.Kind == "grpc/json":
		var sb strings.Builder
		for i := 0; i < c.Entries; i++ {
			b, _ := json.Marshal(grpcEntry(c, i))
			sb.Write(b)
			sb.WriteString("\n")
		}
		conf["type"] = "grpc/json"
		conf["file"] = write(".json", []byte(sb.String()+tail))
	case c.Kind == "http/scenario":
		var sb strings.Builder
		sb.WriteString("requests:\n  - name: r\n    method: GET\n    uri: /x\nscenarios:\n")
		for i := 0; i < c.Entries; i++ {
			fmt.Fprintf(&sb, "  - name: s%d\n    weight: 1\n    min_waiting_time: 0\n    requests:\n      - r(1)\n", i)
		}
		conf["type"] = "http/scenario"
		conf["file"] = write(".yaml", []byte(sb.String()))
	case c.Kind == "grpc/scenario":
		var sb strings.Builder
		sb.WriteString("calls:\n  - name: c\n    call: target.TargetService.Hello\n    payload: '{\"name\": \"x\"}'\nscenarios:\n")
		for i := 0; i < c.Entries; i++ {
			fmt.Fprintf(&sb, "  - name: s%d\n    weight: 1\n    min_waiting_time: 0\n    requests:\n      - c(1)\n", i)
		}
		conf["type"] = "grpc/scenario"
		conf["file"] = write(".yaml", []byte(sb.String()))
	case c.Kind == "json":
		var sb strings.Builder
		for i := 0; i < c.Entries; i++ {
			fmt.Fprintf(&sb, "{\"n\": %d}\n", i)
		}
		conf["type"] = "json"
		content = sb.String() + tail
		switch c.source() {
		case "file":
			conf["source"] = map[string]any{"type": "file", "path": write(".json", []byte(content))}
		case "inline":
			conf["source"] = map[string]any{"type": "inline", "data": content}
		case "stdin":
			conf["source"] = map[string]any{"type": "stdin"}
		case "reader_strings", "reader_file", "string":
			// built by buildProvider
		default:
			return nil, "", cleanup, fmt.Errorf("bad source %q", c.Source)
		}
		if c.Queue > 0 {
			conf["ammo-queue-size"] = c.Queue
		}
	default:
		return nil, "", cleanup, fmt.Errorf("bad kind %s", c.Kind)
	}
	return conf, content, cleanup, nil
}

const hangDeadline = 5 * time.Second

func check(c Case, o *vf.Obs) error {
	p, cleanup, err := buildProvider(c)
	defer cleanup()
	if err != nil {
		return fmt.Errorf("valid provider config rejected: %v (%+v)", err, c)
	}
	X := -1 // unbounded
	if c.Limit > 0 {
		X = c.Limit
	}
	eff := c.effEntries() // the entries the test uses: all of the file, or those chosencases lists
	if c.Passes > 0 && (X < 0 || c.Passes*eff < X) {
		X = c.Passes * eff
	}
	o.Class("kind_" + c.Kind)
	switch {
	case c.Limit > 0 && c.Passes > 0:
		o.Class(c.Kind + "/both")
	case c.Limit > 0:
		o.Class(c.Kind + "/limit_only")
	case c.Passes > 0:
		o.Class(c.Kind + "/passes_only")
	default:
		o.Class(c.Kind + "/none")
	}
	o.ClassIf(c.Preload, "preload")
	o.ClassIf(c.Entries == 1, "single_entry")
	o.ClassIf(c.Engine, "through_engine")
	o.ClassIf(c.Filter == "subset", "chosencases_subset")
	o.ClassIf(c.Filter == "subset" && eff < c.Entries, "chosencases_proper_subset")
	o.ClassIf(c.MaxAmmoSize > 0, "maxammosize_set")
	if c.OsFs {
		// the provider holds a real OS file; "bounded" = it ends by itself at its bounds, "cancelled" = only the cancel ends it
		o.Class("os_fs")
		o.Class(c.Kind + "/os_fs")
		o.ClassIf(c.Preload, c.Kind+"/os_fs_preload")
		o.ClassIf(X >= 0 && c.Filter != "nothing", "os_fs_bounded")
		o.ClassIf(X >= 0 && c.Filter != "nothing", c.Kind+"/os_fs_bounded")
		o.ClassIf(X >= 0 && c.Filter != "nothing" && c.Engine, "os_fs_bounded_through_engine")
		o.ClassIf(X >= 0 && c.Filter != "nothing" && c.Engine, c.Kind+"/os_fs_bounded_through_engine")
		o.ClassIf(X < 0 && c.Filter != "nothing" && !c.BrokenTail, "os_fs_cancelled")
		o.ClassIf(X < 0 && c.Filter != "nothing" && !c.BrokenTail, c.Kind+"/os_fs_cancelled")
	}
	if c.Kind == "json" {
		// "read_again" = the bounds need the source to be read from its start more than once
		o.Class("json/source_" + c.source())
		again := X < 0 || X > eff
		o.ClassIf(again, "json/source_"+c.source()+"/read_again")
		o.ClassIf(again && c.Limit > 0, "json/source_"+c.source()+"/read_again_to_limit")
		o.ClassIf(again && c.Limit == 0 && c.Passes > 0, "json/source_"+c.source()+"/read_again_passes_only")
		o.ClassIf(X < 0, "json/source_"+c.source()+"/read_again_unbounded")
	}
	o.ClassIf(c.maxSize() > 0 && c.maxSize() <= defaultMaxEntry, "entries_1k_to_48k")
	if c.maxSize() > defaultMaxEntry {
		// an entry above the default bound of one entry, legal because maxammosize is raised; "reread" = the bounds need
		// the file (and that entry) to be read more than once
		o.Class("entries_over_64k")
		o.Class(c.Kind + "/entries_over_64k")
		reread := X < 0 || X > eff
		o.ClassIf(reread, "entries_over_64k_read_again")
		o.ClassIf(reread, c.Kind+"/entries_over_64k_read_again")
	}
	if c.maxLine() > 4096 {
		// a line of the file (not a body) is longer than the buffer of a bufio.Reader / the first buffer of a bufio.Scanner
		o.Class("long_line")
		o.Class(c.Kind + "/long_line")
		o.Class(c.Kind + "/long_line_in_" + c.LongLine)
		o.ClassIf(c.Preload, "long_line_preload")
		o.ClassIf(X < 0 || X > eff, "long_line_read_again")
		o.ClassIf(c.maxLine() > 8192, "long_line_over_8k")
	}
	if c.Kind == "grpc/json" && c.mixedKeys() {
		// the lines of the file do not all carry the same keys
		untagged := false
		for i := 0; i < c.Entries; i++ {
			untagged = untagged || c.tag(i) == ""
		}
		o.Class("grpc/json/mixed_keys")
		o.ClassIf(untagged, "grpc/json/mixed_keys_untagged_entries")
		o.ClassIf(untagged && c.Filter == "subset", "grpc/json/mixed_keys_untagged_entries_chosencases")
		o.ClassIf(c.LongRun > 0, "grpc/json/mixed_keys_long_run")
		o.ClassIf(untagged && c.Filter == "subset" && c.LongRun > 0, "grpc/json/mixed_keys_untagged_entries_chosencases_long_run")
	}
	if c.LongRun > 0 && c.Filter != "nothing" {
		o.Class("long_run")
		o.Class(c.Kind + "/long_run")
		o.ClassIf(X >= 0, "long_run_bounded")
		o.ClassIf(X >= 0 && c.Engine, "long_run_bounded_through_engine")
		o.ClassIf(c.Filter == "subset", "long_run_chosencases")
	}
	if c.Filter == "nothing" {
		o.NonTrivial()
		return checkNothing(c, p, o)
	}
	if X >= 0 && !(c.Kind == "uri" && !c.Preload) {
		o.NonTrivial()
	}
	id := newIdentity(c)
	defer func() { o.ClassIf(id.reused(), c.Kind+"/released_ammo_object_delivered_again") }()
	if X >= 0 && c.Engine {
		if err := checkEngine(c, p, X, id); err != nil {
			return err
		}
		return id.verdict(c, X)
	}
	if X >= 0 {
		res, err := provrun.Drain(p, X+c.Consumers+3, c.Consumers, hangDeadline, id.observe)
		if err != nil {
			return fmt.Errorf("%s limit=%d passes=%d entries=%d%s: %v", c.Kind, c.Limit, c.Passes, c.Entries, c.extras(), err)
		}
		if len(res.Items) != X {
			return fmt.Errorf("%s (preload=%v) limit=%d passes=%d entries=%d%s: %d ammo delivered, expected min of the non-zero bounds = %d (Run error: %v, hung: %q)",
				c.Kind, c.Preload, c.Limit, c.Passes, c.Entries, c.extras(), len(res.Items), X, res.RunErr, res.Hung)
		}
		if res.Hung != "" {
			return fmt.Errorf("%s (preload=%v) limit=%d passes=%d entries=%d%s: after the bound was reached: %s (nobody may stay blocked, the provider must return by itself)",
				c.Kind, c.Preload, c.Limit, c.Passes, c.Entries, c.extras(), res.Hung)
		}
		if !res.EndSeen {
			return fmt.Errorf("%s%s: consumers never observed end of ammo", c.Kind, c.extras())
		}
		if res.RunErr != nil {
			return fmt.Errorf("%s (preload=%v) limit=%d passes=%d entries=%d%s: provider finished with error %q after delivering its %d ammo, expected nil",
				c.Kind, c.Preload, c.Limit, c.Passes, c.Entries, c.extras(), res.RunErr, X)
		}
		return id.verdict(c, X)
	}
	// unbounded: take 3E+2 (long run: LongRun), then cancel; everything must come back promptly
	want := 3*c.Entries + 2
	if c.LongRun > 0 {
		want = c.LongRun
	}
	if c.Live {
		return checkLive(c, p, want, o)
	}
	o.ClassIf(c.SettleUs > 0, "cancel_after_consumers_stopped")
	o.ClassIf(c.SettleUs > 0, c.Kind+"/cancel_after_consumers_stopped")
	res, err := provrun.DrainSettle(p, want, c.Consumers, hangDeadline, time.Duration(c.SettleUs)*time.Microsecond, id.observe)
	if err != nil {
		return fmt.Errorf("%s%s unbounded, cancelled %dus after the consumers took their last ammo: %v", c.Kind, c.extras(), c.SettleUs, err)
	}
	if len(res.Items) != want {
		return fmt.Errorf("%s%s unbounded (limit=0, passes=0): only %d ammo delivered of the %d requested (Run error: %v)", c.Kind, c.extras(), len(res.Items), want, res.RunErr)
	}
	if res.Hung != "" {
		return fmt.Errorf("%s%s unbounded: %s", c.Kind, c.extras(), res.Hung)
	}
	if res.RunErr != nil && res.RunErr != context.Canceled && !strings.Contains(res.RunErr.Error(), "context canceled") {
		return fmt.Errorf("%s%s unbounded: Run returned %q after cancel (expected nil or the context error)", c.Kind, c.extras(), res.RunErr)
	}
	if c.OsFs && !cleanCancel(res.RunErr) {
		return fmt.Errorf("%s (preload=%v)%s unbounded, ammo file on the OS file system: Run returned %q after cancel, expected nil or the bare context error (the engine fails the pool for anything else)", c.Kind, c.Preload, c.extras(), res.RunErr)
	}
	// exactly `want` Acquire calls were made: what they got are the first `want` ammo the provider handed over
	return id.verdict(c, want)
}

// identity is the second half of "exactly min(limit, passes x entries) ammo items are delivered": the ammo that are
// delivered are the entries of the file that count (all, or those chosencases lists), pass after pass in file order - so
// the N ammo of a run are the first N of that cyclic sequence, whoever of the consumers got which. Judged for the kinds
// whose ammo this check can read (HTTP formats: request URI, tag, body; grpc/json: tag, call, metadata, payload), where
// all N deliveries are observed: bounded cells (drained directly: before Release; through the engine: in Shoot) and the
// unbounded cells that stop acquiring after N. A delivered ammo is read before it is released, as a gun does.
type identity struct {
	mu       sync.Mutex
	index    map[string]int // what an entry that counts looks like when delivered -> its group (entries that look alike: grpc/json lines with neither tag nor payload)
	got      []int          // deliveries per group
	foreign  []string       // delivered ammo that are no entry that counts (first few)
	nForeign int
	obsErr   error
	seen     map[*grpcammo.Ammo]bool
	again    bool // an ammo object came a second time: it was released, recycled by the provider and delivered again
}

func hasIdentity(k string) bool { return isHTTP(k) || k == "grpc/json" }

func newIdentity(c Case) *identity {
	if !hasIdentity(c.Kind) {
		return nil
	}
	id := &identity{index: map[string]int{}, seen: map[*grpcammo.Ammo]bool{}}
	for _, i := range c.counted() {
		k := c.delivered(i)
		if _, ok := id.index[k]; !ok {
			id.index[k] = len(id.index)
		}
	}
	id.got = make([]int, len(id.index))
	return id
}

// delivered is the identity key of entry i as the provider must deliver it.
func (c Case) delivered(i int) string {
	if c.Kind == "grpc/json" {
		e := grpcEntry(c, i)
		a := grpcammo.Ammo{Tag: c.tag(i), Call: e["call"].(string)}
		if m, ok := e["metadata"].(map[string]string); ok {
			a.Metadata = m
		}
		if p, ok := e["payload"].(map[string]any); ok {
			a.Payload = p
		}
		return grpcKey(&a)
	}
	body := ""
	switch {
	case c.size(i) > 0:
		body = filler(c.size(i))
	case c.Kind == "uripost":
		body = fmt.Sprintf("body%d", i)
	}
	return httpKey(c.uri(i), c.tag(i), []byte(body))
}

func grpcKey(a *grpcammo.Ammo) string {
	b, _ := json.Marshal(struct {
		Tag, Call string
		Metadata  map[string]string
		Payload   map[string]any
	}{a.Tag, a.Call, a.Metadata, a.Payload})
	return string(b)
}

func httpKey(uri, tag string, body []byte) string {
	return fmt.Sprintf("uri=%s tag=%q body[%d]=%s", uri, tag, len(body), body)
}

func (id *identity) reused() bool {
	if id == nil {
		return false
	}
	id.mu.Lock()
	defer id.mu.Unlock()
	return id.again
}

// observe is called with every delivered ammo before it is released (never fails: the verdict comes at the end).
func (id *identity) observe(a core.Ammo) error {
	if id == nil {
		return nil
	}
	key := ""
	var ptr *grpcammo.Ammo
	if ga, ok := a.(*grpcammo.Ammo); ok {
		key, ptr = grpcKey(ga), ga
	} else {
		g, err := ag.Observe(a)
		if err != nil {
			id.mu.Lock()
			if id.obsErr == nil {
				id.obsErr = err
			}
			id.mu.Unlock()
			return nil
		}
		key = httpKey(g.URI, g.Tag, g.Body)
	}
	id.mu.Lock()
	defer id.mu.Unlock()
	if ptr != nil {
		if id.seen[ptr] {
			id.again = true
		}
		id.seen[ptr] = true
	}
	if pos, ok := id.index[key]; ok {
		id.got[pos]++
		return nil
	}
	id.nForeign++
	if len(id.foreign) < 3 {
		if len(key) > 300 {
			key = key[:300] + "..."
		}
		id.foreign = append(id.foreign, key)
	}
	return nil
}

// verdict after a run in which exactly n ammo were delivered and observed.
func (id *identity) verdict(c Case, n int) error {
	if id == nil {
		return nil
	}
	id.mu.Lock()
	defer id.mu.Unlock()
	what := fmt.Sprintf("%s (preload=%v) limit=%d passes=%d entries=%d%s", c.Kind, c.Preload, c.Limit, c.Passes, c.Entries, c.extras())
	if id.obsErr != nil {
		return fmt.Errorf("%s: a delivered ammo cannot be read: %v", what, id.obsErr)
	}
	counted := c.counted()
	if id.nForeign > 0 {
		return fmt.Errorf("%s: %d of the %d delivered ammo are none of the %d entries of the file that count (entries %v); e.g. %q",
			what, id.nForeign, n, len(counted), counted, id.foreign)
	}
	want := make([]int, len(id.got))
	members := make([][]int, len(id.got))
	for pos, i := range counted {
		g := id.index[c.delivered(i)]
		members[g] = append(members[g], i)
		want[g] += n / len(counted)
		if pos < n%len(counted) {
			want[g]++
		}
	}
	for g := range want {
		if id.got[g] != want[g] {
			return fmt.Errorf("%s: entry %v was delivered %d times among the %d ammo of the run, expected %d (the entries that count, %v, pass after pass in file order; deliveries %v of the entries %v)",
				what, members[g], id.got[g], n, want[g], counted, id.got, members)
		}
	}
	return nil
}

// cleanCancel: what a cancelled provider may return so that the run still "ends successfully" - nil, or the error of its
// cancelled context as such. It is the test core/engine applies to the provider's result (errutil.IsCtxError: the cause
// of the error is the context's error); a context error bundled with another failure ("Multiple errors faced: context
// canceled, close ...") has no such cause and fails the pool.
func cleanCancel(err error) bool {
	return err == nil || pkgerrors.Cause(err) == context.Canceled
}

// checkLive: nobody stops acquiring by itself. Whatever makes Run return - the cancel that arrives while the consumers
// are acquiring, or a malformed entry - every consumer, also one that calls Acquire only afterwards, must come to end of
// ammo instead of staying blocked ("once ... it is cancelled a provider never keeps consumers blocked ... and returns
// promptly"; a failed provider has stopped for good just the same).
func checkLive(c Case, p core.Provider, want int, o *vf.Obs) error {
	o.Class("live_consumers")
	o.Class(c.Kind + "/live_consumers")
	o.ClassIf(c.Late > 0, "late_consumers")
	o.ClassIf(c.BrokenTail, "broken_tail")
	what := fmt.Sprintf("%s (preload=%v)%s unbounded, %d consumers acquiring until end of ammo, cancelled after %d ammo (+%dus)", c.Kind, c.Preload, c.extras(), c.Consumers, want, c.SettleUs)
	if c.BrokenTail {
		what = fmt.Sprintf("%s (preload=%v)%s unbounded, file of %d entries followed by a malformed one, %d consumers acquiring until end of ammo", c.Kind, c.Preload, c.extras(), c.Entries, c.Consumers)
	}
	res, err := provrun.DrainLive(p, want, c.Consumers, c.Late, hangDeadline, time.Duration(c.SettleUs)*time.Microsecond)
	if err != nil {
		return fmt.Errorf("%s: %v", what, err)
	}
	o.ClassIf(res.SelfStopped && res.RunErr != nil, "provider_failed_with_consumers_acquiring")
	if res.Hung != "" {
		return fmt.Errorf("%s: %s", what, res.Hung)
	}
	if !res.SelfStopped && res.RunErr != nil && res.RunErr != context.Canceled && !strings.Contains(res.RunErr.Error(), "context canceled") {
		return fmt.Errorf("%s: Run returned %q after cancel (expected nil or the context error)", what, res.RunErr)
	}
	if c.OsFs && !c.BrokenTail && !res.SelfStopped && !cleanCancel(res.RunErr) {
		return fmt.Errorf("%s, ammo file on the OS file system: Run returned %q after cancel, expected nil or the bare context error (the engine fails the pool for anything else)", what, res.RunErr)
	}
	if res.SelfStopped && res.RunErr == nil && !c.BrokenTail {
		return fmt.Errorf("%s: Run returned nil by itself after %d ammo although neither limit nor passes is set", what, res.Taken)
	}
	return nil
}

// extras describes the options beyond the bounds for messages ("" when none is set).
func (c Case) extras() string {
	var sb strings.Builder
	if c.Kind == "json" {
		fmt.Fprintf(&sb, " source=%s", c.source())
		if c.Queue > 0 {
			fmt.Fprintf(&sb, " ammo-queue-size=%d", c.Queue)
		}
	}
	switch c.Filter {
	case "subset":
		fmt.Fprintf(&sb, " chosencases=tags of entries %v", c.Chosen)
		if c.GhostTag != "" {
			fmt.Fprintf(&sb, "+%q", c.GhostTag)
		}
		fmt.Fprintf(&sb, " (%d entries chosen)", len(c.Chosen))
	case "nothing":
		fmt.Fprintf(&sb, " chosencases=[%q] (matches no entry)", c.GhostTag)
	}
	if c.MaxAmmoSize > 0 {
		fmt.Fprintf(&sb, " maxammosize=%d", c.MaxAmmoSize)
	}
	if c.OsFs {
		sb.WriteString(" fs=os")
	}
	if c.maxSize() > 0 {
		fmt.Fprintf(&sb, " entry body sizes=%v", c.Sizes)
	}
	if c.maxLine() > 0 {
		fmt.Fprintf(&sb, " long lines: %s of +%v bytes", c.LongLine, c.LineLens)
	}
	if c.Keys != nil {
		fmt.Fprintf(&sb, " keys per line (t=tag m=metadata p=payload)=%q", c.Keys)
	}
	if c.LongRun > 0 {
		fmt.Fprintf(&sb, " long run (about %d ammo)", c.LongRun)
	}
	return sb.String()
}

// checkNothing: chosencases lists only a tag that no entry carries, so the provider has nothing to hand over and -
// unless it ends by itself (passes used up, "no ammo" failure) - is reading its file when the cancel arrives, not
// parked on the hand-over as in the other cancelled cells. "Once ... it is cancelled a provider never keeps consumers
// blocked, never spins, and returns promptly": Run must return within the hang deadline after the cancel, the consumers
// that were in Acquire all along and consumers calling Acquire afterwards must see end of ammo, and not one ammo may have
// been delivered (min(limit, passes x 0)). How a provider that never had ammo ends by itself (nil / error) is not
// judged here (known open question chosencases-empty-match-preload-differs of C14).
func checkNothing(c Case, p core.Provider, o *vf.Obs) error {
	o.Class("chosencases_match_nothing")
	o.Class(c.Kind + "/chosencases_match_nothing")
	what := fmt.Sprintf("%s (preload=%v) limit=%d passes=%d entries=%d%s, %d consumers in Acquire", c.Kind, c.Preload, c.Limit, c.Passes, c.Entries, c.extras(), c.Consumers)
	ctx, cancel := context.WithCancel(context.Background())
	defer cancel()
	runDone := make(chan error, 1)
	go func() {
		defer func() {
			if r := recover(); r != nil {
				runDone <- fmt.Errorf("panic in provider.Run: %v", r)
			}
		}()
		runDone <- p.Run(ctx, core.ProviderDeps{Log: pand.NopLog(), PoolID: "verif"})
	}()
	var taken atomic.Int64
	var panicked atomic.Value
	consume := func(n int) chan struct{} {
		var wg sync.WaitGroup
		for i := 0; i < n; i++ {
			wg.Add(1)
			go func() {
				defer wg.Done()
				defer func() {
					if r := recover(); r != nil {
						panicked.Store(fmt.Sprintf("panic in Acquire/Release: %v", r))
					}
				}()
				for {
					a, ok := p.Acquire()
					if !ok {
						return
					}
					taken.Add(1)
					p.Release(a)
				}
			}()
		}
		done := make(chan struct{})
		go func() { wg.Wait(); close(done) }()
		return done
	}
	liveDone := consume(c.Consumers)
	// the provider scans for a while (or ends by itself), then the cancel
	var runErr error
	selfStopped := false
	scan := time.NewTimer(time.Duration(c.SettleUs) * time.Microsecond)
	defer scan.Stop()
	select {
	case runErr = <-runDone:
		selfStopped = true
	case <-scan.C:
	}
	cancel()
	if !selfStopped {
		o.Class("cancelled_while_scanning")
		o.Class(c.Kind + "/cancelled_while_scanning")
		select {
		case runErr = <-runDone:
		case <-time.After(hangDeadline):
			return fmt.Errorf("%s: Provider.Run has not returned %v after its context was cancelled (cancel came %dus after the start, while the provider was reading its file)", what, hangDeadline, c.SettleUs)
		}
	}
	select {
	case <-liveDone:
	case <-time.After(hangDeadline):
		return fmt.Errorf("%s: Run has returned (%v, by itself: %v) but the consumers are still blocked in Acquire %v later", what, runErr, selfStopped, hangDeadline)
	}
	if c.Late > 0 {
		select {
		case <-consume(c.Late):
		case <-time.After(hangDeadline):
			return fmt.Errorf("%s: Run has returned (%v), but %d consumer(s) calling Acquire afterwards are still blocked %v later instead of seeing end of ammo", what, runErr, c.Late, hangDeadline)
		}
	}
	if v := panicked.Load(); v != nil {
		return fmt.Errorf("%s: %v", what, v)
	}
	if n := taken.Load(); n != 0 {
		return fmt.Errorf("%s: %d ammo delivered although no entry carries a listed tag", what, n)
	}
	return nil
}

type countGun struct {
	n  *atomic.Int64
	id *identity
}

func (g countGun) Bind(core.Aggregator, core.GunDeps) error { return nil }
func (g countGun) Shoot(a core.Ammo)                        { g.n.Add(1); _ = g.id.observe(a) }

func checkEngine(c Case, p core.Provider, X int, id *identity) error {
	var shots atomic.Int64
	aggr := fake.NewAggregator(fake.AggPlan{})
	conf := engine.Config{Pools: []engine.InstancePoolConfig{{
		ID: "p", Provider: p, Aggregator: aggr,
		NewGun:          func() (core.Gun, error) { return countGun{&shots, id}, nil },
		NewRPSSchedule:  func() (core.Schedule, error) { return schedule.NewOnce(int64(X + 50)), nil },
		StartupSchedule: schedule.NewOnce(int64(c.Consumers)),
	}}}
	eng := engine.New(pand.NopLog(), pand.Metrics(), conf)
	ctx, cancel := context.WithCancel(context.Background())
	defer cancel()
	var runErr error
	ok, _ := vf.Deadline(hangDeadline, func() { runErr = eng.Run(ctx) })
	if !ok {
		cancel()
		return fmt.Errorf("%s (preload=%v) limit=%d passes=%d entries=%d"+c.extras()+": a pool over this provider did not finish within %v although only %d ammo exist (%d shots so far)",
			c.Kind, c.Preload, c.Limit, c.Passes, c.Entries, hangDeadline, X, shots.Load())
	}
	if runErr != nil {
		return fmt.Errorf("%s (preload=%v) limit=%d passes=%d entries=%d"+c.extras()+": the run ended with %q, expected success after %d shots (%d made)",
			c.Kind, c.Preload, c.Limit, c.Passes, c.Entries, runErr, X, shots.Load())
	}
	if int(shots.Load()) != X {
		return fmt.Errorf("%s (preload=%v) limit=%d passes=%d entries=%d"+c.extras()+": %d shots, expected %d", c.Kind, c.Preload, c.Limit, c.Passes, c.Entries, shots.Load(), X)
	}
	return nil
}

func TestBounds(t *testing.T) {
	pand.Init()
	r := vf.Start(t, "C08")
	vf.Check(r, genCase, check)
}

// TestLongRuns: the same property and oracle over the long-run region of the matrix (see genLongRunCase).
func TestLongRuns(t *testing.T) {
	pand.Init()
	r := vf.Start(t, "C08")
	vf.Check(r, genLongRunCase, check)
}
